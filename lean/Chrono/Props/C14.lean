/-
  C14 — field resolution never returns a value that contradicts a supplied field.
  Property statements only.  Model: Model/ParsedCore.lean (record, setters) and
  Model/ParsedResolve.lean (resolution).  Specification: Spec/ParsedSpec.lean (namespace `Chrono.Spec.Fields`) — `DateAgrees`,
  `TimeAgrees`, `timestampIs` (what "agrees with every supplied field" means, read off the calendar
  specification of C01), `DateSufficient` / `TimeSufficient` (the documented combinations),
  `GroupCoherent` / `GroupDeterminate` (year groups).  Helper lemmas: Proofs/ParsedL.lean,
  Proofs/ParsedDateL.lean, Proofs/ParsedDtL.lean, Proofs/ParsedIsoL.lean (on C01's ISO-week theorems),
  Proofs/ParsedTsL.lean (on C02/C03), Proofs/ParsedTsCompleteL.lean (completeness of the timestamp
  fall-back), Proofs/ParsedZonedL.lean (on C04), Proofs/ParsedZoneL.lean
  (arbitrary zones: Model/ParsedZone.lean's `to_datetime_with_timezone_gen`, step zones).

  `InType p` says that every field holds a value of its Rust type (`i32`/`u32`/`i64`); it is the
  only restriction on the record — all 2^21 subsets and all values are covered by each statement.
  `VD Y o` = "the o-th day of year Y exists and Y is in the supported range"; `dateOfYo Y o` is its
  packed value (C01).
-/
import Chrono.Proofs.ParsedZonedL
import Chrono.Proofs.ParsedZoneL
import Chrono.Proofs.ParsedTsCompleteL
import Chrono.Proofs.ParsedZFieldsL
import Chrono.Proofs.ParsedKindsL
import Chrono.Proofs.ParsedLeapTsL
import Chrono.Proofs.ParsedIsoSpecL
import Chrono.Proofs.ParsedSettersL
import Chrono.Model.DateOps
import Chrono.Model.Format
import Chrono.Props.GenDateOps

namespace Chrono.Props.C14
open Chrono Chrono.M Chrono.Spec Chrono.Spec.Fields Chrono.Spec.Ts Chrono.Proofs Chrono.Proofs.ParsedRes Chrono.Extracted
open Chrono.Proofs.ParsedZone Chrono.M.TzL Chrono.Proofs.ParsedZF Chrono.Proofs.ParsedKinds Chrono.Proofs.ParsedLeap
open Chrono.Proofs.ParsedIsoSpec Chrono.Proofs.ParsedSetters Chrono.Spec.Strftime

attribute [local instance] exceptDecEq

/-! ### setting a field twice -/

/-- every integer-valued setter: after a successful `set_x a`, a second `set_x b` is accepted
exactly when `b = a` (an out-of-range `b` can never equal the accepted `a`) -/
theorem set_twice (p p1 : Parsed) (a b : Int) :
    (p.set_year a = .ok p1 → ((∃ p2, p1.set_year b = .ok p2) ↔ a = b)) ∧
    (p.set_year_div_100 a = .ok p1 → ((∃ p2, p1.set_year_div_100 b = .ok p2) ↔ a = b)) ∧
    (p.set_year_mod_100 a = .ok p1 → ((∃ p2, p1.set_year_mod_100 b = .ok p2) ↔ a = b)) ∧
    (p.set_isoyear a = .ok p1 → ((∃ p2, p1.set_isoyear b = .ok p2) ↔ a = b)) ∧
    (p.set_isoyear_div_100 a = .ok p1 → ((∃ p2, p1.set_isoyear_div_100 b = .ok p2) ↔ a = b)) ∧
    (p.set_isoyear_mod_100 a = .ok p1 → ((∃ p2, p1.set_isoyear_mod_100 b = .ok p2) ↔ a = b)) ∧
    (p.set_quarter a = .ok p1 → ((∃ p2, p1.set_quarter b = .ok p2) ↔ a = b)) ∧
    (p.set_month a = .ok p1 → ((∃ p2, p1.set_month b = .ok p2) ↔ a = b)) ∧
    (p.set_week_from_sun a = .ok p1 → ((∃ p2, p1.set_week_from_sun b = .ok p2) ↔ a = b)) ∧
    (p.set_week_from_mon a = .ok p1 → ((∃ p2, p1.set_week_from_mon b = .ok p2) ↔ a = b)) ∧
    (p.set_isoweek a = .ok p1 → ((∃ p2, p1.set_isoweek b = .ok p2) ↔ a = b)) ∧
    (p.set_ordinal a = .ok p1 → ((∃ p2, p1.set_ordinal b = .ok p2) ↔ a = b)) ∧
    (p.set_day a = .ok p1 → ((∃ p2, p1.set_day b = .ok p2) ↔ a = b)) ∧
    (p.set_minute a = .ok p1 → ((∃ p2, p1.set_minute b = .ok p2) ↔ a = b)) ∧
    (p.set_second a = .ok p1 → ((∃ p2, p1.set_second b = .ok p2) ↔ a = b)) ∧
    (p.set_nanosecond a = .ok p1 → ((∃ p2, p1.set_nanosecond b = .ok p2) ↔ a = b)) ∧
    (p.set_offset a = .ok p1 → ((∃ p2, p1.set_offset b = .ok p2) ↔ a = b)) ∧
    (p.set_timestamp a = .ok p1 → ((∃ p2, p1.set_timestamp b = .ok p2) ↔ a = b)) ∧
    (p.set_hour12 a = .ok p1 → ((∃ p2, p1.set_hour12 b = .ok p2) ↔ a = b)) ∧
    (p.set_hour a = .ok p1 → ((∃ p2, p1.set_hour b = .ok p2) ↔ a = b)) :=
  ⟨twice_year p p1 a b, twice_year_div_100 p p1 a b, twice_year_mod_100 p p1 a b, twice_isoyear p p1 a b, twice_isoyear_div_100 p p1 a b, twice_isoyear_mod_100 p p1 a b, twice_quarter p p1 a b, twice_month p p1 a b, twice_week_from_sun p p1 a b, twice_week_from_mon p p1 a b, twice_isoweek p p1 a b, twice_ordinal p p1 a b, twice_day p p1 a b, twice_minute p p1 a b, twice_second p p1 a b, twice_nanosecond p p1 a b, twice_offset p p1 a b, twice_timestamp p p1 a b, twice_hour12 p p1 a b, twice_hour p p1 a b⟩

/-- the two setters with non-integer arguments -/
theorem set_twice_weekday_ampm (p p1 : Parsed) :
    (∀ a b : Weekday, p.set_weekday a = .ok p1 → ((∃ p2, p1.set_weekday b = .ok p2) ↔ a = b)) ∧
    (∀ a b : Bool, p.set_ampm a = .ok p1 → ((∃ p2, p1.set_ampm b = .ok p2) ↔ a = b)) :=
  ⟨fun a b => twice_weekday p p1 a b, fun a b => twice_ampm p p1 a b⟩

/-- non-vacuity: a first set succeeds, the same value again succeeds, another value is refused with
IMPOSSIBLE, an out-of-range value with OUT_OF_RANGE -/
example : (∃ p1, Parsed.new.set_month 2 = .ok p1 ∧ p1.set_month 2 = .ok p1 ∧
    p1.set_month 3 = .error .impossible ∧ p1.set_month 13 = .error .outOfRange) :=
  ⟨{ month := some 2 }, rfl, rfl, rfl, rfl⟩

/-! ### times -/

/-- a resolved time is a value the public constructors can build and agrees with every supplied
time field (12-hour clock halves, minute, second incl. 60 = leap second, nanosecond); an omitted
second / nanosecond is zero in the result; resolution succeeded only on a sufficient set of
in-range fields -/
theorem time_sound (p : Parsed) (t : Time) (h : Parsed.to_naive_time p = .ok t) :
    TStrict t ∧ TimeAgrees p t ∧ TimeSufficient p ∧ TimeInRange p := time_sound' p t h

/-- completeness: fields that agree with a real time of day and contain the documented sufficient
combination resolve to exactly that time -/
theorem time_complete (p : Parsed) (t : Time) (ht : TStrict t) (ha : TimeAgrees p t)
    (hs : TimeSufficient p) : Parsed.to_naive_time p = .ok t := time_complete' p t ht ha hs

/-- error kinds of the time resolver: only NOT_ENOUGH and OUT_OF_RANGE occur; OUT_OF_RANGE only
with an out-of-range field; for in-range fields NOT_ENOUGH is reported exactly for insufficient sets.
(The resolver cannot panic: its model is `PRes`-valued, no machine arithmetic can overflow.) -/
theorem time_error_kinds (p : Parsed) :
    (∀ e, Parsed.to_naive_time p = .error e → e = .notEnough ∨ e = .outOfRange) ∧
    (Parsed.to_naive_time p = .error .outOfRange → ¬ TimeInRange p) ∧
    (Parsed.to_naive_time p = .error .notEnough → ¬ TimeSufficient p) ∧
    (TimeInRange p → (Parsed.to_naive_time p = .error .notEnough ↔ ¬ TimeSufficient p)) := by
  refine ⟨fun e h => ?_, fun h => ?_, fun h => ?_, fun hr => ⟨fun h => ?_, fun hns => ?_⟩⟩
  · rcases time_err' p e h with ⟨h1, _⟩ | ⟨h1, _⟩ <;> simp [h1]
  · rcases time_err' p _ h with ⟨h1, _⟩ | ⟨_, h2⟩
    · cases h1
    · exact h2
  · rcases time_err' p _ h with ⟨_, h2⟩ | ⟨h1, _⟩
    · exact h2
    · cases h1
  · rcases time_err' p _ h with ⟨_, h2⟩ | ⟨h1, _⟩
    · exact h2
    · cases h1
  · cases hres : Parsed.to_naive_time p with
    | ok t => exact absurd (time_sound' p t hres).2.2.1 hns
    | error e =>
      rcases time_err' p e hres with ⟨h1, _⟩ | ⟨_, h2⟩
      · rw [h1]
      · exact absurd hr h2

/-- non-vacuity: 23:59:60.5 (a leap second) from the 12-hour fields, an insufficient set, an
out-of-range minute -/
example :
    Parsed.to_naive_time {
      hour_div_12 := some 1, hour_mod_12 := some 11, minute := some 59,
      second := some 60, nanosecond := some 500000000 } = .ok ⟨86399, 1500000000⟩ ∧
    Parsed.to_naive_time { hour_div_12 := some 1, minute := some 59 } = .error .notEnough ∧
    Parsed.to_naive_time { hour_div_12 := some 1, hour_mod_12 := some 11, minute := some 60 }
      = .error .outOfRange := by decide +kernel

/-! ### dates -/

/-- the date resolver never panics: for every record of in-type field values it returns a date or
an error kind -/
theorem date_no_panic (p : Parsed) (hp : InType p) : ∃ r, Parsed.to_naive_date p = .ok r := by
  obtain ⟨r, hr, _⟩ := date_main p hp
  exact ⟨r, hr⟩

/-- soundness, EVERY record (all 2^21 subsets, whichever combination the resolver uses — calendar,
ordinal, Sunday/Monday week, or ISO week date): a successful result is an existing day of the
supported range and agrees with every supplied date field — full year, century, two-digit year,
quarter, month, both week numbers, weekday, ordinal, day, and the three ISO-week fields.
(The ISO combination rests on C01's `isoywd_roundtrip`.) -/
theorem date_sound (p : Parsed) (hp : InType p) (d : Date)
    (h : Parsed.to_naive_date p = .ok (.ok d)) :
    ∃ Y o, VD Y o ∧ d = dateOfYo Y o ∧ DateAgrees p Y o := by
  obtain ⟨r, hr, hok, _⟩ := date_main p hp
  rw [hr] at h
  cases h
  obtain ⟨Y, o, hvd, hd, hag⟩ := hok d rfl
  exact ⟨Y, o, hvd, hd, hag (Or.inl isoCtorSpec_holds)⟩

/-- every successful result is an existing day of the supported range -/
theorem date_result_valid (p : Parsed) (hp : InType p) (d : Date)
    (h : Parsed.to_naive_date p = .ok (.ok d)) : ∃ Y o, VD Y o ∧ d = dateOfYo Y o := by
  obtain ⟨r, hr, hok, _⟩ := date_main p hp
  rw [hr] at h
  cases h
  obtain ⟨Y, o, hvd, hd, _⟩ := hok d rfl
  exact ⟨Y, o, hvd, hd⟩

/-- completeness for dates: fields that all agree with one real day `(Y, o)` of the supported
range, with each year group determinate (full year, or century + two-digit year, or the two-digit
year alone with the real year in 1970–2069; the ISO group likewise w.r.t. the day's ISO year) and
one of the documented combinations present (year with month+day, ordinal, Sunday/Monday week
number with weekday — `UsesCalendar` — or ISO year with ISO week and weekday — `UsesIso`) resolve
to exactly that day, whichever combination the resolver happens to pick first. -/
theorem date_complete (p : Parsed) (hp : InType p) (Y : Int) (o : Nat) (hvd : VD Y o)
    (hag : DateAgrees p Y o)
    (hdY : GroupDeterminate p.year p.year_div_100 p.year_mod_100 Y)
    (hdI : ∀ w, (dateOfYo Y o).iso_week = .ok w →
      GroupDeterminate p.isoyear p.isoyear_div_100 p.isoyear_mod_100 (IsoWeek.year w))
    (hc : UsesCalendar p ∨ UsesIso p) :
    Parsed.to_naive_date p = .ok (.ok (dateOfYo Y o)) := date_complete_full p hp Y o hvd hag hdY hdI hc

/-- non-vacuity for the ISO combination: 2020-W53-5 is 2021-01-01 (ISO year ≠ calendar year) -/
example : UsesIso { isoyear := some 2020, isoweek := some 53, weekday := some .fri } ∧
    Parsed.to_naive_date { isoyear := some 2020, isoweek := some 53, weekday := some .fri }
      = .ok (.ok (dateOfYo 2021 1)) ∧
    Parsed.to_naive_date { isoyear := some 2020, isoweek := some 53, weekday := some .fri, year := some 2020 }
      = .ok (.error .impossible) := by
  refine ⟨⟨Or.inl (by simp), by simp, by simp⟩, by decide +kernel, by decide +kernel⟩

/-- non-vacuity of the hypotheses of `date_complete`: a two-digit year alone (pivot), a week number
and a weekday describe 1999-12-31 (day 365, a Friday in Sunday-week 52) -/
example : VD 1999 365 ∧ UsesCalendar { year_mod_100 := some 99, week_from_sun := some 52, weekday := some .fri } ∧
    GroupDeterminate none none (some 99) 1999 ∧ weekNo 1999 365 6 = 52 ∧ weekdayOf (dayNumYo 1999 365) = 4 ∧
    Parsed.to_naive_date { year_mod_100 := some 99, week_from_sun := some 52, weekday := some .fri }
      = .ok (.ok (dateOfYo 1999 365)) := by
  refine ⟨by unfold VD; decide, ⟨Or.inr (by simp), Or.inr (Or.inr (Or.inl ⟨by simp, by simp⟩))⟩,
    ⟨by simp [GroupUsable], fun _ _ _ => by omega⟩, by decide, by decide, by decide +kernel⟩

/-- error kinds of the date resolver: only NOT_ENOUGH, IMPOSSIBLE, OUT_OF_RANGE occur; NOT_ENOUGH
only for sets that contain none of the documented combinations (or a century without two-digit
year); and when the two year groups are coherent (no contradicting or out-of-range member),
NOT_ENOUGH is reported exactly for the insufficient sets -/
theorem date_error_kinds (p : Parsed) (hp : InType p) :
    (∀ e, Parsed.to_naive_date p = .ok (.error e) → e = .notEnough ∨ e = .impossible ∨ e = .outOfRange) ∧
    (Parsed.to_naive_date p = .ok (.error .notEnough) → ¬ DateSufficient p) ∧
    (GroupCoherent p.year p.year_div_100 p.year_mod_100 →
      GroupCoherent p.isoyear p.isoyear_div_100 p.isoyear_mod_100 →
      (Parsed.to_naive_date p = .ok (.error .notEnough) ↔ ¬ DateSufficient p)) := by
  obtain ⟨r, hr, _, hk, hne⟩ := date_main p hp
  refine ⟨fun e h => ?_, fun h => ?_, fun h1 h2 => date_not_enough_iff p hp h1 h2⟩
  · rw [hr] at h; cases h; exact hk e rfl
  · rw [hr] at h; cases h; exact hne rfl

/-- the year group alone: a resolved year agrees with full year, century and two-digit year; a
lone two-digit year is read with the 1970–2069 pivot; a lone century is NOT_ENOUGH -/
theorem year_group (y q r : Option Int) :
    (∀ g, Parsed.resolve_year y q r = .ok g →
      (g = none ∧ y = none ∧ q = none ∧ r = none) ∨
      (∃ Y, g = some Y ∧ optIs y Y ∧ centIs q r Y ∧ GroupHasYear y r)) ∧
    (∀ rv, 0 ≤ rv → rv ≤ 99 →
      Parsed.resolve_year none none (some rv) = .ok (some (if rv < 70 then 2000 + rv else 1900 + rv))) ∧
    (∀ qv, Parsed.resolve_year none (some qv) none = .error .notEnough) := by
  refine ⟨fun g h => resolve_year_ok y q r g h, fun rv h0 h1 => ?_, fun qv => rfl⟩
  unfold Parsed.resolve_year
  simp only []
  rw [if_pos ⟨h0, h1⟩]
  congr 2
  split <;> omega

/-- non-vacuity: a 9-field record (2024-02-29 with consistent week fields and quarter) resolves;
changing the quarter makes it IMPOSSIBLE; a non-existent day is OUT_OF_RANGE; a lone century is
NOT_ENOUGH; week 53 + Sunday of a year whose last week is shorter is IMPOSSIBLE -/
example :
    Parsed.to_naive_date {
      year_div_100 := some 20, year_mod_100 := some 24, quarter := some 1,
      month := some 2, day := some 29, weekday := some .thu, ordinal := some 60, isoweek := some 9,
      week_from_mon := some 9 } = .ok (.ok (dateOfYo 2024 60)) ∧
    Parsed.to_naive_date { year := some 2024, quarter := some 2, month := some 2, day := some 29 }
      = .ok (.error .impossible) ∧
    Parsed.to_naive_date { year := some 2023, month := some 2, day := some 29 } = .ok (.error .outOfRange) ∧
    Parsed.to_naive_date { year_div_100 := some 20, month := some 2, day := some 28 }
      = .ok (.error .notEnough) ∧
    Parsed.to_naive_date { year := some 2023, week_from_sun := some 53, weekday := some .mon }
      = .ok (.error .impossible) := by
  decide +kernel

/-! ### date-times -/

/-- the field path of `to_naive_datetime_with_offset` (date and time both resolve): no panic, the
result is exactly (date, time), and it is returned iff the supplied timestamp — if any — is the
timestamp of that local reading minus the offset, with the documented allowance of one second when
the result is a leap second; otherwise IMPOSSIBLE.  With `date_sound`/`time_sound` this is the
soundness of the date-time resolver on this path: date fields, time fields and timestamp all agree. -/
theorem datetime_sound_fields (p : Parsed) (hp : InType p) (off : Int)
    (hoff : -2147483648 ≤ off ∧ off ≤ 2147483647) (d : Date) (t : Time)
    (hd : Parsed.to_naive_date p = .ok (.ok d)) (ht : Parsed.to_naive_time p = .ok t) :
    (∃ r, Parsed.to_naive_datetime_with_offset p off = .ok r ∧
      (∀ dt, r = .ok dt → dt = ⟨d, t⟩ ∧ timestampIs p.timestamp dt off) ∧
      (∀ e, r = .error e → e = .impossible ∧ ¬ timestampIs p.timestamp ⟨d, t⟩ off) ∧
      (timestampIs p.timestamp ⟨d, t⟩ off → r = .ok ⟨d, t⟩)) := by
  obtain ⟨Y, o, hvd, rfl⟩ := date_result_valid p hp d hd
  have htv := (time_sound' p t ht).1.1
  rw [dt_fields_path p off hoff Y o t hvd htv hd ht]
  refine ⟨_, rfl, ?_⟩
  unfold timestampIs
  cases hts : p.timestamp with
  | none =>
    dsimp only
    exact ⟨(fun dt h => by cases h; exact ⟨rfl, fun g hg => by cases hg⟩), (fun e h => by cases h),
      fun _ => rfl⟩
  | some g =>
    dsimp only
    split
    · rename_i hc
      refine ⟨(fun dt h => by cases h), fun e h => ?_, fun h => ?_⟩
      · cases h
        refine ⟨rfl, fun hh => ?_⟩
        rcases hh g rfl with h1 | h1
        · exact hc.1 h1
        · exact hc.2 h1
      · rcases h g rfl with h1 | h1
        · exact absurd h1 hc.1
        · exact absurd h1 hc.2
    · rename_i hc
      refine ⟨fun dt h => ?_, (fun e h => by cases h), fun _ => rfl⟩
      cases h
      refine ⟨rfl, fun g' hg' => ?_⟩
      cases hg'
      by_cases h1 : g = timestampIs.instSecsLocal ⟨dateOfYo Y o, t⟩ - off
      · exact Or.inl h1
      · right
        have : ¬ ¬ (t.frac ≥ 1000000000 ∧ g = timestampIs.instSecsLocal ⟨dateOfYo Y o, t⟩ - off + 1) :=
          fun hn => hc ⟨h1, hn⟩
        exact Decidable.not_not.mp this

/-- completeness for date-times on the field path: date fields as in `date_complete`, time fields
agreeing with a real time of day and sufficient, and a timestamp field (if supplied) that is the
timestamp of that local reading at the given offset (or one more for a leap second) ⇒ exactly that
date-time.  The fall-back path that reconstructs year, ordinal, hour, minute and second from the
timestamp when the other fields are insufficient has its own completeness theorem:
`datetime_complete_timestamp` below (non-leap readings; a record with second 60 on that path is covered
by soundness and no-panic only: `datetime_sound`). -/
theorem datetime_complete_fields (p : Parsed) (hp : InType p) (off : Int)
    (hoff : -2147483648 ≤ off ∧ off ≤ 2147483647) (Y : Int) (o : Nat) (t : Time) (hvd : VD Y o)
    (hag : DateAgrees p Y o)
    (hdY : GroupDeterminate p.year p.year_div_100 p.year_mod_100 Y)
    (hdI : ∀ w, (dateOfYo Y o).iso_week = .ok w →
      GroupDeterminate p.isoyear p.isoyear_div_100 p.isoyear_mod_100 (IsoWeek.year w))
    (hc : UsesCalendar p ∨ UsesIso p) (ht : TStrict t) (hta : TimeAgrees p t) (hts : TimeSufficient p)
    (hstamp : timestampIs p.timestamp ⟨dateOfYo Y o, t⟩ off) :
    Parsed.to_naive_datetime_with_offset p off = .ok (.ok ⟨dateOfYo Y o, t⟩) := by
  have hd := date_complete_full p hp Y o hvd hag hdY hdI hc
  have htt := time_complete' p t ht hta hts
  obtain ⟨r, hr, _, _, hfin⟩ := datetime_sound_fields p hp off hoff _ t hd htt
  rw [hr, hfin hstamp]

/-- non-vacuity: the leap second 2016-12-31T23:59:60 with either of the two admissible timestamps,
and a contradicting one -/
example :
    Parsed.to_naive_datetime_with_offset {
      year := some 2016, month := some 12, day := some 31,
      hour_div_12 := some 1, hour_mod_12 := some 11, minute := some 59, second := some 60,
      timestamp := some 1483228799 } 0 = .ok (.ok ⟨dateOfYo 2016 366, ⟨86399, 1000000000⟩⟩) ∧
    Parsed.to_naive_datetime_with_offset {
      year := some 2016, month := some 12, day := some 31,
      hour_div_12 := some 1, hour_mod_12 := some 11, minute := some 59, second := some 60,
      timestamp := some 1483228800 } 0 = .ok (.ok ⟨dateOfYo 2016 366, ⟨86399, 1000000000⟩⟩) ∧
    Parsed.to_naive_datetime_with_offset {
      year := some 2016, month := some 12, day := some 31,
      hour_div_12 := some 1, hour_mod_12 := some 11, minute := some 59, second := some 60,
      timestamp := some 1483228801 } 0 = .ok (.error .impossible) := by
  decide +kernel

/-- soundness of `to_naive_datetime_with_offset`, EVERY record and every `i32` offset, BOTH paths
(fields, and the fall-back that reconstructs year, ordinal, hour, minute, second from the timestamp,
with the second-60 handling): never panics; errors are one of the three documented kinds; a result is
an existing day and a constructible time of day that agree with every supplied date field and every
supplied time field, and its own timestamp at the given offset is the supplied timestamp — or one
less when the result is a leap second.  (Rests on C02's `from_timestamp` and C03's checked
subtraction theorems; includes the repaired second-60-at-the-minimum case, which is OUT_OF_RANGE.) -/
theorem datetime_sound (p : Parsed) (hp : InType p) (off : Int)
    (hoff : -2147483648 ≤ off ∧ off ≤ 2147483647) :
    ∃ r, Parsed.to_naive_datetime_with_offset p off = .ok r ∧
      (∀ e, r = .error e → e = .notEnough ∨ e = .impossible ∨ e = .outOfRange) ∧
      (∀ dt, r = .ok dt → ∃ Y o, VD Y o ∧ dt.date = dateOfYo Y o ∧ DateAgrees p Y o ∧
        TStrict dt.time ∧ TimeAgreesSupplied p dt.time ∧ timestampIs p.timestamp dt off) :=
  dt_main p hp off hoff

/-- non-vacuity of the fall-back path: a lone timestamp; a timestamp with second 60 one second after
a :59 (the leap second is the previous second); finding #7's input — second 60 at the minimum
timestamp — is OUT_OF_RANGE, not a panic; a timestamp contradicting a supplied minute -/
example :
    Parsed.to_naive_datetime_with_offset { timestamp := some 86399 } 0
      = .ok (.ok ⟨dateOfYo 1970 1, ⟨86399, 0⟩⟩) ∧
    Parsed.to_naive_datetime_with_offset { timestamp := some 86400, second := some 60 } 0
      = .ok (.ok ⟨dateOfYo 1970 1, ⟨86399, 1000000000⟩⟩) ∧
    Parsed.to_naive_datetime_with_offset { timestamp := some (-8334601228800), second := some 60 } 0
      = .ok (.error .outOfRange) ∧
    Parsed.to_naive_datetime_with_offset { timestamp := some 86399, minute := some 58 } 0
      = .ok (.error .impossible) := by
  decide +kernel

/-! ### completeness of the timestamp fall-back -/

/-- completeness of `to_naive_datetime_with_offset` THROUGH THE TIMESTAMP (the fall-back path: date
or time fields are insufficient, so year, ordinal, hour, minute and second are reconstructed from the
timestamp): for every existing day `(Y, o)`, every non-leap time of day `t` and every offset `off`
(no restriction on `off`), a record
  * whose timestamp field is the timestamp of that local reading at `off`
    (`instSecsLocal ⟨(Y, o), t⟩ − off`),
  * whose other supplied date and time fields — any subset — agree with that reading
    (`DateAgrees`, `TimeAgreesSupplied`), with determinate year groups,
  * whose nanosecond field, if supplied, is the sub-second part of `t` (`hta`), and `t` has a zero
    sub-second part if it is not supplied (`hnano`),
  * and that does not contain a sufficient date combination together with a sufficient time
    combination (`hfb`; that case is `datetime_complete_fields`)
resolves to exactly `⟨(Y, o), t⟩`: the seconds of the timestamp plus the nanosecond field.
(Rests on C02's `from_timestamp_spec` and `inst_inj`, and on `date_complete` / `time_complete` for the
record with the five reconstructed fields filled in.) -/
theorem datetime_complete_timestamp (p : Parsed) (hp : InType p) (off : Int) (Y : Int) (o : Nat) (t : Time)
    (hvd : VD Y o) (ht : TValid t) (hnl : t.frac < 1000000000)
    (hag : DateAgrees p Y o)
    (hdY : GroupDeterminate p.year p.year_div_100 p.year_mod_100 Y)
    (hdI : ∀ w, (dateOfYo Y o).iso_week = .ok w →
      GroupDeterminate p.isoyear p.isoyear_div_100 p.isoyear_mod_100 (IsoWeek.year w))
    (hta : TimeAgreesSupplied p t) (hnano : p.nanosecond = none → t.frac = 0)
    (hts : p.timestamp = some (timestampIs.instSecsLocal ⟨dateOfYo Y o, t⟩ - off))
    (hfb : ¬ (DateSufficient p ∧ TimeSufficient p)) :
    Parsed.to_naive_datetime_with_offset p off = .ok (.ok ⟨dateOfYo Y o, t⟩) :=
  dt_complete_ts p hp off Y o t hvd ht hnl hag hdY hdI hta hnano hts hfb

/-- the record that holds only a timestamp and, optionally, a nanosecond and an offset field: for
EVERY existing day, every non-leap time of day and every offset it resolves to that local reading —
all hypotheses of `datetime_complete_timestamp` are met (non-vacuity, and the form C13 uses) -/
theorem datetime_complete_timestamp_only (off : Int) (hoff : -2147483648 ≤ off ∧ off ≤ 2147483647)
    (Y : Int) (o : Nat) (t : Time) (hvd : VD Y o) (ht : TValid t) (hnl : t.frac < 1000000000) (nano offset : Option Int)
    (hn : nano = some t.frac ∨ (nano = none ∧ t.frac = 0))
    (ho : ∀ x, offset = some x → -2147483648 ≤ x ∧ x ≤ 2147483647) :
    Parsed.to_naive_datetime_with_offset
      { timestamp := some (timestampIs.instSecsLocal ⟨dateOfYo Y o, t⟩ - off), nanosecond := nano,
        offset := offset } off = .ok (.ok ⟨dateOfYo Y o, t⟩) := by
  obtain ⟨_, hb1, hb2⟩ := timestamp_spec Y o t hvd ht
  obtain ⟨w, hw⟩ := iso_week_ok Y o hvd
  obtain ⟨t0, t1, f0, f1⟩ := id ht
  have hno : ∀ x, (none : Option Int) = some x → False := fun x h => by cases h
  refine datetime_complete_timestamp _ ?_ off Y o t hvd ht hnl ?_ ?_ ?_ ?_ ?_ rfl ?_
  · have n : ∀ lo hi, optIn (none : Option Int) lo hi := fun _ _ x h => (hno x h).elim
    refine ⟨n _ _, n _ _, n _ _, n _ _, n _ _, n _ _, n _ _, n _ _, n _ _, n _ _, n _ _, n _ _, n _ _,
      n _ _, n _ _, n _ _, n _ _, fun x h => ?_, fun x h => ?_, ho⟩
    · rcases hn with h' | ⟨h', _⟩
      · rw [h'] at h; cases h; omega
      · rw [h'] at h; cases h
    · cases h; omega
  · exact ⟨fun x h => (hno x h).elim, ⟨fun x h => (hno x h).elim, fun x h => (hno x h).elim⟩,
      fun x h => (hno x h).elim, fun x h => (hno x h).elim, fun x h => (hno x h).elim,
      fun x h => (hno x h).elim, fun x h => (by cases h), fun x h => (hno x h).elim,
      fun x h => (hno x h).elim, ⟨w, hw, fun x h => (hno x h).elim,
        ⟨fun x h => (hno x h).elim, fun x h => (hno x h).elim⟩, fun x h => (hno x h).elim⟩⟩
  · exact ⟨fun h => h.2.1 rfl, fun _ _ h => (h rfl).elim⟩
  · intro w' _; exact ⟨fun h => h.2.1 rfl, fun _ _ h => (h rfl).elim⟩
  · refine ⟨fun x h => (hno x h).elim, fun x h => (hno x h).elim, fun x h => (hno x h).elim,
      fun x h => (hno x h).elim, fun x h => ?_⟩
    rcases hn with h' | ⟨h', _⟩
    · rw [h'] at h; cases h; omega
    · rw [h'] at h; cases h
  · intro h
    rcases hn with h' | ⟨_, h'⟩
    · rw [h'] at h; cases h
    · exact h'
  · intro h; exact h.2.1 rfl

/-- `to_fixed_offset`: the supplied offset iff it is a valid `FixedOffset` (strictly between −24 h
and +24 h); NOT_ENOUGH iff no offset is supplied; otherwise OUT_OF_RANGE.  Cannot panic. -/
theorem fixed_offset_sound (p : Parsed) :
    (∀ o, Parsed.to_fixed_offset p = .ok o ↔ (p.offset = some o ∧ OffValid o)) ∧
    (Parsed.to_fixed_offset p = .error .notEnough ↔ p.offset = none) ∧
    (∀ e, Parsed.to_fixed_offset p = .error e → e = .notEnough ∨ e = .outOfRange) :=
  fixed_offset_spec p

/-- `to_datetime`, every record: never panics; errors by value; NOT_ENOUGH when neither offset nor
timestamp is supplied; a result is a well-formed zone-aware value whose offset is the supplied
offset (0 when only a timestamp is supplied) and whose wall clock (`naive_local`) is a naive
date-time that agrees with every supplied date/time field and with the supplied timestamp at that
offset (`ZonedOk`).  (Rests on C04's `fromLocal_fails_iff` / `local_of_fromLocal`.) -/
theorem to_datetime_sound (p : Parsed) (hp : InType p) :
    ∃ r, Parsed.to_datetime p = .ok r ∧
      (∀ e, r = .error e → e = .notEnough ∨ e = .impossible ∨ e = .outOfRange) ∧
      (p.offset = none → p.timestamp = none → r = .error .notEnough) ∧
      (∀ z, r = .ok z → (p.offset = none → z.off = 0) ∧ ZonedOk p z z.off) :=
  to_datetime_spec p hp

/-- `to_datetime_with_timezone` for a fixed-offset zone (`FixedOffset`, `Utc` = 0), every record:
never panics; errors by value; a result carries the zone's offset, a supplied offset field equals
it, and its wall clock agrees with every supplied field and the timestamp at the zone's offset -/
theorem to_datetime_with_timezone_sound (p : Parsed) (hp : InType p) (zone : Int) (hz : OffValid zone) :
    ∃ r, Parsed.to_datetime_with_timezone p zone = .ok r ∧
      (∀ e, r = .error e → e = .notEnough ∨ e = .impossible ∨ e = .outOfRange) ∧
      (∀ z, r = .ok z → ZonedOk p z zone) :=
  to_datetime_tz_spec p hp zone hz

/-- non-vacuity with further fields: for EVERY existing day, non-leap time of day and offset, the
record holding the timestamp, the minute and the 12-hour-clock hour (no date field, no am/pm: neither
resolver has enough) resolves to the reading, sub-second part from the nanosecond field -/
example (off : Int) (hoff : -2147483648 ≤ off ∧ off ≤ 2147483647) (Y : Int) (o : Nat) (t : Time)
    (hvd : VD Y o) (ht : TValid t) (hnl : t.frac < 1000000000) :
    Parsed.to_naive_datetime_with_offset
      { timestamp := some (timestampIs.instSecsLocal ⟨dateOfYo Y o, t⟩ - off), nanosecond := some t.frac,
        minute := some (minuteOf t), hour_mod_12 := some (hourOf t % 12) } off =
      .ok (.ok ⟨dateOfYo Y o, t⟩) := by
  obtain ⟨_, hb1, hb2⟩ := timestamp_spec Y o t hvd ht
  obtain ⟨w, hw⟩ := iso_week_ok Y o hvd
  obtain ⟨t0, t1, f0, f1⟩ := id ht
  have hno : ∀ x, (none : Option Int) = some x → False := fun x h => by cases h
  have n : ∀ lo hi, optIn (none : Option Int) lo hi := fun _ _ x h => (hno x h).elim
  refine datetime_complete_timestamp _ ?_ off Y o t hvd ht hnl ?_ ?_ ?_ ?_ ?_ rfl ?_
  · refine ⟨n _ _, n _ _, n _ _, n _ _, n _ _, n _ _, n _ _, n _ _, n _ _, n _ _, n _ _, n _ _, n _ _,
      n _ _, fun x h => ?_, fun x h => ?_, n _ _, fun x h => ?_, fun x h => ?_, n _ _⟩
    · cases h; unfold hourOf; omega
    · cases h; unfold minuteOf; omega
    · cases h; omega
    · cases h; omega
  · exact ⟨fun x h => (hno x h).elim, ⟨fun x h => (hno x h).elim, fun x h => (hno x h).elim⟩,
      fun x h => (hno x h).elim, fun x h => (hno x h).elim, fun x h => (hno x h).elim,
      fun x h => (hno x h).elim, fun x h => (by cases h), fun x h => (hno x h).elim,
      fun x h => (hno x h).elim, ⟨w, hw, fun x h => (hno x h).elim,
        ⟨fun x h => (hno x h).elim, fun x h => (hno x h).elim⟩, fun x h => (hno x h).elim⟩⟩
  · exact ⟨fun h => h.2.1 rfl, fun _ _ h => (h rfl).elim⟩
  · intro w' _; exact ⟨fun h => h.2.1 rfl, fun _ _ h => (h rfl).elim⟩
  · exact ⟨fun x h => (hno x h).elim, fun x h => (by cases h; rfl), fun x h => (by cases h; rfl),
      fun x h => (hno x h).elim, fun x h => (by cases h; omega)⟩
  · intro h; cases h
  · intro h; exact h.2.1 rfl

/-- completeness of `to_datetime` through the timestamp: for every well-formed zone-aware value `z`
whose wall clock is the existing day `(Y, o)` at the non-leap time `t`, a record whose timestamp field
is the instant of `z`, whose offset field is `z`'s offset (or is absent, `z` being at UTC), whose
other fields agree with that wall clock (as in `datetime_complete_timestamp`) and are not sufficient
on their own resolves to exactly `z`: that instant at that offset.  (On C04's `utc_of_fromUtc` /
`local_of_fromLocal`.) -/
theorem to_datetime_complete_timestamp (p : Parsed) (hp : InType p) (z : Zoned) (hz : ZInv z)
    (Y : Int) (o : Nat) (t : Time) (hvd : VD Y o) (ht : TValid t) (hnl : t.frac < 1000000000)
    (hl : Zoned.naive_local z = .ok ⟨dateOfYo Y o, t⟩)
    (hag : DateAgrees p Y o)
    (hdY : GroupDeterminate p.year p.year_div_100 p.year_mod_100 Y)
    (hdI : ∀ w, (dateOfYo Y o).iso_week = .ok w →
      GroupDeterminate p.isoyear p.isoyear_div_100 p.isoyear_mod_100 (IsoWeek.year w))
    (hta : TimeAgreesSupplied p t) (hnano : p.nanosecond = none → t.frac = 0)
    (hts : p.timestamp = some (instSecs z.utc))
    (hoff : p.offset = some z.off ∨ (p.offset = none ∧ z.off = 0))
    (hfb : ¬ (DateSufficient p ∧ TimeSufficient p)) :
    Parsed.to_datetime p = .ok (.ok z) :=
  to_datetime_complete_ts p hp z hz Y o t hvd ht hnl hl hag hdY hdI hta hnano hts hoff hfb

/-- completeness of `to_datetime_with_timezone` for the fixed zone `z.off` (`Utc`: 0) through the
timestamp: as above; an offset field, if supplied, is the zone's offset -/
theorem to_datetime_with_timezone_complete_timestamp (p : Parsed) (hp : InType p) (z : Zoned) (hz : ZInv z)
    (Y : Int) (o : Nat) (t : Time) (hvd : VD Y o) (ht : TValid t) (hnl : t.frac < 1000000000)
    (hl : Zoned.naive_local z = .ok ⟨dateOfYo Y o, t⟩)
    (hag : DateAgrees p Y o)
    (hdY : GroupDeterminate p.year p.year_div_100 p.year_mod_100 Y)
    (hdI : ∀ w, (dateOfYo Y o).iso_week = .ok w →
      GroupDeterminate p.isoyear p.isoyear_div_100 p.isoyear_mod_100 (IsoWeek.year w))
    (hta : TimeAgreesSupplied p t) (hnano : p.nanosecond = none → t.frac = 0)
    (hts : p.timestamp = some (instSecs z.utc))
    (hoff : ∀ x, p.offset = some x → x = z.off)
    (hfb : ¬ (DateSufficient p ∧ TimeSufficient p)) :
    Parsed.to_datetime_with_timezone p z.off = .ok (.ok z) :=
  to_datetime_tz_complete_ts p hp z hz Y o t hvd ht hnl hl hag hdY hdI hta hnano hts hoff hfb

/-- the record holding only the timestamp and the offset of a zone-aware value `z` (whole second, wall
clock in range) — what `%s %z` reads — resolves to `z` through `to_datetime` and through
`to_datetime_with_timezone(&z.offset())`; without the offset field, `to_datetime` gives the same
instant at UTC -/
theorem to_datetime_complete_timestamp_only (z : Zoned) (hz : ZInv z) (Y : Int) (o : Nat) (t : Time)
    (hvd : VD Y o) (ht : TValid t) (hf : t.frac = 0)
    (hl : Zoned.naive_local z = .ok ⟨dateOfYo Y o, t⟩) :
    Parsed.to_datetime { timestamp := some (instSecs z.utc), offset := some z.off } = .ok (.ok z) ∧
    Parsed.to_datetime_with_timezone { timestamp := some (instSecs z.utc), offset := some z.off } z.off
      = .ok (.ok z) ∧
    Parsed.to_datetime_with_timezone { timestamp := some (instSecs z.utc) } z.off = .ok (.ok z) ∧
    (z.off = 0 → Parsed.to_datetime { timestamp := some (instSecs z.utc) } = .ok (.ok z)) := by
  obtain ⟨w, hw⟩ := iso_week_ok Y o hvd
  have hr := Chrono.Proofs.Ts.instSecs_range z.utc hz.1
  rw [Chrono.Proofs.Ts.ts_min_val, Chrono.Proofs.Ts.ts_max_val] at hr
  have hzo := hz.2
  unfold OffValid at hzo
  have hno : ∀ x, (none : Option Int) = some x → False := fun x h => by cases h
  have n : ∀ lo hi, optIn (none : Option Int) lo hi := fun _ _ x h => (hno x h).elim
  have hIT : ∀ off : Option Int, (∀ x, off = some x → x = z.off) →
      InType { timestamp := some (instSecs z.utc), offset := off } := fun off ho =>
    ⟨n _ _, n _ _, n _ _, n _ _, n _ _, n _ _, n _ _, n _ _, n _ _, n _ _, n _ _, n _ _, n _ _,
      n _ _, n _ _, n _ _, n _ _, n _ _, fun x h => (by cases h; omega),
      fun x h => (by rw [ho x h]; omega)⟩
  have hDA : ∀ off : Option Int,
      DateAgrees { timestamp := some (instSecs z.utc), offset := off } Y o := fun off =>
    ⟨fun x h => (hno x h).elim, ⟨fun x h => (hno x h).elim, fun x h => (hno x h).elim⟩,
      fun x h => (hno x h).elim, fun x h => (hno x h).elim, fun x h => (hno x h).elim,
      fun x h => (hno x h).elim, fun x h => (by cases h), fun x h => (hno x h).elim,
      fun x h => (hno x h).elim, ⟨w, hw, fun x h => (hno x h).elim,
        ⟨fun x h => (hno x h).elim, fun x h => (hno x h).elim⟩, fun x h => (hno x h).elim⟩⟩
  have hGD : ∀ yr, GroupDeterminate (none : Option Int) none none yr :=
    fun yr => ⟨fun h => h.2.1 rfl, fun _ _ h => (h rfl).elim⟩
  have hTA : ∀ off : Option Int,
      TimeAgreesSupplied { timestamp := some (instSecs z.utc), offset := off } t := fun off =>
    ⟨fun x h => (hno x h).elim, fun x h => (hno x h).elim, fun x h => (hno x h).elim,
      fun x h => (hno x h).elim, fun x h => (hno x h).elim⟩
  have hsome : ∀ x, some z.off = some x → x = z.off := fun x h => by cases h; rfl
  refine ⟨?_, ?_, ?_, fun h0 => ?_⟩
  · exact to_datetime_complete_timestamp _ (hIT _ hsome) z hz Y o t hvd ht (by omega) hl (hDA _) (hGD _)
      (fun _ _ => hGD _) (hTA _) (fun _ => hf) rfl (Or.inl rfl) (fun h => h.1.2.2.elim
        (fun h' => h'.2.elim (fun a => a.1 rfl) (fun a => a.elim (fun b => b rfl)
          (fun b => b.elim (fun c => c.1 rfl) (fun c => c.1 rfl)))) (fun h' => h'.2.1 rfl))
  · exact to_datetime_with_timezone_complete_timestamp _ (hIT _ hsome) z hz Y o t hvd ht (by omega) hl
      (hDA _) (hGD _) (fun _ _ => hGD _) (hTA _) (fun _ => hf) rfl hsome (fun h => h.2.1 rfl)
  · exact to_datetime_with_timezone_complete_timestamp _ (hIT _ (fun x h => (hno x h).elim)) z hz Y o t
      hvd ht (by omega) hl (hDA _) (hGD _) (fun _ _ => hGD _) (hTA _) (fun _ => hf) rfl
      (fun x h => (hno x h).elim) (fun h => h.2.1 rfl)
  · exact to_datetime_complete_timestamp _ (hIT _ (fun x h => (hno x h).elim)) z hz Y o t hvd ht
      (by omega) hl (hDA _) (hGD _) (fun _ _ => hGD _) (hTA _) (fun _ => hf) rfl (Or.inr ⟨rfl, h0⟩)
      (fun h => h.2.1 rfl)

/-- non-vacuity: 2024-02-29T12:00:00+01:00 (11:00:00Z = 1709204400) from the timestamp and the offset
alone; the same timestamp without offset is read at UTC; with a fixed zone of −05:00 it is that instant
at −05:00; a contradicting minute is IMPOSSIBLE -/
example :
    Parsed.to_datetime { timestamp := some 1709204400, offset := some 3600 }
      = .ok (.ok ⟨⟨dateOfYo 2024 60, ⟨39600, 0⟩⟩, 3600⟩) ∧
    Parsed.to_datetime { timestamp := some 1709204400 } = .ok (.ok ⟨⟨dateOfYo 2024 60, ⟨39600, 0⟩⟩, 0⟩) ∧
    Parsed.to_datetime_with_timezone { timestamp := some 1709204400, nanosecond := some 5 } (-18000)
      = .ok (.ok ⟨⟨dateOfYo 2024 60, ⟨39600, 5⟩⟩, -18000⟩) ∧
    Parsed.to_datetime { timestamp := some 1709204400, offset := some 3600, minute := some 1 }
      = .ok (.error .impossible) := by
  decide +kernel

/-- non-vacuity: 2024-02-29T12:00 at +01:00 (UTC reading 11:00), a contradicting zone, a missing
offset, an offset of a full day -/
example :
    Parsed.to_datetime {
      year := some 2024, ordinal := some 60, hour_div_12 := some 1, hour_mod_12 := some 0,
      minute := some 0, offset := some 3600 } = .ok (.ok ⟨⟨dateOfYo 2024 60, ⟨39600, 0⟩⟩, 3600⟩) ∧
    Parsed.to_datetime_with_timezone {
      year := some 2024, ordinal := some 60, hour_div_12 := some 1, hour_mod_12 := some 0,
      minute := some 0, offset := some 3600 } 0 = .ok (.error .impossible) ∧
    Parsed.to_datetime {
      year := some 2024, ordinal := some 60, hour_div_12 := some 1, hour_mod_12 := some 0,
      minute := some 0 } = .ok (.error .notEnough) ∧
    Parsed.to_datetime {
      year := some 2024, ordinal := some 60, hour_div_12 := some 1, hour_mod_12 := some 0,
      minute := some 0, offset := some 86400 } = .ok (.error .outOfRange) := by
  decide +kernel

/-! ### `to_datetime_with_timezone` for an ARBITRARY time zone

The zone enters through the two functions the Rust code calls: `ofu` = `offset_from_utc_datetime`
(then `.fix().local_minus_utc()`) and `fl` = `from_local_datetime` (None | Single | Ambiguous).
Assumptions, stated explicitly in each theorem — all of them are facts the Rust types guarantee or
the `TimeZone` contract demands:
  * `hofu`: a reported offset is an `i32` (the return type of `local_minus_utc`);
  * `hcand`: a candidate returned for a valid local date-time is a well-formed `DateTime`
    (`ZInv`: valid UTC reading, |offset| < 24 h — the type invariant of `DateTime<Tz>`);
  * `hloc` (only for field agreement): a candidate returned for `l` reads `l` on its own wall clock.
Nothing else is assumed about the zone: the two functions need not be coherent with each other.
`GuessIs p ofu g`: `g` is 0 without a timestamp field, else `ofu` of the UTC date-time of the
timestamp.  `Consistent p c`: `c` carries the supplied offset field and its instant is the supplied
timestamp field (or one less, when `c` is a leap second).  `consistent p m`: the consistent ones
among the candidates `m`, in order. -/

/-- nothing already proved is lost: for every record and every valid fixed offset, the fixed-zone
model used by `to_datetime_with_timezone_sound` is the generic model at the constant zone -/
theorem tz_fixed_is_instance (p : Parsed) (hp : InType p) (zone : Int) (hz : OffValid zone) :
    Parsed.to_datetime_with_timezone p zone =
      Parsed.to_datetime_with_timezone_gen p (Parsed.fixed_offset_from_utc zone)
        (Parsed.fixed_from_local zone) := fixed_is_instance p hp zone hz

/-- soundness, EVERY zone, every record: a successful result `z`
(a) is one of the candidates `from_local_datetime` returned for the resolved naive date-time `dt`;
(b) carries exactly the supplied offset field;
(b') its instant is exactly the supplied timestamp field (one less is allowed for a leap-second
    result) — whichever side of a fold the other fields would allow;
(c) `dt` is an existing day and time that agree with every supplied date field, every supplied time
    field and the timestamp at the guessed offset (`NaiveOk`, i.e. `datetime_sound` through `dt`);
and it is the ONLY candidate consistent with the offset and timestamp fields. -/
theorem tz_gen_sound (p : Parsed) (hp : InType p) (ofu : NaiveDT → Res Int)
    (fl : NaiveDT → Res (Mapped Zoned))
    (hofu : ∀ u o, NDTInv u → ofu u = .ok o → -2147483648 ≤ o ∧ o ≤ 2147483647)
    (hcand : ∀ l m c, NDTInv l → fl l = .ok m → c ∈ m.toList → ZInv c)
    (z : Zoned) (h : Parsed.to_datetime_with_timezone_gen p ofu fl = .ok (.ok z)) :
    ∃ g dt m, GuessIs p ofu g ∧ Parsed.to_naive_datetime_with_offset p g = .ok (.ok dt) ∧
      NaiveOk p dt g ∧ fl dt = .ok m ∧
      z ∈ m.toList ∧
      (∀ x, p.offset = some x → z.off = x) ∧
      (∀ ts, p.timestamp = some ts →
        ts = instSecs z.utc ∨ (1000000000 ≤ z.utc.time.frac ∧ ts = instSecs z.utc + 1)) ∧
      consistent p m = [z] := by
  rcases gen_reach p hp ofu fl hofu hcand _ h with ⟨_, _, _, h3⟩ | ⟨_, _, _, _, _, h3⟩ |
    ⟨g, dt, m, hg, hdt, hn, hm, h3⟩
  · cases h3
  · cases h3
  · have hl := (choose_ok _ z).mp h3.symm
    obtain ⟨hmem, hoff, hts⟩ := consistent_mem p m z (by rw [hl]; simp)
    exact ⟨g, dt, m, hg, hdt, hn, hm, hmem, hoff, hts, hl⟩

/-- field agreement, EVERY zone whose candidates read the requested local time: the wall clock
(`naive_local`) of a successful result is a date-time that agrees with every supplied date field
and time field (the sense of `date_sound` / `time_sound` / `datetime_sound`) -/
theorem tz_gen_fields_agree (p : Parsed) (hp : InType p) (ofu : NaiveDT → Res Int)
    (fl : NaiveDT → Res (Mapped Zoned))
    (hofu : ∀ u o, NDTInv u → ofu u = .ok o → -2147483648 ≤ o ∧ o ≤ 2147483647)
    (hcand : ∀ l m c, NDTInv l → fl l = .ok m → c ∈ m.toList → ZInv c)
    (hloc : ∀ l m c, NDTInv l → fl l = .ok m → c ∈ m.toList → Zoned.naive_local c = .ok l)
    (z : Zoned) (h : Parsed.to_datetime_with_timezone_gen p ofu fl = .ok (.ok z)) :
    ∃ dt, Zoned.naive_local z = .ok dt ∧ ∃ Y o, VD Y o ∧ dt.date = dateOfYo Y o ∧ DateAgrees p Y o ∧
      TStrict dt.time ∧ TimeAgreesSupplied p dt.time := by
  obtain ⟨g, dt, m, _, _, hn, hm, hmem, _⟩ := tz_gen_sound p hp ofu fl hofu hcand z h
  refine ⟨dt, hloc dt m z (naiveOk_inv p dt g hn) hm hmem, ?_⟩
  obtain ⟨Y, o, h1, h2, h3, h4, h5, _⟩ := hn
  exact ⟨Y, o, h1, h2, h3, h4, h5⟩

/-- error kinds, EVERY zone: an error is one of the three documented kinds, and it arises in exactly
one of three ways — the timestamp field is not a representable instant (OUT_OF_RANGE); the naive
resolution at the guessed offset fails (its kind, see `datetime_sound`); or the zone's candidates
for the resolved local date-time contain no consistent one (IMPOSSIBLE — in particular when there
is no candidate at all: a gap) or two consistent ones (NOT_ENOUGH: an `Ambiguous` pair both of which
carry the supplied offset and timestamp, e.g. neither field is supplied) -/
theorem tz_gen_error_kinds (p : Parsed) (hp : InType p) (ofu : NaiveDT → Res Int)
    (fl : NaiveDT → Res (Mapped Zoned))
    (hofu : ∀ u o, NDTInv u → ofu u = .ok o → -2147483648 ≤ o ∧ o ≤ 2147483647)
    (hcand : ∀ l m c, NDTInv l → fl l = .ok m → c ∈ m.toList → ZInv c)
    (e : PErr) (h : Parsed.to_datetime_with_timezone_gen p ofu fl = .ok (.error e)) :
    (e = .notEnough ∨ e = .impossible ∨ e = .outOfRange) ∧
    ((e = .outOfRange ∧ ∃ ts, p.timestamp = some ts ∧ ¬ tsOk ts (p.nanosecond.getD 0)) ∨
     (∃ g, GuessIs p ofu g ∧ Parsed.to_naive_datetime_with_offset p g = .ok (.error e)) ∨
     (∃ g dt m, GuessIs p ofu g ∧ Parsed.to_naive_datetime_with_offset p g = .ok (.ok dt) ∧
        fl dt = .ok m ∧
        ((e = .impossible ∧ consistent p m = []) ∨
         (e = .notEnough ∧ ∃ a b, m = .ambiguous a b ∧ Consistent p a ∧ Consistent p b)))) := by
  rcases gen_reach p hp ofu fl hofu hcand _ h with ⟨ts, h1, h2, h3⟩ | ⟨g, e', hg, hdt, hk, h3⟩ |
    ⟨g, dt, m, hg, hdt, hn, hm, h3⟩
  · cases h3
    exact ⟨Or.inr (Or.inr rfl), Or.inl ⟨rfl, ts, h1, h2⟩⟩
  · cases h3
    exact ⟨hk, Or.inr (Or.inl ⟨g, hg, hdt⟩)⟩
  · rcases choose_err _ e h3.symm with ⟨rfl, hl⟩ | ⟨rfl, hl⟩
    · exact ⟨Or.inr (Or.inl rfl), Or.inr (Or.inr ⟨g, dt, m, hg, hdt, hm, Or.inl ⟨rfl, hl⟩⟩)⟩
    · obtain ⟨a, b, hab, ha, hb⟩ := consistent_two p m hl
      exact ⟨Or.inl rfl, Or.inr (Or.inr ⟨g, dt, m, hg, hdt, hm, Or.inr ⟨rfl, a, b, hab, ha, hb⟩⟩)⟩

/-- resolution, EVERY zone: once the naive date-time `dt` is resolved (at the guessed offset) and
the zone has answered with well-formed candidates `m`, the outcome is determined by the consistent
candidates: no candidate → IMPOSSIBLE; none consistent → IMPOSSIBLE; exactly one consistent → that
one (whether it is the first or the second of an `Ambiguous` pair); both of an `Ambiguous` pair
consistent → NOT_ENOUGH -/
theorem tz_gen_resolution (p : Parsed) (hp : InType p) (ofu : NaiveDT → Res Int)
    (fl : NaiveDT → Res (Mapped Zoned)) (g : Int) (dt : NaiveDT) (m : Mapped Zoned)
    (hg : GuessIs p ofu g) (hdt : Parsed.to_naive_datetime_with_offset p g = .ok (.ok dt))
    (hm : fl dt = .ok m) (hc : ∀ c ∈ m.toList, ZInv c) :
    (m = .none → Parsed.to_datetime_with_timezone_gen p ofu fl = .ok (.error .impossible)) ∧
    (consistent p m = [] → Parsed.to_datetime_with_timezone_gen p ofu fl = .ok (.error .impossible)) ∧
    (∀ c, consistent p m = [c] → Parsed.to_datetime_with_timezone_gen p ofu fl = .ok (.ok c)) ∧
    (∀ a b, m = .ambiguous a b → Consistent p a → ¬ Consistent p b →
      Parsed.to_datetime_with_timezone_gen p ofu fl = .ok (.ok a)) ∧
    (∀ a b, m = .ambiguous a b → ¬ Consistent p a → Consistent p b →
      Parsed.to_datetime_with_timezone_gen p ofu fl = .ok (.ok b)) ∧
    (∀ a b, m = .ambiguous a b → Consistent p a → Consistent p b →
      Parsed.to_datetime_with_timezone_gen p ofu fl = .ok (.error .notEnough)) := by
  have hres := gen_resolution p hp ofu fl g dt m hg hdt hm hc
  refine ⟨fun h => ?_, fun h => ?_, fun c h => ?_, fun a b h ha hb => ?_, fun a b h ha hb => ?_,
    fun a b h ha hb => ?_⟩
  · rw [hres, h]; rfl
  · rw [hres, h]; rfl
  · rw [hres, h]; rfl
  · rw [hres, h, consistent_pair p a b, (consistentB_iff p a).mpr ha, consistentB_false p b hb]; rfl
  · rw [hres, h, consistent_pair p a b, consistentB_false p a ha, (consistentB_iff p b).mpr hb]; rfl
  · rw [hres, h, consistent_pair p a b, (consistentB_iff p a).mpr ha, (consistentB_iff p b).mpr hb]; rfl

/-- no panic, EVERY zone whose two functions do not panic on valid arguments and return what their
types promise: the resolver returns a value or an error kind -/
theorem tz_gen_no_panic (p : Parsed) (hp : InType p) (ofu : NaiveDT → Res Int)
    (fl : NaiveDT → Res (Mapped Zoned))
    (hofu : ∀ u, NDTInv u → ∃ o, ofu u = .ok o ∧ -2147483648 ≤ o ∧ o ≤ 2147483647)
    (hfl : ∀ l, NDTInv l → ∃ m, fl l = .ok m ∧ ∀ c ∈ m.toList, ZInv c) :
    ∃ r, Parsed.to_datetime_with_timezone_gen p ofu fl = .ok r := gen_total p hp ofu fl hofu hfl

/-! ### step zones: one transition, `o1` before the instant `T`, `o2` from `T` on -/

/-- the step zone's local-time lookup from first principles: the instants that read `s` on the
zone's clock are exactly `s − o` for the listed offsets `o`; a listed pair is in order of instants -/
theorem step_zone_candidates (z : StepZone) (s : Int) :
    (∀ u, u + z.offset_at u = s ↔ (s - u) ∈ (z.local_offsets s).toList) ∧
    (∀ a b, z.local_offsets s = .ambiguous a b → s - a < s - b) :=
  ⟨fun u => candidates_iff z s u, fun a b h => (ambiguous_order z s a b h).2.2.2.2⟩

/-- the step zones meet every assumption of the generic theorems: for valid offsets and valid
arguments neither function panics, the reported offset is the zone's offset at that instant, and
every candidate for `l` is well formed, reads `l` on its wall clock, and carries the zone's offset
at its own instant; an `Ambiguous` pair is in order of instants -/
theorem step_zone_is_zone (z : StepZone) (h1 : OffValid z.o1) (h2 : OffValid z.o2) :
    (∀ u, NDTInv u → z.offset_from_utc_datetime u = .ok (z.offset_at (instSecs u)) ∧
      OffValid (z.offset_at (instSecs u))) ∧
    (∀ l, NDTInv l → ∃ m, z.from_local_datetime l = .ok m ∧
      (∀ c ∈ m.toList, StepCandidate z l c) ∧
      (∀ a b, m = .ambiguous a b → instSecs a.utc < instSecs b.utc)) := by
  refine ⟨fun u hu => step_ofu_spec z h1 h2 u hu, fun l hl => ?_⟩
  obtain ⟨m, hm, hc, ho⟩ := step_from_local_spec z h1 h2 l hl
  exact ⟨m, hm, fun c hcm => (hc c hcm).1, ho⟩

/-- `to_datetime_with_timezone(&StepZone)`, every record, every step zone with valid offsets (fold,
gap or none): never panics; errors are of the three documented kinds; a successful result is a
well-formed value whose offset is the zone's offset at its own instant, that carries the supplied
offset field, whose instant is the supplied timestamp field (one less allowed for a leap second),
and whose wall clock is a date-time agreeing with every supplied date and time field -/
theorem step_zone_sound (p : Parsed) (hp : InType p) (z : StepZone) (h1 : OffValid z.o1)
    (h2 : OffValid z.o2) :
    ∃ r, Parsed.to_datetime_with_step_zone p z = .ok r ∧
      (∀ e, r = .error e → e = .notEnough ∨ e = .impossible ∨ e = .outOfRange) ∧
      (∀ v, r = .ok v → Consistent p v ∧ ∃ g dt, NaiveOk p dt g ∧ StepCandidate z dt v) :=
  step_sound p hp z h1 h2

/-- a timestamp field decides a fold: in a step zone whose fold is not exactly one second wide, a
record with a timestamp field is never refused as NOT_ENOUGH because of the zone — NOT_ENOUGH can
only come from the naive resolution (too few date/time fields) -/
theorem step_zone_timestamp_decides (p : Parsed) (hp : InType p) (z : StepZone) (h1 : OffValid z.o1)
    (h2 : OffValid z.o2) (hw : z.o1 - z.o2 ≠ 1) (ts : Int) (hts : p.timestamp = some ts)
    (h : Parsed.to_datetime_with_step_zone p z = .ok (.error .notEnough)) :
    ∃ g, GuessIs p z.offset_from_utc_datetime g ∧
      Parsed.to_naive_datetime_with_offset p g = .ok (.error .notEnough) :=
  step_timestamp_decides p hp z h1 h2 hw ts hts h

/-- the zone of the examples: +02:00 until 2021-10-31T01:00:00Z (= 1635642000), +01:00 from then on;
the local times 02:00:00 ..< 03:00:00 of that day occur twice -/
def foldZone : StepZone := ⟨1635642000, 7200, 3600⟩
/-- 2021-10-31 02:30:00, the middle of the fold -/
def inFold : Parsed :=
  { year := some 2021, month := some 10, day := some 31, hour_div_12 := some 0, hour_mod_12 := some 2,
    minute := some 30, second := some 0 }

/-- non-vacuity, the fold: the offset field +01:00 picks the SECOND candidate (01:30Z), +02:00 the
FIRST (00:30Z); without offset and timestamp the local time is ambiguous: NOT_ENOUGH; an offset that
matches neither side: IMPOSSIBLE -/
example :
    Parsed.to_datetime_with_step_zone { inFold with offset := some 3600 } foldZone
      = .ok (.ok ⟨⟨dateOfYo 2021 304, ⟨5400, 0⟩⟩, 3600⟩) ∧
    Parsed.to_datetime_with_step_zone { inFold with offset := some 7200 } foldZone
      = .ok (.ok ⟨⟨dateOfYo 2021 304, ⟨1800, 0⟩⟩, 7200⟩) ∧
    Parsed.to_datetime_with_step_zone inFold foldZone = .ok (.error .notEnough) ∧
    Parsed.to_datetime_with_step_zone { inFold with offset := some 0 } foldZone
      = .ok (.error .impossible) := by
  decide +kernel

/-- the timestamp field inside the fold (repaired finding F26; before the repair the first two
inputs returned 02:30+01:00 = 1635643800 resp. 02:30+02:00 = 1635640200, contradicting the supplied
timestamp): a timestamp on the +02:00 side with the offset field +01:00, and the mirror case, are
IMPOSSIBLE; the timestamp alone resolves to the candidate at that instant (first resp. second);
timestamp and matching offset likewise; date/time fields of the fold with a timestamp pick the side
of the timestamp -/
example :
    Parsed.to_datetime_with_step_zone { timestamp := some 1635640200, offset := some 3600 } foldZone
      = .ok (.error .impossible) ∧
    Parsed.to_datetime_with_step_zone { timestamp := some 1635643800, offset := some 7200 } foldZone
      = .ok (.error .impossible) ∧
    Parsed.to_datetime_with_step_zone { timestamp := some 1635640200 } foldZone
      = .ok (.ok ⟨⟨dateOfYo 2021 304, ⟨1800, 0⟩⟩, 7200⟩) ∧
    Parsed.to_datetime_with_step_zone { timestamp := some 1635643800 } foldZone
      = .ok (.ok ⟨⟨dateOfYo 2021 304, ⟨5400, 0⟩⟩, 3600⟩) ∧
    Parsed.to_datetime_with_step_zone { timestamp := some 1635643800, offset := some 3600 } foldZone
      = .ok (.ok ⟨⟨dateOfYo 2021 304, ⟨5400, 0⟩⟩, 3600⟩) ∧
    Parsed.to_datetime_with_step_zone { inFold with timestamp := some 1635643800 } foldZone
      = .ok (.ok ⟨⟨dateOfYo 2021 304, ⟨5400, 0⟩⟩, 3600⟩) := by
  decide +kernel

/-- non-vacuity, a gap (+01:00 → +02:00 at 2021-03-28T01:00:00Z = 1616893200: local 02:00 ..< 03:00
do not exist): a local time in the gap is IMPOSSIBLE, the seconds around it resolve -/
example :
    Parsed.to_datetime_with_step_zone
      { year := some 2021, month := some 3, day := some 28, hour_div_12 := some 0, hour_mod_12 := some 2,
        minute := some 30 } ⟨1616893200, 3600, 7200⟩ = .ok (.error .impossible) ∧
    Parsed.to_datetime_with_step_zone
      { year := some 2021, month := some 3, day := some 28, hour_div_12 := some 0, hour_mod_12 := some 1,
        minute := some 59, second := some 59 } ⟨1616893200, 3600, 7200⟩
      = .ok (.ok ⟨⟨dateOfYo 2021 87, ⟨3599, 0⟩⟩, 3600⟩) ∧
    Parsed.to_datetime_with_step_zone
      { year := some 2021, month := some 3, day := some 28, hour_div_12 := some 0, hour_mod_12 := some 3,
        minute := some 0 } ⟨1616893200, 3600, 7200⟩
      = .ok (.ok ⟨⟨dateOfYo 2021 87, ⟨3600, 0⟩⟩, 7200⟩) := by
  decide +kernel

/-! ### field-path completeness of the zone-aware resolvers (audit gap MEDIUM-1) -/

/-- completeness of `to_datetime` on the FIELD path (what `%Y-%m-%d %H:%M:%S %z` reads): for every
well-formed zone-aware value `z` whose wall clock is the existing day `(Y, o)` at the time of day `t`
(leap seconds included), a record
  * whose date fields — any subset containing a documented combination — agree with the day, with
    determinate year groups (as in `date_complete`),
  * whose time fields agree with `t` and are sufficient (as in `time_complete`),
  * whose offset field is `z`'s offset — or is absent while a timestamp is supplied and `z` is at UTC,
  * and whose timestamp field, if supplied, is the instant of `z` (or one more when `z` is a leap
    second, the documented allowance)
resolves to exactly `z`.  (On `date_complete`, `time_complete`, C04's `utc_of_fromUtc` /
`local_of_fromLocal`.) -/
theorem to_datetime_complete_fields (p : Parsed) (hp : InType p) (z : Zoned) (hz : ZInv z)
    (Y : Int) (o : Nat) (t : Time) (hvd : VD Y o) (ht : TStrict t)
    (hl : Zoned.naive_local z = .ok ⟨dateOfYo Y o, t⟩)
    (hag : DateAgrees p Y o)
    (hdY : GroupDeterminate p.year p.year_div_100 p.year_mod_100 Y)
    (hdI : ∀ w, (dateOfYo Y o).iso_week = .ok w →
      GroupDeterminate p.isoyear p.isoyear_div_100 p.isoyear_mod_100 (IsoWeek.year w))
    (hc : UsesCalendar p ∨ UsesIso p) (hta : TimeAgrees p t) (hts : TimeSufficient p)
    (hoff : p.offset = some z.off ∨ (p.offset = none ∧ p.timestamp ≠ none ∧ z.off = 0))
    (hstamp : ∀ g, p.timestamp = some g →
      g = instSecs z.utc ∨ (1000000000 ≤ z.utc.time.frac ∧ g = instSecs z.utc + 1)) :
    Parsed.to_datetime p = .ok (.ok z) :=
  to_datetime_complete_fields' p hp z hz Y o t hvd ht hl hag hdY hdI hc hta hts hoff hstamp

/-- completeness of `to_datetime_with_timezone` for the fixed zone `z.off` (`Utc`: 0) on the FIELD
path: as above; an offset field, if supplied, is the zone's offset.  `hrep`: a supplied timestamp is
not beyond the last representable second — this can only fail for the `+1` reading of a leap second
in the last second of the representable range, where this resolver (unlike `to_datetime`) answers
OUT_OF_RANGE because it first converts the timestamp to a date-time: `tz_leap_at_max` below. -/
theorem to_datetime_with_timezone_complete_fields (p : Parsed) (hp : InType p) (z : Zoned) (hz : ZInv z)
    (Y : Int) (o : Nat) (t : Time) (hvd : VD Y o) (ht : TStrict t)
    (hl : Zoned.naive_local z = .ok ⟨dateOfYo Y o, t⟩)
    (hag : DateAgrees p Y o)
    (hdY : GroupDeterminate p.year p.year_div_100 p.year_mod_100 Y)
    (hdI : ∀ w, (dateOfYo Y o).iso_week = .ok w →
      GroupDeterminate p.isoyear p.isoyear_div_100 p.isoyear_mod_100 (IsoWeek.year w))
    (hc : UsesCalendar p ∨ UsesIso p) (hta : TimeAgrees p t) (hts : TimeSufficient p)
    (hoff : ∀ x, p.offset = some x → x = z.off)
    (hstamp : ∀ g, p.timestamp = some g →
      g = instSecs z.utc ∨ (1000000000 ≤ z.utc.time.frac ∧ g = instSecs z.utc + 1))
    (hrep : ∀ g, p.timestamp = some g → g ≤ TS_MAX) :
    Parsed.to_datetime_with_timezone p z.off = .ok (.ok z) :=
  to_datetime_tz_complete_fields p hp z hz Y o t hvd ht hl hag hdY hdI hc hta hts hoff hstamp hrep

/-- when the timestamp field is exactly the instant of `z` (what a record derived from `z` holds),
`hrep` is automatic -/
theorem to_datetime_with_timezone_complete_fields_exact (p : Parsed) (hp : InType p) (z : Zoned)
    (hz : ZInv z) (Y : Int) (o : Nat) (t : Time) (hvd : VD Y o) (ht : TStrict t)
    (hl : Zoned.naive_local z = .ok ⟨dateOfYo Y o, t⟩)
    (hag : DateAgrees p Y o)
    (hdY : GroupDeterminate p.year p.year_div_100 p.year_mod_100 Y)
    (hdI : ∀ w, (dateOfYo Y o).iso_week = .ok w →
      GroupDeterminate p.isoyear p.isoyear_div_100 p.isoyear_mod_100 (IsoWeek.year w))
    (hc : UsesCalendar p ∨ UsesIso p) (hta : TimeAgrees p t) (hts : TimeSufficient p)
    (hoff : ∀ x, p.offset = some x → x = z.off)
    (hstamp : ∀ g, p.timestamp = some g → g = instSecs z.utc) :
    Parsed.to_datetime_with_timezone p z.off = .ok (.ok z) :=
  to_datetime_tz_complete_fields p hp z hz Y o t hvd ht hl hag hdY hdI hc hta hts hoff
    (fun g hg => Or.inl (hstamp g hg))
    (fun g hg => by rw [hstamp g hg]; exact (Chrono.Proofs.Ts.instSecs_range z.utc hz.1).2)

/-- the excluded input of `to_datetime_with_timezone_complete_fields` (kernel-checked): the leap
second 23:59:60 of the last representable day, timestamp field = its instant + 1 = `TS_MAX + 1`.
`to_naive_datetime_with_offset` and `to_datetime` accept it (the documented allowance),
`to_datetime_with_timezone(&Utc)` reports OUT_OF_RANGE (it converts the timestamp first); with the
exact timestamp `TS_MAX` all three resolve. -/
theorem tz_leap_at_max :
    let p : Parsed := {
      year := some 262142, month := some 12, day := some 31, hour_div_12 := some 1,
      hour_mod_12 := some 11, minute := some 59, second := some 60, offset := some 0,
      timestamp := some 8210266876800 }
    TS_MAX + 1 = 8210266876800 ∧
    Parsed.to_naive_datetime_with_offset p 0 = .ok (.ok ⟨dateOfYo 262142 365, ⟨86399, 1000000000⟩⟩) ∧
    Parsed.to_datetime p = .ok (.ok ⟨⟨dateOfYo 262142 365, ⟨86399, 1000000000⟩⟩, 0⟩) ∧
    Parsed.to_datetime_with_timezone p 0 = .ok (.error .outOfRange) ∧
    Parsed.to_datetime_with_timezone { p with timestamp := some 8210266876799 } 0
      = .ok (.ok ⟨⟨dateOfYo 262142 365, ⟨86399, 1000000000⟩⟩, 0⟩) := by
  decide +kernel

/-- non-vacuity of the two theorems: 2024-02-29T12:00:00.5+01:00, all hypotheses that are not
computations exhibited, both resolvers evaluated -/
example :
    let p : Parsed := {
      year := some 2024, month := some 2, day := some 29, hour_div_12 := some 1,
      hour_mod_12 := some 0, minute := some 0, second := some 0, nanosecond := some 500000000,
      offset := some 3600, timestamp := some 1709204400 }
    let z : Zoned := ⟨⟨dateOfYo 2024 60, ⟨39600, 500000000⟩⟩, 3600⟩
    ZInv z ∧ VD 2024 60 ∧ TStrict ⟨43200, 500000000⟩ ∧
    Zoned.naive_local z = .ok ⟨dateOfYo 2024 60, ⟨43200, 500000000⟩⟩ ∧
    UsesCalendar p ∧ TimeSufficient p ∧ p.offset = some z.off ∧ p.timestamp = some (instSecs z.utc) ∧
    Parsed.to_datetime p = .ok (.ok z) ∧ Parsed.to_datetime_with_timezone p 3600 = .ok (.ok z) := by
  refine ⟨by decide +kernel, by unfold VD; decide, by decide, by decide +kernel,
    ⟨Or.inl (by simp), Or.inl ⟨by simp, by simp⟩⟩, ⟨by simp, by simp, by simp, fun _ => by simp⟩, rfl,
    by decide +kernel, by decide +kernel, by decide +kernel⟩

/-- completeness for ANY time zone on the field path: `z` is a well-formed value whose wall clock is
the day `(Y, o)` at `t`; date and time fields agree with it and are sufficient; the zone's guessed
offset (`GuessIs`) is `z`'s offset whenever a timestamp is supplied; the zone answers the wall clock
with well-formed, pairwise different candidates `m` among which `z` is the only one consistent with
the offset and timestamp fields ⇒ exactly `z`.  (Compared with `tz_gen_resolution`, the naive
resolution is no longer a hypothesis: it follows from field agreement.) -/
theorem tz_gen_complete_fields (p : Parsed) (hp : InType p) (ofu : NaiveDT → Res Int)
    (fl : NaiveDT → Res (Mapped Zoned)) (z : Zoned) (hz : ZInv z)
    (Y : Int) (o : Nat) (t : Time) (hvd : VD Y o) (ht : TStrict t)
    (hl : Zoned.naive_local z = .ok ⟨dateOfYo Y o, t⟩)
    (hag : DateAgrees p Y o)
    (hdY : GroupDeterminate p.year p.year_div_100 p.year_mod_100 Y)
    (hdI : ∀ w, (dateOfYo Y o).iso_week = .ok w →
      GroupDeterminate p.isoyear p.isoyear_div_100 p.isoyear_mod_100 (IsoWeek.year w))
    (hc : UsesCalendar p ∨ UsesIso p) (hta : TimeAgrees p t) (hts : TimeSufficient p)
    (g : Int) (hg : GuessIs p ofu g) (hgz : p.timestamp ≠ none → g = z.off)
    (m : Mapped Zoned) (hm : fl ⟨dateOfYo Y o, t⟩ = .ok m) (hcand : ∀ c ∈ m.toList, ZInv c)
    (hmem : z ∈ m.toList) (hcons : Consistent p z) (hnd : ∀ a b, m = .ambiguous a b → a ≠ b)
    (hother : ∀ c ∈ m.toList, c ≠ z → ¬ Consistent p c) :
    Parsed.to_datetime_with_timezone_gen p ofu fl = .ok (.ok z) :=
  gen_complete_fields p hp ofu fl z hz Y o t hvd ht hl hag hdY hdI hc hta hts g hg hgz m hm hcand hmem
    hcons hnd hother

/-- completeness for the STEP ZONES on the field path: `z` is a value of the step zone `zn` reading
the day `(Y, o)` at `t` on the zone's wall clock (`StepCandidate`: well formed, that wall clock, the
zone's offset at its own instant); date and time fields agree and are sufficient; `z` is consistent
with the offset and timestamp fields and no other value of the zone with that wall clock is — outside
a fold there is no other one, inside a fold the offset field or the timestamp field must single `z`
out ⇒ `to_datetime_with_timezone(&zn)` returns exactly `z`.
`hq` concerns only a timestamp field that is not the instant of `z`, i.e. the `+1` reading of a leap
second: that instant is representable and on `z`'s side of the transition.  `hrep`: every UTC reading
the zone lists for the wall clock is representable (chrono's provided `from_local_datetime` answers
`None` for the whole lookup otherwise; only within a day of the ends of the range). -/
theorem step_zone_complete (p : Parsed) (hp : InType p) (zn : StepZone) (h1 : OffValid zn.o1)
    (h2 : OffValid zn.o2) (z : Zoned) (Y : Int) (o : Nat) (t : Time) (hvd : VD Y o) (ht : TStrict t)
    (hag : DateAgrees p Y o)
    (hdY : GroupDeterminate p.year p.year_div_100 p.year_mod_100 Y)
    (hdI : ∀ w, (dateOfYo Y o).iso_week = .ok w →
      GroupDeterminate p.isoyear p.isoyear_div_100 p.isoyear_mod_100 (IsoWeek.year w))
    (hc : UsesCalendar p ∨ UsesIso p) (hta : TimeAgrees p t) (hts : TimeSufficient p)
    (hcand : StepCandidate zn ⟨dateOfYo Y o, t⟩ z) (hcons : Consistent p z)
    (hq : ∀ ts, p.timestamp = some ts → ts ≠ instSecs z.utc → ts ≤ TS_MAX ∧ zn.offset_at ts = z.off)
    (hrep : ∀ o' ∈ (zn.local_offsets (instSecs ⟨dateOfYo Y o, t⟩)).toList,
      InRangeSecs (instSecs ⟨dateOfYo Y o, t⟩ - o'))
    (hother : ∀ c, StepCandidate zn ⟨dateOfYo Y o, t⟩ c → c ≠ z → ¬ Consistent p c) :
    Parsed.to_datetime_with_step_zone p zn = .ok (.ok z) :=
  step_complete_fields p hp zn h1 h2 z Y o t hvd ht hag hdY hdI hc hta hts hcand hcons hq hrep hother

/-- every value of a step zone is found by the zone's local-time lookup: a `StepCandidate` for the
local date-time `l` is among the candidates `from_local_datetime` returns for `l` (and the candidates
are pairwise different), provided all listed UTC readings are representable -/
theorem step_zone_lookup_complete (zn : StepZone) (h1 : OffValid zn.o1) (h2 : OffValid zn.o2)
    (l : NaiveDT) (hl : NDTInv l) (c : Zoned) (hc : StepCandidate zn l c)
    (hrep : ∀ o ∈ (zn.local_offsets (instSecs l)).toList, InRangeSecs (instSecs l - o)) :
    ∃ m, zn.from_local_datetime l = .ok m ∧ c ∈ m.toList ∧ (∀ a b, m = .ambiguous a b → a ≠ b) :=
  step_candidate_mem zn h1 h2 l hl c hc hrep

/-- non-vacuity of `step_zone_complete` in the fold of `foldZone` (02:30 local occurs twice): the
second pass `z₂ = 01:30Z +01:00` is a `StepCandidate`, the record `inFold` + offset 3600 is consistent
with it and not with the first pass `z₁ = 00:30Z +02:00` (also a `StepCandidate`); the listed readings
are representable -/
example :
    let l : NaiveDT := ⟨dateOfYo 2021 304, ⟨9000, 0⟩⟩
    let z1 : Zoned := ⟨⟨dateOfYo 2021 304, ⟨1800, 0⟩⟩, 7200⟩
    let z2 : Zoned := ⟨⟨dateOfYo 2021 304, ⟨5400, 0⟩⟩, 3600⟩
    foldZone.local_offsets (instSecs l) = .ambiguous 7200 3600 ∧
    InRangeSecs (instSecs l - 7200) ∧ InRangeSecs (instSecs l - 3600) ∧
    consistentB { inFold with offset := some 3600 } z2 = true ∧
    consistentB { inFold with offset := some 3600 } z1 = false ∧
    Zoned.naive_local z1 = .ok l ∧ Zoned.naive_local z2 = .ok l ∧
    foldZone.offset_at (instSecs z1.utc) = z1.off ∧ foldZone.offset_at (instSecs z2.utc) = z2.off ∧
    Parsed.to_datetime_with_step_zone { inFold with offset := some 3600 } foldZone = .ok (.ok z2) := by
  decide +kernel

/-! ### which error the combined resolvers report (audit gap MEDIUM-2) -/

/-- the decision table of `to_naive_datetime_with_offset`, EVERY record and `i32` offset, in terms of
the two component resolvers (whose own kinds are `date_error_kinds` / `time_error_kinds`):
* both resolve: the pair, or IMPOSSIBLE iff the timestamp field contradicts it (`datetime_sound_fields`);
* otherwise, WITHOUT a timestamp field: the date resolver's error, else the time resolver's error;
* otherwise, WITH a timestamp field: OUT_OF_RANGE if either resolver reports OUT_OF_RANGE, else
  IMPOSSIBLE if either reports IMPOSSIBLE, else whatever the fall-back path yields — and that is
  NOT_ENOUGH only for a century-only ISO year group.
In every case NOT_ENOUGH implies that the record does not hold a sufficient date and a sufficient
time combination.
(The last timestamp clause is stated RELATIVE TO THE MODEL function `from_timestamp_path` — it says which
branch runs, not what the branch yields; what it yields is stated against the specification in
`datetime_fallback_outcome`, `datetime_sound` and `datetime_complete_timestamp(_leap)`.  Which of
IMPOSSIBLE / OUT_OF_RANGE the fall-back reports is not characterised.) -/
theorem datetime_error_kinds (p : Parsed) (hp : InType p) (off : Int)
    (hoff : -2147483648 ≤ off ∧ off ≤ 2147483647) :
    ∃ rd, Parsed.to_naive_date p = .ok rd ∧
      (p.timestamp = none →
        Parsed.to_naive_datetime_with_offset p off = .ok (match rd, Parsed.to_naive_time p with
          | .error e, _ => .error e
          | .ok _, .error e => .error e
          | .ok d, .ok t => .ok ⟨d, t⟩)) ∧
      (∀ ts, p.timestamp = some ts →
        (¬ ∃ d t, rd = .ok d ∧ Parsed.to_naive_time p = .ok t) →
        ((rd = .error .outOfRange ∨ Parsed.to_naive_time p = .error .outOfRange) →
          Parsed.to_naive_datetime_with_offset p off = .ok (.error .outOfRange)) ∧
        (¬ (rd = .error .outOfRange ∨ Parsed.to_naive_time p = .error .outOfRange) →
          (rd = .error .impossible ∨ Parsed.to_naive_time p = .error .impossible) →
          Parsed.to_naive_datetime_with_offset p off = .ok (.error .impossible)) ∧
        (¬ (rd = .error .outOfRange ∨ Parsed.to_naive_time p = .error .outOfRange) →
          ¬ (rd = .error .impossible ∨ Parsed.to_naive_time p = .error .impossible) →
          Parsed.to_naive_datetime_with_offset p off = Parsed.from_timestamp_path p off ts)) ∧
      (Parsed.to_naive_datetime_with_offset p off = .ok (.error .notEnough) →
        ¬ (DateSufficient p ∧ TimeSufficient p) ∧
        (p.timestamp ≠ none → ¬ GroupUsable p.isoyear p.isoyear_div_100 p.isoyear_mod_100)) := by
  obtain ⟨rd, hrd, _⟩ := date_main p hp
  refine ⟨rd, hrd, fun hts => ?_, fun ts hts hnb => ?_, dt_not_enough_only p hp off hoff⟩
  · obtain ⟨rd', hrd', h⟩ := dt_no_timestamp p hp off hoff hts
    rw [hrd] at hrd'; cases hrd'; exact h
  · obtain ⟨rd', hrd', h⟩ := dt_with_timestamp' p hp off ts hts (by
      rintro ⟨d, t, hd, ht⟩
      rw [hrd] at hd; cases hd
      exact hnb ⟨d, t, rfl, ht⟩)
    rw [hrd] at hrd'; cases hrd'; exact h

/-- NOT_ENOUGH of `to_naive_datetime_with_offset`, exactly, for a record WITHOUT a timestamp field
whose year groups are coherent and whose time fields are in range: reported iff the record does not
hold a sufficient date AND a sufficient time combination — unless the date resolver itself reports
IMPOSSIBLE / OUT_OF_RANGE (a contradicting or non-existent date is reported first).
(The audit's proposed form `… ↔ ¬(DateSufficient ∧ TimeSufficient) ∧ timestamp = none` is false as
it stands: `{year 2023, month 2, day 30}` is OUT_OF_RANGE (the date resolver's error comes first)
although the time is missing, and `{timestamp, isoyear_div_100}` is NOT_ENOUGH although a timestamp is present — see the
example below; for records DERIVED from a value it is true: `datetime_not_enough_iff_derived`.) -/
theorem datetime_not_enough_iff (p : Parsed) (hp : InType p) (off : Int)
    (hoff : -2147483648 ≤ off ∧ off ≤ 2147483647)
    (hcY : GroupCoherent p.year p.year_div_100 p.year_mod_100)
    (hcI : GroupCoherent p.isoyear p.isoyear_div_100 p.isoyear_mod_100) (hr : TimeInRange p)
    (hts : p.timestamp = none) :
    Parsed.to_naive_datetime_with_offset p off = .ok (.error .notEnough) ↔
      (¬ (DateSufficient p ∧ TimeSufficient p) ∧
        ¬ ∃ e, e ≠ .notEnough ∧ Parsed.to_naive_date p = .ok (.error e)) :=
  dt_not_enough_iff p hp off hoff hcY hcI hr hts

/-- NOT_ENOUGH on fields DERIVED from one local reading — any subset of the 20 date/time/timestamp
fields agreeing with the existing day `(Y, o)` and the time of day `t` (leap second or not), year
groups determinate: reported exactly when there is no timestamp field and the record does not hold
a sufficient date and a sufficient time combination.  (So a derived record never yields IMPOSSIBLE
or OUT_OF_RANGE instead of NOT_ENOUGH, and a timestamp field always suffices.) -/
theorem datetime_not_enough_iff_derived (p : Parsed) (hp : InType p) (off : Int)
    (hoff : -2147483648 ≤ off ∧ off ≤ 2147483647) (Y : Int) (o : Nat) (t : Time) (hvd : VD Y o)
    (ht : TValid t) (hag : DateAgrees p Y o)
    (hdY : GroupDeterminate p.year p.year_div_100 p.year_mod_100 Y)
    (hdI : ∀ w, (dateOfYo Y o).iso_week = .ok w →
      GroupDeterminate p.isoyear p.isoyear_div_100 p.isoyear_mod_100 (IsoWeek.year w))
    (hta : TimeAgreesSupplied p t) :
    Parsed.to_naive_datetime_with_offset p off = .ok (.error .notEnough) ↔
      (p.timestamp = none ∧ ¬ (DateSufficient p ∧ TimeSufficient p)) :=
  dt_not_enough_iff_derived p hp off hoff Y o t hvd ht hag hdY hdI hta

/-- non-vacuity / the corner cases: no timestamp and no time → NOT_ENOUGH; a non-existent date
without time → the date's OUT_OF_RANGE comes first; a timestamp with a century-only ISO year group →
NOT_ENOUGH; a timestamp with a century-only calendar year group resolves (the century is checked
against the reconstructed year); an out-of-range minute beside a timestamp → OUT_OF_RANGE; a
contradicting date beside a timestamp → IMPOSSIBLE -/
example :
    Parsed.to_naive_datetime_with_offset { year := some 2023, month := some 2, day := some 28 } 0
      = .ok (.error .notEnough) ∧
    Parsed.to_naive_datetime_with_offset { year := some 2023, month := some 2, day := some 30 } 0
      = .ok (.error .outOfRange) ∧
    Parsed.to_naive_datetime_with_offset { timestamp := some 0, isoyear_div_100 := some 19 } 0
      = .ok (.error .notEnough) ∧
    Parsed.to_naive_datetime_with_offset { timestamp := some 0, year_div_100 := some 19 } 0
      = .ok (.ok ⟨dateOfYo 1970 1, ⟨0, 0⟩⟩) ∧
    Parsed.to_naive_datetime_with_offset
      { timestamp := some 0, hour_div_12 := some 0, hour_mod_12 := some 0, minute := some 60 } 0
      = .ok (.error .outOfRange) ∧
    Parsed.to_naive_datetime_with_offset
      { timestamp := some 0, year := some 1970, month := some 1, day := some 1, ordinal := some 2 } 0
      = .ok (.error .impossible) := by
  decide +kernel

/-- `to_datetime`, EVERY record, stage by stage — which error kind and when:
* neither offset nor timestamp field: NOT_ENOUGH;
* otherwise the naive stage runs at the supplied offset (0 without one) and its error is passed on
  (`datetime_error_kinds`);
* the naive stage succeeded with `dt`: OUT_OF_RANGE iff the offset is not strictly within ±24 h;
  else IMPOSSIBLE iff the UTC reading `dt − offset` is not representable; else the value with that
  offset and wall clock `dt`. -/
theorem to_datetime_error_kinds (p : Parsed) (hp : InType p) :
    (p.offset = none → p.timestamp = none → Parsed.to_datetime p = .ok (.error .notEnough)) ∧
    ((p.offset ≠ none ∨ p.timestamp ≠ none) →
      ∃ r, Parsed.to_naive_datetime_with_offset p (p.offset.getD 0) = .ok r ∧
        (∀ e, r = .error e → Parsed.to_datetime p = .ok (.error e)) ∧
        (∀ dt, r = .ok dt →
          (¬ OffValid (p.offset.getD 0) → Parsed.to_datetime p = .ok (.error .outOfRange)) ∧
          (OffValid (p.offset.getD 0) → ¬ InRangeSecs (instSecs dt - p.offset.getD 0) →
            Parsed.to_datetime p = .ok (.error .impossible)) ∧
          (OffValid (p.offset.getD 0) → InRangeSecs (instSecs dt - p.offset.getD 0) →
            ∃ z, Parsed.to_datetime p = .ok (.ok z) ∧ z.off = p.offset.getD 0 ∧
              Zoned.naive_local z = .ok dt))) :=
  to_datetime_stages p hp

/-- NOT_ENOUGH of `to_datetime`, exactly, EVERY record: neither offset nor timestamp is supplied, or
the naive stage reports NOT_ENOUGH (`datetime_not_enough_iff…`) -/
theorem to_datetime_not_enough_iff (p : Parsed) (hp : InType p) :
    Parsed.to_datetime p = .ok (.error .notEnough) ↔
      ((p.offset = none ∧ p.timestamp = none) ∨
       Parsed.to_naive_datetime_with_offset p (p.offset.getD 0) = .ok (.error .notEnough)) :=
  to_datetime_not_enough_iff' p hp

/-- `to_datetime_with_timezone` for a fixed zone, EVERY record, stage by stage: a timestamp field
that is no representable instant (with the nanosecond field) is OUT_OF_RANGE; otherwise the naive
stage runs at the guessed offset `g` (0 without timestamp, else the zone's offset) and its error is
passed on; on success with `dt`: IMPOSSIBLE iff the UTC reading `dt − zone` is not representable or
the offset field differs from the zone's offset; else the value at the zone's offset with wall
clock `dt`.  (Zone-generic analogue: `tz_gen_error_kinds` / `tz_gen_resolution`.) -/
theorem to_datetime_with_timezone_error_kinds (p : Parsed) (hp : InType p) (zone : Int)
    (hz : OffValid zone) :
    (∀ ts, p.timestamp = some ts → ¬ tsOk ts (p.nanosecond.getD 0) →
      Parsed.to_datetime_with_timezone p zone = .ok (.error .outOfRange)) ∧
    (∀ g, (p.timestamp = none ∧ g = 0) ∨
        (∃ ts, p.timestamp = some ts ∧ tsOk ts (p.nanosecond.getD 0) ∧ g = zone) →
      ∃ r, Parsed.to_naive_datetime_with_offset p g = .ok r ∧
        (∀ e, r = .error e → Parsed.to_datetime_with_timezone p zone = .ok (.error e)) ∧
        (∀ dt, r = .ok dt →
          ((¬ InRangeSecs (instSecs dt - zone) ∨ ∃ x, p.offset = some x ∧ x ≠ zone) →
            Parsed.to_datetime_with_timezone p zone = .ok (.error .impossible)) ∧
          (InRangeSecs (instSecs dt - zone) → (∀ x, p.offset = some x → x = zone) →
            ∃ z, Parsed.to_datetime_with_timezone p zone = .ok (.ok z) ∧ z.off = zone ∧
              Zoned.naive_local z = .ok dt))) :=
  to_datetime_tz_stages p hp zone hz

/-- NOT_ENOUGH of `to_datetime_with_timezone` (fixed zone), exactly: the naive stage at the guessed
offset reports it — a missing offset FIELD is never a reason here (the zone supplies the offset) -/
theorem to_datetime_with_timezone_not_enough_iff (p : Parsed) (hp : InType p) (zone : Int)
    (hz : OffValid zone) :
    Parsed.to_datetime_with_timezone p zone = .ok (.error .notEnough) ↔
      ((p.timestamp = none ∧ Parsed.to_naive_datetime_with_offset p 0 = .ok (.error .notEnough)) ∨
       (∃ ts, p.timestamp = some ts ∧ tsOk ts (p.nanosecond.getD 0) ∧
         Parsed.to_naive_datetime_with_offset p zone = .ok (.error .notEnough))) :=
  to_datetime_tz_not_enough_iff p hp zone hz

/-- non-vacuity of the zone-aware tables: no offset and no timestamp; date and offset but no time
(naive NOT_ENOUGH passed on); an offset of a whole day (OUT_OF_RANGE after a successful naive stage);
the first representable second at +01:00 (UTC reading not representable: IMPOSSIBLE); a timestamp
beyond the range in a fixed zone (OUT_OF_RANGE before anything else); an offset field contradicting
the zone (IMPOSSIBLE); a fixed zone needs no offset field -/
example :
    Parsed.to_datetime { year := some 2024, ordinal := some 60 } = .ok (.error .notEnough) ∧
    Parsed.to_datetime { year := some 2024, ordinal := some 60, offset := some 0 } = .ok (.error .notEnough) ∧
    Parsed.to_datetime { timestamp := some 0, offset := some 86400 } = .ok (.error .outOfRange) ∧
    Parsed.to_datetime {
      year := some (-262143), ordinal := some 1, hour_div_12 := some 0, hour_mod_12 := some 0,
      minute := some 0, offset := some 3600 } = .ok (.error .impossible) ∧
    Parsed.to_datetime_with_timezone { timestamp := some 8210266876800 } 0 = .ok (.error .outOfRange) ∧
    Parsed.to_datetime_with_timezone { timestamp := some 0, offset := some 3600 } 0
      = .ok (.error .impossible) ∧
    Parsed.to_datetime_with_timezone { timestamp := some 0 } 3600
      = .ok (.ok ⟨⟨dateOfYo 1970 1, ⟨0, 0⟩⟩, 3600⟩) := by
  decide +kernel

/-! ### leap-second readings through the timestamp fall-back (audit gap LOW-MEDIUM-3) -/

/-- completeness of `to_naive_datetime_with_offset` THROUGH THE TIMESTAMP for a LEAP-SECOND reading
(the case `datetime_complete_timestamp` excludes by `hnl`): for every existing day `(Y, o)`, every
leap reading `t` (`t.frac ≥ 10⁹` on a second :59 — any minute, as `NaiveTime` allows) and every offset,
a record
  * whose second field is 60,
  * whose timestamp field `g` is the timestamp of the reading at `off` (that of its second :59), or
    one more (that of the following second, the documented allowance) — in which case the following
    second must itself be a representable local date-time (`g + off ≤ TS_MAX`; see the example below),
  * whose other supplied fields — any subset — agree with the reading, year groups determinate, the
    nanosecond field (if any) being the sub-second part and the sub-second part being zero without it,
  * and that does not hold a sufficient date together with a sufficient time combination
resolves to exactly `⟨(Y, o), t⟩`. -/
theorem datetime_complete_timestamp_leap (p : Parsed) (hp : InType p) (off : Int) (Y : Int) (o : Nat)
    (t : Time) (hvd : VD Y o) (ht : TValid t) (hleap : 1000000000 ≤ t.frac) (h59 : t.secs % 60 = 59)
    (hag : DateAgrees p Y o)
    (hdY : GroupDeterminate p.year p.year_div_100 p.year_mod_100 Y)
    (hdI : ∀ w, (dateOfYo Y o).iso_week = .ok w →
      GroupDeterminate p.isoyear p.isoyear_div_100 p.isoyear_mod_100 (IsoWeek.year w))
    (hta : TimeAgreesSupplied p t) (hnano : p.nanosecond = none → t.frac = 1000000000)
    (h60 : p.second = some 60) (g : Int) (hts : p.timestamp = some g)
    (hg : g = timestampIs.instSecsLocal ⟨dateOfYo Y o, t⟩ - off ∨
      (g = timestampIs.instSecsLocal ⟨dateOfYo Y o, t⟩ - off + 1 ∧ g + off ≤ TS_MAX))
    (hfb : ¬ (DateSufficient p ∧ TimeSufficient p)) :
    Parsed.to_naive_datetime_with_offset p off = .ok (.ok ⟨dateOfYo Y o, t⟩) :=
  dt_complete_ts_leap p hp off Y o t hvd ht hleap h59 hag hdY hdI hta hnano h60 g hts hg hfb

/-- the same for `to_datetime`: the timestamp of a leap-second value `z` (or one more), second 60,
`z`'s offset as offset field (or none, `z` at UTC), agreeing insufficient other fields ⇒ exactly `z` -/
theorem to_datetime_complete_timestamp_leap (p : Parsed) (hp : InType p) (z : Zoned) (hz : ZInv z)
    (Y : Int) (o : Nat) (t : Time) (hvd : VD Y o) (ht : TValid t) (hleap : 1000000000 ≤ t.frac)
    (h59 : t.secs % 60 = 59)
    (hl : Zoned.naive_local z = .ok ⟨dateOfYo Y o, t⟩)
    (hag : DateAgrees p Y o)
    (hdY : GroupDeterminate p.year p.year_div_100 p.year_mod_100 Y)
    (hdI : ∀ w, (dateOfYo Y o).iso_week = .ok w →
      GroupDeterminate p.isoyear p.isoyear_div_100 p.isoyear_mod_100 (IsoWeek.year w))
    (hta : TimeAgreesSupplied p t) (hnano : p.nanosecond = none → t.frac = 1000000000)
    (h60 : p.second = some 60) (g : Int) (hts : p.timestamp = some g)
    (hg : g = instSecs z.utc ∨ (g = instSecs z.utc + 1 ∧ g + z.off ≤ TS_MAX))
    (hoff : p.offset = some z.off ∨ (p.offset = none ∧ z.off = 0))
    (hfb : ¬ (DateSufficient p ∧ TimeSufficient p)) :
    Parsed.to_datetime p = .ok (.ok z) :=
  to_datetime_complete_ts_leap p hp z hz Y o t hvd ht hleap h59 hl hag hdY hdI hta hnano h60 g hts hg
    hoff hfb

/-- the same for `to_datetime_with_timezone` in the fixed zone `z.off`; for the `+1` timestamp the
following second must be representable both as a local date-time and as an instant -/
theorem to_datetime_with_timezone_complete_timestamp_leap (p : Parsed) (hp : InType p) (z : Zoned)
    (hz : ZInv z) (Y : Int) (o : Nat) (t : Time) (hvd : VD Y o) (ht : TValid t)
    (hleap : 1000000000 ≤ t.frac) (h59 : t.secs % 60 = 59)
    (hl : Zoned.naive_local z = .ok ⟨dateOfYo Y o, t⟩)
    (hag : DateAgrees p Y o)
    (hdY : GroupDeterminate p.year p.year_div_100 p.year_mod_100 Y)
    (hdI : ∀ w, (dateOfYo Y o).iso_week = .ok w →
      GroupDeterminate p.isoyear p.isoyear_div_100 p.isoyear_mod_100 (IsoWeek.year w))
    (hta : TimeAgreesSupplied p t) (hnano : p.nanosecond = none → t.frac = 1000000000)
    (h60 : p.second = some 60) (g : Int) (hts : p.timestamp = some g)
    (hg : g = instSecs z.utc ∨ (g = instSecs z.utc + 1 ∧ g + z.off ≤ TS_MAX ∧ g ≤ TS_MAX))
    (hoff : ∀ x, p.offset = some x → x = z.off)
    (hfb : ¬ (DateSufficient p ∧ TimeSufficient p)) :
    Parsed.to_datetime_with_timezone p z.off = .ok (.ok z) :=
  to_datetime_tz_complete_ts_leap p hp z hz Y o t hvd ht hleap h59 hl hag hdY hdI hta hnano h60 g hts
    hg hoff hfb

/-- non-vacuity, for EVERY leap reading: the record holding the timestamp (either of the two), second
60 and the sub-second part as nanosecond field meets all hypotheses of
`datetime_complete_timestamp_leap` -/
theorem datetime_complete_timestamp_leap_only (off : Int) (hoff : -2147483648 ≤ off ∧ off ≤ 2147483647)
    (Y : Int) (o : Nat) (t : Time) (hvd : VD Y o) (ht : TValid t) (hleap : 1000000000 ≤ t.frac)
    (h59 : t.secs % 60 = 59) (g : Int)
    (hg : g = timestampIs.instSecsLocal ⟨dateOfYo Y o, t⟩ - off ∨
      (g = timestampIs.instSecsLocal ⟨dateOfYo Y o, t⟩ - off + 1 ∧ g + off ≤ TS_MAX)) :
    Parsed.to_naive_datetime_with_offset
      { timestamp := some g, second := some 60, nanosecond := some (t.frac - 1000000000) } off
      = .ok (.ok ⟨dateOfYo Y o, t⟩) := by
  obtain ⟨_, hb1, hb2⟩ := timestamp_spec Y o t hvd ht
  obtain ⟨w, hw⟩ := iso_week_ok Y o hvd
  obtain ⟨t0, t1, f0, f1⟩ := id ht
  have hno : ∀ x, (none : Option Int) = some x → False := fun x h => by cases h
  have n : ∀ lo hi, optIn (none : Option Int) lo hi := fun _ _ x h => (hno x h).elim
  refine datetime_complete_timestamp_leap _ ?_ off Y o t hvd ht hleap h59 ?_ ?_ ?_ ?_ ?_ rfl g rfl hg ?_
  · refine ⟨n _ _, n _ _, n _ _, n _ _, n _ _, n _ _, n _ _, n _ _, n _ _, n _ _, n _ _, n _ _, n _ _,
      n _ _, n _ _, n _ _, fun x h => ?_, fun x h => ?_, fun x h => ?_, n _ _⟩
    · cases h; omega
    · cases h; omega
    · cases h
      rcases hg with rfl | ⟨rfl, _⟩ <;> omega
  · exact ⟨fun x h => (hno x h).elim, ⟨fun x h => (hno x h).elim, fun x h => (hno x h).elim⟩,
      fun x h => (hno x h).elim, fun x h => (hno x h).elim, fun x h => (hno x h).elim,
      fun x h => (hno x h).elim, fun x h => (by cases h), fun x h => (hno x h).elim,
      fun x h => (hno x h).elim, ⟨w, hw, fun x h => (hno x h).elim,
        ⟨fun x h => (hno x h).elim, fun x h => (hno x h).elim⟩, fun x h => (hno x h).elim⟩⟩
  · exact ⟨fun h => h.2.1 rfl, fun _ _ h => (h rfl).elim⟩
  · intro w' _; exact ⟨fun h => h.2.1 rfl, fun _ _ h => (h rfl).elim⟩
  · refine ⟨fun x h => (hno x h).elim, fun x h => (hno x h).elim, fun x h => (hno x h).elim,
      fun x h => ?_, fun x h => ?_⟩
    · cases h
      rw [if_pos rfl]
      exact ⟨h59, hleap⟩
    · cases h; omega
  · intro h; cases h
  · intro h; exact h.2.1 rfl

/-- kernel-checked instances: 2016-12-31T23:59:60.25 from either timestamp with second 60; at the
last representable second the `+1` timestamp is beyond the range on this path: OUT_OF_RANGE (the
FIELD path accepts it, `tz_leap_at_max`) — the hypothesis `g + off ≤ TS_MAX` cannot be dropped -/
example :
    Parsed.to_naive_datetime_with_offset
      { timestamp := some 1483228799, second := some 60, nanosecond := some 250000000 } 0
      = .ok (.ok ⟨dateOfYo 2016 366, ⟨86399, 1250000000⟩⟩) ∧
    Parsed.to_naive_datetime_with_offset
      { timestamp := some 1483228800, second := some 60, nanosecond := some 250000000 } 0
      = .ok (.ok ⟨dateOfYo 2016 366, ⟨86399, 1250000000⟩⟩) ∧
    Parsed.to_datetime { timestamp := some 1483225200, second := some 60, offset := some 3600 }
      = .ok (.ok ⟨⟨dateOfYo 2016 366, ⟨82799, 1000000000⟩⟩, 3600⟩) ∧
    Parsed.to_naive_datetime_with_offset { timestamp := some 8210266876799, second := some 60 } 0
      = .ok (.ok ⟨dateOfYo 262142 365, ⟨86399, 1000000000⟩⟩) ∧
    Parsed.to_naive_datetime_with_offset { timestamp := some 8210266876800, second := some 60 } 0
      = .ok (.error .outOfRange) := by
  decide +kernel

/-! ### LOW gaps of the audit: ISO fields through the calendar specification, setters, empty record -/

/-- `date_sound` with the ISO-week fields read off the CALENDAR specification (`isoYear` / `isoWeek`
of Spec/StrftimeSpec.lean: year and week number of the Thursday of the day's Monday-based week)
instead of the model's `iso_week` accessor: a successful result agrees with every supplied date field
in the sense of `DateAgreesSpec`.  (The two readings coincide by C12's `iso_week_spec`.) -/
theorem date_sound_spec (p : Parsed) (hp : InType p) (d : Date)
    (h : Parsed.to_naive_date p = .ok (.ok d)) :
    ∃ Y o, VD Y o ∧ d = dateOfYo Y o ∧ DateAgreesSpec p Y o := by
  obtain ⟨Y, o, hvd, hd, hag⟩ := date_sound p hp d h
  exact ⟨Y, o, hvd, hd, (dateAgrees_iff_spec p Y o hvd).mp hag⟩

/-- `date_complete` likewise: agreement and determinacy of the ISO year group stated against the
calendar specification's ISO year -/
theorem date_complete_spec (p : Parsed) (hp : InType p) (Y : Int) (o : Nat) (hvd : VD Y o)
    (hag : DateAgreesSpec p Y o)
    (hdY : GroupDeterminate p.year p.year_div_100 p.year_mod_100 Y)
    (hdI : GroupDeterminate p.isoyear p.isoyear_div_100 p.isoyear_mod_100 (isoYear Y o))
    (hc : UsesCalendar p ∨ UsesIso p) :
    Parsed.to_naive_date p = .ok (.ok (dateOfYo Y o)) :=
  date_complete p hp Y o hvd ((dateAgrees_iff_spec p Y o hvd).mpr hag) hdY
    (fun w hw => by rw [iso_year_of Y o hvd w hw]; exact hdI) hc

/-- non-vacuity: 2021-01-01 lies in ISO week 53 of ISO year 2020 by the calendar specification, and
the ISO combination resolves to it -/
example : isoYear 2021 1 = 2020 ∧ isoWeek 2021 1 = 53 ∧
    IsoIsSpec { isoyear := some 2020, isoweek := some 53, weekday := some .fri } 2021 1 ∧
    Parsed.to_naive_date { isoyear := some 2020, isoweek := some 53, weekday := some .fri }
      = .ok (.ok (dateOfYo 2021 1)) := by
  refine ⟨by decide, by decide, ⟨?_, ⟨?_, ?_⟩, ?_⟩, by decide +kernel⟩
  · intro x h; cases h; decide
  · intro x h; cases h
  · intro x h; cases h
  · intro x h; cases h; decide

/-- ALL 20 integer-valued setters against the ranges re-extracted from src/format/parsed.rs on every
run (Extracted/Setters.lean), for EVERY prior record and EVERY integer argument (negative values and
the `i64` extremes included): outside the range OUT_OF_RANGE; inside, accepted iff the field is unset
or already holds that value, storing it (for `set_hour12`: `v % 12`, i.e. 12 ↦ 0) and changing nothing
else; otherwise IMPOSSIBLE (`SetterSpec`).  `set_timestamp` has no range; `set_hour` stores `v / 12`
and `v % 12`. -/
theorem setter_ranges :
    SetterSpec SET_RANGE_year.1 SET_RANGE_year.2 (·.year) id Parsed.set_year (fun p f => { p with year := f }) ∧
    SetterSpec SET_RANGE_year_div_100.1 SET_RANGE_year_div_100.2 (·.year_div_100) id Parsed.set_year_div_100
      (fun p f => { p with year_div_100 := f }) ∧
    SetterSpec SET_RANGE_year_mod_100.1 SET_RANGE_year_mod_100.2 (·.year_mod_100) id Parsed.set_year_mod_100
      (fun p f => { p with year_mod_100 := f }) ∧
    SetterSpec SET_RANGE_isoyear.1 SET_RANGE_isoyear.2 (·.isoyear) id Parsed.set_isoyear
      (fun p f => { p with isoyear := f }) ∧
    SetterSpec SET_RANGE_isoyear_div_100.1 SET_RANGE_isoyear_div_100.2 (·.isoyear_div_100) id
      Parsed.set_isoyear_div_100 (fun p f => { p with isoyear_div_100 := f }) ∧
    SetterSpec SET_RANGE_isoyear_mod_100.1 SET_RANGE_isoyear_mod_100.2 (·.isoyear_mod_100) id
      Parsed.set_isoyear_mod_100 (fun p f => { p with isoyear_mod_100 := f }) ∧
    SetterSpec SET_RANGE_quarter.1 SET_RANGE_quarter.2 (·.quarter) id Parsed.set_quarter
      (fun p f => { p with quarter := f }) ∧
    SetterSpec SET_RANGE_month.1 SET_RANGE_month.2 (·.month) id Parsed.set_month
      (fun p f => { p with month := f }) ∧
    SetterSpec SET_RANGE_week_from_sun.1 SET_RANGE_week_from_sun.2 (·.week_from_sun) id Parsed.set_week_from_sun
      (fun p f => { p with week_from_sun := f }) ∧
    SetterSpec SET_RANGE_week_from_mon.1 SET_RANGE_week_from_mon.2 (·.week_from_mon) id Parsed.set_week_from_mon
      (fun p f => { p with week_from_mon := f }) ∧
    SetterSpec SET_RANGE_isoweek.1 SET_RANGE_isoweek.2 (·.isoweek) id Parsed.set_isoweek
      (fun p f => { p with isoweek := f }) ∧
    SetterSpec SET_RANGE_ordinal.1 SET_RANGE_ordinal.2 (·.ordinal) id Parsed.set_ordinal
      (fun p f => { p with ordinal := f }) ∧
    SetterSpec SET_RANGE_day.1 SET_RANGE_day.2 (·.day) id Parsed.set_day (fun p f => { p with day := f }) ∧
    SetterSpec SET_RANGE_hour12.1 SET_RANGE_hour12.2 (·.hour_mod_12) (fun v => v % 12) Parsed.set_hour12
      (fun p f => { p with hour_mod_12 := f }) ∧
    SetterSpec SET_RANGE_minute.1 SET_RANGE_minute.2 (·.minute) id Parsed.set_minute
      (fun p f => { p with minute := f }) ∧
    SetterSpec SET_RANGE_second.1 SET_RANGE_second.2 (·.second) id Parsed.set_second
      (fun p f => { p with second := f }) ∧
    SetterSpec SET_RANGE_nanosecond.1 SET_RANGE_nanosecond.2 (·.nanosecond) id Parsed.set_nanosecond
      (fun p f => { p with nanosecond := f }) ∧
    SetterSpec SET_RANGE_offset.1 SET_RANGE_offset.2 (·.offset) id Parsed.set_offset
      (fun p f => { p with offset := f }) := setters_spec

/-- the two remaining integer setters: `set_timestamp` accepts every `i64` (its extracted range is all
of `i64`); `set_hour` accepts exactly its extracted range and stores `v / 12`, `v % 12` — accepted
iff both halves are unset or already hold those values -/
theorem setter_ranges_timestamp_hour (p p1 : Parsed) (v : Int) :
    (SET_RANGE_timestamp = (-9223372036854775808, 9223372036854775807) ∧
     ((p.timestamp = none ∨ p.timestamp = some v) → p.set_timestamp v = .ok { p with timestamp := some v }) ∧
     (¬ (p.timestamp = none ∨ p.timestamp = some v) → p.set_timestamp v = .error .impossible)) ∧
    (¬ (SET_RANGE_hour.1 ≤ v ∧ v ≤ SET_RANGE_hour.2) → p.set_hour v = .error .outOfRange) ∧
    (p.set_hour v = .ok p1 ↔ (SET_RANGE_hour.1 ≤ v ∧ v ≤ SET_RANGE_hour.2) ∧
      (p.hour_div_12 = none ∨ p.hour_div_12 = some (v / 12)) ∧
      (p.hour_mod_12 = none ∨ p.hour_mod_12 = some (v % 12)) ∧
      p1 = { p with hour_div_12 := some (v / 12), hour_mod_12 := some (v % 12) }) :=
  ⟨set_timestamp_spec p v, (set_hour_spec p p1 v).1, (set_hour_spec p p1 v).2⟩

/-- non-vacuity and the extremes: the extracted ranges are the documented ones; `i64::MIN`, `i64::MAX`
and `u32::MAX + 1` are OUT_OF_RANGE for a `u32` field, `i32::MAX + 1` for an `i32` field; a negative
year is accepted, a negative century is not -/
example :
    SET_RANGE_month = (1, 12) ∧ SET_RANGE_second = (0, 60) ∧ SET_RANGE_year_div_100 = (0, 2147483647) ∧
    Parsed.new.set_month (-9223372036854775808) = .error .outOfRange ∧
    Parsed.new.set_month 9223372036854775807 = .error .outOfRange ∧
    Parsed.new.set_month 4294967297 = .error .outOfRange ∧
    Parsed.new.set_year 2147483648 = .error .outOfRange ∧
    Parsed.new.set_year (-2147483648) = .ok { year := some (-2147483648) } ∧
    Parsed.new.set_year_div_100 (-1) = .error .outOfRange ∧
    Parsed.new.set_hour12 12 = .ok { hour_mod_12 := some 0 } ∧
    Parsed.new.set_timestamp (-9223372036854775808) = .ok { timestamp := some (-9223372036854775808) } := by
  decide

/-- cross-setter consistency of the hour fields: after `set_hour h` succeeded, `set_ampm pm` is
accepted iff `pm ↔ 12 ≤ h` and `set_hour12 v` iff `v ∈ 1..=12` is the 12-hour-clock reading of `h`
(`v % 12 = h % 12`) — and an accepted call leaves the record unchanged; the two stored halves are
`h / 12` and `h % 12`, which denote `h` -/
theorem hour_setters_consistent (p p1 : Parsed) (h : Int) (hs : p.set_hour h = .ok p1) :
    (∀ pm : Bool, (∃ p2, p1.set_ampm pm = .ok p2) ↔ (pm = true ↔ 12 ≤ h)) ∧
    (∀ pm p2, p1.set_ampm pm = .ok p2 → p2 = p1) ∧
    (∀ v : Int, (∃ p2, p1.set_hour12 v = .ok p2) ↔ (1 ≤ v ∧ v ≤ 12 ∧ v % 12 = h % 12)) ∧
    (∀ v p2, p1.set_hour12 v = .ok p2 → p2 = p1) ∧
    p1.hour_div_12 = some (h / 12) ∧ p1.hour_mod_12 = some (h % 12) ∧
    hourOfFields (h / 12) (h % 12) = h := hour_cross p p1 h hs

/-- the converse order: after `set_ampm pm` and `set_hour12 v` succeeded, `set_hour h` is accepted iff
`h = (if pm then 12 else 0) + v % 12`, and then leaves the record unchanged -/
theorem hour_setters_consistent_conv (p p1 p2 : Parsed) (pm : Bool) (v : Int)
    (h1 : p.set_ampm pm = .ok p1) (h2 : p1.set_hour12 v = .ok p2) (h : Int) :
    ((∃ p3, p2.set_hour h = .ok p3) ↔ h = (if pm then 12 else 0) + v % 12) ∧
    (∀ p3, p2.set_hour h = .ok p3 → p3 = p2) := hour_cross_conv p p1 p2 pm v h1 h2 h

/-- non-vacuity: 23 = pm + 11 o'clock; 12 o'clock pm is hour 12; 12 o'clock am is hour 0 -/
example :
    (∃ p1, Parsed.new.set_hour 23 = .ok p1 ∧ p1.set_ampm true = .ok p1 ∧ p1.set_hour12 11 = .ok p1 ∧
      p1.set_ampm false = .error .impossible ∧ p1.set_hour12 12 = .error .impossible) ∧
    (∃ p1 p2, Parsed.new.set_ampm true = .ok p1 ∧ p1.set_hour12 12 = .ok p2 ∧ p2.set_hour 12 = .ok p2 ∧
      p2.set_hour 0 = .error .impossible) :=
  ⟨⟨{ hour_div_12 := some 1, hour_mod_12 := some 11 }, rfl, rfl, rfl, rfl, rfl⟩,
   ⟨{ hour_div_12 := some 1 }, { hour_div_12 := some 1, hour_mod_12 := some 0 }, rfl, rfl, rfl, rfl⟩⟩

/-- `Parsed::new()` / `Parsed::default()` (no field set) is NOT_ENOUGH for every resolver: every offset
argument, every fixed zone, every step zone -/
theorem new_resolves_not_enough (off zone : Int) (z : StepZone) :
    Parsed.to_naive_date Parsed.new = .ok (.error .notEnough) ∧
    Parsed.to_naive_time Parsed.new = .error .notEnough ∧
    Parsed.to_naive_datetime_with_offset Parsed.new off = .ok (.error .notEnough) ∧
    Parsed.to_fixed_offset Parsed.new = .error .notEnough ∧
    Parsed.to_datetime Parsed.new = .ok (.error .notEnough) ∧
    Parsed.to_datetime_with_timezone Parsed.new zone = .ok (.error .notEnough) ∧
    Parsed.to_datetime_with_step_zone Parsed.new z = .ok (.error .notEnough) :=
  new_not_enough off zone z

/-- the quarter field is a pure cross-check, EVERY record: resolve the record without its quarter
field; an error is passed on unchanged (a quarter never makes a set sufficient and never changes
the kind); a resolved day `(Y, o)` is returned iff the quarter field — if supplied — is the quarter
of its month, otherwise IMPOSSIBLE -/
theorem date_quarter (p : Parsed) (hp : InType p) :
    ∃ r0, Parsed.to_naive_date { p with quarter := none } = .ok r0 ∧
      (∀ e, r0 = .error e → Parsed.to_naive_date p = .ok (.error e)) ∧
      (∀ Y o, VD Y o → r0 = .ok (dateOfYo Y o) →
        (optIs p.quarter (quarterOfMonth (monthOfYo Y o)) →
          Parsed.to_naive_date p = .ok (.ok (dateOfYo Y o))) ∧
        (¬ optIs p.quarter (quarterOfMonth (monthOfYo Y o)) →
          Parsed.to_naive_date p = .ok (.error .impossible))) := by
  have hp0 : InType { p with quarter := none } := by
    obtain ⟨h1, h2, h3, h4, h5, h6, _, h8⟩ := hp
    exact ⟨h1, h2, h3, h4, h5, h6, (fun x h => by cases h), h8⟩
  obtain ⟨r0, hr0, _⟩ := date_main _ hp0
  refine ⟨r0, hr0, fun e he => ?_, fun Y o hvd hd => ?_⟩
  · rw [date_quarter_factor, hr0, he]; rfl
  · obtain ⟨_, _, _, hm, _⟩ := vd_fields Y o hvd
    obtain ⟨_, _, hval, _⟩ := month_day_spec Y o hvd.2.2.1 hvd.2.2.2
    have hm1 : 1 ≤ monthOfYo Y o := by
      unfold validYmd at hval; simp at hval; omega
    rw [date_quarter_factor, hr0, hd]
    simp only [Parsed.RP.bind]
    cases hq : p.quarter with
    | none => exact ⟨fun _ => rfl, fun h => absurd (fun x hx => by cases hx) h⟩
    | some q =>
      simp only [hm, quarter_eq _ hm1]
      constructor
      · intro h
        rw [if_neg (by intro hne; exact hne (h q rfl))]
      · intro h
        rw [if_pos (by intro he; apply h; intro x hx; cases hx; exact he)]

/-- non-vacuity: year + quarter alone is NOT_ENOUGH (the quarter is no date combination); a matching
and a contradicting quarter beside a full date -/
example :
    Parsed.to_naive_date { year := some 2024, quarter := some 1 } = .ok (.error .notEnough) ∧
    Parsed.to_naive_date { year := some 2024, ordinal := some 91, quarter := some 1 }
      = .ok (.ok (dateOfYo 2024 91)) ∧
    Parsed.to_naive_date { year := some 2024, ordinal := some 92, quarter := some 1 }
      = .ok (.error .impossible) := by
  decide +kernel

/-- the year groups and NEGATIVE years: a negative year has neither century nor two-digit year, so a
negative full year beside a century or two-digit-year field is refused, and so is a negative century
(IMPOSSIBLE; OUT_OF_RANGE when the two-digit year is outside 0..=99 — that is checked first); a full
year alone is taken as it is, negative or not.  (In `date_sound` the same rule is the clause `centIs`:
a supplied century / two-digit year agrees only with a non-negative year.) -/
theorem year_group_negative (y qv rv : Int) (q r : Option Int) :
    (y < 0 → (q ≠ none ∨ r ≠ none) →
      Parsed.resolve_year (some y) q r = .error (if Parsed.modOk r then .impossible else .outOfRange)) ∧
    (qv < 0 →
      Parsed.resolve_year none (some qv) (some rv) =
        .error (if 0 ≤ rv ∧ rv ≤ 99 then .impossible else .outOfRange)) ∧
    (0 ≤ y → Parsed.resolve_year (some y) none none = .ok (some y)) ∧
    (y < 0 → Parsed.resolve_year (some y) none none = .ok (some y)) :=
  resolve_year_negative y qv rv q r

/-- non-vacuity at the resolver: year −1 with ordinal resolves; with a two-digit year 99 or century 0
beside it IMPOSSIBLE (−1 is not 0·100 + 99) -/
example :
    Parsed.to_naive_date { year := some (-1), ordinal := some 1 } = .ok (.ok (dateOfYo (-1) 1)) ∧
    Parsed.to_naive_date { year := some (-1), year_mod_100 := some 99, ordinal := some 1 }
      = .ok (.error .impossible) ∧
    Parsed.to_naive_date { year := some (-1), year_div_100 := some 0, ordinal := some 1 }
      = .ok (.error .impossible) ∧
    Parsed.to_naive_date { year_div_100 := some (-1), year_mod_100 := some 99, ordinal := some 1 }
      = .ok (.error .impossible) := by
  decide +kernel

/-- reading back what was set (the accessor methods `Parsed::year()` … are plain reads of these
fields): after a successful set the field holds the stored value — the argument itself, for
`set_hour12` `v % 12`, for `set_hour` the two halves `v / 12`, `v % 12` — whatever the prior record -/
theorem set_then_get (p p1 : Parsed) (v : Int) :
    (p.set_year v = .ok p1 → p1.year = some v) ∧
    (p.set_year_div_100 v = .ok p1 → p1.year_div_100 = some v) ∧
    (p.set_year_mod_100 v = .ok p1 → p1.year_mod_100 = some v) ∧
    (p.set_isoyear v = .ok p1 → p1.isoyear = some v) ∧
    (p.set_isoyear_div_100 v = .ok p1 → p1.isoyear_div_100 = some v) ∧
    (p.set_isoyear_mod_100 v = .ok p1 → p1.isoyear_mod_100 = some v) ∧
    (p.set_quarter v = .ok p1 → p1.quarter = some v) ∧
    (p.set_month v = .ok p1 → p1.month = some v) ∧
    (p.set_week_from_sun v = .ok p1 → p1.week_from_sun = some v) ∧
    (p.set_week_from_mon v = .ok p1 → p1.week_from_mon = some v) ∧
    (p.set_isoweek v = .ok p1 → p1.isoweek = some v) ∧
    (p.set_ordinal v = .ok p1 → p1.ordinal = some v) ∧
    (p.set_day v = .ok p1 → p1.day = some v) ∧
    (p.set_hour12 v = .ok p1 → p1.hour_mod_12 = some (v % 12)) ∧
    (p.set_minute v = .ok p1 → p1.minute = some v) ∧
    (p.set_second v = .ok p1 → p1.second = some v) ∧
    (p.set_nanosecond v = .ok p1 → p1.nanosecond = some v) ∧
    (p.set_offset v = .ok p1 → p1.offset = some v) ∧
    (p.set_timestamp v = .ok p1 → p1.timestamp = some v) ∧
    (p.set_hour v = .ok p1 → p1.hour_div_12 = some (v / 12) ∧ p1.hour_mod_12 = some (v % 12)) :=
  get_after_set_all p p1 v

/-- no resolver panics: for every record of in-type field values, every `i32` offset argument and
every fixed-offset zone, each of the six resolvers returns a value or an error kind
(`to_naive_time` and `to_fixed_offset` are `ParseResult`-valued in the model: they contain no
operation that could panic) -/
theorem no_panic (p : Parsed) (hp : InType p) (off zone : Int)
    (hoff : -2147483648 ≤ off ∧ off ≤ 2147483647) (hz : OffValid zone) :
    (∃ r, Parsed.to_naive_date p = .ok r) ∧
    (∃ r, (.ok (Parsed.to_naive_time p) : Parsed.RP Time) = .ok r) ∧
    (∃ r, Parsed.to_naive_datetime_with_offset p off = .ok r) ∧
    (∃ r, (.ok (Parsed.to_fixed_offset p) : Parsed.RP Int) = .ok r) ∧
    (∃ r, Parsed.to_datetime p = .ok r) ∧
    (∃ r, Parsed.to_datetime_with_timezone p zone = .ok r) := by
  obtain ⟨r1, h1, _⟩ := date_main p hp
  obtain ⟨r3, h3, _⟩ := dt_main p hp off hoff
  obtain ⟨r5, h5, _⟩ := to_datetime_spec p hp
  obtain ⟨r6, h6, _⟩ := to_datetime_tz_spec p hp zone hz
  exact ⟨⟨r1, h1⟩, ⟨_, rfl⟩, ⟨r3, h3⟩, ⟨_, rfl⟩, ⟨r5, h5⟩, ⟨r6, h6⟩⟩

/-! ### round 2 (audit2/C14.md): links between the callee models, exports, spec-level fall-back clause -/

open Chrono.Extracted.DateOps in
/-- MEDIUM-2: the resolver's inline model of `NaiveDate::with_ordinal` IS the model C03/C08 use (and
`GenDateOps.gen_with_ordinal_eq` translates), for every date word and every `u32` ordinal -/
theorem parsed_with_ordinal_eq (d : Date) (n : Nat) :
    Parsed.date_with_ordinal d (n : Int) = d.with_ordinal n := by
  unfold Parsed.date_with_ordinal Date.with_ordinal
  have h1 : WO_ZERO = 0 := rfl
  have h2 : WO_MAX = 366 := rfl
  by_cases hc : (n : Int) = 0 ∨ (n : Int) > 366
  · rw [if_pos hc, if_pos (show n = WO_ZERO ∨ n > WO_MAX by omega)]
  · rw [if_neg hc, if_neg (show ¬ (n = WO_ZERO ∨ n > WO_MAX) by omega)]
    have e : (n : Int) * 16 + ((d.flags / 8 : Nat) : Int) * 8
        = (d.yof - d.ordinal * 16 + (n : Int) * 16) / 8 % 1024 * 8 := by
      unfold Date.flags Date.ordinal
      omega
    dsimp only
    rw [e]
    rfl

/-- end to end: the code translation of `NaiveDate::with_ordinal` (regenerated from the Rust text on
every run) equals the function the week-date resolver of C14 calls -/
theorem gen_with_ordinal_eq_parsed (d : Date) (n : Nat) (hd : -2147483648 ≤ d.yof ∧ d.yof ≤ 2147483647)
    (hn : n ≤ 4294967295) :
    Gen.naive_date.NaiveDate.Datelike.with_ordinal d.yof n
      = Proofs.GenL.rmap (Option.map Date.yof) (Parsed.date_with_ordinal d (n : Int)) := by
  rw [parsed_with_ordinal_eq]; exact GenDateOps.gen_with_ordinal_eq d n hd hn

/-- MEDIUM-2: the two models of `NaiveDate::weeks_from` (C14's verifier, C12's formatter) are one function -/
theorem parsed_weeks_from_eq : Parsed.weeks_from = Format.weeks_from := rfl

open Chrono.Extracted.DateOps in
/-- MEDIUM-2: the resolver's `quarter_of` is `Datelike::quarter` as modelled for C08 from the EXTRACTED
constants `Q_SUB / Q_DIV / Q_ADD` (a month is at least 1, so the `u32` subtraction cannot underflow) -/
theorem parsed_quarter_of_eq (d : Date) (m : Nat) (hm : d.month = .ok m) (h1 : 1 ≤ m) :
    d.quarter = .ok ((m - Q_SUB) / Q_DIV + Q_ADD) ∧
    Parsed.quarter_of m = (((m - Q_SUB) / Q_DIV + Q_ADD : Nat) : Int) ∧
    Parsed.quarter_of m = Format.quarter m := by
  have a : Q_SUB = 1 := rfl
  have b : Q_DIV = 3 := rfl
  have c : Q_ADD = 1 := rfl
  refine ⟨?_, ?_, rfl⟩
  · unfold Date.quarter
    rw [hm]
    dsimp only
    rw [if_neg (by omega)]
  · unfold Parsed.quarter_of
    rw [a, b, c]
    omega

/-- non-vacuity: 2024-02-29 moved to ordinal 366 / 367 / 0; its quarter -/
example :
    Parsed.date_with_ordinal (dateOfYo 2024 60) 366 = .ok (some (dateOfYo 2024 366)) ∧
    Parsed.date_with_ordinal (dateOfYo 2023 60) 366 = .ok none ∧
    Parsed.date_with_ordinal (dateOfYo 2024 60) 0 = .ok none ∧
    (dateOfYo 2024 60).month = .ok 2 ∧ (dateOfYo 2024 60).quarter = .ok 1 ∧ Parsed.quarter_of 2 = 1 := by
  decide +kernel

/-- LOW-4: the date resolver on fields DERIVED from one existing day with determinate year groups —
exactly that day when the record holds a documented sufficient combination, NOT_ENOUGH otherwise;
never IMPOSSIBLE / OUT_OF_RANGE -/
theorem date_derived_outcome (p : Parsed) (hp : InType p) (Y : Int) (o : Nat) (hvd : VD Y o)
    (hag : DateAgrees p Y o)
    (hdY : GroupDeterminate p.year p.year_div_100 p.year_mod_100 Y)
    (hdI : ∀ w, (dateOfYo Y o).iso_week = .ok w →
      GroupDeterminate p.isoyear p.isoyear_div_100 p.isoyear_mod_100 (IsoWeek.year w)) :
    (Parsed.to_naive_date p = .ok (.ok (dateOfYo Y o)) ∧ DateSufficient p) ∨
    (Parsed.to_naive_date p = .ok (.error .notEnough) ∧ ¬ DateSufficient p) :=
  date_of_derived p hp Y o hvd hag hdY hdI

/-- LOW-4: the time resolver on fields DERIVED from one constructible time of day: exactly that time
when hour halves and minute are present (and the second wherever the nanosecond is), NOT_ENOUGH
otherwise; never OUT_OF_RANGE -/
theorem time_derived_outcome (p : Parsed) (t : Time) (ht : TStrict t) (ha : TimeAgrees p t) :
    (Parsed.to_naive_time p = .ok t ∧ TimeSufficient p) ∨
    (Parsed.to_naive_time p = .error .notEnough ∧ ¬ TimeSufficient p) := by
  by_cases hs : TimeSufficient p
  · exact Or.inl ⟨time_complete' p t ht ha hs, hs⟩
  · right
    refine ⟨?_, hs⟩
    cases hres : Parsed.to_naive_time p with
    | ok t' => exact absurd (time_sound' p t' hres).2.2.1 hs
    | error e =>
      rcases time_err' p e hres with ⟨h1, _⟩ | ⟨_, h2⟩
      · rw [h1]
      · exact absurd (timeInRange_of_supplied' p t ht.1
          ⟨ha.1, ha.2.1, ha.2.2.1, ha.2.2.2.1.1, ha.2.2.2.2.1⟩) h2

/-- LOW-5: the timestamp branches of `datetime_error_kinds` against the SPECIFICATION (that theorem's
third timestamp clause ends in the model function `from_timestamp_path`).  EVERY record with a
timestamp field — in particular one whose date and time fields do not both resolve and none of whose
component resolvers reports OUT_OF_RANGE / IMPOSSIBLE, i.e. the fall-back: no panic; a value is an
existing day and a constructible time that agree with every supplied date and time field and whose
timestamp at `off` is the supplied one (one less allowed for a leap second); an error is one of the
three kinds, and NOT_ENOUGH only for a century-only ISO year group.  WHICH of IMPOSSIBLE /
OUT_OF_RANGE the fall-back reports is not characterised (the property statement does not ask). -/
theorem datetime_fallback_outcome (p : Parsed) (hp : InType p) (off : Int)
    (hoff : -2147483648 ≤ off ∧ off ≤ 2147483647) (ts : Int) (hts : p.timestamp = some ts) :
    ∃ r, Parsed.to_naive_datetime_with_offset p off = .ok r ∧
      (∀ dt, r = .ok dt → ∃ Y o, VD Y o ∧ dt.date = dateOfYo Y o ∧ DateAgrees p Y o ∧
        TStrict dt.time ∧ TimeAgreesSupplied p dt.time ∧ timestampIs (some ts) dt off) ∧
      (∀ e, r = .error e → (e = .notEnough ∨ e = .impossible ∨ e = .outOfRange) ∧
        (e = .notEnough → ¬ GroupUsable p.isoyear p.isoyear_div_100 p.isoyear_mod_100)) := by
  obtain ⟨r, hr, he, hv⟩ := dt_main p hp off hoff
  refine ⟨r, hr, fun dt hdt => ?_, fun e hre => ⟨he e hre, fun hne => ?_⟩⟩
  · have := hv dt hdt
    rw [hts] at this
    exact this
  · subst hne
    subst hre
    exact (dt_not_enough_only p hp off hoff hr).2 (by rw [hts]; exact fun h => by cases h)

/-- non-vacuity of `datetime_fallback_outcome`: a lone timestamp resolves; with a century-only ISO group
it is NOT_ENOUGH; with a contradicting minute (only hour half missing, so the fall-back runs) IMPOSSIBLE -/
example :
    Parsed.to_naive_datetime_with_offset { timestamp := some 86399 } 3600
      = .ok (.ok ⟨dateOfYo 1970 2, ⟨3599, 0⟩⟩) ∧
    Parsed.to_naive_datetime_with_offset { timestamp := some 86399, isoyear_div_100 := some 19 } 0
      = .ok (.error .notEnough) ∧
    Parsed.to_naive_datetime_with_offset { timestamp := some 86399, minute := some 58 } 0
      = .ok (.error .impossible) := by
  decide +kernel

/-- LOW-7 / audit-2 section 2: a DIRECT instance of `tz_gen_complete_fields` for a zone that is neither
fixed nor a step zone (it answers every wall clock with the same two candidates and every instant with
+02:00): the hypotheses that are computations exhibited, the generic resolver evaluated.  `z1` is the
only candidate consistent with the offset field. -/
example :
    let p : Parsed := {
      year := some 2021, month := some 10, day := some 31, hour_div_12 := some 0,
      hour_mod_12 := some 2, minute := some 30, offset := some 3600 }
    let l : NaiveDT := ⟨dateOfYo 2021 304, ⟨9000, 0⟩⟩
    let z0 : Zoned := ⟨⟨dateOfYo 2021 304, ⟨1800, 0⟩⟩, 7200⟩
    let z1 : Zoned := ⟨⟨dateOfYo 2021 304, ⟨5400, 0⟩⟩, 3600⟩
    let ofu : NaiveDT → Res Int := fun _ => .ok 7200
    let fl : NaiveDT → Res (Mapped Zoned) := fun _ => .ok (.ambiguous z0 z1)
    ZInv z0 ∧ ZInv z1 ∧ VD 2021 304 ∧ TStrict ⟨9000, 0⟩ ∧ Zoned.naive_local z1 = .ok l ∧
    UsesCalendar p ∧ TimeSufficient p ∧ z1 ∈ (Mapped.ambiguous z0 z1).toList ∧ z0 ≠ z1 ∧
    consistentB p z1 = true ∧ consistentB p z0 = false ∧
    Parsed.to_datetime_with_timezone_gen p ofu fl = .ok (.ok z1) := by
  refine ⟨by decide +kernel, by decide +kernel, by unfold VD; decide, by decide, by decide +kernel,
    ⟨Or.inl (by simp), Or.inl ⟨by simp, by simp⟩⟩, ⟨by simp, by simp, by simp, fun h => by simp at h⟩,
    by simp [Mapped.toList], by decide, by decide +kernel, by decide +kernel, by decide +kernel⟩

end Chrono.Props.C14
