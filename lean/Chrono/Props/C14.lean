/-
  C14 — field resolution never returns a value that contradicts a supplied field.
  (stage 1: model + correspondence; the property theorems follow)
-/
import Chrono.Model.ParsedResolve

namespace Chrono.Props.C14
open Chrono Chrono.M

/-- the setter helper: a second value for a field is accepted exactly when it equals the first -/
theorem set_if_consistent_iff {α} [DecidableEq α] (old v : α) :
    (∃ r, Parsed.setIf (some old) v = .ok r) ↔ old = v := by
  unfold Parsed.setIf
  by_cases h : old = v <;> simp [h]

end Chrono.Props.C14
