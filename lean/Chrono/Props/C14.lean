/-
  C14 — field resolution never returns a value that contradicts a supplied field.
  Property statements only.  Model: Model/ParsedCore.lean (record, setters) and
  Model/ParsedResolve.lean (resolution).  Specification: Spec/ParsedSpec.lean — `DateAgrees`,
  `TimeAgrees`, `timestampIs` (what "agrees with every supplied field" means, read off the calendar
  specification of C01), `DateSufficient` / `TimeSufficient` (the documented combinations),
  `GroupCoherent` / `GroupDeterminate` (year groups).  Helper lemmas: Proofs/ParsedL.lean,
  Proofs/ParsedDateL.lean, Proofs/ParsedDtL.lean.

  `InType p` says that every field holds a value of its Rust type (`i32`/`u32`/`i64`); it is the
  only restriction on the record — all 2^21 subsets and all values are covered by each statement.
  `VD Y o` = "the o-th day of year Y exists and Y is in the supported range"; `dateOfYo Y o` is its
  packed value (C01).
-/
import Chrono.Proofs.ParsedDtL

namespace Chrono.Props.C14
open Chrono Chrono.M Chrono.Spec Chrono.Proofs Chrono.Extracted

/-! ### setting a field twice -/

/-- every integer-valued setter: after a successful `set_x a`, a second `set_x b` is accepted
exactly when `b = a` (an out-of-range `b` can never equal the accepted `a`) -/
theorem set_twice (p p1 : Parsed) (a b : Int) :
    (p.set_year a = .ok p1 → ((∃ p2, p1.set_year b = .ok p2) ↔ a = b)) ∧
    (p.set_year_div_100 a = .ok p1 → ((∃ p2, p1.set_year_div_100 b = .ok p2) ↔ a = b)) ∧
    (p.set_year_mod_100 a = .ok p1 → ((∃ p2, p1.set_year_mod_100 b = .ok p2) ↔ a = b)) ∧
    (p.set_isoyear a = .ok p1 → ((∃ p2, p1.set_isoyear b = .ok p2) ↔ a = b)) ∧
    (p.set_isoyear_div_100 a = .ok p1 → ((∃ p2, p1.set_isoyear_div_100 b = .ok p2) ↔ a = b)) ∧
    (p.set_isoyear_mod_100 a = .ok p1 → ((∃ p2, p1.set_isoyear_mod_100 b = .ok p2) ↔ a = b)) ∧
    (p.set_quarter a = .ok p1 → ((∃ p2, p1.set_quarter b = .ok p2) ↔ a = b)) ∧
    (p.set_month a = .ok p1 → ((∃ p2, p1.set_month b = .ok p2) ↔ a = b)) ∧
    (p.set_week_from_sun a = .ok p1 → ((∃ p2, p1.set_week_from_sun b = .ok p2) ↔ a = b)) ∧
    (p.set_week_from_mon a = .ok p1 → ((∃ p2, p1.set_week_from_mon b = .ok p2) ↔ a = b)) ∧
    (p.set_isoweek a = .ok p1 → ((∃ p2, p1.set_isoweek b = .ok p2) ↔ a = b)) ∧
    (p.set_ordinal a = .ok p1 → ((∃ p2, p1.set_ordinal b = .ok p2) ↔ a = b)) ∧
    (p.set_day a = .ok p1 → ((∃ p2, p1.set_day b = .ok p2) ↔ a = b)) ∧
    (p.set_minute a = .ok p1 → ((∃ p2, p1.set_minute b = .ok p2) ↔ a = b)) ∧
    (p.set_second a = .ok p1 → ((∃ p2, p1.set_second b = .ok p2) ↔ a = b)) ∧
    (p.set_nanosecond a = .ok p1 → ((∃ p2, p1.set_nanosecond b = .ok p2) ↔ a = b)) ∧
    (p.set_offset a = .ok p1 → ((∃ p2, p1.set_offset b = .ok p2) ↔ a = b)) ∧
    (p.set_timestamp a = .ok p1 → ((∃ p2, p1.set_timestamp b = .ok p2) ↔ a = b)) ∧
    (p.set_hour12 a = .ok p1 → ((∃ p2, p1.set_hour12 b = .ok p2) ↔ a = b)) ∧
    (p.set_hour a = .ok p1 → ((∃ p2, p1.set_hour b = .ok p2) ↔ a = b)) :=
  ⟨twice_year p p1 a b, twice_year_div_100 p p1 a b, twice_year_mod_100 p p1 a b, twice_isoyear p p1 a b, twice_isoyear_div_100 p p1 a b, twice_isoyear_mod_100 p p1 a b, twice_quarter p p1 a b, twice_month p p1 a b, twice_week_from_sun p p1 a b, twice_week_from_mon p p1 a b, twice_isoweek p p1 a b, twice_ordinal p p1 a b, twice_day p p1 a b, twice_minute p p1 a b, twice_second p p1 a b, twice_nanosecond p p1 a b, twice_offset p p1 a b, twice_timestamp p p1 a b, twice_hour12 p p1 a b, twice_hour p p1 a b⟩

/-- the two setters with non-integer arguments -/
theorem set_twice_weekday_ampm (p p1 : Parsed) :
    (∀ a b : Weekday, p.set_weekday a = .ok p1 → ((∃ p2, p1.set_weekday b = .ok p2) ↔ a = b)) ∧
    (∀ a b : Bool, p.set_ampm a = .ok p1 → ((∃ p2, p1.set_ampm b = .ok p2) ↔ a = b)) :=
  ⟨fun a b => twice_weekday p p1 a b, fun a b => twice_ampm p p1 a b⟩

/-- non-vacuity: a first set succeeds, the same value again succeeds, another value is refused with
IMPOSSIBLE, an out-of-range value with OUT_OF_RANGE -/
example : (∃ p1, Parsed.new.set_month 2 = .ok p1 ∧ p1.set_month 2 = .ok p1 ∧
    p1.set_month 3 = .error .impossible ∧ p1.set_month 13 = .error .outOfRange) :=
  ⟨{ month := some 2 }, rfl, rfl, rfl, rfl⟩

/-! ### times -/

/-- a resolved time is a value the public constructors can build and agrees with every supplied
time field (12-hour clock halves, minute, second incl. 60 = leap second, nanosecond); an omitted
second / nanosecond is zero in the result; resolution succeeded only on a sufficient set of
in-range fields -/
theorem time_sound (p : Parsed) (t : Time) (h : Parsed.to_naive_time p = .ok t) :
    TStrict t ∧ TimeAgrees p t ∧ TimeSufficient p ∧ TimeInRange p := time_sound' p t h

/-- completeness: fields that agree with a real time of day and contain the documented sufficient
combination resolve to exactly that time -/
theorem time_complete (p : Parsed) (t : Time) (ht : TStrict t) (ha : TimeAgrees p t)
    (hs : TimeSufficient p) : Parsed.to_naive_time p = .ok t := time_complete' p t ht ha hs

/-- error kinds of the time resolver: only NOT_ENOUGH and OUT_OF_RANGE occur; OUT_OF_RANGE only
with an out-of-range field; for in-range fields NOT_ENOUGH is reported exactly for insufficient sets.
(The resolver cannot panic: its model is `PRes`-valued, no machine arithmetic can overflow.) -/
theorem time_error_kinds (p : Parsed) :
    (∀ e, Parsed.to_naive_time p = .error e → e = .notEnough ∨ e = .outOfRange) ∧
    (Parsed.to_naive_time p = .error .outOfRange → ¬ TimeInRange p) ∧
    (Parsed.to_naive_time p = .error .notEnough → ¬ TimeSufficient p) ∧
    (TimeInRange p → (Parsed.to_naive_time p = .error .notEnough ↔ ¬ TimeSufficient p)) := by
  refine ⟨fun e h => ?_, fun h => ?_, fun h => ?_, fun hr => ⟨fun h => ?_, fun hns => ?_⟩⟩
  · rcases time_err' p e h with ⟨h1, _⟩ | ⟨h1, _⟩ <;> simp [h1]
  · rcases time_err' p _ h with ⟨h1, _⟩ | ⟨_, h2⟩
    · cases h1
    · exact h2
  · rcases time_err' p _ h with ⟨_, h2⟩ | ⟨h1, _⟩
    · exact h2
    · cases h1
  · rcases time_err' p _ h with ⟨_, h2⟩ | ⟨h1, _⟩
    · exact h2
    · cases h1
  · cases hres : Parsed.to_naive_time p with
    | ok t => exact absurd (time_sound' p t hres).2.2.1 hns
    | error e =>
      rcases time_err' p e hres with ⟨h1, _⟩ | ⟨_, h2⟩
      · rw [h1]
      · exact absurd hr h2

/-- non-vacuity: 23:59:60.5 (a leap second) from the 12-hour fields, an insufficient set, an
out-of-range minute -/
example :
    Parsed.to_naive_time {
      hour_div_12 := some 1, hour_mod_12 := some 11, minute := some 59,
      second := some 60, nanosecond := some 500000000 } = .ok ⟨86399, 1500000000⟩ ∧
    Parsed.to_naive_time { hour_div_12 := some 1, minute := some 59 } = .error .notEnough ∧
    Parsed.to_naive_time { hour_div_12 := some 1, hour_mod_12 := some 11, minute := some 60 }
      = .error .outOfRange := by decide +kernel

/-! ### dates -/

/-- the date resolver never panics: for every record of in-type field values it returns a date or
an error kind -/
theorem date_no_panic (p : Parsed) (hp : InType p) : ∃ r, Parsed.to_naive_date p = .ok r := by
  obtain ⟨r, hr, _⟩ := date_main p hp
  exact ⟨r, hr⟩

/-- soundness, every record in which a calendar combination (year with month+day, ordinal, or a
Sunday/Monday week number with weekday) is present: a successful result is an existing day of the
supported range and agrees with EVERY supplied date field — full year, century, two-digit year,
quarter, month, both week numbers, weekday, ordinal, day, and the three ISO-week fields -/
theorem date_sound (p : Parsed) (hp : InType p) (hc : UsesCalendar p) (d : Date)
    (h : Parsed.to_naive_date p = .ok (.ok d)) :
    ∃ Y o, VD Y o ∧ d = dateOfYo Y o ∧ DateAgrees p Y o := by
  obtain ⟨r, hr, hok, _⟩ := date_main p hp
  rw [hr] at h
  cases h
  obtain ⟨Y, o, hvd, hd, hag⟩ := hok d rfl
  exact ⟨Y, o, hvd, hd, hag (Or.inr hc)⟩

/-- soundness for ALL records, including those resolved through the ISO combination (ISO year,
ISO week, weekday).  Missing for the unconditional statement: `IsoCtorSpec`, the round trip
"`from_isoywd_opt y w wd = d` ⇒ `d.iso_week = (y, w)` and `d.weekday = wd`" of the ISO-week
constructor, which belongs to C01's ISO-week theorems (Proofs/IsoL.lean, another builder); it is an
explicit hypothesis here.  Everything else (the resolver's own logic: year groups, verifier
closures, quarter check) is proved. -/
theorem date_sound_partial (hiso : IsoCtorSpec) (p : Parsed) (hp : InType p) (d : Date)
    (h : Parsed.to_naive_date p = .ok (.ok d)) :
    ∃ Y o, VD Y o ∧ d = dateOfYo Y o ∧ DateAgrees p Y o := by
  obtain ⟨r, hr, hok, _⟩ := date_main p hp
  rw [hr] at h
  cases h
  obtain ⟨Y, o, hvd, hd, hag⟩ := hok d rfl
  exact ⟨Y, o, hvd, hd, hag (Or.inl hiso)⟩

/-- the result of the ISO combination is, unconditionally, an existing day of the supported range
(so `date_sound_partial` lacks only the agreement of the ISO fields themselves) -/
theorem date_result_valid (p : Parsed) (hp : InType p) (d : Date)
    (h : Parsed.to_naive_date p = .ok (.ok d)) : ∃ Y o, VD Y o ∧ d = dateOfYo Y o := by
  obtain ⟨r, hr, hok, _⟩ := date_main p hp
  rw [hr] at h
  cases h
  obtain ⟨Y, o, hvd, hd, _⟩ := hok d rfl
  exact ⟨Y, o, hvd, hd⟩

/-- error kinds of the date resolver: only NOT_ENOUGH, IMPOSSIBLE, OUT_OF_RANGE occur; NOT_ENOUGH
only for sets that contain none of the documented combinations (or a century without two-digit
year); and when the two year groups are coherent (no contradicting or out-of-range member),
NOT_ENOUGH is reported exactly for the insufficient sets -/
theorem date_error_kinds (p : Parsed) (hp : InType p) :
    (∀ e, Parsed.to_naive_date p = .ok (.error e) → e = .notEnough ∨ e = .impossible ∨ e = .outOfRange) ∧
    (Parsed.to_naive_date p = .ok (.error .notEnough) → ¬ DateSufficient p) ∧
    (GroupCoherent p.year p.year_div_100 p.year_mod_100 →
      GroupCoherent p.isoyear p.isoyear_div_100 p.isoyear_mod_100 →
      (Parsed.to_naive_date p = .ok (.error .notEnough) ↔ ¬ DateSufficient p)) := by
  obtain ⟨r, hr, _, hk, hne⟩ := date_main p hp
  refine ⟨fun e h => ?_, fun h => ?_, fun h1 h2 => date_not_enough_iff p hp h1 h2⟩
  · rw [hr] at h; cases h; exact hk e rfl
  · rw [hr] at h; cases h; exact hne rfl

/-- the year group alone: a resolved year agrees with full year, century and two-digit year; a
lone two-digit year is read with the 1970–2069 pivot; a lone century is NOT_ENOUGH -/
theorem year_group (y q r : Option Int) :
    (∀ g, Parsed.resolve_year y q r = .ok g →
      (g = none ∧ y = none ∧ q = none ∧ r = none) ∨
      (∃ Y, g = some Y ∧ optIs y Y ∧ centIs q r Y ∧ GroupHasYear y r)) ∧
    (∀ rv, 0 ≤ rv → rv ≤ 99 →
      Parsed.resolve_year none none (some rv) = .ok (some (if rv < 70 then 2000 + rv else 1900 + rv))) ∧
    (∀ qv, Parsed.resolve_year none (some qv) none = .error .notEnough) := by
  refine ⟨fun g h => resolve_year_ok y q r g h, fun rv h0 h1 => ?_, fun qv => rfl⟩
  unfold Parsed.resolve_year
  simp only []
  rw [if_pos ⟨h0, h1⟩]
  congr 2
  split <;> omega

/-- non-vacuity: a 9-field record (2024-02-29 with consistent week fields and quarter) resolves;
changing the quarter makes it IMPOSSIBLE; a non-existent day is OUT_OF_RANGE; a lone century is
NOT_ENOUGH; week 53 + Sunday of a year whose last week is shorter is IMPOSSIBLE -/
example :
    Parsed.to_naive_date {
      year_div_100 := some 20, year_mod_100 := some 24, quarter := some 1,
      month := some 2, day := some 29, weekday := some .thu, ordinal := some 60, isoweek := some 9,
      week_from_mon := some 9 } = .ok (.ok (dateOfYo 2024 60)) ∧
    Parsed.to_naive_date { year := some 2024, quarter := some 2, month := some 2, day := some 29 }
      = .ok (.error .impossible) ∧
    Parsed.to_naive_date { year := some 2023, month := some 2, day := some 29 } = .ok (.error .outOfRange) ∧
    Parsed.to_naive_date { year_div_100 := some 20, month := some 2, day := some 28 }
      = .ok (.error .notEnough) ∧
    Parsed.to_naive_date { year := some 2023, week_from_sun := some 53, weekday := some .mon }
      = .ok (.error .impossible) := by
  decide +kernel

/-! ### date-times -/

/-- the field path of `to_naive_datetime_with_offset` (date and time both resolve): no panic, the
result is exactly (date, time), and it is returned iff the supplied timestamp — if any — is the
timestamp of that local reading minus the offset, with the documented allowance of one second when
the result is a leap second; otherwise IMPOSSIBLE.  With `date_sound`/`time_sound` this is the
soundness of the date-time resolver on this path: date fields, time fields and timestamp all agree. -/
theorem datetime_sound_fields (p : Parsed) (hp : InType p) (off : Int)
    (hoff : -2147483648 ≤ off ∧ off ≤ 2147483647) (d : Date) (t : Time)
    (hd : Parsed.to_naive_date p = .ok (.ok d)) (ht : Parsed.to_naive_time p = .ok t) :
    (∃ r, Parsed.to_naive_datetime_with_offset p off = .ok r ∧
      (∀ dt, r = .ok dt → dt = ⟨d, t⟩ ∧ timestampIs p.timestamp dt off) ∧
      (∀ e, r = .error e → e = .impossible ∧ ¬ timestampIs p.timestamp ⟨d, t⟩ off) ∧
      (timestampIs p.timestamp ⟨d, t⟩ off → r = .ok ⟨d, t⟩)) := by
  obtain ⟨Y, o, hvd, rfl⟩ := date_result_valid p hp d hd
  have htv := (time_sound' p t ht).1.1
  rw [dt_fields_path p off hoff Y o t hvd htv hd ht]
  refine ⟨_, rfl, ?_⟩
  unfold timestampIs
  cases hts : p.timestamp with
  | none =>
    dsimp only
    exact ⟨(fun dt h => by cases h; exact ⟨rfl, fun g hg => by cases hg⟩), (fun e h => by cases h),
      fun _ => rfl⟩
  | some g =>
    dsimp only
    split
    · rename_i hc
      refine ⟨(fun dt h => by cases h), fun e h => ?_, fun h => ?_⟩
      · cases h
        refine ⟨rfl, fun hh => ?_⟩
        rcases hh g rfl with h1 | h1
        · exact hc.1 h1
        · exact hc.2 h1
      · rcases h g rfl with h1 | h1
        · exact absurd h1 hc.1
        · exact absurd h1 hc.2
    · rename_i hc
      refine ⟨fun dt h => ?_, (fun e h => by cases h), fun _ => rfl⟩
      cases h
      refine ⟨rfl, fun g' hg' => ?_⟩
      cases hg'
      by_cases h1 : g = timestampIs.instSecsLocal ⟨dateOfYo Y o, t⟩ - off
      · exact Or.inl h1
      · right
        have : ¬ ¬ (t.frac ≥ 1000000000 ∧ g = timestampIs.instSecsLocal ⟨dateOfYo Y o, t⟩ - off + 1) :=
          fun hn => hc ⟨h1, hn⟩
        exact Decidable.not_not.mp this

/-- non-vacuity: the leap second 2016-12-31T23:59:60 with either of the two admissible timestamps,
and a contradicting one -/
example :
    Parsed.to_naive_datetime_with_offset {
      year := some 2016, month := some 12, day := some 31,
      hour_div_12 := some 1, hour_mod_12 := some 11, minute := some 59, second := some 60,
      timestamp := some 1483228799 } 0 = .ok (.ok ⟨dateOfYo 2016 366, ⟨86399, 1000000000⟩⟩) ∧
    Parsed.to_naive_datetime_with_offset {
      year := some 2016, month := some 12, day := some 31,
      hour_div_12 := some 1, hour_mod_12 := some 11, minute := some 59, second := some 60,
      timestamp := some 1483228800 } 0 = .ok (.ok ⟨dateOfYo 2016 366, ⟨86399, 1000000000⟩⟩) ∧
    Parsed.to_naive_datetime_with_offset {
      year := some 2016, month := some 12, day := some 31,
      hour_div_12 := some 1, hour_mod_12 := some 11, minute := some 59, second := some 60,
      timestamp := some 1483228801 } 0 = .ok (.error .impossible) := by
  decide +kernel

end Chrono.Props.C14
