/-
  C05 / C16, code translation tie for the pure helpers of src/offset/local/tz_info/rule.rs: `is_leap_year` as
  regenerated from the Rust source text on every run (tools/extractors/rust2lean.py, lean/Chrono/Extracted/Gen.lean)
  equals the hand-written model (Model/TzRule.lean) for every `i32` — indeed for every integer.
  `days_since_unix_epoch` is translated too (with the constant array `CUMUL_DAY_IN_MONTHS_NORMAL_YEAR` of
  tz_info/mod.rs written out as a list literal and indexed through `GenRt.idxL`); `gen_days_since_unix_epoch_eq_partial`
  ties it to the model at concrete arguments only (the model checks the `i64` range once, at the end, the source at
  every step: the two agree whenever `month_day` is far from the `i64` bounds; the general statement is not proved
  here).
-/
import Chrono.Extracted.Gen
import Chrono.Model.TzRule

namespace Chrono.Props.GenTzRule
open Chrono Chrono.M

theorem gen_is_leap_year_eq (year : Int) :
    Gen.tz_info_rule.is_leap_year year = Tz.is_leap_year year := by
  unfold Gen.tz_info_rule.is_leap_year Tz.is_leap_year
  generalize Int.tmod year 400 = a
  generalize Int.tmod year 4 = b
  generalize Int.tmod year 100 = c
  by_cases ha : a = 0 <;> by_cases hb : b = 0 <;> by_cases hc : c = 0 <;> simp [ha, hb, hc]

/-- do the source and the model return the same day number? -/
def agree (year : Int) (month : Nat) (md : Int) : Bool :=
  match Gen.tz_info_rule.days_since_unix_epoch year month md, Tz.days_since_unix_epoch year month md with
  | .ok v, .ok w => v == w
  | _, _ => false

/-- the source and the model at the arguments the callers use (first of a month / a month day, years on both
sides of 1970, leap and common, before and from March) -/
theorem gen_days_since_unix_epoch_eq_partial :
    ∀ a ∈ ([(1970, 1, 1), (1969, 12, 31), (2000, 2, 29), (2000, 3, 1), (1900, 3, 1), (1968, 2, 29), (1968, 3, 1),
            (2147483647, 12, 31), (-2147483648, 1, 1), (2024, 1, 1), (1600, 2, 29)] : List (Int × Nat × Int)),
      agree a.1 a.2.1 a.2.2 = true := by decide +kernel

/-- `month = 0` is the `usize` underflow of `month - 1` in both -/
example : Gen.tz_info_rule.days_since_unix_epoch 2000 0 1 = .panic
    ∧ Gen.tz_info_rule.days_since_unix_epoch 2000 13 1 = .panic
    ∧ Gen.tz_info_rule.days_since_unix_epoch 1970 1 1 = .ok 0
    ∧ Gen.tz_info_rule.is_leap_year 1900 = false ∧ Gen.tz_info_rule.is_leap_year 2000 = true := by decide +kernel

end Chrono.Props.GenTzRule
