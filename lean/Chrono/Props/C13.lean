/-
  C13 — parsing with a format string inverts formatting with it.
  Property statements only (specification: Spec/UnambiguousSpec.lean; helper lemmas:
  Proofs/RoundTripL.lean, namespace `Chrono.Proofs.RoundTrip`).
-/
import Chrono.Model.ParseFrom
import Chrono.Extracted.ParseTable

namespace Chrono.Props.C13
open Chrono Chrono.M Chrono.Extracted

/-! ## the parser's numeric table is the one in the source -/

/-- the model setter a setter name of `parse_internal`'s table stands for -/
def setterOf (name : String) : Option (Parsed → Int → PRes Parsed) :=
  match name with
  | "set_year" => some Parsed.set_year
  | "set_year_div_100" => some Parsed.set_year_div_100
  | "set_year_mod_100" => some Parsed.set_year_mod_100
  | "set_isoyear" => some Parsed.set_isoyear
  | "set_isoyear_div_100" => some Parsed.set_isoyear_div_100
  | "set_isoyear_mod_100" => some Parsed.set_isoyear_mod_100
  | "set_quarter" => some Parsed.set_quarter
  | "set_month" => some Parsed.set_month
  | "set_day" => some Parsed.set_day
  | "set_week_from_sun" => some Parsed.set_week_from_sun
  | "set_week_from_mon" => some Parsed.set_week_from_mon
  | "set_isoweek" => some Parsed.set_isoweek
  | "set_weekday_with_num_days_from_sunday" => some Parsed.set_weekday_with_num_days_from_sunday
  | "set_weekday_with_number_from_monday" => some Parsed.set_weekday_with_number_from_monday
  | "set_ordinal" => some Parsed.set_ordinal
  | "set_hour" => some Parsed.set_hour
  | "set_hour12" => some Parsed.set_hour12
  | "set_minute" => some Parsed.set_minute
  | "set_second" => some Parsed.set_second
  | "set_nanosecond" => some Parsed.set_nanosecond
  | "set_timestamp" => some Parsed.set_timestamp
  | _ => none

/-- the setter name the model uses for a numeric item -/
def setterName (n : Numeric) : String :=
  match n with
  | .year => "set_year" | .yearDiv100 => "set_year_div_100" | .yearMod100 => "set_year_mod_100"
  | .isoYear => "set_isoyear" | .isoYearDiv100 => "set_isoyear_div_100"
  | .isoYearMod100 => "set_isoyear_mod_100" | .quarter => "set_quarter" | .month => "set_month"
  | .day => "set_day" | .weekFromSun => "set_week_from_sun" | .weekFromMon => "set_week_from_mon"
  | .isoWeek => "set_isoweek" | .numDaysFromSun => "set_weekday_with_num_days_from_sunday"
  | .weekdayFromMon => "set_weekday_with_number_from_monday" | .ordinal => "set_ordinal"
  | .hour => "set_hour" | .hour12 => "set_hour12" | .minute => "set_minute" | .second => "set_second"
  | .nanosecond => "set_nanosecond" | .timestamp => "set_timestamp"

/-- the row of the source table the model's `numericSpec` amounts to (width 0 = `usize::MAX`) -/
def modelRow (n : Numeric) : String × Nat × Bool × String :=
  (n.name, (Parse.numericSpec n).1.getD 0, (Parse.numericSpec n).2.1, setterName n)

/-- the setter function of `numericSpec` is the one its name stands for -/
theorem numeric_setter_named (n : Numeric) :
    setterOf (setterName n) = some (Parse.numericSpec n).2.2 := by
  cases n <;> rfl

/-- `Parse.numericSpec` (width, signedness, setter of every numeric item) is exactly the table of
`parse_internal` as extracted from src/format/parse.rs on this run, row for row; and the reader's
`scan::number` calls have the shape the model assumes (signed: unlimited width after an explicit
sign, the item's width otherwise; at least one digit). -/
theorem numeric_table_extracted :
    Numeric.all.map modelRow = PARSE_NUMERIC_TABLE ∧
    PARSE_NUMERIC_CALLS = [("&s[1..]", 1, "usize::MAX"), ("&s[1..]", 1, "usize::MAX"),
      ("s", 1, "width"), ("s", 1, "width")] := by
  decide

end Chrono.Props.C13
