/-
  C13 — parsing with a format string inverts formatting with it.
  Property statements only (specification: Spec/UnambiguousSpec.lean — `Unambiguous`, `expressible`,
  `truncate_to_precision`; helper lemmas: Proofs/RoundTripL.lean, namespace `Chrono.Proofs.RoundTrip`).

  What is proved here, for all values / texts / records (no sampling):
  * the parser's numeric table is the one extracted from parse.rs on this run;
  * `item_inverts_*`: literals, white space (any run of the 25 White_Space characters), the two-digit,
    one-digit, day-of-year and century numeric items with every padding, month / weekday names and
    AM/PM in any letter case — each consumes exactly its rendering and makes exactly its setter call;
  * `items_invert` (induction over the item list), `case_and_space_perturbation`;
  * `family_roundtrip_partial`: the round trip equals the resolution of the value's own fields.
  * second stage: `item_inverts_year` (signed, 5–6 digit, every padding), `item_inverts_timestamp`,
    `item_inverts_fraction`, `item_inverts_offset`, the unified `item_inverts` for a value's context;
    `chain_from_separated` (the token chain derived from the syntactic `Spec.separated`);
    `family_roundtrip` (+ `_date`, `_time`, `_naive`, `_zoned`): parse ∘ format =
    `truncate_to_precision`, composed with C14's `date_complete`, `time_complete`,
    `datetime_complete_fields`;
  * third stage: `family_roundtrip_timestamp_naive` / `_zoned` (formats that carry the instant only as
    a timestamp: `%s`, `%s %z`, `%s%:z`, `%z %s`), composed with C14's `datetime_complete_timestamp` /
    `to_datetime_complete_timestamp`; they are part of `family_roundtrip`.
  * fourth stage: `item_inverts_rfc3339`, `family_roundtrip_rfc3339_item` (the format `%+`), on C09's
    lemmas about `parse_rfc3339_relaxed` and C20's `write_rfc3339_autoSi_debug`.
  * white-space items of the format may contain non-ASCII white space (`Spec.wsRun`; U+3000 in the
    example below);
  * fifth stage: `family_format_succeeds` — formatting a member of the family (whose items the target
    type can print: `Spec.showsFor`, part of `Spec.Unambiguous`) returns a text; the `family_roundtrip*`
    theorems conclude it instead of assuming it.
  * sixth stage (audit gaps, 2026-09-30): `items_are_proved` (the hypothesis "proved items" follows from
    `Spec.Unambiguous`), `Spec.spaceSafe` inside `Spec.Unambiguous`; `family_roundtrip_perturbed` (case and
    white-space perturbations `Spec.Perturbed` at `parse_from_str`), `chain_from_separated_perturbed`,
    `case_and_space_perturbation_chain2`, `family_parse_and_remainder` (trailing text);
    `family_roundtrip_zoned_total` / `_excluded`, `leap_off_59_reads_back_normalised` (the excluded values).
  * round 3: `Spec.exprLeapFor` (the leap clause of `Spec.expressible` applies only where the wall clock's second is
    printed), `leap_off_59_zoned_reads_back_normalised` (a UTC leap second seen at an offset with seconds).
  Not proved (compared with the crate and checked by the round-trip oracle only): the members listed in
  the docstring of `family_roundtrip_partial`.
  Concrete parser runs cannot be closed by `decide`: `Scan.number` is defined by mutual (well-founded)
  recursion, which the kernel does not unfold; the examples go through the theorems instead.
-/
import Chrono.Proofs.RoundTripFormatOkL
import Chrono.Proofs.RoundTripPerturbL
import Chrono.Proofs.StrftimeProvedL
import Chrono.Proofs.RoundTripTotalL
import Chrono.Proofs.RoundTripWideL
import Chrono.Spec.UnambiguousSpec
import Chrono.Extracted.ParseTable
import Chrono.Extracted.ParseFixedTable

namespace Chrono.Props.C13
open Chrono Chrono.M Chrono.M.Scan Chrono.M.ParseFrom Chrono.Spec Chrono.Proofs.RoundTrip Chrono.Extracted
open Chrono.Proofs.ParsedRes (VD)

/-! ## the parser's numeric table is the one in the source -/

/-- the model setter a setter name of `parse_internal`'s table stands for -/
def setterOf (name : String) : Option (Parsed → Int → PRes Parsed) :=
  match name with
  | "set_year" => some Parsed.set_year
  | "set_year_div_100" => some Parsed.set_year_div_100
  | "set_year_mod_100" => some Parsed.set_year_mod_100
  | "set_isoyear" => some Parsed.set_isoyear
  | "set_isoyear_div_100" => some Parsed.set_isoyear_div_100
  | "set_isoyear_mod_100" => some Parsed.set_isoyear_mod_100
  | "set_quarter" => some Parsed.set_quarter
  | "set_month" => some Parsed.set_month
  | "set_day" => some Parsed.set_day
  | "set_week_from_sun" => some Parsed.set_week_from_sun
  | "set_week_from_mon" => some Parsed.set_week_from_mon
  | "set_isoweek" => some Parsed.set_isoweek
  | "set_weekday_with_num_days_from_sunday" => some Parsed.set_weekday_with_num_days_from_sunday
  | "set_weekday_with_number_from_monday" => some Parsed.set_weekday_with_number_from_monday
  | "set_ordinal" => some Parsed.set_ordinal
  | "set_hour" => some Parsed.set_hour
  | "set_hour12" => some Parsed.set_hour12
  | "set_minute" => some Parsed.set_minute
  | "set_second" => some Parsed.set_second
  | "set_nanosecond" => some Parsed.set_nanosecond
  | "set_timestamp" => some Parsed.set_timestamp
  | _ => none

/-- the setter name the model uses for a numeric item -/
def setterName (n : Numeric) : String :=
  match n with
  | .year => "set_year" | .yearDiv100 => "set_year_div_100" | .yearMod100 => "set_year_mod_100"
  | .isoYear => "set_isoyear" | .isoYearDiv100 => "set_isoyear_div_100"
  | .isoYearMod100 => "set_isoyear_mod_100" | .quarter => "set_quarter" | .month => "set_month"
  | .day => "set_day" | .weekFromSun => "set_week_from_sun" | .weekFromMon => "set_week_from_mon"
  | .isoWeek => "set_isoweek" | .numDaysFromSun => "set_weekday_with_num_days_from_sunday"
  | .weekdayFromMon => "set_weekday_with_number_from_monday" | .ordinal => "set_ordinal"
  | .hour => "set_hour" | .hour12 => "set_hour12" | .minute => "set_minute" | .second => "set_second"
  | .nanosecond => "set_nanosecond" | .timestamp => "set_timestamp"

/-- the row of the source table the model's `numericSpec` amounts to (width 0 = `usize::MAX`) -/
def modelRow (n : Numeric) : String × Nat × Bool × String :=
  (n.name, (Parse.numericSpec n).1.getD 0, (Parse.numericSpec n).2.1, setterName n)

/-- the setter function of `numericSpec` is the one its name stands for -/
theorem numeric_setter_named (n : Numeric) :
    setterOf (setterName n) = some (Parse.numericSpec n).2.2 := by
  cases n <;> rfl

/-- `Parse.numericSpec` (width, signedness, setter of every numeric item) is exactly the table of
`parse_internal` as extracted from src/format/parse.rs on this run, row for row; and the reader's
`scan::number` calls have the shape the model assumes (signed: unlimited width after an explicit
sign, the item's width otherwise; at least one digit). -/
theorem numeric_table_extracted :
    Numeric.all.map modelRow = PARSE_NUMERIC_TABLE ∧
    PARSE_NUMERIC_CALLS = [("&s[1..]", 1, "usize::MAX"), ("&s[1..]", 1, "usize::MAX"),
      ("s", 1, "width"), ("s", 1, "width")] := by
  decide

/-! ### the `Item::Fixed` dispatch of `parse_internal` as extracted data (second review, G1)

`PARSE_FIXED_TABLE` (tools/extractors/parsefixed.py) holds, for every variant pattern of the `match spec`
in the `Item::Fixed` arm, the guard, the scanner called inside `try_consume!`, its arguments and the setter
call, as written in src/format/parse.rs on this run.  `runFixedRow` reads such a row with the model
functions of the SAME NAMES (`scan::short_month0` ↦ `short_month0`, the three flags of
`scan::timezone_offset` ↦ `allow_zulu allow_missing_minutes allow_tz_minus_sign`, `len<N` ↦ the TOO_SHORT
guard, `set_month(i64::from(month0)+1)` ↦ `Parsed.set_month p (m0 + 1)` …) and knows nothing about which
variant the row belongs to. -/

/-- the arms of the source `match spec`, in source order -/
def fixedSrcOrder : List Fixed :=
  [.shortMonthName, .longMonthName, .shortWeekdayName, .longWeekdayName, .lowerAmPm, .upperAmPm,
   .nanosecond, .nanosecond3, .nanosecond6, .nanosecond9, .nanosecond3NoDot, .nanosecond6NoDot,
   .nanosecond9NoDot, .timezoneName, .timezoneOffsetColon, .timezoneOffsetDoubleColon,
   .timezoneOffsetTripleColon, .timezoneOffset, .timezoneOffsetColonZ, .timezoneOffsetZ,
   .timezoneOffsetPermissive, .rfc2822, .rfc3339]

/-- one iteration of the model's `parse_internal` for a `Fixed` item -/
def fixedStep (p : Parsed) (s : List Nat) (f : Fixed) : PRes (Parsed × List Nat) :=
  match f with
  | .rfc2822 => Parse.parse_rfc2822 p s
  | .rfc3339 => Parse.parse_rfc3339_relaxed p s
  | f => Parse.parseFixedBase p s f

/-- `try_consume!(scan(s))` followed by `parsed.set(v)?` for the name scanners -/
def nameArm {α : Type} (r : Except ScanErr (List Nat × α)) (set : α → PRes Parsed) :
    PRes (Parsed × List Nat) :=
  match r with
  | .ok (s', a) => (set a).map fun p' => (p', s')
  | .error .tooShort => .error .tooShort
  | .error .invalid => .error .invalid

/-- the three literal flags of a `scan::timezone_offset` call -/
def flags3 (args : String) : Option (Bool × Bool × Bool) :=
  match args with
  | "s.trim_start(),scan::colon_or_space,false,false,true" => some (false, false, true)
  | "s.trim_start(),scan::colon_or_space,true,false,true" => some (true, false, true)
  | "s.trim_start(),scan::colon_or_space,true,true,true" => some (true, true, true)
  | "s.trim_start(),scan::colon_or_space,false,true,true" => some (false, true, true)
  | "s.trim_start(),scan::colon_or_space,false,false,false" => some (false, false, false)
  | "s.trim_start(),scan::colon_or_space,true,false,false" => some (true, false, false)
  | "s.trim_start(),scan::colon_or_space,true,true,false" => some (true, true, false)
  | "s.trim_start(),scan::colon_or_space,false,true,false" => some (false, true, false)
  | _ => none

/-- a row of the source table read with the model functions of the same names (`none`: no reading) -/
def runFixedRow (r : String × String × String × String × String) (p : Parsed) (s : List Nat) :
    Option (PRes (Parsed × List Nat)) :=
  match r.2.1, r.2.2.1, r.2.2.2.1, r.2.2.2.2 with
  | "", "scan::short_month0", "s", "set_month(i64::from(month0)+1)" =>
    some (nameArm (short_month0 s) fun m0 => Parsed.set_month p ((m0 : Int) + 1))
  | "", "scan::short_or_long_month0", "s", "set_month(i64::from(month0)+1)" =>
    some (nameArm (short_or_long_month0 s) fun m0 => Parsed.set_month p ((m0 : Int) + 1))
  | "", "scan::short_weekday", "s", "set_weekday(weekday)" =>
    some (nameArm (short_weekday s) fun w => Parsed.set_weekday p w)
  | "", "scan::short_or_long_weekday", "s", "set_weekday(weekday)" =>
    some (nameArm (short_or_long_weekday s) fun w => Parsed.set_weekday p w)
  | "len<2", "match",
      "s.as_bytes()[0]|32,s.as_bytes()[1]|32:(b'a',b'm')=>false;(b'p',b'm')=>true;_=>returnErr(INVALID):s=&s[2..]",
      "set_ampm(ampm)" =>
    some (match s with
      | a :: b :: rest =>
        if or32 a = 97 ∧ or32 b = 109 then (Parsed.set_ampm p false).map fun p' => (p', rest)
        else if or32 a = 112 ∧ or32 b = 109 then (Parsed.set_ampm p true).map fun p' => (p', rest)
        else .error .invalid
      | _ => .error .tooShort)
  | "starts_with('.')", "scan::nanosecond", "&s[1..]", "set_nanosecond(nano)" =>
    some (match s with
      | 46 :: rest => Parse.setNano p (nanosecond rest)
      | _ => .ok (p, s))
  | "len<3", "scan::nanosecond_fixed", "s,3", "set_nanosecond(nano)" =>
    some (if s.length < 3 then .error .tooShort else Parse.setNano p (nanosecond_fixed s 3))
  | "len<6", "scan::nanosecond_fixed", "s,6", "set_nanosecond(nano)" =>
    some (if s.length < 6 then .error .tooShort else Parse.setNano p (nanosecond_fixed s 6))
  | "len<9", "scan::nanosecond_fixed", "s,9", "set_nanosecond(nano)" =>
    some (if s.length < 9 then .error .tooShort else Parse.setNano p (nanosecond_fixed s 9))
  | "", "Ok", "(s.trim_start_matches(|c:char|!c.is_whitespace()),())", "" => some (.ok (p, Parse.skipNonWs s))
  | "", "scan::timezone_offset", args, "set_offset(i64::from(offset))" =>
    (flags3 args).map fun fl =>
      Parse.setOffset p (timezone_offset (trimStart s) .colonOrSpace fl.1 fl.2.1 fl.2.2)
  | "", "parse_rfc2822", "parsed,s", "" => some (Parse.parse_rfc2822 p s)
  | "", "parse_rfc3339_relaxed", "parsed,s", "" => some (Parse.parse_rfc3339_relaxed p s)
  | _, _, _, _ => none

/-- the model's `parse_internal` does `fixedStep` for a `Fixed` item -/
theorem parse_internal_fixed (p : Parsed) (s : List Nat) (f : Fixed) (rest : List Item) :
    Parse.parse_internal p s (.fixed f :: rest) =
      match fixedStep p s f with
      | .ok (p', s') => Parse.parse_internal p' s' rest
      | .error e => .error e := by
  cases f <;> rfl

/-- **the `Item::Fixed` dispatch of the model is the table of `parse_internal` as extracted from
src/format/parse.rs on this run**: the table has exactly one row per `Fixed` variant (its names are the
variants' names in source order, and every variant occurs), and for every variant the model's step
(`Parse.parseFixedBase`, or the RFC 2822 / RFC 3339 arm of `Parse.parse_internal`) is what the variant's
row says, read by `runFixedRow` with the model's scanners, flags and setters of the same names — for every
record and every text.  A swap `short_month0` ↔ `short_or_long_month0`, a flipped `allow_zulu` /
`allow_missing_minutes` flag, a changed length guard or a different setter in the source changes the
extracted row and makes this theorem fail. -/
theorem fixed_table_extracted :
    PARSE_FIXED_TABLE.map (·.1) = fixedSrcOrder.map Fixed.name ∧
    (∀ f ∈ Fixed.all, f ∈ fixedSrcOrder) ∧
    ∀ (f : Fixed) (p : Parsed) (s : List Nat),
      (PARSE_FIXED_TABLE.find? (fun r => r.1 == f.name)).bind (fun r => runFixedRow r p s) =
        some (fixedStep p s f) := by
  refine ⟨by decide, by decide, ?_⟩
  intro f p s
  cases f <;> simp [PARSE_FIXED_TABLE, List.find?, Fixed.name, runFixedRow, flags3] <;>
    first
      | rfl
      | (simp only [nameArm, fixedStep, Parse.parseFixedBase]; split <;> simp_all)

/-! ## `item_inverts`: reading an item's rendering followed by `rest` consumes exactly the rendering
and makes exactly the item's setter call

`InvertsAt it ⟨text, set⟩ rest` (Proofs/RoundTripL.lean) says: for every record `p`, one iteration of
`parse_internal`'s loop on `text ++ rest` for item `it` returns `(set p, rest)` (or `set p`'s error).
`StopsDigits rest`: `rest` is empty or starts with a byte that is not an ASCII digit. -/

/-- literals (also `%%`): written verbatim, read verbatim, whatever follows -/
theorem item_inverts_literal (lit rest : List Nat) (d : Option Date) (t : Option Time)
    (off : Option (List Nat × Int)) :
    Format.format_item d t off (.literal lit) = Format.wok lit ∧
    InvertsAt (.literal lit) ⟨lit, .ok⟩ rest :=
  ⟨rfl, literal_inverts lit rest⟩

/-- the two-digit numeric items (`%y %g %m %d %e %U %W %V %H %k %I %l %M %S` and their `-`/`_`/`0`
modifiers): for every value below 100 and every padding, the text the writer `write_two` produces
is read back as that value by the item's reader, provided the text is followed by a non-digit (or
the end) — or the padding is zero, in which case the two digits fill the reader's width and anything
may follow -/
theorem item_inverts_two_digit (n : Numeric)
    (hn : n ∈ [Numeric.yearMod100, .isoYearMod100, .month, .day, .weekFromSun, .weekFromMon, .isoWeek,
      .hour, .hour12, .minute, .second])
    (v : Nat) (hv : v < 100) (pad : Pad) (rest : List Nat) (hrest : StopsDigits rest ∨ pad = .zero) :
    InvertsAt (.numeric n pad) ⟨Format.write_two (v : Int) pad, fun p => (Parse.numericSpec n).2.2 p v⟩ rest := by
  have h := write_two_numText v hv pad
  have hr := stops_or_zero pad rest hrest
  simp only [List.mem_cons, List.not_mem_nil, or_false] at hn
  rcases hn with rfl | rfl | rfl | rfl | rfl | rfl | rfl | rfl | rfl | rfl | rfl <;>
    exact numText_inverts _ pad _ rest v 2 _ rfl rfl h hr

/-- the one-digit items `%q %w %u` (always one digit, reader width 1: anything may follow) -/
theorem item_inverts_one_digit (n : Numeric) (hn : n ∈ [Numeric.quarter, .numDaysFromSun, .weekdayFromMon])
    (v : Nat) (hv : v < 10) (pad : Pad) (rest : List Nat) :
    InvertsAt (.numeric n pad) ⟨Format.write_one (v : Int), fun p => (Parse.numericSpec n).2.2 p v⟩ rest := by
  have h := write_one_numText v hv
  simp only [List.mem_cons, List.not_mem_nil, or_false] at hn
  rcases hn with rfl | rfl | rfl <;> exact numText_inverts _ pad _ rest v 1 true rfl rfl h (Or.inr rfl)

/-- the day of the year `%j` (three digits when zero-padded) and the century `%C` for years 0–9999 -/
theorem item_inverts_ordinal_century (pad : Pad) (rest : List Nat) (hrest : StopsDigits rest ∨ pad = .zero) :
    (∀ v : Nat, v < 1000 →
      InvertsAt (.numeric .ordinal pad) ⟨Format.write_n 3 (v : Int) pad false, fun p => p.set_ordinal v⟩ rest) ∧
    (∀ v : Nat, v < 100 →
      InvertsAt (.numeric .yearDiv100 pad) ⟨Format.write_n 2 (v : Int) pad false, fun p => p.set_year_div_100 v⟩ rest) :=
  ⟨fun v hv => numText_inverts .ordinal pad _ rest v 3 _ rfl rfl (write_n3_numText v hv pad) (stops_or_zero pad rest hrest),
   fun v hv => numText_inverts .yearDiv100 pad _ rest v 2 _ rfl rfl (write_n2_numText v hv pad) (stops_or_zero pad rest hrest)⟩

/-- what `format_numeric` writes for these items is the writer applied to the value's field (so the
three theorems above are about the formatter's output): time fields and the non-panicking date
fields by definition, the others once the accessor has returned -/
theorem format_numeric_writes (d : Date) (t : Time) (od : Option Date) (ot : Option Time)
    (off : Option Int) (pad : Pad) :
    Format.format_numeric od (some t) off .hour pad = Format.wok (Format.write_two (asU8 t.hour) pad) ∧
    Format.format_numeric od (some t) off .hour12 pad = Format.wok (Format.write_two (asU8 t.hour12.2) pad) ∧
    Format.format_numeric od (some t) off .minute pad = Format.wok (Format.write_two (asU8 t.minute) pad) ∧
    Format.format_numeric od (some t) off .second pad =
      Format.wok (Format.write_two (asU8 (t.second + t.nanosecond / 1000000000)) pad) ∧
    Format.format_numeric (some d) ot off .yearMod100 pad = Format.wok (Format.write_two (asU8 (d.year % 100)) pad) ∧
    Format.format_numeric (some d) ot off .yearDiv100 pad = Format.wok (Format.write_n 2 (d.year / 100) pad false) ∧
    Format.format_numeric (some d) ot off .ordinal pad = Format.wok (Format.write_n 3 d.ordinal pad false) ∧
    Format.format_numeric (some d) ot off .weekFromSun pad =
      Format.wok (Format.write_two (asU8 (Format.weeks_from d .sun)) pad) ∧
    Format.format_numeric (some d) ot off .weekFromMon pad =
      Format.wok (Format.write_two (asU8 (Format.weeks_from d .mon)) pad) ∧
    Format.format_numeric (some d) ot off .numDaysFromSun pad =
      Format.wok (Format.write_one (asU8 d.weekday.num_days_from_sunday)) ∧
    Format.format_numeric (some d) ot off .weekdayFromMon pad =
      Format.wok (Format.write_one (asU8 d.weekday.number_from_monday)) ∧
    (∀ m, d.month = .ok m →
      Format.format_numeric (some d) ot off .month pad = Format.wok (Format.write_two (asU8 m) pad) ∧
      Format.format_numeric (some d) ot off .quarter pad = Format.wok (Format.write_one (asU8 (Format.quarter m)))) ∧
    (∀ dd, d.day = .ok dd →
      Format.format_numeric (some d) ot off .day pad = Format.wok (Format.write_two (asU8 dd) pad)) ∧
    (∀ w, d.iso_week = .ok w →
      Format.format_numeric (some d) ot off .isoWeek pad = Format.wok (Format.write_two (asU8 (IsoWeek.week w)) pad) ∧
      Format.format_numeric (some d) ot off .isoYearMod100 pad =
        Format.wok (Format.write_two (asU8 (IsoWeek.year w % 100)) pad)) := by
  refine ⟨by cases od <;> rfl, by cases od <;> rfl, by cases od <;> rfl, by cases od <;> rfl,
    rfl, rfl, rfl, rfl, rfl, rfl, rfl, ?_, ?_, ?_⟩
  · intro m hm; simp [Format.format_numeric, Format.W.ofRes, hm]
  · intro dd hd; simp [Format.format_numeric, Format.W.ofRes, hd]
  · intro w hw; simp [Format.format_numeric, Format.W.ofRes, hw]

/-- `%p` / `%P`: the reader accepts `AM`/`PM` in any letter case and sets the half of the day -/
theorem item_inverts_ampm (f : Fixed) (hf : f = .lowerAmPm ∨ f = .upperAmPm) (pm : Bool) (text rest : List Nat)
    (h : lowerS text = lowerS (LOC_AM_PM.getD (if pm then 1 else 0) [])) :
    InvertsAt (.fixed f) ⟨text, fun p => p.set_ampm pm⟩ rest := by
  have hl : text.length = 2 := by
    have := congrArg List.length h
    cases pm <;> simpa [lowerS, LOC_AM_PM] using this
  rcases text with _ | ⟨a, _ | ⟨b, _ | ⟨c, t'⟩⟩⟩ <;> simp at hl
  cases pm
  · have h' : lowerB a = 97 ∧ lowerB b = 109 := by simpa [lowerS, LOC_AM_PM, lowerB] using h
    exact ampm_inverts f hf false a b rest h'.1 h'.2
  · have h' : lowerB a = 112 ∧ lowerB b = 109 := by simpa [lowerS, LOC_AM_PM, lowerB] using h
    exact ampm_inverts f hf true a b rest h'.1 h'.2

/-- month names `%b`/`%h` (short) and `%B` (long): any text equal to the default name up to ASCII
letter case is read as that month, whatever follows -/
theorem item_inverts_month_name (m0 : Nat) (hm : m0 < 12) (text rest : List Nat) :
    (lowerS text = lowerS (LOC_SHORT_MONTHS.getD m0 []) →
      InvertsAt (.fixed .shortMonthName) ⟨text, fun p => p.set_month ((m0 : Int) + 1)⟩ rest) ∧
    (lowerS text = lowerS (LOC_LONG_MONTHS.getD m0 []) →
      InvertsAt (.fixed .longMonthName) ⟨text, fun p => p.set_month ((m0 : Int) + 1)⟩ rest) := by
  obtain ⟨h1, h2⟩ := month_name_reads m0 hm text rest
  constructor
  · intro h p
    simp only [step, Parse.parseItemBase, Parse.parseFixedBase, h1 h]
  · intro h p
    simp only [step, Parse.parseItemBase, Parse.parseFixedBase, h2 h]

/-- weekday names `%a` (short) and `%A` (long), in any letter case -/
theorem item_inverts_weekday_name (w : Weekday) (text rest : List Nat) :
    (lowerS text = lowerS (LOC_SHORT_WEEKDAYS.getD w.num_days_from_sunday []) →
      InvertsAt (.fixed .shortWeekdayName) ⟨text, fun p => p.set_weekday w⟩ rest) ∧
    (lowerS text = lowerS (LOC_LONG_WEEKDAYS.getD w.num_days_from_sunday []) →
      InvertsAt (.fixed .longWeekdayName) ⟨text, fun p => p.set_weekday w⟩ rest) := by
  obtain ⟨h1, h2⟩ := weekday_name_reads w text rest
  constructor
  · intro h p
    simp only [step, Parse.parseItemBase, Parse.parseFixedBase, h1 h]
  · intro h p
    simp only [step, Parse.parseItemBase, Parse.parseFixedBase, h2 h]

/-- the names the formatter writes are the default names the two theorems above start from -/
theorem format_fixed_names (d : Date) (t : Time) (od : Option Date) (ot : Option Time)
    (off : Option (List Nat × Int)) :
    (∀ m, d.month = .ok m →
      Format.format_fixed (some d) ot off .shortMonthName = Format.wok (LOC_SHORT_MONTHS.getD (m - 1) []) ∧
      Format.format_fixed (some d) ot off .longMonthName = Format.wok (LOC_LONG_MONTHS.getD (m - 1) [])) ∧
    Format.format_fixed (some d) ot off .shortWeekdayName =
      Format.wok (LOC_SHORT_WEEKDAYS.getD d.weekday.num_days_from_sunday []) ∧
    Format.format_fixed (some d) ot off .longWeekdayName =
      Format.wok (LOC_LONG_WEEKDAYS.getD d.weekday.num_days_from_sunday []) ∧
    Format.format_fixed od (some t) off .upperAmPm = Format.wok (LOC_AM_PM.getD (if t.hour12.1 then 1 else 0) []) ∧
    Format.format_fixed od (some t) off .lowerAmPm =
      Format.wok (lowerS (LOC_AM_PM.getD (if t.hour12.1 then 1 else 0) [])) := by
  refine ⟨?_, rfl, rfl, by cases od <;> rfl, by cases od <;> rfl⟩
  intro m hm; simp [Format.format_fixed, Format.W.ofRes, hm]

/-! ## white space: surplus white space wherever the format has white space -/

/-- UTF-8 encodings of the 25 `White_Space` code points (`char::is_whitespace`) -/
def wsEncodings : List (List Nat) :=
  [[9], [10], [11], [12], [13], [32], [194, 133], [194, 160], [225, 154, 128],
   [226, 128, 128], [226, 128, 129], [226, 128, 130], [226, 128, 131], [226, 128, 132], [226, 128, 133],
   [226, 128, 134], [226, 128, 135], [226, 128, 136], [226, 128, 137], [226, 128, 138],
   [226, 128, 168], [226, 128, 169], [226, 128, 175], [226, 129, 159], [227, 128, 128]]

/-- a white-space item (`Item::Space`: blanks in the format string, `%t`, `%n`) accepts *any* run of
white-space characters in the text — more than the format has, fewer, different ones, or none — and
sets nothing, provided what follows does not itself start with white space -/
theorem item_inverts_space_any_run (sp : List Nat) (cs : List (List Nat)) (rest : List Nat)
    (hcs : ∀ c ∈ cs, c ∈ wsEncodings) (hr : wsLen rest = 0) :
    InvertsAt (.space sp) ⟨cs.flatten, .ok⟩ rest := by
  apply space_inverts sp cs rest _ hr
  intro c hc
  have := hcs c hc
  simp only [wsEncodings, List.mem_cons, List.not_mem_nil, or_false] at this
  rcases this with rfl | rfl | rfl | rfl | rfl | rfl | rfl | rfl | rfl | rfl | rfl | rfl | rfl | rfl |
    rfl | rfl | rfl | rfl | rfl | rfl | rfl | rfl | rfl | rfl | rfl <;>
    exact ⟨by simp, fun s => by simp [wsLen]⟩

/-! ## `items_invert`: induction over the item list -/

/-- if every item of the list inverts its token in front of the tokens that follow it (`Chain`),
then parsing the concatenated text with the item list consumes exactly that text and makes exactly
the tokens' setter calls, in order -/
theorem items_invert (is : List Item) (tks : List Tok) (rest : List Nat) (p : Parsed)
    (h : Chain is tks rest) :
    Parse.parse_internal p (flatText tks ++ rest) is = (applyAll tks p).map fun p' => (p', rest) :=
  chain_parse is tks rest p h

/-- case and white-space perturbation: if the original text and a perturbed text are both chains of
tokens for the same items with the same setter calls — which is what `item_inverts_month_name`,
`item_inverts_weekday_name`, `item_inverts_ampm` (any letter case) and `item_inverts_space_any_run`
(any white-space run) provide for the perturbed tokens — then parsing the perturbed text gives
exactly the result of parsing the original one -/
theorem case_and_space_perturbation (is : List Item) (tks tks' : List Tok) (rest : List Nat) (p : Parsed)
    (h : Chain is tks rest) (h' : Chain is tks' rest) (hs : tks.map (·.set) = tks'.map (·.set)) :
    Parse.parse_internal p (flatText tks' ++ rest) is = Parse.parse_internal p (flatText tks ++ rest) is := by
  rw [items_invert _ _ _ _ h, items_invert _ _ _ _ h', applyAll_congr tks tks' p hs]

/-- the round trip, reduced to field resolution — the generic glue for the members of the family that
`family_roundtrip` and `family_roundtrip_rfc3339_item` (below) do not cover.  If formatting `v` renders
token by token (`hfmt`), every item inverts its token in front of the following ones (`hchain`) and the
setter calls succeed on an empty record (`hset`), then `parse_from_str` of the formatted text is the
resolution of exactly those fields.
What is still NOT covered by a round-trip theorem, so that only this reduction is proved for it (these
cases are compared with the crate and checked by the round-trip oracle; the specification predicts nothing
for them, which the harness records as the excluded class `rfc3339-item` — `pf.spl`):
* `%+` (the RFC 3339 item) next to other items in one format string: `family_roundtrip_rfc3339_item`
  covers the format strings that consist of `%+` alone (its reader `parse_rfc3339_relaxed` is then
  started on a fresh record and must consume the whole text); the specification keeps the item out of
  `Spec.Unambiguous` (`invertible`);
* the `Z`-printing offset items (no specifier produces them: `items_are_proved`).
No longer listed here: `%.f` directly after a white-space item is OUTSIDE the family since
`Spec.spaceSafe` became part of `Spec.Unambiguous` (`%S %.f .%3f` really does not round-trip in the
crate; the unambiguous member `%S %.f` is compared and checked by the oracle only; the fixed-width fraction
items after white space, `%S %3f`, `%S %.3f` …, are inside the family since the second review);
zone-aware values whose truncated wall clock is no instant of the range at the printed offset are
characterised by `family_roundtrip_zoned_total` / `_excluded` (IMPOSSIBLE); a wall clock outside the range
of `NaiveDate` makes `Spec.truncate_to_precision` predict nothing (the crate answers OUT_OF_RANGE; compared,
no theorem); timestamp-only formats (`family_roundtrip_timestamp_*`), non-ASCII white space
(`Spec.wsRun`), success of formatting (`family_format_succeeds`).  A timestamp next to an
incomplete set of date/time fields (`%s.%f`) is outside the family (`Spec.Unambiguous`). -/
theorem family_roundtrip_partial (T : Target) (fmt : List Nat) (v : Value) (tks : List Tok) (p' : Parsed)
    (hT : v.target = T)
    (hfmt : format v fmt = Format.wok (flatText tks))
    (hchain : Chain (Strftime.items fmt) tks [])
    (hset : applyAll tks Parsed.new = .ok p') :
    roundtrip v fmt = some (flatText tks, resolve T p') := by
  have hp : Parse.parse_internal Parsed.new (flatText tks ++ []) (Strftime.items fmt) = .ok (p', []) := by
    rw [items_invert _ _ _ _ hchain, hset]; rfl
  rw [List.append_nil] at hp
  simp only [roundtrip, hfmt, Format.wok, parse_from_str, fields, Parse.parse, hp, hT]

/-! ## `item_inverts` for the signed, unbounded and offset items (second stage) -/

/-- `%Y` / `%G` with every padding and every year of the `i32`-sized range (negative, 5–6 digits
included): `write_year` prints four digits for 0–9999 when zero-padded (and always for 1000–9999),
otherwise a sign and the digits; the reader returns exactly that year, provided the text is followed
by a non-digit — or the year is 0–9999 and zero-padded, in which case the four digits fill the
reader's width -/
theorem item_inverts_year (n : Numeric) (hn : n = .year ∨ n = .isoYear) (y : Int)
    (hy : -1000000000 < y ∧ y < 1000000000) (pad : Pad) (rest : List Nat)
    (hrest : StopsDigits rest ∨ (pad = .zero ∧ 0 ≤ y ∧ y ≤ 9999)) :
    ∃ text, Format.write_year y pad = Format.wok text ∧
      InvertsAt (.numeric n pad) ⟨text, fun p => (Parse.numericSpec n).2.2 p y⟩ rest := by
  obtain ⟨text, e1, e2⟩ := write_year_text y pad hy
  rcases hn with rfl | rfl
  · exact ⟨text, e1, snum_inverts .year pad text rest y _ rfl e2 hrest⟩
  · exact ⟨text, e1, snum_inverts .isoYear pad text rest y _ rfl e2 hrest⟩

/-- `%s`: the signed decimal of the timestamp (signed since the repair of finding #15), any padding,
followed by a non-digit -/
theorem item_inverts_timestamp (ts : Int) (h : -100000000000000000 < ts ∧ ts < 100000000000000000)
    (pad : Pad) (rest : List Nat) (hrest : StopsDigits rest) :
    InvertsAt (.numeric .timestamp pad) ⟨Format.write_n 9 ts pad false, fun p => p.set_timestamp ts⟩ rest :=
  snum_inverts .timestamp pad _ rest ts False rfl (write_timestamp_text ts pad h) (Or.inl hrest)

/-- the fraction items: `%f` (nine digits when zero-padded, else followed by a non-digit), `%.3f
%.6f %.9f` and a non-empty `%.f` (a dot and `k` digits, followed by a non-digit), the empty `%.f` of a
whole second (nothing is read unless a dot follows), `%3f %6f %9f` (exactly `k` digits, whatever
follows); each sets the nanosecond field to the printed digits scaled to nanoseconds -/
theorem item_inverts_fraction (v : Int) (k : Nat) (h0 : 0 ≤ v) (hlt : v < ((10 ^ k : Nat) : Int)) (rest : List Nat) :
    (k = 9 → ∀ pad, (StopsDigits rest ∨ pad = .zero) →
      InvertsAt (.numeric .nanosecond pad) ⟨Format.write_n 9 v pad false, fun p => p.set_nanosecond v⟩ rest) ∧
    (1 ≤ k → k ≤ 9 → StopsDigits rest →
      ∀ f, (f = .nanosecond ∨ f = .nanosecond3 ∨ f = .nanosecond6 ∨ f = .nanosecond9) →
      InvertsAt (.fixed f) ⟨46 :: Format.fmtInt v k .zero false,
        fun p => p.set_nanosecond (v * ((10 ^ (9 - k) : Nat) : Int))⟩ rest) ∧
    ((∀ t, rest ≠ 46 :: t) → InvertsAt (.fixed .nanosecond) ⟨[], .ok⟩ rest) ∧
    (∀ f, ((f = .nanosecond3NoDot ∧ k = 3) ∨ (f = .nanosecond6NoDot ∧ k = 6) ∨ (f = .nanosecond9NoDot ∧ k = 9)) →
      InvertsAt (.fixed f) ⟨Format.fmtInt v k .zero false,
        fun p => p.set_nanosecond (v * ((10 ^ (9 - k) : Nat) : Int))⟩ rest) := by
  refine ⟨fun hk pad hr => ?_, fun h1 h9 hr f hf => frac_dot_inverts f hf v k h0 h1 h9 hlt rest hr,
    fun h => frac_empty_inverts rest h, fun f hf => frac_nodot_inverts f k hf v h0 hlt rest⟩
  subst hk
  have h := unum_inverts .nanosecond pad _ rest _ 9 _ rfl rfl
    (write_nano_text v pad ⟨h0, by norm_num at hlt; omega⟩) hr
  have e : ((v.toNat : Nat) : Int) = v := by omega
  rw [e] at h; exact h

/-- `%z` (`+hhmm`) and `%:z` (`+hh:mm`): the writer prints the offset rounded to the nearest minute,
the reader returns exactly the printed offset.  So a whole-minute offset comes back unchanged; an
offset with seconds comes back as `Spec.roundedOffset` (29 s round down, 30 s up, in magnitude), and
|offset| ≥ 86370 s would print as ±24:00, which is not an offset (`Spec.expressible` excludes it). -/
theorem item_inverts_offset (f : Fixed) (hf : f = .timezoneOffset ∨ f = .timezoneOffsetColon)
    (d : Option Date) (t : Option Time) (name : List Nat) (off : Int) (hoff : -86400 < off ∧ off < 86400)
    (rest : List Nat) :
    ∃ text, Format.format_fixed d t (some (name, off)) f = Format.wok text ∧
      InvertsAt (.fixed f) ⟨text, fun p => p.set_offset (roundedOffset off)⟩ rest ∧
      (off % 60 = 0 → roundedOffset off = off) := by
  obtain ⟨sg, body, _, e1, e2⟩ := offset_inverts f hf d t name off hoff rest
  exact ⟨_, e1, e2, rounded_of_whole off⟩

/-- **`item_inverts`, every proved item at once, for a value's context**: whatever `format_item`
writes for the item is read back — consuming exactly that text — by the setter call `Spec.fieldCall`
(the item's own field of the value), provided the rest of the text satisfies `Spec.RestOk` for the
item.  Proved items (`Spec.provedItem`): literals, white space (ASCII or not), all 21 numeric items, names,
am/pm, all seven fraction items, `%z`, `%:z`. -/
theorem item_inverts (c : Ctx) (hc : CtxOk c) (it : Item) (hp : provedItem it = true) (text : List Nat)
    (hfmt : Format.format_item c.date c.time c.off it = Format.wok text) (hexp : ItemExpr c it)
    (rest : List Nat) (hrest : RestOk c it rest) :
    ∃ set, fieldCall c it = some set ∧ InvertsAt it ⟨text, set⟩ rest :=
  item_inverts_ctx c hc it hp text hfmt hexp rest hrest

/-! ## the token chain from the syntactic predicate `Spec.separated` -/

/-- for an item list of proved items that is `separated` (and `spaceSafe`), the formatted text
splits into one token per item — the item's rendering with the item's field call — and these tokens
form a chain: every item inverts its token in front of the following ones (a white-space item may be
followed by an item whose reader skips white space itself) -/
theorem chain_from_separated (c : Ctx) (hc : CtxOk c) (is : List Item) (text : List Nat)
    (hp : ∀ it ∈ is, provedItem it = true) (hexp : ∀ it ∈ is, ItemExpr c it)
    (hsep : separated is = true) (hsafe : spaceSafe is = true) (hy : YearOk c is)
    (hfmt : Format.formatItemsR c.date c.time c.off is = Format.wok text) :
    ∃ tks, TokensOf c is tks ∧ flatText tks = text ∧ Chain2 is tks [] ∧
      Parse.parse_internal Parsed.new text is = (applyAll tks Parsed.new).map fun p' => (p', []) := by
  obtain ⟨tks, htk, hflat⟩ := tokens_exist c hc is text hp hexp hfmt
  have hch := chain_of_separated c hc is tks htk hp hexp hsep hsafe hy
  have := chain2_parse is tks [] Parsed.new hch
  rw [List.append_nil, hflat] at this
  exact ⟨tks, htk, hflat, hch, this⟩

/-! ## the items of a format string -/

/-- **every item `StrftimeItems::new(fmt)` yields that the reader can invert at all (`Spec.invertible`,
the first clause of `Spec.Unambiguous`) is an item for which `item_inverts` is proved**
(`Spec.provedItem`): no specifier produces the `Z`-printing offset items, and every white-space item the
iterator cuts off a format string holds a run of white-space characters (`Spec.wsRun`).  So the
`family_roundtrip*` theorems need no hypothesis about proved items: `Spec.Unambiguous` gives it. -/
theorem items_are_proved (fmt : List Nat) :
    ∀ it ∈ Strftime.items fmt, invertible it = true → provedItem it = true :=
  Chrono.Proofs.StrftimeProved.items_are_proved fmt

/-! ## `family_roundtrip`: parse ∘ format = truncate_to_precision, per target type

Hypotheses common to the theorems: the format is in the family (`Spec.Unambiguous`, which contains:
every item is one the reader can invert and the target type can print, `Spec.separated`, and
`Spec.spaceSafe` — a white-space item is followed by a number, an offset, a name, am/pm, a visible literal
or the end) and the value is expressible (`Spec.expressible`).  Nothing else: that the items are proved
items follows from `items_are_proved`.  The value is an existing day `dateOfYo Y o` with `VD Y o`
(C01: every `NaiveDate` is one) and a valid time of day.  That formatting succeeds is a CONCLUSION
(`family_format_succeeds`: `Spec.Unambiguous` demands that the target type can print every item —
`Spec.showsFor`), so each theorem reads: there is a text that `format` returns, and parsing it gives … -/

/-- **formatting a member of the family succeeds**: for every format string whose items are items the reader can invert (`Spec.invertible`) and
the target type can print (`Spec.showsFor`, part of `Spec.Unambiguous`) and every value of that type
(existing day, valid time of day, offset inside ±24 h, wall clock in range), the model's `format v fmt`
returns a text — no `fmt::Error`, no panic -/
theorem family_format_succeeds (fmt : List Nat) (v : Value)
    (hv : match v with
      | .date d => ∃ Y o, VD Y o ∧ d = dateOfYo Y o
      | .time t => TValid t
      | .naive dt => (∃ Y o, VD Y o ∧ dt.date = dateOfYo Y o) ∧ TValid dt.time
      | .zoned z => ∃ Y o t, VD Y o ∧ TValid t ∧ z.overflowing_naive_local = .ok ⟨dateOfYo Y o, t⟩ ∧
          -86400 < z.off ∧ z.off < 86400)
    (hi : ∀ it ∈ Strftime.items fmt, invertible it = true)
    (hs : ∀ it ∈ Strftime.items fmt, showsFor v.target it = true) :
    ∃ text, format v fmt = Format.wok text :=
  format_family_ok (Strftime.items fmt) v hv (fun it hm => items_are_proved fmt it hm (hi it hm)) hs

theorem parse_from_str_of (T : Target) (fmt text : List Nat) (p' : Parsed) (r : Parsed.RP Value)
    (h1 : Parse.parse Parsed.new text (Strftime.items fmt) = .ok p') (h2 : resolve T p' = r) :
    parse_from_str T text fmt = r := by
  simp only [parse_from_str, fields, h1, h2]

/-- dates: `NaiveDate::parse_from_str(&d.format(fmt).to_string(), fmt) == Ok(d)` — calendar, ordinal,
Sunday-week, Monday-week and ISO-week forms, signed and 5–6-digit years, `%C%y`, the `%y` pivot, names,
every padding -/
theorem family_roundtrip_date (fmt : List Nat) (Y : Int) (o : Nat) (hvd : VD Y o) (hU : Unambiguous (Strftime.items fmt) .date) (hE : expressible (Strftime.items fmt) (.date (dateOfYo Y o))) :
    ∃ text, format (.date (dateOfYo Y o)) fmt = Format.wok text ∧
    parse_from_str .date text fmt = .ok (.ok (.date (dateOfYo Y o))) ∧
    truncate_to_precision (Strftime.items fmt) (.date (dateOfYo Y o)) = some (.date (dateOfYo Y o)) := by
  have hp : ∀ it ∈ Strftime.items fmt, provedItem it = true :=
    fun it hm => items_are_proved fmt it hm (hU.1 it hm).1
  have hsafe : spaceSafe (Strftime.items fmt) = true := hU.2.1.2
  obtain ⟨text, hfmt⟩ := family_format_succeeds fmt (.date (dateOfYo Y o)) ⟨Y, o, hvd, rfl⟩ (fun it hm => (hU.1 it hm).1)
    (fun it hm => (hU.1 it hm).2)
  obtain ⟨p', h1, h2⟩ := family_date _ Y o hvd text hp hU hsafe hE hfmt
  exact ⟨text, hfmt, parse_from_str_of .date fmt text p' _ h1 h2, rfl⟩

/-- times of day: 24-hour and 12-hour clocks, with or without seconds, leap second `60`, every
fraction item — the result is the time cut to the printed precision -/
theorem family_roundtrip_time (fmt : List Nat) (t : Time) (htv : TValid t) (hU : Unambiguous (Strftime.items fmt) .time) (hE : expressible (Strftime.items fmt) (.time t)) :
    ∃ text, format (.time t) fmt = Format.wok text ∧
    parse_from_str .time text fmt = .ok (.ok (.time (truncTime (Strftime.items fmt) t))) ∧
    truncate_to_precision (Strftime.items fmt) (.time t) = some (.time (truncTime (Strftime.items fmt) t)) := by
  have hp : ∀ it ∈ Strftime.items fmt, provedItem it = true :=
    fun it hm => items_are_proved fmt it hm (hU.1 it hm).1
  have hsafe : spaceSafe (Strftime.items fmt) = true := hU.2.1.2
  obtain ⟨text, hfmt⟩ := family_format_succeeds fmt (.time t) htv (fun it hm => (hU.1 it hm).1) (fun it hm => (hU.1 it hm).2)
  obtain ⟨p', h1, h2⟩ := family_time _ t htv text hp hU hsafe hE hfmt
  exact ⟨text, hfmt, parse_from_str_of .time fmt text p' _ h1 h2, rfl⟩

/-- naive date-times whose format has a full date and a full time (a `%s` next to them is allowed
and cross-checked) -/
theorem family_roundtrip_naive (fmt : List Nat) (Y : Int) (o : Nat) (hvd : VD Y o) (t : Time) (htv : TValid t)
    (hU : Unambiguous (Strftime.items fmt) .naive)
    (hfd : fullDate (carries (Strftime.items fmt)) = true) (hft : fullTime (carries (Strftime.items fmt)) = true)
    (hE : expressible (Strftime.items fmt) (.naive ⟨dateOfYo Y o, t⟩)) :
    ∃ text, format (.naive ⟨dateOfYo Y o, t⟩) fmt = Format.wok text ∧
    parse_from_str .naive text fmt = .ok (.ok (.naive ⟨dateOfYo Y o, truncTime (Strftime.items fmt) t⟩)) ∧
    truncate_to_precision (Strftime.items fmt) (.naive ⟨dateOfYo Y o, t⟩) =
      some (.naive ⟨dateOfYo Y o, truncTime (Strftime.items fmt) t⟩) := by
  have hp : ∀ it ∈ Strftime.items fmt, provedItem it = true :=
    fun it hm => items_are_proved fmt it hm (hU.1 it hm).1
  have hsafe : spaceSafe (Strftime.items fmt) = true := hU.2.1.2
  obtain ⟨text, hfmt⟩ := family_format_succeeds fmt (.naive ⟨dateOfYo Y o, t⟩) ⟨⟨Y, o, hvd, rfl⟩, htv⟩ (fun it hm => (hU.1 it hm).1)
    (fun it hm => (hU.1 it hm).2)
  obtain ⟨p', h1, h2⟩ := family_naive _ Y o hvd t htv text hp hU hfd hft hsafe hE hfmt
  refine ⟨text, hfmt, parse_from_str_of .naive fmt text p' _ h1 h2, ?_⟩
  simp only [truncate_to_precision, hfd, hft, Bool.and_self, if_true]

/-- zone-aware values whose format has a full date, a full time and an offset item (`%z`, `%:z`) or a
timestamp: the result is what `Spec.truncate_to_precision` says — the local reading cut to the printed
precision at the printed, minute-rounded offset — whenever that value exists -/
theorem family_roundtrip_zoned (fmt : List Nat) (z : Zoned) (Y : Int) (o : Nat) (hvd : VD Y o) (t : Time)
    (htv : TValid t) (hl : z.overflowing_naive_local = .ok ⟨dateOfYo Y o, t⟩)
    (hzo : -86400 < z.off ∧ z.off < 86400) (hU : Unambiguous (Strftime.items fmt) .zoned)
    (hfd : fullDate (carries (Strftime.items fmt)) = true) (hft : fullTime (carries (Strftime.items fmt)) = true)
    (hot : (carries (Strftime.items fmt)).offset = true ∨ (carries (Strftime.items fmt)).timestamp = true) (hE : expressible (Strftime.items fmt) (.zoned z))
    (v' : Value) (hv' : truncate_to_precision (Strftime.items fmt) (.zoned z) = some v') :
    ∃ text, format (.zoned z) fmt = Format.wok text ∧ parse_from_str .zoned text fmt = .ok (.ok v') := by
  have hp : ∀ it ∈ Strftime.items fmt, provedItem it = true :=
    fun it hm => items_are_proved fmt it hm (hU.1 it hm).1
  have hsafe : spaceSafe (Strftime.items fmt) = true := hU.2.1.2
  obtain ⟨text, hfmt⟩ := family_format_succeeds fmt (.zoned z) ⟨Y, o, t, hvd, htv, hl, hzo⟩ (fun it hm => (hU.1 it hm).1)
    (fun it hm => (hU.1 it hm).2)
  obtain ⟨p', h1, h2⟩ := family_zoned _ z Y o hvd t htv hl hzo text hp hU hfd hft hot hsafe hE hfmt
  exact ⟨text, hfmt, parse_from_str_of .zoned fmt text p' _ h1 (h2 v' hv')⟩

/-- **timestamp-only formats, `NaiveDateTime`** (`%s`, with literals and white space;
`Spec.stampOnly`: the items carry a timestamp and no date, time or fraction field):
`NaiveDateTime::parse_from_str(&v.format(fmt).to_string(), fmt) == Ok(v truncated to whole seconds)`,
for every value — negative timestamps (before 1970) included; a leap second is read back as its
second :59.  Rests on C14's `datetime_complete_timestamp` (completeness of the resolver's timestamp
fall-back path) and on `item_inverts_timestamp`. -/
theorem family_roundtrip_timestamp_naive (fmt : List Nat) (Y : Int) (o : Nat) (hvd : VD Y o) (t : Time)
    (htv : TValid t)
    (hU : Unambiguous (Strftime.items fmt) .naive) (hso : stampOnly (carries (Strftime.items fmt)) = true)
    (hE : expressible (Strftime.items fmt) (.naive ⟨dateOfYo Y o, t⟩)) :
    ∃ text, format (.naive ⟨dateOfYo Y o, t⟩) fmt = Format.wok text ∧
    parse_from_str .naive text fmt = .ok (.ok (.naive ⟨dateOfYo Y o, ⟨t.secs, 0⟩⟩)) ∧
    truncate_to_precision (Strftime.items fmt) (.naive ⟨dateOfYo Y o, t⟩) =
      some (.naive ⟨dateOfYo Y o, ⟨t.secs, 0⟩⟩) := by
  have hp : ∀ it ∈ Strftime.items fmt, provedItem it = true :=
    fun it hm => items_are_proved fmt it hm (hU.1 it hm).1
  have hsafe : spaceSafe (Strftime.items fmt) = true := hU.2.1.2
  obtain ⟨text, hfmt⟩ := family_format_succeeds fmt (.naive ⟨dateOfYo Y o, t⟩) ⟨⟨Y, o, hvd, rfl⟩, htv⟩ (fun it hm => (hU.1 it hm).1)
    (fun it hm => (hU.1 it hm).2)
  obtain ⟨p', h1, h2⟩ := family_stamp_naive _ Y o hvd t htv text hp hU hso hsafe hE hfmt
  refine ⟨text, hfmt, parse_from_str_of .naive fmt text p' _ h1 h2, ?_⟩
  simp only [truncate_to_precision, stampOnly_not_fields _ hso, Bool.false_eq_true, if_false]

/-- **timestamp-only formats, `DateTime<FixedOffset>`** (`%s`, `%s %z`, `%s%:z`, `%z %s`, with
literals and white space): the result is what `Spec.truncate_to_precision` says — the instant at whole
seconds, at the printed (minute-rounded) offset, or at UTC when the format has no offset item —
whenever the wall clock of that instant at that offset exists (always for `%s` alone and for
whole-minute offsets) -/
theorem family_roundtrip_timestamp_zoned (fmt : List Nat) (z : Zoned) (hu : Chrono.Spec.NDTInv z.utc)
    (Y : Int) (o : Nat) (hvd : VD Y o) (t : Time) (htv : TValid t)
    (hl : z.overflowing_naive_local = .ok ⟨dateOfYo Y o, t⟩)
    (hzo : -86400 < z.off ∧ z.off < 86400) (hU : Unambiguous (Strftime.items fmt) .zoned)
    (hso : stampOnly (carries (Strftime.items fmt)) = true) (hE : expressible (Strftime.items fmt) (.zoned z))
    (v' : Value) (hv' : truncate_to_precision (Strftime.items fmt) (.zoned z) = some v') :
    ∃ text, format (.zoned z) fmt = Format.wok text ∧ parse_from_str .zoned text fmt = .ok (.ok v') := by
  have hp : ∀ it ∈ Strftime.items fmt, provedItem it = true :=
    fun it hm => items_are_proved fmt it hm (hU.1 it hm).1
  have hsafe : spaceSafe (Strftime.items fmt) = true := hU.2.1.2
  obtain ⟨text, hfmt⟩ := family_format_succeeds fmt (.zoned z) ⟨Y, o, t, hvd, htv, hl, hzo⟩ (fun it hm => (hU.1 it hm).1)
    (fun it hm => (hU.1 it hm).2)
  obtain ⟨p', h1, h2⟩ := family_stamp_zoned _ z hu Y o hvd t htv hl hzo text hp hU hso hsafe hE hfmt
  exact ⟨text, hfmt, parse_from_str_of .zoned fmt text p' _ h1 (h2 v' hv')⟩

/-- what `truncate_to_precision` is for a timestamp-only format and a zone-aware value: the UTC reading
at whole seconds, at the printed offset (0 without an offset item), provided its wall clock exists -/
theorem truncate_timestamp_zoned (is : List Item) (z : Zoned) (hso : stampOnly (carries is) = true) :
    truncate_to_precision is (.zoned z) =
      match (⟨⟨z.utc.date, ⟨z.utc.time.secs, 0⟩⟩,
          if (carries is).offset = true then roundedOffset z.off else 0⟩ : Zoned).naive_local with
      | .ok _ => some (.zoned ⟨⟨z.utc.date, ⟨z.utc.time.secs, 0⟩⟩,
          if (carries is).offset = true then roundedOffset z.off else 0⟩)
      | .panic => none := by
  simp only [truncate_to_precision, stampOnly_not_fields _ hso, Bool.false_eq_true, if_false]
  cases (⟨⟨z.utc.date, ⟨z.utc.time.secs, 0⟩⟩,
    if (carries is).offset = true then roundedOffset z.off else 0⟩ : Zoned).naive_local <;> rfl

/-- **`family_roundtrip`** for the proved part of the family, all four target types in one statement:
formatting succeeds and `parse_from_str(format(v)) = Ok(truncate_to_precision(v))`.  `ValueOk` collects the value invariants
(existing day, valid time, valid UTC reading, offset inside ±24 h, local reading in range);
`Spec.Unambiguous` says that the format either has the date/time fields its target needs or is a
timestamp-only format (`Spec.stampOnly`). -/
theorem family_roundtrip (fmt : List Nat) (v : Value) (v' : Value)
    (hv : match v with
      | .date d => ∃ Y o, VD Y o ∧ d = dateOfYo Y o
      | .time t => TValid t
      | .naive dt => (∃ Y o, VD Y o ∧ dt.date = dateOfYo Y o) ∧ TValid dt.time
      | .zoned z => Chrono.Spec.NDTInv z.utc ∧ ∃ Y o t, VD Y o ∧ TValid t ∧
          z.overflowing_naive_local = .ok ⟨dateOfYo Y o, t⟩ ∧ -86400 < z.off ∧ z.off < 86400) (hU : Unambiguous (Strftime.items fmt) v.target) (hE : expressible (Strftime.items fmt) v)
    (hv' : truncate_to_precision (Strftime.items fmt) v = some v') :
    ∃ text, format v fmt = Format.wok text ∧ parse_from_str v.target text fmt = .ok (.ok v') ∧
      roundtrip v fmt = some (text, .ok (.ok v')) := by
  have key : ∃ text, format v fmt = Format.wok text ∧ parse_from_str v.target text fmt = .ok (.ok v') := by
    cases v with
    | date d =>
      obtain ⟨Y, o, hvd, rfl⟩ := hv
      obtain ⟨text, h0, h1, h2⟩ := family_roundtrip_date fmt Y o hvd hU hE
      rw [h2] at hv'; cases hv'; exact ⟨text, h0, h1⟩
    | time t =>
      obtain ⟨text, h0, h1, h2⟩ := family_roundtrip_time fmt t hv hU hE
      rw [h2] at hv'; cases hv'; exact ⟨text, h0, h1⟩
    | naive dt =>
      obtain ⟨⟨Y, o, hvd, hd⟩, htv⟩ := hv
      obtain ⟨d, t⟩ := dt
      simp only at hd htv; subst hd
      rcases hU.2.2.2.2 with hform | hso
      · obtain ⟨text, h0, h1, h2⟩ := family_roundtrip_naive fmt Y o hvd t htv hU hform.1 hform.2 hE
        rw [h2] at hv'; cases hv'; exact ⟨text, h0, h1⟩
      · obtain ⟨text, h0, h1, h2⟩ := family_roundtrip_timestamp_naive fmt Y o hvd t htv hU hso hE
        rw [h2] at hv'; cases hv'; exact ⟨text, h0, h1⟩
    | zoned z =>
      obtain ⟨hu, Y, o, t, hvd, htv, hl, hzo⟩ := hv
      rcases hU.2.2.2.2 with hform | hso
      · exact family_roundtrip_zoned fmt z Y o hvd t htv hl hzo hU hform.1.1 hform.1.2 hform.2 hE v' hv'
      · exact family_roundtrip_timestamp_zoned fmt z hu Y o hvd t htv hl hzo hU hso hE v' hv'
  obtain ⟨text, h0, h1⟩ := key
  refine ⟨text, h0, h1, ?_⟩
  simp only [roundtrip, h0, Format.wok]
  exact congrArg (fun r => some (text, r)) h1

/-! ## perturbations of the formatted text, end to end (names in any letter case, surplus white space)

`Spec.Perturbed is segs segs'` (Spec/PerturbSpec.lean): the formatted text is the concatenation of one
segment per item (`Spec.Rendered`: what the formatter writes for the item); the segment of a white-space
item may be replaced by any non-empty run of the 25 `White_Space` characters (any run if the item itself is
empty), the segment of a name or am/pm item by the same word in any letter case; everything else stays. -/

/-- `case_and_space_perturbation` over `Chain2` (the chains `chain_from_separated` produces: a white-space
item may be followed by an item whose reader skips white space itself, e.g. `%d %e`): two token lists for
the same items with the same setter calls are parsed alike -/
theorem case_and_space_perturbation_chain2 (is : List Item) (tks tks' : List Tok) (rest : List Nat) (p : Parsed)
    (h : Chain2 is tks rest) (h' : Chain2 is tks' rest) (hs : tks.map (·.set) = tks'.map (·.set)) :
    Parse.parse_internal p (flatText tks' ++ rest) is = Parse.parse_internal p (flatText tks ++ rest) is := by
  rw [chain2_parse _ _ _ _ h, chain2_parse _ _ _ _ h', applyAll_congr tks tks' p hs]

/-- **the token chain of a perturbed text**: under the hypotheses of `chain_from_separated`, every
perturbation (`Spec.Perturbed`) of the formatter's segments, followed by any `rest` the last item's
reader stops at (`Spec.RestOk`), is again a chain for the same items, with the same setter calls — so it
composes with `chain_from_separated` through `case_and_space_perturbation_chain2` -/
theorem chain_from_separated_perturbed (c : Ctx) (hc : CtxOk c) (is : List Item) (tks : List Tok)
    (htk : TokensOf c is tks) (hp : ∀ it ∈ is, provedItem it = true) (hexp : ∀ it ∈ is, ItemExpr c it)
    (hsep : separated is = true) (hsafe : spaceSafe is = true) (hy : YearOk c is)
    (rest : List Nat) (hrest : ∀ a, is.getLast? = some a → RestOk c a rest)
    (segs' : List (List Nat)) (hP : Perturbed is (tks.map (·.text)) segs') :
    ∃ tks', Chain2 is tks' rest ∧ flatText tks' = segs'.flatten ∧ tks'.map (·.set) = tks.map (·.set) := by
  have hP' := psegs_of_perturbed _ _ _ hP
  have hlen : tks.length = segs'.length := by simpa using psegs_length is _ _ hP'
  exact ⟨retok tks segs', chain_of_separated_perturbed c hc rest is tks segs' htk hP' hp hexp hsep hsafe hy hrest,
    flatText_retok tks segs' hlen, sets_retok tks segs' hlen⟩

/-- the tokens of the formatted text of a member of the family: the text is their concatenation, it reads
back as `v'`, and it — or any perturbation of it — followed by any `rest` the last item's reader stops at
is parsed with exactly the tokens' setter calls, leaving `rest` -/
theorem family_tokens (fmt : List Nat) (v v' : Value)
    (hv : match v with
      | .date d => ∃ Y o, VD Y o ∧ d = dateOfYo Y o
      | .time t => TValid t
      | .naive dt => (∃ Y o, VD Y o ∧ dt.date = dateOfYo Y o) ∧ TValid dt.time
      | .zoned z => Chrono.Spec.NDTInv z.utc ∧ ∃ Y o t, VD Y o ∧ TValid t ∧
          z.overflowing_naive_local = .ok ⟨dateOfYo Y o, t⟩ ∧ -86400 < z.off ∧ z.off < 86400)
    (hU : Unambiguous (Strftime.items fmt) v.target) (hE : expressible (Strftime.items fmt) v)
    (hv' : truncate_to_precision (Strftime.items fmt) v = some v') :
    ∃ tks : List Tok, Rendered (ctxOf v) (Strftime.items fmt) (tks.map (·.text)) ∧
      format v fmt = Format.wok (flatText tks) ∧ parse_from_str v.target (flatText tks) fmt = .ok (.ok v') ∧
      ∀ rest, (∀ a, (Strftime.items fmt).getLast? = some a → RestOk (ctxOf v) a rest) →
        ∀ segs', (Perturbed (Strftime.items fmt) (tks.map (·.text)) segs' ∨ segs' = tks.map (·.text)) →
          Parse.parse_internal Parsed.new (segs'.flatten ++ rest) (Strftime.items fmt) =
            (applyAll tks Parsed.new).map fun p' => (p', rest) := by
  obtain ⟨text, h0, h1, _⟩ := family_roundtrip fmt v v' hv hU hE hv'
  have hvw : ValueOk v := by
    cases v with
    | date d => exact hv
    | time t => exact hv
    | naive dt => exact hv
    | zoned z => exact hv.2
  obtain ⟨tks, hR, hflat, hall⟩ := family_perturbed (Strftime.items fmt) v hvw
    (fun it hm => items_are_proved fmt it hm (hU.1 it hm).1) hU.2.1.1 hU.2.1.2 hE.1 text h0
  subst hflat
  exact ⟨tks, hR, h0, h1, fun rest hr segs' hP => hall rest hr segs' hP Parsed.new⟩

/-- **`family_roundtrip_perturbed`** — names in any letter case and surplus (or other) white space
wherever the format has white space, at the property's observation point: for every member of the family
and every expressible value, the formatted text splits into the items' renderings `segs`
(`format(v) = concat segs`), and `T::parse_from_str(text', fmt) = Ok(truncate_to_precision v)` for EVERY
perturbation `text' = concat segs'` of it (`Spec.Perturbed`) — the same result as for the formatted text
itself -/
theorem family_roundtrip_perturbed (fmt : List Nat) (v v' : Value)
    (hv : match v with
      | .date d => ∃ Y o, VD Y o ∧ d = dateOfYo Y o
      | .time t => TValid t
      | .naive dt => (∃ Y o, VD Y o ∧ dt.date = dateOfYo Y o) ∧ TValid dt.time
      | .zoned z => Chrono.Spec.NDTInv z.utc ∧ ∃ Y o t, VD Y o ∧ TValid t ∧
          z.overflowing_naive_local = .ok ⟨dateOfYo Y o, t⟩ ∧ -86400 < z.off ∧ z.off < 86400)
    (hU : Unambiguous (Strftime.items fmt) v.target) (hE : expressible (Strftime.items fmt) v)
    (hv' : truncate_to_precision (Strftime.items fmt) v = some v') :
    ∃ segs, Rendered (ctxOf v) (Strftime.items fmt) segs ∧ format v fmt = Format.wok segs.flatten ∧
      parse_from_str v.target segs.flatten fmt = .ok (.ok v') ∧
      ∀ segs', Perturbed (Strftime.items fmt) segs segs' →
        parse_from_str v.target segs'.flatten fmt = .ok (.ok v') := by
  obtain ⟨tks, hR, h0, h1, hall⟩ := family_tokens fmt v v' hv hU hE hv'
  refine ⟨tks.map Tok.text, hR, h0, h1, fun segs' hP => ?_⟩
  have e0 := hall [] (fun a _ => restOk_nil _ a) _ (Or.inr rfl)
  have e1 := hall [] (fun a _ => restOk_nil _ a) segs' (Or.inl hP)
  rw [List.append_nil] at e0 e1
  rw [parse_from_str_congr _ _ _ _ (e1.trans e0.symm)]
  exact h1

/-- **`parse_and_remainder` with trailing text**: for every member of the family, every expressible
value, the formatted text or any perturbation of it, and every `tail` the last item's reader stops at
(`Spec.RestOk`: a non-digit after a greedy number, a non-blank after white space, no dot after `%.f`,
anything after a literal, a name, an offset or a fixed-width number),
`T::parse_and_remainder(text ++ tail, fmt) = Ok((truncate_to_precision v, tail))` -/
theorem family_parse_and_remainder (fmt : List Nat) (v v' : Value)
    (hv : match v with
      | .date d => ∃ Y o, VD Y o ∧ d = dateOfYo Y o
      | .time t => TValid t
      | .naive dt => (∃ Y o, VD Y o ∧ dt.date = dateOfYo Y o) ∧ TValid dt.time
      | .zoned z => Chrono.Spec.NDTInv z.utc ∧ ∃ Y o t, VD Y o ∧ TValid t ∧
          z.overflowing_naive_local = .ok ⟨dateOfYo Y o, t⟩ ∧ -86400 < z.off ∧ z.off < 86400)
    (hU : Unambiguous (Strftime.items fmt) v.target) (hE : expressible (Strftime.items fmt) v)
    (hv' : truncate_to_precision (Strftime.items fmt) v = some v') :
    ∃ segs, Rendered (ctxOf v) (Strftime.items fmt) segs ∧ format v fmt = Format.wok segs.flatten ∧
      ∀ tail, (∀ a, (Strftime.items fmt).getLast? = some a → RestOk (ctxOf v) a tail) →
        ∀ segs', (Perturbed (Strftime.items fmt) segs segs' ∨ segs' = segs) →
          parse_and_remainder v.target (segs'.flatten ++ tail) fmt = .ok (.ok (v', tail)) := by
  obtain ⟨tks, hR, h0, h1, hall⟩ := family_tokens fmt v v' hv hU hE hv'
  refine ⟨tks.map Tok.text, hR, h0, fun tail hl segs' hP => ?_⟩
  have e0 := hall [] (fun a _ => restOk_nil _ a) _ (Or.inr rfl)
  rw [List.append_nil] at e0
  exact parse_and_remainder_of v.target (flatText tks) segs'.flatten tail fmt tks v' e0 (hall tail hl segs' hP) h1

/-! ## the excluded values, as checked facts

`family_roundtrip_zoned` assumes `truncate_to_precision … = some v'`; `Spec.expressible` assumes that a leap
representation sits on a second :59.  What the reader answers outside these assumptions: -/

/-- **zone-aware values, field formats, total form**: for every member of the family with a full date, a
full time and an offset item or timestamp, and every expressible value whose own wall clock is in range,
`parse_from_str(format(z)) = Ok(truncate_to_precision z)` when that value exists and
`Err(IMPOSSIBLE)` when it does not (the truncated wall clock at the printed, minute-rounded offset is an
instant outside the supported range — e.g. `-262143-01-01T00:00:00 UTC` at offset `+00:00:31`, printed as
`00:00:31 +0001`: the real crate answers `Impossible`) -/
theorem family_roundtrip_zoned_total (fmt : List Nat) (z : Zoned) (Y : Int) (o : Nat) (hvd : VD Y o) (t : Time)
    (htv : TValid t) (hl : z.overflowing_naive_local = .ok ⟨dateOfYo Y o, t⟩)
    (hzo : -86400 < z.off ∧ z.off < 86400) (hU : Unambiguous (Strftime.items fmt) .zoned)
    (hfd : fullDate (carries (Strftime.items fmt)) = true) (hft : fullTime (carries (Strftime.items fmt)) = true)
    (hot : (carries (Strftime.items fmt)).offset = true ∨ (carries (Strftime.items fmt)).timestamp = true)
    (hE : expressible (Strftime.items fmt) (.zoned z)) :
    ∃ text, format (.zoned z) fmt = Format.wok text ∧
      parse_from_str .zoned text fmt =
        match truncate_to_precision (Strftime.items fmt) (.zoned z) with
        | some v' => .ok (.ok v')
        | none => .ok (.error .impossible) := by
  have hp : ∀ it ∈ Strftime.items fmt, provedItem it = true :=
    fun it hm => items_are_proved fmt it hm (hU.1 it hm).1
  obtain ⟨text, hfmt⟩ := family_format_succeeds fmt (.zoned z) ⟨Y, o, t, hvd, htv, hl, hzo⟩
    (fun it hm => (hU.1 it hm).1) (fun it hm => (hU.1 it hm).2)
  obtain ⟨p', h1, h2⟩ := family_zoned_total _ z Y o hvd t htv hl hzo text hp hU hfd hft hot hU.2.1.2 hE hfmt
  refine ⟨text, hfmt, ?_⟩
  rw [parse_from_str_of .zoned fmt text p' _ h1 h2]
  have hEo := hE.2.2.1
  simp only [exprOffset, shown, hl, onSome] at hEo
  have hr1 : -86400 < (if (carries (Strftime.items fmt)).offset = true then roundedOffset z.off else 0) ∧
      (if (carries (Strftime.items fmt)).offset = true then roundedOffset z.off else 0) < 86400 := by
    by_cases ho : (carries (Strftime.items fmt)).offset = true
    · rw [if_pos ho]; exact hEo ho
    · rw [if_neg ho]; omega
  obtain ⟨r, hr⟩ := from_local_no_panic _ hr1 Y o hvd (truncTime (Strftime.items fmt) t)
    (truncTime_valid _ t htv)
  simp only [truncate_to_precision, hfd, hft, Bool.and_self, if_true, hl, hr, wallInRange_vd Y o hvd]
  cases r <;> rfl

/-- the exclusion of `family_roundtrip_zoned` as a checked fact: where `Spec.truncate_to_precision` makes
no prediction for a field format, the reader reports IMPOSSIBLE -/
theorem family_roundtrip_zoned_excluded (fmt : List Nat) (z : Zoned) (Y : Int) (o : Nat) (hvd : VD Y o) (t : Time)
    (htv : TValid t) (hl : z.overflowing_naive_local = .ok ⟨dateOfYo Y o, t⟩)
    (hzo : -86400 < z.off ∧ z.off < 86400) (hU : Unambiguous (Strftime.items fmt) .zoned)
    (hfd : fullDate (carries (Strftime.items fmt)) = true) (hft : fullTime (carries (Strftime.items fmt)) = true)
    (hot : (carries (Strftime.items fmt)).offset = true ∨ (carries (Strftime.items fmt)).timestamp = true)
    (hE : expressible (Strftime.items fmt) (.zoned z))
    (hnone : truncate_to_precision (Strftime.items fmt) (.zoned z) = none) :
    ∃ text, format (.zoned z) fmt = Format.wok text ∧
      parse_from_str .zoned text fmt = .ok (.error .impossible) := by
  obtain ⟨text, h0, h1⟩ := family_roundtrip_zoned_total fmt z Y o hvd t htv hl hzo hU hfd hft hot hE
  rw [hnone] at h1
  exact ⟨text, h0, h1⟩

/-- **a leap-second representation on a second other than :59** (frac ≥ 10⁹ with `secs % 60 ≠ 59`; only
`with_nanosecond` builds it; `Spec.expressible` excludes it): EVERY format string formats such a `NaiveTime`
exactly like the normalised time one second later (`leapNormal t = ⟨secs + 1, frac − 10⁹⟩`, a valid time
without leap representation), so for a member of the family what reads back is the truncation of that
normalised time — never the value itself -/
theorem leap_off_59_reads_back_normalised (fmt : List Nat) (t : Time) (htv : TValid t)
    (hl : 1000000000 ≤ t.frac) (hs : t.secs % 60 ≠ 59) :
    format (.time t) fmt = format (.time (leapNormal t)) fmt ∧
    TValid (leapNormal t) ∧ (leapNormal t).frac < 1000000000 ∧
    (Unambiguous (Strftime.items fmt) .time → expressible (Strftime.items fmt) (.time (leapNormal t)) →
      ∃ text, format (.time t) fmt = Format.wok text ∧
        parse_from_str .time text fmt = .ok (.ok (.time (truncTime (Strftime.items fmt) (leapNormal t)))) ∧
        truncTime (Strftime.items fmt) (leapNormal t) ≠ t) := by
  have hf : format (.time t) fmt = format (.time (leapNormal t)) fmt :=
    leap_format_normalised t htv hl hs (Strftime.items fmt)
  obtain ⟨hv', hlt⟩ := leapNormal_valid t htv hl hs
  refine ⟨hf, hv', hlt, fun hU hE => ?_⟩
  obtain ⟨text, h0, h1, _⟩ := family_roundtrip_time fmt (leapNormal t) hv' hU hE
  exact ⟨text, hf.trans h0, h1, truncTime_leap_ne _ t htv hl hs⟩

/-- **the zoned analogue of `leap_off_59_reads_back_normalised`** (second review, G6): a UTC leap second at
:59 seen at an offset with seconds has a local reading in leap representation OFF second :59 (`23:59:60.5 UTC`
at `+00:00:30` reads `00:00:29` + fraction 1.5 s).  Every format string of the family WITHOUT `%s` formats
such a value exactly like any value `z'` at the same offset whose local reading is the normalised one
(`leapNormal t`: one second later, no leap representation), so the whole round trip is that of `z'` —
`family_roundtrip_zoned` applied to `z'` says what reads back (the truncation of `z'`, a different instant:
the real crate prints `2017-01-01 00:00:30.500 +0001` and returns `23:59:30.5 UTC` at `+00:01`).
A format WITH `%s` prints the true second count of the instant, which the normalised fields contradict
(one second apart); timestamp-ONLY formats (`%s`, `%s %z`) are inside `family_roundtrip_timestamp_zoned`
since `Spec.expressible` asks for the leap clause only where the wall clock's second is printed
(`Spec.exprLeapFor`): they return the instant at whole seconds (example below). -/
theorem leap_off_59_zoned_reads_back_normalised (fmt : List Nat) (z z' : Zoned) (d : Date) (t : Time)
    (htv : TValid t) (hl : 1000000000 ≤ t.frac) (hs : t.secs % 60 ≠ 59)
    (h : z.overflowing_naive_local = .ok ⟨d, t⟩) (h' : z'.overflowing_naive_local = .ok ⟨d, leapNormal t⟩)
    (hoff : z'.off = z.off) (hU : Unambiguous (Strftime.items fmt) .zoned)
    (hn : ∀ it ∈ Strftime.items fmt, ∀ pad, it ≠ .numeric .timestamp pad) :
    format (.zoned z) fmt = format (.zoned z') fmt ∧ roundtrip (.zoned z) fmt = roundtrip (.zoned z') fmt ∧
    TValid (leapNormal t) ∧ (leapNormal t).frac < 1000000000 := by
  have hf : format (.zoned z) fmt = format (.zoned z') fmt :=
    leap_format_normalised_zoned z z' d t htv hl hs h h' hoff (Strftime.items fmt)
      (fun it hm => (hU.1 it hm).1) hn
  obtain ⟨hv', hlt⟩ := leapNormal_valid t htv hl hs
  refine ⟨hf, ?_, hv', hlt⟩
  simp only [roundtrip, hf, Value.target]

/-! ## the RFC 3339 item `%+`

`%+` prints `write_rfc3339(wall clock, offset, AutoSi, use_z = false)` and is read by
`parse_rfc3339_relaxed`, the reader of `impl FromStr for DateTime<FixedOffset>`.  Domain (that of C09's
`roundtrip_DateTime_FixedOffset`): a well-formed value (`ZInv`), a leap second only on a second :59
(`TStrict`), a whole-minute offset (`WholeMinute`: the writer rounds to the minute), a wall clock inside
`NaiveDate`'s range (`naive_local z = .ok l`); every year of the supported range, negative and 5–6 digit
ones included. -/

/-- **item lemma for `%+`**: what the formatter writes for the item is the `Debug` text of the wall clock
(`T` separator, shortest of 0/3/6/9 fraction digits, leap second as `:60`) followed by `+hh:mm`; the
item's reader, started on a fresh record, consumes exactly that text and stores year, month, day, hour,
minute, second, nanosecond and offset — fields that `to_datetime` resolves to the value itself -/
theorem item_inverts_rfc3339 (z : Zoned) (hz : Chrono.Spec.ZInv z) (hm : Chrono.Spec.Text.WholeMinute z.off)
    (hs : Chrono.Spec.TStrict z.utc.time) (l : NaiveDT) (hl : Zoned.naive_local z = .ok l) (name : List Nat) :
    Format.format_item (some l.date) (some l.time) (some (name, z.off)) (.fixed .rfc3339) =
      Format.wok (Chrono.Spec.Text.naiveText 84 l ++ Chrono.Spec.Text.offsetText z.off) ∧
    ∃ p, Parse.parse_internal Parsed.new
        (Chrono.Spec.Text.naiveText 84 l ++ Chrono.Spec.Text.offsetText z.off) [.fixed .rfc3339] = .ok (p, []) ∧
      Parsed.to_datetime p = .ok (.ok z) := by
  obtain ⟨_, hw⟩ := rfc3339_item_text z hz hm hs l hl
  obtain ⟨p, hp, hres⟩ := rfc3339_item_reads z hz hm hs l hl
  refine ⟨?_, p, ?_, hres⟩
  · cases l with
    | mk d t => exact hw
  · simp only [Parse.parse_internal, hp]

/-- **`family_roundtrip_rfc3339_item`**: for every format string that consists of the RFC 3339 item
(`%+`), `DateTime::<FixedOffset>::parse_from_str(&z.format(fmt).to_string(), fmt) == Ok(z)` — formatting
succeeds (a conclusion, not a hypothesis) and nothing is lost: the fraction is printed in full.
Not covered: `%+` next to other items in one format string (its reader is then started on a non-empty
record and followed by further text), offsets with seconds and values whose wall clock leaves the range
of `NaiveDate` (findings F20–F25 of C09/C20: these do not read back). -/
theorem family_roundtrip_rfc3339_item (fmt : List Nat) (hfmt : Strftime.items fmt = [.fixed .rfc3339])
    (z : Zoned) (hz : Chrono.Spec.ZInv z) (hm : Chrono.Spec.Text.WholeMinute z.off)
    (hs : Chrono.Spec.TStrict z.utc.time) (l : NaiveDT) (hl : Zoned.naive_local z = .ok l) :
    format (.zoned z) fmt = Format.wok (Chrono.Spec.Text.naiveText 84 l ++ Chrono.Spec.Text.offsetText z.off) ∧
    parse_from_str .zoned (Chrono.Spec.Text.naiveText 84 l ++ Chrono.Spec.Text.offsetText z.off) fmt =
      .ok (.ok (.zoned z)) ∧
    roundtrip (.zoned z) fmt =
      some (Chrono.Spec.Text.naiveText 84 l ++ Chrono.Spec.Text.offsetText z.off, .ok (.ok (.zoned z))) := by
  obtain ⟨h1, p, h2, h3⟩ := family_rfc3339 (Strftime.items fmt) hfmt z hz hm hs l hl
  have hf : format (.zoned z) fmt =
      Format.wok (Chrono.Spec.Text.naiveText 84 l ++ Chrono.Spec.Text.offsetText z.off) := h1
  have hp := parse_from_str_of .zoned fmt _ p _ h2 h3
  refine ⟨hf, hp, ?_⟩
  simp only [roundtrip, hf, Format.wok]
  exact congrArg (fun r => some (_, r)) hp

/-! ## items outside the family -/

/-- `%#z` is read-only: the formatter refuses it for every value -/
theorem read_only_item_is_not_written (d : Option Date) (t : Option Time) (off : Option (List Nat × Int)) :
    Format.format_item d t off (.fixed .timezoneOffsetPermissive) = Format.werr := by
  cases d <;> cases t <;> cases off <;> rfl

/-- `%Z` is print-only: its reader skips to the next white space and sets no field, so an offset
written through it is never read back -/
theorem print_only_Z_sets_nothing (p : Parsed) (s : List Nat) :
    Parse.parseItemBase p s (.fixed .timezoneName) = .ok (p, Parse.skipNonWs s) := rfl

/-- the specification keeps these items (and `%::z`, `%:::z`) out of the family -/
theorem outside_family (t : Target) (is : List Item)
    (h : Item.fixed .timezoneName ∈ is ∨ Item.fixed .timezoneOffsetDoubleColon ∈ is ∨
      Item.fixed .timezoneOffsetTripleColon ∈ is ∨ Item.fixed .timezoneOffsetPermissive ∈ is) :
    ¬ Unambiguous is t := by
  intro hu
  rcases h with h | h | h | h <;> exact absurd (hu.1 _ h).1 (by decide)

/-! ## what each entry point looks at -/

/-- `NaiveDate::parse_from_str` ignores the time-of-day, timestamp and offset fields of the record: whatever
the text supplied for them (even inconsistent values — each setter only checks its own field), the
resolved date is the same -/
theorem date_ignores_time_fields (p : Parsed) (a b c d e f g : Option Int) :
    resolve .date
      { p with hour_div_12 := a, hour_mod_12 := b, minute := c, second := d, nanosecond := e, timestamp := f,
               offset := g } = resolve .date p := rfl

/-- `NaiveTime::parse_from_str` ignores the date, timestamp and offset fields of the record -/
theorem time_ignores_date_fields (p : Parsed) (q : Parsed) (hh : q.hour_div_12 = p.hour_div_12)
    (hm : q.hour_mod_12 = p.hour_mod_12) (hmi : q.minute = p.minute) (hs : q.second = p.second)
    (hn : q.nanosecond = p.nanosecond) : resolve .time q = resolve .time p := by
  simp only [resolve, Parsed.to_naive_time, Parsed.time_tail, hh, hm, hmi, hs, hn]

/-- `DateTime::parse_from_str` needs an offset: a record without an offset field and without a timestamp
(which stands for UTC) is rejected with NOT_ENOUGH, whatever else it holds -/
theorem zoned_needs_offset (p : Parsed) (h1 : p.offset = none) (h2 : p.timestamp = none) :
    resolve .zoned p = .ok (.error .notEnough) := by
  simp only [resolve, Parsed.to_datetime, h1, h2, Parsed.RP.bind]

/-! ## non-vacuity: the hypotheses are met by non-trivial values -/

/-- a space-padded month followed by `-`, a zero-padded day followed by a digit -/
example :
    InvertsAt (.numeric .month .space) ⟨[32, 55], fun p => p.set_month 7⟩ [45, 48, 49] ∧
    InvertsAt (.numeric .day .zero) ⟨[48, 57], fun p => p.set_day 9⟩ [49, 50] ∧
    InvertsAt (.numeric .second .none) ⟨[54, 48], fun p => p.set_second 60⟩ [] :=
  ⟨item_inverts_two_digit .month (by simp) 7 (by omega) .space _ (Or.inl (by intro b t h; cases h; rfl)),
   item_inverts_two_digit .day (by simp) 9 (by omega) .zero _ (Or.inr rfl),
   item_inverts_two_digit .second (by simp) 60 (by omega) .none _ (Or.inl (by intro b t h; cases h))⟩

/-- `SEPTEMBER`, `wEd`, `pm` are read as September, Wednesday, PM; three kinds of white space are
skipped by one white-space item -/
example :
    InvertsAt (.fixed .longMonthName) ⟨[83, 69, 80, 84, 69, 77, 66, 69, 82], fun p => p.set_month ((8 : Nat) + 1)⟩ [32] ∧
    InvertsAt (.fixed .shortWeekdayName) ⟨[119, 69, 100], fun p => p.set_weekday .wed⟩ [44] ∧
    InvertsAt (.fixed .upperAmPm) ⟨[112, 109], fun p => p.set_ampm true⟩ [] ∧
    InvertsAt (.space [32]) ⟨[[9], [227, 128, 128], [32]].flatten, .ok⟩ [49] :=
  ⟨(item_inverts_month_name 8 (by omega) _ _).2 (by decide),
   (item_inverts_weekday_name .wed _ _).1 (by decide),
   item_inverts_ampm .upperAmPm (Or.inr rfl) true _ _ (by decide),
   item_inverts_space_any_run _ _ _ (by decide) (by decide)⟩

/-- a whole round trip through `family_roundtrip_partial`: 2024-02-29 with `%y-%m-%d` (pivot year,
leap day) is written `24-02-29`, read back as the fields (24, 2, 29), and resolved to the same date -/
example :
    roundtrip (.date ⟨2024 * 8192 + 60 * 16 + 6⟩) [37, 121, 45, 37, 109, 45, 37, 100] =
      some ([50, 52, 45, 48, 50, 45, 50, 57], .ok (.ok (.date ⟨2024 * 8192 + 60 * 16 + 6⟩))) := by
  have h := family_roundtrip_partial .date [37, 121, 45, 37, 109, 45, 37, 100] (.date ⟨2024 * 8192 + 60 * 16 + 6⟩)
    [⟨[50, 52], fun p => p.set_year_mod_100 24⟩, ⟨[45], .ok⟩, ⟨[48, 50], fun p => p.set_month 2⟩, ⟨[45], .ok⟩,
     ⟨[50, 57], fun p => p.set_day 29⟩]
    { year_mod_100 := some 24, month := some 2, day := some 29 } rfl (by decide +kernel)
    (by
      have e : Strftime.items [37, 121, 45, 37, 109, 45, 37, 100] =
          [.numeric .yearMod100 .zero, .literal [45], .numeric .month .zero, .literal [45], .numeric .day .zero] := by
        decide +kernel
      rw [e]
      exact ⟨item_inverts_two_digit .yearMod100 (by simp) 24 (by omega) .zero _ (Or.inr rfl),
        literal_inverts _ _,
        item_inverts_two_digit .month (by simp) 2 (by omega) .zero _ (Or.inr rfl),
        literal_inverts _ _,
        item_inverts_two_digit .day (by simp) 29 (by omega) .zero _ (Or.inr rfl), trivial⟩)
    rfl
  rw [h]
  have r : resolve .date { year_mod_100 := some 24, month := some 2, day := some 29 } =
      .ok (.ok (.date ⟨2024 * 8192 + 60 * 16 + 6⟩)) := rp_eq_of_check _ _ (by decide +kernel)
  rw [r]; rfl

/-- the specification on the same case: the format is in the family, the value is expressible, and
the predicted result is the value itself -/
example :
    Unambiguous (Strftime.items [37, 121, 45, 37, 109, 45, 37, 100]) .date ∧
    expressible (Strftime.items [37, 121, 45, 37, 109, 45, 37, 100]) (.date ⟨2024 * 8192 + 60 * 16 + 6⟩) ∧
    ¬ expressible (Strftime.items [37, 121, 45, 37, 109, 45, 37, 100]) (.date ⟨1969 * 8192 + 60 * 16 + 11⟩) ∧
    truncate_to_precision (Strftime.items [37, 121, 45, 37, 109, 45, 37, 100]) (.date ⟨2024 * 8192 + 60 * 16 + 6⟩) =
      some (.date ⟨2024 * 8192 + 60 * 16 + 6⟩) := by
  decide +kernel

/-- `family_roundtrip_date` applies to *every* date with `%Y-%m-%d` (negative and 5–6-digit years
included): all its hypotheses about the format are closed by evaluation, the value-dependent one
(`expressible`) holds for every day -/
example (Y : Int) (o : Nat) (hvd : VD Y o) :
    ∃ text, format (.date (dateOfYo Y o)) [37, 89, 45, 37, 109, 45, 37, 100] = Format.wok text ∧
      parse_from_str .date text [37, 89, 45, 37, 109, 45, 37, 100] = .ok (.ok (.date (dateOfYo Y o))) := by
  have hi : Strftime.items [37, 89, 45, 37, 109, 45, 37, 100] =
      [.numeric .year .zero, .literal [45], .numeric .month .zero, .literal [45], .numeric .day .zero] := by
    decide +kernel
  suffices hE : expressible (Strftime.items [37, 89, 45, 37, 109, 45, 37, 100]) (.date (dateOfYo Y o)) by
    obtain ⟨text, h0, h1, _⟩ := family_roundtrip_date _ Y o hvd (by rw [hi]; decide) hE
    exact ⟨text, h0, h1⟩
  rw [hi]
  obtain ⟨w, hw⟩ := Chrono.Proofs.ParsedRes.iso_week_ok Y o hvd
  have hc : carries [.numeric .year .zero, .literal [45], .numeric .month .zero, .literal [45], .numeric .day .zero] =
      { year := true, month := true, day := true } := by decide
  refine ⟨?_, Or.inr trivial, trivial, ?_, trivial⟩
  · simp only [exprYears, shown, onSome, onOk, hw, hc]
    refine ⟨⟨fun h => (by cases h), fun h => (by cases h), fun h => (by cases h), fun h => ?_⟩,
      ⟨fun _ _ h => (by cases h), fun h => (by cases h), fun h => (by cases h), fun h => ?_⟩⟩
    · exact absurd h (by decide)
    · exact absurd h (by decide)
  · intro h; rw [hc] at h; cases h

/-- `family_roundtrip_timestamp_naive` applies to *every* `NaiveDateTime` with `%s` (negative
timestamps, leap seconds and sub-second parts included): the result is the value at whole seconds -/
example (Y : Int) (o : Nat) (hvd : VD Y o) (t : Time) (htv : Chrono.Spec.TValid t)
    (hleap : 1000000000 ≤ t.frac → t.secs % 60 = 59) :
    ∃ text, format (.naive ⟨dateOfYo Y o, t⟩) [37, 115] = Format.wok text ∧
      parse_from_str .naive text [37, 115] = .ok (.ok (.naive ⟨dateOfYo Y o, ⟨t.secs, 0⟩⟩)) := by
  have hi : Strftime.items [37, 115] = [.numeric .timestamp .none] := by decide +kernel
  suffices hE : expressible (Strftime.items [37, 115]) (.naive ⟨dateOfYo Y o, t⟩) by
    obtain ⟨text, h0, h1, _⟩ := family_roundtrip_timestamp_naive _ Y o hvd t htv (by rw [hi]; decide)
      (by rw [hi]; decide) hE
    exact ⟨text, h0, h1⟩
  rw [hi]
  obtain ⟨w, hw⟩ := Chrono.Proofs.ParsedRes.iso_week_ok Y o hvd
  have hc : carries [.numeric .timestamp .none] = { timestamp := true } := by decide
  refine ⟨?_, ?_, trivial, ?_, ?_⟩
  · simp only [exprYears, shown, onSome, onOk, hw, hc]
    refine ⟨⟨fun _ _ h => (by cases h), fun h => (by cases h), fun h => (by cases h), fun h => ?_⟩,
      ⟨fun _ _ h => (by cases h), fun h => (by cases h), fun h => (by cases h), fun h => ?_⟩⟩
    · exact absurd h (by decide)
    · exact absurd h (by decide)
  · exact Or.inr (by simpa [exprLeap, shown, onSome] using hleap)
  · intro _ h; rw [hc] at h; exact absurd h (by decide)
  · simp only [exprFrac, shown, onSome]
    intro it hm
    simp only [List.mem_cons, List.not_mem_nil, or_false] at hm
    subst hm
    simp [itemFracDigits]

/-- `family_roundtrip_timestamp_zoned` applies to *every* `DateTime<FixedOffset>` with a whole-minute
offset and `%s %z`: the result is the same instant at whole seconds at the same offset -/
example (z : Zoned) (hu : Chrono.Spec.NDTInv z.utc) (Y : Int) (o : Nat) (hvd : VD Y o) (t : Time)
    (htv : Chrono.Spec.TValid t) (hleap : 1000000000 ≤ t.frac → t.secs % 60 = 59)
    (hl : z.overflowing_naive_local = .ok ⟨dateOfYo Y o, t⟩) (hzo : -86400 < z.off ∧ z.off < 86400)
    (hmin : z.off % 60 = 0) (l' : NaiveDT)
    (hnl : (⟨⟨z.utc.date, ⟨z.utc.time.secs, 0⟩⟩, z.off⟩ : Zoned).naive_local = .ok l') :
    ∃ text, format (.zoned z) [37, 115, 32, 37, 122] = Format.wok text ∧
      parse_from_str .zoned text [37, 115, 32, 37, 122] =
        .ok (.ok (.zoned ⟨⟨z.utc.date, ⟨z.utc.time.secs, 0⟩⟩, z.off⟩)) := by
  have hi : Strftime.items [37, 115, 32, 37, 122] =
      [.numeric .timestamp .none, .space [32], .fixed .timezoneOffset] := by decide +kernel
  have hc : carries [.numeric .timestamp .none, .space [32], .fixed .timezoneOffset] =
      { timestamp := true, offset := true } := by decide
  have hro := rounded_of_whole z.off hmin
  refine family_roundtrip_timestamp_zoned _ z hu Y o hvd t htv hl hzo (by rw [hi]; decide)
    (by rw [hi]; decide) ?_ _ ?_
  · rw [hi]
    obtain ⟨w, hw⟩ := Chrono.Proofs.ParsedRes.iso_week_ok Y o hvd
    refine ⟨?_, ?_, ?_, ?_, ?_⟩
    · simp only [exprYears, shown, hl, onSome, onOk, hw, hc]
      refine ⟨⟨fun _ _ h => (by cases h), fun h => (by cases h), fun h => (by cases h), fun h => ?_⟩,
        ⟨fun _ _ h => (by cases h), fun h => (by cases h), fun h => (by cases h), fun h => ?_⟩⟩
      · exact absurd h (by decide)
      · exact absurd h (by decide)
    · exact Or.inr (by simpa [exprLeap, shown, hl, onSome] using hleap)
    · simp only [exprOffset, shown, hl, onSome]
      intro _; rw [hro]; exact hzo
    · intro _ h; rw [hc] at h; exact absurd h (by decide)
    · simp only [exprFrac, shown, hl, onSome]
      intro it hm
      simp only [List.mem_cons, List.not_mem_nil, or_false] at hm
      rcases hm with rfl | rfl | rfl <;> simp [itemFracDigits]
  · rw [truncate_timestamp_zoned _ _ (by rw [hi]; decide), hi, hc]
    simp only [if_true, hro, hnl]

/-- `%+` on 2024-02-29T12:00:00.5+01:00: the format string `%+` is the single RFC 3339 item, the value
meets the hypotheses of `family_roundtrip_rfc3339_item`, and the text is `2024-02-29T12:00:00.500+01:00` -/
example :
    Strftime.items [37, 43] = [.fixed .rfc3339] ∧
    roundtrip (.zoned ⟨⟨dateOfYo 2024 60, ⟨39600, 500000000⟩⟩, 3600⟩) [37, 43] =
      some (Chrono.asciiBytes "2024-02-29T12:00:00.500+01:00",
        .ok (.ok (.zoned ⟨⟨dateOfYo 2024 60, ⟨39600, 500000000⟩⟩, 3600⟩))) := by
  have hi : Strftime.items [37, 43] = [.fixed .rfc3339] := by decide +kernel
  refine ⟨hi, ?_⟩
  have h := (family_roundtrip_rfc3339_item [37, 43] hi ⟨⟨dateOfYo 2024 60, ⟨39600, 500000000⟩⟩, 3600⟩
    (by unfold Chrono.Spec.ZInv Chrono.Spec.NDTInv; decide +kernel) (by unfold Chrono.Spec.Text.WholeMinute; decide)
    (by decide) ⟨dateOfYo 2024 60, ⟨43200, 500000000⟩⟩ (by decide +kernel)).2.2
  rw [h]
  have ht : Chrono.Spec.Text.naiveText 84 ⟨dateOfYo 2024 60, ⟨43200, 500000000⟩⟩ ++
      Chrono.Spec.Text.offsetText 3600 = Chrono.asciiBytes "2024-02-29T12:00:00.500+01:00" := by
    decide +kernel
  rw [ht]

/-- the same for every valid time of day with `%H:%M:%S%.f` (leap second `60` and every fraction) -/
example (t : Time) (htv : Chrono.Spec.TValid t) (hleap : 1000000000 ≤ t.frac → t.secs % 60 = 59) :
    ∃ text, format (.time t) [37, 72, 58, 37, 77, 58, 37, 83, 37, 46, 102] = Format.wok text ∧
      parse_from_str .time text [37, 72, 58, 37, 77, 58, 37, 83, 37, 46, 102] = .ok (.ok (.time t)) := by
  have hi : Strftime.items [37, 72, 58, 37, 77, 58, 37, 83, 37, 46, 102] =
      [.numeric .hour .zero, .literal [58], .numeric .minute .zero, .literal [58], .numeric .second .zero,
       .fixed .nanosecond] := by decide +kernel
  have h := family_roundtrip_time [37, 72, 58, 37, 77, 58, 37, 83, 37, 46, 102] t htv (by rw [hi]; decide) ?_
  · obtain ⟨text, h0, h, _⟩ := h
    refine ⟨text, h0, ?_⟩
    rw [h, hi]
    have hfd : fracDigits [.numeric .hour .zero, .literal [58], .numeric .minute .zero, .literal [58],
        .numeric .second .zero, .fixed .nanosecond] = 9 := by decide
    have hc : (carries [.numeric .hour .zero, .literal [58], .numeric .minute .zero, .literal [58],
        .numeric .second .zero, .fixed .nanosecond]).second = true := by decide
    obtain ⟨_, _, t3, t4⟩ := htv
    have e9 := (cutFrac_forms t.frac).1
    have : truncTime [.numeric .hour .zero, .literal [58], .numeric .minute .zero, .literal [58],
        .numeric .second .zero, .fixed .nanosecond] t = t := by
      simp only [truncTime, hc, hfd, e9, Bool.true_eq_false, if_false]
      cases t with
      | mk secs frac =>
        simp only [Time.mk.injEq, true_and]
        simp only at t3 t4
        split <;> omega
    rw [this]
  · rw [hi]
    refine ⟨trivial, ?_, trivial, ?_, ?_⟩
    · exact Or.inr (by simpa [exprLeap, shown, onSome] using hleap)
    · intro h; exact absurd h (by decide)
    · simp only [exprFrac, shown, onSome]
      intro it hm
      have hfd : fracDigits [.numeric .hour .zero, .literal [58], .numeric .minute .zero, .literal [58],
          .numeric .second .zero, .fixed .nanosecond] = 9 := by decide
      rw [hfd]
      simp only [List.mem_cons, List.not_mem_nil, or_false] at hm
      rcases hm with rfl | rfl | rfl | rfl | rfl | rfl <;> simp [itemFracDigits]

/-- a format with NON-ASCII white space: `%H<U+3000>%M` (ideographic space between hour and minute).  For
every valid time of day formatting succeeds and the text reads back as the time cut to the minute -/
example (t : Time) (htv : Chrono.Spec.TValid t) (hleap : 1000000000 ≤ t.frac → t.secs % 60 = 59) :
    ∃ text, format (.time t) [37, 72, 227, 128, 128, 37, 77] = Format.wok text ∧
      parse_from_str .time text [37, 72, 227, 128, 128, 37, 77] = .ok (.ok (.time ⟨t.secs / 60 * 60, 0⟩)) := by
  have hi : Strftime.items [37, 72, 227, 128, 128, 37, 77] =
      [.numeric .hour .zero, .space [227, 128, 128], .numeric .minute .zero] := by decide +kernel
  have h := family_roundtrip_time [37, 72, 227, 128, 128, 37, 77] t htv (by rw [hi]; decide) ?_
  · obtain ⟨text, h0, h, _⟩ := h
    refine ⟨text, h0, ?_⟩
    rw [h, hi]
    have hc : (carries [.numeric .hour .zero, .space [227, 128, 128], .numeric .minute .zero]).second = false := by
      decide
    simp only [truncTime, hc, if_true]
  · rw [hi]
    refine ⟨trivial, ?_, trivial, ?_, ?_⟩
    · exact Or.inr (by simpa [exprLeap, shown, onSome] using hleap)
    · intro h; exact absurd h (by decide)
    · simp only [exprFrac, shown, onSome]
      intro it hm
      simp only [List.mem_cons, List.not_mem_nil, or_false] at hm
      rcases hm with rfl | rfl | rfl <;> simp [itemFracDigits]

/-! ### non-vacuity of the perturbation, remainder, `_naive`, `_zoned` and exclusion theorems -/

/-- a perturbation in the sense of `Spec.Perturbed`: `05 Jul` ↦ `05<TAB><U+3000><SP>jUL` -/
example : Perturbed [.numeric .day .zero, .space [32], .fixed .shortMonthName]
    [[48, 53], [32], [74, 117, 108]] [[48, 53], [9, 227, 128, 128, 32], [106, 85, 76]] :=
  ⟨by simp [PerturbSeg, caseFree], ⟨[[9], [227, 128, 128], [32]], by decide, rfl, fun _ => by decide⟩,
    by simp [PerturbSeg, caseFree, sameUpToCase, foldCase], trivial⟩

/-- `family_roundtrip_perturbed` and `family_parse_and_remainder` apply to *every* date with `%d %b %Y`
(a name and two white-space items): every case / white-space perturbation of the formatted text reads back
as the date, and a tail that does not start with a digit is left over -/
example (Y : Int) (o : Nat) (hvd : VD Y o) :
    ∃ segs, Rendered (ctxOf (.date (dateOfYo Y o))) (Strftime.items [37, 100, 32, 37, 98, 32, 37, 89]) segs ∧
      format (.date (dateOfYo Y o)) [37, 100, 32, 37, 98, 32, 37, 89] = Format.wok segs.flatten ∧
      (∀ segs', Perturbed (Strftime.items [37, 100, 32, 37, 98, 32, 37, 89]) segs segs' →
        parse_from_str .date segs'.flatten [37, 100, 32, 37, 98, 32, 37, 89] = .ok (.ok (.date (dateOfYo Y o)))) ∧
      (∀ segs', Perturbed (Strftime.items [37, 100, 32, 37, 98, 32, 37, 89]) segs segs' →
        parse_and_remainder .date (segs'.flatten ++ [32, 116, 97, 105, 108]) [37, 100, 32, 37, 98, 32, 37, 89] =
          .ok (.ok (.date (dateOfYo Y o), [32, 116, 97, 105, 108]))) := by
  have hi : Strftime.items [37, 100, 32, 37, 98, 32, 37, 89] =
      [.numeric .day .zero, .space [32], .fixed .shortMonthName, .space [32], .numeric .year .zero] := by
    decide +kernel
  have hU : Unambiguous (Strftime.items [37, 100, 32, 37, 98, 32, 37, 89]) .date := by rw [hi]; decide
  suffices hE : expressible (Strftime.items [37, 100, 32, 37, 98, 32, 37, 89]) (.date (dateOfYo Y o)) by
    obtain ⟨segs, h1, h2, _, h4⟩ := family_roundtrip_perturbed _ (.date (dateOfYo Y o)) (.date (dateOfYo Y o))
      ⟨Y, o, hvd, rfl⟩ hU hE rfl
    obtain ⟨segs2, g1, _, g3⟩ := family_parse_and_remainder _ (.date (dateOfYo Y o)) (.date (dateOfYo Y o))
      ⟨Y, o, hvd, rfl⟩ hU hE rfl
    have e := rendered_unique _ _ _ _ g1 h1
    subst e
    refine ⟨segs2, h1, h2, h4, fun segs' hP => g3 _ ?_ segs' (Or.inl hP)⟩
    intro a ha
    rw [hi] at ha
    cases ha
    exact Or.inl (Or.inl rfl)
  rw [hi]
  obtain ⟨w, hw⟩ := Chrono.Proofs.ParsedRes.iso_week_ok Y o hvd
  have hc : carries [.numeric .day .zero, .space [32], .fixed .shortMonthName, .space [32], .numeric .year .zero] =
      { year := true, month := true, day := true } := by decide
  refine ⟨?_, Or.inr trivial, trivial, ?_, trivial⟩
  · simp only [exprYears, shown, onSome, onOk, hw, hc]
    refine ⟨⟨fun h => (by cases h), fun h => (by cases h), fun h => (by cases h), fun h => ?_⟩,
      ⟨fun _ _ h => (by cases h), fun h => (by cases h), fun h => (by cases h), fun h => ?_⟩⟩
    · exact absurd h (by decide)
    · exact absurd h (by decide)
  · intro h; rw [hc] at h; cases h

/-- `family_roundtrip_naive` applies to *every* `NaiveDateTime` with `%Y-%m-%dT%H:%M:%S`: the result is the
value at whole seconds (a leap second stays a leap second) -/
example (Y : Int) (o : Nat) (hvd : VD Y o) (t : Time) (htv : Chrono.Spec.TValid t)
    (hleap : 1000000000 ≤ t.frac → t.secs % 60 = 59) :
    ∃ text, format (.naive ⟨dateOfYo Y o, t⟩)
        [37, 89, 45, 37, 109, 45, 37, 100, 84, 37, 72, 58, 37, 77, 58, 37, 83] = Format.wok text ∧
      parse_from_str .naive text [37, 89, 45, 37, 109, 45, 37, 100, 84, 37, 72, 58, 37, 77, 58, 37, 83] =
        .ok (.ok (.naive ⟨dateOfYo Y o, ⟨t.secs, if t.frac ≥ 1000000000 then 1000000000 else 0⟩⟩)) := by
  have hi : Strftime.items [37, 89, 45, 37, 109, 45, 37, 100, 84, 37, 72, 58, 37, 77, 58, 37, 83] =
      [.numeric .year .zero, .literal [45], .numeric .month .zero, .literal [45], .numeric .day .zero,
       .literal [84], .numeric .hour .zero, .literal [58], .numeric .minute .zero, .literal [58],
       .numeric .second .zero] := by decide +kernel
  have hc : carries [.numeric .year .zero, .literal [45], .numeric .month .zero, .literal [45], .numeric .day .zero,
       .literal [84], .numeric .hour .zero, .literal [58], .numeric .minute .zero, .literal [58],
       .numeric .second .zero] =
      { year := true, month := true, day := true, hour24 := true, minute := true, second := true } := by decide
  have h := family_roundtrip_naive [37, 89, 45, 37, 109, 45, 37, 100, 84, 37, 72, 58, 37, 77, 58, 37, 83] Y o hvd t htv
    (by rw [hi]; decide) (by rw [hi]; decide) (by rw [hi]; decide) ?_
  · obtain ⟨text, h0, h1, _⟩ := h
    refine ⟨text, h0, ?_⟩
    rw [h1, hi]
    have hfd : fracDigits [.numeric .year .zero, .literal [45], .numeric .month .zero, .literal [45],
        .numeric .day .zero, .literal [84], .numeric .hour .zero, .literal [58], .numeric .minute .zero,
        .literal [58], .numeric .second .zero] = 0 := by decide
    have e0 := (cutFrac_forms t.frac).2.2.2
    simp only [truncTime, hc, hfd, e0, Bool.true_eq_false, if_false, Int.add_zero]
  · rw [hi]
    obtain ⟨w, hw⟩ := Chrono.Proofs.ParsedRes.iso_week_ok Y o hvd
    refine ⟨?_, ?_, trivial, ?_, ?_⟩
    · simp only [exprYears, shown, onSome, onOk, hw, hc]
      refine ⟨⟨fun h => (by cases h), fun h => (by cases h), fun h => (by cases h), fun h => ?_⟩,
        ⟨fun _ _ h => (by cases h), fun h => (by cases h), fun h => (by cases h), fun h => ?_⟩⟩
      · exact absurd h (by decide)
      · exact absurd h (by decide)
    · exact Or.inr (by simpa [exprLeap, shown, onSome] using hleap)
    · intro h; rw [hc] at h; cases h
    · simp only [exprFrac, shown, onSome]
      intro it hm
      simp only [List.mem_cons, List.not_mem_nil, or_false] at hm
      rcases hm with rfl | rfl | rfl | rfl | rfl | rfl | rfl | rfl | rfl | rfl | rfl <;> simp [itemFracDigits]

/-- `family_roundtrip_zoned` applies to *every* well-formed `DateTime<FixedOffset>` with a whole-minute
offset, a leap second only on :59 and a wall clock in range, with `%Y-%m-%d %H:%M:%S%.f %z`: the value
itself comes back -/
example (z : Zoned) (hz : Chrono.Spec.ZInv z) (Y : Int) (o : Nat) (hvd : VD Y o) (t : Time)
    (htv : Chrono.Spec.TValid t) (hleap : 1000000000 ≤ t.frac → t.secs % 60 = 59)
    (hl : z.overflowing_naive_local = .ok ⟨dateOfYo Y o, t⟩) (hmin : z.off % 60 = 0) :
    ∃ text, format (.zoned z)
        [37, 89, 45, 37, 109, 45, 37, 100, 32, 37, 72, 58, 37, 77, 58, 37, 83, 37, 46, 102, 32, 37, 122] =
          Format.wok text ∧
      parse_from_str .zoned text
        [37, 89, 45, 37, 109, 45, 37, 100, 32, 37, 72, 58, 37, 77, 58, 37, 83, 37, 46, 102, 32, 37, 122] =
          .ok (.ok (.zoned z)) := by
  have hi : Strftime.items
      [37, 89, 45, 37, 109, 45, 37, 100, 32, 37, 72, 58, 37, 77, 58, 37, 83, 37, 46, 102, 32, 37, 122] =
      [.numeric .year .zero, .literal [45], .numeric .month .zero, .literal [45], .numeric .day .zero,
       .space [32], .numeric .hour .zero, .literal [58], .numeric .minute .zero, .literal [58],
       .numeric .second .zero, .fixed .nanosecond, .space [32], .fixed .timezoneOffset] := by decide +kernel
  have hc : carries [.numeric .year .zero, .literal [45], .numeric .month .zero, .literal [45], .numeric .day .zero,
       .space [32], .numeric .hour .zero, .literal [58], .numeric .minute .zero, .literal [58],
       .numeric .second .zero, .fixed .nanosecond, .space [32], .fixed .timezoneOffset] =
      { year := true, month := true, day := true, hour24 := true, minute := true, second := true, nano := true,
        offset := true } := by decide
  have hfdg : fracDigits [.numeric .year .zero, .literal [45], .numeric .month .zero, .literal [45],
       .numeric .day .zero, .space [32], .numeric .hour .zero, .literal [58], .numeric .minute .zero,
       .literal [58], .numeric .second .zero, .fixed .nanosecond, .space [32], .fixed .timezoneOffset] = 9 := by
    decide
  have hro := rounded_of_whole z.off hmin
  refine family_roundtrip_zoned _ z Y o hvd t htv hl hz.2 (by rw [hi]; decide) (by rw [hi]; decide)
    (by rw [hi]; decide) (by rw [hi]; decide) ?_ _ ?_
  · rw [hi]
    obtain ⟨w, hw⟩ := Chrono.Proofs.ParsedRes.iso_week_ok Y o hvd
    refine ⟨?_, ?_, ?_, ?_, ?_⟩
    · simp only [exprYears, shown, hl, onSome, onOk, hw, hc]
      refine ⟨⟨fun h => (by cases h), fun h => (by cases h), fun h => (by cases h), fun h => ?_⟩,
        ⟨fun _ _ h => (by cases h), fun h => (by cases h), fun h => (by cases h), fun h => ?_⟩⟩
      · exact absurd h (by decide)
      · exact absurd h (by decide)
    · exact Or.inr (by simpa [exprLeap, shown, hl, onSome] using hleap)
    · simp only [exprOffset, shown, hl, onSome]
      intro _; rw [hro]; exact hz.2
    · intro h; rw [hc] at h; cases h
    · simp only [exprFrac, shown, hl, onSome]
      intro it hm
      rw [hfdg]
      simp only [List.mem_cons, List.not_mem_nil, or_false] at hm
      rcases hm with rfl | rfl | rfl | rfl | rfl | rfl | rfl | rfl | rfl | rfl | rfl | rfl | rfl | rfl <;>
        simp [itemFracDigits]
  · rw [hi]
    exact truncate_zoned_exact _ z hz ⟨dateOfYo Y o, t⟩ hl htv (wallInRange_vd Y o hvd) (by decide) (by decide) (by rw [hc])
      hfdg (by rw [hc]) hmin

/-- `family_roundtrip_zoned_excluded` is not vacuous: `-262143-01-01T00:00:00 UTC` at offset `+00:00:31`
with `%Y-%m-%d %H:%M:%S %z` is printed at `+0001`; the wall clock `00:00:31` at `+00:01` would be an instant
29 s before the first supported one, `truncate_to_precision` makes no prediction, the reader answers
IMPOSSIBLE (and so does the real crate) -/
example :
    ∃ text, format (.zoned ⟨⟨dateOfYo (-262143) 1, ⟨0, 0⟩⟩, 31⟩)
        [37, 89, 45, 37, 109, 45, 37, 100, 32, 37, 72, 58, 37, 77, 58, 37, 83, 32, 37, 122] = Format.wok text ∧
      parse_from_str .zoned text [37, 89, 45, 37, 109, 45, 37, 100, 32, 37, 72, 58, 37, 77, 58, 37, 83, 32, 37, 122] =
        .ok (.error .impossible) := by
  have hi : Strftime.items [37, 89, 45, 37, 109, 45, 37, 100, 32, 37, 72, 58, 37, 77, 58, 37, 83, 32, 37, 122] =
      [.numeric .year .zero, .literal [45], .numeric .month .zero, .literal [45], .numeric .day .zero,
       .space [32], .numeric .hour .zero, .literal [58], .numeric .minute .zero, .literal [58],
       .numeric .second .zero, .space [32], .fixed .timezoneOffset] := by decide +kernel
  exact family_roundtrip_zoned_excluded _ ⟨⟨dateOfYo (-262143) 1, ⟨0, 0⟩⟩, 31⟩ (-262143) 1
    (by unfold VD; decide) ⟨31, 0⟩ (by unfold Chrono.Spec.TValid; decide) (by decide +kernel) (by decide)
    (by rw [hi]; decide) (by rw [hi]; decide) (by rw [hi]; decide) (by rw [hi]; decide)
    (by rw [hi]; decide +kernel) (by rw [hi]; decide +kernel)

/-- `leap_off_59_reads_back_normalised` is not vacuous: 12:34:56 with `with_nanosecond(1_500_000_000)` and
`%H:%M:%S%.f` reads back as 12:34:57.5 (the real crate prints `12:34:57.500` and returns that time) -/
example : leapNormal ⟨45296, 1500000000⟩ = ⟨45297, 500000000⟩ ∧
    Chrono.Spec.TValid ⟨45296, 1500000000⟩ ∧ (45296 : Int) % 60 ≠ 59 := by decide


/-! ### second review, G2: the dot-fraction items next to variable-width numbers and after white space

`Spec.separated` accepts `%.3f %.6f %.9f` (a dot first) after any number, and `%.f` (nothing, or a dot first)
directly after a number (what delimits `%.f` delimits the number); `Spec.afterSpaceOk` accepts the
fixed-width fraction items and a literal whose first character is complete and not white space.  All 117
time forms of the harness are now inside `Unambiguous` (the harness REQUIRES a prediction for them: `pf.sp`
answers `nopred` otherwise). -/

example : Unambiguous (Strftime.items (Chrono.asciiBytes "%H:%M:%-S%.f")) .time := by decide +kernel
example : Unambiguous (Strftime.items (Chrono.asciiBytes "%H.%M.%-S%.f")) .time := by decide +kernel
example : Unambiguous (Strftime.items (Chrono.asciiBytes "%H %M %_S%.3f")) .time := by decide +kernel
example : Unambiguous (Strftime.items (Chrono.asciiBytes "%k:%-M:%-S%.9f")) .time := by decide +kernel
example : Unambiguous (Strftime.items (Chrono.asciiBytes "%I:%M:%-S%.f %P")) .time := by decide +kernel
example : Unambiguous (Strftime.items (Chrono.asciiBytes "%-S%.f:%H:%M")) .time := by decide +kernel
example : Unambiguous (Strftime.items (Chrono.asciiBytes "%H:%M:%S %.3f")) .time := by decide +kernel
example : Unambiguous (Strftime.items (Chrono.asciiBytes "%H:%M:%S %9f")) .time := by decide +kernel
/-- `%H é%M` (a literal that starts with a non-blank non-ASCII character after white space) -/
example : Unambiguous (Strftime.items [37, 72, 32, 195, 169, 37, 77]) .time := by decide +kernel
/-- still outside: `%.f` after white space (`%S %.f .%3f` is really ambiguous), `%.f` before a dot -/
example : ¬ Unambiguous (Strftime.items (Chrono.asciiBytes "%H:%M:%S %.f")) .time := by decide +kernel
example : ¬ Unambiguous (Strftime.items (Chrono.asciiBytes "%H:%M:%-S%.f.%3f")) .time := by decide +kernel
example : ¬ Unambiguous (Strftime.items (Chrono.asciiBytes "%H:%M:%-S%.f%.3f")) .time := by decide +kernel
/-- a number directly before `%.f` directly before a digit is not separated -/
example : ¬ Unambiguous (Strftime.items (Chrono.asciiBytes "%H:%M:%-S%.f%d")) .naive := by decide +kernel

/-- `family_roundtrip_time` on a newly covered member: `%H:%M:%-S%.f` for every valid time of day (the
unpadded second is delimited by the dot of the fraction, or by the end for a whole second) -/
example (t : Time) (htv : Chrono.Spec.TValid t) (hleap : 1000000000 ≤ t.frac → t.secs % 60 = 59) :
    ∃ text, format (.time t) (Chrono.asciiBytes "%H:%M:%-S%.f") = Format.wok text ∧
      parse_from_str .time text (Chrono.asciiBytes "%H:%M:%-S%.f") = .ok (.ok (.time t)) := by
  have hi : Strftime.items (Chrono.asciiBytes "%H:%M:%-S%.f") =
      [.numeric .hour .zero, .literal [58], .numeric .minute .zero, .literal [58], .numeric .second .none,
       .fixed .nanosecond] := by decide +kernel
  have h := family_roundtrip_time (Chrono.asciiBytes "%H:%M:%-S%.f") t htv (by rw [hi]; decide) ?_
  · obtain ⟨text, h0, h, _⟩ := h
    refine ⟨text, h0, ?_⟩
    rw [h, hi]
    have hfd : fracDigits [.numeric .hour .zero, .literal [58], .numeric .minute .zero, .literal [58],
        .numeric .second .none, .fixed .nanosecond] = 9 := by decide
    have hc : (carries [.numeric .hour .zero, .literal [58], .numeric .minute .zero, .literal [58],
        .numeric .second .none, .fixed .nanosecond]).second = true := by decide
    obtain ⟨_, _, t3, t4⟩ := htv
    have e9 := (cutFrac_forms t.frac).1
    have : truncTime [.numeric .hour .zero, .literal [58], .numeric .minute .zero, .literal [58],
        .numeric .second .none, .fixed .nanosecond] t = t := by
      simp only [truncTime, hc, hfd, e9, Bool.true_eq_false, if_false]
      cases t with
      | mk secs frac =>
        simp only [Time.mk.injEq, true_and]
        simp only at t3 t4
        split <;> omega
    rw [this]
  · rw [hi]
    refine ⟨trivial, ?_, trivial, ?_, ?_⟩
    · exact Or.inr (by simpa [exprLeap, shown, onSome] using hleap)
    · intro h; exact absurd h (by decide)
    · simp only [exprFrac, shown, onSome]
      intro it hm
      have hfd : fracDigits [.numeric .hour .zero, .literal [58], .numeric .minute .zero, .literal [58],
          .numeric .second .none, .fixed .nanosecond] = 9 := by decide
      rw [hfd]
      simp only [List.mem_cons, List.not_mem_nil, or_false] at hm
      rcases hm with rfl | rfl | rfl | rfl | rfl | rfl <;> simp [itemFracDigits]

/-! ### second review, G6: a UTC leap second at :59 seen at an offset with seconds -/

/-- `2016-12-31T23:59:60.5 UTC` at `+00:00:30` with `%s %z`: the local reading `00:00:29` + 1.5 s is a leap
representation off :59, the value is expressible all the same (`Spec.exprLeapFor`), the specification
predicts the instant at whole seconds at `+00:01`, and `family_roundtrip_timestamp_zoned` gives exactly that
(the real crate: `1483228799 +0001` → `Ok(2016-12-31T23:59:59 UTC at +00:01)`) -/
example :
    ∃ text, format (.zoned ⟨⟨dateOfYo 2016 366, ⟨86399, 1500000000⟩⟩, 30⟩) (Chrono.asciiBytes "%s %z") = Format.wok text ∧
      parse_from_str .zoned text (Chrono.asciiBytes "%s %z") =
        .ok (.ok (.zoned ⟨⟨dateOfYo 2016 366, ⟨86399, 0⟩⟩, 60⟩)) := by
  have hi : Strftime.items (Chrono.asciiBytes "%s %z") =
      [.numeric .timestamp .none, .space [32], .fixed .timezoneOffset] := by decide +kernel
  exact family_roundtrip_timestamp_zoned _ ⟨⟨dateOfYo 2016 366, ⟨86399, 1500000000⟩⟩, 30⟩
    (by unfold Chrono.Spec.NDTInv; decide +kernel) 2017 1 (by unfold VD; decide) ⟨29, 1500000000⟩
    (by unfold Chrono.Spec.TValid; decide) (by decide +kernel) (by decide) (by rw [hi]; decide)
    (by rw [hi]; decide) (by rw [hi]; decide +kernel) _ (by rw [hi]; decide +kernel)

/-- the same value with a field format is not expressible (the leap clause applies where the wall clock's
second is printed), and `leap_off_59_zoned_reads_back_normalised` applies: it formats like
`2017-01-01T00:00:00.5 UTC` at the same offset -/
example :
    ¬ expressible (Strftime.items (Chrono.asciiBytes "%F %T%.f %z")) (.zoned ⟨⟨dateOfYo 2016 366, ⟨86399, 1500000000⟩⟩, 30⟩) ∧
    Zoned.overflowing_naive_local ⟨⟨dateOfYo 2016 366, ⟨86399, 1500000000⟩⟩, 30⟩ =
      .ok ⟨dateOfYo 2017 1, ⟨29, 1500000000⟩⟩ ∧
    Zoned.overflowing_naive_local ⟨⟨dateOfYo 2017 1, ⟨0, 500000000⟩⟩, 30⟩ =
      .ok ⟨dateOfYo 2017 1, leapNormal ⟨29, 1500000000⟩⟩ ∧
    Unambiguous (Strftime.items (Chrono.asciiBytes "%F %T%.f %z")) .zoned ∧
    (∀ it ∈ Strftime.items (Chrono.asciiBytes "%F %T%.f %z"), ∀ pad, it ≠ .numeric .timestamp pad) := by
  refine ⟨by decide +kernel, by decide +kernel, by decide +kernel, by decide +kernel, ?_⟩
  intro it hm pad he
  subst he
  revert hm
  cases pad <;> decide +kernel

end Chrono.Props.C13
