/-
  C11 — RFC 2822 output round-trips and obsolete forms are read as specified.
  (stage 1: model glue + correspondence; the property theorems follow)
-/
import Chrono.Model.Rfc2822

namespace Chrono.Props.C11
open Chrono Chrono.M

/-- the fields of the rustdoc example `Tue, 1 Jul 2003 10:52:37 +0200` resolve to that instant -/
theorem doc_example_fields :
    Rfc2822.okVal (Parsed.to_datetime
      { year := some 2003, month := some 7, day := some 1, hour_div_12 := some 0,
        hour_mod_12 := some 10, minute := some 52, second := some 37, offset := some 7200,
        weekday := some .tue })
      = some ⟨⟨⟨16411497⟩, ⟨31957, 0⟩⟩, 7200⟩ := by decide +kernel

end Chrono.Props.C11
