/-
  C11 — RFC 2822 output round-trips and obsolete forms are read as specified.
  Property statements only.  Specification: Spec/Rfc2822Spec.lean (the grammar relation `Rfc2822 s f`,
  `Valid`, `Denotes`, `stdText`); helper lemmas: Proofs/Rfc2822L.lean (scanning primitives),
  Proofs/Rfc2822ScanL.lean (the reader stage by stage), Proofs/Rfc2822ResL.lean (field resolution,
  on top of C14's completeness lemmas and C04's `from_local_spec`).
  Model: `Rfc2822.parse_from_rfc2822` = `DateTime::parse_from_rfc2822`, `Rfc2822.to_rfc2822` =
  `DateTime::to_rfc2822` (Model/Rfc2822.lean over Model/Parse, Scan, ParsedResolve, Format).
-/
import Chrono.Proofs.Rfc2822ScanSoundL
import Chrono.Proofs.ParsedZonedL
import Chrono.Proofs.Rfc2822InbandL
import Chrono.Proofs.Rfc2822ItemL
import Chrono.Proofs.Rfc2822RejectL
import Chrono.Proofs.Rfc2822UniqueL
import Chrono.Proofs.Rfc2822TrailL
import Chrono.Extracted.Rfc2822
import Chrono.Extracted.Rfc2822Rules
import Chrono.Proofs.Rfc2822TableL
import Chrono.Proofs.Rfc2822ListL
import Chrono.Props.GenDate

namespace Chrono.Props.C11
open Chrono Chrono.M Chrono.Spec Chrono.Spec.Rfc2822 Chrono.Proofs.Rfc2822

/-! ## the reader accepts the grammar and returns exactly the denoted value -/

/-- `parse` with the single item `RFC2822` on a string of the grammar: the scanner consumes all of
it and yields exactly the spelled fields (`parsedOf f`) -/
theorem scanner_complete (s : List Nat) (f : Fields) (h : Rfc2822 s f) (hr : SetterRanges f) :
    Parse.parse Parsed.new s Rfc2822.ITEMS = .ok (parsedOf f) := by
  have := parse_rfc2822_complete s f h hr
  unfold Parse.parse Rfc2822.ITEMS Parse.parse_internal
  simp only [this, Parse.parse_internal]

/-- `parse` with the single item `RFC2822` on a string of the grammar whose fields are NOT all inside
the setter ranges (day 0 or > 31, year beyond `i32`/`i64`, hour > 23, minute > 59, second > 60): the
scanner itself returns an error (the first out-of-range `Parsed::set_*`, or `scan::number`) -/
theorem scanner_rejects (s : List Nat) (f : Fields) (h : Rfc2822 s f) (hr : ¬ SetterRanges f) :
    ∃ e, Parse.parse Parsed.new s Rfc2822.ITEMS = .error e := by
  obtain ⟨e, he⟩ := parse_rfc2822_rejects s f h hr
  refine ⟨e, ?_⟩
  unfold Parse.parse Rfc2822.ITEMS Parse.parse_internal
  simp only [he]

/-- **out_of_range_rejected.**  A string of the grammar spelling a field outside the setter ranges is
rejected by value by `parse_from_rfc2822` (`Err`, never a panic, never a value). -/
theorem out_of_range_rejected (s : List Nat) (f : Fields) (h : Rfc2822 s f) (hr : ¬ SetterRanges f) :
    ∃ e, Rfc2822.parse_from_rfc2822 s = .ok (.error e) := by
  obtain ⟨e, he⟩ := scanner_rejects s f h hr
  refine ⟨e, ?_⟩
  unfold Rfc2822.parse_from_rfc2822
  rw [he]

/-- on the grammar the scanner succeeds exactly inside the setter ranges -/
theorem scanner_ok_iff (s : List Nat) (f : Fields) (h : Rfc2822 s f) :
    (∃ p, Parse.parse Parsed.new s Rfc2822.ITEMS = .ok p) ↔ SetterRanges f := by
  constructor
  · rintro ⟨p, hp⟩
    apply Classical.byContradiction
    intro hr
    obtain ⟨e, he⟩ := scanner_rejects s f h hr
    rw [he] at hp
    cases hp
  · intro hr
    exact ⟨_, scanner_complete s f h hr⟩

/-- **reader_accepts_spec** (completeness over the grammar).  Every string of the RFC 2822 date-time
syntax (optional day-name, one- or two-digit day, month name in any case, 2/3/4+-digit year,
optional seconds, `1*S` wherever the standard form has a space, numeric / named / military zone,
trailing comments with nesting and escapes) whose fields are valid parses — no error, no panic —
to a value that denotes exactly those fields: that offset, the instant `wall clock − offset`,
whole seconds, a leap second iff the seconds field is 60. -/
theorem reader_accepts_spec (s : List Nat) (f : Fields) (h : Rfc2822 s f) (hv : Valid f) :
    ∃ z, Rfc2822.parse_from_rfc2822 s = .ok (.ok z) ∧ Denotes f z := by
  obtain ⟨z, hz, hd⟩ := resolve_ok f hv
  refine ⟨z, ?_, hd⟩
  unfold Rfc2822.parse_from_rfc2822
  rw [scanner_complete s f h (setterRanges_of_valid f hv)]
  exact hz

/-- the denotation determines the value: "exactly the denoted instant" -/
theorem denotation_unique (f : Fields) (z z' : Zoned) (h : Denotes f z) (h' : Denotes f z') : z = z' := by
  obtain ⟨a1, a2, a3, a4, _⟩ := h
  obtain ⟨b1, b2, b3, b4, _⟩ := h'
  have hu : z.utc = z'.utc :=
    Chrono.Proofs.ndt_unique z.utc z'.utc ⟨((Chrono.Proofs.dateInv_iff _).mp a4.1).1, a4.2⟩
      ⟨((Chrono.Proofs.dateInv_iff _).mp b4.1).1, b4.2⟩ (by rw [a2, b2]) (by rw [a3, b3])
  cases z; cases z'
  simp only [] at hu a1 b1
  rw [hu, a1, b1]

/-- **reader_sound** (soundness).  Whatever `parse_from_rfc2822` accepts is a string of the RFC 2822
date-time grammar of the specification, its fields are valid (existing date in range, day-name — if
any — the weekday of the date, time fields and offset in range, UTC reading in range), and the
returned value is the one those fields denote.  With `reader_accepts_spec` and
`denotation_unique`: `parse_from_rfc2822 s = Ok z` exactly when `s` spells valid fields denoting
`z`; everything else is `Err` (`reader_total`: never a panic). -/
theorem reader_sound (s : List Nat) (z : Zoned) (h : Rfc2822.parse_from_rfc2822 s = .ok (.ok z)) :
    ∃ f, Rfc2822 s f ∧ Valid f ∧ Denotes f z := by
  unfold Rfc2822.parse_from_rfc2822 at h
  cases hp : Parse.parse Parsed.new s Rfc2822.ITEMS with
  | error e => rw [hp] at h; cases h
  | ok p =>
    rw [hp] at h
    simp only [] at h
    have hscan : Parse.parse_rfc2822 Parsed.new s = .ok (p, []) := by
      unfold Parse.parse Rfc2822.ITEMS Parse.parse_internal at hp
      simp only [] at hp
      cases hr : Parse.parse_rfc2822 Parsed.new s with
      | error e => rw [hr] at hp; cases hp
      | ok r =>
        obtain ⟨p', s'⟩ := r
        rw [hr] at hp
        simp only [Parse.parse_internal] at hp
        cases s' with
        | nil => injection hp with hp; rw [hp]
        | cons _ _ => cases hp
    obtain ⟨f, hf, hr, hm, hy, rfl⟩ := scan_sound s p hscan
    have hin := inType_parsedOf f hr hm (by omega)
    obtain ⟨hv, hd⟩ := resolve_sound f hin z h
    exact ⟨f, hf, hv, hd⟩

/-- **reader_total.**  For every byte string the reader returns `Ok` or `Err` — it cannot panic
(scanning is total by construction; field resolution of the scanned record by C14's `to_datetime`
theorem). -/
theorem reader_total (s : List Nat) : ∃ r, Rfc2822.parse_from_rfc2822 s = .ok r := by
  unfold Rfc2822.parse_from_rfc2822
  cases hp : Parse.parse Parsed.new s Rfc2822.ITEMS with
  | error e => exact ⟨_, rfl⟩
  | ok p =>
    simp only []
    have hscan : Parse.parse_rfc2822 Parsed.new s = .ok (p, []) := by
      unfold Parse.parse Rfc2822.ITEMS Parse.parse_internal at hp
      simp only [] at hp
      cases hr : Parse.parse_rfc2822 Parsed.new s with
      | error e => rw [hr] at hp; cases hp
      | ok r =>
        obtain ⟨p', s'⟩ := r
        rw [hr] at hp
        simp only [Parse.parse_internal] at hp
        cases s' with
        | nil => injection hp with hp; rw [hp]
        | cons _ _ => cases hp
    obtain ⟨f, _, hr, hm, hy, rfl⟩ := scan_sound s p hscan
    obtain ⟨r, hr', _⟩ := Chrono.Proofs.ParsedRes.to_datetime_spec _ (inType_parsedOf f hr hm (by omega))
    exact ⟨r, hr'⟩

/-- the fields a string of the grammar spells have month ≤ 12 and a non-negative year -/
theorem grammar_month_year (s : List Nat) (f : Fields) (h : Rfc2822 s f) : f.month ≤ 12 ∧ 0 ≤ f.year := by
  obtain ⟨_, _, _, _, _, _, _, yy, _, _, _, _, _, _, _, _, _, _, _, _, _, _, _, _, hmn, _, _, _, hyv, _⟩ := h
  obtain ⟨i, hi, _, hmi⟩ := hmn
  have := yearOf_ge yy
  omega

/-- **accepts_iff_valid.**  Acceptance is exactly validity on the grammar: a string spelling fields
`f` — ANY fields, no range hypothesis — is accepted iff `f` is valid. -/
theorem accepts_iff_valid (s : List Nat) (f : Fields) (h : Rfc2822 s f) :
    (∃ z, Rfc2822.parse_from_rfc2822 s = .ok (.ok z)) ↔ Valid f := by
  constructor
  · rintro ⟨z, hz⟩
    by_cases hr : SetterRanges f
    · have hm := grammar_month_year s f h
      have hin := inType_parsedOf f hr hm.1 (by omega)
      unfold Rfc2822.parse_from_rfc2822 at hz
      rw [scanner_complete s f h hr] at hz
      exact (resolve_sound f hin z hz).1
    · obtain ⟨e, he⟩ := out_of_range_rejected s f h hr
      rw [he] at hz
      cases hz
  · intro hv
    obtain ⟨z, hz, _⟩ := reader_accepts_spec s f h hv
    exact ⟨z, hz⟩

/-- **grammar_unambiguous.**  The specification relation is unambiguous: a byte string spells at most
one tuple of fields — ANY fields, in or out of any range (proved on the relation itself, piece by
piece: a white-space run ends where a byte that starts no white-space character begins, a digit string
at a non-digit, names and two-digit fields have a fixed length, a zone is followed by no letter).
Hence "the fields `s` spells" in `accepts_iff_valid`, `weekday_mismatch_rejected` and
`out_of_range_rejected` are THE fields of `s`: a string of the grammar is accepted iff its one reading
is valid. -/
theorem grammar_unambiguous (s : List Nat) (f f' : Fields) (h : Rfc2822 s f) (h' : Rfc2822 s f') : f = f' :=
  rfc2822_unambiguous s f f' h h'

/-- every accepted string has exactly one reading, and it is valid and denotes the returned value -/
theorem accepted_reading_unique (s : List Nat) (z : Zoned) (hz : Rfc2822.parse_from_rfc2822 s = .ok (.ok z)) :
    ∃ f, Rfc2822 s f ∧ Valid f ∧ Denotes f z ∧ ∀ f', Rfc2822 s f' → f' = f := by
  obtain ⟨f, hf, hv, hd⟩ := reader_sound s z hz
  exact ⟨f, hf, hv, hd, fun f' hf' => grammar_unambiguous s f' f hf' hf⟩

/-- rejection, stated on the string alone: a string of the grammar NONE of whose readings is valid
(equivalently, by `grammar_unambiguous`, whose one reading is not valid) is rejected by value -/
theorem invalid_rejected (s : List Nat) (f : Fields) (h : Rfc2822 s f) (hv : ¬ Valid f) :
    ∃ e, Rfc2822.parse_from_rfc2822 s = .ok (.error e) := by
  obtain ⟨r, hr⟩ := reader_total s
  cases r with
  | error e => exact ⟨e, hr⟩
  | ok z => exact absurd ((accepts_iff_valid s f h).mp ⟨z, hr⟩) hv

/-- **trailing_white_space_rejected** (the boundary of the specification, as a theorem about the code).
ANY text that ends in one of the 25 white-space characters is rejected by value: no string of the
relation ends in white space (each ends in the last digit / letter of its zone or the `)` of its last
comment), and the reader accepts nothing outside the relation (`reader_sound`).  This is the
observation recorded in the specification header — the grammar comment in parse.rs allows trailing
white space, the code does not, the property does not ask for it. -/
theorem trailing_white_space_rejected (s w : List Nat) (hw : w ∈ WS) :
    ∃ e, Rfc2822.parse_from_rfc2822 (s ++ w) = .ok (.error e) := by
  obtain ⟨r, hr⟩ := reader_total (s ++ w)
  cases r with
  | error e => exact ⟨e, hr⟩
  | ok z =>
    exfalso
    obtain ⟨f, hf, _, _⟩ := reader_sound (s ++ w) z hr
    obtain ⟨b, hb, he⟩ := rfc2822_last hf
    obtain ⟨b', hb', hne⟩ := ws_last_not_end w hw
    rw [getLast_append_some s w hb'] at hb
    injection hb with hb
    subst hb
    exact hne he

/-! ## the writer's standard form and the round trip -/

/-- **writer_form_in_grammar.**  The standard form `Www, D Mon YYYY HH:MM:SS +HHMM` of any fields
it can show (day-name, year 0–9999, seconds 00–60, whole-minute offset of less than a day) is a
string of the reader's grammar spelling exactly those fields. -/
theorem writer_form_in_grammar (f : Fields) (h : StdFields f) : Rfc2822 (stdText f) f :=
  std_in_grammar f h

/-- **wall_date_exists_unique.**  Every well-formed zone-aware value has exactly one wall-clock date
`(Y, o)` (year and day of the year of `instant + offset`) — the `(Y, o)` that `writer_shape`,
`item_shape` and the round-trip theorems quantify over is determined by `z`. -/
theorem wall_date_exists_unique (z : Zoned) (hz : ZInv z) :
    ∃ Y o, WallDate z Y o ∧ ∀ Y' o', WallDate z Y' o' → Y' = Y ∧ o' = o := by
  obtain ⟨Y, o, hw⟩ := wallDate_exists z hz
  exact ⟨Y, o, hw, fun Y' o' hw' => wallDate_unique z Y' Y o' o hw' hw⟩

/-- **writer_shape_total** (`writer_shape` without a wall-clock date handed in).  For every well-formed
value there is a wall-clock date — its only one — and `to_rfc2822` is the standard form of the
wall-clock fields at that date, or the documented panic outside years 0–9999. -/
theorem writer_shape_total (z : Zoned) (hz : ZInv z) :
    ∃ Y o, WallDate z Y o ∧
      Rfc2822.to_rfc2822 z =
        if 0 ≤ Y ∧ Y ≤ 9999 then .ok (stdHead (fieldsOf z Y o) ++ shownZone z.off) else .panic := by
  obtain ⟨Y, o, hw⟩ := wallDate_exists z hz
  exact ⟨Y, o, hw, to_rfc2822_shape z hz Y o hw⟩

/-- **writer_shape.**  For EVERY well-formed zone-aware value `z` (any sub-second part, any offset of
less than a day) with wall-clock date `(Y, o)`: if the wall-clock year is in 0–9999, `to_rfc2822 z`
is `Www, D Mon YYYY HH:MM:SS ` of the wall-clock fields — the day-name of the wall-clock date, the
day without padding, the month name, the four-digit year, the time with second 60 for a leap
second, sub-seconds dropped — followed by the zone as `shownZone z.off`: sign of the offset, then
`HHMM` of the offset rounded to the nearest minute, ties away from zero (so `-0000` for −00:00:20,
`+2400` for +23:59:40; for a whole-minute offset simply `±HHMM`).  Outside years 0–9999 the call
panics, as documented.  Every value has exactly one wall-clock date (`wallDate_exists`, C04's
`reading_unique`). -/
theorem writer_shape (z : Zoned) (hz : ZInv z) (Y : Int) (o : Nat) (hw : WallDate z Y o) :
    Rfc2822.to_rfc2822 z =
      if 0 ≤ Y ∧ Y ≤ 9999 then .ok (stdHead (fieldsOf z Y o) ++ shownZone z.off) else .panic :=
  to_rfc2822_shape z hz Y o hw

/-- **writer_panics_iff.**  `to_rfc2822` panics exactly when the wall-clock year is negative or has more
than four digits (there is NO lower limit at 1900: RFC 2822 forbids such years, chrono writes them). -/
theorem writer_panics_iff (z : Zoned) (hz : ZInv z) (Y : Int) (o : Nat) (hw : WallDate z Y o) :
    Rfc2822.to_rfc2822 z = .panic ↔ (Y < 0 ∨ 9999 < Y) := by
  rw [writer_shape z hz Y o hw]
  by_cases hr : 0 ≤ Y ∧ Y ≤ 9999
  · rw [if_pos hr]; constructor
    · intro h; cases h
    · intro h; omega
  · rw [if_neg hr]; constructor
    · intro _; omega
    · intro _; rfl

/-- the writer's year range on concrete values (kernel evaluation; the real crate gives the same):
1899-01-01 and 0000-01-01 are written; −0001-12-31, 10000-01-01, the first and the last representable
date panic in `to_rfc2822` and give `fmt::Error` through the item -/
example :
    Rfc2822.to_rfc2822 ⟨⟨dateOfYo 1899 1, ⟨0, 0⟩⟩, 0⟩ = .ok (stdText ⟨some .sun, 1, 1, 1899, 0, 0, some 0, 0⟩) ∧
    Rfc2822.to_rfc2822 ⟨⟨dateOfYo (-1) 365, ⟨86399, 0⟩⟩, 0⟩ = .panic ∧
    Rfc2822.to_rfc2822 ⟨⟨dateOfYo 10000 1, ⟨0, 0⟩⟩, 0⟩ = .panic ∧
    Rfc2822.to_rfc2822 ⟨⟨dateOfYo (-262143) 1, ⟨0, 0⟩⟩, 0⟩ = .panic ∧
    Rfc2822.to_rfc2822 ⟨⟨dateOfYo 262142 365, ⟨86399, 0⟩⟩, 0⟩ = .panic ∧
    Rfc2822.format_item_rfc2822 ⟨⟨dateOfYo (-1) 365, ⟨86399, 0⟩⟩, 0⟩ = .ok none ∧
    Rfc2822.format_item_rfc2822 ⟨⟨dateOfYo 262142 365, ⟨86399, 0⟩⟩, 0⟩ = .ok none := by
  decide +kernel

/-- for a whole-minute offset that text is the standard form `stdText` of the wall-clock fields -/
theorem writer_shape_whole_minute (z : Zoned) (hz : ZInv z) (Y : Int) (o : Nat) (hw : WallDate z Y o)
    (hr : 0 ≤ Y ∧ Y ≤ 9999) (hoff : z.off % 60 = 0) :
    Rfc2822.to_rfc2822 z = .ok (stdText (fieldsOf z Y o)) := by
  rw [writer_shape z hz Y o hw, if_pos hr, stdText_eq (fieldsOf z Y o) hoff]
  rfl

/-- **roundtrip.**  Every well-formed value whose time of day is one the public constructors build
(leap-second representation only on second 59 of a minute), with wall-clock year 0–9999 and a
whole-minute offset: `parse_from_rfc2822(&z.to_rfc2822())` is `Ok` of `z` truncated to whole
seconds — same instant to the second, the leap second preserved, the same offset. -/
theorem roundtrip (z : Zoned) (hz : ZInv z) (hs : TStrict z.utc.time) (Y : Int) (o : Nat)
    (hw : WallDate z Y o) (hr : 0 ≤ Y ∧ Y ≤ 9999) (hoff : z.off % 60 = 0) :
    Rfc2822.roundtrip z = .ok (.ok (.ok (truncSecs z))) := by
  obtain ⟨h1, h2, h3⟩ := fieldsOf_facts z hz hs Y o hw hr hoff
  obtain ⟨z', p1, p2⟩ := reader_accepts_spec _ _ (std_in_grammar _ h1) h2
  have := denotation_unique _ z' (truncSecs z) p2 h3
  subst this
  unfold Rfc2822.roundtrip
  rw [writer_shape_whole_minute z hz Y o hw hr hoff]
  simp only [p1]

/-- non-vacuity of `writer_shape` / `roundtrip`: the leap second 2016-12-31T23:59:60.5Z seen at +05:30
(wall clock 2017-01-01, day 1) meets every hypothesis; a value at −00:00:20 shows `-0000` -/
example : ZInv ⟨⟨dateOfYo 2016 366, ⟨86399, 1500000000⟩⟩, 19800⟩ ∧
    TStrict (⟨86399, 1500000000⟩ : Time) ∧
    WallDate ⟨⟨dateOfYo 2016 366, ⟨86399, 1500000000⟩⟩, 19800⟩ 2017 1 ∧
    shownZone (-20) = [45, 48, 48, 48, 48] ∧ shownZone 86380 = [43, 50, 52, 48, 48] := by
  unfold WallDate
  decide +kernel

/-- **roundtrip_inband_leap** (the complementary case of `roundtrip`).  A well-formed value that carries
the leap-second representation (nanosecond field ≥ 10⁹) on a second OTHER than :59 of a minute — only
`with_nanosecond` builds it — with wall-clock year 0–9999 and a whole-minute offset: the writer shows
`second + 1` (≤ 59), and `parse_from_rfc2822(&z.to_rfc2822())` is `Ok` of the FOLLOWING whole second
(`nextSec z`): same offset, instant `+1 s` in whole seconds, no sub-second part, no leap flag.  There
is no range caveat: the following second lies on the same UTC day (`secs % 60 ≠ 59` gives
`secs + 1 < 86400`), so the result is always a well-formed in-range value — the call never yields `Err`.
(Confirmed on the real crate: 2020-05-17T12:30:15 + 1.5 s at +01:00 → `Sun, 17 May 2020 13:30:16 +0100`
→ 13:30:16+01:00.)  The in-band value's instant is `secs + frac/10⁹ ≥ secs + 1`, so this IS "the same
instant to whole seconds" (`readBack_whole_seconds`). -/
theorem roundtrip_inband_leap (z : Zoned) (hz : ZInv z) (hl : InbandLeap z) (Y : Int) (o : Nat)
    (hw : WallDate z Y o) (hr : 0 ≤ Y ∧ Y ≤ 9999) (hoff : z.off % 60 = 0) :
    ∃ z', Rfc2822.roundtrip z = .ok (.ok (.ok z')) ∧ z' = nextSec z ∧ ZInv z' ∧ z'.off = z.off ∧
      instSecs z'.utc = instSecs z.utc + 1 ∧ z'.utc.time.frac = 0 := by
  obtain ⟨h1, h2, h3⟩ := fieldsOf_facts_inband z hz hl Y o hw hr hoff
  obtain ⟨z', p1, p2⟩ := reader_accepts_spec _ _ (std_in_grammar _ h1) h2
  have := denotation_unique _ z' (nextSec z) p2 h3
  subst this
  obtain ⟨n1, n2, n3, n4, _⟩ := nextSec_facts z hz hl
  refine ⟨nextSec z, ?_, rfl, n1, n4, n2, n3⟩
  unfold Rfc2822.roundtrip
  rw [writer_shape_whole_minute z hz Y o hw hr hoff]
  simp only [p1]

/-- the split is exhaustive: a well-formed value is constructor-built (`TStrict`, hypothesis of
`roundtrip`) exactly when it is not an in-band leap value (hypothesis of `roundtrip_inband_leap`) -/
theorem strict_or_inband (z : Zoned) (hz : ZInv z) : TStrict z.utc.time ↔ ¬ InbandLeap z := by
  obtain ⟨⟨_, hv⟩, _⟩ := hz
  unfold TStrict InbandLeap
  constructor
  · rintro ⟨_, h⟩; omega
  · intro h; exact ⟨hv, by omega⟩

/-- **roundtrip_all** (the property's round-trip clause on its WHOLE quantifier domain).  For every
well-formed value — any nanosecond field the type allows, the in-band leap representation included —
with wall-clock year 0–9999 and a whole-minute offset, `parse_from_rfc2822(&z.to_rfc2822())` is `Ok
(readBack z)`: never a panic, never `Err`; the same offset; `z` to whole seconds, a leap second on :59
kept, an in-band leap value read as the following second. -/
theorem roundtrip_all (z : Zoned) (hz : ZInv z) (Y : Int) (o : Nat)
    (hw : WallDate z Y o) (hr : 0 ≤ Y ∧ Y ≤ 9999) (hoff : z.off % 60 = 0) :
    Rfc2822.roundtrip z = .ok (.ok (.ok (readBack z))) := by
  unfold readBack
  by_cases hl : InbandLeap z
  · rw [if_pos hl]
    obtain ⟨z', h, rfl, _⟩ := roundtrip_inband_leap z hz hl Y o hw hr hoff
    exact h
  · rw [if_neg hl]
    exact roundtrip z hz ((strict_or_inband z hz).mpr hl) Y o hw hr hoff

/-- **readBack_whole_seconds** (what `readBack` means, against the instant scale only).  Counting the
nanosecond field's overflow as one more second (`instSecs + frac / 10⁹`: chrono's reading of its leap
representation), `readBack z` is the same whole second as `z`, has no sub-second part, the same
offset and is well formed; and it is a leap-second value exactly when `z` is one on second :59. -/
theorem readBack_whole_seconds (z : Zoned) (hz : ZInv z) :
    instSecs (readBack z).utc + (readBack z).utc.time.frac / 1000000000 =
      instSecs z.utc + z.utc.time.frac / 1000000000 ∧
    (readBack z).utc.time.frac % 1000000000 = 0 ∧ (readBack z).off = z.off ∧ ZInv (readBack z) ∧
    ((readBack z).utc.time.frac ≥ 1000000000 ↔ (z.utc.time.frac ≥ 1000000000 ∧ z.utc.time.secs % 60 = 59)) := by
  unfold readBack
  by_cases hl : InbandLeap z
  · rw [if_pos hl]
    obtain ⟨n1, n2, n3, n4, _⟩ := nextSec_facts z hz hl
    obtain ⟨⟨_, _, _, f0, f1⟩, _⟩ := hz
    obtain ⟨l1, l2⟩ := hl
    refine ⟨by rw [n2, n3]; omega, by rw [n3]; rfl, n4, n1, by rw [n3]; omega⟩
  · rw [if_neg hl]
    obtain ⟨⟨hd, t0, t1, f0, f1⟩, ho⟩ := hz
    unfold InbandLeap at hl
    refine ⟨?_, ?_, rfl, ⟨⟨hd, t0, t1, ?_, ?_⟩, ho⟩, ?_⟩
    all_goals (unfold truncSecs; (try unfold instSecs); dsimp only; split <;> omega)

/-- non-vacuity of `roundtrip_inband_leap` / `roundtrip_all`: 2020-05-17T12:30:15 carrying 1.5 s in
its nanosecond field, seen at +01:00, meets every hypothesis; it reads back as 12:30:16 UTC -/
example : ZInv ⟨⟨dateOfYo 2020 138, ⟨45015, 1500000000⟩⟩, 3600⟩ ∧
    InbandLeap ⟨⟨dateOfYo 2020 138, ⟨45015, 1500000000⟩⟩, 3600⟩ ∧
    WallDate ⟨⟨dateOfYo 2020 138, ⟨45015, 1500000000⟩⟩, 3600⟩ 2020 138 ∧
    readBack ⟨⟨dateOfYo 2020 138, ⟨45015, 1500000000⟩⟩, 3600⟩ = ⟨⟨dateOfYo 2020 138, ⟨45016, 0⟩⟩, 3600⟩ := by
  unfold WallDate
  decide +kernel

/-! ## the same writer reached through the `Fixed::RFC2822` item -/

/-- **item_shape.**  `dt.format_with_items([Item::Fixed(Fixed::RFC2822)])` written into a `String`
(`DelayedFormat::write_to`), for EVERY well-formed zone-aware value with wall-clock date `(Y, o)`: the
same text as `writer_shape` states for `to_rfc2822` — `Www, D Mon YYYY HH:MM:SS ` of the wall-clock
fields (second 60 for a leap second) followed by `shownZone z.off` — when the wall-clock year is in
0–9999; otherwise `Err(fmt::Error)` (`.ok none`), never a panic and never a text. -/
theorem item_shape (z : Zoned) (hz : ZInv z) (Y : Int) (o : Nat) (hw : WallDate z Y o) :
    Rfc2822.format_item_rfc2822 z =
      if 0 ≤ Y ∧ Y ≤ 9999 then .ok (some (stdHead (fieldsOf z Y o) ++ shownZone z.off)) else .ok none :=
  format_item_shape z hz Y o hw

/-- **item_form.**  The item form and the method agree on every well-formed value: the item writes
exactly the text `to_rfc2822` returns, and fails with `fmt::Error` exactly where `to_rfc2822` panics
(its `expect` on that very error). -/
theorem item_form (z : Zoned) (hz : ZInv z) :
    Rfc2822.format_item_rfc2822 z =
      match Rfc2822.to_rfc2822 z with
      | .ok t => .ok (some t)
      | .panic => .ok none := by
  obtain ⟨Y, o, hw⟩ := wallDate_exists z hz
  rw [item_shape z hz Y o hw, writer_shape z hz Y o hw]
  by_cases hr : 0 ≤ Y ∧ Y ≤ 9999
  · rw [if_pos hr, if_pos hr]
  · rw [if_neg hr, if_neg hr]

/-- DEFINITIONAL (`rfl`: it restates the dispatch of the model `Format.format_item`, it is not a statement
about a value or an item list — those are `item_in_list` / `item_in_list_read` below): one `write_to` step
for the item on a wall-clock reading `l` at offset `off`, any zone name attached, is `write_rfc2822 l off` -/
theorem item_step (l : NaiveDT) (name : List Nat) (off : Int) :
    Format.format_item (some l.date) (some l.time) (some (name, off)) (.fixed .rfc2822) =
      Format.write_rfc2822 l off := rfl

/-- non-vacuity / kernel evaluation of the item form: the leap second 2016-12-31T23:59:60.5Z at +05:30
is written with second 60 (the text of `writer_shape_samples`); 9999-12-31T23:59:59Z at +00:01 (wall-clock
year 10000) is `Err`, not a panic -/
example :
    Rfc2822.format_item_rfc2822 ⟨⟨dateOfYo 2016 366, ⟨86399, 1500000000⟩⟩, 19800⟩
      = .ok (some (stdText ⟨some .sun, 1, 1, 2017, 5, 29, some 60, 19800⟩)) ∧
    Rfc2822.format_item_rfc2822 ⟨⟨dateOfYo 9999 365, ⟨86399, 0⟩⟩, 60⟩ = .ok none := by
  decide +kernel

/-- **writer_shape_samples** (kernel evaluation of the writer model on boundary values, not a
universal statement): 1970-01-01T00:00Z shown at +01:00; the leap second 2016-12-31T23:59:60Z shown at
+05:30 (next day, second 60 kept); the first and the last second the format can show (year 0000 at
+00:00, 9999-12-31 at −23:59); outside years 0–9999 the call panics, as documented. -/
theorem writer_shape_samples :
    Rfc2822.to_rfc2822 ⟨⟨dateOfYo 1970 1, ⟨0, 0⟩⟩, 3600⟩
      = .ok (stdText ⟨some .thu, 1, 1, 1970, 1, 0, some 0, 3600⟩) ∧
    Rfc2822.to_rfc2822 ⟨⟨dateOfYo 2016 366, ⟨86399, 1500000000⟩⟩, 19800⟩
      = .ok (stdText ⟨some .sun, 1, 1, 2017, 5, 29, some 60, 19800⟩) ∧
    Rfc2822.to_rfc2822 ⟨⟨dateOfYo 0 1, ⟨0, 999999999⟩⟩, 0⟩
      = .ok (stdText ⟨some .sat, 1, 1, 0, 0, 0, some 0, 0⟩) ∧
    Rfc2822.to_rfc2822 ⟨⟨dateOfYo 9999 365, ⟨86399, 0⟩⟩, -86340⟩
      = .ok (stdText ⟨some .fri, 31, 12, 9999, 0, 0, some 59, -86340⟩) ∧
    Rfc2822.to_rfc2822 ⟨⟨dateOfYo 9999 365, ⟨86399, 0⟩⟩, 60⟩ = .panic ∧
    Rfc2822.to_rfc2822 ⟨⟨dateOfYo 0 1, ⟨0, 0⟩⟩, -60⟩ = .panic := by
  decide +kernel

/-! ## a contradicting day-name is rejected -/

/-- **weekday_mismatch_rejected.**  A string of the grammar whose day-name is not the weekday of its
date is rejected by value (`Err`, never a panic, never a value) — whatever the other fields are, in
or out of any range (no hypothesis on them). -/
theorem weekday_mismatch_rejected (s : List Nat) (f : Fields) (h : Rfc2822 s f)
    (w : Weekday) (hw : f.weekday = some w)
    (hne : (w.toNat : Int) ≠ weekdayOf (dayNum f.year f.month f.day)) :
    ∃ e, Rfc2822.parse_from_rfc2822 s = .ok (.error e) := by
  by_cases hr : SetterRanges f
  · have hm := grammar_month_year s f h
    have hp := inType_parsedOf f hr hm.1 (by omega)
    obtain ⟨e, he⟩ := resolve_weekday_mismatch f hp w hw hne
    refine ⟨e, ?_⟩
    unfold Rfc2822.parse_from_rfc2822
    rw [scanner_complete s f h hr]
    exact he
  · exact out_of_range_rejected s f h hr

/-! ## the year rule -/

/-- **year_rule.**  What a year of 2, 3 or more digits denotes: 00–49 → 2000–2049, 50–99 → 1950–1999,
three digits → 1900 + value, four or more digits (leading zeros included) → the value itself.
(`reader_accepts_spec` returns the value whose year is `yearOf` of the year digits.) -/
theorem year_rule (yy : List Nat) (hd : Digits yy) :
    (yy.length = 2 → decVal yy ≤ 49 → yearOf yy = 2000 + decVal yy) ∧
    (yy.length = 2 → 50 ≤ decVal yy → yearOf yy = 1900 + decVal yy ∧ decVal yy ≤ 99) ∧
    (yy.length = 3 → yearOf yy = 1900 + decVal yy) ∧
    (4 ≤ yy.length → yearOf yy = decVal yy) := by
  unfold yearOf
  refine ⟨fun h2 h49 => ?_, fun h2 h50 => ?_, fun h3 => ?_, fun h4 => ?_⟩
  · rw [if_pos h2, if_pos h49]; omega
  · have := decVal_two yy hd h2
    rw [if_pos h2, if_neg (by omega)]; omega
  · rw [if_neg (by omega), if_pos h3]; omega
  · rw [if_neg (by omega), if_neg (by omega)]

/-! ## zones -/

/-- **zone_names.**  `timezone_offset_2822` reads every zone of the specification — `±HHMM` with
MM < 60, UT, GMT, EST…PDT in any letter case, any single letter but J (as +0000) — consumes exactly
the zone and returns its offset, whatever follows (nothing, white space, a comment). -/
theorem zone_names (zz : List Nat) (off : Int) (h : Zone zz off) (rest : List Nat) (hr : NoAlphaHead rest) :
    Scan.timezone_offset_2822 (zz ++ rest) = .ok (rest, off) := (tz_spec h rest hr).1

/-- **tables_ok** (re-checked on re-extracted data).  The zone table translated from the current
`scan::timezone_offset_2822` source is exactly the specification's table of RFC 2822 §4.3 plus `z`
(the same pairs, nothing else); the byte ranges of its single-letter arm are exactly the letters
other than J and Z; the model's `if` chain reads every table name as its hours; and the day / month
name tables extracted from the source are the specification's. -/
theorem tables_ok :
    (∀ e ∈ zoneTable, e ∈ Extracted.ZONE_2822) ∧
    (∀ e ∈ Extracted.ZONE_2822, e ∈ zoneTable ∨ e = ([122], 0)) ∧
    (∀ c < 256, (∃ r ∈ Extracted.MILITARY_2822, r.1 ≤ c ∧ c ≤ r.2) ↔
      (isAlpha c ∧ lower c ≠ 106 ∧ lower c ≠ 122)) ∧
    (∀ e ∈ Extracted.ZONE_2822, zoneSecs e.1 = some (e.2 * 3600)) ∧
    Extracted.SHORT_WEEKDAYS = dayNames ∧ Extracted.SHORT_MONTHS = monthNames := by
  refine ⟨by decide, by decide, by decide +kernel, by decide, name_tables.1, name_tables.2.1⟩

/-- **zone_names_sound.**  Conversely `timezone_offset_2822` reads NOTHING but the zones of the
specification: whatever it accepts is a zone `zz` of the relation (numeric with MM < 60, a table name,
a single letter other than J) in front of the returned rest, with the returned offset.  With
`zone_names`: the scanner's zones are exactly `Zone`. -/
theorem zone_names_sound (s rest : List Nat) (off : Int) (h : Scan.timezone_offset_2822 s = .ok (rest, off)) :
    ∃ zz, Zone zz off ∧ s = zz ++ rest := tz_inv s rest off h

/-- **obsolete_zone_table.**  The complete table of obsolete zones, on the names re-extracted from
`scan::timezone_offset_2822`: every extracted name in every letter case is read, alone or before white
space / a comment, as its RFC 2822 §4.3 hours (`z` as +0000); every single ASCII letter but `J`/`j` is read
as +0000 (RFC 2822 says −0000 = "unknown"; chrono's offset type has one zero), and `J`, `j` are rejected. -/
theorem obsolete_zone_table :
    (∀ e ∈ Extracted.ZONE_2822, ∀ v, CaseOf e.1 v → ∀ rest, NoAlphaHead rest →
      Scan.timezone_offset_2822 (v ++ rest) = .ok (rest, e.2 * 3600)) ∧
    (∀ c, isAlpha c → lower c ≠ 106 → ∀ rest, NoAlphaHead rest →
      Scan.timezone_offset_2822 (c :: rest) = .ok (rest, 0)) ∧
    (∀ c, lower c = 106 → ∀ rest, NoAlphaHead rest →
      ∀ r off, Scan.timezone_offset_2822 (c :: rest) ≠ .ok (r, off)) := by
  refine ⟨?_, ?_, ?_⟩
  · intro e he v hv rest hr
    rcases tables_ok.2.1 e he with hm | hz
    · exact zone_names v (e.2 * 3600) (Zone.name v e.1 e.2 hm hv) rest hr
    · subst hz
      have hl : v.map lower = [122] := hv
      have hlen : v.length = 1 := by rw [← List.length_map (f := lower), hl]; rfl
      match v, hlen, hl with
      | [c], _, hl =>
        simp only [List.map_cons, List.map_nil, List.cons.injEq, and_true] at hl
        have ha : isAlpha c := lower_alpha c 122 hl (by omega)
        have := zone_names [c] 0 (Zone.military c ha (by omega)) rest hr
        simpa using this
  · intro c ha hj rest hr
    exact zone_names [c] 0 (Zone.military c ha hj) rest hr
  · intro c hj rest hrest r off h
    obtain ⟨zz, hz, hs⟩ := tz_inv (c :: rest) r off h
    have hc : c = 106 ∨ c = 74 := by unfold lower at hj; split at hj <;> omega
    cases hz with
    | num neg h1 h2 m1 m2 _ _ _ _ =>
      have := congrArg List.head? hs
      cases neg <;> simp at this <;> omega
    | name _ nm hours hmem hcase =>
      have hlen : ∀ e ∈ zoneTable, 2 ≤ e.1.length := by decide
      have h2 := hlen _ hmem
      have hl : zz.length = nm.length := by rw [← hcase, List.length_map]
      obtain ⟨_, _, hlow⟩ := zone_table_secs (nm, hours) hmem
      have hal := caseOf_alpha hlow hcase
      match zz, hl, hal with
      | [], hl, _ => simp only [List.length_nil] at hl h2; omega
      | [_], hl, _ => simp only [List.length_cons, List.length_nil] at hl h2; omega
      | x :: y :: t, _, hal =>
        simp only [List.cons_append, List.cons.injEq] at hs
        have hy : isAlpha y := hal y (by simp)
        rcases hrest with h0 | ⟨c', t', h1, h2'⟩
        · rw [h0] at hs; exact absurd hs.2 (by simp)
        · rw [h1] at hs
          simp only [List.cons.injEq] at hs
          rw [hs.2.1] at h2'
          exact h2' hy
    | military c' _ hj' =>
      have : c = c' := by
        have := congrArg List.head? hs
        simpa using this
      subst this
      exact hj' hj

/-! ## white space and comments -/

/-- **white_space_exact.**  What the reader takes as one white-space character (`Scan.wsLen`, the model
of `char::is_whitespace` on UTF-8, used by `trim_start` / `scan::space`) is exactly one of the 25
encodings of the specification's table `WS`, and that table is the UTF-8 encoding of the 25 code points
with the Unicode property `White_Space`. -/
theorem white_space_exact :
    (∀ s, Scan.wsLen s ≠ 0 ↔ ∃ w r, w ∈ WS ∧ s = w ++ r) ∧
    (∀ w ∈ WS, ∀ r, Scan.wsLen (w ++ r) = w.length ∧ 0 < w.length) ∧
    WS = WS_CODEPOINTS.map utf8Enc ∧ WS_CODEPOINTS.length = 25 ∧ WS_CODEPOINTS.Nodup := by
  refine ⟨fun s => ⟨fun h => ?_, fun h => ?_⟩, fun w hw r => wsLen_ws w hw r, by decide, by decide, by decide⟩
  · obtain ⟨w, r, hw, hs, _⟩ := wsLen_inv s h
    exact ⟨w, r, hw, hs⟩
  · obtain ⟨w, r, hw, rfl⟩ := h
    have := wsLen_ws w hw r
    omega

/-- **comment_exact.**  `scan::comment_2822` accepts exactly `*S "(" ctext ")"` of the specification —
any bytes but parentheses and backslash, `\` followed by any byte (an escaped parenthesis does not
nest or close), nested comments — and returns what follows the closing parenthesis. -/
theorem comment_exact (s rest : List Nat) :
    Scan.comment_2822 s = .ok rest ↔ ∃ w a, Ws w ∧ CText a ∧ s = w ++ (40 :: (a ++ 41 :: rest)) := by
  constructor
  · exact comment_inv s rest
  · rintro ⟨w, a, hw, ha, rfl⟩
    exact comment_one hw ha rest

/-- **comment_any_depth.**  There is no nesting limit: `n` comments inside each other are comment text
for every `n`, so `( (( … )) )` of any depth is read as one comment. -/
theorem comment_any_depth (n : Nat) (rest : List Nat) :
    CText (nestText n) ∧ Scan.comment_2822 (40 :: (nestText n ++ 41 :: rest)) = .ok rest := by
  have h : ∀ n, CText (nestText n) := by
    intro n
    induction n with
    | zero => exact CText.nil
    | succ k ih =>
      have := CText.nest (nestText k) [] ih CText.nil
      simpa [nestText] using this
  exact ⟨h n, (comment_exact _ rest).mpr ⟨[], nestText n, Ws.nil, h n, rfl⟩⟩

/-- an escaped closing parenthesis does not close, an escaped opening one does not nest:
`(a\)b\(c)` is one comment; `(a)b)` ends after `a` -/
example : Scan.comment_2822 [40, 97, 92, 41, 98, 92, 40, 99, 41, 120] = .ok [120] ∧
    Scan.comment_2822 [40, 97, 41, 98, 41] = .ok [98, 41] ∧
    nestText 2 = [40, 40, 41, 41] := by decide

/-! ## code re-extracted as data on every run (audit 2, G1 — data-extraction variant) -/

section Tables
open Chrono.Proofs.Rfc2822Table

/-- **year_table_ok** (re-checked on re-extracted data).  The arms of `match (yearlen, year)` of the CURRENT
`parse_rfc2822` source (tools/extractors/rfc2822_rules.py → `Extracted.YEAR_RULE_2822`: digit-count pattern,
year-range pattern, `year += N`), applied Rust-`match`-wise (first matching arm) to the length and the value
of ANY digit string, give the year of the specification's rule `yearOf`: a changed arm (`50..=99 → 2000`),
bound or order breaks this theorem on the next run. -/
theorem year_table_ok (yy : List Nat) (hd : Digits yy) :
    applyYearRule Extracted.YEAR_RULE_2822 yy.length (decVal yy) = yearOf yy := by
  rw [year_rule_model]
  exact year_rule_eq yy hd

/-- the extracted arms are the model's: for every `(yearlen, year)` they compute the `if` chain that stands
in the model `Parse.parse_rfc2822` between `number s 2 none` and `Parsed.set_year`; and the match is total
(the last extracted arm is the wildcard `(_, _)`) -/
theorem year_table_model (yearlen : Nat) (year : Int) :
    applyYearRule Extracted.YEAR_RULE_2822 yearlen year =
      (if yearlen = 2 ∧ 0 ≤ year ∧ year ≤ 49 then year + 2000
       else if yearlen = 2 ∧ 50 ≤ year ∧ year ≤ 99 then year + 1900
       else if yearlen = 3 then year + 1900
       else year) ∧
    ∃ arm ∈ Extracted.YEAR_RULE_2822, armMatches arm yearlen year = true :=
  ⟨year_rule_model yearlen year, (none, none, 0), by decide, rfl⟩

/-- **writer_table_ok** (re-checked on re-extracted data).  The statements of the CURRENT `write_rfc2822`
source — the `0..=9999` guard and, in source order, every `write_str` / `write_char` literal, the
`day < 10` split, `year / 100`, `year % 100`, the `nanosecond() / 1_000_000_000` carried into the seconds,
the four fields of the `OffsetFormat` — interpreted statement by statement over the model's leaf writers,
are the hand-written model `Format.write_rfc2822` on every value: a changed literal, separator, divisor,
bound or statement order in the source breaks this theorem on the next run.  `hundreds_table_ok`: the same
for `write_hundreds` (`n >= 100`, `b'0' + n / 10`, `b'0' + n % 10`). -/
theorem writer_table_ok (dt : NaiveDT) (off : Int) :
    interpWrite Extracted.YEAR_GUARD_2822 Extracted.WRITE_2822 dt off = Format.write_rfc2822 dt off :=
  write_eq dt off

theorem hundreds_table_ok (n : Int) :
    interpHundreds Extracted.WRITE_HUNDREDS n = Format.write_hundreds n := hundreds_eq n

/-- **writer_extracted_shape** (extracted code = specification).  The re-extracted statements of
`write_rfc2822`, run on the wall-clock reading of ANY well-formed value, write exactly the text of
`writer_shape` / `item_shape` (`Www, D Mon YYYY HH:MM:SS ` of the wall-clock fields + the shown zone) inside
years 0–9999 and fail with `fmt::Error` outside. -/
theorem writer_extracted_shape (z : Zoned) (hz : ZInv z) (Y : Int) (o : Nat) (hw : WallDate z Y o) :
    (match Zoned.overflowing_naive_local z with
     | .panic => .panic
     | .ok l => interpWrite Extracted.YEAR_GUARD_2822 Extracted.WRITE_2822 l z.off : Format.W) =
      if 0 ≤ Y ∧ Y ≤ 9999 then .ok (some (stdHead (fieldsOf z Y o) ++ shownZone z.off)) else .ok none := by
  rw [← format_item_shape z hz Y o hw, format_item_eq]
  cases Zoned.overflowing_naive_local z with
  | panic => rfl
  | ok l => exact write_eq l z.off

/-- non-vacuity: the extracted year rule on `03`, `50`, `103`, `0654`; the extracted statements on the leap
second 2016-12-31T23:59:60.5 read at the wall clock of +05:30 -/
example : applyYearRule Extracted.YEAR_RULE_2822 2 3 = 2003 ∧ applyYearRule Extracted.YEAR_RULE_2822 2 50 = 1950 ∧
    applyYearRule Extracted.YEAR_RULE_2822 3 103 = 2003 ∧ applyYearRule Extracted.YEAR_RULE_2822 4 654 = 654 ∧
    interpWrite Extracted.YEAR_GUARD_2822 Extracted.WRITE_2822 ⟨dateOfYo 2017 1, ⟨19799, 1500000000⟩⟩ 19800
      = .ok (some (stdText ⟨some .sun, 1, 1, 2017, 5, 29, some 60, 19800⟩)) := by
  decide +kernel

/-- **gen_wall_date_fields** (generated code = specification, for the writer's date accessors).  The code
that tools/extractors/rust2lean.py translates from the CURRENT source of `NaiveDate::{year, month, day,
weekday}` (`Chrono.Gen.naive_date.*`, tied to the model by `Props/GenDate.gen_*_eq`), run on the wall-clock
reading `overflowing_naive_local()` of ANY well-formed value, returns exactly the year, month, day and
day-name that `writer_shape` shows (`fieldsOf z Y o`): composition of `gen_year_eq` / `gen_month_eq` /
`gen_day_eq` / `gen_weekday_eq` with C01's calendar theorems and C04's wall-clock reading. -/
theorem gen_wall_date_fields (z : Zoned) (hz : ZInv z) (Y : Int) (o : Nat) (hw : WallDate z Y o) :
    ∃ l, Zoned.overflowing_naive_local z = .ok l ∧
      Gen.naive_date.NaiveDate.year l.date.yof = (fieldsOf z Y o).year ∧
      Gen.naive_date.NaiveDate.month l.date.yof = .ok ((fieldsOf z Y o).month : Int) ∧
      Gen.naive_date.NaiveDate.day l.date.yof = .ok ((fieldsOf z Y o).day : Int) ∧
      ∃ n : Nat, Gen.naive_date.NaiveDate.weekday l.date.yof = .ok n ∧
        weekdays[n]? = (fieldsOf z Y o).weekday := by
  obtain ⟨l, h1, h2, ⟨_, _, v3, v4⟩, _⟩ := wall_reading z hz Y o hw
  have hyl := Chrono.Proofs.yearLen_ge Y
  obtain ⟨fy, _⟩ := Chrono.Proofs.dateOfYo_fields Y o (by omega)
  obtain ⟨hm, hd, _⟩ := Chrono.Proofs.month_day_spec Y o v3 v4
  have hwd := Chrono.Proofs.weekday_spec Y o (by omega)
  refine ⟨l, h1, ?_, ?_, ?_, (dateOfYo Y o).weekday.toNat, ?_, ?_⟩
  · rw [Chrono.Props.GenDate.gen_year_eq, h2, fy]; rfl
  · rw [Chrono.Props.GenDate.gen_month_eq, h2, hm]; rfl
  · rw [Chrono.Props.GenDate.gen_day_eq, h2, hd]; rfl
  · rw [Chrono.Props.GenDate.gen_weekday_eq, h2]
  · show weekdays[(dateOfYo Y o).weekday.toNat]? = weekdayAt (dayNumYo Y o)
    unfold weekdayAt
    rw [← hwd, Int.toNat_natCast]

end Tables

/-! ## the `Fixed::RFC2822` item inside a longer item list (audit 2, G2) -/

/-- **item_in_list** (writing).  `dt.format_with_items(pre ++ [Fixed::RFC2822] ++ post)` with `pre`, `post`
made of `Literal` / `Space` items, written into a `String`, for EVERY well-formed value with wall-clock date
`(Y, o)`: the literal text of `pre`, the text of `writer_shape`, the literal text of `post` — inside years
0–9999; `Err(fmt::Error)` for the whole list outside (never a panic, never a partial text observed). -/
theorem item_in_list (z : Zoned) (hz : ZInv z) (Y : Int) (o : Nat) (hw : WallDate z Y o)
    (pre post : List Item) (hpre : LitsOnly pre) (hpost : LitsOnly post) :
    Rfc2822.format_with_items z (pre ++ [.fixed .rfc2822] ++ post) =
      if 0 ≤ Y ∧ Y ≤ 9999 then
        .ok (some (litText pre ++ (stdHead (fieldsOf z Y o) ++ shownZone z.off) ++ litText post))
      else .ok none := by
  rw [format_in_list z pre post hpre hpost, item_shape z hz Y o hw]
  by_cases hr : 0 ≤ Y ∧ Y ≤ 9999
  · rw [if_pos hr, if_pos hr]
  · rw [if_neg hr, if_neg hr]

/-- the single item is the list form with nothing around it -/
theorem item_single_is_list (z : Zoned) : Rfc2822.format_item_rfc2822 z = Rfc2822.format_with_items z [.fixed .rfc2822] := rfl

/-- **item_in_list_read** (reading).  `parse(&mut parsed, a ++ s ++ b, [Literal(a), Fixed::RFC2822, Literal(b)])`
followed by `to_datetime`, for ANY literal `a`, any string `s` of the grammar whose fields are inside the setter
ranges, and any literal `b` that starts neither with an ASCII letter nor with a comment (`*S "("` — the item
reads trailing comments greedily): the result is that of `parse_from_rfc2822 s` — the same value, or the same
resolution error. -/
theorem item_in_list_read (s : List Nat) (f : Fields) (h : Rfc2822 s f) (hr : SetterRanges f)
    (a b : List Nat) (hb : NoAlphaHead b) (hcb : ∃ e, Scan.comment_2822 b = .error e) :
    Rfc2822.parse_items_to_datetime (a ++ (s ++ b)) [.literal a, .fixed .rfc2822, .literal b] =
      Rfc2822.parse_from_rfc2822 s := by
  have h1 : Parse.parse Parsed.new (a ++ (s ++ b)) [.literal a, .fixed .rfc2822, .literal b] = .ok (parsedOf f) := by
    unfold Parse.parse
    rw [parse_internal_lit, Parse.parse_internal]
    simp only [parse_rfc2822_complete_rest s f h hr b hb hcb]
    have := parse_internal_lit (parsedOf f) b [] []
    rw [List.append_nil] at this
    rw [this, Parse.parse_internal]
  unfold Rfc2822.parse_items_to_datetime Rfc2822.parse_from_rfc2822
  rw [h1, scanner_complete s f h hr]

/-- hence, for valid fields: the value they denote -/
theorem item_in_list_read_valid (s : List Nat) (f : Fields) (h : Rfc2822 s f) (hv : Valid f)
    (a b : List Nat) (hb : NoAlphaHead b) (hcb : ∃ e, Scan.comment_2822 b = .error e) :
    ∃ z, Rfc2822.parse_items_to_datetime (a ++ (s ++ b)) [.literal a, .fixed .rfc2822, .literal b] = .ok (.ok z) ∧
      Denotes f z := by
  obtain ⟨z, hz, hd⟩ := reader_accepts_spec s f h hv
  exact ⟨z, by rw [item_in_list_read s f h (setterRanges_of_valid f hv) a b hb hcb, hz], hd⟩

/-- a `Literal` in front of the item, ANY text `s` (in or out of the grammar), any further items: accepted,
rejected and read exactly as without it -/
theorem item_behind_literal (a s : List Nat) (rest : List Item) :
    Rfc2822.parse_items_to_datetime (a ++ s) (.literal a :: rest) = Rfc2822.parse_items_to_datetime s rest := by
  unfold Rfc2822.parse_items_to_datetime Parse.parse
  rw [parse_internal_lit]

/-- non-vacuity: `<` … `>` around an item (`>` starts neither a letter nor a comment); `[Literal "<", RFC2822,
Literal ">"]` are literal items around the item -/
example : NoAlphaHead [62] ∧ (∃ e, Scan.comment_2822 [62] = .error e) ∧
    LitsOnly [.literal [60]] ∧ litText [.literal [60], .space [32]] = [60, 32] :=
  ⟨Or.inr ⟨62, [], rfl, by decide⟩, ⟨.invalid, by decide⟩,
   fun it hi => by simp at hi; exact Or.inl ⟨[60], hi⟩, rfl⟩

/-! ## what `Valid` excludes at the end of the range, and the in-band leap instant (audit 2, G3 / G4) -/

/-- **wall_year_beyond_max_rejected.**  `Valid` asks for a wall-clock year ≤ `MAX_YEAR` (the wall-clock date
is built as a `NaiveDate` before the offset is subtracted).  A string of the grammar with a larger year is
rejected by value — ALSO when the instant it denotes and its offset are representable (`1 Jan 262143 00:00
+0001` = UTC 262142-12-31T23:59, a legal `DateTime<FixedOffset>`; example below; the real crate:
`Err(OutOfRange)`).  The property's "denoted instant" clauses (`reader_accepts_spec`, `reader_sound`) are
silent on such strings by this exclusion; this theorem says what happens instead. -/
theorem wall_year_beyond_max_rejected (s : List Nat) (f : Fields) (h : Rfc2822 s f)
    (hy : Extracted.MAX_YEAR < f.year) : ∃ e, Rfc2822.parse_from_rfc2822 s = .ok (.error e) :=
  invalid_rejected s f h (fun hv => by have := hv.2.1; omega)

/-- `1 Jan 262143 00:00 +0001` -/
def exEdge : List Nat :=
  [49, 32, 74, 97, 110, 32, 50, 54, 50, 49, 52, 51, 32, 48, 48, 58, 48, 48, 32, 43, 48, 48, 48, 49]
def exEdgeFields : Fields := ⟨none, 1, 1, 262143, 0, 0, none, 60⟩

/-- the hypotheses of `wall_year_beyond_max_rejected` on that string; its instant is in range, its offset
valid, the value it would denote (UTC 262142-12-31T23:59:00 at +00:01) is well formed — and the reader
rejects it -/
example : Rfc2822 exEdge exEdgeFields ∧ Extracted.MAX_YEAR < exEdgeFields.year ∧
    InRangeSecs (localSecs exEdgeFields - exEdgeFields.off) ∧ OffValid exEdgeFields.off ∧
    ZInv ⟨⟨dateOfYo 262142 365, ⟨86340, 0⟩⟩, 60⟩ ∧
    ∃ e, Rfc2822.parse_from_rfc2822 exEdge = .ok (.error e) := by
  have hg : Rfc2822 exEdge exEdgeFields := ?_
  · exact ⟨hg, by decide +kernel, by decide +kernel, by decide +kernel, by decide +kernel,
      wall_year_beyond_max_rejected exEdge exEdgeFields hg (by decide +kernel)⟩
  exact ⟨[], [], [], [49], [32], [74, 97, 110], [32], [50, 54, 50, 49, 52, 51], [32], [48, 48], [],
    [], [48, 48], [], [32], [43, 48, 48, 48, 49], [],
    Ws.nil, Or.inl ⟨rfl, rfl⟩, Ws.nil, by decide, Or.inl rfl, by decide,
    ws1_sp, ⟨0, by decide, by decide, rfl⟩, ws1_sp, by decide, by decide, by decide, ws1_sp,
    by decide, rfl, by decide, Ws.nil, Ws.nil, by decide, rfl, by decide,
    Or.inl ⟨rfl, rfl⟩, ws1_sp,
    Zone.num false 48 48 48 49 (by decide) (by decide) (by decide) (by decide), Comments.nil, rfl⟩

/-- **inband_timestamp** (what "the same instant" means for the in-band leap representation).  In chrono's
own whole-second scale (`DateTime::timestamp()` = `instSecs`), the value read back from the text of an in-band
leap value is ONE SECOND LATER than the original; for every other value it is the same second.  The round-trip
theorems count the nanosecond field's overflow as that second (`readBack_whole_seconds`). -/
theorem inband_timestamp (z : Zoned) (hz : ZInv z) :
    instSecs (readBack z).utc = instSecs z.utc + (if InbandLeap z then 1 else 0) := by
  unfold readBack
  by_cases hl : InbandLeap z
  · rw [if_pos hl, if_pos hl]
    exact (nextSec_facts z hz hl).2.1
  · rw [if_neg hl, if_neg hl]
    unfold truncSecs instSecs
    simp

/-! ## non-vacuity: concrete strings of the grammar with valid fields -/

/-- `Tue, 1 Jul 2003 10:52:37 +0200` (the rustdoc example of `to_rfc2822`) -/
def exStd : List Nat :=
  [84, 117, 101, 44, 32, 49, 32, 74, 117, 108, 32, 50, 48, 48, 51, 32, 49, 48, 58, 53, 50, 58, 51, 55, 32,
   43, 48, 50, 48, 48]
def exStdFields : Fields := ⟨some .tue, 1, 7, 2003, 10, 52, some 37, 7200⟩

/-- an obsolete form: no day-name, two-digit year, no seconds, runs of white space (TAB, U+00A0,
U+3000), a zone name in mixed case, a nested comment with escapes:
`␠1␉jUL␠␠03 10 : 52 eSt (a(b\)) c\\)` -/
def exObs : List Nat :=
  [32, 49, 9, 106, 85, 76, 32, 32, 48, 51, 194, 160, 49, 48, 32, 58, 227, 128, 128, 53, 50, 32, 101, 83, 116,
   32, 40, 97, 40, 98, 92, 41, 41, 32, 99, 92, 92, 41]
def exObsFields : Fields := ⟨none, 1, 7, 2003, 10, 52, none, -18000⟩

example : Rfc2822 exStd exStdFields ∧ Valid exStdFields := by
  refine ⟨⟨[], [84, 117, 101, 44], [32], [49], [32], [74, 117, 108], [32], [50, 48, 48, 51], [32], [49, 48], [],
    [], [53, 50], [58, 51, 55], [32], [43, 48, 50, 48, 48], [],
    Ws.nil, Or.inr ⟨1, [84, 117, 101], by decide, by decide, rfl, rfl⟩, ws_sp, by decide, Or.inl rfl, by decide,
    ws1_sp, ⟨6, by decide, by decide, rfl⟩, ws1_sp, by decide, by decide, by decide, ws1_sp,
    by decide, rfl, by decide, Ws.nil, Ws.nil, by decide, rfl, by decide,
    Or.inr ⟨[], [51, 55], Ws.nil, by decide, rfl, rfl, rfl⟩, ws1_sp,
    Zone.num false 48 50 48 48 (by decide) (by decide) (by decide) (by decide), Comments.nil, rfl⟩, ?_⟩
  unfold Valid
  decide

example : Rfc2822 exObs exObsFields ∧ Valid exObsFields := by
  refine ⟨⟨[32], [], [], [49], [9], [106, 85, 76], [32, 32], [48, 51], [194, 160], [49, 48], [32],
    [227, 128, 128], [53, 50], [], [32], [101, 83, 116], [32, 40, 97, 40, 98, 92, 41, 41, 32, 99, 92, 92, 41],
    ws_sp, Or.inl ⟨rfl, rfl⟩, Ws.nil, by decide, Or.inl rfl, by decide,
    ⟨[9], [], by decide, Ws.nil, rfl⟩, ⟨6, by decide, by decide, rfl⟩,
    ⟨[32], [32], by decide, ws_sp, rfl⟩, by decide, by decide, by decide,
    ⟨[194, 160], [], by decide, Ws.nil, rfl⟩,
    by decide, rfl, by decide, ws_sp, Ws.cons [227, 128, 128] [] (by decide) Ws.nil, by decide, rfl, by decide,
    Or.inl ⟨rfl, rfl⟩, ws1_sp, (show Zone [101, 83, 116] (-18000) from
      (by decide : (-5 : Int) * 3600 = -18000) ▸ Zone.name [101, 83, 116] [101, 115, 116] (-5) (by decide) (by decide)),
    Comments.cons [32] [97, 40, 98, 92, 41, 41, 32, 99, 92, 92] [] ws_sp
      (CText.char 97 _ (by decide) (by decide) (by decide)
        (CText.nest [98, 92, 41] [32, 99, 92, 92]
          (CText.char 98 _ (by decide) (by decide) (by decide) (CText.esc 41 [] CText.nil))
          (CText.char 32 _ (by decide) (by decide) (by decide)
            (CText.char 99 _ (by decide) (by decide) (by decide) (CText.esc 92 [] CText.nil)))))
      Comments.nil, rfl⟩, ?_⟩
  unfold Valid
  decide

/-- a contradicting day-name: `Mon, 1 Jul 2003 10:52:37 +0200` (that day is a Tuesday) is a string of
the grammar and meets the hypotheses of `weekday_mismatch_rejected` -/
def exMon : List Nat :=
  [77, 111, 110, 44, 32, 49, 32, 74, 117, 108, 32, 50, 48, 48, 51, 32, 49, 48, 58, 53, 50, 58, 51, 55, 32,
   43, 48, 50, 48, 48]
example : Rfc2822 exMon { exStdFields with weekday := some .mon } ∧
    SetterRanges { exStdFields with weekday := some .mon } ∧
    ((Weekday.mon.toNat : Int) ≠ weekdayOf (dayNum 2003 7 1)) := by
  refine ⟨⟨[], [77, 111, 110, 44], [32], [49], [32], [74, 117, 108], [32], [50, 48, 48, 51], [32], [49, 48], [],
    [], [53, 50], [58, 51, 55], [32], [43, 48, 50, 48, 48], [],
    Ws.nil, Or.inr ⟨0, [77, 111, 110], by decide, by decide, rfl, rfl⟩, ws_sp, by decide, Or.inl rfl, by decide,
    ws1_sp, ⟨6, by decide, by decide, rfl⟩, ws1_sp, by decide, by decide, by decide, ws1_sp,
    by decide, rfl, by decide, Ws.nil, Ws.nil, by decide, rfl, by decide,
    Or.inr ⟨[], [51, 55], Ws.nil, by decide, rfl, rfl, rfl⟩, ws1_sp,
    Zone.num false 48 50 48 48 (by decide) (by decide) (by decide) (by decide), Comments.nil, rfl⟩, ?_, ?_⟩
  · unfold SetterRanges; decide
  · decide

/-- a contradicting day-name on fields OUTSIDE the setter ranges: `Mon, 32 Jul 2003 24:52:37 +0200` is a
string of the grammar (day 32, hour 24), meets the hypotheses of `weekday_mismatch_rejected` and of
`out_of_range_rejected` -/
def exBad : List Nat :=
  [77, 111, 110, 44, 32, 51, 50, 32, 74, 117, 108, 32, 50, 48, 48, 51, 32, 50, 52, 58, 53, 50, 58, 51, 55, 32,
   43, 48, 50, 48, 48]
def exBadFields : Fields := ⟨some .mon, 32, 7, 2003, 24, 52, some 37, 7200⟩
example : Rfc2822 exBad exBadFields ∧ ¬ SetterRanges exBadFields ∧
    ((Weekday.mon.toNat : Int) ≠ weekdayOf (dayNum 2003 7 32)) := by
  refine ⟨⟨[], [77, 111, 110, 44], [32], [51, 50], [32], [74, 117, 108], [32], [50, 48, 48, 51], [32], [50, 52], [],
    [], [53, 50], [58, 51, 55], [32], [43, 48, 50, 48, 48], [],
    Ws.nil, Or.inr ⟨0, [77, 111, 110], by decide, by decide, rfl, rfl⟩, ws_sp, by decide, Or.inr rfl, by decide,
    ws1_sp, ⟨6, by decide, by decide, rfl⟩, ws1_sp, by decide, by decide, by decide, ws1_sp,
    by decide, rfl, by decide, Ws.nil, Ws.nil, by decide, rfl, by decide,
    Or.inr ⟨[], [51, 55], Ws.nil, by decide, rfl, rfl, rfl⟩, ws1_sp,
    Zone.num false 48 50 48 48 (by decide) (by decide) (by decide) (by decide), Comments.nil, rfl⟩, ?_, ?_⟩
  · unfold SetterRanges; decide
  · decide

/-- the year rule on concrete digit strings: `03` → 2003, `50` → 1950, `103` → 2003, `0654` → 654 -/
example : yearOf [48, 51] = 2003 ∧ yearOf [53, 48] = 1950 ∧ yearOf [49, 48, 51] = 2003 ∧
    yearOf [48, 54, 53, 52] = 654 ∧ yearOf [48, 50, 48, 50, 52] = 2024 := by decide

/-- zones: `-0330`, `pDt`, the military letter `k`; `J` is no zone of the specification -/
example : Zone [45, 48, 51, 51, 48] (-12600) ∧ Zone [112, 68, 116] (-25200) ∧ Zone [107] 0 :=
  ⟨Zone.num true 48 51 51 48 (by decide) (by decide) (by decide) (by decide),
   (by decide : (-7 : Int) * 3600 = -25200) ▸ Zone.name [112, 68, 116] [112, 100, 116] (-7) (by decide) (by decide),
   Zone.military 107 (by decide) (by decide)⟩

end Chrono.Props.C11
