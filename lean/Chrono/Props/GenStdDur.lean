/-
  C06 / C07 (and C03 / C08), code translation tie for the `core::time::Duration` conversions and operators:
  `TimeDelta::from_std`, `TimeDelta::to_std` (src/time_delta.rs), `impl Add<Duration> / Sub<Duration> for NaiveTime`
  (src/naive/time/mod.rs — the bodies the std-Duration finding of C07 lived in), `impl Add/Sub<TimeDelta> for
  NaiveTime`, `impl Add/Sub<Duration>` and `impl Add/Sub<TimeDelta>` for `NaiveDateTime` (src/naive/datetime/mod.rs)
  and for `DateTime<FixedOffset>` (src/datetime/mod.rs, the generic impl read at `Tz = FixedOffset`), as regenerated
  from the Rust source text on every run (tools/extractors/rust2lean.py, lean/Chrono/Extracted/Gen.lean), equal the
  hand-written models (Model/Delta.lean, Model/Time.lean, Model/ArithOps.lean).  `core::time::Duration` is built into
  the translator as the pair `(secs : u64, nanos : u32)` with std's `Duration::new / as_secs / subsec_nanos`
  (`Gen.core_time.Duration.*`); the hypothesis `StdDur` is its type invariant (`nanos < 10^9`).  A `Result<T, E>` of
  the source is a `GenRt.Result`; the models return an `Option` (they do not distinguish error values: the only
  error value of `OutOfRangeError(())` is `()`), `resOpt` maps one to the other.
-/
import Chrono.Props.GenTime
import Chrono.Props.GenDateTime
import Chrono.Props.GenZoned
import Chrono.Proofs.TimestampL

namespace Chrono.Props.GenStdDur
open Chrono Chrono.M Chrono.Extracted Chrono.Proofs.GenL Chrono.Proofs.GenTimeL
open Chrono.Props.GenDateTime Chrono.Props.GenZoned

/-- the machine ranges and the type invariant of a `core::time::Duration` -/
def StdDur (secs nanos : Int) : Prop := (0 ≤ secs ∧ secs ≤ 18446744073709551615) ∧ (0 ≤ nanos ∧ nanos < 1000000000)

/-- the generated value of a `core::time::Duration` -/
abbrev sG (secs nanos : Int) : Gen.core_time.Duration := ⟨secs, nanos⟩

/-- the model's `Option` as a `Result<_, OutOfRangeError>` -/
def resOpt {α β} (f : α → β) : Option α → GenRt.Result β Unit
  | some a => .ok (f a)
  | none => .err ()

/-! ### `TimeDelta::from_std`, `TimeDelta::to_std` -/

theorem gen_from_std_eq (secs nanos : Int) (h : StdDur secs nanos) :
    Gen.time_delta.TimeDelta.from_std (sG secs nanos) = resOpt dG (Delta.from_std secs nanos) := by
  unfold Gen.time_delta.TimeDelta.from_std Delta.from_std Gen.core_time.Duration.as_secs
    Gen.core_time.Duration.subsec_nanos
  have hM : Delta.MAX.secs = 9223372036854775 := rfl
  obtain ⟨⟨h1, h2⟩, h3, h4⟩ := h
  dsimp only
  rw [hM]
  by_cases hs : secs > 9223372036854775
  · rw [if_pos hs, if_pos hs]; rfl
  · rw [if_neg hs, if_neg hs, Proofs.Ts.asI64_id (by omega) (by omega), GenDelta.gen_new_eq secs nanos h3 (by omega)]
    cases Delta.new secs nanos <;> rfl

/-- the generated `Duration::new` on a nanosecond part below one second: no carry, no panic -/
theorem dur_new_ok (secs nanos : Int) (h : nanos < 1000000000) :
    Gen.core_time.Duration.new secs nanos = .ok (sG secs nanos) := by
  unfold Gen.core_time.Duration.new; rw [if_pos h]

/-- `to_std`, under the type invariant of `TimeDelta` (`0 ≤ nanos < 10^9`) and the `i64` range of `secs` -/
theorem gen_to_std_eq (d : Delta) (hs : -9223372036854775808 ≤ d.secs ∧ d.secs ≤ 9223372036854775807)
    (hn : 0 ≤ d.nanos ∧ d.nanos < 1000000000) :
    Gen.time_delta.TimeDelta.to_std (dG d) = .ok (resOpt (fun p : Int × Int => sG p.1 p.2) (Delta.to_std d)) := by
  unfold Gen.time_delta.TimeDelta.to_std Delta.to_std
  dsimp only
  by_cases h0 : d.secs < 0
  · rw [if_pos h0, if_pos h0]; rfl
  · rw [if_neg h0, if_neg h0]
    have e1 : GenRt.asU64 d.secs = d.secs := by unfold GenRt.asU64; omega
    have e2 : asU32 d.nanos = d.nanos := Proofs.asU32_id (by omega) (by omega)
    rw [e1, e2, dur_new_ok _ _ hn.2]; rfl

/-! ### `NaiveTime ± core::time::Duration` (and `± TimeDelta`) -/

theorem gen_time_add_eq (t : Time) (rhs : Delta) (hd : DFields rhs) :
    Gen.naive_time.NaiveTime.Add_TimeDelta.add (tG t) (dG rhs) = rmap tG (Time.add t rhs) := by
  unfold Gen.naive_time.NaiveTime.Add_TimeDelta.add Time.add
  rw [GenTime.gen_overflowing_add_signed_eq t rhs hd]
  cases Time.overflowing_add_signed t rhs <;> rfl

theorem gen_time_sub_eq (t : Time) (rhs : Delta) :
    Gen.naive_time.NaiveTime.Sub_TimeDelta.sub (tG t) (dG rhs) = rmap tG (Time.sub t rhs) := by
  unfold Gen.naive_time.NaiveTime.Sub_TimeDelta.sub Time.sub
  rw [GenTime.gen_overflowing_sub_signed_eq t rhs]
  cases Time.overflowing_sub_signed t rhs <;> rfl

/-- a `Delta` built by `Delta.new` has fields in the machine ranges -/
theorem new_fields {s n : Int} {d : Delta} (h : Delta.new s n = some d)
    (hs : -9223372036854775808 ≤ s ∧ s ≤ 9223372036854775807) (hn : -2147483648 ≤ n ∧ n ≤ 2147483647) :
    DFields d := by
  unfold Delta.new at h
  split at h
  · exact absurd h (by simp)
  · cases h; exact ⟨hs, hn⟩

/-- the `u64` reduction of the seconds, as the generated code computes it, is the model's `std_reduce` -/
theorem std_reduce_range (secs : Int) (h : 0 ≤ secs) : 0 ≤ Time.std_reduce secs ∧ Time.std_reduce secs < 172800 := by
  unfold Time.std_reduce; split <;> omega

theorem gen_time_add_std_eq (t : Time) (secs nanos : Int) (h : StdDur secs nanos) :
    Gen.naive_time.NaiveTime.Add_Duration.add (tG t) (sG secs nanos) = rmap tG (Time.add_std t secs nanos) := by
  obtain ⟨⟨h1, h2⟩, h3, h4⟩ := h
  have hr := std_reduce_range secs h1
  have key : ∀ s : Int, s = Time.std_reduce secs →
      (match Gen.time_delta.TimeDelta.new (asI64 s) nanos with
        | some d => Res.bind (Gen.naive_time.NaiveTime.overflowing_add_signed (tG t) d) fun r => .ok r.1
        | none => .panic) = rmap tG (Time.add_std t secs nanos) := by
    intro s hs
    unfold Time.add_std
    rw [hs, Proofs.Ts.asI64_id (by omega) (by omega), GenDelta.gen_new_eq _ nanos h3 (by omega)]
    cases hn : Delta.new (Time.std_reduce secs) nanos with
    | none => rfl
    | some d =>
      have hd := new_fields hn (by omega) (by omega)
      show Res.bind (Gen.naive_time.NaiveTime.overflowing_add_signed (tG t) (dG d)) _ = _
      rw [GenTime.gen_overflowing_add_signed_eq t d hd]
      unfold Time.add
      dsimp only
      generalize Time.overflowing_add_signed t d = r
      cases r <;> rfl
  unfold Gen.naive_time.NaiveTime.Add_Duration.add Gen.core_time.Duration.as_secs Gen.core_time.Duration.subsec_nanos
  dsimp only
  by_cases hge : secs ≥ 86400
  · rw [if_pos hge]
    have e : ckU64 (secs % 86400 + 86400) = .ok (secs % 86400 + 86400) := Proofs.Ts.ckU64_ok (by omega) (by omega)
    rw [e]
    exact key _ (by unfold Time.std_reduce; rw [if_pos hge])
  · rw [if_neg hge]
    exact key _ (by unfold Time.std_reduce; rw [if_neg hge])

theorem gen_time_sub_std_eq (t : Time) (secs nanos : Int) (h : StdDur secs nanos) :
    Gen.naive_time.NaiveTime.Sub_Duration.sub (tG t) (sG secs nanos) = rmap tG (Time.sub_std t secs nanos) := by
  obtain ⟨⟨h1, h2⟩, h3, h4⟩ := h
  have hr := std_reduce_range secs h1
  have key : ∀ s : Int, s = Time.std_reduce secs →
      (match Gen.time_delta.TimeDelta.new (asI64 s) nanos with
        | some d => Res.bind (Gen.naive_time.NaiveTime.overflowing_sub_signed (tG t) d) fun r => .ok r.1
        | none => .panic) = rmap tG (Time.sub_std t secs nanos) := by
    intro s hs
    unfold Time.sub_std
    rw [hs, Proofs.Ts.asI64_id (by omega) (by omega), GenDelta.gen_new_eq _ nanos h3 (by omega)]
    cases hn : Delta.new (Time.std_reduce secs) nanos with
    | none => rfl
    | some d =>
      show Res.bind (Gen.naive_time.NaiveTime.overflowing_sub_signed (tG t) (dG d)) _ = _
      rw [GenTime.gen_overflowing_sub_signed_eq t d]
      unfold Time.sub
      dsimp only
      generalize Time.overflowing_sub_signed t d = r
      cases r <;> rfl
  unfold Gen.naive_time.NaiveTime.Sub_Duration.sub Gen.core_time.Duration.as_secs Gen.core_time.Duration.subsec_nanos
  dsimp only
  by_cases hge : secs ≥ 86400
  · rw [if_pos hge]
    have e : ckU64 (secs % 86400 + 86400) = .ok (secs % 86400 + 86400) := Proofs.Ts.ckU64_ok (by omega) (by omega)
    rw [e]
    exact key _ (by unfold Time.std_reduce; rw [if_pos hge])
  · rw [if_neg hge]
    exact key _ (by unfold Time.std_reduce; rw [if_neg hge])

/-! ### `NaiveDateTime ± TimeDelta`, `NaiveDateTime ± core::time::Duration` -/

theorem gen_ndt_add_eq (dt : NaiveDT) (rhs : Delta) (hd : DateOk dt.date) (hr : DFields rhs) :
    Gen.naive_datetime.NaiveDateTime.Add_TimeDelta.add (ndtG dt) (dG rhs) = rmap ndtG (NaiveDT.add dt rhs) := by
  unfold Gen.naive_datetime.NaiveDateTime.Add_TimeDelta.add NaiveDT.add expectSome
  rw [GenDateTime.gen_checked_add_signed_eq dt rhs hd hr]
  cases NaiveDT.checked_add_signed dt rhs with
  | panic => rfl
  | ok o => cases o <;> rfl

theorem gen_ndt_sub_eq (dt : NaiveDT) (rhs : Delta) (hd : DateOk dt.date) :
    Gen.naive_datetime.NaiveDateTime.Sub_TimeDelta.sub (ndtG dt) (dG rhs) = rmap ndtG (NaiveDT.sub dt rhs) := by
  unfold Gen.naive_datetime.NaiveDateTime.Sub_TimeDelta.sub NaiveDT.sub expectSome
  rw [GenDateTime.gen_checked_sub_signed_eq dt rhs hd]
  cases NaiveDT.checked_sub_signed dt rhs with
  | panic => rfl
  | ok o => cases o <;> rfl

/-- a `Delta` produced by `from_std` has fields in the machine ranges -/
theorem from_std_fields {secs nanos : Int} {d : Delta} (h : StdDur secs nanos) (hd : Delta.from_std secs nanos = some d) :
    DFields d := by
  obtain ⟨⟨h1, h2⟩, h3, h4⟩ := h
  unfold Delta.from_std at hd
  have hM : Delta.MAX.secs = 9223372036854775 := rfl
  rw [hM] at hd
  split at hd
  · exact absurd hd (by simp)
  · exact new_fields hd (by omega) (by omega)

theorem gen_ndt_add_std_eq (dt : NaiveDT) (secs nanos : Int) (hd : DateOk dt.date) (h : StdDur secs nanos) :
    Gen.naive_datetime.NaiveDateTime.Add_Duration.add (ndtG dt) (sG secs nanos)
      = rmap ndtG (NaiveDT.add_std dt secs nanos) := by
  unfold Gen.naive_datetime.NaiveDateTime.Add_Duration.add NaiveDT.add_std
  rw [gen_from_std_eq secs nanos h]
  cases hf : Delta.from_std secs nanos with
  | none => rfl
  | some d =>
    have e := gen_ndt_add_eq dt d hd (from_std_fields h hf)
    unfold Gen.naive_datetime.NaiveDateTime.Add_TimeDelta.add at e
    exact e

theorem gen_ndt_sub_std_eq (dt : NaiveDT) (secs nanos : Int) (hd : DateOk dt.date) (h : StdDur secs nanos) :
    Gen.naive_datetime.NaiveDateTime.Sub_Duration.sub (ndtG dt) (sG secs nanos)
      = rmap ndtG (NaiveDT.sub_std dt secs nanos) := by
  unfold Gen.naive_datetime.NaiveDateTime.Sub_Duration.sub NaiveDT.sub_std
  rw [gen_from_std_eq secs nanos h]
  cases hf : Delta.from_std secs nanos with
  | none => rfl
  | some d =>
    have e := gen_ndt_sub_eq dt d hd
    unfold Gen.naive_datetime.NaiveDateTime.Sub_TimeDelta.sub at e
    exact e

/-! ### `DateTime<FixedOffset> ± TimeDelta`, `± core::time::Duration` (the generic impls read at `Tz = FixedOffset`) -/

theorem gen_zoned_add_eq (z : Zoned) (rhs : Delta) (hd : DateOk z.utc.date) (hr : DFields rhs) :
    Gen.datetime.DateTime_FixedOffset.Add_TimeDelta.add (zF z) (dG rhs) = rmap zF (Zoned.add z rhs) := by
  unfold Gen.datetime.DateTime_FixedOffset.Add_TimeDelta.add Zoned.add expectSome
  rw [GenZoned.gen_checked_add_signed_eq z rhs hd hr]
  cases Zoned.checked_add_signed z rhs with
  | panic => rfl
  | ok o => cases o <;> rfl

theorem gen_zoned_sub_eq (z : Zoned) (rhs : Delta) (hd : DateOk z.utc.date) :
    Gen.datetime.DateTime_FixedOffset.Sub_TimeDelta.sub (zF z) (dG rhs) = rmap zF (Zoned.sub z rhs) := by
  unfold Gen.datetime.DateTime_FixedOffset.Sub_TimeDelta.sub Zoned.sub expectSome
  rw [GenZoned.gen_checked_sub_signed_eq z rhs hd]
  cases Zoned.checked_sub_signed z rhs with
  | panic => rfl
  | ok o => cases o <;> rfl

theorem gen_zoned_add_std_eq (z : Zoned) (secs nanos : Int) (hd : DateOk z.utc.date) (h : StdDur secs nanos) :
    Gen.datetime.DateTime_FixedOffset.Add_Duration.add (zF z) (sG secs nanos)
      = rmap zF (Zoned.add_std z secs nanos) := by
  unfold Gen.datetime.DateTime_FixedOffset.Add_Duration.add Zoned.add_std
  rw [gen_from_std_eq secs nanos h]
  cases hf : Delta.from_std secs nanos with
  | none => rfl
  | some d =>
    have e := gen_zoned_add_eq z d hd (from_std_fields h hf)
    unfold Gen.datetime.DateTime_FixedOffset.Add_TimeDelta.add at e
    exact e

theorem gen_zoned_sub_std_eq (z : Zoned) (secs nanos : Int) (hd : DateOk z.utc.date) (h : StdDur secs nanos) :
    Gen.datetime.DateTime_FixedOffset.Sub_Duration.sub (zF z) (sG secs nanos)
      = rmap zF (Zoned.sub_std z secs nanos) := by
  unfold Gen.datetime.DateTime_FixedOffset.Sub_Duration.sub Zoned.sub_std
  rw [gen_from_std_eq secs nanos h]
  cases hf : Delta.from_std secs nanos with
  | none => rfl
  | some d =>
    have e := gen_zoned_sub_eq z d hd
    unfold Gen.datetime.DateTime_FixedOffset.Sub_TimeDelta.sub at e
    exact e

/-- non-vacuity: the largest convertible duration, the first that is not; `to_std` of a negative and of a
non-negative delta; a leap second 23:59:60.5 + 86400 s is 23:59:59.5 (the repair of the std-Duration finding: a day is added as a day, not as 0 s, which would leave the leap second in place);
the built-in `Duration::new` carries whole seconds out of the nanoseconds and panics when that overflows -/
example : Gen.time_delta.TimeDelta.from_std (sG 9223372036854775 807000000) = .ok ⟨9223372036854775, 807000000⟩
    ∧ Gen.time_delta.TimeDelta.from_std (sG 9223372036854775 807000001) = .err ()
    ∧ Gen.time_delta.TimeDelta.from_std (sG 9223372036854776 0) = .err ()
    ∧ Gen.time_delta.TimeDelta.to_std ⟨-1, 999999999⟩ = .ok (.err ())
    ∧ Gen.time_delta.TimeDelta.to_std ⟨5, 7⟩ = .ok (.ok (sG 5 7))
    ∧ Gen.naive_time.NaiveTime.Add_Duration.add ⟨86399, 1500000000⟩ (sG 86400 0) = .ok ⟨86399, 500000000⟩
    ∧ Gen.naive_time.NaiveTime.Add_Duration.add ⟨86399, 1500000000⟩ (sG 1 0) = .ok ⟨0, 500000000⟩
    ∧ Gen.naive_time.NaiveTime.Sub_Duration.sub ⟨0, 0⟩ (sG 18446744073709551615 1) = .ok ⟨61184, 999999999⟩
    ∧ Gen.core_time.Duration.new 1 2500000000 = .ok (sG 3 500000000)
    ∧ Gen.core_time.Duration.new 18446744073709551615 1000000000 = .panic := by decide +kernel

end Chrono.Props.GenStdDur
