/-
  C08, second part (audit2/C08.md, round 2, 2026-09-30).  Same namespace as Props/C08.lean.

  * the leap-representation-off-:59 behaviour of `with_second` / `with_nanosecond`, one and two levels up
    (`NaiveDateTime`, `DateTime<FixedOffset/Utc>`) — lead decision: an OBSERVATION, not a finding: the
    quantifier's values include "leap-second representations on any second" (`TValid`), for which the clause
    "nothing if no such time exists" is proved (`time_with_field_spec`); for the constructors' narrower notion
    the exact deviation set is `time_with_field_off59` and the two theorems below;
  * the `as u32` of `DateTime::years_since`;
  * the zone-aware forms in one statement each (wall clock → calendar meaning substituted);
  * `NaiveDate` theorems restated over `(d : Date) (hd : DateInv d)` with closure (results are again in the
    domain);
  * the week's first / last day named through the user-visible accessor `weekday`;
  * END-TO-END compositions "generated code = specification": the definitions tools/extractors/rust2lean.py
    regenerates from the Rust source text on every run (lean/Chrono/Extracted/Gen.lean), applied to the packed
    word of any date of the range, return the packed word of the specification's answer
    (Props/GenDateOps.lean, Props/GenDateTime.lean, Props/GenTime.lean: generated code = model; Props/C08.lean:
    model = specification).
-/
import Chrono.Props.C08

namespace Chrono.Props.C08
open Chrono Chrono.M Chrono.Spec Chrono.Proofs Chrono.Proofs.ZN Chrono.Proofs.DTO Chrono.Extracted
  Chrono.Extracted.DateOps Chrono.Proofs.MOps Chrono.Proofs.TStrictL

/-! ### the off-:59 observation, `NaiveDateTime` and `DateTime` forms -/

/-- `NaiveDateTime::with_second / with_nanosecond` on the deviation set of `time_with_field_off59`, every date
part (no hypothesis on it), every constructor-built time of day: the date is kept and the time is the old
`secs` / `frac` with the one field replaced — a value whose four fields `from_hms_nano_opt` (`ctorTime`)
refuses and that is not constructor-valid (it is `TValid`); no panic -/
theorem naive_dt_with_field_off59 (dt : NaiveDT) (ht : TStrict dt.time) (v : Int) (hv : 0 ≤ v) :
    (1000000000 ≤ dt.time.frac → v < 59 →
      dt.with_second v = .ok (some ⟨dt.date, ⟨dt.time.secs / 60 * 60 + v, dt.time.frac⟩⟩) ∧
      ctorTime dt.time.hour dt.time.minute v dt.time.nanosecond = none ∧
      ¬ TStrict ⟨dt.time.secs / 60 * 60 + v, dt.time.frac⟩ ∧ TValid ⟨dt.time.secs / 60 * 60 + v, dt.time.frac⟩) ∧
    (1000000000 ≤ v → v < 2000000000 → dt.time.secs % 60 ≠ 59 →
      dt.with_nanosecond v = .ok (some ⟨dt.date, ⟨dt.time.secs, v⟩⟩) ∧
      ctorTime dt.time.hour dt.time.minute dt.time.second v = none ∧
      ¬ TStrict ⟨dt.time.secs, v⟩ ∧ TValid ⟨dt.time.secs, v⟩) := by
  obtain ⟨a, b⟩ := time_with_field_off59 dt.time ht v hv
  obtain ⟨⟨h1, h2, h3, h4⟩, _⟩ := ht
  refine ⟨fun x y => ?_, fun x y z => ?_⟩
  · obtain ⟨a1, a2, a3⟩ := a x y
    refine ⟨?_, a2, a3, ?_⟩
    · unfold NaiveDT.with_second NaiveDT.mapTime; rw [a1]; rfl
    · unfold TValid; dsimp only; omega
  · obtain ⟨b1, b2, b3⟩ := b x y z
    refine ⟨?_, b2, b3, ?_⟩
    · unfold NaiveDT.with_nanosecond NaiveDT.mapTime; rw [b1]; rfl
    · unfold TValid; dsimp only; omega

/-- `DateTime<FixedOffset>::with_second / with_nanosecond` (`DateTime<Utc>`: offset 0), every well-formed value
(sub-minute offsets included), wall clock `l`: the replacement acts on the WALL clock, so the deviation set is
the one of `time_with_field_off59` read on `l.time` — a leap representation on `l` and `v < 59`, resp. a
leap-range nanosecond while `l` is not on second :59: the naive result is `l` with the one field replaced, the
zone-aware result is that reading at the same offset (`ActsOnWall`: kept iff its instant lies in
`MIN_UTC ..= MAX_UTC`), and `from_hms_nano_opt` (`ctorTime`) refuses the four fields.  And a value need not
have gone through `with_*` to be "off :59" on the wall: the wall second is `(utc second + offset) mod 60`, so a
constructor-valid UTC leap second (second :59) viewed at an offset that is not a whole number of minutes
already reads as a leap representation off second :59 (`¬ TStrict l.time`). -/
theorem zoned_with_field_off59 (z : Zoned) (hz : ZInv z) (v : Int) (hv : 0 ≤ v) :
    ∃ l, Zoned.overflowing_naive_local z = .ok l ∧ ExtNDTInv l ∧ instSecs l = wallSecs z ∧
      l.time.frac = z.utc.time.frac ∧ l.time.secs % 60 = (z.utc.time.secs + z.off) % 60 ∧
      (1000000000 ≤ l.time.frac → v < 59 → ∃ r,
        Zoned.with_second z v = .ok r ∧
        ActsOnWall z (some ⟨l.date, ⟨l.time.secs / 60 * 60 + v, l.time.frac⟩⟩) r ∧
        ctorTime l.time.hour l.time.minute v l.time.nanosecond = none) ∧
      (1000000000 ≤ v → v < 2000000000 → l.time.secs % 60 ≠ 59 → ∃ r,
        Zoned.with_nanosecond z v = .ok r ∧ ActsOnWall z (some ⟨l.date, ⟨l.time.secs, v⟩⟩) r ∧
        ctorTime l.time.hour l.time.minute l.time.second v = none) ∧
      (TStrict z.utc.time → 1000000000 ≤ z.utc.time.frac → z.off % 60 ≠ 0 → ¬ TStrict l.time) := by
  obtain ⟨l, h1, h2, h3, h4, _⟩ := naive_local_spec z hz
  obtain ⟨_, _, t3, t4⟩ := zoned_time_ops z hz l h1 v hv
  obtain ⟨f1, f2, f3, f4⟩ := fields_eq l.time h2.2
  obtain ⟨k1, k2, k3, k4⟩ := h2.2
  have hsec : l.time.secs % 60 = (z.utc.time.secs + z.off) % 60 := by
    have := h3; unfold wallSecs instSecs at this; omega
  refine ⟨l, h1, h2, h3, h4, hsec, ?_, ?_, ?_⟩
  · intro a b
    obtain ⟨r0, r, e0, e, act⟩ := t3
    refine ⟨r, e, ?_, ?_⟩
    · have : r0 = some ⟨l.date, ⟨l.time.secs / 60 * 60 + v, l.time.frac⟩⟩ := by
        unfold NaiveDT.with_second NaiveDT.mapTime Time.with_second at e0
        rw [if_neg (by omega)] at e0
        injection e0 with e0; exact e0.symm
      rw [← this]; exact act
    · rw [f1, f2, f4]; unfold ctorTime; rw [if_neg (by unfold okFields; omega)]
  · intro a b c
    obtain ⟨r0, r, e0, e, act⟩ := t4
    refine ⟨r, e, ?_, ?_⟩
    · have : r0 = some ⟨l.date, ⟨l.time.secs, v⟩⟩ := by
        unfold NaiveDT.with_nanosecond NaiveDT.mapTime Time.with_nanosecond at e0
        rw [if_neg (by omega)] at e0
        injection e0 with e0; exact e0.symm
      rw [← this]; exact act
    · rw [f1, f2, f3]; unfold ctorTime; rw [if_neg (by unfold okFields; omega)]
  · intro hs hf ho hc
    obtain ⟨_, hs2⟩ := hs
    obtain ⟨_, hc2⟩ := hc
    omega

/-! ### the `as u32` cast of `DateTime::years_since` -/

/-- the count `DateTime::years_since` returns fits `u32`: `0 ≤ k ≤ 524287` (the wall-clock years lie in
`MIN_YEAR − 1 ..= MAX_YEAR + 1`), so the final `years as u32` — not modelled, `r : Option Int` — is the
identity; every pair of well-formed zone-aware values, each at its own offset.  (The largest value reached is
524286, one more than for dates: see the example below.) -/
theorem datetime_years_since_fits_u32 (z b : Zoned) (hz : ZInv z) (hb : ZInv b) :
    ∀ k, Zoned.years_since z b = .ok (some k) → 0 ≤ k ∧ k ≤ 524287 ∧ asU32 k = k := by
  intro k hk
  obtain ⟨l1, l0, r, a1, b1, _, _, _, _, _, _, hy, hw, _⟩ := datetime_years_since_spec z b hz hb
  obtain ⟨_, x2, _⟩ := naive_local_spec z hz
  obtain ⟨_, y2, _⟩ := naive_local_spec b hb
  rw [hy] at hk
  injection hk with hk
  have hW := (hw k).mp hk
  obtain ⟨l1', a1', e1, _⟩ := naive_local_spec z hz
  obtain ⟨l0', b1', e0, _⟩ := naive_local_spec b hb
  rw [a1] at a1'; injection a1' with a1'; subst a1'
  rw [b1] at b1'; injection b1' with b1'; subst b1'
  obtain ⟨⟨p1, p2, _⟩, _⟩ := e1
  obtain ⟨⟨q1, q2, _⟩, _⟩ := e0
  have hMIN : MIN_YEAR = -262143 := rfl
  have hMAX : MAX_YEAR = 262142 := rfl
  unfold WholeYearsT ymdtLt at hW
  have hb : 0 ≤ k ∧ k ≤ 524287 := by omega
  exact ⟨hb.1, hb.2, asU32_id (by omega) (by omega)⟩

example :
    ZInv ⟨NaiveDT.MAX, 86399⟩ ∧ ZInv ⟨NaiveDT.MIN, -86399⟩ ∧
    Zoned.years_since ⟨NaiveDT.MAX, 86399⟩ ⟨NaiveDT.MIN, -86399⟩ = .ok (some 524286) ∧
    asU32 524286 = 524286 := by decide +kernel

/-- the off-:59 observation one and two levels up: `2016-12-31T23:59:59 + leap` viewed at +00:00:17 reads
`00:00:16 + leap` on the wall (not constructor-valid although the UTC value is); `with_nanosecond(1.5e9)` on a
wall clock at second :07 -/
example :
    TStrict (⟨dateOfYo 2024 60, ⟨7, 0⟩⟩ : NaiveDT).time ∧
    NaiveDT.with_nanosecond ⟨dateOfYo 2024 60, ⟨7, 0⟩⟩ 1500000000 = .ok (some ⟨dateOfYo 2024 60, ⟨7, 1500000000⟩⟩) ∧
    NaiveDT.with_second ⟨dateOfYo 2024 60, ⟨86399, 1500000000⟩⟩ 30 = .ok (some ⟨dateOfYo 2024 60, ⟨86370, 1500000000⟩⟩) ∧
    ZInv ⟨⟨dateOfYo 2016 366, ⟨86399, 1500000000⟩⟩, 17⟩ ∧ TStrict (⟨86399, 1500000000⟩ : Time) ∧
    Zoned.overflowing_naive_local ⟨⟨dateOfYo 2016 366, ⟨86399, 1500000000⟩⟩, 17⟩ =
      .ok ⟨dateOfYo 2017 1, ⟨16, 1500000000⟩⟩ ∧ ¬ TStrict (⟨16, 1500000000⟩ : Time) ∧
    Zoned.with_nanosecond ⟨⟨dateOfYo 2024 60, ⟨0, 0⟩⟩, 7⟩ 1500000000 =
      .ok (some ⟨⟨dateOfYo 2024 60, ⟨0, 1500000000⟩⟩, 7⟩) ∧
    ctorTime 0 0 7 1500000000 = none := by decide +kernel

/-! ### the week's first and last day through the user-visible accessor `weekday` -/

theorem weekday_toNat_inj (a b : Weekday) (h : a.toNat = b.toNat) : a = b := by
  cases a <;> cases b <;> first | rfl | (exact absurd h (by decide))

/-- "starts on the chosen weekday", stated on `NaiveDate::weekday` of the returned dates: for every date of
the range and every first weekday `s`, a first day (checked or `expect`-ing form) falls on `s`, a last day on
`s.pred()`, the first day is `k = daysBack …` days (0 ≤ k ≤ 6) before the date and the last day `6 − k` days
after it (day numbers), so the date lies in the seven-day span -/
theorem week_weekday_spec (y : Int) (o : Nat) (hy : MIN_YEAR ≤ y ∧ y ≤ MAX_YEAR) (ho : 1 ≤ o ∧ o ≤ yearLen y)
    (s : Weekday) :
    (∀ a, ((dateOfYo y o).week s).checked_first_day = .ok (some a) →
      a.weekday = s ∧ ((dateOfYo y o).week s).first_day = .ok a ∧
      ∃ y' o', a = dateOfYo y' o' ∧ (MIN_YEAR ≤ y' ∧ y' ≤ MAX_YEAR) ∧ (1 ≤ o' ∧ o' ≤ yearLen y') ∧
        dayNumYo y o - 6 ≤ dayNumYo y' o' ∧ dayNumYo y' o' ≤ dayNumYo y o) ∧
    (∀ b, ((dateOfYo y o).week s).checked_last_day = .ok (some b) →
      b.weekday = s.pred ∧ ((dateOfYo y o).week s).last_day = .ok b ∧
      ∃ y' o', b = dateOfYo y' o' ∧ (MIN_YEAR ≤ y' ∧ y' ≤ MAX_YEAR) ∧ (1 ≤ o' ∧ o' ≤ yearLen y') ∧
        dayNumYo y o ≤ dayNumYo y' o' ∧ dayNumYo y' o' ≤ dayNumYo y o + 6) ∧
    (∀ a b, ((dateOfYo y o).week s).checked_days = .ok (some (a, b)) →
      a.weekday = s ∧ b.weekday = s.pred ∧ ((dateOfYo y o).week s).days = .ok (a, b)) := by
  obtain ⟨rf, rl, hf, hl, hk, hwd, sf, sl, hcd, hfd, hld, hdd⟩ := week_spec y o hy ho s
  have hs7 := weekday_toNat_lt s
  have first : ∀ a, rf = some a → a.weekday = s ∧
      ∃ y' o', a = dateOfYo y' o' ∧ (MIN_YEAR ≤ y' ∧ y' ≤ MAX_YEAR) ∧ (1 ≤ o' ∧ o' ≤ yearLen y') ∧
        dayNumYo y o - 6 ≤ dayNumYo y' o' ∧ dayNumYo y' o' ≤ dayNumYo y o := by
    intro a ha
    obtain ⟨y', o', e, y1, y2, o1, o2, hn⟩ := sf.2 a ha
    have hyl := yearLen_ge y'
    have hw := weekday_spec y' o' (by omega)
    refine ⟨?_, y', o', e, ⟨y1, y2⟩, ⟨o1, o2⟩, by omega, by omega⟩
    rw [e]
    apply weekday_toNat_inj
    rw [hn, hwd] at hw
    omega
  have last : ∀ b, rl = some b → b.weekday = s.pred ∧
      ∃ y' o', b = dateOfYo y' o' ∧ (MIN_YEAR ≤ y' ∧ y' ≤ MAX_YEAR) ∧ (1 ≤ o' ∧ o' ≤ yearLen y') ∧
        dayNumYo y o ≤ dayNumYo y' o' ∧ dayNumYo y' o' ≤ dayNumYo y o + 6 := by
    intro b hb
    obtain ⟨y', o', e, y1, y2, o1, o2, hn⟩ := sl.2 b hb
    have hyl := yearLen_ge y'
    have hw := weekday_spec y' o' (by omega)
    refine ⟨?_, y', o', e, ⟨y1, y2⟩, ⟨o1, o2⟩, by omega, by omega⟩
    rw [e]
    apply weekday_toNat_inj
    rw [hn] at hw
    have hp : (s.pred.toNat : Int) = ((s.toNat : Int) + 6) % 7 := by cases s <;> decide
    unfold weekdayOf at hw hwd
    omega
  refine ⟨?_, ?_, ?_⟩
  · intro a ha
    rw [hf] at ha; injection ha with ha
    obtain ⟨w, rest⟩ := first a ha
    refine ⟨w, ?_, rest⟩
    rw [hfd, ha]
  · intro b hb
    rw [hl] at hb; injection hb with hb
    obtain ⟨w, rest⟩ := last b hb
    refine ⟨w, ?_, rest⟩
    rw [hld, hb]
  · intro a b hab
    rw [hcd] at hab; injection hab with hab
    have hrf : rf = some a ∧ rl = some b := by
      unfold bothDays at hab
      cases rf <;> cases rl <;> first | (cases hab; done) | (injection hab with hab; cases hab; exact ⟨rfl, rfl⟩)
    refine ⟨(first a hrf.1).1, (last b hrf.2).1, ?_⟩
    rw [hdd, hab]

/-! ### the `NaiveDate` theorems over `(d : Date) (hd : DateInv d)`, with closure -/

/-- every packed date satisfying the type invariant `DateInv` (year in range, ordinal exists, flags of the
year) IS `dateOfYo d.year d.ordinal` with the hypotheses of the theorems above — so they all apply to it — and
every date returned by month stepping, the seven replacements, the week helpers and `from_weekday_of_month_opt`
satisfies `DateInv` again: results are in the domain, chained operations are covered -/
theorem date_domain_closure (d : Date) (hd : DateInv d) (n v : Nat) (y' : Int) (s w : Weekday) (m k : Nat) :
    (d = dateOfYo d.year d.ordinal.toNat ∧ (MIN_YEAR ≤ d.year ∧ d.year ≤ MAX_YEAR) ∧
      (1 ≤ d.ordinal.toNat ∧ d.ordinal.toNat ≤ yearLen d.year)) ∧
    (∀ r, d.checked_add_months n = .ok (some r) → DateInv r) ∧
    (∀ r, d.checked_sub_months n = .ok (some r) → DateInv r) ∧
    (∀ r, d.with_year y' = .ok (some r) → DateInv r) ∧
    (∀ r, d.with_month v = .ok (some r) → DateInv r) ∧
    (∀ r, d.with_month0 v = .ok (some r) → DateInv r) ∧
    (∀ r, d.with_day v = .ok (some r) → DateInv r) ∧
    (∀ r, d.with_day0 v = .ok (some r) → DateInv r) ∧
    (∀ r, d.with_ordinal v = .ok (some r) → DateInv r) ∧
    (∀ r, d.with_ordinal0 v = .ok (some r) → DateInv r) ∧
    (∀ r, (d.week s).checked_first_day = .ok (some r) → DateInv r) ∧
    (∀ r, (d.week s).checked_last_day = .ok (some r) → DateInv r) ∧
    (∀ r, Date.from_weekday_of_month_opt y' m w k = .ok (some r) → DateInv r) := by
  have he := (dateInv_iff d).mp hd
  obtain ⟨el, vl⟩ := ext_eq d he.1
  have hy : MIN_YEAR ≤ d.year ∧ d.year ≤ MAX_YEAR := he.2
  have ho : 1 ≤ d.ordinal.toNat ∧ d.ordinal.toNat ≤ yearLen d.year := ⟨vl.2.2.1, vl.2.2.2⟩
  have inv_yo : ∀ (y : Int) (o : Nat), MIN_YEAR ≤ y ∧ y ≤ MAX_YEAR → 1 ≤ o ∧ o ≤ yearLen y → DateInv (dateOfYo y o) := by
    intro y o h1 h2
    have hyl := yearLen_ge y
    obtain ⟨f1, f2, _, f4, _, _⟩ := dateOfYo_fields y o (by omega)
    unfold DateInv
    rw [f1, f2, f4]
    exact ⟨h1.1, h1.2, by omega, by omega, rfl⟩
  have inv_ymd : ∀ (y : Int) (m d : Nat) r, ymdDate? y m d = some r → DateInv r := by
    intro y m d r hr
    unfold ymdDate? at hr
    by_cases hc : MIN_YEAR ≤ y ∧ y ≤ MAX_YEAR ∧ validYmd y m d = true
    · rw [if_pos hc] at hr; injection hr with hr; subst hr
      exact inv_yo y _ ⟨hc.1, hc.2.1⟩ (ordinal_bounds_c08 y m d hc.2.2)
    · rw [if_neg hc] at hr; cases hr
  have inv_yod : ∀ (y : Int) (o : Nat) r, yoDate? y o = some r → DateInv r := by
    intro y o r hr
    unfold yoDate? at hr
    by_cases hc : MIN_YEAR ≤ y ∧ y ≤ MAX_YEAR ∧ 1 ≤ o ∧ o ≤ yearLen y
    · rw [if_pos hc] at hr; injection hr with hr; subst hr
      exact inv_yo y o ⟨hc.1, hc.2.1⟩ hc.2.2
    · rw [if_neg hc] at hr; cases hr
  have inv_dn : ∀ (ro : Option Date) (nn : Int) r, IsDateOfDayNum ro nn → ro = some r → DateInv r := by
    intro ro nn r h hr
    obtain ⟨y2, o2, e, a1, a2, a3, a4, _⟩ := h.2 r hr
    rw [e]; exact inv_yo y2 o2 ⟨a1, a2⟩ ⟨a3, a4⟩
  obtain ⟨ma, ms⟩ := months_spec d.year d.ordinal.toNat hy ho n
  obtain ⟨w1, w2, w3, w4, w5, w6, w7⟩ := with_field_spec d.year d.ordinal.toNat hy ho v y'
  obtain ⟨rf, rl, hf, hl, _, _, sf, sl, _⟩ := week_spec d.year d.ordinal.toNat hy ho s
  have hnth := (nth_weekday_spec y' m w k).1
  rw [← el] at ma ms w1 w2 w3 w4 w5 w6 w7 hf hl
  refine ⟨⟨el, hy, ho⟩, ?_, ?_, ?_, ?_, ?_, ?_, ?_, ?_, ?_, ?_, ?_, ?_⟩
  · intro r h; rw [ma] at h; injection h with h; exact inv_ymd _ _ _ r h
  · intro r h; rw [ms] at h; injection h with h; exact inv_ymd _ _ _ r h
  · intro r h; rw [w1] at h; injection h with h; exact inv_ymd _ _ _ r h
  · intro r h; rw [w2] at h; injection h with h; exact inv_ymd _ _ _ r h
  · intro r h; rw [w3] at h; injection h with h; exact inv_ymd _ _ _ r h
  · intro r h; rw [w4] at h; injection h with h; exact inv_ymd _ _ _ r h
  · intro r h; rw [w5] at h; injection h with h; exact inv_ymd _ _ _ r h
  · intro r h; rw [w6] at h; injection h with h; exact inv_yod _ _ r h
  · intro r h; rw [w7] at h; injection h with h; exact inv_yod _ _ r h
  · intro r h; rw [hf] at h; injection h with h; exact inv_dn rf _ r sf h
  · intro r h; rw [hl] at h; injection h with h; exact inv_dn rl _ r sl h
  · intro r h; rw [hnth] at h; injection h with h
    by_cases hk : k = 0
    · rw [if_pos hk] at h; cases h
    · rw [if_neg hk] at h; exact inv_ymd _ _ _ r h

/-! ### the zone-aware forms in one statement (wall clock → calendar meaning substituted) -/

/-- `zoned_ops_spec` with `r0` substituted from `wall_clock_ops_spec` / `with_year_local_spec`: for EVERY
well-formed `DateTime<FixedOffset>` (`DateTime<Utc>`: offset 0; wall clock `l`, possibly in a headroom day) and
every argument, each date-field replacement and month step returns, without panicking, the value at the same
offset whose wall clock is the SPECIFICATION's reading — `(year, v, day)`, `(year, month, v)`, the `v`-th day of
the year (same year, so possibly the headroom year), `yearReading?` for `with_year`, `addMonths?` for month
steps (`Months(0)`: the wall clock itself) — with `l`'s time of day, kept exactly when its instant lies in
`MIN_UTC ..= MAX_UTC` (month steps: is representable); `None` exactly when there is no such reading or it is
filtered -/
theorem zoned_calendar_spec (z : Zoned) (hz : ZInv z) (v k : Nat) (y' : Int) :
    ∃ l, Zoned.overflowing_naive_local z = .ok l ∧ ExtNDTInv l ∧ instSecs l = wallSecs z ∧
      l.time.frac = z.utc.time.frac ∧
      (∃ r, Zoned.with_year z y' = .ok r ∧ ActsOnWall z (yearReading? l y') r) ∧
      (∃ r, Zoned.with_month z v = .ok r ∧
        ActsOnWall z (ymdReading? l.date.year v (dayOfYo l.date.year l.date.ordinal.toNat) l.time) r) ∧
      (∃ r, Zoned.with_month0 z v = .ok r ∧
        ActsOnWall z (ymdReading? l.date.year (v + 1) (dayOfYo l.date.year l.date.ordinal.toNat) l.time) r) ∧
      (∃ r, Zoned.with_day z v = .ok r ∧
        ActsOnWall z (ymdReading? l.date.year (monthOfYo l.date.year l.date.ordinal.toNat) v l.time) r) ∧
      (∃ r, Zoned.with_day0 z v = .ok r ∧
        ActsOnWall z (ymdReading? l.date.year (monthOfYo l.date.year l.date.ordinal.toNat) (v + 1) l.time) r) ∧
      (∃ r, Zoned.with_ordinal z v = .ok r ∧ ActsOnWall z (yoReading? l.date.year v l.time) r) ∧
      (∃ r, Zoned.with_ordinal0 z v = .ok r ∧ ActsOnWall z (yoReading? l.date.year (v + 1) l.time) r) ∧
      (∃ r, Zoned.checked_add_months z k = .ok r ∧
        ActsOnWallWith (fun s _ => InRangeSecs s) z
          ((if k = 0 then some l.date else
            addMonths? l.date.year (monthOfYo l.date.year l.date.ordinal.toNat)
              (dayOfYo l.date.year l.date.ordinal.toNat) k).map fun x => ⟨x, l.time⟩) r) ∧
      (∃ r, Zoned.checked_sub_months z k = .ok r ∧
        ActsOnWallWith (fun s _ => InRangeSecs s) z
          ((if k = 0 then some l.date else
            addMonths? l.date.year (monthOfYo l.date.year l.date.ordinal.toNat)
              (dayOfYo l.date.year l.date.ordinal.toNat) (-(k : Int))).map fun x => ⟨x, l.time⟩) r) := by
  obtain ⟨l, h1, h2, h3, h4, _, z1, z2, z3, z4, z5, z6, z7, z8, z9, _⟩ := zoned_ops_spec z hz v k y' 0 (Int.le_refl 0)
  have hw := wall_clock_ops_spec l h2 v k y'
  dsimp only at hw
  obtain ⟨n8, n9, _, _, _, n2, n3, n4, n5, n6, n7, _⟩ := hw
  obtain ⟨ny, _, _⟩ := with_year_local_spec l h2 y'
  have sub : ∀ {ok : Int → Int → Prop} (x : Res (Option NaiveDT)) (spec : Option NaiveDT) (zr : Res (Option Zoned)),
      x = .ok spec → (∃ r0 r, x = .ok r0 ∧ zr = .ok r ∧ ActsOnWallWith ok z r0 r) →
      ∃ r, zr = .ok r ∧ ActsOnWallWith ok z spec r := by
    intro ok x spec zr hx h
    obtain ⟨r0, r, e0, e, act⟩ := h
    rw [hx] at e0; injection e0 with e0; subst e0
    exact ⟨r, e, act⟩
  exact ⟨l, h1, h2, h3, h4, sub _ _ _ ny z1, sub _ _ _ n2 z2, sub _ _ _ n3 z3, sub _ _ _ n4 z4, sub _ _ _ n5 z5,
    sub _ _ _ n6 z6, sub _ _ _ n7 z7, sub _ _ _ n8 z8, sub _ _ _ n9 z9⟩

/-- a week's first day is on the chosen weekday (accessor), results are `DateInv`, a zone-aware replacement on
a headroom wall clock read through the specification -/
example :
    ((dateOfYo 1970 1).week .sun).checked_first_day = .ok (some (dateOfYo 1969 362)) ∧
    (dateOfYo 1969 362).weekday = .sun ∧ (dateOfYo 1970 3).weekday = Weekday.sun.pred ∧
    DateInv (dateOfYo 2024 60) ∧ DateInv Date.MIN ∧ DateInv Date.MAX ∧ ¬ DateInv Date.AFTER_MAX ∧
    ZInv ⟨NaiveDT.MAX, 3600⟩ ∧
    Zoned.overflowing_naive_local ⟨NaiveDT.MAX, 3600⟩ = .ok ⟨Date.AFTER_MAX, ⟨3599, 999999999⟩⟩ ∧
    yoReading? 262143 1 ⟨3599, 999999999⟩ = some ⟨Date.AFTER_MAX, ⟨3599, 999999999⟩⟩ ∧
    Zoned.with_ordinal ⟨NaiveDT.MAX, 3600⟩ 1 = .ok (some ⟨NaiveDT.MAX, 3600⟩) ∧
    Zoned.with_ordinal ⟨NaiveDT.MAX, 3600⟩ 2 = .ok none := by decide +kernel

end Chrono.Props.C08
