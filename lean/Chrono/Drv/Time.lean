import Chrono.Drv.Util
import Chrono.Model.Time
import Chrono.Model.TimeCarry
namespace Chrono.Drv.Time
open Chrono Chrono.M Chrono.Drv

def showT (t : M.Time) : String := s!"{t.secs} {t.frac}"
def showOT : Option M.Time → String := showOpt showT
def showTC (p : M.Time × Int) : String := s!"{p.1.secs} {p.1.frac} {p.2}"
def showD (d : M.Delta) : String := s!"{d.secs} {d.nanos}"

/-! Boundary-directed duration set for one operand `(secs, frac)`.  The harness
(harness/src/props/c07.rs, `boundary_ns`) builds the same list in the same order as nanosecond
counts; a mismatch between the two lists shows up as a digest disagreement on every line.
Here a duration is written `(s, n)` meaning `s·10^9 + n` ns and normalised by `dn`, which keeps the
numbers small (compiled `Int` arithmetic is only fast below 2^31). -/

def dn (s n : Int) : M.Delta := ⟨s + n / 1000000000, n % 1000000000⟩
def pm (s n : Int) : List M.Delta := [dn s n, dn (-s) (-n)]

/-- the operand-independent part: 0, ±1 ns, ±(1 s ∓ 1 ns), ±1 s, ±(1 s + 1 ns), ±0.5 s, ±(2 s − 1 ns),
±2 s, ±60 s, ±61 s, ±1 day, ±(1 day ∓ 1 ns), ±(1 day − 1 s), ±2 days, the range ends and their
neighbours -/
def fixedDeltas : List M.Delta :=
  [dn 0 0] ++ pm 0 1 ++ pm 0 999999999 ++ pm 1 0 ++ pm 1 1 ++ pm 0 500000000 ++ pm 1 999999999 ++ pm 2 0
    ++ pm 60 0 ++ pm 61 0 ++ pm 86400 0 ++ pm 86399 999999999 ++ pm 86400 1 ++ pm 86399 0 ++ pm 172800 0
    ++ [M.Delta.MAX, M.Delta.MIN, ⟨M.Delta.MAX.secs, M.Delta.MAX.nanos - 1⟩,
        ⟨M.Delta.MIN.secs, M.Delta.MIN.nanos + 1⟩]

def boundaryDeltas (secs frac : Int) : List M.Delta :=
  fixedDeltas
    -- relative to the operand: the start of its second, the next second (:60.0 for a second 59,
    -- start of its own leap second), the one after (:61.0), the previous second; each ±1 ns
    ++ [dn 0 (-frac - 1), dn 0 (-frac), dn 0 (-frac + 1), dn 1 (-frac - 1), dn 1 (-frac), dn 1 (-frac + 1),
        dn 2 (-frac - 1), dn 2 (-frac), dn 2 (-frac + 1), dn (-1) (-frac - 1), dn (-1) (-frac), dn (-1) (-frac + 1)]
    -- relative to the day: midnight forwards and backwards, with and without the skipped second
    ++ [dn (86400 - secs) (-frac - 1), dn (86400 - secs) (-frac), dn (86400 - secs) (-frac + 1),
        dn (86401 - secs) (-frac), dn (-secs) (-frac - 1), dn (-secs) (-frac), dn (-secs) (-frac + 1)]

def P : Int := 2147483647
def PN : Nat := 2147483647
/-- digest step in `Nat` (63-bit scalars), the value reduced in `Int` first -/
@[inline] def mix (m h : Nat) (x : Int) : Nat := (h * m + (x % P).toNat) % PN

def mixTC (h : Nat × Nat) (r : Res (M.Time × Int)) : Nat × Nat :=
  match r with
  | .panic => (mix 48271 h.1 (-1), mix 69621 h.2 (-1))
  | .ok (t, c) =>
    let a := mix 48271 (mix 48271 (mix 48271 h.1 t.secs) t.frac) c
    let b := mix 69621 (mix 69621 (mix 69621 h.2 t.secs) t.frac) c
    (a, b)

/-- digest of `overflowing_add_signed` and `overflowing_sub_signed` over the boundary set -/
def addDigest (secs frac : Int) : String :=
  let t : M.Time := ⟨secs, frac⟩
  let h := (boundaryDeltas secs frac).foldl (fun h d =>
    mixTC (mixTC h (M.Time.overflowing_add_signed t d)) (M.Time.overflowing_sub_signed t d)) (1, 1)
  s!"{h.1} {h.2}"

/-- (audit2 L3) the operand-relative boundaries of `boundaryDeltas` — reach :60.0 / :61.0, the start of the second,
the previous second, each ±1 ns — combined with ±1 and ±2 WHOLE DAYS (the list above has them with zero whole days
only).  Same order as `day_boundary_ns` in harness/src/props/c07.rs: k outermost, then the boundary, then −1/0/+1 ns. -/
def dayBoundaryDeltas (frac : Int) : List M.Delta :=
  [-2, -1, 1, 2].flatMap fun k => [1, 2, 0, -1].flatMap fun b => [-1, 0, 1].map fun e =>
    dn (k * 86400 + b) (-frac + e)

def addkDigest (secs frac : Int) : String :=
  let t : M.Time := ⟨secs, frac⟩
  let h := (dayBoundaryDeltas frac).foldl (fun h d =>
    mixTC (mixTC h (M.Time.overflowing_add_signed t d)) (M.Time.overflowing_sub_signed t d)) (1, 1)
  s!"{h.1} {h.2}"

/-- (audit2 M2) the fixed list of `core::time::Duration` seconds run on EVERY second of the day with a leap-second
operand: k days and k days ± 1 s for k = 1, 2, 3, 1000 (the pinned defect reduced modulo two days), `u64::MAX`,
`i64::MAX as u64 + 1`.  Same order as `STD_SECS` in harness/src/props/c07.rs. -/
def stdSecs : List Int :=
  [86399, 86400, 86401, 172799, 172800, 172801, 259199, 259200, 259201, 86399999, 86400000, 86400001,
   18446744073709551615, 9223372036854775808]

def mixT (h : Nat × Nat) (r : Res M.Time) : Nat × Nat :=
  mixTC h (match r with | .panic => .panic | .ok t => .ok (t, 0))

/-- digest of `impl Add<Duration>` and `impl Sub<Duration>` over `stdSecs` with the given nanosecond part -/
def stdDigest (secs frac nanos : Int) : String :=
  let t : M.Time := ⟨secs, frac⟩
  let h := stdSecs.foldl (fun h ds =>
    mixT (mixT h (M.Time.add_std t ds nanos)) (M.Time.sub_std t ds nanos)) (1, 1)
  s!"{h.1} {h.2}"

def showODT : Option (Int × M.Time) → String
  | some (d, t) => s!"{d} {t.secs} {t.frac}"
  | none => "none"

def handle (op : String) (args : List String) : Option String :=
  match op, args with
  | "tm.hmsn", [h, m, s, n] => some (match ints? [h, m, s, n] with
      | some [h, m, s, n] => showOT (M.Time.from_hms_nano_opt h m s n) | _ => bad)
  | "tm.hms", [h, m, s] => some (match ints? [h, m, s] with
      | some [h, m, s] => showOT (M.Time.from_hms_opt h m s) | _ => bad)
  | "tm.milli", [h, m, s, n] => some (match ints? [h, m, s, n] with
      | some [h, m, s, n] => showOT (M.Time.from_hms_milli_opt h m s n) | _ => bad)
  | "tm.micro", [h, m, s, n] => some (match ints? [h, m, s, n] with
      | some [h, m, s, n] => showOT (M.Time.from_hms_micro_opt h m s n) | _ => bad)
  | "tm.nsfm", [s, n] => some (match ints? [s, n] with
      | some [s, n] => showOT (M.Time.from_num_seconds_from_midnight_opt s n) | _ => bad)
  | "tm.acc", [s, f] => some (match ints? [s, f] with
      | some [s, f] =>
        let t : M.Time := ⟨s, f⟩
        let h12 := t.hour12
        s!"{t.hour} {t.minute} {t.second} {t.nanosecond} {t.num_seconds_from_midnight} {showRes toString t.num_seconds_from_midnight_default} {showBool h12.1} {h12.2}"
      | _ => bad)
  | "tm.with", [s, f, field, v] => some (match ints? [s, f, v] with
      | some [s, f, v] =>
        let t : M.Time := ⟨s, f⟩
        match field with
        | "hour" => showOT (t.with_hour v)
        | "minute" => showOT (t.with_minute v)
        | "second" => showOT (t.with_second v)
        | "nano" => showOT (t.with_nanosecond v)
        | _ => bad
      | _ => bad)
  | "tm.add", [s, f, ds, dn] => some (match ints? [s, f, ds, dn] with
      | some [s, f, ds, dn] => showRes showTC (M.Time.overflowing_add_signed ⟨s, f⟩ ⟨ds, dn⟩) | _ => bad)
  | "tm.sub", [s, f, ds, dn] => some (match ints? [s, f, ds, dn] with
      | some [s, f, ds, dn] => showRes showTC (M.Time.overflowing_sub_signed ⟨s, f⟩ ⟨ds, dn⟩) | _ => bad)
  | "tm.addb", [s, f] => some (match ints? [s, f] with
      | some [s, f] => addDigest s f | _ => bad)
  | "tm.addk", [s, f] => some (match ints? [s, f] with
      | some [s, f] => addkDigest s f | _ => bad)
  | "tm.stdb", [s, f, n] => some (match ints? [s, f, n] with
      | some [s, f, n] => stdDigest s f n | _ => bad)
  | "tm.diff", [s1, f1, s2, f2] => some (match ints? [s1, f1, s2, f2] with
      | some [s1, f1, s2, f2] => showRes showD (M.Time.signed_duration_since ⟨s1, f1⟩ ⟨s2, f2⟩) | _ => bad)
  | "tm.cmp", [s1, f1, s2, f2] => some (match ints? [s1, f1, s2, f2] with
      | some [s1, f1, s2, f2] => toString (M.Time.cmp ⟨s1, f1⟩ ⟨s2, f2⟩) | _ => bad)
  | "tm.off", [s, f, o] => some (match ints? [s, f, o] with
      | some [s, f, o] => showRes showTC (M.Time.overflowing_add_offset ⟨s, f⟩ o) | _ => bad)
  | "tm.offsub", [s, f, o] => some (match ints? [s, f, o] with
      | some [s, f, o] => showRes showTC (M.Time.overflowing_sub_offset ⟨s, f⟩ o) | _ => bad)
  | "tm.addstd", [s, f, ds, dn] => some (match ints? [s, f, ds, dn] with
      | some [s, f, ds, dn] => showRes showT (M.Time.add_std ⟨s, f⟩ ds dn) | _ => bad)
  | "tm.substd", [s, f, ds, dn] => some (match ints? [s, f, ds, dn] with
      | some [s, f, ds, dn] => showRes showT (M.Time.sub_std ⟨s, f⟩ ds dn) | _ => bad)
  | "tm.dtadd", [lo, hi, day, s, f, ds, dn] => some (match ints? [lo, hi, day, s, f, ds, dn] with
      | some [lo, hi, day, s, f, ds, dn] =>
        showRes showODT (M.TimeCarry.checked_add_signed lo hi day ⟨s, f⟩ ⟨ds, dn⟩) | _ => bad)
  | "tm.dtsub", [lo, hi, day, s, f, ds, dn] => some (match ints? [lo, hi, day, s, f, ds, dn] with
      | some [lo, hi, day, s, f, ds, dn] =>
        showRes showODT (M.TimeCarry.checked_sub_signed lo hi day ⟨s, f⟩ ⟨ds, dn⟩) | _ => bad)
  | "tm.dtdiff", [d1, s1, f1, d2, s2, f2] => some (match ints? [d1, s1, f1, d2, s2, f2] with
      | some [d1, s1, f1, d2, s2, f2] =>
        showRes showD (M.TimeCarry.signed_duration_since d1 ⟨s1, f1⟩ d2 ⟨s2, f2⟩) | _ => bad)
  | _, _ => none

end Chrono.Drv.Time
