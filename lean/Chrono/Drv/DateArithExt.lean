/- Driver ops of the C03 audit gaps (prefix `ax.`): length hints as pairs, interleaved iterator
   calls, assign forms, order / equality of zone-aware values. -/
import Chrono.Drv.DateArith
import Chrono.Model.ArithExt
namespace Chrono.Drv.DateArithExt
open Chrono Chrono.M Chrono.Drv Chrono.Drv.DateArith

def showHint (r : Res (Int × Option Int)) : String :=
  match r with
  | .ok (lo, some hi) => s!"{lo} {hi}"
  | .ok (lo, none) => s!"{lo} none"
  | .panic => "panic"

/-- a script `fbbf…` (`f` = next, `b` = next_back) → calls -/
def parseScript (s : String) : Option (List Bool) :=
  s.toList.mapM fun c => if c = 'f' then some false else if c = 'b' then some true else none

/-- per call `lo/hi:item` or `lo/hi:none` (hint taken BEFORE the call), then the hint after the
last call -/
def scriptTrace (next back : M.Date → Res (Option (M.Date × M.Date)))
    (hint : M.Date → Res (Int × Option Int)) : List Bool → M.Date → List String → String
  | [], v, acc =>
    match hint v with
    | .ok (lo, some hi) => joinSp (acc.reverse ++ [s!"{lo}/{hi}"])
    | _ => "panic"
  | b :: rest, v, acc =>
    match hint v, (if b then back v else next v) with
    | .ok (lo, some hi), .ok none => scriptTrace next back hint rest v (s!"{lo}/{hi}:none" :: acc)
    | .ok (lo, some hi), .ok (some (item, v')) =>
      scriptTrace next back hint rest v' (s!"{lo}/{hi}:{item.yof}" :: acc)
    | _, _ => "panic"

def showItems (r : Res (List (Option M.Date))) : String :=
  match r with
  | .ok l => joinSp (l.map fun o => match o with | some d => toString d.yof | none => "none")
  | .panic => "panic"

def handle (op : String) (args : List String) : Option String :=
  match op, args with
  | "ax.hint", [kind, y] => some (match int? y with
      | some y =>
        match kind with
        | "days" => showHint (M.DaysIter.size_hint_pair ⟨y⟩)
        | "weeks" => showHint (M.WeeksIter.size_hint_pair ⟨y⟩)
        | _ => bad
      | none => bad)
  | "ax.mix", [kind, script, y] => some (match parseScript script, int? y with
      | some sc, some y =>
        match kind with
        | "days" => scriptTrace M.DaysIter.next M.DaysIter.next_back M.DaysIter.size_hint_pair sc ⟨y⟩ []
        | "weeks" => scriptTrace M.WeeksIter.next M.WeeksIter.next_back M.WeeksIter.size_hint_pair sc ⟨y⟩ []
        | _ => bad
      | _, _ => bad)
  | "ax.run", [kind, script, y] => some (match parseScript script, int? y with
      | some sc, some y =>
        match kind with
        | "days" => showItems (M.runScript M.DaysIter.next M.DaysIter.next_back sc ⟨y⟩)
        | "weeks" => showItems (M.runScript M.WeeksIter.next M.WeeksIter.next_back sc ⟨y⟩)
        | _ => bad
      | _, _ => bad)
  | "ax.dasg", [sign, y, ds, dn] => some (match ints? [y, ds, dn] with
      | some [y, ds, dn] =>
        match sign with
        | "+" => showRD (M.Date.add_assign ⟨y⟩ ⟨ds, dn⟩)
        | "-" => showRD (M.Date.sub_assign ⟨y⟩ ⟨ds, dn⟩)
        | _ => bad
      | _ => bad)
  | "ax.dtasg", [sign, y, s, f, ds, dn] => some (match ints? [y, s, f, ds, dn] with
      | some [y, s, f, ds, dn] =>
        match sign with
        | "+" => showRes showDT ((mkDT y s f).add_assign ⟨ds, dn⟩)
        | "-" => showRes showDT ((mkDT y s f).sub_assign ⟨ds, dn⟩)
        | _ => bad
      | _ => bad)
  | "ax.dtstdasg", [sign, y, s, f, ds, dn] => some (match ints? [y, s, f, ds, dn] with
      | some [y, s, f, ds, dn] =>
        match sign with
        | "+" => showRes showDT ((mkDT y s f).add_assign_std ds dn)
        | "-" => showRes showDT ((mkDT y s f).sub_assign_std ds dn)
        | _ => bad
      | _ => bad)
  | "ax.zasg", [sign, y, s, f, o, ds, dn] => some (match ints? [y, s, f, o, ds, dn] with
      | some [y, s, f, o, ds, dn] =>
        match sign with
        | "+" => showRes showZ (M.Zoned.add_assign ⟨mkDT y s f, o⟩ ⟨ds, dn⟩)
        | "-" => showRes showZ (M.Zoned.sub_assign ⟨mkDT y s f, o⟩ ⟨ds, dn⟩)
        | _ => bad
      | _ => bad)
  | "ax.zstdasg", [sign, y, s, f, o, ds, dn] => some (match ints? [y, s, f, o, ds, dn] with
      | some [y, s, f, o, ds, dn] =>
        match sign with
        | "+" => showRes showZ (M.Zoned.add_assign_std ⟨mkDT y s f, o⟩ ds dn)
        | "-" => showRes showZ (M.Zoned.sub_assign_std ⟨mkDT y s f, o⟩ ds dn)
        | _ => bad
      | _ => bad)
  | "ax.zcmp", [y1, s1, f1, o1, y2, s2, f2, o2] => some (match ints? [y1, s1, f1, o1, y2, s2, f2, o2] with
      | some [y1, s1, f1, o1, y2, s2, f2, o2] =>
        let a : M.Zoned := ⟨mkDT y1 s1 f1, o1⟩
        let b : M.Zoned := ⟨mkDT y2 s2 f2, o2⟩
        s!"{M.Zoned.cmp a b} {showOpt toString (M.Zoned.partial_cmp a b)} {M.Zoned.eq a b}"
      | _ => bad)
  -- second review (audit2): derived comparisons of NaiveDateTime, `a - b` operator impls
  | "ax.dtord", [y1, s1, f1, y2, s2, f2] => some (match ints? [y1, s1, f1, y2, s2, f2] with
      | some [y1, s1, f1, y2, s2, f2] =>
        let a := mkDT y1 s1 f1
        let b := mkDT y2 s2 f2
        s!"{M.NaiveDT.cmp a b} {showOpt toString (M.NaiveDT.partial_cmp a b)} {M.NaiveDT.eq a b} {M.NaiveDT.lt a b} {showDT (M.NaiveDT.max a b)}"
      | _ => bad)
  | "ax.ddiffop", [y1, y2] => some (match ints? [y1, y2] with
      | some [y1, y2] => showRes showDelta (M.Date.sub_date ⟨y1⟩ ⟨y2⟩) | _ => bad)
  | "ax.dtdiffop", [y1, s1, f1, y2, s2, f2] => some (match ints? [y1, s1, f1, y2, s2, f2] with
      | some [y1, s1, f1, y2, s2, f2] => showRes showDelta (M.NaiveDT.sub_dt (mkDT y1 s1 f1) (mkDT y2 s2 f2))
      | _ => bad)
  | "ax.zdiffop", [y1, s1, f1, o1, y2, s2, f2, o2] => some (match ints? [y1, s1, f1, o1, y2, s2, f2, o2] with
      | some [y1, s1, f1, o1, y2, s2, f2, o2] =>
        showRes showDelta (M.Zoned.sub_zoned ⟨mkDT y1 s1 f1, o1⟩ ⟨mkDT y2 s2 f2, o2⟩)
      | _ => bad)
  | "ax.zdiffref", [y1, s1, f1, o1, y2, s2, f2, o2] => some (match ints? [y1, s1, f1, o1, y2, s2, f2, o2] with
      | some [y1, s1, f1, o1, y2, s2, f2, o2] =>
        showRes showDelta (M.Zoned.sub_zoned_ref ⟨mkDT y1 s1 f1, o1⟩ ⟨mkDT y2 s2 f2, o2⟩)
      | _ => bad)
  | _, _ => none

end Chrono.Drv.DateArithExt
