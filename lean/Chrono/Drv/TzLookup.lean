/-
  Driver ops for the zone lookups (prefix `tzl.`).  A zone travels as the hook's canonical dump
  (`Zone::dump()`, four space-separated tokens `types=[…] trans=[…] leaps=[…] rule=…`), followed by
  one token holding a comma-separated list of queries; the reply is the comma-separated answers.
    tzl.at    <dump> t1,t2,…        -> o<off>:<dst> | err                 (lookup by instant)
    tzl.loc   <dump> ℓ1,ℓ2,…        -> s<off> | a<off1>/<off2> | n        (lookup by wall clock)
    tzl.cache <dump> u<t>|l<ℓ>,…    -> s<off> | a<o1>/<o2> | n | panic    (Cache::offset glue)
              … e<ℓ>|L<ℓ>           -> <instant>/<off> | n | panic  (Local.from_local_datetime(ℓ).earliest() / .latest())
    tzl.wall  <dump> ℓ1,ℓ2,…        -> instants of Spec.wallSet separated by `/` (or `-`)
    tzl.sep   <dump>                -> 1 | 0   (Spec.Zone.zoneSeparatedB = WellSeparated ∧ JoinSeparated)
    tzl.yearly <dump>               -> <ruleYearlyB><insideYearB> (two 0/1 digits; `-` if the rule is not alternate-time)
-/
import Chrono.Drv.Util
import Chrono.Model.TzLookup
import Chrono.Spec.ZoneSpec
namespace Chrono.Drv.TzLookup
open Chrono Chrono.M.Tz Chrono.M.TzL Chrono.Drv

def splitC (sep : Char) (cs : List Char) : List (List Char) :=
  let r := cs.foldr (fun c (acc : List Char × List (List Char)) =>
    if c = sep then ([], acc.1 :: acc.2) else (c :: acc.1, acc.2)) ([], [])
  r.1 :: r.2

def stripPre (pre : String) (cs : List Char) : Option (List Char) :=
  let p := pre.toList
  if p.isPrefixOf cs then some (cs.drop p.length) else none

def stripSuf (suf : String) (cs : List Char) : Option (List Char) :=
  (stripPre (String.ofList suf.toList.reverse) cs.reverse).map List.reverse

/-- `pre…suf` -> `…` -/
def between (pre suf : String) (cs : List Char) : Option (List Char) :=
  (stripPre pre cs).bind (stripSuf suf)

def intC (cs : List Char) : Option Int := (String.ofList cs).toInt?
def natC (cs : List Char) : Option Nat := (String.ofList cs).toNat?

def parseLtt (cs : List Char) : Option Ltt :=
  match splitC ',' cs with
  | [o, d, n] =>
    match intC o, natC d with
    | some o, some d =>
      some ⟨o, d != 0, if n = ['-'] then none else some (n.map Char.toNat)⟩
    | _, _ => none
  | _ => none

def parseList {α} (sep : Char) (f : List Char → Option α) (cs : List Char) : Option (List α) :=
  if cs.isEmpty then some [] else (splitC sep cs).mapM f

def parsePair (cs : List Char) : Option (Int × Int) :=
  match splitC ':' cs with
  | [a, b] => match intC a, intC b with
    | some a, some b => some (a, b)
    | _, _ => none
  | _ => none

def parseDay (cs : List Char) : Option RuleDay :=
  match cs with
  | 'J' :: r => (natC r).map RuleDay.julian1
  | 'M' :: r =>
    match splitC '.' r with
    | [m, w, d] => match natC m, natC w, natC d with
      | some m, some w, some d => some (.mwd m w d)
      | _, _, _ => none
    | _ => none
  | _ => (natC cs).map RuleDay.julian0

def parseDayTime (cs : List Char) : Option (RuleDay × Int) :=
  match splitC '/' cs with
  | [d, t] => match parseDay d, intC t with
    | some d, some t => some (d, t)
    | _, _ => none
  | _ => none

/-- split on the two-character separator `),` -/
def splitParenComma : List Char → List Char → List (List Char)
  | [], cur => [cur.reverse]
  | ')' :: ',' :: rest, cur => cur.reverse :: splitParenComma rest []
  | c :: rest, cur => splitParenComma rest (c :: cur)

def parseRule (cs : List Char) : Option (Option Rule) :=
  if cs = "none".toList then some none
  else match between "fixed(" ")" cs with
  | some inner => (parseLtt inner).map (fun l => some (Rule.fixed l))
  | none =>
    match between "alt(" ")" cs with
    | none => none
    | some inner =>
      match splitParenComma inner [] with
      | [s, d, rest] =>
        match (stripPre "std=(" s).bind parseLtt, (stripPre "dst=(" d).bind parseLtt, splitC ',' rest with
        | some s, some d, [st, en] =>
          match (stripPre "start=" st).bind parseDayTime, (stripPre "end=" en).bind parseDayTime with
          | some (sd, stt), some (ed, ett) => some (some (Rule.alt ⟨s, d, sd, stt, ed, ett⟩))
          | _, _ => none
        | _, _, _ => none
      | _ => none

def parseZone (a b c d : String) : Option Zone :=
  match between "types=[" "]" a.toList, between "trans=[" "]" b.toList, between "leaps=[" "]" c.toList,
        stripPre "rule=" d.toList with
  | some ty, some tr, some lp, some ru =>
    match parseList ';' parseLtt ty, parseList ',' parsePair tr, parseList ',' parsePair lp, parseRule ru with
    | some ty, some tr, some lp, some ru =>
      some ⟨tr.map (fun p => ⟨p.1, p.2.toNat⟩), ty, lp.map (fun p => ⟨p.1, p.2⟩), ru⟩
    | _, _, _, _ => none
  | _, _, _, _ => none

def showMapped (m : Mapped Int) : String :=
  match m with
  | .none => "n"
  | .single o => s!"s{o}"
  | .ambiguous a b => s!"a{a}/{b}"

def showInstant (d : Option (Int × Int)) : String :=
  match d with
  | none => "n"
  | some (t, o) => s!"{t}/{o}"

def answers (qs : String) (f : List Char → String) : String :=
  ",".intercalate ((splitC ',' qs.toList).map f)

def handle (op : String) (args : List String) : Option String :=
  match op, args with
  | "tzl.at", [a, b, c, d, qs] => some (match parseZone a b c d with
      | none => bad
      | some z => answers qs (fun q => match intC q with
          | none => bad
          | some t => match z.find_local_time_type t with
            | none => "err"
            | some l => s!"o{l.off}:{if l.dst then 1 else 0}"))
  | "tzl.loc", [a, b, c, d, qs] => some (match parseZone a b c d with
      | none => bad
      | some z => answers qs (fun q => match intC q with
          | none => bad
          | some ℓ => showMapped ((z.find_local_time_type_from_local ℓ).map (·.off))))
  | "tzl.cache", [a, b, c, d, qs] => some (match parseZone a b c d with
      | none => bad
      | some z => answers qs (fun q => match q with
          | 'u' :: r => (intC r).elim bad (fun t =>
              -- `Local::offset_from_utc_datetime` unwraps the mapped value: `None` is a panic there
              match cache_offset z t false with
              | .ok (.single o) => s!"s{o}"
              | _ => "panic")
          | 'l' :: r => (intC r).elim bad (fun t => showRes showMapped (cache_offset z t true))
          | 'e' :: r => (intC r).elim bad (fun t =>
              showRes (fun m => showInstant m.earliest) (local_from_local_datetime z t))
          | 'L' :: r => (intC r).elim bad (fun t =>
              showRes (fun m => showInstant m.latest) (local_from_local_datetime z t))
          | _ => bad))
  | "tzl.wall", [a, b, c, d, qs] => some (match parseZone a b c d with
      | none => bad
      | some z => answers qs (fun q => match intC q with
          | none => bad
          | some ℓ =>
            let w := Spec.Zone.wallSet z ℓ
            if w.isEmpty then "-" else "/".intercalate (w.map toString)))
  | "tzl.sep", [a, b, c, d] => some (match parseZone a b c d with
      | none => bad
      | some z => showBool (Spec.Zone.zoneSeparatedB z))
  | "tzl.yearly", [a, b, c, d] => some (match parseZone a b c d with
      | none => bad
      | some z => match z.rule with
        | some (.alt r) => showBool (Spec.Zone.ruleYearlyB r) ++ showBool (Spec.Zone.insideYearB r)
        | _ => "-")
  | "tzl.dump", [a, b, c, d] => some (match parseZone a b c d with
      | none => bad
      | some z => z.dump)
  | _, _ => none

end Chrono.Drv.TzLookup
