import Chrono.Drv.Util
import Chrono.Drv.Format
import Chrono.Model.FormatUtc
/-!
  Driver op of C12, round 3 (prefix `fmu.`):
  * `fmu.f x<fmt> <yof> <secs> <frac>` → `DateTime<Utc>::format(fmt)` written into a `String`
    (`ParseFrom.formatUtc`): `x<text>` | `err` | `panic`
-/
namespace Chrono.Drv.FormatUtc
open Chrono Chrono.M Chrono.Drv

def handle (op : String) (args : List String) : Option String :=
  match op, args with
  | "fmu.f", [f, y, s, n] => some (match hexDecode f, ints? [y, s, n] with
      | some fmt, some [y, s, n] => Format.showW (ParseFrom.formatUtc ⟨⟨y⟩, ⟨s, n⟩⟩ fmt)
      | _, _ => bad)
  | _, _ => none

end Chrono.Drv.FormatUtc
