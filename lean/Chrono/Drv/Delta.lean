import Chrono.Drv.Util
import Chrono.Model.Delta
namespace Chrono.Drv.Delta
open Chrono Chrono.M Chrono.Drv

def showD (d : M.Delta) : String := s!"{d.secs} {d.nanos}"
def showOD : Option M.Delta → String := showOpt showD
def showROD : Res (Option M.Delta) → String := showRes showOD

def unit? : String → Option Int
  | "weeks" => some Extracted.SECS_PER_WEEK
  | "days" => some Extracted.SECS_PER_DAY
  | "hours" => some Extracted.SECS_PER_HOUR
  | "minutes" => some Extracted.SECS_PER_MINUTE
  | "seconds" => some 1
  | _ => none

def pairs : List Int → List M.Delta
  | s :: n :: rest => ⟨s, n⟩ :: pairs rest
  | _ => []

def handle (op : String) (args : List String) : Option String :=
  match op, args with
  | "td.new", [s, n] => some (match int? s, int? n with
      | some s, some n => showOD (M.Delta.new s n) | _, _ => bad)
  | "td.try_unit", [u, n] => some (match unit? u, int? n with
      | some u, some n => showOD (M.Delta.try_unit u n) | _, _ => bad)
  | "td.try_ms", [n] => some ((int? n).elim bad (fun n => showOD (M.Delta.try_milliseconds n)))
  | "td.us", [n] => some ((int? n).elim bad (fun n => showD (M.Delta.microseconds n)))
  | "td.ns", [n] => some ((int? n).elim bad (fun n => showD (M.Delta.nanoseconds n)))
  | "td.acc", [s, n] => some (match int? s, int? n with
      | some s, some n =>
        let d : M.Delta := ⟨s, n⟩
        s!"{d.num_weeks} {d.num_days} {d.num_hours} {d.num_minutes} {d.num_seconds} {showRes toString d.num_milliseconds} {showOptInt d.num_microseconds} {showOptInt d.num_nanoseconds} {d.subsec_millis} {d.subsec_micros} {d.subsec_nanos} {showBool d.is_zero}"
      | _, _ => bad)
  | "td.add", [s1, n1, s2, n2] => some (match ints? [s1, n1, s2, n2] with
      | some [s1, n1, s2, n2] => showROD (M.Delta.checked_add ⟨s1, n1⟩ ⟨s2, n2⟩) | _ => bad)
  | "td.sub", [s1, n1, s2, n2] => some (match ints? [s1, n1, s2, n2] with
      | some [s1, n1, s2, n2] => showROD (M.Delta.checked_sub ⟨s1, n1⟩ ⟨s2, n2⟩) | _ => bad)
  | "td.cmp", [s1, n1, s2, n2] => some (match ints? [s1, n1, s2, n2] with
      | some [s1, n1, s2, n2] => toString (M.Delta.cmp ⟨s1, n1⟩ ⟨s2, n2⟩) | _ => bad)
  | "td.mul", [s, n, k] => some (match ints? [s, n, k] with
      | some [s, n, k] => showROD (M.Delta.checked_mul ⟨s, n⟩ k) | _ => bad)
  | "td.div", [s, n, k] => some (match ints? [s, n, k] with
      | some [s, n, k] => showROD (M.Delta.checked_div ⟨s, n⟩ k) | _ => bad)
  | "td.neg", [s, n] => some (match ints? [s, n] with
      | some [s, n] => showRes showD (M.Delta.neg ⟨s, n⟩) | _ => bad)
  | "td.abs", [s, n] => some (match ints? [s, n] with
      | some [s, n] => showRes showD (M.Delta.abs ⟨s, n⟩) | _ => bad)
  | "td.from_std", [s, n] => some (match ints? [s, n] with
      | some [s, n] => showOD (M.Delta.from_std s n) | _ => bad)
  | "td.to_std", [s, n] => some (match ints? [s, n] with
      | some [s, n] => showOpt (fun (p : Int × Int) => s!"{p.1} {p.2}") (M.Delta.to_std ⟨s, n⟩) | _ => bad)
  | "td.display", [s, n] => some (match ints? [s, n] with
      | some [s, n] => showRes hexEncode (M.Delta.display ⟨s, n⟩) | _ => bad)
  | "td.sum", xs => some (match ints? xs with
      | some v => showRes showD (M.Delta.sum (pairs v) M.Delta.zero) | none => bad)
  | _, _ => none

end Chrono.Drv.Delta
