import Chrono.Drv.Util
import Chrono.Model.Rfc2822
/-!
  Driver ops of C11 (prefix `r2.`); a zone-aware value is `<yof> <secs> <frac> <off>` = packed date,
  seconds of day and nanoseconds of its UTC reading, and `local_minus_utc`.
  * `r2.parse x<text>`                    → `ok <yof> <secs> <frac> <off>` | `err <kind>` | `panic`
      (`DateTime::parse_from_rfc2822`; the error kind IS part of the comparison)
  * `r2.write <yof> <secs> <frac> <off>`  → `x<text>` | `panic`   (`DateTime::to_rfc2822`)
  * `r2.rt <yof> <secs> <frac> <off>`     → `parse_from_rfc2822(&to_rfc2822())` in the form of `r2.parse`
  * `r2.item <yof> <secs> <frac> <off>`   → `x<text>` | `err` | `panic`
      (`DateTime::format_with_items([Fixed::RFC2822])` written into a `String`; `err` = `fmt::Error`)
  * `r2.items <items> <yof> <secs> <frac> <off>` → the same for ANY item list (`format_with_items(items)`)
  * `r2.pitems <items> x<text>`           → `parse(&mut Parsed::new(), text, items)?; parsed.to_datetime()` in the
      form of `r2.parse`
-/
namespace Chrono.Drv.Rfc2822
open Chrono Chrono.M Chrono.Drv

def showZ (z : Zoned) : String := s!"{z.utc.date.yof} {z.utc.time.secs} {z.utc.time.frac} {z.off}"

def showRP (r : Parsed.RP Zoned) : String :=
  match r with
  | .ok (.ok z) => s!"ok {showZ z}"
  | .ok (.error e) => s!"err {e.code}"
  | .panic => "panic"

def handle (op : String) (args : List String) : Option String :=
  match op, args with
  | "r2.parse", [s] => some (match hexDecode s with
      | some bs => showRP (Rfc2822.parse_from_rfc2822 bs)
      | none => bad)
  | "r2.write", [y, s, f, o] => some (match ints? [y, s, f, o] with
      | some [y, s, f, o] => showRes hexEncode (Rfc2822.to_rfc2822 ⟨⟨⟨y⟩, ⟨s, f⟩⟩, o⟩)
      | _ => bad)
  | "r2.rt", [y, s, f, o] => some (match ints? [y, s, f, o] with
      | some [y, s, f, o] => (match Rfc2822.roundtrip ⟨⟨⟨y⟩, ⟨s, f⟩⟩, o⟩ with
          | .ok r => showRP r
          | .panic => "panic")
      | _ => bad)
  | "r2.item", [y, s, f, o] => some (match ints? [y, s, f, o] with
      | some [y, s, f, o] => (match Rfc2822.format_item_rfc2822 ⟨⟨⟨y⟩, ⟨s, f⟩⟩, o⟩ with
          | .ok (some b) => hexEncode b
          | .ok none => "err"
          | .panic => "panic")
      | _ => bad)
  | "r2.items", [is, y, s, f, o] => some (match decodeItems is, ints? [y, s, f, o] with
      | some is, some [y, s, f, o] => (match Rfc2822.format_with_items ⟨⟨⟨y⟩, ⟨s, f⟩⟩, o⟩ is with
          | .ok (some b) => hexEncode b
          | .ok none => "err"
          | .panic => "panic")
      | _, _ => bad)
  | "r2.pitems", [is, s] => some (match decodeItems is, hexDecode s with
      | some is, some bs => showRP (Rfc2822.parse_items_to_datetime bs is)
      | _, _ => bad)
  | _, _ => none

end Chrono.Drv.Rfc2822
