import Chrono.Drv.Util
import Chrono.Drv.Date
import Chrono.Model.DateOps
namespace Chrono.Drv.DateOps
open Chrono Chrono.M Chrono.Drv

def wd? (s : String) : Option M.Weekday := (nat? s).bind (fun i => M.Weekday.all[i]?)

def showROD (r : Res (Option M.Date)) : String :=
  match r with
  | .ok (some d) => toString d.yof
  | .ok none => "none"
  | .panic => "panic"

def showRD (r : Res M.Date) : String :=
  match r with
  | .ok d => toString d.yof
  | .panic => "panic"

def showPair (r : Res (Option (M.Date × M.Date))) : String :=
  match r with
  | .ok (some (a, b)) => s!"{a.yof}..{b.yof}"
  | .ok none => "none"
  | .panic => "panic"

def showPairR (r : Res (M.Date × M.Date)) : String :=
  match r with
  | .ok (a, b) => s!"{a.yof}..{b.yof}"
  | .panic => "panic"

def mix := Chrono.Drv.Date.mix

def mixR (h : Nat) (r : Res (Option M.Date)) : Nat :=
  match r with
  | .ok (some d) => mix h d.yof
  | .ok none => mix h (-1)
  | .panic => mix h (-2)

def mixN (h : Nat) (r : Res Nat) : Nat :=
  match r with
  | .ok n => mix h n
  | .panic => mix h (-2)

/-- every date of the years `y0..=y1`, in order -/
def foldDates (y0 y1 : Int) (f : Nat → M.Date → Nat) (h : Nat) : Nat :=
  let n := (y1 - y0 + 1).toNat
  (List.range n).foldl (fun h (i : Nat) =>
    (List.range 367).foldl (fun h o =>
      match M.Date.from_yo_opt (y0 + (i : Int)) o with
      | .ok (some d) => f h d
      | _ => h) h) h

def seed : Nat := 14695981039346656037

def miscLine (d : M.Date) : String :=
  let q := match d.quarter with | .ok q => toString q | .panic => "panic"
  let ce := match d.year_ce with | .ok (b, y) => s!"{showBool b} {y}" | .panic => "panic"
  let n := match d.num_days_in_month with | .ok n => toString n | .panic => "panic"
  s!"{q} {ce} {n}"

def weekLine (w : M.NaiveWeek) : String :=
  s!"{showROD w.checked_first_day} {showROD w.checked_last_day} {showPair w.checked_days} {showRD w.first_day} {showRD w.last_day} {showPairR w.days}"

def handle (op : String) (args : List String) : Option String :=
  match op, args with
  | "do.addm", [yof, n] => some (match int? yof, nat? n with
      | some v, some n => showROD (M.Date.checked_add_months ⟨v⟩ n) | _, _ => bad)
  | "do.subm", [yof, n] => some (match int? yof, nat? n with
      | some v, some n => showROD (M.Date.checked_sub_months ⟨v⟩ n) | _, _ => bad)
  | "do.wy", [yof, y] => some (match int? yof, int? y with
      | some v, some y => showROD (M.Date.with_year ⟨v⟩ y) | _, _ => bad)
  | "do.wm", [yof, x] => some (match int? yof, nat? x with
      | some v, some x => showROD (M.Date.with_month ⟨v⟩ x) | _, _ => bad)
  | "do.wm0", [yof, x] => some (match int? yof, nat? x with
      | some v, some x => showROD (M.Date.with_month0 ⟨v⟩ x) | _, _ => bad)
  | "do.wd", [yof, x] => some (match int? yof, nat? x with
      | some v, some x => showROD (M.Date.with_day ⟨v⟩ x) | _, _ => bad)
  | "do.wd0", [yof, x] => some (match int? yof, nat? x with
      | some v, some x => showROD (M.Date.with_day0 ⟨v⟩ x) | _, _ => bad)
  | "do.wo", [yof, x] => some (match int? yof, nat? x with
      | some v, some x => showROD (M.Date.with_ordinal ⟨v⟩ x) | _, _ => bad)
  | "do.wo0", [yof, x] => some (match int? yof, nat? x with
      | some v, some x => showROD (M.Date.with_ordinal0 ⟨v⟩ x) | _, _ => bad)
  | "do.ys", [a, b] => some (match int? a, int? b with
      | some a, some b => (match M.Date.years_since ⟨a⟩ ⟨b⟩ with
          | .ok r => showOptInt r | .panic => "panic")
      | _, _ => bad)
  | "do.nth", [y, m, wd, n] => some (match int? y, nat? m, wd? wd, nat? n with
      | some y, some m, some wd, some n => showROD (M.Date.from_weekday_of_month_opt y m wd n)
      | _, _, _, _ => bad)
  | "do.wk", [yof, s] => some (match int? yof, wd? s with
      | some v, some s => weekLine ((⟨v⟩ : M.Date).week s) | _, _ => bad)
  | "do.mnd", [m, y] => some (match (nat? m).bind (fun i => Month.all[i]?), int? y with
      | some m, some y => (match m.num_days y with | .ok r => showOptNat r | .panic => "panic")
      | _, _ => bad)
  | "do.misc", [yof] => some ((int? yof).elim bad (fun v => miscLine ⟨v⟩))
  -- digests over every date of a block of years
  | "do.blockm", y0 :: y1 :: ns => some (match int? y0, int? y1, nats? ns with
      | some y0, some y1, some ns =>
        toString (foldDates y0 y1 (fun h d =>
          ns.foldl (fun h n => mixR (mixR h (d.checked_add_months n)) (d.checked_sub_months n)) h) seed)
      | _, _, _ => bad)
  | "do.blockw", y0 :: y1 :: vs => some (match int? y0, int? y1, nats? vs with
      | some y0, some y1, some vs =>
        toString (foldDates y0 y1 (fun h d =>
          vs.foldl (fun h v =>
            let h := mixR h (d.with_month v)
            let h := mixR h (d.with_month0 v)
            let h := mixR h (d.with_day v)
            let h := mixR h (d.with_day0 v)
            let h := mixR h (d.with_ordinal v)
            mixR h (d.with_ordinal0 v)) h) seed)
      | _, _, _ => bad)
  | "do.blocky", y0 :: y1 :: ys => some (match int? y0, int? y1, ints? ys with
      | some y0, some y1, some ys =>
        toString (foldDates y0 y1 (fun h d =>
          ys.foldl (fun h y => mixR h (d.with_year y)) h) seed)
      | _, _, _ => bad)
  | "do.blockyr", y0 :: y1 :: ys => some (match int? y0, int? y1, ints? ys with
      | some y0, some y1, some ys =>
        toString (foldDates y0 y1 (fun h d =>
          ys.foldl (fun h y => mixR h (d.with_year (d.year + y))) h) seed)
      | _, _, _ => bad)
  | "do.blockk", [y0, y1] => some (match int? y0, int? y1 with
      | some y0, some y1 =>
        toString (foldDates y0 y1 (fun h d =>
          let h := M.Weekday.all.foldl (fun h s =>
            mixR (mixR h (d.week s).checked_first_day) (d.week s).checked_last_day) h
          let h := mixN h d.quarter
          let h := match d.year_ce with | .ok (b, y) => mix (mix h (if b then 1 else 0)) y | .panic => mix h (-2)
          mixN h d.num_days_in_month) seed)
      | _, _ => bad)
  | _, _ => none

end Chrono.Drv.DateOps
