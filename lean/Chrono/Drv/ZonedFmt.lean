import Chrono.Drv.Util
import Chrono.Drv.Zoned
import Chrono.Model.ZonedDerived
import Chrono.Model.ZonedConv
import Chrono.Model.Rfc3339
import Chrono.Model.Rfc2822
import Chrono.Model.TextForms
import Chrono.Model.ParseFrom
import Chrono.Model.SerdeStr
/-!
  Driver ops of C04 added by the audit of 2026-09-30 (prefix `znf.`); a zone-aware value is
  `yof secs frac off` (stored UTC reading + offset) as in Drv/Zoned.lean.
  * `znf.text y s f o` → `to_rfc3339 | to_rfc3339_opts(Secs, true) | to_rfc3339_opts(Millis, false) |
      to_rfc2822 | Debug | Display | Serialize`, each `x<hex>` / `err` / `panic`
  * `znf.fmt x<fmt> y s f o` → `format(fmt)` written into a `String`: `x<hex>` / `err` / `panic`
  * `znf.views y s f o` → `month0 day0 ordinal0 quarter year_ce.0 year_ce.1 hour12.0 hour12.1
      num_seconds_from_midnight` (the `Timelike` default) — `-7777777` for a panic
  * `znf.edge lo hi` → two 31-bit digests over the offsets `lo ..= hi`: for each offset, each range end and each
      `δ ∈ {−1, 0, 1}` the wall clock `MIN_UTC + off + δ s` resp. `MAX_UTC + off + δ s` (when it is a date-time of the
      range) through `from_local_datetime` (nanosecond field 0 and 10⁹) and `with_ymd_and_hms` — the exact
      boundary of "the other representation leaves the range", for EVERY offset
  * `znf.tz y s f o` → `to_utc | fixed_offset | naive_utc | from_naive_utc_and_offset(naive_utc, offset)`
  Second audit (2026-09-30), Model/ZonedConv.lean:
  * `znf.dn y s f o` → `date_naive() | date()` (deprecated; `Date::naive_utc()` and its offset): `yof` / `yof off` / `panic`
  * `znf.conv y s f o` → `DateTime<FixedOffset>::from(DateTime<Utc> of the UTC reading) | DateTime<Utc>::from(value) |
      naive_utc.and_utc() | DateTime::from_utc(naive_utc, offset)` (deprecated)
  * `znf.fromlocal y s f o` (a NAIVE reading + offset) → `and_local_timezone(offset) | DateTime::from_local(l, offset)`
      (deprecated, panicking)
  * `znf.daysop add|sub y s f o n` → `value + Days(n)` / `value - Days(n)`: value or `panic`
  * `znf.ordshape y1 s1 f1 y2 s2 f2` → derived `Ord` / `Hash` of `NaiveDateTime`: `cmp | hash words of the first`
-/
namespace Chrono.Drv.ZonedFmt
open Chrono Chrono.M Chrono.Drv

def PANIC : Int := -7777777

def showT (r : Res (List Nat)) : String :=
  match r with
  | .ok t => hexEncode t
  | .panic => "panic"
def showW (w : Format.W) : String :=
  match w with
  | .ok (some b) => hexEncode b
  | .ok none => "err"
  | .panic => "panic"
def showZ (z : M.Zoned) : String := s!"{z.utc.date.yof} {z.utc.time.secs} {z.utc.time.frac} {z.off}"
def showN (d : NaiveDT) : String := s!"{d.date.yof} {d.time.secs} {d.time.frac}"

def z? (a : List String) : Option M.Zoned :=
  match ints? a with
  | some [y, s, f, o] => some ⟨⟨⟨y⟩, ⟨s, f⟩⟩, o⟩
  | _ => none

def resInt (r : Res Int) : Int := match r with | .ok v => v | .panic => PANIC
def resPair (r : Res (Bool × Int)) : List Int :=
  match r with
  | .ok (b, v) => [if b then 1 else 0, v]
  | .panic => [PANIC, PANIC]

def texts (z : M.Zoned) : String :=
  joinSp [showT (Rfc3339.to_rfc3339 z), "|", showT (Rfc3339.to_rfc3339_opts z .secs true), "|",
    showT (Rfc3339.to_rfc3339_opts z .millis false), "|", showT (Rfc2822.to_rfc2822 z), "|",
    showW (TextForms.fixed_debug z), "|", showW (TextForms.fixed_display z), "|",
    showW (Serde.DateTimeStr.serialize z)]

def views (z : M.Zoned) : String :=
  joinSp (([resInt z.month0, resInt z.day0, resInt z.ordinal0, resInt z.quarter_v] ++ resPair z.year_ce_v ++
    resPair z.hour12 ++ [resInt z.num_seconds_from_midnight]).map toString)

/-- the wall clock `end + off + δ` seconds as a naive value of the range (with its calendar fields), if it is one -/
def edgeLocal (hiEnd : Bool) (off δ : Int) : Option (NaiveDT × (Int × Nat × Nat)) :=
  if hiEnd then
    let sod := 86399 + off + δ
    if sod ≥ 86400 then none
    else if sod < 0 then some (⟨⟨Date.MAX.yof - 16⟩, ⟨sod + 86400, 0⟩⟩, (Extracted.MAX_YEAR, 12, 30))
    else some (⟨Date.MAX, ⟨sod, 0⟩⟩, (Extracted.MAX_YEAR, 12, 31))
  else
    let sod := off + δ
    if sod < 0 then none
    else if sod ≥ 86400 then some (⟨⟨Date.MIN.yof + 16⟩, ⟨sod - 86400, 0⟩⟩, (Extracted.MIN_YEAR, 1, 2))
    else some (⟨Date.MIN, ⟨sod, 0⟩⟩, (Extracted.MIN_YEAR, 1, 1))

def ymdList (off : Int) (y : Int) (m d : Nat) (sod : Int) : List Int :=
  match M.Zoned.with_ymd_and_hms off y m d (sod / 3600) (sod / 60 % 60) (sod % 60) with
  | .ok (some z) => [1, z.utc.date.yof, z.utc.time.secs, z.utc.time.frac]
  | .ok none => [0]
  | .panic => [-1]

def edgeObs (off : Int) : List Int :=
  [false, true].foldl (fun acc hiEnd =>
    [-1, 0, 1].foldl (fun acc (δ : Int) =>
      match edgeLocal hiEnd off δ with
      | none => acc ++ [-2]
      | some (l, (y, m, d)) =>
        acc ++ Zoned.flList off l ++ Zoned.flList off ⟨l.date, ⟨l.time.secs, 1000000000⟩⟩ ++ ymdList off y m d l.time.secs) acc) []

def edgeDigest (lo hi : Int) : String :=
  let n := (hi - lo + 1).toNat
  let h := (List.range n).foldl (fun h (k : Nat) => Zoned.mixL h (edgeObs (lo + (k : Int)))) (1, 1)
  s!"{h.1} {h.2}"

def handle (op : String) (args : List String) : Option String :=
  match op, args with
  | "znf.text", [y, s, f, o] => some ((z? [y, s, f, o]).elim bad texts)
  | "znf.fmt", [fmt, y, s, f, o] => some (match hexDecode fmt, z? [y, s, f, o] with
      | some fmt, some z => showW (ParseFrom.format (.zoned z) fmt) | _, _ => bad)
  | "znf.views", [y, s, f, o] => some ((z? [y, s, f, o]).elim bad views)
  | "znf.edge", [lo, hi] => some (match int? lo, int? hi with
      | some lo, some hi => edgeDigest lo hi | _, _ => bad)
  | "znf.tz", [y, s, f, o] => some ((z? [y, s, f, o]).elim bad fun z =>
      joinSp [showZ z.to_utc, "|", showZ z.fixed_offset, "|", showN z.naive_utc, "|",
        showZ (M.Zoned.from_naive_utc_and_offset z.naive_utc z.off)])
  | "znf.dn", [y, s, f, o] => some ((z? [y, s, f, o]).elim bad fun z =>
      joinSp [showRes (fun (d : M.Date) => toString d.yof) z.date_naive, "|",
        showRes (fun (p : M.Date × Int) => s!"{p.1.yof} {p.2}") z.date_deprecated])
  | "znf.conv", [y, s, f, o] => some ((z? [y, s, f, o]).elim bad fun z =>
      joinSp [showRes showZ (M.Zoned.fixed_from_utc (M.Zoned.and_utc z.utc)), "|", showZ z.utc_from_fixed, "|",
        showZ (M.Zoned.and_utc z.utc), "|", showZ (M.Zoned.from_utc_deprecated z.utc z.off)])
  | "znf.fromlocal", [y, s, f, o] => some ((z? [y, s, f, o]).elim bad fun z =>
      joinSp [showRes (showOpt showZ) (M.Zoned.and_local_timezone z.utc z.off), "|",
        showRes showZ (M.Zoned.from_local_deprecated z.utc z.off)])
  | "znf.daysop", [dir, y, s, f, o, n] => some (match z? [y, s, f, o], int? n with
      | some z, some n => showRes showZ (if dir = "add" then z.add_days_op n else z.sub_days_op n)
      | _, _ => bad)
  | "znf.ordshape", [y1, s1, f1, y2, s2, f2] => some (match z? [y1, s1, f1, "0"], z? [y2, s2, f2, "0"] with
      | some a, some b => joinSp [toString (NaiveDT.cmp a.utc b.utc), "|", joinSp (a.utc.hashWords.map toString)]
      | _, _ => bad)
  | _, _ => none

end Chrono.Drv.ZonedFmt
