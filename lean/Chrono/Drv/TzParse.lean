/- Driver ops for C16 (prefix `tzp.`): TZif reader, TZ-rule reader, the specification's writers, and
   the three-valued lookups on a zone the reader built (the zone travels as the hook's canonical dump,
   four tokens, as for the `tzl.` ops; answers comma-separated):
     tzp.layout x<bytes>             -> <announcedLen 4> <announcedLen 8 of the rest | -> <footer length>
     tzp.at  <dump> t1,t2,…          -> o<off>:<dst> | err | panic             (lookup by instant)
     tzp.loc <dump> ℓ1:y1,ℓ2:y2,…    -> s<off> | a<o1>/<o2> | n | err | panic  (lookup by wall clock:
                                        timestamp and calendar year of the `NaiveDateTime`) -/
import Chrono.Drv.Util
import Chrono.Drv.TzLookup
import Chrono.Model.TzParse
import Chrono.Model.TzLookupP
import Chrono.Spec.TzSpec
namespace Chrono.Drv.TzParse
open Chrono Chrono.M.Tz Chrono.Drv

def showP {α} (f : α → String) : P α → String
  | .ok a => f a
  | .err => "err"
  | .panic => "panic"

/-- a counted section of `k`-tuples: `n, x11 … x1k, …` -/
def section? (k : Nat) (xs : List Int) : Option (List (List Int) × List Int) :=
  match xs with
  | n :: rest =>
    let n := n.toNat
    if n * k ≤ rest.length then
      some ((List.range n).map (fun i => (rest.drop (i * k)).take k), rest.drop (n * k))
    else none
  | [] => none

def block? (tok : String) : Option Spec.Tz.Block := do
  let xs ← ints? (tok.splitOn ",")
  let (tr, xs) ← section? 2 xs
  let (ty, xs) ← section? 3 xs
  let (nm, xs) ← section? 1 xs
  let (lp, xs) ← section? 2 xs
  let (sw, xs) ← section? 1 xs
  let (ul, xs) ← section? 1 xs
  if !xs.isEmpty then none else
  some { trans := tr.map (fun t => (t.getD 0 0, (t.getD 1 0).toNat))
         types := ty.map (fun t => ⟨t.getD 0 0, t.getD 1 0 != 0, (t.getD 2 0).toNat⟩)
         names := nm.map (fun t => (t.getD 0 0).toNat)
         leaps := lp.map (fun t => (t.getD 0 0, t.getD 1 0))
         stdWalls := sw.map (fun t => (t.getD 0 0).toNat)
         utLocals := ul.map (fun t => (t.getD 0 0).toNat) }

def day? (k a b c : String) : Option RuleDay :=
  match k, nat? a, nat? b, nat? c with
  | "1", some a, _, _ => some (.julian1 a)
  | "0", some a, _, _ => some (.julian0 a)
  | "2", some a, some b, some c => some (.mwd a b c)
  | _, _, _, _ => none

def version? : String → Option Version
  | "1" => some .V1
  | "2" => some .V2
  | "3" => some .V3
  | _ => none

def handle (op : String) (args : List String) : Option String :=
  match op, args with
  | "tzp.tzif", [h] => some (match hexDecode h with
      | some bs => showP Zone.dump (parse bs)
      | none => bad)
  | "tzp.rule", [h, e] => some (match hexDecode h, e with
      | some bs, "0" => showP Rule.dump (from_tz_string bs false)
      | some bs, "1" => showP Rule.dump (from_tz_string bs true)
      | _, _ => bad)
  | "tzp.caps", [h] => some (match hexDecode h with
      | some bs => joinSp ((capacities bs).map toString)
      | none => bad)
  | "tzp.enc", [v, foot, b1, b2] => some (match version? v, hexDecode foot, block? b1, block? b2 with
      | some v, some foot, some b1, some b2 => hexEncode (Spec.Tz.encodeTzif ⟨v, b1, b2, foot⟩)
      | _, _, _, _ => bad)
  | "tzp.render", [sn, so, "0"] => some (match hexDecode sn, int? so with
      | some sn, some so => hexEncode (Spec.Tz.renderTz (.fixed ⟨so, false, some sn⟩))
      | _, _ => bad)
  | "tzp.render", [sn, so, "1", dn, d_o, k1, a1, b1, c1, t1, k2, a2, b2, c2, t2] =>
      some (match hexDecode sn, int? so, hexDecode dn, int? d_o, day? k1 a1 b1 c1, int? t1, day? k2 a2 b2 c2, int? t2 with
      | some sn, some so, some dn, some d_o, some d1, some t1, some d2, some t2 =>
        hexEncode (Spec.Tz.renderTz (.alt ⟨⟨so, false, some sn⟩, ⟨d_o, true, some dn⟩, d1, t1, d2, t2⟩))
      | _, _, _, _, _, _, _, _ => bad)
  | "tzp.layout", [h] => some (match hexDecode h with
      | some bs =>
        let a4 := Spec.Tz.announcedLen 4 bs
        let v1 := versionOf ((bs.drop 4).take 1) == some Version.V1
        let a8 := if v1 then "-" else toString (Spec.Tz.announcedLen 8 (bs.drop a4))
        s!"{a4} {a8} {(Spec.Tz.footerOf bs).length}"
      | none => bad)
  | "tzp.at", [a, b, c, d, qs] => some (match TzLookup.parseZone a b c d with
      | none => bad
      | some z => TzLookup.answers qs (fun q => match TzLookup.intC q with
          | none => bad
          | some t => match z.find_local_time_type_P t with
            | .ok l => s!"o{l.off}:{if l.dst then 1 else 0}"
            | .err => "err"
            | .panic => "panic"))
  | "tzp.loc", [a, b, c, d, qs] => some (match TzLookup.parseZone a b c d with
      | none => bad
      | some z => TzLookup.answers qs (fun q => match TzLookup.splitC ':' q with
          | [l, y] => (match TzLookup.intC l, TzLookup.intC y with
            | some ℓ, some year => match z.find_local_time_type_from_local_P year ℓ with
              | .ok m => TzLookup.showMapped (m.map (·.off))
              | .err => "err"
              | .panic => "panic"
            | _, _ => bad)
          | _ => bad))
  | _, _ => none

end Chrono.Drv.TzParse
