import Chrono.Drv.Util
import Chrono.Model.Strftime
import Chrono.Model.Format
/-!
  Driver ops of C12 (prefix `fm.`):
  * `fm.items x<fmt>`      → encoded item list of `StrftimeItems::new`
  * `fm.lenient x<fmt>`    → the same for `StrftimeItems::new_lenient`
  * `fm.next <0|1> x<rem> <queue items>` → one `Iterator::next` step
  * `fm.fmt <items> <yof|-> <secs|-> <frac|-> <off|->` → `x<text>` | `err` | `panic`
      (`DelayedFormat::write_to`; the offset's name is `FixedOffset`'s `Display`)
  * `fm.fmtn <items> <yof|-> <secs|-> <frac|-> <off> x<name>` → the same with an explicit zone name
  * `fm.3339 <yof> <secs> <frac> <off> <secform 0..4> <use_z 0|1>`, `fm.2822 <yof> <secs> <frac> <off>`
  * `fm.off <precision 0..5> <colons 0..2> <zulu 0|1> <pad n|0|s> <off>` → `OffsetFormat::format`
  * `fm.wf <yof> <weekday 0..6>` → `weeks_from`
-/
namespace Chrono.Drv.Format
open Chrono Chrono.M Chrono.Drv Chrono.M.Format

def showW (w : W) : String :=
  match w with
  | .ok (some b) => hexEncode b
  | .ok none => "err"
  | .panic => "panic"

def optInt? (s : String) : Option (Option Int) := if s == "-" then some none else (int? s).map some

def mkTime (secs frac : Option Int) : Option (Option Time) :=
  match secs, frac with
  | some s, some f => some (some ⟨s, f⟩)
  | none, none => some none
  | _, _ => none

def secform? (n : Int) : Option SecondsFormat :=
  if n = 0 then some .secs else if n = 1 then some .millis else if n = 2 then some .micros
  else if n = 3 then some .nanos else if n = 4 then some .autoSi else none
def precision? (n : Int) : Option OffsetPrecision :=
  if n = 0 then some .hours else if n = 1 then some .minutes else if n = 2 then some .seconds
  else if n = 3 then some .optionalMinutes else if n = 4 then some .optionalSeconds
  else if n = 5 then some .optionalMinutesAndSeconds else none
def colons? (n : Int) : Option Colons :=
  if n = 0 then some .none else if n = 1 then some .colon else if n = 2 then some .maybe else none

def handle (op : String) (args : List String) : Option String :=
  match op, args with
  | "fm.items", [f] => some (match hexDecode f with
      | some bs => encodeItems (Strftime.items bs)
      | none => bad)
  | "fm.lenient", [f] => some (match hexDecode f with
      | some bs => encodeItems (Strftime.itemsLenient bs)
      | none => bad)
  | "fm.next", [l, r, q] => some (match int? l, hexDecode r, decodeItems q with
      | some l, some rem, some queue =>
        (match Strftime.next (l != 0) ⟨rem, queue⟩ with
         | none => "none"
         | some (it, st) => s!"{it.encode} {hexEncode st.remainder} {encodeItems st.queue}")
      | _, _, _ => bad)
  | "fm.fmt", [is, y, s, f, o] => some (match decodeItems is, optInt? y, optInt? s, optInt? f, optInt? o with
      | some is, some y, some s, some f, some o =>
        (match mkTime s f with
         | some t => showW (formatItemsR (y.map Date.mk) t (o.map fun o => (fixedOffsetName o, o)) is)
         | none => bad)
      | _, _, _, _, _ => bad)
  | "fm.fmtn", [is, y, s, f, o, n] => some (match decodeItems is, optInt? y, optInt? s, optInt? f, int? o, hexDecode n with
      | some is, some y, some s, some f, some o, some n =>
        (match mkTime s f with
         | some t => showW (formatItemsR (y.map Date.mk) t (some (n, o)) is)
         | none => bad)
      | _, _, _, _, _, _ => bad)
  | "fm.3339", [y, s, f, o, sf, z] => some (match ints? [y, s, f, o, sf, z] with
      | some [y, s, f, o, sf, z] =>
        (match secform? sf with
         | some sf => showW (write_rfc3339 ⟨⟨y⟩, ⟨s, f⟩⟩ o sf (z != 0))
         | none => bad)
      | _ => bad)
  | "fm.2822", [y, s, f, o] => some (match ints? [y, s, f, o] with
      | some [y, s, f, o] => showW (write_rfc2822 ⟨⟨y⟩, ⟨s, f⟩⟩ o)
      | _ => bad)
  | "fm.off", [p, c, z, pad, o] => some (match int? p, int? c, int? z, Pad.ofCode pad, int? o with
      | some p, some c, some z, some pad, some o =>
        (match precision? p, colons? c with
         | some p, some c => showW (OffsetFormat.format ⟨p, c, z != 0, pad⟩ o)
         | _, _ => bad)
      | _, _, _, _, _ => bad)
  | "fm.wf", [y, wd] => some (match int? y, nat? wd with
      | some y, some wd => toString (weeks_from ⟨y⟩ (Date.weekdayOfNat wd))
      | _, _ => bad)
  | _, _ => none

end Chrono.Drv.Format
