import Chrono.Drv.Util
import Chrono.Model.Weekday
import Chrono.Model.WeekdayConv
import Chrono.Model.WeekdaySetX
namespace Chrono.Drv.Weekday
open Chrono Chrono.M Chrono.Drv

def wd? (s : String) : Option M.Weekday := (nat? s).bind (fun i => M.Weekday.all[i]?)
def mo? (s : String) : Option Month := (nat? s).bind (fun i => Month.all[i]?)
def showWd (w : M.Weekday) : String := toString w.toNat
def showMo (m : Month) : String := toString m.toNat
def showOW := showOpt showWd
def showOM := showOpt showMo

def optNat? (s : String) : Option (Option Nat) := if s = "none" then some none else (nat? s).map some
def align? (s : String) : Option M.WdFmt.Align :=
  if s = "l" || s = "d" then some .left else if s = "r" then some .right
  else if s = "c" then some .center else none

def handle (op : String) (args : List String) : Option String :=
  match op, args with
  | "wd.succ", [a] => some ((wd? a).elim bad (fun w => showWd w.succ))
  | "wd.pred", [a] => some ((wd? a).elim bad (fun w => showWd w.pred))
  | "wd.num", [a] => some ((wd? a).elim bad (fun w =>
      s!"{w.num_days_from_monday} {w.number_from_monday} {w.num_days_from_sunday} {w.number_from_sunday}"))
  | "wd.since", [a, b] => some (match wd? a, wd? b with
      | some x, some y => toString (x.days_since y) | _, _ => bad)
  | "wd.from_u8", [n] => some ((int? n).elim bad (fun n => showOW (M.Conv.Weekday.try_from_u8 n)))
  | "wd.from_i64", [n] => some ((int? n).elim bad (fun n => showOW (M.Conv.Weekday.from_i64 n)))
  | "wd.from_u64", [n] => some ((int? n).elim bad (fun n => showOW (M.Conv.Weekday.from_u64 n)))
  | "wd.from_u32", [n] => some ((int? n).elim bad (fun n => showOW (M.Conv.Weekday.from_u32 n)))
  | "wd.from_i32", [n] => some ((int? n).elim bad (fun n => showOW (M.Conv.Weekday.from_i32 n)))
  | "wd.parse", [s] => some ((hexDecode s).elim bad (fun b => showOW (M.Weekday.parse b)))
  | "wd.display", [a] => some ((wd? a).elim bad (fun w => hexEncode w.display))
  | "mo.succ", [a] => some ((mo? a).elim bad (fun m => showMo m.succ))
  | "mo.pred", [a] => some ((mo? a).elim bad (fun m => showMo m.pred))
  | "mo.num", [a] => some ((mo? a).elim bad (fun m => toString m.number_from_month))
  | "mo.from_u8", [n] => some ((int? n).elim bad (fun n => showOM (M.Conv.Month.try_from_u8 n)))
  | "mo.from_u32", [n] => some ((int? n).elim bad (fun n => showOM (M.Conv.Month.from_u32 n)))
  | "mo.from_u64", [n] => some ((int? n).elim bad (fun n => showOM (M.Conv.Month.from_u64 n)))
  | "mo.from_i64", [n] => some ((int? n).elim bad (fun n => showOM (M.Conv.Month.from_i64 n)))
  | "mo.from_i32", [n] => some ((int? n).elim bad (fun n => showOM (M.Conv.Month.from_i32 n)))
  | "mo.parse", [s] => some ((hexDecode s).elim bad (fun b => showOM (Month.parse b)))
  | "mo.name", [a] => some ((mo? a).elim bad (fun m => hexEncode m.name))
  | "ws.bin", [a, b] => some (match nat? a, nat? b with
      | some a, some b =>
        s!"{WeekdaySet.union a b} {WeekdaySet.intersection a b} {WeekdaySet.symmetric_difference a b} {WeekdaySet.difference a b} {showBool (WeekdaySet.is_subset a b)}"
      | _, _ => bad)
  | "ws.un", [a] => some ((nat? a).elim bad (fun s =>
      s!"{WeekdaySet.len s} {showBool (WeekdaySet.is_empty s)} {showOW (WeekdaySet.first s)} {showOW (WeekdaySet.last s)} {showOW (WeekdaySet.single_day s)}"))
  | "ws.elem", [a, d] => some (match nat? a, wd? d with
      | some s, some d =>
        let i := WeekdaySet.insert s d
        let r := WeekdaySet.remove s d
        s!"{showBool (WeekdaySet.contains s d)} {i.1} {showBool i.2} {r.1} {showBool r.2} {WeekdaySet.single d}"
      | _, _ => bad)
  | "ws.iter", [a, st, k, n] => some (match nat? a, wd? st, nat? k, nat? n with
      | some s, some st, some k, some n =>
        let sched := (List.range n).map (fun i => k.testBit i)
        match WeekdaySet.runSchedule sched ⟨s, st⟩ with
        | .ok (fs, ks, it) =>
          s!"f={joinSp (fs.map showWd)} b={joinSp (ks.map showWd)} left={it.days}"
        | .panic => "panic"
      | _, _, _, _ => bad)
  | "wd.fmt", [a, w, p, al, fill] => some (match wd? a, optNat? w, optNat? p, align? al, nat? fill with
      | some d, some w, some p, some al, some fill => hexEncode (d.display_fmt w p al fill)
      | _, _, _, _, _ => bad)
  | "wd.from_prim", [ty, n] => some (match M.Conv.PrimTy.ofString ty, int? n with
      | some ty, some n => showOW (M.Conv.Weekday.fromPrim ty n) | _, _ => bad)
  | "mo.from_prim", [ty, n] => some (match M.Conv.PrimTy.ofString ty, int? n with
      | some ty, some n => showOM (M.Conv.Month.fromPrim ty n) | _, _ => bad)
  | "ws.collect", ds => some (match ds.mapM wd? with
      | some ds => toString (WeekdaySet.from_iter ds)
      | none => bad)
  | "ws.from_array", ds => some (match ds.mapM wd? with
      | some ds => toString (WeekdaySet.from_array ds)
      | none => bad)
  | "ws.const", [] => some s!"{WeekdaySet.EMPTY} {WeekdaySet.ALL}"
  | "ws.fmt", [a] => some ((nat? a).elim bad (fun s =>
      s!"{showRes hexEncode (WeekdaySet.display s)} {hexEncode (WeekdaySet.debug s)}"))
  | "ws.iterx", [a, st, k, n] => some (match nat? a, wd? st, nat? k, nat? n with
      | some s, some st, some k, some n =>
        let sched := (List.range n).map (fun i => k.testBit i)
        let it0 := WeekdaySet.iter s st
        match WeekdaySet.runSchedule sched it0 with
        | .ok (_, _, it) =>
          match WeekdaySet.runSchedule (List.replicate 8 true) it with
          | .ok (_, _, itd) =>
            s!"len0={it0.len} len={it.len} drained={itd.len} fused={showBool (WeekdaySet.staysNone 3 itd)}"
          | .panic => "panic"
        | .panic => "panic"
      | _, _, _, _ => bad)
  | _, _ => none

end Chrono.Drv.Weekday
