import Chrono.Drv.Util
import Chrono.Model.TimeOps
/-! Driver ops of the `NaiveTime` operator impls (C07 audit gap G7) and of `NaiveTime::MIN`.
Prefix `tmo.`. -/
namespace Chrono.Drv.TimeOps
open Chrono Chrono.M Chrono.Drv

def showT (t : M.Time) : String := s!"{t.secs} {t.frac}"
def showD (d : M.Delta) : String := s!"{d.secs} {d.nanos}"

/-- `t ∘ TimeDelta` through one of the four operator forms -/
def tdOp (which : String) (t : M.Time) (d : M.Delta) : Option (Res M.Time) :=
  match which with
  | "+" => some (M.Time.add t d)
  | "-" => some (M.Time.sub t d)
  | "+=" => some (M.Time.add_assign t d)
  | "-=" => some (M.Time.sub_assign t d)
  | _ => none

/-- `t ∘ core::time::Duration` -/
def stdOp (which : String) (t : M.Time) (secs nanos : Int) : Option (Res M.Time) :=
  match which with
  | "+" => some (M.Time.add_std t secs nanos)
  | "-" => some (M.Time.sub_std t secs nanos)
  | "+=" => some (M.Time.add_assign_std t secs nanos)
  | "-=" => some (M.Time.sub_assign_std t secs nanos)
  | _ => none

def handle (op : String) (args : List String) : Option String :=
  match op, args with
  | "tmo.td", [w, s, f, ds, dn] => some (match ints? [s, f, ds, dn] with
      | some [s, f, ds, dn] => (match tdOp w ⟨s, f⟩ ⟨ds, dn⟩ with
          | some r => showRes showT r | none => bad)
      | _ => bad)
  | "tmo.std", [w, s, f, ds, dn] => some (match ints? [s, f, ds, dn] with
      | some [s, f, ds, dn] => (match stdOp w ⟨s, f⟩ ds dn with
          | some r => showRes showT r | none => bad)
      | _ => bad)
  | "tmo.off", [w, s, f, o] => some (match ints? [s, f, o] with
      | some [s, f, o] => (match w with
          | "+" => showRes showT (M.Time.add_offset ⟨s, f⟩ o)
          | "-" => showRes showT (M.Time.sub_offset ⟨s, f⟩ o)
          | _ => bad)
      | _ => bad)
  | "tmo.tsub", [s1, f1, s2, f2] => some (match ints? [s1, f1, s2, f2] with
      | some [s1, f1, s2, f2] => showRes showD (M.Time.sub_time ⟨s1, f1⟩ ⟨s2, f2⟩) | _ => bad)
  | "tmo.min", [] => some (showT M.Time.MIN)
  | _, _ => none

end Chrono.Drv.TimeOps
