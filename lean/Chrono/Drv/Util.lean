/- Line-protocol helpers for the driver. -/
import Chrono.Prim
namespace Chrono.Drv

def int? (s : String) : Option Int := s.toInt?
def nat? (s : String) : Option Nat := s.toNat?

def ints? (ss : List String) : Option (List Int) := ss.mapM int?
def nats? (ss : List String) : Option (List Nat) := ss.mapM nat?

def bad : String := "bad-op"

def showRes {α} (f : α → String) : Res α → String
  | .ok a => f a
  | .panic => "panic"

def showOpt {α} (f : α → String) : Option α → String
  | some a => f a
  | none => "none"

def joinSp (xs : List String) : String := " ".intercalate xs

end Chrono.Drv
