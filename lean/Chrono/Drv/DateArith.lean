import Chrono.Drv.Util
import Chrono.Model.ArithOps
namespace Chrono.Drv.DateArith
open Chrono Chrono.M Chrono.Drv

def showROD (r : Res (Option M.Date)) : String :=
  match r with
  | .ok (some d) => toString d.yof
  | .ok none => "none"
  | .panic => "panic"
def showRD (r : Res M.Date) : String := showRes (fun d => toString d.yof) r
def showDelta (d : M.Delta) : String := s!"{d.secs} {d.nanos}"
def showDT (x : M.NaiveDT) : String := s!"{x.date.yof} {x.time.secs} {x.time.frac}"
def showRODT (r : Res (Option M.NaiveDT)) : String := showRes (showOpt showDT) r
def showZ (z : M.Zoned) : String := s!"{showDT z.utc} {z.off}"
def showROZ (r : Res (Option M.Zoned)) : String := showRes (showOpt showZ) r

/-- `hint:item hint:item … hint:end` (exhausted within `cap` steps) or `… more` -/
def iterTrace (next : M.Date → Res (Option (M.Date × M.Date))) (hint : M.Date → Res Int) :
    Nat → M.Date → List String → String
  | 0, _, acc => joinSp (acc.reverse ++ ["more"])
  | fuel + 1, v, acc =>
    match hint v, next v with
    | .ok h, .ok none => joinSp (acc.reverse ++ [s!"{h}:end"])
    | .ok h, .ok (some (item, v')) => iterTrace next hint fuel v' (s!"{h}:{item.yof}" :: acc)
    | _, _ => "panic"

def mkDT (y s f : Int) : M.NaiveDT := ⟨⟨y⟩, ⟨s, f⟩⟩

def handle (op : String) (args : List String) : Option String :=
  match op, args with
  | "ar.cadd", [y, n] => some (match ints? [y, n] with
      | some [y, n] => showROD (M.Date.checked_add_days ⟨y⟩ n) | _ => bad)
  | "ar.csub", [y, n] => some (match ints? [y, n] with
      | some [y, n] => showROD (M.Date.checked_sub_days ⟨y⟩ n) | _ => bad)
  | "ar.opadd", [y, n] => some (match ints? [y, n] with
      | some [y, n] => showRD (M.Date.add_days_op ⟨y⟩ n) | _ => bad)
  | "ar.opsub", [y, n] => some (match ints? [y, n] with
      | some [y, n] => showRD (M.Date.sub_days_op ⟨y⟩ n) | _ => bad)
  | "ar.dadd", [y, ds, dn] => some (match ints? [y, ds, dn] with
      | some [y, ds, dn] => showROD (M.Date.checked_add_signed ⟨y⟩ ⟨ds, dn⟩) | _ => bad)
  | "ar.dsub", [y, ds, dn] => some (match ints? [y, ds, dn] with
      | some [y, ds, dn] => showROD (M.Date.checked_sub_signed ⟨y⟩ ⟨ds, dn⟩) | _ => bad)
  | "ar.dopadd", [y, ds, dn] => some (match ints? [y, ds, dn] with
      | some [y, ds, dn] => showRD (M.Date.add ⟨y⟩ ⟨ds, dn⟩) | _ => bad)
  | "ar.dopsub", [y, ds, dn] => some (match ints? [y, ds, dn] with
      | some [y, ds, dn] => showRD (M.Date.sub ⟨y⟩ ⟨ds, dn⟩) | _ => bad)
  | "ar.ddiff", [a, b] => some (match ints? [a, b] with
      | some [a, b] => showRes showDelta (M.Date.signed_duration_since ⟨a⟩ ⟨b⟩) | _ => bad)
  | "ar.iter", [kind, cap, y] => some (match nat? cap, int? y with
      | some cap, some y =>
        match kind with
        | "days" => iterTrace M.DaysIter.next M.DaysIter.size_hint cap ⟨y⟩ []
        | "daysb" => iterTrace M.DaysIter.next_back M.DaysIter.size_hint cap ⟨y⟩ []
        | "weeks" => iterTrace M.WeeksIter.next M.WeeksIter.size_hint cap ⟨y⟩ []
        | "weeksb" => iterTrace M.WeeksIter.next_back M.WeeksIter.size_hint cap ⟨y⟩ []
        | _ => bad
      | _, _ => bad)
  | "ar.dtadd", [y, s, f, ds, dn] => some (match ints? [y, s, f, ds, dn] with
      | some [y, s, f, ds, dn] => showRODT ((mkDT y s f).checked_add_signed ⟨ds, dn⟩) | _ => bad)
  | "ar.dtsub", [y, s, f, ds, dn] => some (match ints? [y, s, f, ds, dn] with
      | some [y, s, f, ds, dn] => showRODT ((mkDT y s f).checked_sub_signed ⟨ds, dn⟩) | _ => bad)
  | "ar.dtopadd", [y, s, f, ds, dn] => some (match ints? [y, s, f, ds, dn] with
      | some [y, s, f, ds, dn] => showRes showDT ((mkDT y s f).add ⟨ds, dn⟩) | _ => bad)
  | "ar.dtopsub", [y, s, f, ds, dn] => some (match ints? [y, s, f, ds, dn] with
      | some [y, s, f, ds, dn] => showRes showDT ((mkDT y s f).sub ⟨ds, dn⟩) | _ => bad)
  | "ar.dtstdadd", [y, s, f, ds, dn] => some (match ints? [y, s, f, ds, dn] with
      | some [y, s, f, ds, dn] => showRes showDT ((mkDT y s f).add_std ds dn) | _ => bad)
  | "ar.dtstdsub", [y, s, f, ds, dn] => some (match ints? [y, s, f, ds, dn] with
      | some [y, s, f, ds, dn] => showRes showDT ((mkDT y s f).sub_std ds dn) | _ => bad)
  | "ar.dtcadd", [y, s, f, n] => some (match ints? [y, s, f, n] with
      | some [y, s, f, n] => showRODT ((mkDT y s f).checked_add_days n) | _ => bad)
  | "ar.dtcsub", [y, s, f, n] => some (match ints? [y, s, f, n] with
      | some [y, s, f, n] => showRODT ((mkDT y s f).checked_sub_days n) | _ => bad)
  | "ar.dtopcadd", [y, s, f, n] => some (match ints? [y, s, f, n] with
      | some [y, s, f, n] => showRes showDT ((mkDT y s f).add_days_op n) | _ => bad)
  | "ar.dtopcsub", [y, s, f, n] => some (match ints? [y, s, f, n] with
      | some [y, s, f, n] => showRes showDT ((mkDT y s f).sub_days_op n) | _ => bad)
  | "ar.dtdiff", [y1, s1, f1, y2, s2, f2] => some (match ints? [y1, s1, f1, y2, s2, f2] with
      | some [y1, s1, f1, y2, s2, f2] =>
        showRes showDelta (M.NaiveDT.signed_duration_since (mkDT y1 s1 f1) (mkDT y2 s2 f2)) | _ => bad)
  | "ar.dtcmp", [y1, s1, f1, y2, s2, f2] => some (match ints? [y1, s1, f1, y2, s2, f2] with
      | some [y1, s1, f1, y2, s2, f2] => toString (M.NaiveDT.cmp (mkDT y1 s1 f1) (mkDT y2 s2 f2)) | _ => bad)
  | "ar.zadd", [y, s, f, o, ds, dn] => some (match ints? [y, s, f, o, ds, dn] with
      | some [y, s, f, o, ds, dn] => showROZ (M.Zoned.checked_add_signed ⟨mkDT y s f, o⟩ ⟨ds, dn⟩) | _ => bad)
  | "ar.zsub", [y, s, f, o, ds, dn] => some (match ints? [y, s, f, o, ds, dn] with
      | some [y, s, f, o, ds, dn] => showROZ (M.Zoned.checked_sub_signed ⟨mkDT y s f, o⟩ ⟨ds, dn⟩) | _ => bad)
  | "ar.zopadd", [y, s, f, o, ds, dn] => some (match ints? [y, s, f, o, ds, dn] with
      | some [y, s, f, o, ds, dn] => showRes showZ (M.Zoned.add ⟨mkDT y s f, o⟩ ⟨ds, dn⟩) | _ => bad)
  | "ar.zopsub", [y, s, f, o, ds, dn] => some (match ints? [y, s, f, o, ds, dn] with
      | some [y, s, f, o, ds, dn] => showRes showZ (M.Zoned.sub ⟨mkDT y s f, o⟩ ⟨ds, dn⟩) | _ => bad)
  | "ar.zstdadd", [y, s, f, o, ds, dn] => some (match ints? [y, s, f, o, ds, dn] with
      | some [y, s, f, o, ds, dn] => showRes showZ (M.Zoned.add_std ⟨mkDT y s f, o⟩ ds dn) | _ => bad)
  | "ar.zstdsub", [y, s, f, o, ds, dn] => some (match ints? [y, s, f, o, ds, dn] with
      | some [y, s, f, o, ds, dn] => showRes showZ (M.Zoned.sub_std ⟨mkDT y s f, o⟩ ds dn) | _ => bad)
  | "ar.zdiff", [y1, s1, f1, o1, y2, s2, f2, o2] => some (match ints? [y1, s1, f1, o1, y2, s2, f2, o2] with
      | some [y1, s1, f1, o1, y2, s2, f2, o2] =>
        showRes showDelta (M.Zoned.signed_duration_since ⟨mkDT y1 s1 f1, o1⟩ ⟨mkDT y2 s2 f2, o2⟩) | _ => bad)
  | _, _ => none

end Chrono.Drv.DateArith
