import Chrono.Drv.Util
import Chrono.Model.TextFormsExt
/-!
  Driver ops of C09 (prefix `tx.`).  A value op prints, for the `Debug` form and then for the
  `Display` form: the text (`x<hex>` | `err` | `panic`) and what `FromStr` makes of that text
  (`ok <value>` | `err <Kind>` | `panic`, `-` when there is no text), separated by ` | `.
  * `tx.date <yof>`                      value = `<yof>`
  * `tx.time <secs> <frac>`              value = `<secs> <frac>`
  * `tx.ndt <yof> <secs> <frac>`         value = `<yof> <secs> <frac>`
  * `tx.dtf <yof> <secs> <frac> <off>`   `DateTime<FixedOffset>` given by its UTC reading and offset;
                                          value = `<yof> <secs> <frac> <off>`
  * `tx.dtu <yof> <secs> <frac>`         `DateTime<Utc>`; value = `<yof> <secs> <frac>`
  * `tx.off <off>`                       `FixedOffset`; value = `<off>`
  * `tx.utc`                             → `x5a x555443`
  * `tx.wd <0..6>` / `tx.mo <0..11>`     → `x<Debug> x<Display|name> <parse> <parse>` (index | none)
  * `tx.<type>.parse x<text>`            `FromStr` alone (type ∈ date, time, ndt, dtf, dtu, off)
  * `tx.dtf.local <yof> <secs> <frac> <off>`  `naive_utc().checked_add_offset(offset)`: the wall clock
                                          if it is a `NaiveDate` → `some <yof> <secs> <frac>` | `none` | `panic`
  * `tx.dtl <yof> <secs> <frac> <off>`   `DateTime<Local>` holding that UTC reading, `<off>` being the
                                          offset the system zone gave it; `FromStr for DateTime<Local>`
                                          with the zone answering `<off>` (exact whenever the text reads
                                          back as the same instant)
  The `Display` column of `tx.date` / `tx.time` / `tx.off` runs the models of the `Display` impls
  (`date_display`, `time_display`, `offset_display`); `NaiveTime`'s `FromStr` is the stateful
  `time_from_str_st` (Model/TextFormsExt.lean).
-/
namespace Chrono.Drv.TextForms
open Chrono Chrono.M Chrono.Drv Chrono.M.Format Chrono.M.TextForms

def showW (w : W) : String :=
  match w with
  | .ok (some b) => hexEncode b
  | .ok none => "err"
  | .panic => "panic"

def showRP {α} (f : α → String) (r : Parsed.RP α) : String :=
  match r with
  | .ok (.ok a) => s!"ok {f a}"
  | .ok (.error e) => s!"err {e.code}"
  | .panic => "panic"

def showDate (d : M.Date) : String := toString d.yof
def showTime (t : M.Time) : String := s!"{t.secs} {t.frac}"
def showDT (dt : NaiveDT) : String := s!"{showDate dt.date} {showTime dt.time}"
def showZ (z : Zoned) : String := s!"{showDT z.utc} {z.off}"
def showZU (z : Zoned) : String := showDT z.utc

/-- text, then the reading of the text -/
def both (w : W) (rd : List Nat → String) : String :=
  match w with
  | .ok (some b) => s!"{hexEncode b} | {rd b}"
  | _ => s!"{showW w} | -"

def rdDate (s : List Nat) : String := showRP showDate (date_from_str s)
def rdTime (s : List Nat) : String := showRP showTime (.ok (time_from_str_st s))
def rdNdt (s : List Nat) : String := showRP showDT (naive_from_str s)
def rdDtf (s : List Nat) : String := showRP showZ (fixed_from_str s)
def rdDtu (s : List Nat) : String := showRP showZU (utc_from_str s)
def rdOff (s : List Nat) : String := showRP toString (.ok (offset_from_str s))

def showOptNatIdx (o : Option Nat) : String := match o with | some i => toString i | none => "none"

def handle (op : String) (args : List String) : Option String :=
  match op, args with
  | "tx.date", [y] => some (match int? y with
      | some y => s!"{both (date_debug ⟨y⟩) rdDate} | {both (date_display ⟨y⟩) rdDate}"
      | none => bad)
  | "tx.time", [s, f] => some (match int? s, int? f with
      | some s, some f => s!"{both (time_debug ⟨s, f⟩) rdTime} | {both (time_display ⟨s, f⟩) rdTime}"
      | _, _ => bad)
  | "tx.ndt", [y, s, f] => some (match ints? [y, s, f] with
      | some [y, s, f] =>
        let dt : NaiveDT := ⟨⟨y⟩, ⟨s, f⟩⟩
        s!"{both (naive_debug dt) rdNdt} | {both (naive_display dt) rdNdt}"
      | _ => bad)
  | "tx.dtf", [y, s, f, o] => some (match ints? [y, s, f, o] with
      | some [y, s, f, o] =>
        let z : Zoned := ⟨⟨⟨y⟩, ⟨s, f⟩⟩, o⟩
        s!"{both (fixed_debug z) rdDtf} | {both (fixed_display z) rdDtf}"
      | _ => bad)
  | "tx.dtu", [y, s, f] => some (match ints? [y, s, f] with
      | some [y, s, f] =>
        let u : NaiveDT := ⟨⟨y⟩, ⟨s, f⟩⟩
        s!"{both (utc_dt_debug u) rdDtu} | {both (utc_dt_display u) rdDtu}"
      | _ => bad)
  | "tx.off", [o] => some (match int? o with
      | some o => s!"{both (wok (offset_debug o)) rdOff} | {both (wok (offset_display o)) rdOff}"
      | none => bad)
  | "tx.utc", [] => some s!"{hexEncode utc_debug} {hexEncode utc_display}"
  | "tx.wd", [i] => some (match (nat? i).bind (fun i => M.Weekday.all[i]?) with
      | some w =>
        let p (s : List Nat) := showOptNatIdx ((M.Weekday.parse s).map M.Weekday.toNat)
        s!"{hexEncode (weekday_debug w)} {hexEncode w.display} {p (weekday_debug w)} {p w.display}"
      | none => bad)
  | "tx.mo", [i] => some (match (nat? i).bind (fun i => Month.all[i]?) with
      | some m =>
        let p (s : List Nat) := showOptNatIdx ((Month.parse s).map Month.toNat)
        s!"{hexEncode (month_debug m)} {hexEncode m.name} {p (month_debug m)} {p m.name}"
      | none => bad)
  | "tx.dtl", [y, s, f, o] => some (match ints? [y, s, f, o] with
      | some [y, s, f, o] =>
        let z : Zoned := ⟨⟨⟨y⟩, ⟨s, f⟩⟩, o⟩
        let rd (t : List Nat) : String := showRP showZ (local_from_str (fun _ => o) t)
        s!"{both (local_dt_debug z) rd} | {both (local_dt_display z) rd}"
      | _ => bad)
  | "tx.dtf.local", [y, s, f, o] => some (match ints? [y, s, f, o] with
      | some [y, s, f, o] =>
        (match NaiveDT.checked_add_offset ⟨⟨y⟩, ⟨s, f⟩⟩ o with
         | .ok (some l) => s!"some {showDT l}"
         | .ok none => "none"
         | .panic => "panic")
      | _ => bad)
  | "tx.date.parse", [s] => some ((hexDecode s).elim bad rdDate)
  | "tx.time.parse", [s] => some ((hexDecode s).elim bad rdTime)
  | "tx.ndt.parse", [s] => some ((hexDecode s).elim bad rdNdt)
  | "tx.dtf.parse", [s] => some ((hexDecode s).elim bad rdDtf)
  | "tx.dtu.parse", [s] => some ((hexDecode s).elim bad rdDtu)
  | "tx.off.parse", [s] => some ((hexDecode s).elim bad rdOff)
  | _, _ => none

end Chrono.Drv.TextForms
