import Chrono.Drv.Util
import Chrono.Model.TextFormsExt
/-!
  Driver ops of C09 (prefix `tx.`).  A value op prints, for the `Debug` form and then for the
  `Display` form: the text (`x<hex>` | `err` | `panic`) and what `FromStr` makes of that text
  (`ok <value>` | `err <Kind>` | `panic`, `-` when there is no text), separated by ` | `.
  * `tx.date <yof>`                      value = `<yof>`
  * `tx.time <secs> <frac>`              value = `<secs> <frac>`
  * `tx.ndt <yof> <secs> <frac>`         value = `<yof> <secs> <frac>`
  * `tx.dtf <yof> <secs> <frac> <off>`   `DateTime<FixedOffset>` given by its UTC reading and offset;
                                          value = `<yof> <secs> <frac> <off>`
  * `tx.dtu <yof> <secs> <frac>`         `DateTime<Utc>`; value = `<yof> <secs> <frac>`
  * `tx.off <off>`                       `FixedOffset`; value = `<off>`
  * `tx.utc`                             → `x5a x555443`
  * `tx.wd <0..6>` / `tx.mo <0..11>`     → `x<Debug> x<Display|name> <parse> <parse>` (index | none)
  * `tx.<type>.parse x<text>`            `FromStr` alone (type ∈ date, time, ndt, dtf, dtu, off)
  * `tx.dtf.local <yof> <secs> <frac> <off>`  `naive_utc().checked_add_offset(offset)`: the wall clock
                                          if it is a `NaiveDate` → `some <yof> <secs> <frac>` | `none` | `panic`
  * `tx.dtl <yof> <secs> <frac> <off> <od> <op>`  `DateTime<Local>` holding that UTC reading with the
                                          offset `<off>` (the one the system zone gave it, or a foreign one
                                          put there by `from_naive_utc_and_offset`); `FromStr for
                                          DateTime<Local>` of the `Debug` / `Display` text with the zone
                                          answering `<od>` / `<op>` = `Local.offset_from_utc_datetime` at the
                                          instant the text denotes (read by the harness through
                                          `DateTime<FixedOffset>`'s `FromStr`; `none` when it has no reading)
  * `tx.blockdate <y0> <y1>`             digest over EVERY date of the years `y0..=y1` in order: `Debug`
                                          text, `FromStr` of it, `Display` text (and `FromStr` of it when it
                                          differs from the `Debug` text)
  * `tx.blocktime <s0> <s1>`             the same for `NaiveTime`: every second `s0..=s1` × the fractions
                                          `blockFracs`, and the leap representation of each on a second 59
  The `Display` column of `tx.date` / `tx.time` / `tx.off` runs the models of the `Display` impls
  (`date_display`, `time_display`, `offset_display`); `NaiveTime`'s `FromStr` is the stateful
  `time_from_str_st` (Model/TextFormsExt.lean).
-/
namespace Chrono.Drv.TextForms
open Chrono Chrono.M Chrono.Drv Chrono.M.Format Chrono.M.TextForms

def showW (w : W) : String :=
  match w with
  | .ok (some b) => hexEncode b
  | .ok none => "err"
  | .panic => "panic"

def showRP {α} (f : α → String) (r : Parsed.RP α) : String :=
  match r with
  | .ok (.ok a) => s!"ok {f a}"
  | .ok (.error e) => s!"err {e.code}"
  | .panic => "panic"

def showDate (d : M.Date) : String := toString d.yof
def showTime (t : M.Time) : String := s!"{t.secs} {t.frac}"
def showDT (dt : NaiveDT) : String := s!"{showDate dt.date} {showTime dt.time}"
def showZ (z : Zoned) : String := s!"{showDT z.utc} {z.off}"
def showZU (z : Zoned) : String := showDT z.utc

/-- text, then the reading of the text -/
def both (w : W) (rd : List Nat → String) : String :=
  match w with
  | .ok (some b) => s!"{hexEncode b} | {rd b}"
  | _ => s!"{showW w} | -"

def rdDate (s : List Nat) : String := showRP showDate (date_from_str s)
def rdTime (s : List Nat) : String := showRP showTime (.ok (time_from_str_st s))
def rdNdt (s : List Nat) : String := showRP showDT (naive_from_str s)
def rdDtf (s : List Nat) : String := showRP showZ (fixed_from_str s)
def rdDtu (s : List Nat) : String := showRP showZU (utc_from_str s)
def rdOff (s : List Nat) : String := showRP toString (.ok (offset_from_str s))

def showOptNatIdx (o : Option Nat) : String := match o with | some i => toString i | none => "none"

/-! ### exhaustive blocks as digests (FNV-1a style mixing on machine words, as Drv/Date.lean) -/

def mix64 (h : UInt64) (v : Int) : UInt64 :=
  (h ^^^ v.toInt64.toUInt64) * 1099511628211

def seed64 : UInt64 := 14695981039346656037

/-- a text: its length, then its bytes; `-1` for `fmt::Error`, `-2` for a panic -/
def mixW (h : UInt64) (w : W) : UInt64 :=
  match w with
  | .ok (some b) => b.foldl (fun h (x : Nat) => mix64 h (Int.ofNat x)) (mix64 h (Int.ofNat b.length))
  | .ok none => mix64 h (-1)
  | .panic => mix64 h (-2)

/-- one value: `Debug` text, its reading, `Display` text, and its reading when the texts differ -/
def mixForms (h : UInt64) (dbg dsp : W) (rd : UInt64 → List Nat → UInt64) : UInt64 :=
  let h := mixW h dbg
  let h := match dbg with
    | .ok (some b) => rd h b
    | _ => mix64 h (-3)
  let h := mixW h dsp
  if dsp = dbg then h else
    match dsp with
    | .ok (some b) => rd h b
    | _ => mix64 h (-3)

def mixDateRead (h : UInt64) (s : List Nat) : UInt64 :=
  match date_from_str s with
  | .ok (.ok d) => mix64 h d.yof
  | .ok (.error _) => mix64 h (-1)
  | .panic => mix64 h (-2)

def mixTimeRead (h : UInt64) (s : List Nat) : UInt64 :=
  match time_from_str_st s with
  | .ok t => mix64 (mix64 h t.secs) t.frac
  | .error _ => mix64 h (-1)

/-- every date of the years `y0..=y1` in order (ordinals 1..=366 that `from_yo_opt` accepts) -/
def blockDate (y0 y1 : Int) : UInt64 :=
  let n := (y1 - y0 + 1).toNat
  (List.range n).foldl (fun h (i : Nat) =>
    (List.range 367).foldl (fun h o =>
      match M.Date.from_yo_opt (y0 + (i : Int)) o with
      | .ok (some d) => mixForms h (date_debug d) (date_display d) mixDateRead
      | _ => h) h) seed64

/-- representatives of the fraction classes: no digits, 3, 6 and 9 digits, each with its ends and with
leading / trailing zeros inside the printed digits (the harness uses the same list) -/
def blockFracs : List Int :=
  [0, 1, 999, 1000, 1001, 999000, 999999, 1000000, 1000001, 10000000, 100000000, 123456789, 500000000,
   999000000, 999999000, 999999999, 120000000, 123456000]

def blockTime (s0 s1 : Int) : UInt64 :=
  let n := (s1 - s0 + 1).toNat
  (List.range n).foldl (fun h (i : Nat) =>
    let secs := s0 + (i : Int)
    let h := blockFracs.foldl (fun h f =>
      mixForms h (time_debug ⟨secs, f⟩) (time_display ⟨secs, f⟩) mixTimeRead) h
    if secs % 60 = 59 then
      blockFracs.foldl (fun h f =>
        mixForms h (time_debug ⟨secs, f + 1000000000⟩) (time_display ⟨secs, f + 1000000000⟩) mixTimeRead) h
    else h) seed64

def intOr0 (s : String) : Int := (int? s).getD 0

def handle (op : String) (args : List String) : Option String :=
  match op, args with
  | "tx.blockdate", [y0, y1] => some (match int? y0, int? y1 with
      | some y0, some y1 => toString (blockDate y0 y1) | _, _ => bad)
  | "tx.blocktime", [s0, s1] => some (match int? s0, int? s1 with
      | some s0, some s1 => toString (blockTime s0 s1) | _, _ => bad)
  | "tx.date", [y] => some (match int? y with
      | some y => s!"{both (date_debug ⟨y⟩) rdDate} | {both (date_display ⟨y⟩) rdDate}"
      | none => bad)
  | "tx.time", [s, f] => some (match int? s, int? f with
      | some s, some f => s!"{both (time_debug ⟨s, f⟩) rdTime} | {both (time_display ⟨s, f⟩) rdTime}"
      | _, _ => bad)
  | "tx.ndt", [y, s, f] => some (match ints? [y, s, f] with
      | some [y, s, f] =>
        let dt : NaiveDT := ⟨⟨y⟩, ⟨s, f⟩⟩
        s!"{both (naive_debug dt) rdNdt} | {both (naive_display dt) rdNdt}"
      | _ => bad)
  | "tx.dtf", [y, s, f, o] => some (match ints? [y, s, f, o] with
      | some [y, s, f, o] =>
        let z : Zoned := ⟨⟨⟨y⟩, ⟨s, f⟩⟩, o⟩
        s!"{both (fixed_debug z) rdDtf} | {both (fixed_display z) rdDtf}"
      | _ => bad)
  | "tx.dtu", [y, s, f] => some (match ints? [y, s, f] with
      | some [y, s, f] =>
        let u : NaiveDT := ⟨⟨y⟩, ⟨s, f⟩⟩
        s!"{both (utc_dt_debug u) rdDtu} | {both (utc_dt_display u) rdDtu}"
      | _ => bad)
  | "tx.off", [o] => some (match int? o with
      | some o => s!"{both (wok (offset_debug o)) rdOff} | {both (wok (offset_display o)) rdOff}"
      | none => bad)
  | "tx.utc", [] => some s!"{hexEncode utc_debug} {hexEncode utc_display}"
  | "tx.wd", [i] => some (match (nat? i).bind (fun i => M.Weekday.all[i]?) with
      | some w =>
        let p (s : List Nat) := showOptNatIdx ((M.Weekday.parse s).map M.Weekday.toNat)
        s!"{hexEncode (weekday_debug w)} {hexEncode w.display} {p (weekday_debug w)} {p w.display}"
      | none => bad)
  | "tx.mo", [i] => some (match (nat? i).bind (fun i => Month.all[i]?) with
      | some m =>
        let p (s : List Nat) := showOptNatIdx ((Month.parse s).map Month.toNat)
        s!"{hexEncode (month_debug m)} {hexEncode m.name} {p (month_debug m)} {p m.name}"
      | none => bad)
  | "tx.dtl", [y, s, f, o, od, op] => some (match ints? [y, s, f, o] with
      | some [y, s, f, o] =>
        let z : Zoned := ⟨⟨⟨y⟩, ⟨s, f⟩⟩, o⟩
        -- the zone's answer at the instant each text denotes (`none`: the text has no reading, the
        -- zone is not asked)
        let rd (zo : String) (t : List Nat) : String := showRP showZ (local_from_str (fun _ => intOr0 zo) t)
        s!"{both (local_dt_debug z) (rd od)} | {both (local_dt_display z) (rd op)}"
      | _ => bad)
  | "tx.dtf.local", [y, s, f, o] => some (match ints? [y, s, f, o] with
      | some [y, s, f, o] =>
        (match NaiveDT.checked_add_offset ⟨⟨y⟩, ⟨s, f⟩⟩ o with
         | .ok (some l) => s!"some {showDT l}"
         | .ok none => "none"
         | .panic => "panic")
      | _ => bad)
  | "tx.date.parse", [s] => some ((hexDecode s).elim bad rdDate)
  | "tx.time.parse", [s] => some ((hexDecode s).elim bad rdTime)
  | "tx.ndt.parse", [s] => some ((hexDecode s).elim bad rdNdt)
  | "tx.dtf.parse", [s] => some ((hexDecode s).elim bad rdDtf)
  | "tx.dtu.parse", [s] => some ((hexDecode s).elim bad rdDtu)
  | "tx.off.parse", [s] => some ((hexDecode s).elim bad rdOff)
  | _, _ => none

end Chrono.Drv.TextForms
