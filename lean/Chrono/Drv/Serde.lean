/- Line-protocol handlers for C20 (op prefix `sd.`): the sixteen serde timestamp modules, the
`TimeDelta` tuple form, weekday / month names, and the string forms:
  * `sd.nd.ser <yof>` / `sd.nt.ser <secs> <frac>` / `sd.ndt.ser <yof> <secs> <frac>` / `sd.dt.ser <yof> <secs>
    <frac> <off>`: the text `Serialize` hands to `collect_str` (`x<hex>` | `err` | `panic`);
  * `sd.nd.de x<text>` / `sd.nt.de` / `sd.ndt.de` / `sd.dt.de fixed|utc x<text>`: what `visit_str` answers
    (`ok <value>` | `err` | `panic`);
  * `sd.dt.de local <off> x<text>`: `Deserialize for DateTime<Local>` in a process whose time zone has the
    fixed offset `<off>` (seconds east). -/
import Chrono.Drv.Util
import Chrono.Model.SerdeTs
import Chrono.Model.SerdeStr
import Chrono.Model.Weekday
namespace Chrono.Drv.Serde
open Chrono Chrono.M Chrono.M.Serde Chrono.Drv

def tg? : String → Option Target
  | "utc" => some .utc
  | "naive" => some .naive
  | _ => none
def unit? : String → Option TsUnit
  | "s" => some .secs
  | "ms" => some .millis
  | "us" => some .micros
  | "ns" => some .nanos
  | _ => none

def dt? (y s f : String) : Option NaiveDT :=
  match int? y, int? s, int? f with
  | some y, some s, some f => some ⟨⟨y⟩, ⟨s, f⟩⟩
  | _, _, _ => none

/-- `i <v>` = `visit_i64(v)`, `u <v>` = `visit_u64(v)`, `x` = anything else -/
def wint? : List String → Option WInt
  | ["i", v] => (int? v).map .i64
  | ["u", v] => (int? v).map .u64
  | ["x"] => some .other
  | _ => none
def wopt? : List String → Option WOpt
  | ["none"] => some .none
  | ["unit"] => some .unit
  | ["other"] => some .other
  | "some" :: rest => (wint? rest).map .some
  | _ => none

def showDT (dt : NaiveDT) : String := s!"{dt.date.yof} {dt.time.secs} {dt.time.frac}"
def showSR {α} (f : α → String) : SR α → String
  | .ok a => "ok " ++ f a
  | .err => "err"
def showOut : SOut → String
  | .i64 n => s!"i64 {n}"
  | .none => "none"
  | .some n => s!"some {n}"
def showODT : Option NaiveDT → String
  | some dt => showDT dt
  | none => "none"

def showW (w : Format.W) : String :=
  match w with
  | .ok (some b) => hexEncode b
  | .ok none => "err"
  | .panic => "panic"

def wd? (s : String) : Option M.Weekday := (nat? s).bind (fun i => M.Weekday.all[i]?)
def mo? (s : String) : Option Month := (nat? s).bind (fun i => Month.all[i]?)

def handle (op : String) (args : List String) : Option String :=
  match op, args with
  | "sd.ser", [t, u, y, s, f] => some (match tg? t, unit? u, dt? y s f with
      | some t, some u, some dt => showRes (showSR showOut) (serialize t u dt)
      | _, _, _ => bad)
  | "sd.sero", [t, u, "none"] => some (match tg? t, unit? u with
      | some t, some u => showRes (showSR showOut) (serialize_option t u none)
      | _, _ => bad)
  | "sd.sero", [t, u, y, s, f] => some (match tg? t, unit? u, dt? y s f with
      | some t, some u, some dt => showRes (showSR showOut) (serialize_option t u (some dt))
      | _, _, _ => bad)
  | "sd.de", t :: u :: w => some (match tg? t, unit? u, wint? w with
      | some t, some u, some w => showRes (showSR showDT) (deserialize t u w)
      | _, _, _ => bad)
  | "sd.deo", t :: u :: w => some (match tg? t, unit? u, wopt? w with
      | some t, some u, some w => showRes (showSR showODT) (deserialize_option t u w)
      | _, _, _ => bad)
  | "sd.nd.ser", [y] => some (match int? y with
      | some y => showW (NaiveDateStr.serialize ⟨y⟩)
      | none => bad)
  | "sd.nt.ser", [s, f] => some (match int? s, int? f with
      | some s, some f => showW (NaiveTimeStr.serialize ⟨s, f⟩)
      | _, _ => bad)
  | "sd.ndt.ser", [y, s, f] => some (match dt? y s f with
      | some dt => showW (NaiveDateTimeStr.serialize dt)
      | none => bad)
  | "sd.nd.de", [x] => some (match hexDecode x with
      | some b => showRes (showSR fun (d : M.Date) => toString d.yof) (NaiveDateStr.visit_str b)
      | none => bad)
  | "sd.nt.de", [x] => some (match hexDecode x with
      | some b => showRes (showSR fun (t : M.Time) => s!"{t.secs} {t.frac}") (NaiveTimeStr.visit_str b)
      | none => bad)
  | "sd.ndt.de", [x] => some (match hexDecode x with
      | some b => showRes (showSR showDT) (NaiveDateTimeStr.visit_str b)
      | none => bad)
  | "sd.dt.ser", [y, s, f, o] => some (match dt? y s f, int? o with
      | some dt, some o => showW (DateTimeStr.serialize ⟨dt, o⟩)
      | _, _ => bad)
  | "sd.dt.de", ["local", o, x] => some (match int? o, hexDecode x with
      | some o, some b =>
        showRes (showSR fun (z : Zoned) => s!"{showDT z.utc} {z.off}") (DateTimeStr.deserialize_local (fun _ => o) b)
      | _, _ => bad)
  | "sd.dt.de", [t, x] => some (match hexDecode x with
      | some b =>
        let r := if t == "utc" then DateTimeStr.deserialize_utc b else DateTimeStr.deserialize_fixed b
        showRes (showSR fun (z : Zoned) => s!"{showDT z.utc} {z.off}") r
      | none => bad)
  | "sd.td.ser", [s, n] => some (match int? s, int? n with
      | some s, some n => let p := TimeDelta.serialize ⟨s, n⟩; s!"{p.1} {p.2}"
      | _, _ => bad)
  | "sd.td.de", [s, n] => some (match int? s, int? n with
      | some s, some n => showSR (fun (d : M.Delta) => s!"{d.secs} {d.nanos}") (TimeDelta.deserialize (s, n))
      | _, _ => bad)
  | "sd.wd.ser", [a] => some ((wd? a).elim bad (fun w => hexEncode w.display))
  | "sd.wd.de", [s] => some ((hexDecode s).elim bad (fun b =>
      showSR (fun (w : M.Weekday) => toString w.toNat) (ok_or (M.Weekday.parse b))))
  | "sd.mo.ser", [a] => some ((mo? a).elim bad (fun m => hexEncode m.name))
  | "sd.mo.de", [s] => some ((hexDecode s).elim bad (fun b =>
      showSR (fun (m : Month) => toString m.toNat) (ok_or (Month.parse b))))
  | _, _ => none

end Chrono.Drv.Serde
