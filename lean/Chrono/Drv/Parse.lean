import Chrono.Drv.Util
import Chrono.Model.Parse
namespace Chrono.Drv.Parse
open Chrono Chrono.M Chrono.Drv

def showPR (r : PRes (Parsed × List Nat)) : String :=
  match r with
  | .ok (p, rest) => s!"ok {p.dump} rest={rest.length}"
  | .error e => s!"err {e.code}"

def handle (op : String) (args : List String) : Option String :=
  match op, args with
  -- `format::parse_and_remainder(&mut Parsed::new(), s, items)`
  | "ps.items", [items, s] => some (match decodeItems items, hexDecode s with
      | some is, some bs => showPR (Parse.parse_internal Parsed.new bs is)
      | _, _ => bad)
  -- `format::parse` (must consume everything)
  | "ps.parse", [items, s] => some (match decodeItems items, hexDecode s with
      | some is, some bs => (match Parse.parse Parsed.new bs is with
          | .ok p => s!"ok {p.dump}"
          | .error e => s!"err {e.code}")
      | _, _ => bad)
  | _, _ => none

end Chrono.Drv.Parse
