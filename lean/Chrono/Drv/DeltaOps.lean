import Chrono.Drv.Util
import Chrono.Drv.Delta
import Chrono.Model.DeltaOps
/-! Driver ops for the panicking constructors, the operator impls and the constants of `TimeDelta`. -/
namespace Chrono.Drv.DeltaOps
open Chrono Chrono.M Chrono.Drv Chrono.Drv.Delta

def showRD : Res M.Delta → String := showRes showD

/-- the panicking constructor of that name -/
def ctor? : String → Option (Int → Res M.Delta)
  | "weeks" => some M.Delta.weeks
  | "days" => some M.Delta.days
  | "hours" => some M.Delta.hours
  | "minutes" => some M.Delta.minutes
  | "seconds" => some M.Delta.seconds
  | "milliseconds" => some M.Delta.milliseconds
  | _ => none

def handle (op : String) (args : List String) : Option String :=
  match op, args with
  | "td.unit", [u, n] => some (match ctor? u, int? n with
      | some f, some n => showRD (f n) | _, _ => bad)
  | "td.op_add", [s1, n1, s2, n2] => some (match ints? [s1, n1, s2, n2] with
      | some [s1, n1, s2, n2] => showRD (M.Delta.add ⟨s1, n1⟩ ⟨s2, n2⟩) | _ => bad)
  | "td.op_sub", [s1, n1, s2, n2] => some (match ints? [s1, n1, s2, n2] with
      | some [s1, n1, s2, n2] => showRD (M.Delta.sub ⟨s1, n1⟩ ⟨s2, n2⟩) | _ => bad)
  | "td.op_add_assign", [s1, n1, s2, n2] => some (match ints? [s1, n1, s2, n2] with
      | some [s1, n1, s2, n2] => showRD (M.Delta.add_assign ⟨s1, n1⟩ ⟨s2, n2⟩) | _ => bad)
  | "td.op_sub_assign", [s1, n1, s2, n2] => some (match ints? [s1, n1, s2, n2] with
      | some [s1, n1, s2, n2] => showRD (M.Delta.sub_assign ⟨s1, n1⟩ ⟨s2, n2⟩) | _ => bad)
  | "td.op_mul", [s, n, k] => some (match ints? [s, n, k] with
      | some [s, n, k] => showRD (M.Delta.mul ⟨s, n⟩ k) | _ => bad)
  | "td.op_div", [s, n, k] => some (match ints? [s, n, k] with
      | some [s, n, k] => showRD (M.Delta.div ⟨s, n⟩ k) | _ => bad)
  | "td.consts", [] => some (joinSp [showD M.Delta.MIN, showD M.Delta.MAX, showD M.Delta.zero,
      showD M.Delta.min_value, showD M.Delta.max_value])
  | "td.rel", [s1, n1, s2, n2] => some (match ints? [s1, n1, s2, n2] with
      | some [s1, n1, s2, n2] =>
        let a : M.Delta := ⟨s1, n1⟩
        let b : M.Delta := ⟨s2, n2⟩
        joinSp [showBool (M.Delta.eq a b), showOpt toString (M.Delta.partial_cmp a b), showBool (M.Delta.lt a b),
          showBool (M.Delta.le a b), showBool (M.Delta.gt a b), showBool (M.Delta.ge a b)]
      | _ => bad)
  | "td.de", [s, n] => some (match ints? [s, n] with
      | some [s, n] => showOD (M.Delta.deserialize s n) | _ => bad)
  | _, _ => none

end Chrono.Drv.DeltaOps
