import Chrono.Drv.Util
import Chrono.Drv.DateOps
import Chrono.Drv.DateTimeOps
import Chrono.Model.MonthsOps
namespace Chrono.Drv.MonthsOps
open Chrono Chrono.M Chrono.Drv Chrono.Drv.DateOps Chrono.Drv.DateTimeOps

/-! The operator forms `+ Months` / `- Months`, the panicking alias `from_weekday_of_month` and the
inherited `Datelike` defaults of C08 (prefix `dox.`).  Encodings as in Drv/DateOps.lean (a date is its
packed word) and Drv/DateTimeOps.lean (naive `yof secs frac`, zone-aware `yof secs frac off`). -/

def miscOf (q : Res Nat) (ce : Res (Bool × Int)) (n : Res Nat) : String :=
  let q := match q with | .ok q => toString q | .panic => "panic"
  let ce := match ce with | .ok (b, y) => s!"{showBool b} {y}" | .panic => "panic"
  let n := match n with | .ok n => toString n | .panic => "panic"
  s!"{q} {ce} {n}"

def handle (op : String) (args : List String) : Option String :=
  match op, args with
  | "dox.dm", [dir, yof, n] => some (match int? yof, nat? n with
      | some v, some n =>
        if dir = "add" then showRD (M.Date.add_months_op ⟨v⟩ (Months.new n))
        else if dir = "sub" then showRD (M.Date.sub_months_op ⟨v⟩ (Months.new n)) else bad
      | _, _ => bad)
  | "dox.nm", [dir, y, s, f, n] => some (match n? [y, s, f], nat? n with
      | some dt, some n =>
        if dir = "add" then showRes showN (dt.add_months_op (Months.new n))
        else if dir = "sub" then showRes showN (dt.sub_months_op (Months.new n)) else bad
      | _, _ => bad)
  | "dox.zm", [dir, y, s, f, o, n] => some (match z? [y, s, f, o], nat? n with
      | some z, some n =>
        if dir = "add" then showRes showZ (z.add_months_op (Months.new n))
        else if dir = "sub" then showRes showZ (z.sub_months_op (Months.new n)) else bad
      | _, _ => bad)
  | "dox.months", [n] => some ((nat? n).elim bad fun n => toString (Months.as_u32 (Months.new n)))
  | "dox.nthp", [y, m, wd, n] => some (match int? y, nat? m, wd? wd, nat? n with
      | some y, some m, some wd, some n => showRD (M.Date.from_weekday_of_month y m wd n)
      | _, _, _, _ => bad)
  | "dox.nmisc", [y, s, f] => some ((n? [y, s, f]).elim bad fun dt =>
      miscOf dt.quarter dt.year_ce dt.num_days_in_month)
  | "dox.zmisc", [y, s, f, o] => some ((z? [y, s, f, o]).elim bad fun z =>
      miscOf z.quarter z.year_ce z.num_days_in_month)
  | _, _ => none

end Chrono.Drv.MonthsOps
