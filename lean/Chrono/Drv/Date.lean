import Chrono.Drv.Util
import Chrono.Model.Date
import Chrono.Spec.Calendar
namespace Chrono.Drv.Date
open Chrono Chrono.M Chrono.Drv

/-- the observable fields of a date, in protocol order -/
def obsList (d : M.Date) : Res (List Int) :=
  match d.month, d.day, d.num_days_from_ce, d.iso_week with
  | .ok m, .ok dd, .ok n, .ok iw =>
    .ok [d.yof, d.year, m, dd, d.ordinal, d.weekday.toNat, IsoWeek.year iw, IsoWeek.week iw, n,
         if d.leap_year then 1 else 0]
  | _, _, _, _ => .panic

def showObs (d : M.Date) : String :=
  match obsList d with
  | .ok xs => joinSp (xs.map toString)
  | .panic => "panic"

def showROD (r : Res (Option M.Date)) : String :=
  match r with
  | .ok (some d) => showObs d
  | .ok none => "none"
  | .panic => "panic"

def showRODyof (r : Res (Option M.Date)) : String :=
  match r with
  | .ok (some d) => toString d.yof
  | .ok none => "none"
  | .panic => "panic"

/-- value-wise FNV-style mixing (64 bit) -/
def mix (h : Nat) (v : Int) : Nat :=
  ((h ^^^ (v % 18446744073709551616).toNat) * 1099511628211) % 18446744073709551616

/-- the same mixing on machine words (fast path for the block digests) -/
def mix64 (h : UInt64) (v : Int) : UInt64 :=
  (h ^^^ v.toInt64.toUInt64) * 1099511628211

def mixObs (h : UInt64) (r : Res (Option M.Date)) : UInt64 :=
  match r with
  | .ok (some d) => match obsList d with
    | .ok xs => xs.foldl mix64 h
    | .panic => mix64 h (-2)
  | .ok none => mix64 h (-1)
  | .panic => mix64 h (-2)

/-- digest of all `from_yo_opt(y, 0..=367)` results of one year -/
def yearDigestYo (h : UInt64) (y : Int) : UInt64 :=
  (List.range 368).foldl (fun h o => mixObs h (M.Date.from_yo_opt y o)) h

/-- digest of all `from_ymd_opt(y, 0..=13, 0..=32)` results of one year (packed word only) -/
def yearDigestYmd (h : UInt64) (y : Int) : UInt64 :=
  (List.range 14).foldl (fun h m =>
    (List.range 33).foldl (fun h d =>
      match M.Date.from_ymd_opt y m d with
      | .ok (some x) => mix64 h x.yof
      | .ok none => mix64 h (-1)
      | .panic => mix64 h (-2)) h) h

def blockDigest (f : UInt64 → Int → UInt64) (y0 y1 : Int) : UInt64 :=
  let n := (y1 - y0 + 1).toNat
  (List.range n).foldl (fun h (i : Nat) => f h (y0 + (i : Int))) 14695981039346656037

def handle (op : String) (args : List String) : Option String :=
  match op, args with
  | "d.ymd", [y, m, d] => some (match int? y, nat? m, nat? d with
      | some y, some m, some d => showROD (M.Date.from_ymd_opt y m d) | _, _, _ => bad)
  | "d.yo", [y, o] => some (match int? y, nat? o with
      | some y, some o => showROD (M.Date.from_yo_opt y o) | _, _ => bad)
  | "d.isoywd", [y, w, wd] => some (match int? y, nat? w, (nat? wd).bind (fun i => M.Weekday.all[i]?) with
      | some y, some w, some wd => showROD (M.Date.from_isoywd_opt y w wd) | _, _, _ => bad)
  | "d.days", [n] => some ((int? n).elim bad (fun n => showROD (M.Date.from_num_days_from_ce_opt n)))
  | "d.obs", [yof] => some ((int? yof).elim bad (fun v => showObs ⟨v⟩))
  | "d.succ", [yof] => some ((int? yof).elim bad (fun v => showRODyof (M.Date.succ_opt ⟨v⟩)))
  | "d.pred", [yof] => some ((int? yof).elim bad (fun v => showRODyof (M.Date.pred_opt ⟨v⟩)))
  | "d.add", [yof, n] => some (match int? yof, int? n with
      | some v, some n => showRODyof (M.Date.add_days ⟨v⟩ n) | _, _ => bad)
  | "d.cmp", [a, b] => some (match int? a, int? b with
      | some a, some b => toString (M.Date.cmp ⟨a⟩ ⟨b⟩) | _, _ => bad)
  | "d.blockyo", [y0, y1] => some (match int? y0, int? y1 with
      | some y0, some y1 => toString (blockDigest yearDigestYo y0 y1) | _, _ => bad)
  | "d.blockymd", [y0, y1] => some (match int? y0, int? y1 with
      | some y0, some y1 => toString (blockDigest yearDigestYmd y0 y1) | _, _ => bad)
  -- the SPECIFICATION (not the model): day number, weekday, validity, leap, year length; used to
  -- validate the specification itself against references that share no code with chrono
  | "spec.day", [y, m, d] => some (match int? y, nat? m, nat? d with
      | some y, some m, some d =>
        s!"{Spec.dayNum y m d} {Spec.weekdayOf (Spec.dayNum y m d)} {showBool (Spec.validYmd y m d)} {showBool (Spec.isLeap y)} {Spec.yearLen y}"
      | _, _, _ => bad)
  | _, _ => none

end Chrono.Drv.Date
