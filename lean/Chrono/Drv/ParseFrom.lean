import Chrono.Drv.Util
import Chrono.Model.ParseFrom
import Chrono.Spec.UnambiguousSpec
/-!
  Driver ops of C13 (prefix `pf.`); `<T>` = `date` | `time` | `naive` | `zoned`,
  value tokens: date `<yof>`, time `<secs> <frac>`, naive `<yof> <secs> <frac>`,
  zoned `<yof> <secs> <frac> <off>` (UTC reading + offset).
  * `pf.p <T> x<fmt> x<text>`  → `T::parse_from_str(text, fmt)`: `ok <value>` | `err <Kind>` | `panic`
  * `pf.r <T> x<fmt> x<text>`  → `T::parse_and_remainder`: `ok <value> rest=<bytes left>` | …
  * `pf.f <T> x<fmt> <value>`  → `value.format(fmt)`: `x<text>` | `err` | `panic`
  * `pf.rt <T> x<fmt> <value>` → the round trip: `x<text> <parse result>` | `err` | `panic`
  * `pf.spec <Numeric>`        → the parser's table row: `<width|max> <signed 0|1>`
  * `pf.sp <T> x<fmt> <value> | <observed round-trip result…>` → validation of the *specification*
      against the implementation: `agree` if `Spec.Unambiguous`/`Spec.expressible` predict
      `ok (truncate_to_precision …)` for this format and value and that is what the implementation
      returned; `MISMATCH <prediction>` if it predicts something else; `nopred` if the specification
      predicts nothing (so a case for which the harness REQUIRES a prediction refutes a narrowing of
      the family).  `pf.spl …` is the lenient form for cases outside the required classes: `agree` also
      where nothing is predicted.  `pf.spq …` → `pred` | `nopred`.
-/
namespace Chrono.Drv.ParseFrom
open Chrono Chrono.M Chrono.Drv Chrono.M.ParseFrom

def target? (s : String) : Option Target :=
  match s with
  | "date" => some .date | "time" => some .time | "naive" => some .naive | "zoned" => some .zoned
  | _ => none

def showValue : Value → String
  | .date d => toString d.yof
  | .time t => s!"{t.secs} {t.frac}"
  | .naive dt => s!"{dt.date.yof} {dt.time.secs} {dt.time.frac}"
  | .zoned z => s!"{z.utc.date.yof} {z.utc.time.secs} {z.utc.time.frac} {z.off}"

def value? (t : Target) (args : List String) : Option Value :=
  match t, ints? args with
  | .date, some [y] => some (.date ⟨y⟩)
  | .time, some [s, f] => some (.time ⟨s, f⟩)
  | .naive, some [y, s, f] => some (.naive ⟨⟨y⟩, ⟨s, f⟩⟩)
  | .zoned, some [y, s, f, o] => some (.zoned ⟨⟨⟨y⟩, ⟨s, f⟩⟩, o⟩)
  | _, _ => none

def showRP {α} (f : α → String) (r : Parsed.RP α) : String :=
  match r with
  | .ok (.ok a) => s!"ok {f a}"
  | .ok (.error e) => s!"err {e.code}"
  | .panic => "panic"

def showW (w : Format.W) : String :=
  match w with
  | .ok (some b) => hexEncode b
  | .ok none => "err"
  | .panic => "panic"

/-- the specification against an observed round-trip result: `agree` if the prediction
`ok (truncate_to_precision …)` is what was observed, `MISMATCH <prediction>` if it is not, and `noPred`
where `Spec.Unambiguous`/`Spec.expressible`/`truncate_to_precision` make no prediction -/
def specCheck (t f : String) (rest : List String) (noPred : String) : String :=
  match target? t, hexDecode f with
  | some t, some f =>
    let vtoks := rest.takeWhile (· != "|")
    let got := joinSp (rest.dropWhile (· != "|") |>.drop 1)
    (match value? t vtoks with
     | some v =>
       let is := Strftime.items f
       if Spec.Unambiguous is t ∧ Spec.expressible is v then
         match Spec.truncate_to_precision is v with
         | some v' => if s!"ok {showValue v'}" == got then "agree" else s!"MISMATCH ok {showValue v'}"
         | none => noPred
       else noPred
     | none => bad)
  | _, _ => bad

def handle (op : String) (args : List String) : Option String :=
  match op, args with
  | "pf.p", [t, f, s] => some (match target? t, hexDecode f, hexDecode s with
      | some t, some f, some s => showRP showValue (parse_from_str t s f)
      | _, _, _ => bad)
  | "pf.r", [t, f, s] => some (match target? t, hexDecode f, hexDecode s with
      | some t, some f, some s =>
        showRP (fun (vr : Value × List Nat) => s!"{showValue vr.1} rest={vr.2.length}") (parse_and_remainder t s f)
      | _, _, _ => bad)
  | "pf.f", t :: f :: v => some (match target? t, hexDecode f with
      | some t, some f => (match value? t v with
          | some v => showW (format v f)
          | none => bad)
      | _, _ => bad)
  | "pf.rt", t :: f :: v => some (match target? t, hexDecode f with
      | some t, some f => (match value? t v with
          | some v => (match format v f with
              | .ok (some text) => s!"{hexEncode text} {showRP showValue (parse_from_str t text f)}"
              | w => showW w)
          | none => bad)
      | _, _ => bad)
  | "pf.sp", t :: f :: rest => some (specCheck t f rest "nopred")
  | "pf.spl", t :: f :: rest => some (specCheck t f rest "agree")
  | "pf.spq", t :: f :: v => some (match target? t, hexDecode f with
      | some t, some f =>
        (match value? t v with
         | some v =>
           let is := Strftime.items f
           if Spec.Unambiguous is t ∧ Spec.expressible is v ∧ (Spec.truncate_to_precision is v).isSome
           then "pred" else "nopred"
         | none => bad)
      | _, _ => bad)
  | "pf.spec", [n] => some (match Numeric.ofName n with
      | some n =>
        let r := Parse.numericSpec n
        let w := match r.1 with | some w => toString w | none => "max"
        s!"{w} {showBool r.2.1}"
      | none => bad)
  | _, _ => none

end Chrono.Drv.ParseFrom
