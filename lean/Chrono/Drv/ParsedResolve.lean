import Chrono.Drv.Util
import Chrono.Model.ParsedResolve
import Chrono.Model.ParsedZone
namespace Chrono.Drv.ParsedResolve
open Chrono Chrono.M Chrono.Drv

def showRP {α} (f : α → String) (r : Parsed.RP α) : String :=
  match r with
  | .ok (.ok a) => s!"ok {f a}"
  | .ok (.error e) => s!"err {e.code}"
  | .panic => "panic"

def showDate (d : M.Date) : String := toString d.yof
def showTime (t : M.Time) : String := s!"{t.secs} {t.frac}"
def showDT (dt : NaiveDT) : String := s!"{showDate dt.date} {showTime dt.time}"
def showZ (z : Zoned) : String := s!"{showDT z.utc} {z.off}"

/-- `pr.set <field> <value> <21 tokens>`: one setter applied to a given record -/
def applySet (field : String) (v : Int) (p : Parsed) : Option (PRes Parsed) :=
  match field with
  | "year" => some (p.set_year v)
  | "year_div_100" => some (p.set_year_div_100 v)
  | "year_mod_100" => some (p.set_year_mod_100 v)
  | "isoyear" => some (p.set_isoyear v)
  | "isoyear_div_100" => some (p.set_isoyear_div_100 v)
  | "isoyear_mod_100" => some (p.set_isoyear_mod_100 v)
  | "quarter" => some (p.set_quarter v)
  | "month" => some (p.set_month v)
  | "week_from_sun" => some (p.set_week_from_sun v)
  | "week_from_mon" => some (p.set_week_from_mon v)
  | "isoweek" => some (p.set_isoweek v)
  | "weekday" => (Weekday.all[v.toNat]?).map fun w => p.set_weekday w
  | "ordinal" => some (p.set_ordinal v)
  | "day" => some (p.set_day v)
  | "ampm" => some (p.set_ampm (v != 0))
  | "hour12" => some (p.set_hour12 v)
  | "hour" => some (p.set_hour v)
  | "minute" => some (p.set_minute v)
  | "second" => some (p.set_second v)
  | "nanosecond" => some (p.set_nanosecond v)
  | "timestamp" => some (p.set_timestamp v)
  | "offset" => some (p.set_offset v)
  | _ => none

/-- `T o1 o2` -/
def stepZone? (ts : List String) : Option StepZone :=
  match ints? ts with
  | some [t, o1, o2] => some ⟨t, o1, o2⟩
  | _ => none

/-- `yof secs frac` -/
def naive? (ts : List String) : Option NaiveDT :=
  match ints? ts with
  | some [y, s, f] => some ⟨⟨y⟩, ⟨s, f⟩⟩
  | _ => none

def showMapped (m : Res (TzL.Mapped Zoned)) : String :=
  match m with
  | .panic => "panic"
  | .ok .none => "none"
  | .ok (.single a) => s!"single {showZ a}"
  | .ok (.ambiguous a b) => s!"ambiguous {showZ a} {showZ b}"

def handle (op : String) (args : List String) : Option String :=
  match op with
  | "pr.tzstep" => some (match Parsed.ofTokens (args.take 21), stepZone? (args.drop 21) with
      | some p, some z => showRP showZ (Parsed.to_datetime_with_step_zone p z)
      | _, _ => bad)
  | "pr.steplocal" => some (match stepZone? (args.take 3), naive? (args.drop 3) with
      | some z, some l => showMapped (z.from_local_datetime l)
      | _, _ => bad)
  | "pr.steputc" => some (match stepZone? (args.take 3), naive? (args.drop 3) with
      | some z, some u => showRes toString (z.offset_from_utc_datetime u)
      | _, _ => bad)
  | "pr.date" => some (match Parsed.ofTokens args with
      | some p => showRP showDate (Parsed.to_naive_date p) | none => bad)
  | "pr.time" => some (match Parsed.ofTokens args with
      | some p => showRP showTime (.ok (Parsed.to_naive_time p)) | none => bad)
  | "pr.fixed" => some (match Parsed.ofTokens args with
      | some p => showRP toString (.ok (Parsed.to_fixed_offset p)) | none => bad)
  | "pr.datetime" => some (match Parsed.ofTokens args with
      | some p => showRP showZ (Parsed.to_datetime p) | none => bad)
  | "pr.dt" => some (match Parsed.ofTokens (args.take 21), (args.drop 21) with
      | some p, [off] => (match int? off with
          | some off => showRP showDT (Parsed.to_naive_datetime_with_offset p off) | none => bad)
      | _, _ => bad)
  | "pr.tz" => some (match Parsed.ofTokens (args.take 21), (args.drop 21) with
      | some p, [z] => (match int? z with
          | some z => showRP showZ (Parsed.to_datetime_with_timezone p z) | none => bad)
      | _, _ => bad)
  | "pr.set" => some (match args with
      | field :: v :: rest => (match int? v, Parsed.ofTokens rest with
          | some v, some p => (match applySet field v p with
              | some (.ok p') => s!"ok {p'.dump}"
              | some (.error e) => s!"err {e.code}"
              | none => bad)
          | _, _ => bad)
      | _ => bad)
  | _ => none

end Chrono.Drv.ParsedResolve
