import Chrono.Drv.Util
import Chrono.Model.ParsedResolve
import Chrono.Model.ParsedZone
namespace Chrono.Drv.ParsedResolve
open Chrono Chrono.M Chrono.Drv

def showRP {α} (f : α → String) (r : Parsed.RP α) : String :=
  match r with
  | .ok (.ok a) => s!"ok {f a}"
  | .ok (.error e) => s!"err {e.code}"
  | .panic => "panic"

def showDate (d : M.Date) : String := toString d.yof
def showTime (t : M.Time) : String := s!"{t.secs} {t.frac}"
def showDT (dt : NaiveDT) : String := s!"{showDate dt.date} {showTime dt.time}"
def showZ (z : Zoned) : String := s!"{showDT z.utc} {z.off}"

/-- `pr.set <field> <value> <21 tokens>`: one setter applied to a given record -/
def applySet (field : String) (v : Int) (p : Parsed) : Option (PRes Parsed) :=
  match field with
  | "year" => some (p.set_year v)
  | "year_div_100" => some (p.set_year_div_100 v)
  | "year_mod_100" => some (p.set_year_mod_100 v)
  | "isoyear" => some (p.set_isoyear v)
  | "isoyear_div_100" => some (p.set_isoyear_div_100 v)
  | "isoyear_mod_100" => some (p.set_isoyear_mod_100 v)
  | "quarter" => some (p.set_quarter v)
  | "month" => some (p.set_month v)
  | "week_from_sun" => some (p.set_week_from_sun v)
  | "week_from_mon" => some (p.set_week_from_mon v)
  | "isoweek" => some (p.set_isoweek v)
  | "weekday" => (Weekday.all[v.toNat]?).map fun w => p.set_weekday w
  | "ordinal" => some (p.set_ordinal v)
  | "day" => some (p.set_day v)
  | "ampm" => some (p.set_ampm (v != 0))
  | "hour12" => some (p.set_hour12 v)
  | "hour" => some (p.set_hour v)
  | "minute" => some (p.set_minute v)
  | "second" => some (p.set_second v)
  | "nanosecond" => some (p.set_nanosecond v)
  | "timestamp" => some (p.set_timestamp v)
  | "offset" => some (p.set_offset v)
  | _ => none

/-- `T o1 o2` -/
def stepZone? (ts : List String) : Option StepZone :=
  match ints? ts with
  | some [t, o1, o2] => some ⟨t, o1, o2⟩
  | _ => none

/-- `yof secs frac` -/
def naive? (ts : List String) : Option NaiveDT :=
  match ints? ts with
  | some [y, s, f] => some ⟨⟨y⟩, ⟨s, f⟩⟩
  | _ => none

def showMapped (m : Res (TzL.Mapped Zoned)) : String :=
  match m with
  | .panic => "panic"
  | .ok .none => "none"
  | .ok (.single a) => s!"single {showZ a}"
  | .ok (.ambiguous a b) => s!"ambiguous {showZ a} {showZ b}"


/-! ### `pr.seam`: digest of `to_naive_date` over the subsets of the 14 date fields of one day
(deterministic stream `seams:*` of harness/src/props/c14.rs; the harness computes the same digest
from the real crate) -/

/-- outcome code: NotEnough 0, Impossible 1, OutOfRange 2, panic 3, another error 4, a date 5 + (yof + 2^31) -/
def seamCode (r : Parsed.RP M.Date) : Nat :=
  match r with
  | .panic => 3
  | .ok (.error .notEnough) => 0
  | .ok (.error .impossible) => 1
  | .ok (.error .outOfRange) => 2
  | .ok (.error _) => 4
  | .ok (.ok d) => 5 + (d.yof + 2147483648).toNat

/-- the record holding the date fields of `vals` (declaration order, 14 entries) whose bit is set in `mask` -/
def seamRecord (vals : Array (Option Int)) (mask : Nat) : Parsed :=
  let g (i : Nat) : Option Int := if mask.testBit i then (vals.getD i none) else none
  { year := g 0, year_div_100 := g 1, year_mod_100 := g 2, isoyear := g 3, isoyear_div_100 := g 4,
    isoyear_mod_100 := g 5, quarter := g 6, month := g 7, week_from_sun := g 8, week_from_mon := g 9,
    isoweek := g 10, weekday := (g 11).bind fun v => Weekday.all[v.toNat]?, ordinal := g 12, day := g 13 }

structure SeamAcc where
  h : Nat := 0
  ok : Nat := 0
  ne : Nat := 0
  imp : Nat := 0
  oor : Nat := 0
  other : Nat := 0

def SeamAcc.push (a : SeamAcc) (code : Nat) : SeamAcc :=
  let h := (a.h * 1000003 + code) % 2147483647
  if code = 0 then { a with h := h, ne := a.ne + 1 }
  else if code = 1 then { a with h := h, imp := a.imp + 1 }
  else if code = 2 then { a with h := h, oor := a.oor + 1 }
  else if code ≥ 5 then { a with h := h, ok := a.ok + 1 }
  else { a with h := h, other := a.other + 1 }

def SeamAcc.show (a : SeamAcc) : String := s!"{a.h} {a.ok} {a.ne} {a.imp} {a.oor} {a.other}"

/-- field `i` of `vals` moved by `delta` (weekday cyclically; an unsigned field below 0 is skipped) -/
def seamPerturb (vals : Array (Option Int)) (i : Nat) (delta : Int) : Option (Array (Option Int)) :=
  match vals.getD i none with
  | none => none
  | some v =>
    let w := if i = 11 then (v + delta) % 7 else v + delta
    if i ≥ 6 ∧ w < 0 then none else some (vals.set! i (some w))

/-- mode 0: every mask `m < 2^14` with `m % stride = phase`, ascending; mode 1: for each such mask, each
present field of the mask in index order, `+1` then `-1` -/
def seamRun (vals : Array (Option Int)) (stride phase mode : Nat) : SeamAcc := Id.run do
  let mut a : SeamAcc := {}
  for m in [0:16384] do
    if m % stride = phase then
      if mode = 0 then
        a := a.push (seamCode (Parsed.to_naive_date (seamRecord vals m)))
      else
        for i in [0:14] do
          if m.testBit i then
            for delta in [(1 : Int), -1] do
              match seamPerturb vals i delta with
              | some vs => a := a.push (seamCode (Parsed.to_naive_date (seamRecord vs m)))
              | none => pure ()
  return a

def seamOp (args : List String) : String :=
  let g (s : String) : Option (Option Int) := if s == "-" then some none else s.toInt?.map some
  match (args.take 14).mapM g, nats? (args.drop 14) with
  | some vals, some [stride, phase, mode] =>
    if vals.length = 14 ∧ stride > 0 then (seamRun vals.toArray stride phase mode).show else bad
  | _, _ => bad

def handle (op : String) (args : List String) : Option String :=
  match op with
  | "pr.seam" => some (seamOp args)
  | "pr.tzstep" => some (match Parsed.ofTokens (args.take 21), stepZone? (args.drop 21) with
      | some p, some z => showRP showZ (Parsed.to_datetime_with_step_zone p z)
      | _, _ => bad)
  | "pr.steplocal" => some (match stepZone? (args.take 3), naive? (args.drop 3) with
      | some z, some l => showMapped (z.from_local_datetime l)
      | _, _ => bad)
  | "pr.steputc" => some (match stepZone? (args.take 3), naive? (args.drop 3) with
      | some z, some u => showRes toString (z.offset_from_utc_datetime u)
      | _, _ => bad)
  | "pr.date" => some (match Parsed.ofTokens args with
      | some p => showRP showDate (Parsed.to_naive_date p) | none => bad)
  | "pr.time" => some (match Parsed.ofTokens args with
      | some p => showRP showTime (.ok (Parsed.to_naive_time p)) | none => bad)
  | "pr.fixed" => some (match Parsed.ofTokens args with
      | some p => showRP toString (.ok (Parsed.to_fixed_offset p)) | none => bad)
  | "pr.datetime" => some (match Parsed.ofTokens args with
      | some p => showRP showZ (Parsed.to_datetime p) | none => bad)
  | "pr.dt" => some (match Parsed.ofTokens (args.take 21), (args.drop 21) with
      | some p, [off] => (match int? off with
          | some off => showRP showDT (Parsed.to_naive_datetime_with_offset p off) | none => bad)
      | _, _ => bad)
  | "pr.tz" => some (match Parsed.ofTokens (args.take 21), (args.drop 21) with
      | some p, [z] => (match int? z with
          | some z => showRP showZ (Parsed.to_datetime_with_timezone p z) | none => bad)
      | _, _ => bad)
  | "pr.set" => some (match args with
      | field :: v :: rest => (match int? v, Parsed.ofTokens rest with
          | some v, some p => (match applySet field v p with
              | some (.ok p') => s!"ok {p'.dump}"
              | some (.error e) => s!"err {e.code}"
              | none => bad)
          | _, _ => bad)
      | _ => bad)
  | _ => none

end Chrono.Drv.ParsedResolve
