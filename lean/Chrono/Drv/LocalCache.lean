/-
  Driver ops for C18 (prefix `lc.`).

  World tokens (shared by both ops):
    F<hexpath>=<d|b|int>   file: unreadable (directory) | readable but not TZif | zone content number
    R<hexstr>=<int>        the (trimmed) string is a valid POSIX rule denoting that content number
    N<hexname>             name of the system zone (iana_time_zone)
    M<nat>                 mtime of /etc/localtime (absent: metadata unavailable)
    U<int>                 content number printed for `TimeZone::utc()`
  Paths not listed are absent; strings not listed are not rules.  Hex tokens are `x…`.

  lc.select <tz> <world…>            tz: `-` unset | `!` not unicode | x<hex>
      -> `err` | content number        TimeZone::local(env::var("TZ").ok()) without the fallbacks
  lc.zone <tz> <world…>              -> content number: current_zone (with the fallbacks)
  lc.off <entry> <tz> <d> <world…>   entry: ou|ol (offset_from_*_datetime) du|dl (offset_from_*_date, d =
                                     midnight) fu|fl (from_*_datetime) wt (DateTime<Utc>::with_timezone) now; d: the reading (seconds);
                                     extra world tokens  A<int>:u=<text>  A<int>:l=<text>  say what the zone
                                     with that content number answers for `d` in the UTC / local direction
      -> `<answer text>`             the entry point of `Api` run on a fresh thread under TZ = tz
  lc.run <world…> | <step…>          steps: S- | S! | Sx<hex> | A<microseconds> | T<thread>
                                            | C<thread>:<u|l>:<n|r|f|?>
                                            | M<nat> | M-            the mtime of /etc/localtime changes (touch)
                                            | L<nat|->:<a|d|b|int>:<x<hex>|->   /etc/localtime replaced: new mtime,
                                              what the path now reads as (absent | unreadable | not TZif | content
                                              number), the system zone name now reported
                                            first step token may be E- | E! | Ex<hex>: the value of TZ at process
                                            start (default: unset)
      -> one item per C step: the content number of the zone used, or `?` when the class is `?`
         (timing was ambiguous), or `class!<decision>` when a certain class contradicts the
         model's own decision from its clock.
-/
import Chrono.Drv.Util
import Chrono.Model.LocalCacheWorld
namespace Chrono.Drv.LocalCache
open Chrono Chrono.Drv Chrono.M.LocalCache

structure Cfg where
  fs : List (Bytes × FileState) := []
  rules : List (Bytes × Int) := []
  sysName : Option Bytes := none
  mtime : Option Nat := none
  utc : Int := 0
  /-- what a zone (by content number) answers for the reading of an `lc.off` line: (content, local?) ↦ text -/
  ans : List ((Int × Bool) × String) := []

def lookupL {β} (k : Bytes) : List (Bytes × β) → Option β
  | [] => none
  | (a, b) :: rest => if a = k then some b else lookupL k rest

def Cfg.world (c : Cfg) : World :=
  { fs := fun p => (lookupL p c.fs).getD .absent
    rule := fun s => lookupL s c.rules
    sysName := c.sysName
    ltMtime := c.mtime }

def spanEq : List Char → List Char × List Char
  | [] => ([], [])
  | '=' :: rest => ([], rest)
  | ch :: rest => let r := spanEq rest; (ch :: r.1, r.2)

def hexL (cs : List Char) : Option Bytes := hexDecode (String.ofList cs)
def intL (cs : List Char) : Option Int := (String.ofList cs).toInt?
def natL (cs : List Char) : Option Nat := (String.ofList cs).toNat?

def splitColonA : List Char → List (List Char)
  | [] => [[]]
  | ':' :: rest => [] :: splitColonA rest
  | ch :: rest =>
    match splitColonA rest with
    | h :: tl => (ch :: h) :: tl
    | [] => [[ch]]

def worldTok (c : Cfg) (tok : String) : Option Cfg :=
  match tok.toList with
  | 'F' :: rest =>
    let (k, v) := spanEq rest
    match hexL k, v with
    | some p, ['d'] => some { c with fs := c.fs ++ [(p, .unreadable)] }
    | some p, ['b'] => some { c with fs := c.fs ++ [(p, .data none)] }
    | some p, v => (intL v).map (fun n => { c with fs := c.fs ++ [(p, .data (some n))] })
    | none, _ => none
  | 'R' :: rest =>
    let (k, v) := spanEq rest
    match hexL k, intL v with
    | some s, some n => some { c with rules := c.rules ++ [(s, n)] }
    | _, _ => none
  | 'N' :: rest => (hexL rest).map (fun n => { c with sysName := some n })
  | 'M' :: rest => (natL rest).map (fun n => { c with mtime := some n })
  | 'U' :: rest => (intL rest).map (fun n => { c with utc := n })
  | 'A' :: rest =>
    let (k, v) := spanEq rest
    match splitColonA k with
    | [n, ['u']] => (intL n).map (fun n => { c with ans := c.ans ++ [((n, false), String.ofList v)] })
    | [n, ['l']] => (intL n).map (fun n => { c with ans := c.ans ++ [((n, true), String.ofList v)] })
    | _ => none
  | _ => none

def worldToks (c : Cfg) : List String → Option Cfg
  | [] => some c
  | t :: ts => match worldTok c t with
    | some c' => worldToks c' ts
    | none => none

def envTok (tok : String) : Option EnvVal :=
  match tok.toList with
  | ['-'] => some .unset
  | ['!'] => some .notUnicode
  | cs => (hexL cs).map .val

def zoneOut (c : Cfg) : Zone → String
  | .utc => toString c.utc
  | .tzif _ n => toString n
  | .rule _ n => toString n

def zoneNum (c : Cfg) : Zone → Int
  | .utc => c.utc
  | .tzif _ n => n
  | .rule _ n => n

def lookupA (k : Int × Bool) : List ((Int × Bool) × String) → String
  | [] => "no-answer"
  | (a, b) :: rest => if a = k then b else lookupA k rest

/-- the zone's own lookup functions, as the world tokens give them for the reading of the line -/
def Cfg.lookups (c : Cfg) : Lookups String :=
  { utc := fun z _ => lookupA (zoneNum c z, false) c.ans
    loc := fun z _ => lookupA (zoneNum c z, true) c.ans }

def runEntry (c : Cfg) (entry : String) (e : EnvVal) (d : Int) : Option String :=
  let L := c.lookups
  let W := c.world
  let c0 : Counted := { s := init e 0, calls := 0 }
  let out (r : Counted × String) : String := r.2
  let out2 (r : Counted × (Int × String)) : String := r.2.2
  match entry with
  | "ou" => some (out (Api.offset_from_utc_datetime L W c0 0 d))
  | "ol" => some (out (Api.offset_from_local_datetime L W c0 0 d))
  | "du" => some (out (Api.offset_from_utc_date L W c0 0 d))
  | "dl" => some (out (Api.offset_from_local_date L W c0 0 d))
  | "fu" => some (out2 (Api.from_utc_datetime L W c0 0 d))
  | "fl" => some (out2 (Api.from_local_datetime L W c0 0 d))
  | "wt" => some (out2 (Api.with_timezone L W c0 0 d))
  | "now" => some (out2 (Api.now L W c0 0 d))
  | _ => none

def decName : Decision → String
  | .created => "created" | .reused => "reused" | .rechecked => "rechecked" | .reloaded => "reloaded"

/-- does the harness's timing class agree with the model's decision -/
def classOk : Char → Decision → Bool
  | 'n', .created => true
  | 'r', .reused => true
  | 'f', .rechecked => true
  | 'f', .reloaded => true
  | _, _ => false

inductive Tok where
  | st (s : Step)
  | world (s : StepW)
  | conv (t : Nat) (localDir : Bool) (cls : Char)

def splitColon : List Char → List (List Char)
  | [] => [[]]
  | ':' :: rest => [] :: splitColon rest
  | ch :: rest =>
    match splitColon rest with
    | h :: tl => (ch :: h) :: tl
    | [] => [[ch]]

def stepTok (tok : String) : Option Tok :=
  match tok.toList with
  | ['S', '-'] => some (.st .unsetTZ)
  | ['S', '!'] => some (.st .setNotUnicode)
  | 'S' :: rest => (hexL rest).map (fun v => .st (.setTZ v))
  | 'A' :: rest => (natL rest).map (fun us => .st (.advance (us * 1000)))
  | 'T' :: rest => (natL rest).map (fun t => .st (.spawn t))
  | ['M', '-'] => some (.world (.setMtime none))
  | 'M' :: rest => (natL rest).map (fun m => .world (.setMtime (some m)))
  | 'L' :: rest =>
    match splitColon rest with
    | [m, f, n] =>
      let m? : Option (Option Nat) := if m = ['-'] then some none else (natL m).map some
      let f? : Option FileState :=
        if f = ['a'] then some .absent else if f = ['d'] then some .unreadable
        else if f = ['b'] then some (.data none) else (intL f).map (fun c => .data (some c))
      let n? : Option (Option Bytes) := if n = ['-'] then some none else (hexL n).map some
      match m?, f?, n? with
      | some m, some f, some n => some (.world (.replaceLocaltime m f n))
      | _, _, _ => none
    | _ => none
  | 'C' :: rest =>
    match splitColon rest with
    | [t, [d], [cls]] =>
      match natL t, d with
      | some t, 'u' => some (.conv t false cls)
      | some t, 'l' => some (.conv t true cls)
      | _, _ => none
    | _ => none
  | _ => none

def runToks (c : Cfg) : StateW → List Tok → List String
  | _, [] => []
  | s, .st x :: rest => runToks c (stepW s (.base x)).1 rest
  | s, .world x :: rest => runToks c (stepW s x).1 rest
  | s, .conv t l cls :: rest =>
    let r := stepW s (.base (.convert t l))
    let item := match r.2 with
      | some (z, dec) =>
        if cls == '?' then "?"
        else if classOk cls dec then zoneOut c z
        else s!"class!{decName dec}"
      | none => "bad"
    item :: runToks c r.1 rest

/-- an optional first token `E<tz>`: the value of TZ when the process starts -/
def splitStart : List String → Option (EnvVal × List String)
  | [] => some (.unset, [])
  | t :: rest =>
    match t.toList with
    | 'E' :: e => (envTok (String.ofList e)).map (fun v => (v, rest))
    | _ => some (.unset, t :: rest)

def splitBar : List String → List String × List String
  | [] => ([], [])
  | "|" :: rest => ([], rest)
  | x :: rest => let r := splitBar rest; (x :: r.1, r.2)

def handle (op : String) (args : List String) : Option String :=
  match op, args with
  | "lc.select", tz :: wt => some (match envTok tz, worldToks {} wt with
      | some e, some c =>
        match TimeZone.local c.world (env_var e) with
        | some z => zoneOut c z
        | none => "err"
      | _, _ => bad)
  | "lc.zone", tz :: wt => some (match envTok tz, worldToks {} wt with
      | some e, some c => zoneOut c (current_zone c.world (env_var e))
      | _, _ => bad)
  | "lc.off", entry :: tz :: d :: wt => some (match envTok tz, int? d, worldToks {} wt with
      | some e, some d, some c => (runEntry c entry e d).getD bad
      | _, _, _ => bad)
  | "lc.run", toks =>
    let (wt, st) := splitBar toks
    some (match worldToks {} wt, splitStart st with
      | some c, some (e0, st) =>
        match st.mapM stepTok with
        | some steps =>
          match runToks c (initW c.world e0 0) steps with
          | [] => "-"
          | out => joinSp out
        | none => bad
      | _, _ => bad)
  | _, _ => none

end Chrono.Drv.LocalCache
