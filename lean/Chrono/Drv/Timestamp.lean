import Chrono.Drv.Util
import Chrono.Model.TimestampMore
namespace Chrono.Drv.Timestamp
open Chrono Chrono.M Chrono.Drv

/-- a `NaiveDateTime` on the wire: packed date word, seconds of day, nanosecond field -/
def showDT (dt : NaiveDT) : String := s!"{dt.date.yof} {dt.time.secs} {dt.time.frac}"
def showZ (z : Zoned) : String := s!"{showDT z.utc} {z.off}"
def showRODT : Res (Option NaiveDT) → String := showRes (showOpt showDT)
def showROZ : Res (Option Zoned) → String := showRes (showOpt showZ)
def showRI : Res Int → String := showRes toString
def showROI : Res (Option Int) → String := showRes showOptInt
def showST (p : Int × Int) : String := s!"{p.1} {p.2}"

def mkDT (y s f : Int) : NaiveDT := ⟨⟨y⟩, ⟨s, f⟩⟩

/-- all seven accessors of one value -/
def showGet (dt : NaiveDT) : String :=
  joinSp [showRI (NaiveDT.timestamp dt), showRI (NaiveDT.timestamp_millis dt), showRI (NaiveDT.timestamp_micros dt),
    showROI (NaiveDT.timestamp_nanos_opt dt), toString (NaiveDT.timestamp_subsec_millis dt),
    toString (NaiveDT.timestamp_subsec_micros dt), toString (NaiveDT.timestamp_subsec_nanos dt)]
def showZGet (z : Zoned) : String :=
  joinSp [showRI (Ts.ztimestamp z), showRI (Ts.ztimestamp_millis z), showRI (Ts.ztimestamp_micros z),
    showROI (Ts.ztimestamp_nanos_opt z)]

/-- the sub-second accessors and the deprecated `timestamp_nanos()` of a zone-aware value -/
def showZSub (z : Zoned) : String :=
  joinSp [toString (Ts.ztimestamp_subsec_millis z), toString (Ts.ztimestamp_subsec_micros z),
    toString (Ts.ztimestamp_subsec_nanos z), showRI (Ts.ztimestamp_nanos_expect z)]
/-- the deprecated `NaiveDateTime::timestamp*` accessors -/
def showNGet (dt : NaiveDT) : String :=
  joinSp [showRI (Ts.naive_timestamp dt), showRI (Ts.naive_timestamp_millis dt), showRI (Ts.naive_timestamp_micros dt),
    showROI (Ts.naive_timestamp_nanos_opt dt), toString (Ts.naive_timestamp_subsec_millis dt),
    toString (Ts.naive_timestamp_subsec_micros dt), toString (Ts.naive_timestamp_subsec_nanos dt),
    showRI (Ts.naive_timestamp_nanos dt)]

def handle (op : String) (args : List String) : Option String :=
  match op, args with
  | "ts.from", [s, n] => some (match ints? [s, n] with
      | some [s, n] => showRODT (NaiveDT.from_timestamp s n) | _ => bad)
  | "ts.from_ms", [x] => some ((int? x).elim bad fun x => showRODT (NaiveDT.from_timestamp_millis x))
  | "ts.from_us", [x] => some ((int? x).elim bad fun x => showRODT (NaiveDT.from_timestamp_micros x))
  | "ts.from_ns", [x] => some ((int? x).elim bad fun x => showRes showDT (NaiveDT.from_timestamp_nanos x))
  | "ts.nfrom_opt", [s, n] => some (match ints? [s, n] with
      | some [s, n] => showRODT (Ts.naive_from_timestamp_opt s n) | _ => bad)
  | "ts.nfrom", [s, n] => some (match ints? [s, n] with
      | some [s, n] => showRes showDT (Ts.naive_from_timestamp s n) | _ => bad)
  | "ts.nfrom_ms", [x] => some ((int? x).elim bad fun x => showRODT (Ts.naive_from_timestamp_millis x))
  | "ts.nfrom_us", [x] => some ((int? x).elim bad fun x => showRODT (Ts.naive_from_timestamp_micros x))
  | "ts.nfrom_ns", [x] => some ((int? x).elim bad fun x => showRODT (Ts.naive_from_timestamp_nanos x))
  | "ts.get", [y, s, f] => some (match ints? [y, s, f] with
      | some [y, s, f] => showGet (mkDT y s f) | _ => bad)
  | "ts.zget", [y, s, f, o] => some (match ints? [y, s, f, o] with
      | some [y, s, f, o] => showZGet ⟨mkDT y s f, o⟩ | _ => bad)
  | "ts.zsub", [y, s, f, o] => some (match ints? [y, s, f, o] with
      | some [y, s, f, o] => showZSub ⟨mkDT y s f, o⟩ | _ => bad)
  | "ts.nget", [y, s, f] => some (match ints? [y, s, f] with
      | some [y, s, f] => showNGet (mkDT y s f) | _ => bad)
  | "ts.nanos", [y, s, f] => some (match ints? [y, s, f] with
      | some [y, s, f] => showRI (Ts.timestamp_nanos_expect (mkDT y s f)) | _ => bad)
  | "ts.and_utc", [y, s, f] => some (match ints? [y, s, f] with
      | some [y, s, f] => showZ (Ts.and_utc (mkDT y s f)) | _ => bad)
  | "ts.tz_opt", [o, s, n] => some (match ints? [o, s, n] with
      | some [o, s, n] => showROZ (Ts.timestamp_opt o s n) | _ => bad)
  | "ts.tz", [o, s, n] => some (match ints? [o, s, n] with
      | some [o, s, n] => showRes showZ (Ts.timestamp o s n) | _ => bad)
  | "ts.tz_ms_opt", [o, x] => some (match ints? [o, x] with
      | some [o, x] => showROZ (Ts.timestamp_millis_opt o x) | _ => bad)
  | "ts.tz_ms", [o, x] => some (match ints? [o, x] with
      | some [o, x] => showRes showZ (Ts.timestamp_millis o x) | _ => bad)
  | "ts.tz_us", [o, x] => some (match ints? [o, x] with
      | some [o, x] => showROZ (Ts.timestamp_micros o x) | _ => bad)
  | "ts.tz_ns", [o, x] => some (match ints? [o, x] with
      | some [o, x] => showRes showZ (Ts.timestamp_nanos o x) | _ => bad)
  | "ts.from_st", [s, n] => some (match ints? [s, n] with
      | some [s, n] => showRes showDT (Ts.from_system_time s n) | _ => bad)
  | "ts.from_st_local", [o, s, n] => some (match ints? [o, s, n] with
      | some [o, s, n] => showRes showZ (Ts.from_system_time_local o s n) | _ => bad)
  | "ts.to_st", [y, s, f] => some (match ints? [y, s, f] with
      | some [y, s, f] => showRes showST (Ts.to_system_time (mkDT y s f)) | _ => bad)
  | _, _ => none

end Chrono.Drv.Timestamp
