import Chrono.Drv.Util
import Chrono.Drv.Date
import Chrono.Model.IsoWeekOrd
import Chrono.Model.DateViews
import Chrono.Spec.IsoSpec
namespace Chrono.Drv.DateIso
open Chrono Chrono.M Chrono.Drv

/-- the packed `IsoWeek` of a date and its three views: `ywf year week week0` (`week0` with its `u32`
subtraction: `panic` when the week field is 0) -/
def showIso (d : M.Date) : String :=
  match d.iso_week with
  | .ok w => s!"{w} {IsoWeek.year w} {IsoWeek.week w} {showRes toString (IsoWeek.week0r w)}"
  | .panic => "panic"

/-- digest step of one year: for every existing day, the packed ISO week with its three views, the
0-based twins, and the ISO-week comparison with the previous day of the block -/
def isoDigestYear (st : UInt64 × Option M.Date) (y : Int) : UInt64 × Option M.Date :=
  (List.range 367).foldl (fun (st : UInt64 × Option M.Date) o =>
    match M.Date.from_yo_opt y o with
    | .ok (some d) =>
      let h := st.1
      let h := match d.iso_week with
        | .ok w => [w, IsoWeek.year w, IsoWeek.week w,
            (match IsoWeek.week0r w with | .ok v => (v : Int) | .panic => -2)].foldl Drv.Date.mix64 h
        | .panic => Drv.Date.mix64 h (-2)
      let h := [d.month0, d.day0, d.ordinal0].foldl (fun h (r : Res Nat) =>
        match r with | .ok v => Drv.Date.mix64 h v | .panic => Drv.Date.mix64 h (-2)) h
      let h := match st.2 with
        | some p => (match M.Date.isocmp p d with
          | .ok c => Drv.Date.mix64 h c | .panic => Drv.Date.mix64 h (-2))
        | none => h
      (h, some d)
    | _ => st) st

def blockIso (y0 y1 : Int) : UInt64 :=
  let n := (y1 - y0 + 1).toNat
  ((List.range n).foldl (fun st (i : Nat) => isoDigestYear st (y0 + (i : Int)))
    ((14695981039346656037 : UInt64), (none : Option M.Date))).1

/-! ### the ISO SPECIFICATION (Spec/IsoSpec.lean, `isoThursday` of Spec/Calendar.lean) — not the model —
for validation against references that share no code with chrono (tools/validate_calendar_spec.py) -/

/-- the calendar year `Y` with `daysBeforeYear Y < n ≤ daysBeforeYear (Y + 1)`: a first guess from the
mean year length, then stepped (the guess is off by at most one; the fuel is generous) -/
def specYearOf (n : Int) : Int :=
  let rec go (fuel : Nat) (y : Int) : Int :=
    match fuel with
    | 0 => y
    | fuel + 1 =>
      if n ≤ Spec.daysBeforeYear y then go fuel (y - 1)
      else if Spec.daysBeforeYear (y + 1) < n then go fuel (y + 1)
      else y
  go 8 (n * 400 / 146097 + 1)

/-- `spec.iso n`: ISO year, week, weekday (Monday = 0) of day number `n` by the Thursday rule, then the
way back through the constructor-side specification: `isoDayNum`, `isoWeekExists`, `isoWeeksInYear` -/
def specIso (n : Int) : String :=
  let thu := Spec.isoThursday n
  let Y := specYearOf thu
  let ot := thu - Spec.daysBeforeYear Y
  let w := (ot - 1) / 7 + 1
  let wd := Spec.weekdayOf n
  s!"{Y} {w} {wd} {Spec.isoDayNum Y w wd} {showBool (decide (Spec.isoWeekExists Y w))} {Spec.isoWeeksInYear Y}"

/-- `spec.isoday y w wd`: the day number the ISO week date denotes, whether ISO year `y` has week `w`,
and the number of ISO weeks of `y` -/
def specIsoDay (y w wd : Int) : String :=
  s!"{Spec.isoDayNum y w wd} {showBool (decide (Spec.isoWeekExists y w))} {Spec.isoWeeksInYear y}"

def handle (op : String) (args : List String) : Option String :=
  match op, args with
  | "di.isoweek", [yof] => some ((int? yof).elim bad (fun v => showIso ⟨v⟩))
  | "di.isocmp", [a, b] => some (match int? a, int? b with
      | some a, some b => (match M.Date.isocmp ⟨a⟩ ⟨b⟩ with
          | .ok r => toString r | .panic => "panic")
      | _, _ => bad)
  | "di.zero", [yof] => some ((int? yof).elim bad (fun v =>
      let d : M.Date := ⟨v⟩
      joinSp [showRes toString d.month0, showRes toString d.day0, showRes toString d.ordinal0]))
  | "di.blockiso", [y0, y1] => some (match int? y0, int? y1 with
      | some y0, some y1 => toString (blockIso y0 y1) | _, _ => bad)
  | "spec.iso", [n] => some ((int? n).elim bad specIso)
  | "spec.isoday", [y, w, wd] => some (match int? y, int? w, int? wd with
      | some y, some w, some wd => specIsoDay y w wd | _, _, _ => bad)
  | _, _ => none

end Chrono.Drv.DateIso
