import Chrono.Drv.Util
import Chrono.Model.IsoWeekOrd
import Chrono.Model.DateViews
namespace Chrono.Drv.DateIso
open Chrono Chrono.M Chrono.Drv

/-- the packed `IsoWeek` of a date and its three views: `ywf year week week0` -/
def showIso (d : M.Date) : String :=
  match d.iso_week with
  | .ok w => s!"{w} {IsoWeek.year w} {IsoWeek.week w} {IsoWeek.week0 w}"
  | .panic => "panic"

def handle (op : String) (args : List String) : Option String :=
  match op, args with
  | "di.isoweek", [yof] => some ((int? yof).elim bad (fun v => showIso ⟨v⟩))
  | "di.isocmp", [a, b] => some (match int? a, int? b with
      | some a, some b => (match M.Date.isocmp ⟨a⟩ ⟨b⟩ with
          | .ok r => toString r | .panic => "panic")
      | _, _ => bad)
  | "di.zero", [yof] => some ((int? yof).elim bad (fun v =>
      let d : M.Date := ⟨v⟩
      joinSp [showRes toString d.month0, showRes toString d.day0, showRes toString d.ordinal0]))
  | _, _ => none

end Chrono.Drv.DateIso
