import Chrono.Drv.Util
import Chrono.Drv.Date
import Chrono.Model.IsoWeekOrd
import Chrono.Model.DateViews
namespace Chrono.Drv.DateIso
open Chrono Chrono.M Chrono.Drv

/-- the packed `IsoWeek` of a date and its three views: `ywf year week week0` -/
def showIso (d : M.Date) : String :=
  match d.iso_week with
  | .ok w => s!"{w} {IsoWeek.year w} {IsoWeek.week w} {IsoWeek.week0 w}"
  | .panic => "panic"

/-- digest step of one year: for every existing day, the packed ISO week with its three views, the
0-based twins, and the ISO-week comparison with the previous day of the block -/
def isoDigestYear (st : UInt64 × Option M.Date) (y : Int) : UInt64 × Option M.Date :=
  (List.range 367).foldl (fun (st : UInt64 × Option M.Date) o =>
    match M.Date.from_yo_opt y o with
    | .ok (some d) =>
      let h := st.1
      let h := match d.iso_week with
        | .ok w => [w, IsoWeek.year w, IsoWeek.week w, IsoWeek.week0 w].foldl Drv.Date.mix64 h
        | .panic => Drv.Date.mix64 h (-2)
      let h := [d.month0, d.day0, d.ordinal0].foldl (fun h (r : Res Nat) =>
        match r with | .ok v => Drv.Date.mix64 h v | .panic => Drv.Date.mix64 h (-2)) h
      let h := match st.2 with
        | some p => (match M.Date.isocmp p d with
          | .ok c => Drv.Date.mix64 h c | .panic => Drv.Date.mix64 h (-2))
        | none => h
      (h, some d)
    | _ => st) st

def blockIso (y0 y1 : Int) : UInt64 :=
  let n := (y1 - y0 + 1).toNat
  ((List.range n).foldl (fun st (i : Nat) => isoDigestYear st (y0 + (i : Int)))
    ((14695981039346656037 : UInt64), (none : Option M.Date))).1

def handle (op : String) (args : List String) : Option String :=
  match op, args with
  | "di.isoweek", [yof] => some ((int? yof).elim bad (fun v => showIso ⟨v⟩))
  | "di.isocmp", [a, b] => some (match int? a, int? b with
      | some a, some b => (match M.Date.isocmp ⟨a⟩ ⟨b⟩ with
          | .ok r => toString r | .panic => "panic")
      | _, _ => bad)
  | "di.zero", [yof] => some ((int? yof).elim bad (fun v =>
      let d : M.Date := ⟨v⟩
      joinSp [showRes toString d.month0, showRes toString d.day0, showRes toString d.ordinal0]))
  | "di.blockiso", [y0, y1] => some (match int? y0, int? y1 with
      | some y0, some y1 => toString (blockIso y0 y1) | _, _ => bad)
  | _, _ => none

end Chrono.Drv.DateIso
