import Chrono.Drv.Util
import Chrono.Model.DateTimeOps
namespace Chrono.Drv.DateTimeOps
open Chrono Chrono.M Chrono.Drv

/-! The date-time forms of C08 (prefix `dto.`).  A time of day is `secs frac`, a naive date-time
`yof secs frac`, a zone-aware value `yof secs frac off` (stored UTC reading + offset).  Replies: a value
in the same encoding, `none`, `panic`. -/

def showT (t : M.Time) : String := s!"{t.secs} {t.frac}"
def showN (d : NaiveDT) : String := s!"{d.date.yof} {d.time.secs} {d.time.frac}"
def showZ (z : M.Zoned) : String := s!"{z.utc.date.yof} {z.utc.time.secs} {z.utc.time.frac} {z.off}"
def showRON (r : Res (Option NaiveDT)) : String := showRes (showOpt showN) r
def showROZ (r : Res (Option M.Zoned)) : String := showRes (showOpt showZ) r

def timeWith (field : String) (t : M.Time) (v : Int) : Option (Option M.Time) :=
  match field with
  | "hour" => some (t.with_hour v)
  | "minute" => some (t.with_minute v)
  | "second" => some (t.with_second v)
  | "nano" => some (t.with_nanosecond v)
  | _ => none

def naiveWith (field : String) (dt : NaiveDT) (v : Int) : Option (Res (Option NaiveDT)) :=
  match field with
  | "year" => some (dt.with_year v)
  | "month" => some (dt.with_month v.toNat)
  | "month0" => some (dt.with_month0 v.toNat)
  | "day" => some (dt.with_day v.toNat)
  | "day0" => some (dt.with_day0 v.toNat)
  | "ordinal" => some (dt.with_ordinal v.toNat)
  | "ordinal0" => some (dt.with_ordinal0 v.toNat)
  | "hour" => some (dt.with_hour v)
  | "minute" => some (dt.with_minute v)
  | "second" => some (dt.with_second v)
  | "nano" => some (dt.with_nanosecond v)
  | _ => none

def zonedWith (field : String) (z : M.Zoned) (v : Int) : Option (Res (Option M.Zoned)) :=
  match field with
  | "year" => some (z.with_year v)
  | "month" => some (z.with_month v.toNat)
  | "month0" => some (z.with_month0 v.toNat)
  | "day" => some (z.with_day v.toNat)
  | "day0" => some (z.with_day0 v.toNat)
  | "ordinal" => some (z.with_ordinal v.toNat)
  | "ordinal0" => some (z.with_ordinal0 v.toNat)
  | "hour" => some (z.with_hour v)
  | "minute" => some (z.with_minute v)
  | "second" => some (z.with_second v)
  | "nano" => some (z.with_nanosecond v)
  | _ => none

def n? (a : List String) : Option NaiveDT :=
  match ints? a with
  | some [y, s, f] => some ⟨⟨y⟩, ⟨s, f⟩⟩
  | _ => none
def z? (a : List String) : Option M.Zoned :=
  match ints? a with
  | some [y, s, f, o] => some ⟨⟨⟨y⟩, ⟨s, f⟩⟩, o⟩
  | _ => none

def handle (op : String) (args : List String) : Option String :=
  match op, args with
  | "dto.tw", [field, s, f, v] => some (match ints? [s, f, v] with
      | some [s, f, v] => (timeWith field ⟨s, f⟩ v).elim bad (showOpt showT) | _ => bad)
  | "dto.nw", [field, y, s, f, v] => some (match n? [y, s, f], int? v with
      | some dt, some v => (naiveWith field dt v).elim bad showRON | _, _ => bad)
  | "dto.nm", [dir, y, s, f, n] => some (match n? [y, s, f], nat? n with
      | some dt, some n =>
        if dir = "add" then showRON (dt.checked_add_months n)
        else if dir = "sub" then showRON (dt.checked_sub_months n) else bad
      | _, _ => bad)
  | "dto.zw", [field, y, s, f, o, v] => some (match z? [y, s, f, o], int? v with
      | some z, some v => (zonedWith field z v).elim bad showROZ | _, _ => bad)
  | "dto.zm", [dir, y, s, f, o, n] => some (match z? [y, s, f, o], nat? n with
      | some z, some n =>
        if dir = "add" then showROZ (z.checked_add_months n)
        else if dir = "sub" then showROZ (z.checked_sub_months n) else bad
      | _, _ => bad)
  | "dto.zt", [y, s, f, o] => some ((z? [y, s, f, o]).elim bad fun z => showRes showT z.time)
  | "dto.zys", [y1, s1, f1, o1, y0, s0, f0, o0] => some (match z? [y1, s1, f1, o1], z? [y0, s0, f0, o0] with
      | some a, some b => showRes (showOpt toString) (a.years_since b) | _, _ => bad)
  | _, _ => none

end Chrono.Drv.DateTimeOps
