import Chrono.Drv.Util
import Chrono.Model.Round
import Chrono.Model.RoundDT
import Chrono.Model.RoundTz
import Chrono.Spec.RoundSpec
namespace Chrono.Drv.Round
open Chrono Chrono.M Chrono.M.Round Chrono.Drv

def showRR : RR → String
  | .ok d => s!"ok {d}"
  | .err .DurationExceedsTimestamp => "err DurationExceedsTimestamp"
  | .err .DurationExceedsLimit => "err DurationExceedsLimit"
  | .err .TimestampExceedsLimit => "err TimestampExceedsLimit"

def showPair (p : Int × Int) : String := s!"{p.1} {p.2}"

def optInt? (s : String) : Option (Option Int) :=
  if s == "none" then some none else (int? s).map some

/-- reply for the date-time level: `ok <ns moved> <wall-clock line position of the result>` -/
def onDt (op : Op) (args : List String) : String :=
  match ints? args with
  | some [utc, sub, off, ds, dn] =>
    match on_datetime op utc sub off ⟨ds, dn⟩ with
    | .panic => "panic"
    | .ok (.ok d) => s!"ok {d} {stamp_after ((utc + off) * 1000000000 + sub) sub d}"
    | .ok e => showRR e
  | _ => bad

def showErr : RoundingError → String
  | .DurationExceedsTimestamp => "err DurationExceedsTimestamp"
  | .DurationExceedsLimit => "err DurationExceedsLimit"
  | .TimestampExceedsLimit => "err TimestampExceedsLimit"

def showDT (x : NaiveDT) : String := s!"{x.date.yof} {x.time.secs} {x.time.frac}"

/-- value level, `NaiveDateTime`: packed date word, seconds of day, nanosecond field, duration -/
def onNaive (op : Op) (args : List String) : String :=
  match ints? args with
  | some [y, s, f, ds, dn] =>
    match naive_duration op ⟨⟨y⟩, ⟨s, f⟩⟩ ⟨ds, dn⟩ with
    | .panic => "panic"
    | .ok (.ok v) => s!"ok {showDT v}"
    | .ok (.err e) => showErr e
  | _ => bad

/-- value level, `DateTime<FixedOffset>`: UTC reading as above, offset, duration -/
def onZoned (op : Op) (args : List String) : String :=
  match ints? args with
  | some [y, s, f, o, ds, dn] =>
    match zoned_duration op ⟨⟨⟨y⟩, ⟨s, f⟩⟩, o⟩ ⟨ds, dn⟩ with
    | .panic => "panic"
    | .ok (.ok v) => s!"ok {showDT v.utc} {v.off}"
    | .ok (.err e) => showErr e
  | _ => bad

/-- value level, `DateTime<Tz>` in a zone with varying offset (`DateTime<Local>` under a `TZ` with
daylight-saving rules): UTC reading, offset of the input, the offset the zone prescribes at the instant
of the result (sent by the harness, which reads it from the zone itself), duration -/
def onTz (op : Op) (args : List String) : String :=
  match ints? args with
  | some [y, s, f, o, ro, ds, dn] =>
    match tz_duration (fun _ => ro) op ⟨⟨⟨y⟩, ⟨s, f⟩⟩, o⟩ ⟨ds, dn⟩ with
    | .panic => "panic"
    | .ok (.ok v) => s!"ok {showDT v.utc} {v.off}"
    | .ok (.err e) => showErr e
  | _ => bad

def onTzSub (round : Bool) (args : List String) : String :=
  match ints? args with
  | some [y, s, f, o, ro, d] =>
    showRes (fun z : Zoned => s!"{showDT z.utc} {z.off}")
      (tz_subsecs (fun _ => ro) round ⟨⟨⟨y⟩, ⟨s, f⟩⟩, o⟩ d.toNat)
  | _ => bad

/-- value level, `SubsecRound`: `t` = NaiveTime `secs frac digits`, `n` = NaiveDateTime
`yof secs frac digits`, `z` = DateTime<FixedOffset> `yof secs frac off digits` -/
def onSub (round : Bool) (kind : String) (args : List String) : String :=
  match kind, ints? args with
  | "t", some [s, f, d] =>
    showRes (fun t : Time => s!"{t.secs} {t.frac}") (time_subsecs round ⟨s, f⟩ d.toNat)
  | "n", some [y, s, f, d] => showRes showDT (naive_subsecs round ⟨⟨y⟩, ⟨s, f⟩⟩ d.toNat)
  | "z", some [y, s, f, o, d] =>
    showRes (fun z : Zoned => s!"{showDT z.utc} {z.off}") (zoned_subsecs round ⟨⟨⟨y⟩, ⟨s, f⟩⟩, o⟩ d.toNat)
  | _, _ => bad

def onNs (op : Op) (stamp span : String) : String :=
  match optInt? stamp, optInt? span with
  | some st, some sp => showRes showRR (run op st sp)
  | _, _ => bad

def handle (op : String) (args : List String) : Option String :=
  match op, args with
  -- date-time level: utc_secs subsec offset duration.secs duration.nanos
  | "rd.trunc", a => some (onDt .trunc a)
  | "rd.round", a => some (onDt .round a)
  | "rd.up", a => some (onDt .up a)
  -- value level: the whole call, result = the returned value
  | "rd.n.trunc", a => some (onNaive .trunc a)
  | "rd.n.round", a => some (onNaive .round a)
  | "rd.n.up", a => some (onNaive .up a)
  | "rd.z.trunc", a => some (onZoned .trunc a)
  | "rd.z.round", a => some (onZoned .round a)
  | "rd.z.up", a => some (onZoned .up a)
  | "rd.l.trunc", a => some (onTz .trunc a)
  | "rd.l.round", a => some (onTz .round a)
  | "rd.l.up", a => some (onTz .up a)
  | "rd.l.rsub", a => some (onTzSub true a)
  | "rd.l.tsub", a => some (onTzSub false a)
  | "rd.t.rsub", a => some (onSub true "t" a)
  | "rd.t.tsub", a => some (onSub false "t" a)
  | "rd.n.rsub", a => some (onSub true "n" a)
  | "rd.n.tsub", a => some (onSub false "n" a)
  | "rd.z.rsub", a => some (onSub true "z" a)
  | "rd.z.tsub", a => some (onSub false "z" a)
  -- integer level: stamp|none span|none
  | "rd.ns.trunc", [s, p] => some (onNs .trunc s p)
  | "rd.ns.round", [s, p] => some (onNs .round s p)
  | "rd.ns.up", [s, p] => some (onNs .up s p)
  | "rd.stamp", [u, s, o] => some (match ints? [u, s, o] with
      | some [u, s, o] => showOptInt (wall_stamp u s o) | _ => bad)
  | "rd.span", [d] => some ((nat? d).elim bad (fun d => toString (span_for_digits d)))
  | "rd.rsub", [f, d] => some (match int? f, nat? d with
      | some f, some d => showRes showPair (round_subsecs f d) | _, _ => bad)
  | "rd.tsub", [f, d] => some (match int? f, nat? d with
      | some f, some d => showRes showPair (trunc_subsecs f d) | _, _ => bad)
  -- the specification itself (validated against i128 arithmetic by the harness)
  | "rd.spec", [s, p] => some (match int? s, int? p with
      | some s, some p =>
        s!"{Spec.Round.truncSpec s p} {Spec.Round.upSpec s p} {Spec.Round.roundSpec s p}"
      | _, _ => bad)
  | "rd.spec.sub", [f, d] => some (match int? f, nat? d with
      | some f, some d =>
        s!"{showPair (Spec.Round.truncSubsecSpec f d)} {showPair (Spec.Round.roundSubsecSpec f d)}"
      | _, _ => bad)
  | _, _ => none

end Chrono.Drv.Round
