import Chrono.Drv.Util
import Chrono.Model.ZonedOps
namespace Chrono.Drv.Zoned
open Chrono Chrono.M Chrono.Drv

/-! Protocol: a naive date-time is `yof secs frac`, a zone-aware value `yof secs frac off`
(`yof secs frac` = the stored UTC reading).  Replies: a value in the same encoding, `none`, `panic`. -/

def showN (d : NaiveDT) : String := s!"{d.date.yof} {d.time.secs} {d.time.frac}"
def showRON (r : Res (Option NaiveDT)) : String := showRes (showOpt showN) r
def showZ (z : M.Zoned) : String := s!"{z.utc.date.yof} {z.utc.time.secs} {z.utc.time.frac} {z.off}"
def showROZ (r : Res (Option M.Zoned)) : String := showRes (showOpt showZ) r

def PANIC : Int := -7777777

def resInt (r : Res Int) : Int := match r with | .ok v => v | .panic => PANIC
def resNat (r : Res Nat) : Int := match r with | .ok v => (v : Int) | .panic => PANIC

/-- everything the public accessors show of a zone-aware value: the `Datelike`/`Timelike` readings
(year month day ordinal weekday iso-year iso-week day-number hour minute second nanosecond), then
`naive_local()` as `1 yof secs frac` or `0` for a panic -/
def obsList (z : M.Zoned) : List Int :=
  let iw := z.iso_week
  [resInt z.year, resNat z.month, resNat z.day, resInt z.ordinal,
   (match z.weekday with | .ok w => (w.toNat : Int) | .panic => PANIC),
   (match iw with | .ok w => IsoWeek.year w | .panic => PANIC),
   (match iw with | .ok w => IsoWeek.week w | .panic => PANIC),
   resInt z.num_days_from_ce, resInt z.hour, resInt z.minute, resInt z.second, resInt z.nanosecond]
  ++ (match z.naive_local with
      | .ok l => [1, l.date.yof, l.time.secs, l.time.frac]
      | .panic => [0])

/-- the same list with the wall clock computed once (`Zoned.year z` etc. are by definition
`overflowing_naive_local z` followed by the accessor of the naive value); used by the block digests -/
def obsListFast (z : M.Zoned) : List Int :=
  match z.overflowing_naive_local with
  | .panic => (List.replicate 12 PANIC) ++ [0]
  | .ok l =>
    let iw := l.date.iso_week
    [l.date.year, resNat l.date.month, resNat l.date.day, l.date.ordinal, (l.date.weekday.toNat : Int),
     (match iw with | .ok w => IsoWeek.year w | .panic => PANIC),
     (match iw with | .ok w => IsoWeek.week w | .panic => PANIC),
     resInt l.date.num_days_from_ce, l.time.hour, l.time.minute, l.time.second, l.time.nanosecond]
    ++ (match z.naive_local with
        | .ok l => [1, l.date.yof, l.time.secs, l.time.frac]
        | .panic => [0])

/-- `from_local_datetime` as a list: `1 yof secs frac` / `0` (None) / `-1` (panic) -/
def flList (off : Int) (l : NaiveDT) : List Int :=
  match M.Zoned.from_local_datetime off l with
  | .ok (some z) => [1, z.utc.date.yof, z.utc.time.secs, z.utc.time.frac]
  | .ok none => [0]
  | .panic => [-1]

def P : Int := 2147483647
def PN : Nat := 2147483647
@[inline] def mix (m h : Nat) (x : Int) : Nat := (h * m + (x % P).toNat) % PN
def mixL (h : Nat × Nat) (xs : List Int) : Nat × Nat :=
  xs.foldl (fun h x => (mix 48271 h.1 x, mix 69621 h.2 x)) h

/-- the four UTC values of the exhaustive sweep: MIN, MIN + 1 day, MAX − 1 day, MAX -/
def endValue (i : Nat) : NaiveDT :=
  match i with
  | 0 => NaiveDT.MIN
  | 1 => ⟨⟨Date.MIN.yof + 16⟩, Time.MIN⟩
  | 2 => ⟨⟨Date.MAX.yof - 16⟩, Time.MAX⟩
  | _ => NaiveDT.MAX

/-- digest over the offsets `lo ..= hi` at `endValue i`, optionally with another time of day:
readings of the value stored as UTC, and `from_local_datetime` of the same naive value read as local -/
def blockDigest (u : NaiveDT) (lo hi : Int) : String :=
  let n := (hi - lo + 1).toNat
  let h := (List.range n).foldl (fun h (k : Nat) =>
    let off := lo + (k : Int)
    mixL (mixL h (obsListFast ⟨u, off⟩)) (flList off u)) (1, 1)
  s!"{h.1} {h.2}"

def z? (a : List String) : Option M.Zoned :=
  match ints? a with
  | some [y, s, f, o] => some ⟨⟨⟨y⟩, ⟨s, f⟩⟩, o⟩
  | _ => none
def n? (a : List String) : Option NaiveDT :=
  match ints? a with
  | some [y, s, f] => some ⟨⟨y⟩, ⟨s, f⟩⟩
  | _ => none

def withField (field : String) (z : M.Zoned) (v : Int) : Option (Res (Option M.Zoned)) :=
  match field with
  | "year" => some (z.with_year v)
  | "month" => some (z.with_month v.toNat)
  | "month0" => some (z.with_month0 v.toNat)
  | "day" => some (z.with_day v.toNat)
  | "day0" => some (z.with_day0 v.toNat)
  | "ordinal" => some (z.with_ordinal v.toNat)
  | "ordinal0" => some (z.with_ordinal0 v.toNat)
  | "hour" => some (z.with_hour v)
  | "minute" => some (z.with_minute v)
  | "second" => some (z.with_second v)
  | "nano" => some (z.with_nanosecond v)
  | _ => none

def handle (op : String) (args : List String) : Option String :=
  match op, args with
  | "zn.east", [s] => some ((int? s).elim bad fun s => showOptInt (M.Zoned.east_opt s))
  | "zn.west", [s] => some ((int? s).elim bad fun s => showOptInt (M.Zoned.west_opt s))
  | "zn.obs", [y, s, f, o] => some ((z? [y, s, f, o]).elim bad fun z => joinSp ((obsList z).map toString))
  | "zn.fl", [y, s, f, o] => some (match n? [y, s, f], int? o with
      | some l, some o => showROZ (M.Zoned.from_local_datetime o l) | _, _ => bad)
  | "zn.blk", [i, lo, hi] => some (match nat? i, int? lo, int? hi with
      | some i, some lo, some hi => blockDigest (endValue i) lo hi | _, _, _ => bad)
  | "zn.blkt", [i, s, f, lo, hi] => some (match nat? i, ints? [s, f, lo, hi] with
      | some i, some [s, f, lo, hi] => blockDigest ⟨(endValue i).date, ⟨s, f⟩⟩ lo hi | _, _ => bad)
  | "zn.cmp", [y1, s1, f1, o1, y2, s2, f2, o2] => some (match z? [y1, s1, f1, o1], z? [y2, s2, f2, o2] with
      | some a, some b => s!"{showBool (M.Zoned.eq a b)} {M.Zoned.cmp a b}" | _, _ => bad)
  | "zn.hash", [y, s, f, o] => some ((z? [y, s, f, o]).elim bad fun z => joinSp (z.hashWords.map toString))
  | "zn.tz", [y, s, f, o, o2] => some (match z? [y, s, f, o], int? o2 with
      | some z, some o2 => showZ (z.with_timezone o2) | _, _ => bad)
  | "zn.with", [field, y, s, f, o, v] => some (match z? [y, s, f, o], int? v with
      | some z, some v => (withField field z v).elim bad showROZ | _, _ => bad)
  | "zn.wt", [y, s, f, o, ts, tf] => some (match z? [y, s, f, o], ints? [ts, tf] with
      | some z, some [ts, tf] => showROZ (z.with_time ⟨ts, tf⟩) | _, _ => bad)
  | "zn.days", [dir, y, s, f, o, n] => some (match z? [y, s, f, o], int? n with
      | some z, some n =>
        if dir = "add" then showROZ (z.checked_add_days n)
        else if dir = "sub" then showROZ (z.checked_sub_days n) else bad
      | _, _ => bad)
  | "zn.months", [dir, y, s, f, o, n] => some (match z? [y, s, f, o], nat? n with
      | some z, some n =>
        if dir = "add" then showROZ (z.checked_add_months n)
        else if dir = "sub" then showROZ (z.checked_sub_months n) else bad
      | _, _ => bad)
  | "zn.ymd", [o, y, m, d, h, mi, s] => some (match ints? [o, y, h, mi, s], nats? [m, d] with
      | some [o, y, h, mi, s], some [m, d] => showROZ (M.Zoned.with_ymd_and_hms o y m d h mi s) | _, _ => bad)
  | "zn.ndtoff", [dir, y, s, f, o] => some (match n? [y, s, f], int? o with
      | some l, some o =>
        if dir = "add" then showRON (l.checked_add_offset o)
        else if dir = "sub" then showRON (l.checked_sub_offset o) else bad
      | _, _ => bad)
  | _, _ => none

end Chrono.Drv.Zoned
