import Chrono.Drv.Util
import Chrono.Model.Rfc3339
import Chrono.Model.ParseFrom
/-!
  Driver ops of C10 (prefix `r3.`):
  * `r3.parse x<text>`  → `ok <yof> <secs> <frac> <off>` (UTC reading + offset) | `err` | `panic`
      (`DateTime::parse_from_rfc3339`; the error kind is reported by `r3.parsek`)
  * `r3.parsek x<text>` → the same with `err <Kind>`
  * `r3.opts <yof> <secs> <frac> <off> <secform 0..4> <use_z 0|1>` → `x<text>` | `panic`
      (`DateTime::to_rfc3339_opts` of the value with that UTC reading and offset)
  * `r3.to <yof> <secs> <frac> <off>` → `DateTime::to_rfc3339`
  * `r3.rt <yof> <secs> <frac> <off> <secform> <use_z>` → write, then parse: `ok …` | `err` | `panic`
  * `r3.plus <yof> <secs> <frac> <off>` → `write!(s, "{}", dt.format("%+"))` of that `DateTime<FixedOffset>`:
      `x<text>` | `err` (`fmt::Error`) | `panic`
  * `r3.plusn <yof> <secs> <frac>` → the same for the `NaiveDateTime` (no offset: `err`)
-/
namespace Chrono.Drv.Rfc3339
open Chrono Chrono.M Chrono.Drv Chrono.M.Format

def secform? (n : Int) : Option SecondsFormat :=
  if n = 0 then some .secs else if n = 1 then some .millis else if n = 2 then some .micros
  else if n = 3 then some .nanos else if n = 4 then some .autoSi else none

def showParse (kind : Bool) (r : Parsed.RP Zoned) : String :=
  match r with
  | .ok (.ok z) => s!"ok {z.utc.date.yof} {z.utc.time.secs} {z.utc.time.frac} {z.off}"
  | .ok (.error e) => if kind then s!"err {e.code}" else "err"
  | .panic => "panic"

def showText (r : Res (List Nat)) : String :=
  match r with
  | .ok t => hexEncode t
  | .panic => "panic"

def showW (w : Format.W) : String :=
  match w with
  | .ok (some b) => hexEncode b
  | .ok none => "err"
  | .panic => "panic"

def handle (op : String) (args : List String) : Option String :=
  match op, args with
  | "r3.parse", [s] => some (match hexDecode s with
      | some bs => showParse false (Rfc3339.parse_from_rfc3339 bs)
      | none => bad)
  | "r3.parsek", [s] => some (match hexDecode s with
      | some bs => showParse true (Rfc3339.parse_from_rfc3339 bs)
      | none => bad)
  | "r3.opts", [y, s, f, o, sf, z] => some (match ints? [y, s, f, o, sf, z] with
      | some [y, s, f, o, sf, z] =>
        (match secform? sf with
         | some sf => showText (Rfc3339.to_rfc3339_opts ⟨⟨⟨y⟩, ⟨s, f⟩⟩, o⟩ sf (z != 0))
         | none => bad)
      | _ => bad)
  | "r3.to", [y, s, f, o] => some (match ints? [y, s, f, o] with
      | some [y, s, f, o] => showText (Rfc3339.to_rfc3339 ⟨⟨⟨y⟩, ⟨s, f⟩⟩, o⟩)
      | _ => bad)
  | "r3.rt", [y, s, f, o, sf, z] => some (match ints? [y, s, f, o, sf, z] with
      | some [y, s, f, o, sf, z] =>
        (match secform? sf with
         | some sf =>
           (match Rfc3339.to_rfc3339_opts ⟨⟨⟨y⟩, ⟨s, f⟩⟩, o⟩ sf (z != 0) with
            | .ok t => showParse false (Rfc3339.parse_from_rfc3339 t)
            | .panic => "panic")
         | none => bad)
      | _ => bad)
  | "r3.plus", [y, s, f, o] => some (match ints? [y, s, f, o] with
      | some [y, s, f, o] => showW (ParseFrom.format (.zoned ⟨⟨⟨y⟩, ⟨s, f⟩⟩, o⟩) [37, 43])
      | _ => bad)
  | "r3.plusn", [y, s, f] => some (match ints? [y, s, f] with
      | some [y, s, f] => showW (ParseFrom.format (.naive ⟨⟨y⟩, ⟨s, f⟩⟩) [37, 43])
      | _ => bad)
  | _, _ => none

end Chrono.Drv.Rfc3339
