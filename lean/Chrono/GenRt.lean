/-
  GenRt: the run-time vocabulary of the code translator `tools/extractors/rust2lean.py`.

  `lean/Chrono/Extracted/Gen.lean` (generated on every run from the Rust source text) is written in terms of
  `Chrono.Prim` (`Res`, `ckI32/ckI64/ckU32/ckU64`, `optI32/optI64/optU32`, `asU8/asU32/asI32/asI64`) and of the
  definitions below, which give the meaning of the remaining machine operations of the translated Rust
  subset.  Every definition here is part of the translator's trusted semantics (see its docstring).
  Mathlib-free; values of every machine type are unbounded `Int`s that lie in the type's range.
-/
import Chrono.Prim

namespace Chrono.GenRt
open Chrono

/-! ### overflow-checked results for the machine types `Prim` has no helper for -/
@[inline] def ckI8 (x : Int) : Res Int := if decide (-128 ≤ x) && decide (x ≤ 127) then .ok x else .panic
@[inline] def ckU8 (x : Int) : Res Int := if decide (0 ≤ x) && decide (x ≤ 255) then .ok x else .panic
@[inline] def ckI16 (x : Int) : Res Int := if decide (-32768 ≤ x) && decide (x ≤ 32767) then .ok x else .panic
@[inline] def ckU16 (x : Int) : Res Int := if decide (0 ≤ x) && decide (x ≤ 65535) then .ok x else .panic
/-- `usize` of the 64-bit target the harness is built for -/
@[inline] def ckUsize (x : Int) : Res Int := ckU64 x
@[inline] def ckIsize (x : Int) : Res Int := ckI64 x
@[inline] def ckI128 (x : Int) : Res Int := if inI128 x then .ok x else .panic
@[inline] def ckU128 (x : Int) : Res Int :=
  if decide (0 ≤ x) && decide (x ≤ 340282366920938463463374607431768211455) then .ok x else .panic

/-! ### `checked_*`: `None` outside the type -/
@[inline] def optI8 (x : Int) : Option Int := if decide (-128 ≤ x) && decide (x ≤ 127) then some x else none
@[inline] def optU8 (x : Int) : Option Int := if decide (0 ≤ x) && decide (x ≤ 255) then some x else none
@[inline] def optI16 (x : Int) : Option Int := if decide (-32768 ≤ x) && decide (x ≤ 32767) then some x else none
@[inline] def optU16 (x : Int) : Option Int := if decide (0 ≤ x) && decide (x ≤ 65535) then some x else none
@[inline] def optU64 (x : Int) : Option Int := if inU64 x then some x else none
@[inline] def optUsize (x : Int) : Option Int := optU64 x
@[inline] def optIsize (x : Int) : Option Int := optI64 x
@[inline] def optI128 (x : Int) : Option Int := if inI128 x then some x else none

/-! ### `as` casts (two's-complement truncation) the Prim has no helper for -/
@[inline] def asU16 (x : Int) : Int := x % 65536
@[inline] def asU64 (x : Int) : Int := x % 18446744073709551616
@[inline] def asUsize (x : Int) : Int := asU64 x
@[inline] def asU128 (x : Int) : Int := x % 340282366920938463463374607431768211456
@[inline] def asI8 (x : Int) : Int :=
  let r := x % 256
  if r ≥ 128 then r - 256 else r
@[inline] def asI16 (x : Int) : Int :=
  let r := x % 65536
  if r ≥ 32768 then r - 65536 else r
@[inline] def asIsize (x : Int) : Int := asI64 x
@[inline] def asI128 (x : Int) : Int :=
  let r := x % 340282366920938463463374607431768211456
  if r ≥ 170141183460469231731687303715884105728 then r - 340282366920938463463374607431768211456 else r

/-! ### division: Rust `/ %` truncate, `div_euclid/rem_euclid` are Euclidean; a zero divisor panics, and so
does `MIN / -1` (the quotient is outside the type) and `MIN % -1` (Rust defines it as an overflow).
`lo`/`hi` are the bounds of the machine type. -/
def tdivCk (lo hi a b : Int) : Res Int :=
  if b = 0 then .panic
  else if decide (lo ≤ Int.tdiv a b) && decide (Int.tdiv a b ≤ hi) then .ok (Int.tdiv a b) else .panic
def tmodCk (lo a b : Int) : Res Int :=
  if b = 0 then .panic else if a = lo ∧ b = -1 then .panic else .ok (Int.tmod a b)
def edivCk (lo hi a b : Int) : Res Int :=
  if b = 0 then .panic
  else if decide (lo ≤ a / b) && decide (a / b ≤ hi) then .ok (a / b) else .panic
def emodCk (lo a b : Int) : Res Int :=
  if b = 0 then .panic else if a = lo ∧ b = -1 then .panic else .ok (a % b)

/-! ### shifts by a run-time amount: the overflow-checked build panics when the amount is not below the
width `w`; bits shifted out on the left are dropped (`wrap` is the cast of the result type). `>>` on a
signed value is arithmetic, i.e. floor division. -/
def shrCk (w : Nat) (a k : Int) : Res Int :=
  if 0 ≤ k ∧ k < w then .ok (a / (2 : Int) ^ k.toNat) else .panic
def shlCk (w : Nat) (wrap : Int → Int) (a k : Int) : Res Int :=
  if 0 ≤ k ∧ k < w then .ok (wrap (a * (2 : Int) ^ k.toNat)) else .panic

/-! ### bitwise `| & ^` of two run-time operands.  Unsigned types: the operands are non-negative, the natural
number operation is the machine operation.  Signed types of width `w`: the operation on the two's-complement
bit patterns (`x mod 2^w`), result cast back (`wrap` = `asI32`, …). -/
def lorU (a b : Int) : Int := Int.ofNat (a.toNat ||| b.toNat)
def landU (a b : Int) : Int := Int.ofNat (a.toNat &&& b.toNat)
def lxorU (a b : Int) : Int := Int.ofNat (a.toNat ^^^ b.toNat)
def lorI (w : Nat) (wrap : Int → Int) (a b : Int) : Int :=
  wrap (Int.ofNat ((a % (2 : Int) ^ w).toNat ||| (b % (2 : Int) ^ w).toNat))
def landI (w : Nat) (wrap : Int → Int) (a b : Int) : Int :=
  wrap (Int.ofNat ((a % (2 : Int) ^ w).toNat &&& (b % (2 : Int) ^ w).toNat))
def lxorI (w : Nat) (wrap : Int → Int) (a b : Int) : Int :=
  wrap (Int.ofNat ((a % (2 : Int) ^ w).toNat ^^^ (b % (2 : Int) ^ w).toNat))

/-! ### bounds-checked indexing (`TABLE[i]` with `i : usize`): out of range panics -/
def idxN (tbl : List Nat) (i : Int) : Res Int :=
  if 0 ≤ i ∧ i < tbl.length then .ok (Int.ofNat (tbl.getD i.toNat 0)) else .panic
def idxL (tbl : List Int) (i : Int) : Res Int :=
  if 0 ≤ i ∧ i < tbl.length then .ok (tbl.getD i.toNat 0) else .panic

/-- `iN::abs`: panics on `MIN` (`lo`) in the overflow-checked build -/
def absCk (lo a : Int) : Res Int := if a = lo then .panic else .ok (if a < 0 then -a else a)

/-! ### `Result<T, E>`: `Ok(v)` / `Err(e)`.  (Core's `Except` has no `DecidableEq`.)  `T` first, as in Rust.  The error
type is the Lean type of the Rust error type: a field-less error enum is its discriminant (`Int`), a unit-like error
struct (`OutOfRangeError(())`) is `Unit`. -/
inductive Result (α ε : Type) where
  | ok (v : α)
  | err (e : ε)
  deriving DecidableEq, Repr

namespace Result
/-- `Result::is_ok` -/
def isOk {α ε : Type} : Result α ε → Bool
  | .ok _ => true
  | .err _ => false
/-- `Result::is_err` -/
def isErr {α ε : Type} : Result α ε → Bool
  | .ok _ => false
  | .err _ => true
/-- `Result::ok`: `Ok(v)` ↦ `Some(v)`, `Err(_)` ↦ `None` -/
def toOption {α ε : Type} : Result α ε → Option α
  | .ok v => some v
  | .err _ => none
/-- `Option::ok_or`: `Some(v)` ↦ `Ok(v)`, `None` ↦ `Err(e)` -/
def okOr {α ε : Type} (o : Option α) (e : ε) : Result α ε :=
  match o with
  | some v => .ok v
  | none => .err e
end Result

end Chrono.GenRt
