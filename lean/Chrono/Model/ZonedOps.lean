/-
  Operations of `DateTime<Tz>` (src/datetime/mod.rs) for `Tz = FixedOffset` / `Utc` that act on the
  wall-clock reading: the `Datelike` / `Timelike` accessors and single-field replacements (through
  `map_local`), day and month stepping, `with_ymd_and_hms`, `PartialEq` / `Hash`.  `Zoned` itself,
  `naive_local`, `overflowing_naive_local`, `from_local_datetime`, `map_local`, `with_time` are in
  Model/DateTime.lean.

  `map_local` hands the closure a *local* date that may lie one day outside the range
  (`NaiveDate::BEFORE_MIN` / `AFTER_MAX`), so the date-level field replacements are needed on such
  dates too.  They are the functions of Model/DateOps.lean (`impl Datelike for NaiveDate`,
  `NaiveDate::{with_mdf, diff_months, checked_add_months, checked_sub_months}`, C08's model) and of
  Model/DateArith.lean (`checked_add_days`, `checked_sub_days`, C03's model), which are total
  functions of the packed word; C08 / C03 prove them on dates of the range, Proofs/ZonedDateL.lean
  extends those proofs to the two headroom years, and the `zn.*` correspondence exercises them on
  headroom dates.
  `u32` arguments are `Nat`, `i32` arguments `Int`.
-/
import Chrono.Model.DateTime
import Chrono.Model.DateOps
namespace Chrono.M
open Chrono.Extracted

/-! ### `impl Datelike / Timelike for NaiveDateTime`: replace in the date or in the time part -/
namespace NaiveDT
def mapDate (dt : NaiveDT) (r : Res (Option Date)) : Res (Option NaiveDT) :=
  r.bind fun o => .ok (o.map fun d => ⟨d, dt.time⟩)
def mapTime (dt : NaiveDT) (o : Option Time) : Res (Option NaiveDT) :=
  .ok (o.map fun t => ⟨dt.date, t⟩)

def with_year (dt : NaiveDT) (y : Int) := mapDate dt (Date.with_year dt.date y)
def with_month (dt : NaiveDT) (m : Nat) := mapDate dt (Date.with_month dt.date m)
def with_month0 (dt : NaiveDT) (m : Nat) := mapDate dt (Date.with_month0 dt.date m)
def with_day (dt : NaiveDT) (d : Nat) := mapDate dt (Date.with_day dt.date d)
def with_day0 (dt : NaiveDT) (d : Nat) := mapDate dt (Date.with_day0 dt.date d)
def with_ordinal (dt : NaiveDT) (o : Nat) := mapDate dt (Date.with_ordinal dt.date o)
def with_ordinal0 (dt : NaiveDT) (o : Nat) := mapDate dt (Date.with_ordinal0 dt.date o)
def with_hour (dt : NaiveDT) (h : Int) := mapTime dt (dt.time.with_hour h)
def with_minute (dt : NaiveDT) (m : Int) := mapTime dt (dt.time.with_minute m)
def with_second (dt : NaiveDT) (s : Int) := mapTime dt (dt.time.with_second s)
def with_nanosecond (dt : NaiveDT) (n : Int) := mapTime dt (dt.time.with_nanosecond n)
def zchecked_add_days (dt : NaiveDT) (n : Int) := mapDate dt (Date.checked_add_days dt.date n)
def zchecked_sub_days (dt : NaiveDT) (n : Int) := mapDate dt (Date.checked_sub_days dt.date n)
def checked_add_months (dt : NaiveDT) (n : Nat) := mapDate dt (Date.checked_add_months dt.date n)
def checked_sub_months (dt : NaiveDT) (n : Nat) := mapDate dt (Date.checked_sub_months dt.date n)
/-- derived `Hash`: `write_i32(yof)`, `write_u32(secs)`, `write_u32(frac)` -/
def hashWords (dt : NaiveDT) : List Int := [dt.date.yof, dt.time.secs, dt.time.frac]
end NaiveDT

namespace Zoned

/-- `FixedOffset::local_minus_utc` / `utc_minus_local` -/
def local_minus_utc (off : Int) : Int := off
def utc_minus_local (off : Int) : Int := -off

/-- `naive_utc()` -/
def naive_utc (z : Zoned) : NaiveDT := z.utc
/-- `to_utc()`, `fixed_offset()` -/
def to_utc (z : Zoned) : Zoned := ⟨z.utc, 0⟩
def fixed_offset (z : Zoned) : Zoned := ⟨z.utc, z.off⟩

/-- `PartialEq`: the stored UTC readings -/
def eq (a b : Zoned) : Bool := decide (a.utc = b.utc)
/-- `Hash`: hashes `self.datetime` only -/
def hashWords (z : Zoned) : List Int := z.utc.hashWords

/-! `Datelike` / `Timelike` accessors: all read `overflowing_naive_local()` -/
def year (z : Zoned) : Res Int := (overflowing_naive_local z).bind fun l => .ok l.date.year
def month (z : Zoned) : Res Nat := (overflowing_naive_local z).bind fun l => l.date.month
def day (z : Zoned) : Res Nat := (overflowing_naive_local z).bind fun l => l.date.day
def ordinal (z : Zoned) : Res Int := (overflowing_naive_local z).bind fun l => .ok l.date.ordinal
def weekday (z : Zoned) : Res Weekday := (overflowing_naive_local z).bind fun l => .ok l.date.weekday
def iso_week (z : Zoned) : Res Int := (overflowing_naive_local z).bind fun l => l.date.iso_week
/-- the `Datelike` default `num_days_from_ce` (same body as `NaiveDate`'s), on the local date -/
def num_days_from_ce (z : Zoned) : Res Int :=
  (overflowing_naive_local z).bind fun l => l.date.num_days_from_ce
def hour (z : Zoned) : Res Int := (overflowing_naive_local z).bind fun l => .ok l.time.hour
def minute (z : Zoned) : Res Int := (overflowing_naive_local z).bind fun l => .ok l.time.minute
def second (z : Zoned) : Res Int := (overflowing_naive_local z).bind fun l => .ok l.time.second
def nanosecond (z : Zoned) : Res Int := (overflowing_naive_local z).bind fun l => .ok l.time.nanosecond

/-! single-field replacement: `map_local(self, |dt| dt.with_…(x))` -/
/-- `with_year`: an unchanged year short-cuts to `Some(dt)` (so that an out-of-range local date
survives) -/
def with_year (z : Zoned) (y : Int) : Res (Option Zoned) :=
  map_local z fun dt => if dt.date.year = y then .ok (some dt) else dt.with_year y
def with_month (z : Zoned) (m : Nat) := map_local z fun dt => dt.with_month m
def with_month0 (z : Zoned) (m : Nat) := map_local z fun dt => dt.with_month0 m
def with_day (z : Zoned) (d : Nat) := map_local z fun dt => dt.with_day d
def with_day0 (z : Zoned) (d : Nat) := map_local z fun dt => dt.with_day0 d
def with_ordinal (z : Zoned) (o : Nat) := map_local z fun dt => dt.with_ordinal o
def with_ordinal0 (z : Zoned) (o : Nat) := map_local z fun dt => dt.with_ordinal0 o
def with_hour (z : Zoned) (h : Int) := map_local z fun dt => dt.with_hour h
def with_minute (z : Zoned) (m : Int) := map_local z fun dt => dt.with_minute m
def with_second (z : Zoned) (s : Int) := map_local z fun dt => dt.with_second s
def with_nanosecond (z : Zoned) (n : Int) := map_local z fun dt => dt.with_nanosecond n

/-- `checked_add_days(Days(n: u64))`: `Days(0)` returns `self`; otherwise step the local date,
convert back, keep only results `≤ MAX_UTC` -/
def checked_add_days (z : Zoned) (n : Int) : Res (Option Zoned) :=
  if n = 0 then .ok (some z)
  else
    (overflowing_naive_local z).bind fun l =>
    (l.zchecked_add_days n).bind fun r =>
    match r with
    | none => .ok none
    | some nl =>
      (from_local_datetime z.off nl).bind fun q =>
      match q with
      | some z' => .ok (if NaiveDT.cmp z'.utc NaiveDT.MAX ≤ 0 then some z' else none)
      | none => .ok none

/-- `checked_sub_days`: no `Days(0)` short cut; keep only results `≥ MIN_UTC` -/
def checked_sub_days (z : Zoned) (n : Int) : Res (Option Zoned) :=
  (overflowing_naive_local z).bind fun l =>
  (l.zchecked_sub_days n).bind fun r =>
  match r with
  | none => .ok none
  | some nl =>
    (from_local_datetime z.off nl).bind fun q =>
    match q with
    | some z' => .ok (if NaiveDT.cmp z'.utc NaiveDT.MIN ≥ 0 then some z' else none)
    | none => .ok none

/-- `checked_add_months` / `checked_sub_months`: step the local date, `and_local_timezone(..).single()`
(no further range filter) -/
def checked_add_months (z : Zoned) (n : Nat) : Res (Option Zoned) :=
  (overflowing_naive_local z).bind fun l =>
  (l.checked_add_months n).bind fun r =>
  match r with
  | none => .ok none
  | some nl => from_local_datetime z.off nl
def checked_sub_months (z : Zoned) (n : Nat) : Res (Option Zoned) :=
  (overflowing_naive_local z).bind fun l =>
  (l.checked_sub_months n).bind fun r =>
  match r with
  | none => .ok none
  | some nl => from_local_datetime z.off nl

/-- `TimeZone::with_ymd_and_hms(year, month, day, hour, min, sec)` -/
def with_ymd_and_hms (off : Int) (y : Int) (m d : Nat) (h mi s : Int) : Res (Option Zoned) :=
  (Date.from_ymd_opt y m d).bind fun r =>
  match r, Time.from_hms_opt h mi s with
  | some date, some t => from_local_datetime off ⟨date, t⟩
  | _, _ => .ok none

end Zoned
end Chrono.M
