/-
  C03, audit gaps (2026-09-30): the remaining arithmetic entry points mirrored one-for-one.

  * `Iterator::size_hint` of `NaiveDateDaysIterator` / `NaiveDateWeeksIterator` as the pair
    `(usize, Option<usize>)` the source returns (`(exact_size as usize, Some(exact_size as usize))`);
  * `impl AddAssign/SubAssign<TimeDelta>` and `<core::time::Duration>` for `NaiveDate`,
    `NaiveDateTime` (`*self = self.add(rhs)`) and for `DateTime<Tz>` (own body: checked sum of the
    stored UTC value, `expect`, `tz.from_utc_datetime`);
  * `impl PartialEq / PartialOrd / Ord for DateTime<Tz>` (src/datetime/mod.rs): all three delegate
    to the stored UTC `NaiveDateTime`;
  * a script runner for interleaved `next` / `next_back` calls on ONE iterator value (the source keeps
    a single cursor `value`; `self.value = current.succ_opt()?` leaves it unchanged when it returns
    `None`).
-/
import Chrono.Model.ArithOps
import Chrono.Model.ZonedOps
namespace Chrono.M
open Chrono.Extracted

/-- `x as usize` for an `i64` `x` on a 64-bit target (two's-complement reinterpretation) -/
def asUsize (x : Int) : Int := x % 18446744073709551616

namespace DaysIter
/-- `size_hint`: `let exact_size = MAX.signed_duration_since(self.value).num_days();
(exact_size as usize, Some(exact_size as usize))` -/
def size_hint_pair (v : Date) : Res (Int × Option Int) :=
  match Date.signed_duration_since Date.MAX v with
  | .ok d =>
    let exact_size := d.num_days
    .ok (asUsize exact_size, some (asUsize exact_size))
  | .panic => .panic
end DaysIter

namespace WeeksIter
/-- `size_hint`: the same with `num_weeks()` -/
def size_hint_pair (v : Date) : Res (Int × Option Int) :=
  match Date.signed_duration_since Date.MAX v with
  | .ok d =>
    let exact_size := d.num_weeks
    .ok (asUsize exact_size, some (asUsize exact_size))
  | .panic => .panic
end WeeksIter

/-- one call on a double-ended iterator: `false` = `next`, `true` = `next_back` -/
abbrev IterCall := Bool

/-- a script of `next` / `next_back` calls on one iterator value: what each call returned (`none` =
the call returned `None`; the cursor is then unchanged, as in the source) -/
def runScript (next back : Date → Res (Option (Date × Date))) : List IterCall → Date → Res (List (Option Date))
  | [], _ => .ok []
  | b :: rest, v =>
    match (if b then back v else next v) with
    | .panic => .panic
    | .ok none =>
      match runScript next back rest v with
      | .panic => .panic
      | .ok l => .ok (none :: l)
    | .ok (some (item, v')) =>
      match runScript next back rest v' with
      | .panic => .panic
      | .ok l => .ok (some item :: l)

namespace Date
/-- `impl AddAssign<TimeDelta> for NaiveDate`: `*self = self.add(rhs)` -/
def add_assign (d : Date) (rhs : Delta) : Res Date := Date.add d rhs
/-- `impl SubAssign<TimeDelta> for NaiveDate`: `*self = self.sub(rhs)` -/
def sub_assign (d : Date) (rhs : Delta) : Res Date := Date.sub d rhs
end Date

namespace NaiveDT
/-- `impl AddAssign<TimeDelta> for NaiveDateTime`: `*self = self.add(rhs)` -/
def add_assign (dt : NaiveDT) (rhs : Delta) : Res NaiveDT := add dt rhs
def sub_assign (dt : NaiveDT) (rhs : Delta) : Res NaiveDT := sub dt rhs
/-- `impl AddAssign<Duration> for NaiveDateTime`: `*self = self.add(rhs)` (the `Duration` operator) -/
def add_assign_std (dt : NaiveDT) (secs nanos : Int) : Res NaiveDT := add_std dt secs nanos
def sub_assign_std (dt : NaiveDT) (secs nanos : Int) : Res NaiveDT := sub_std dt secs nanos
end NaiveDT

namespace Zoned
/-- `impl AddAssign<TimeDelta> for DateTime<Tz>`:
`let datetime = self.datetime.checked_add_signed(rhs).expect(…); let tz = self.timezone();
*self = tz.from_utc_datetime(&datetime)` -/
def add_assign (z : Zoned) (rhs : Delta) : Res Zoned :=
  (expectSome (z.utc.checked_add_signed rhs)).bind fun datetime =>
  let tz := z.off
  .ok (from_utc_datetime tz datetime)
def sub_assign (z : Zoned) (rhs : Delta) : Res Zoned :=
  (expectSome (z.utc.checked_sub_signed rhs)).bind fun datetime =>
  let tz := z.off
  .ok (from_utc_datetime tz datetime)
/-- `impl AddAssign<Duration> for DateTime<Tz>`: `expect(from_std)`, then `*self += rhs` -/
def add_assign_std (z : Zoned) (secs nanos : Int) : Res Zoned :=
  match Delta.from_std secs nanos with
  | some d => add_assign z d
  | none => .panic
def sub_assign_std (z : Zoned) (secs nanos : Int) : Res Zoned :=
  match Delta.from_std secs nanos with
  | some d => sub_assign z d
  | none => .panic

/-- `impl PartialOrd<DateTime<Tz2>> for DateTime<Tz>`: `self.datetime.partial_cmp(&other.datetime)`
(derived on `NaiveDateTime`, a total order: always `Some`) -/
def partial_cmp (a b : Zoned) : Option Int := some (NaiveDT.cmp a.utc b.utc)
-- `impl PartialEq<DateTime<Tz2>> for DateTime<Tz>` (`self.datetime == other.datetime`) is
-- `Zoned.eq` of Model/ZonedOps.lean
end Zoned

/-! ### `a - b` operator forms (second review, gap G5) -/
namespace Date
/-- `impl Sub<NaiveDate> for NaiveDate`: `self.signed_duration_since(rhs)` -/
def sub_date (a b : Date) : Res Delta := signed_duration_since a b
end Date
namespace NaiveDT
/-- `impl Sub<NaiveDateTime> for NaiveDateTime`: `self.signed_duration_since(rhs)` -/
def sub_dt (a b : NaiveDT) : Res Delta := signed_duration_since a b
end NaiveDT
namespace Zoned
/-- `impl Sub<DateTime<Tz>> for DateTime<Tz>`: `self.signed_duration_since(rhs)` -/
def sub_zoned (a b : Zoned) : Res Delta := signed_duration_since a b
/-- `impl Sub<&DateTime<Tz>> for DateTime<Tz>`: the same body, the operand borrowed -/
def sub_zoned_ref (a b : Zoned) : Res Delta := signed_duration_since a b
end Zoned

/-! ### the derived comparisons of `NaiveDateTime` (second review, gap G2)
`#[derive(PartialEq, Eq, PartialOrd, Ord)] pub struct NaiveDateTime { date: NaiveDate, time: NaiveTime }`,
`NaiveDate { yof: NonZeroI32 }`, `NaiveTime { secs: u32, frac: u32 }`: field by field in declaration
order (the derive lines and the field order are pinned in Pins/C03.lean). -/
namespace NaiveDT
/-- derived `PartialOrd::partial_cmp`: lexicographic over the fields, always `Some` -/
def partial_cmp (a b : NaiveDT) : Option Int :=
  match Date.cmp a.date b.date with
  | 0 => some (Time.cmp a.time b.time)
  | c => some c
/-- derived `PartialEq::eq`: all fields equal -/
def eq (a b : NaiveDT) : Bool :=
  decide (a.date.yof = b.date.yof) && (decide (a.time.secs = b.time.secs) && decide (a.time.frac = b.time.frac))
/-- `<` (`PartialOrd::lt` default): `partial_cmp == Some(Less)` -/
def lt (a b : NaiveDT) : Bool := partial_cmp a b == some (-1)
/-- `Ord::max` default: `if other < self { self } else { other }` -/
def max (a b : NaiveDT) : NaiveDT := if lt b a then a else b
end NaiveDT

end Chrono.M
