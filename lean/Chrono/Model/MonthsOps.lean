/-
  The remaining public forms of C08's operations (audit gaps MEDIUM-1, LOW-6, LOW-7):

  src/naive/date/mod.rs      impl Add<Months> / Sub<Months> for NaiveDate,
                             NaiveDate::from_weekday_of_month (deprecated panicking alias)
  src/naive/datetime/mod.rs  impl Add<Months> / Sub<Months> for NaiveDateTime
  src/datetime/mod.rs        impl Add<Months> / Sub<Months> for DateTime<Tz>      (Tz = FixedOffset / Utc)
  src/month.rs               Months::new, Months::as_u32
  src/traits.rs              the Datelike *default* methods quarter / year_ce / num_days_in_month as
                             `NaiveDateTime` and `DateTime<Tz>` inherit them (their `month()` / `year()`
                             read the date part resp. the wall clock)

  Every operator is `self.checked_…_months(rhs).expect("… out of range")`: a panic exactly on `None`.
  Same names (`add` / `sub` of the `Months` impls are `add_months_op` / `sub_months_op`), same branch
  structure.  `u32` arguments are `Nat`.  `Res` = the overflow-checked build.
-/
import Chrono.Model.ArithOps
import Chrono.Model.DateTimeOps
namespace Chrono.M
open Chrono.Extracted Chrono.Extracted.DateOps

/-- `Months::new(num: u32)` / `Months::as_u32`: the newtype around the count -/
def Months.new (num : Nat) : Nat := num
def Months.as_u32 (m : Nat) : Nat := m

namespace Date
/-- `impl Add<Months> for NaiveDate`: `self.checked_add_months(months).expect(…)` -/
def add_months_op (d : Date) (n : Nat) : Res Date := expectSome (checked_add_months d n)
/-- `impl Sub<Months> for NaiveDate` -/
def sub_months_op (d : Date) (n : Nat) : Res Date := expectSome (checked_sub_months d n)
/-- `NaiveDate::from_weekday_of_month`: `expect(from_weekday_of_month_opt(..), "out-of-range date")` -/
def from_weekday_of_month (year : Int) (month : Nat) (weekday : Weekday) (n : Nat) : Res Date :=
  expectSome (from_weekday_of_month_opt year month weekday n)
end Date

/-! ### the `Datelike` default bodies, as functions of the implementor's `month()` / `year()` -/
namespace Datelike
/-- `(self.month() - 1).div_euclid(3) + 1` on `u32` -/
def quarter (month : Res Nat) : Res Nat :=
  month.bind fun m => if m < Q_SUB then .panic else .ok ((m - Q_SUB) / Q_DIV + Q_ADD)
/-- `if year < 1 { (false, (1 - year) as u32) } else { (true, year as u32) }` -/
def year_ce (year : Res Int) : Res (Bool × Int) :=
  year.bind fun year =>
    if year < 1 then
      match ckI32 (1 - year) with
      | .ok v => .ok (false, asU32 v)
      | .panic => .panic
    else .ok (true, asU32 year)
/-- `Month::from_u32(self.month()).unwrap().num_days(self.year()).unwrap()` -/
def num_days_in_month (month : Res Nat) (year : Res Int) : Res Nat :=
  month.bind fun m =>
    match Month.from_u32 m with
    | none => .panic
    | some mo =>
      year.bind fun y =>
        match mo.num_days y with
        | .ok (some n) => .ok n
        | _ => .panic
end Datelike

namespace NaiveDT
/-- `impl Add<Months> for NaiveDateTime` -/
def add_months_op (dt : NaiveDT) (n : Nat) : Res NaiveDT := expectSome (checked_add_months dt n)
/-- `impl Sub<Months> for NaiveDateTime` -/
def sub_months_op (dt : NaiveDT) (n : Nat) : Res NaiveDT := expectSome (checked_sub_months dt n)
/-- `impl Datelike for NaiveDateTime`: `month()` / `year()` are the date part's -/
def quarter (dt : NaiveDT) : Res Nat := Datelike.quarter dt.date.month
def year_ce (dt : NaiveDT) : Res (Bool × Int) := Datelike.year_ce (.ok dt.date.year)
def num_days_in_month (dt : NaiveDT) : Res Nat := Datelike.num_days_in_month dt.date.month (.ok dt.date.year)
end NaiveDT

namespace Zoned
/-- `impl Add<Months> for DateTime<Tz>` -/
def add_months_op (z : Zoned) (n : Nat) : Res Zoned := expectSome (checked_add_months z n)
/-- `impl Sub<Months> for DateTime<Tz>` -/
def sub_months_op (z : Zoned) (n : Nat) : Res Zoned := expectSome (checked_sub_months z n)
/-- `impl Datelike for DateTime<Tz>`: `month()` / `year()` read `overflowing_naive_local()` -/
def quarter (z : Zoned) : Res Nat := Datelike.quarter (month z)
def year_ce (z : Zoned) : Res (Bool × Int) := Datelike.year_ce (year z)
def num_days_in_month (z : Zoned) : Res Nat := Datelike.num_days_in_month (month z) (year z)
end Zoned

end Chrono.M
