/-
  Slice-recording copies of ALL scanners of src/format/scan.rs and of the item-driven parser of
  src/format/parse.rs (property C15, second review, gap 2).  This extends Model/Rfc3339Slices.lean
  (property C10, which covers `number`, `char`, `nanosecond`, `timezone_offset` and the strict
  `parse_rfc3339`) with the same writer `T`: every function here runs the SAME computation as its plain
  model (Model/Scan.lean, Model/Weekday.lean, Model/Parse.lean), step for step, and records every `&str`
  index expression `&src[k..]` the Rust code evaluates — ALSO IN A RUN THAT FAILS LATER, and in the
  order of the Rust statements (a slice taken before a comparison or before a failing setter is
  recorded; a slice taken after a failing setter is not) — as the pair (string sliced, suffix obtained).
  Spec/StrSliceSpec.lean evaluates the record with the `Res`-valued `sliceFrom` (panics off a char
  boundary); Proofs/ScanSlicesL.lean proves (1) the result component is the plain model's result and
  (2) on a well-formed UTF-8 text with well-formed literals no recorded slice panics.

  Slice sites (scan.rs / parse.rs line numbers of the pinned source):
    scan.rs   number 35, 45 (C10)        short_month0 102        short_weekday 121
              short_or_long_month0 138   short_or_long_weekday 156   char 165 (C10)
              timezone_offset 214, 225, 231, 240, 253, 272 (C10)  timezone_offset_2822 291
              comment_2822 334           nanosecond (C10), nanosecond_fixed: `number`'s slice
    parse.rs  parse_rfc2822 106          parse_rfc3339 199, 210 (C10)
              parse_internal 312 (323 is the same for an owned literal), 369, 372, 417, 422
              parse_rfc3339_relaxed 570, 578
  NOT recorded: `&str`s made by std (`trim_start`, `trim_start_matches` — std guarantees a boundary; the
  C10 copies `nanosecondT` and `consumeColonT` do record theirs, which only adds to what is proved), the
  BYTE slices `s.as_bytes()[..n]` (scan.rs 137, 155, 290; parse.rs 577), which are not `&str` slices: they
  panic only for `n > len` (`Spec.StrSlice.bytesTo`), and each is guarded by `s.len() >= n` (137, 155, 577)
  or has `n = position(..).unwrap_or(len) ≤ len` (290); and table / byte indexing (`buf[0]`, `SCALE[consumed]`).
  No driver op: Rust offers no way to observe its slice indices; the tie to the code is the source pins.
-/
import Chrono.Model.Rfc3339Slices
namespace Chrono.M
namespace ScanSlices
open Scan Parse Rfc3339Slices

def convE : ScanErr → PErr
  | .tooShort => .tooShort
  | .invalid => .invalid

/-! ### scan.rs -/

/-- `scan::nanosecond_fixed`: `number`'s slice only -/
def nanosecond_fixedT (s : List Nat) (digits : Nat) : T (List Nat × Int) :=
  bindT (numberT s digits (some digits)) fun (rest, v) =>
    let v := v * SCALE.getD digits 0
    if v > I64_MAX then fail .outOfRange else ret (rest, v)

/-- `scan::short_month0`: `Ok((&s[3..], month0))`, no slice on an `Err` return -/
def short_month0T (s : List Nat) : T (List Nat × Nat) :=
  match short_month0 s with
  | .ok (rest, i) => sliced s rest (rest, i)
  | .error e => fail (convE e)

/-- `scan::short_weekday`: `Ok((&s[3..], weekday))` -/
def short_weekdayT (s : List Nat) : T (List Nat × Weekday) :=
  match short_weekday s with
  | .ok (rest, w) => sliced s rest (rest, w)
  | .error e => fail (convE e)

/-- `if s.len() >= suffix.len() && s.as_bytes()[..suffix.len()].eq_ignore_ascii_case(suffix)
{ s = &s[suffix.len()..]; }`: the comparison reads a BYTE slice (no char-boundary requirement, in
bounds by the first conjunct); the `&str` slice is taken only after the ASCII comparison succeeded -/
def eatSuffixT (s suffix : List Nat) : T (List Nat) :=
  if s.length ≥ suffix.length ∧ lowerS (s.take suffix.length) = lowerS suffix
  then sliced s (s.drop suffix.length) (s.drop suffix.length) else ret s

/-- `scan::short_or_long_month0` -/
def short_or_long_month0T (s : List Nat) : T (List Nat × Nat) :=
  bindT (short_month0T s) fun (rest, i) =>
  bindT (eatSuffixT rest (Extracted.LONG_MONTH_SUFFIXES.getD i [])) fun r => ret (r, i)

/-- `scan::short_or_long_weekday` -/
def short_or_long_weekdayT (s : List Nat) : T (List Nat × Weekday) :=
  bindT (short_weekdayT s) fun (rest, w) =>
  bindT (eatSuffixT rest (Extracted.LONG_WEEKDAY_SUFFIXES.getD w.num_days_from_monday [])) fun r => ret (r, w)

/-- the name table of `scan::timezone_offset_2822` (after `let s = &s[upto..]`) -/
def zoneName (name rest : List Nat) : PRes (List Nat × Int) :=
  let low := lowerS name
  let is (t : String) : Bool := low == asciiBytes t
  if is "gmt" || is "ut" || is "z" then .ok (rest, 0)
  else if is "edt" then .ok (rest, -4 * 3600)
  else if is "est" || is "cdt" then .ok (rest, -5 * 3600)
  else if is "cst" || is "mdt" then .ok (rest, -6 * 3600)
  else if is "mst" || is "pdt" then .ok (rest, -7 * 3600)
  else if is "pst" then .ok (rest, -8 * 3600)
  else match name with
    | [c] =>
      if (97 ≤ c ∧ c ≤ 105) ∨ (107 ≤ c ∧ c ≤ 121) ∨ (65 ≤ c ∧ c ≤ 73) ∨ (75 ≤ c ∧ c ≤ 89)
      then .ok (rest, 0) else .error .invalid
    | _ => .error .invalid

/-- `scan::timezone_offset_2822`: `let s = &s[upto..]` is evaluated BEFORE the name is looked up, so it is
recorded also when the result is `Err(INVALID)` -/
def timezone_offset_2822T (s : List Nat) : T (List Nat × Int) :=
  if (takeAlpha s).1.length > 0 then
    bindT (sliced s (takeAlpha s).2 (takeAlpha s).2) fun rest => lift (zoneName (takeAlpha s).1 rest)
  else timezone_offsetT s .nothing false false false

/-- `scan::comment_2822`: `let s = s.trim_start()` (std), then `Ok((&s[i + 1..], ()))` -/
def comment_2822T (s : List Nat) : T (List Nat) :=
  match comment_2822 s with
  | .ok rest => sliced (trimStart s) rest rest
  | .error e => fail e

/-! ### parse.rs: `parse_internal`, one item -/

/-- `Item::Literal(prefix)`: `s = &s[prefix.len()..]` after `s.starts_with(prefix)` -/
def parseLiteralT (s lit : List Nat) : T (List Nat) :=
  if s.length < lit.length then fail .tooShort
  else if s.take lit.length ≠ lit then fail .invalid
  else sliced s (s.drop lit.length) (s.drop lit.length)

/-- the signed / unsigned number of `Item::Numeric`: `&s[1..]` after `starts_with('-')` / `('+')`, BEFORE
`scan::number` runs (recorded also when `number` fails) -/
def numericValT (s : List Nat) (width : Option Nat) (signed : Bool) : T (List Nat × Int) :=
  if signed then
    match s with
    | 45 :: rest => bindT (sliced s rest rest) fun rest => bindT (numberT rest 1 none) fun (s', v) => ret (s', -v)
    | 43 :: rest => bindT (sliced s rest rest) fun rest => numberT rest 1 none
    | _ => numberT s 1 width
  else numberT s 1 width

/-- `Item::Numeric` -/
def parseNumericT (p : Parsed) (s : List Nat) (n : Numeric) : T (Parsed × List Nat) :=
  bindT (numericValT (trimStart s) (numericSpec n).1 (numericSpec n).2.1) fun (s', v) =>
    lift (match (numericSpec n).2.2 p v with
      | .ok p' => .ok (p', s')
      | .error e => .error e)

def setOffsetT (p : Parsed) (r : T (List Nat × Int)) : T (Parsed × List Nat) :=
  bindT r fun (s', off) => lift (match Parsed.set_offset p off with
    | .ok p' => .ok (p', s')
    | .error e => .error e)

def setNanoT (p : Parsed) (r : T (List Nat × Int)) : T (Parsed × List Nat) :=
  bindT r fun (s', v) => lift (match Parsed.set_nanosecond p v with
    | .ok p' => .ok (p', s')
    | .error e => .error e)

/-- `&LowerAmPm | &UpperAmPm`: `parsed.set_ampm(ampm)?; s = &s[2..];` — the slice comes AFTER the setter -/
def ampmT (p : Parsed) (s : List Nat) : T (Parsed × List Nat) :=
  match s with
  | a :: b :: rest =>
    if or32 a = 97 ∧ or32 b = 109 then bindT (lift (Parsed.set_ampm p false)) fun p' => sliced s rest (p', rest)
    else if or32 a = 112 ∧ or32 b = 109 then bindT (lift (Parsed.set_ampm p true)) fun p' => sliced s rest (p', rest)
    else fail .invalid
  | _ => fail .tooShort

/-- the `Fixed` items other than `RFC2822` / `RFC3339` -/
def parseFixedBaseT (p : Parsed) (s : List Nat) (f : Fixed) : T (Parsed × List Nat) :=
  match f with
  | .shortMonthName =>
    bindT (short_month0T s) fun (s', m0) => lift ((Parsed.set_month p ((m0 : Int) + 1)).map fun p' => (p', s'))
  | .longMonthName =>
    bindT (short_or_long_month0T s) fun (s', m0) => lift ((Parsed.set_month p ((m0 : Int) + 1)).map fun p' => (p', s'))
  | .shortWeekdayName =>
    bindT (short_weekdayT s) fun (s', w) => lift ((Parsed.set_weekday p w).map fun p' => (p', s'))
  | .longWeekdayName =>
    bindT (short_or_long_weekdayT s) fun (s', w) => lift ((Parsed.set_weekday p w).map fun p' => (p', s'))
  | .lowerAmPm | .upperAmPm => ampmT p s
  | .nanosecond | .nanosecond3 | .nanosecond6 | .nanosecond9 => dotNanoT p s
  | .nanosecond3NoDot => if s.length < 3 then fail .tooShort else setNanoT p (nanosecond_fixedT s 3)
  | .nanosecond6NoDot => if s.length < 6 then fail .tooShort else setNanoT p (nanosecond_fixedT s 6)
  | .nanosecond9NoDot => if s.length < 9 then fail .tooShort else setNanoT p (nanosecond_fixedT s 9)
  | .timezoneName => ret (p, skipNonWs s)
  | .timezoneOffsetColon | .timezoneOffsetDoubleColon | .timezoneOffsetTripleColon | .timezoneOffset =>
    setOffsetT p (timezone_offsetT (trimStart s) .colonOrSpace false false true)
  | .timezoneOffsetColonZ | .timezoneOffsetZ =>
    setOffsetT p (timezone_offsetT (trimStart s) .colonOrSpace true false true)
  | .timezoneOffsetPermissive =>
    setOffsetT p (timezone_offsetT (trimStart s) .colonOrSpace true true true)
  | .rfc2822 | .rfc3339 => fail .badFormat

/-- one item, `RFC2822`/`RFC3339` excluded -/
def parseItemBaseT (p : Parsed) (s : List Nat) (it : Item) : T (Parsed × List Nat) :=
  match it with
  | .literal lit => bindT (parseLiteralT s lit) fun s' => ret (p, s')
  | .space _ => ret (p, trimStart s)
  | .numeric n _ => parseNumericT p s n
  | .fixed f => parseFixedBaseT p s f
  | .error => fail .badFormat

def parseItemsBaseT : Parsed → List Nat → List Item → T (Parsed × List Nat)
  | p, s, [] => ret (p, s)
  | p, s, it :: rest => bindT (parseItemBaseT p s it) fun (p', s') => parseItemsBaseT p' s' rest

/-! ### `parse_rfc3339_relaxed` -/

/-- `if s.len() >= 3 && "UTC".as_bytes().eq_ignore_ascii_case(&s.as_bytes()[..3]) { (&s[3..], 0) } else
{ scan::timezone_offset(..)? }` -/
def utcOrOffsetT (s : List Nat) : T (List Nat × Int) :=
  if s.length ≥ 3 ∧ lowerS (s.take 3) = [117, 116, 99] then sliced s (s.drop 3) (s.drop 3, (0 : Int))
  else timezone_offsetT s .colonOrSpace true false true

def parse_rfc3339_relaxedT (p : Parsed) (s : List Nat) : T (Parsed × List Nat) :=
  bindT (parseItemsBaseT p s DATE_ITEMS) fun (p, s) =>
  bindT (sepT s) fun s =>
  bindT (parseItemsBaseT p s TIME_ITEMS) fun (p, s) =>
  bindT (utcOrOffsetT (trimStart s)) fun (s, offset) =>
  bindT (lift (Parsed.set_offset p offset)) fun p => ret (p, s)

/-! ### `parse_rfc2822` -/

/-- `if let Ok((s_, weekday)) = scan::short_weekday(s) { if !s_.starts_with(',') { return Err(INVALID); }
s = &s_[1..]; parsed.set_weekday(weekday)?; }` -/
def wdayT (p : Parsed) (s : List Nat) : T (Parsed × List Nat) :=
  match short_weekday s with
  | .ok (s', w) =>
    bindT (sliced s s' s') fun s' =>
    match s' with
    | 44 :: rest => bindT (sliced s' rest rest) fun rest => lift ((Parsed.set_weekday p w).map fun p' => (p', rest))
    | _ => fail .invalid
  | .error _ => ret (p, s)

def monthT (p : Parsed) (s : List Nat) : T (Parsed × List Nat) :=
  bindT (short_month0T s) fun (s', m0) => lift ((Parsed.set_month p (1 + (m0 : Int))).map fun p' => (p', s'))

/-- `if let Ok(s_) = scan::char(s.trim_start(), b':') { parsed.set_second(try_consume!(scan::number(s_, 2, 2)))?; }` -/
def secT (p : Parsed) (s : List Nat) : T (Parsed × List Nat) :=
  match Scan.char (trimStart s) 58 with
  | .ok s_ => bindT (sliced (trimStart s) s_ s_) fun s_ => setFieldT Parsed.set_second p (numberT s_ 2 (some 2))
  | .error _ => ret (p, s)

/-- `while let Ok((s_out, ())) = scan::comment_2822(s) { s = s_out; }` -/
def commentsAuxT : Nat → List Nat → T (List Nat)
  | 0, s => ret s
  | fuel + 1, s => match comment_2822 s with
    | .ok s' => bindT (sliced (trimStart s) s' s') fun s' => commentsAuxT fuel s'
    | .error _ => ret s

def year2822 (yearlen : Nat) (year : Int) : Int :=
  if yearlen = 2 ∧ 0 ≤ year ∧ year ≤ 49 then year + 2000
  else if yearlen = 2 ∧ 50 ≤ year ∧ year ≤ 99 then year + 1900
  else if yearlen = 3 then year + 1900
  else year

def parse_rfc2822T (p : Parsed) (s : List Nat) : T (Parsed × List Nat) :=
  bindT (wdayT p (trimStart s)) fun (p, s) =>
  bindT (setFieldT Parsed.set_day p (numberT (trimStart s) 1 (some 2))) fun (p, s) =>
  bindT (lift (space s)) fun s =>
  bindT (monthT p s) fun (p, s) =>
  bindT (lift (space s)) fun s =>
  bindT (numberT s 2 none) fun (s1, year) =>
  bindT (lift (Parsed.set_year p (year2822 (s.length - s1.length) year))) fun p =>
  bindT (lift (space s1)) fun s =>
  bindT (setFieldT Parsed.set_hour p (numberT s 2 (some 2))) fun (p, s) =>
  bindT (charT (trimStart s) 58) fun s =>
  bindT (setFieldT Parsed.set_minute p (numberT (trimStart s) 2 (some 2))) fun (p, s) =>
  bindT (secT p s) fun (p, s) =>
  bindT (lift (space s)) fun s =>
  bindT (timezone_offset_2822T s) fun (s, off) =>
  bindT (lift (Parsed.set_offset p off)) fun p =>
  bindT (commentsAuxT s.length s) fun s => ret (p, s)

/-! ### the item-driven parser -/

/-- one item of `parse_internal` -/
def stepT (p : Parsed) (s : List Nat) (it : Item) : T (Parsed × List Nat) :=
  match it with
  | .fixed .rfc2822 => parse_rfc2822T p s
  | .fixed .rfc3339 => parse_rfc3339_relaxedT p s
  | _ => parseItemBaseT p s it

/-- `parse_internal`, recording every slice -/
def parse_internalT : Parsed → List Nat → List Item → T (Parsed × List Nat)
  | p, s, [] => ret (p, s)
  | p, s, it :: rest => bindT (stepT p s it) fun (p', s') => parse_internalT p' s' rest

end ScanSlices
end Chrono.M
