/-
  Model of the panicking half of src/time_delta.rs: the constructors `weeks … milliseconds`
  (`expect(TimeDelta::try_*(n), "… out of bounds")`), the operator impls `Add`, `Sub`, `AddAssign`,
  `SubAssign`, `Mul<i32>`, `Div<i32>` (`self.checked_*(rhs).expect("…")`) and the deprecated constant
  functions `min_value` / `max_value`.  One definition per Rust item, same call structure; a `None`
  handed to `expect` is `.panic`.  (Unary `-` is `Delta.neg` in Model/Delta.lean: the inherent `neg` and
  `impl Neg` have the same body.)
-/
import Chrono.Model.Delta

namespace Chrono.M
namespace Delta

/-- `crate::expect(opt, msg)` and `Option::expect(msg)`: the value, or a panic on `None` -/
def expect : Option Delta → Res Delta
  | some d => .ok d
  | none => .panic

/-- `TimeDelta::weeks(weeks: i64)` -/
def weeks (n : Int) : Res Delta := expect (try_weeks n)
/-- `TimeDelta::days(days: i64)` -/
def days (n : Int) : Res Delta := expect (try_days n)
/-- `TimeDelta::hours(hours: i64)` -/
def hours (n : Int) : Res Delta := expect (try_hours n)
/-- `TimeDelta::minutes(minutes: i64)` -/
def minutes (n : Int) : Res Delta := expect (try_minutes n)
/-- `TimeDelta::seconds(seconds: i64)` -/
def seconds (n : Int) : Res Delta := expect (try_seconds n)
/-- `TimeDelta::milliseconds(milliseconds: i64)` -/
def milliseconds (n : Int) : Res Delta := expect (try_milliseconds n)

/-- `impl Add for TimeDelta`: `self.checked_add(&rhs).expect("`TimeDelta + TimeDelta` overflowed")` -/
def add (a b : Delta) : Res Delta := do
  let r ← checked_add a b
  expect r

/-- `impl Sub for TimeDelta` -/
def sub (a b : Delta) : Res Delta := do
  let r ← checked_sub a b
  expect r

/-- `impl AddAssign for TimeDelta`: `let new = self.checked_add(&rhs).expect(…); *self = new;`
(the result is the new value of `*self`) -/
def add_assign (a b : Delta) : Res Delta := do
  let r ← checked_add a b
  let new ← expect r
  pure new

/-- `impl SubAssign for TimeDelta` -/
def sub_assign (a b : Delta) : Res Delta := do
  let r ← checked_sub a b
  let new ← expect r
  pure new

/-- `impl Mul<i32> for TimeDelta`: `self.checked_mul(rhs).expect("`TimeDelta * i32` overflowed")` -/
def mul (a : Delta) (rhs : Int) : Res Delta := do
  let r ← checked_mul a rhs
  expect r

/-- `impl Div<i32> for TimeDelta`: `self.checked_div(rhs).expect("`i32` is zero")` -/
def div (a : Delta) (rhs : Int) : Res Delta := do
  let r ← checked_div a rhs
  expect r

/-- `TimeDelta::min_value()` (deprecated): `MIN` -/
def min_value : Delta := MIN
/-- `TimeDelta::max_value()` (deprecated): `MAX` -/
def max_value : Delta := MAX

/-- derived `PartialEq`: field-wise -/
def eq (a b : Delta) : Bool := a.secs == b.secs && a.nanos == b.nanos

/-- derived `PartialOrd::partial_cmp`: always `Some(cmp)`; `<`, `<=`, `>`, `>=` derive from it -/
def partial_cmp (a b : Delta) : Option Int := some (cmp a b)
def lt (a b : Delta) : Bool := cmp a b == -1
def le (a b : Delta) : Bool := cmp a b != 1
def gt (a b : Delta) : Bool := cmp a b == 1
def ge (a b : Delta) : Bool := cmp a b != -1

/-- `impl Deserialize for TimeDelta` (`mod serde` of src/time_delta.rs), after serde has produced the
`(i64, i32)` tuple: `TimeDelta::new(secs, nanos as u32).ok_or(…)` — the only constructor that takes the
nanosecond field as a signed number; `none` is the `Err("TimeDelta out of bounds")` -/
def deserialize (secs nanos : Int) : Option Delta := new secs (asU32 nanos)

end Delta
end Chrono.M
