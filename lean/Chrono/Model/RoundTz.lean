/-
  `impl<Tz: TimeZone> DurationRound for DateTime<Tz>` for ANY time zone (audit 2, gap MEDIUM-1; an
  OBSERVATION outside C17's quantifier, which says "date-times × spans × offsets", i.e. fixed offsets).

  The generic functions of src/round.rs are the same (`duration_generic`, Model/RoundDT.lean): the span is
  found on `self.overflowing_naive_local()` (the wall clock at the offset the value carries) and the move
  is applied with `original + delta` / `original - delta`.  For a `DateTime<Tz>` those operators are
  `self.checked_add_signed(rhs).expect(..)` with

      let datetime = self.datetime.checked_add_signed(rhs)?;     // the UTC reading moves
      let tz = self.timezone();
      Some(tz.from_utc_datetime(&datetime))                      // the zone is asked again

  so the offset of the result is whatever the zone prescribes at the NEW instant.  That function of the
  zone is the free parameter `offAt` here (C05 is about what it is for a TZif zone); for a fixed offset
  `offAt = fun _ => z.off` and the functions below are `Zoned.add` / `Zoned.sub` / `zoned_duration`.
  The `Ok(original)` branch (input already a multiple) returns `self`, whose offset is not looked up again.
-/
import Chrono.Model.RoundDT

namespace Chrono.M.Round
open Chrono Chrono.M

/-- `impl Add<TimeDelta> for DateTime<Tz>`, any zone -/
def tz_add (offAt : NaiveDT → Int) (z : Zoned) (rhs : Delta) : Res Zoned :=
  expectSome ((z.utc.checked_add_signed rhs).bind fun r => .ok (r.map fun u => ⟨u, offAt u⟩))

/-- `impl Sub<TimeDelta> for DateTime<Tz>`, any zone -/
def tz_sub (offAt : NaiveDT → Int) (z : Zoned) (rhs : Delta) : Res Zoned :=
  expectSome ((z.utc.checked_sub_signed rhs).bind fun r => .ok (r.map fun u => ⟨u, offAt u⟩))

/-- `impl<Tz: TimeZone> DurationRound for DateTime<Tz>`:
`duration_xxx(self.overflowing_naive_local(), self, duration)` with the operators of that zone -/
def tz_duration (offAt : NaiveDT → Int) (op : Op) (z : Zoned) (duration : Delta) : Res (RRes Zoned) :=
  match Zoned.overflowing_naive_local z with
  | .panic => .panic
  | .ok nl => duration_generic op nl z (tz_add offAt) (tz_sub offAt) duration

/-- `impl SubsecRound for DateTime<Tz>`, any zone -/
def tz_subsecs (offAt : NaiveDT → Int) (round : Bool) (z : Zoned) (digits : Nat) : Res Zoned :=
  subsec_generic round (Zoned.nanosecond z) z (tz_add offAt) (tz_sub offAt) digits

/-- how the result in a zone relates to the result `v` of the same call at the fixed offset `z.off`
when the value is moved by `d` ns: not moved = `self`; moved = the same UTC reading, seen at the offset
of the zone there -/
def retag (offAt : NaiveDT → Int) (z : Zoned) (d : Int) (v : Zoned) : Zoned :=
  if d = 0 then z else ⟨v.utc, offAt v.utc⟩

end Chrono.M.Round
