/-
  Model of src/naive/time/mod.rs (`NaiveTime`) and of the `Timelike` defaults in src/traits.rs.

  A value is `(secs : u32, frac : u32)`: `secs` = seconds since midnight (`< 86400`), `frac` =
  nanoseconds since that whole second (`< 2·10^9`; a value `≥ 10^9` is the in-band representation
  of a leap second *after* second `secs`).  The public constructors admit the leap representation
  only on second 59 of a minute, `with_second`/`with_nanosecond`/offset shifts can put it on any
  second, and the arithmetic below handles it on any second — so the model's validity predicate
  (`Spec.TValid`) allows it on any second.

  Machine arithmetic that the overflow-checked build would trap is written through `ckI64`/`ckI32`
  (`Res`), so "no intermediate overflows" is part of the theorems.  Arguments of type `u32` are
  modelled as `Int`s in `[0, 2^32)`.
-/
import Chrono.Prim
import Chrono.Extracted.Consts
import Chrono.Model.Delta

namespace Chrono.M

structure Time where
  secs : Int
  frac : Int
  deriving DecidableEq, Repr

namespace Time

/-- `NaiveTime::MIN` -/
def MIN : Time := ⟨0, 0⟩
/-- `NaiveTime::MAX` (`pub(super)`) -/
def MAX : Time := ⟨23 * 3600 + 59 * 60 + 59, 999999999⟩

/-! ### Constructors -/

/-- `NaiveTime::from_hms_nano_opt(hour: u32, min: u32, sec: u32, nano: u32)` -/
def from_hms_nano_opt (hour min sec nano : Int) : Option Time :=
  if (hour ≥ 24 ∨ min ≥ 60 ∨ sec ≥ 60) ∨ (nano ≥ 1000000000 ∧ sec ≠ 59) ∨ nano ≥ 2000000000
  then none
  else some ⟨hour * 3600 + min * 60 + sec, nano⟩

/-- `NaiveTime::from_hms_opt` -/
def from_hms_opt (hour min sec : Int) : Option Time := from_hms_nano_opt hour min sec 0

/-- `NaiveTime::from_hms_milli_opt`: `milli.checked_mul(1_000_000)` in `u32`, then the nano form -/
def from_hms_milli_opt (hour min sec milli : Int) : Option Time :=
  match optU32 (milli * 1000000) with
  | some nano => from_hms_nano_opt hour min sec nano
  | none => none

/-- `NaiveTime::from_hms_micro_opt`: `micro.checked_mul(1_000)` in `u32`, then the nano form -/
def from_hms_micro_opt (hour min sec micro : Int) : Option Time :=
  match optU32 (micro * 1000) with
  | some nano => from_hms_nano_opt hour min sec nano
  | none => none

/-- `NaiveTime::from_num_seconds_from_midnight_opt(secs: u32, nano: u32)` -/
def from_num_seconds_from_midnight_opt (secs nano : Int) : Option Time :=
  if secs ≥ 86400 ∨ nano ≥ 2000000000 ∨ (nano ≥ 1000000000 ∧ secs % 60 ≠ 59) then none
  else some ⟨secs, nano⟩

/-! ### Accessors (`hms`, `Timelike`) -/

/-- `NaiveTime::hms` -/
def hms (t : Time) : Int × Int × Int :=
  let sec := t.secs % 60
  let mins := t.secs / 60
  (mins / 60, mins % 60, sec)

def hour (t : Time) : Int := t.hms.1
def minute (t : Time) : Int := t.hms.2.1
def second (t : Time) : Int := t.hms.2.2
def nanosecond (t : Time) : Int := t.frac
/-- the inherent method and the `Timelike` override: `self.secs` -/
def num_seconds_from_midnight (t : Time) : Int := t.secs
/-- the `Timelike` *default* body (`hour*3600 + minute*60 + second`, overflow-checked `u32`) -/
def num_seconds_from_midnight_default (t : Time) : Res Int := do
  let a ← ckU32 (t.hour * 3600)
  let b ← ckU32 (t.minute * 60)
  let c ← ckU32 (a + b)
  ckU32 (c + t.second)
/-- `Timelike::hour12` → `(is_pm, hour12)` -/
def hour12 (t : Time) : Bool × Int :=
  let hour := t.hour
  let h12 := hour % 12
  (decide (hour ≥ 12), if h12 = 0 then 12 else h12)

/-! ### Single-field replacement (`Timelike::with_*`, arguments `u32`) -/

def with_hour (t : Time) (hour : Int) : Option Time :=
  if hour ≥ 24 then none else some ⟨hour * 3600 + t.secs % 3600, t.frac⟩

def with_minute (t : Time) (min : Int) : Option Time :=
  if min ≥ 60 then none else some ⟨t.secs / 3600 * 3600 + min * 60 + t.secs % 60, t.frac⟩

def with_second (t : Time) (sec : Int) : Option Time :=
  if sec ≥ 60 then none else some ⟨t.secs / 60 * 60 + sec, t.frac⟩

/-- admits a leap-second value on any second (as the code does) -/
def with_nanosecond (t : Time) (nano : Int) : Option Time :=
  if nano ≥ 2000000000 then none else some ⟨t.secs, nano⟩

/-! ### Arithmetic -/

/-- the tail of `overflowing_add_signed` after the leap-second preamble: add, normalise the
fraction, split off whole days (`secs: i64`, `frac: i32`) -/
def add_tail (secs frac secs_to_add frac_to_add : Int) : Res (Time × Int) :=
  (ckI64 (secs + secs_to_add)).bind fun secs =>
  (ckI32 (frac + frac_to_add)).bind fun frac =>
  let fin (secs frac : Int) : Res (Time × Int) :=
    let secs_in_day := secs % 86400                     -- rem_euclid
    (ckI64 (secs - secs_in_day)).bind fun remaining =>
    .ok (⟨asU32 secs_in_day, asU32 frac⟩, remaining)
  if frac < 0 then
    (ckI32 (frac + 1000000000)).bind fun frac => (ckI64 (secs - 1)).bind fun secs => fin secs frac
  else if frac ≥ 1000000000 then
    (ckI32 (frac - 1000000000)).bind fun frac => (ckI64 (secs + 1)).bind fun secs => fin secs frac
  else fin secs frac

/-- `NaiveTime::overflowing_add_signed(&self, rhs: TimeDelta) -> (NaiveTime, i64)`;
the second component is the number of *seconds* in the whole days dropped -/
def overflowing_add_signed (t : Time) (rhs : Delta) : Res (Time × Int) :=
  let secs := t.secs                     -- as i64
  let frac := asI32 t.frac               -- as i32
  let secs_to_add := rhs.num_seconds
  let frac_to_add := rhs.subsec_nanos
  if frac ≥ 1000000000 then
    if secs_to_add > 0 ∨ (frac_to_add > 0 ∧ frac ≥ 2000000000 - frac_to_add) then
      (ckI32 (frac - 1000000000)).bind fun frac => add_tail secs frac secs_to_add frac_to_add
    else if secs_to_add < 0 then
      (ckI32 (frac - 1000000000)).bind fun frac =>
      (ckI64 (secs + 1)).bind fun secs => add_tail secs frac secs_to_add frac_to_add
    else
      (ckI32 (frac + frac_to_add)).bind fun f => .ok (⟨t.secs, asU32 f⟩, 0)
  else add_tail secs frac secs_to_add frac_to_add

/-- `NaiveTime::overflowing_sub_signed`: add the negated duration, negate the carry -/
def overflowing_sub_signed (t : Time) (rhs : Delta) : Res (Time × Int) :=
  (Delta.neg rhs).bind fun n =>
  (overflowing_add_signed t n).bind fun p =>
  (ckI64 (-p.2)).bind fun r => .ok (p.1, r)

/-- `NaiveTime::signed_duration_since(self, rhs)`; `expect(TimeDelta::new(..))` can panic -/
def signed_duration_since (a b : Time) : Res Delta :=
  let secs := a.secs - b.secs                           -- i64 from u32s: cannot overflow
  let frac := a.frac - b.frac
  let secs :=
    if a.secs > b.secs ∧ b.frac ≥ 1000000000 then secs + 1
    else if a.secs < b.secs ∧ a.frac ≥ 1000000000 then secs - 1
    else secs
  let secs_from_frac := frac / 1000000000               -- div_euclid
  let frac := asU32 (frac % 1000000000)                 -- rem_euclid as u32
  match Delta.new (secs + secs_from_frac) frac with
  | some d => .ok d
  | none => .panic

/-- `NaiveTime::overflowing_add_offset(&self, offset)`; `off = offset.local_minus_utc()` (`i32`);
returns the time and the day carry (−1, 0 or 1) -/
def overflowing_add_offset (t : Time) (off : Int) : Res (Time × Int) :=
  (ckI32 (asI32 t.secs + off)).bind fun secs =>
  .ok (⟨asU32 (secs % 86400), t.frac⟩, secs / 86400)

/-- `NaiveTime::overflowing_sub_offset` -/
def overflowing_sub_offset (t : Time) (off : Int) : Res (Time × Int) :=
  (ckI32 (asI32 t.secs - off)).bind fun secs =>
  .ok (⟨asU32 (secs % 86400), t.frac⟩, secs / 86400)

/-- `impl Add<TimeDelta> for NaiveTime` -/
def add (t : Time) (rhs : Delta) : Res Time := (overflowing_add_signed t rhs).bind fun p => .ok p.1
/-- `impl Sub<TimeDelta> for NaiveTime` -/
def sub (t : Time) (rhs : Delta) : Res Time := (overflowing_sub_signed t rhs).bind fun p => .ok p.1

/-- the reduction of the `u64` seconds of a `core::time::Duration` before the conversion to
`TimeDelta` (after the repair of the std-Duration finding): a duration of a day or more stays at
least a day long, so that a leap-second operand is left exactly as with the full duration -/
def std_reduce (secs : Int) : Int := if secs ≥ 86400 then secs % 86400 + 86400 else secs

/-- `impl Add<core::time::Duration> for NaiveTime` (`secs: u64`, `nanos: u32 < 10^9`) -/
def add_std (t : Time) (secs nanos : Int) : Res Time :=
  match Delta.new (std_reduce secs) nanos with
  | some d => add t d
  | none => .panic
/-- `impl Sub<core::time::Duration> for NaiveTime` -/
def sub_std (t : Time) (secs nanos : Int) : Res Time :=
  match Delta.new (std_reduce secs) nanos with
  | some d => sub t d
  | none => .panic

/-- the pinned code reduced the seconds modulo two days (kept for the counterexample) -/
def add_std_pinned (t : Time) (secs nanos : Int) : Res Time :=
  match Delta.new (secs % (2 * 24 * 60 * 60)) nanos with
  | some d => add t d
  | none => .panic
def sub_std_pinned (t : Time) (secs nanos : Int) : Res Time :=
  match Delta.new (secs % (2 * 24 * 60 * 60)) nanos with
  | some d => sub t d
  | none => .panic

/-- derived `Ord`: lexicographic on `(secs, frac)`; -1 / 0 / 1 -/
def cmp (a b : Time) : Int :=
  if a.secs < b.secs then -1 else if a.secs > b.secs then 1
  else if a.frac < b.frac then -1 else if a.frac > b.frac then 1 else 0

end Time
end Chrono.M
