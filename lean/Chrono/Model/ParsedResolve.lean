/-
  Resolution of the `Parsed` field record into dates, times and date-times
  (src/format/parsed.rs: `resolve_year`, `to_naive_date`, `resolve_week_date`, `to_naive_time`,
  `to_naive_datetime_with_offset`, `to_fixed_offset`, `to_datetime`, `to_datetime_with_timezone`
  for fixed-offset zones; for an arbitrary `TimeZone` see Model/ParsedZone.lean, of which the
  fixed-zone function here is an instance).  Property C14.

  The fields of `Parsed` are public, so every field can hold any value of its machine type
  (`i32` for the six year fields and the offset, `u32` for the others, `i64` for the timestamp);
  the functions below are total on that domain.  Result type: `RP α = Res (PRes α)` — a panic of the
  overflow-checked build, or `Ok`/`Err(kind)`.
-/
import Chrono.Model.ParsedCore
import Chrono.Model.DateTime
namespace Chrono.M
namespace Parsed
open Chrono.Extracted

/-- possible panic, else `ParseResult` -/
abbrev RP (α : Type) := Res (PRes α)

/-- `?` on a `ParseResult` inside code that may panic -/
def RP.bind {α β} (x : RP α) (f : α → RP β) : RP β :=
  match x with
  | .ok (.ok a) => f a
  | .ok (.error e) => .ok (.error e)
  | .panic => .panic

/-- `opt.ok_or(e)?` where computing `opt` may panic -/
def okOr {α} (r : Res (Option α)) (e : PErr) : RP α :=
  match r with
  | .ok (some a) => .ok (.ok a)
  | .ok none => .ok (.error e)
  | .panic => .panic

/-- `Some(0..=99)` or `None` (the pattern `r @ Some(0..=99) | r @ None`) -/
def modOk (r : Option Int) : Bool :=
  match r with
  | some v => decide (0 ≤ v) && decide (v ≤ 99)
  | none => true

/-- `resolve_year(y, q, r)` (all `Option<i32>`) -/
def resolve_year (y q r : Option Int) : PRes (Option Int) :=
  match y with
  | some yv =>
    if q = none ∧ r = none then .ok (some yv)
    else if modOk r then
      if yv < 0 then .error .impossible
      else
        let q_ := Int.tdiv yv 100
        let r_ := Int.tmod yv 100
        if q.getD q_ = q_ ∧ r.getD r_ = r_ then .ok (some yv) else .error .impossible
    else .error .outOfRange
  | none =>
    match q, r with
    | none, none => .ok none
    | some qv, some rv =>
      if 0 ≤ rv ∧ rv ≤ 99 then
        if qv < 0 then .error .impossible
        else
          match (optI32 (qv * 100)).bind (fun v => optI32 (v + rv)) with
          | some yv => .ok (some yv)
          | none => .error .outOfRange
      else .error .outOfRange
    | none, some rv =>
      if 0 ≤ rv ∧ rv ≤ 99 then .ok (some (rv + (if rv < 70 then 2000 else 1900)))
      else .error .outOfRange
    | some _, none => .error .notEnough

/-- `NaiveDate::weeks_from(day)`: `(ordinal as i32 - weekday.days_since(day) as i32 + 6) / 7` -/
def weeks_from (d : Date) (day : Weekday) : Int :=
  Int.tdiv (d.ordinal - (d.weekday.days_since day : Nat) + 6) 7

/-- `Datelike::quarter`: `(month - 1).div_euclid(3) + 1` on `u32` -/
def quarter_of (month : Nat) : Int := ((month : Int) - 1) / 3 + 1

/-- `NaiveDate::with_ordinal(ordinal: u32)` -/
def date_with_ordinal (d : Date) (ordinal : Int) : Res (Option Date) :=
  if ordinal = 0 ∨ ordinal > 366 then .ok none
  else
    -- `(yof & !ORDINAL_MASK) | (ordinal << 4)`, then `yof & OL_MASK <= MAX_OL`
    if ordinal * 16 + ((d.flags / 8 : Nat) : Int) * 8 ≤ DATE_MAX_OL then
      match Date.from_yof (d.yof - d.ordinal * 16 + ordinal * 16) with
      | .ok r => .ok (some r)
      | .panic => .panic
    else .ok none

/-- `(Some(year / 100), Some(year % 100))` for a non-negative year, else `(None, None)` -/
def centuryParts (year : Int) : Option Int × Option Int :=
  if year ≥ 0 then (some (Int.tdiv year 100), some (Int.tmod year 100)) else (none, none)

/-- the closure `verify_ymd` -/
def verify_ymd (p : Parsed) (date : Date) : Res Bool :=
  (date.month).bind fun month =>
  (date.day).bind fun day =>
  let year := date.year
  let cp := centuryParts year
  .ok (p.year.getD year == year
    && (p.year_div_100.or cp.1) == cp.1
    && (p.year_mod_100.or cp.2) == cp.2
    && p.month.getD month == (month : Int)
    && p.day.getD day == (day : Int))

/-- the closure `verify_isoweekdate` -/
def verify_isoweekdate (p : Parsed) (date : Date) : Res Bool :=
  (date.iso_week).bind fun week =>
  let isoyear := IsoWeek.year week
  let isoweek := IsoWeek.week week
  let weekday := date.weekday
  let cp := centuryParts isoyear
  .ok (p.isoyear.getD isoyear == isoyear
    && (p.isoyear_div_100.or cp.1) == cp.1
    && (p.isoyear_mod_100.or cp.2) == cp.2
    && p.isoweek.getD isoweek == isoweek
    && p.weekday.getD weekday == weekday)

/-- the closure `verify_ordinal`; the week fields are compared after `v as i32` -/
def verify_ordinal (p : Parsed) (date : Date) : Bool :=
  let ordinal := date.ordinal
  let week_from_sun := weeks_from date .sun
  let week_from_mon := weeks_from date .mon
  p.ordinal.getD ordinal == ordinal
    && (p.week_from_sun.map asI32).getD week_from_sun == week_from_sun
    && (p.week_from_mon.map asI32).getD week_from_mon == week_from_mon

/-- `resolve_week_date(year, week, weekday, week_start_day)` -/
def resolve_week_date (year week : Int) (weekday week_start_day : Weekday) : RP Date :=
  if week > 53 then .ok (.error .outOfRange)
  else
    RP.bind (okOr (Date.from_yo_opt year 1) .outOfRange) fun first_day_of_year =>
    let first_week_start : Int := 1 + (week_start_day.days_since first_day_of_year.weekday : Nat)
    let wd : Int := (weekday.days_since week_start_day : Nat)
    let ordinal := first_week_start + (week - 1) * 7 + wd
    if ordinal ≤ 0 then .ok (.error .impossible)
    else okOr (date_with_ordinal first_day_of_year ordinal) .impossible

/-- which combination of fields `to_naive_date` uses (the `match` on
`(given_year, given_isoyear, self)`, first applicable arm) -/
inductive DateArm where
  | ymd (year month day : Int)
  | yo (year ordinal : Int)
  | ywSun (year week : Int) (weekday : Weekday)
  | ywMon (year week : Int) (weekday : Weekday)
  | iso (isoyear isoweek : Int) (weekday : Weekday)
  | none
  deriving DecidableEq, Repr

def dateArm (p : Parsed) (given_year given_isoyear : Option Int) : DateArm :=
  match given_year, p.month, p.day with
  | some y, some m, some d => .ymd y m d
  | _, _, _ =>
  match given_year, p.ordinal with
  | some y, some o => .yo y o
  | _, _ =>
  match given_year, p.week_from_sun, p.weekday with
  | some y, some w, some wd => .ywSun y w wd
  | _, _, _ =>
  match given_year, p.week_from_mon, p.weekday with
  | some y, some w, some wd => .ywMon y w wd
  | _, _, _ =>
  match given_isoyear, p.isoweek, p.weekday with
  | some y, some w, some wd => .iso y w wd
  | _, _, _ => .none

/-- `&&` of possibly panicking checks, left to right, short-circuit -/
def andR (a : Res Bool) (b : Res Bool) : Res Bool :=
  match a with
  | .ok true => b
  | .ok false => .ok false
  | .panic => .panic

/-- the arm bodies: the candidate date and whether the remaining fields agree with it -/
def armDate (p : Parsed) (arm : DateArm) : RP (Bool × Date) :=
  let fin (date : Date) (v : Res Bool) : RP (Bool × Date) :=
    match v with
    | .ok b => .ok (.ok (b, date))
    | .panic => .panic
  match arm with
  | .ymd y m d =>
    RP.bind (okOr (Date.from_ymd_opt y m.toNat d.toNat) .outOfRange) fun date =>
    fin date (andR (verify_isoweekdate p date) (.ok (verify_ordinal p date)))
  | .yo y o =>
    RP.bind (okOr (Date.from_yo_opt y o.toNat) .outOfRange) fun date =>
    fin date (andR (verify_ymd p date) (andR (verify_isoweekdate p date) (.ok (verify_ordinal p date))))
  | .ywSun y w wd =>
    RP.bind (resolve_week_date y w wd .sun) fun date =>
    fin date (andR (verify_ymd p date) (andR (verify_isoweekdate p date) (.ok (verify_ordinal p date))))
  | .ywMon y w wd =>
    RP.bind (resolve_week_date y w wd .mon) fun date =>
    fin date (andR (verify_ymd p date) (andR (verify_isoweekdate p date) (.ok (verify_ordinal p date))))
  | .iso y w wd =>
    RP.bind (okOr (Date.from_isoywd_opt y w.toNat wd) .outOfRange) fun date =>
    fin date (andR (verify_ymd p date) (.ok (verify_ordinal p date)))
  | .none => .ok (.error .notEnough)

/-- `Parsed::to_naive_date` -/
def to_naive_date (p : Parsed) : RP Date :=
  match resolve_year p.year p.year_div_100 p.year_mod_100 with
  | .error e => .ok (.error e)
  | .ok given_year =>
  match resolve_year p.isoyear p.isoyear_div_100 p.isoyear_mod_100 with
  | .error e => .ok (.error e)
  | .ok given_isoyear =>
  RP.bind (armDate p (dateArm p given_year given_isoyear)) fun vd =>
  if !vd.1 then .ok (.error .impossible)
  else
    match p.quarter with
    | some q =>
      (match vd.2.month with
       | .ok m => if q ≠ quarter_of m then .ok (.error .impossible) else .ok (.ok vd.2)
       | .panic => .panic)
    | none => .ok (.ok vd.2)

/-- the nanosecond part of `to_naive_time`: `nano += match self.nanosecond { … }`, then
`NaiveTime::from_hms_nano_opt(hour, minute, second, nano).ok_or(OUT_OF_RANGE)` -/
def time_tail (p : Parsed) (hour minute second nano0 : Int) : PRes Time :=
  match p.nanosecond with
  | some v =>
    if 0 ≤ v ∧ v ≤ 999999999 then
      if p.second.isSome then
        match Time.from_hms_nano_opt hour minute second (nano0 + v) with
        | some t => .ok t
        | none => .error .outOfRange
      else .error .notEnough
    else .error .outOfRange
  | none =>
    match Time.from_hms_nano_opt hour minute second nano0 with
    | some t => .ok t
    | none => .error .outOfRange

/-- `Parsed::to_naive_time` (never panics) -/
def to_naive_time (p : Parsed) : PRes Time :=
  match p.hour_div_12 with
  | none => .error .notEnough
  | some hd =>
  if 0 ≤ hd ∧ hd ≤ 1 then
    match p.hour_mod_12 with
    | none => .error .notEnough
    | some hm =>
    if 0 ≤ hm ∧ hm ≤ 11 then
      match p.minute with
      | none => .error .notEnough
      | some minute =>
      if 0 ≤ minute ∧ minute ≤ 59 then
        -- `match self.second.unwrap_or(0) { v @ 0..=59 => (v, 0), 60 => (59, 1_000_000_000), _ => … }`
        if 0 ≤ p.second.getD 0 ∧ p.second.getD 0 ≤ 60 then
          time_tail p (hd * 12 + hm) minute (if p.second.getD 0 = 60 then 59 else p.second.getD 0)
            (if p.second.getD 0 = 60 then 1000000000 else 0)
        else .error .outOfRange
      else .error .outOfRange
    else .error .outOfRange
  else .error .outOfRange

/-- `matches!(x, Err(kind))` -/
def errIs {α} (x : PRes α) (k : PErr) : Bool :=
  match x with
  | .error e => e == k
  | .ok _ => false

/-- `let ts = x?` for a `ParseResult` that cannot panic -/
def liftP {α} (x : PRes α) : RP α := .ok x

/-- the leap-second allowance of the fall-back path: the date-time to use and the clone `parsed`
with the second field filled in unless it is 60 -/
def leap_adjust (p : Parsed) (datetime : NaiveDT) : RP (NaiveDT × Parsed) :=
  if p.second = some 60 then
    if datetime.time.second = 59 then .ok (.ok (datetime, p))
    else if datetime.time.second = 0 then
      match Delta.try_seconds 1 with
      | some one =>
        RP.bind (okOr (datetime.checked_sub_signed one) .outOfRange) fun d' => .ok (.ok (d', p))
      | none => .panic
    else .ok (.error .impossible)
  else
    RP.bind (liftP (set_second p datetime.time.second)) fun p' => .ok (.ok (datetime, p'))

/-- the fall-back path of `to_naive_datetime_with_offset`: date or time did not resolve and a
timestamp is present -/
def from_timestamp_path (p : Parsed) (offset timestamp : Int) : RP NaiveDT :=
  match optI64 (timestamp + offset) with
  | none => .ok (.error .outOfRange)
  | some ts =>
  RP.bind (okOr (NaiveDT.from_timestamp ts 0) .outOfRange) fun datetime =>
  RP.bind (leap_adjust p datetime) fun dp =>
  let datetime := dp.1
  RP.bind (liftP (set_year dp.2 datetime.date.year)) fun p1 =>
  RP.bind (liftP (set_ordinal p1 datetime.date.ordinal)) fun p2 =>
  RP.bind (liftP (set_hour p2 datetime.time.hour)) fun p3 =>
  RP.bind (liftP (set_minute p3 datetime.time.minute)) fun p4 =>
  RP.bind (to_naive_date p4) fun date =>
  RP.bind (liftP (to_naive_time p4)) fun time =>
  .ok (.ok ⟨date, time⟩)

/-- `Parsed::to_naive_datetime_with_offset(offset: i32)` -/
def to_naive_datetime_with_offset (p : Parsed) (offset : Int) : RP NaiveDT :=
  match to_naive_date p with
  | .panic => .panic
  | .ok date =>
  let time := to_naive_time p
  match date, time with
  | .ok date, .ok time =>
    let datetime : NaiveDT := ⟨date, time⟩
    -- `datetime.and_utc().timestamp() - i64::from(offset)`
    match (datetime.timestamp).bind (fun t => ckI64 (t - offset)) with
    | .panic => .panic
    | .ok timestamp =>
      match p.timestamp with
      | some given =>
        if given ≠ timestamp ∧ ¬ (datetime.time.nanosecond ≥ 1000000000 ∧ given = timestamp + 1)
        then .ok (.error .impossible) else .ok (.ok datetime)
      | none => .ok (.ok datetime)
  | _, _ =>
    match p.timestamp with
    | some timestamp =>
      if errIs date .outOfRange || errIs time .outOfRange then .ok (.error .outOfRange)
      else if errIs date .impossible || errIs time .impossible then .ok (.error .impossible)
      else from_timestamp_path p offset timestamp
    | none =>
      match date with
      | .error e => .ok (.error e)
      | .ok _ => match time with
        | .error e => .ok (.error e)
        | .ok _ => .panic           -- unreachable!()

/-- `Parsed::to_fixed_offset`; a `FixedOffset` is its `local_minus_utc` -/
def to_fixed_offset (p : Parsed) : PRes Int :=
  match p.offset with
  | none => .error .notEnough
  | some off => match Zoned.east_opt off with
    | some o => .ok o
    | none => .error .outOfRange

/-- `Parsed::to_datetime` -/
def to_datetime (p : Parsed) : RP Zoned :=
  let offset : Option Int := match p.offset, p.timestamp with
    | some off, _ => some off
    | none, some _ => some 0
    | none, none => none
  match offset with
  | none => .ok (.error .notEnough)
  | some offset =>
  RP.bind (to_naive_datetime_with_offset p offset) fun datetime =>
  match Zoned.east_opt offset with
  | none => .ok (.error .outOfRange)
  | some off =>
    match Zoned.from_local_datetime off datetime with
    | .panic => .panic
    | .ok none => .ok (.error .impossible)
    | .ok (some t) => .ok (.ok t)

/-- `Parsed::to_datetime_with_timezone(&tz)` for `tz` a fixed offset `z` (`Utc`: `z = 0`):
`offset_from_utc_datetime` is constant and `from_local_datetime` is `Single` or `None`.  The
timestamp test of the closure `check_offset` (added with the repair of finding F26) is omitted
here: it always passes in a fixed zone — `Proofs.ParsedZone.fixed_is_instance` proves that this
function equals the generic `to_datetime_with_timezone_gen` (Model/ParsedZone.lean), which has it. -/
def to_datetime_with_timezone (p : Parsed) (z : Int) : RP Zoned :=
  RP.bind (match p.timestamp with
   | some timestamp =>
     RP.bind (okOr (NaiveDT.from_timestamp timestamp (p.nanosecond.getD 0)) .outOfRange) fun _ =>
       (.ok (.ok z) : RP Int)
   | none => .ok (.ok 0)) fun guessed_offset =>
  RP.bind (to_naive_datetime_with_offset p guessed_offset) fun datetime =>
  match Zoned.from_local_datetime z datetime with
  | .panic => .panic
  | .ok none => .ok (.error .impossible)
  | .ok (some t) =>
    let check_offset : Bool := match p.offset with
      | some offset => t.off == offset
      | none => true
    if check_offset then .ok (.ok t) else .ok (.error .impossible)

end Parsed
end Chrono.M
