/-
  C18, second review G2: histories in which the world outside chrono changes.

  `Chrono.M.LocalCache` keeps the `World` fixed during a history, so the `localTime`/`localTime` branch
  of `out_of_date` (the mtime of /etc/localtime) never decides anything there.  This file adds the
  two steps by which /etc/localtime changes under a running process, WITHOUT touching the model of the
  Rust functions: the process state is paired with the current world, every step of the old alphabet
  runs `step` under that world.
    * `.setMtime m`              — `touch -h /etc/localtime`: only `symlink_metadata().modified()` changes
    * `.replaceLocaltime m f n`  — /etc/localtime is relinked / rewritten: new mtime `m`, the path now
                                   reads as `f`, and `iana_time_zone::get_timezone()` now reports `n`
  No Mathlib/Std imports: linked into the driver (`lc.run` tokens `M…` / `L…`).
-/
import Chrono.Model.LocalCache

namespace Chrono.M.LocalCache
open Chrono.Extracted.LocalCache

/-- the process and the world it runs in -/
structure StateW where
  s : State
  W : World

inductive StepW where
  /-- a step of the process itself (set / unset TZ, wait, convert, thread start) -/
  | base (x : Step)
  /-- the mtime of the /etc/localtime link changes, nothing else (`none`: metadata unavailable) -/
  | setMtime (m : Option Nat)
  /-- /etc/localtime is replaced: mtime `m`, content `f`, system zone name `n` -/
  | replaceLocaltime (m : Option Nat) (f : FileState) (n : Option Bytes)

/-- the world after /etc/localtime was replaced -/
def World.replaceLocaltime (W : World) (m : Option Nat) (f : FileState) (n : Option Bytes) : World :=
  { fs := fun p => if p = LOCALTIME_PATH then f else W.fs p
    rule := W.rule
    sysName := n
    ltMtime := m }

def stepW (sw : StateW) : StepW → StateW × Option (Zone × Decision)
  | .base x => let r := step sw.W sw.s x; ({ sw with s := r.1 }, r.2)
  | .setMtime m => ({ sw with W := { sw.W with ltMtime := m } }, none)
  | .replaceLocaltime m f n => ({ sw with W := sw.W.replaceLocaltime m f n }, none)

def execW (sw : StateW) : List StepW → StateW
  | [] => sw
  | x :: xs => execW (stepW sw x).1 xs

def runW (sw : StateW) : List StepW → List (Zone × Decision)
  | [] => []
  | x :: xs =>
    let r := stepW sw x
    match r.2 with
    | some o => o :: runW r.1 xs
    | none => runW r.1 xs

def initW (W : World) (env : EnvVal) (clock : Nat) : StateW := { s := init env clock, W := W }

end Chrono.M.LocalCache
