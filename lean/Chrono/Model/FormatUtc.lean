/-
  Model of `DateTime<Utc>::format(fmt)` (src/datetime/mod.rs `format_with_items`, property C12):
  `DelayedFormat::new_with_offset(Some(local.date()), Some(local.time()), &self.offset, items)` with
  `local = self.overflowing_naive_local()`; `new_with_offset` stores `(offset.to_string(), offset.fix())`,
  and for `Utc` the `Display` text is `UTC` (src/offset/utc.rs; `TextForms.utc_display`, compared by
  C09's `tx.utc`) and `fix()` is `FixedOffset::east(0)`.
-/
import Chrono.Model.ParseFrom
import Chrono.Model.TextForms
namespace Chrono.M
namespace ParseFrom

/-- `DateTime<Utc>` holding the UTC reading `u`, formatted with the format string `fmt` -/
def formatUtc (u : NaiveDT) (fmt : List Nat) : Format.W :=
  Format.W.ofRes (Zoned.overflowing_naive_local ⟨u, 0⟩) fun l =>
    Format.formatItemsR (some l.date) (some l.time) (some (TextForms.utc_display, 0)) (Strftime.items fmt)

end ParseFrom
end Chrono.M
