/-
  The remaining `Datelike` / `Timelike` views of `DateTime<Tz>` (src/datetime/mod.rs, src/traits.rs) for
  `Tz = FixedOffset` / `Utc`, and the remaining zone-changing constructors:

  * `month0`, `day0`, `ordinal0` — `impl Datelike for DateTime<Tz>` forwards each to
    `self.overflowing_naive_local().…0()`, and `NaiveDate`'s bodies are `self.month() - 1`,
    `self.mdf().day() - 1`, `self.ordinal() - 1` on `u32` (overflow-checked);
  * `quarter`, `year_ce` (`Datelike` defaults over `self.month()` / `self.year()`), `hour12`,
    `num_seconds_from_midnight` (`Timelike` defaults over `self.hour()`, `minute()`, `second()`; `DateTime`
    does not override them);
  * `DateTime::from_naive_utc_and_offset(datetime, offset)` = `DateTime { datetime, offset }`.
  The primary accessors, `to_utc`, `fixed_offset`, `naive_utc`, `with_timezone` are in Model/ZonedOps.lean
  and Model/DateTime.lean.
-/
import Chrono.Model.ZonedOps
namespace Chrono.M
namespace Zoned

/-- `u32` subtraction `x - 1` under overflow checks -/
def pred32 (x : Int) : Res Int := ckU32 (x - 1)

def month0 (z : Zoned) : Res Int :=
  (overflowing_naive_local z).bind fun l => (l.date.month).bind fun m => pred32 (m : Int)
def day0 (z : Zoned) : Res Int :=
  (overflowing_naive_local z).bind fun l => (l.date.day).bind fun d => pred32 (d : Int)
def ordinal0 (z : Zoned) : Res Int :=
  (overflowing_naive_local z).bind fun l => pred32 l.date.ordinal

/-- (named `quarter_v`/`year_ce_v` here: C08 models the same defaults as `Zoned.quarter`/`Zoned.year_ce` in Model/MonthsOps) `Datelike::quarter` (default): `(self.month() - 1).div_euclid(3) + 1` -/
def quarter_v (z : Zoned) : Res Int :=
  (month z).bind fun m => (pred32 (m : Int)).bind fun p => .ok (p / 3 + 1)

/-- `Datelike::year_ce` (default): `(false, (1 - year) as u32)` before year 1, else `(true, year as u32)` -/
def year_ce_v (z : Zoned) : Res (Bool × Int) :=
  (year z).bind fun y =>
  if y < 1 then (ckI32 (1 - y)).bind fun v => .ok (false, asU32 v) else .ok (true, asU32 y)

/-- `Timelike::hour12` (default) → `(is_pm, hour12)` -/
def hour12 (z : Zoned) : Res (Bool × Int) :=
  (hour z).bind fun h =>
  let h12 := h % 12
  .ok (decide (h ≥ 12), if h12 = 0 then 12 else h12)

/-- `Timelike::num_seconds_from_midnight` (default): `hour*3600 + minute*60 + second` on `u32` -/
def num_seconds_from_midnight (z : Zoned) : Res Int :=
  (hour z).bind fun h => (minute z).bind fun m => (second z).bind fun s =>
  (ckU32 (h * 3600)).bind fun a => (ckU32 (m * 60)).bind fun b => (ckU32 (a + b)).bind fun c => ckU32 (c + s)

/-- `DateTime::from_naive_utc_and_offset` -/
def from_naive_utc_and_offset (utc : NaiveDT) (off : Int) : Zoned := ⟨utc, off⟩

end Zoned
end Chrono.M
