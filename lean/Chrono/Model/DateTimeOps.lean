/-
  The date-time forms of C08's operations that are not already modelled elsewhere:

  src/datetime/mod.rs   DateTime::<Tz>::time, DateTime::<Tz>::years_since   (Tz = FixedOffset / Utc)

  Everything else C08 needs about date-times is modelled in files this one imports:
    Model/Time.lean       NaiveTime::{with_hour, with_minute, with_second, with_nanosecond}
    Model/ZonedOps.lean   impl Datelike / Timelike for NaiveDateTime (with_*: replace in the date resp.
                          the time part, keep the other), NaiveDateTime::{checked_add_months,
                          checked_sub_months}; the same operations of DateTime<Tz> (through
                          `map_local`, month stepping through `and_local_timezone(..).single()`)
    Model/DateTime.lean   overflowing_naive_local, from_local_datetime, map_local
  Same names, same branch structure.  `Res` = the overflow-checked build.
-/
import Chrono.Model.ZonedOps
namespace Chrono.M
namespace Zoned

/-- `time()`: `self.datetime.time() + self.offset.fix()`; `impl Add<FixedOffset> for NaiveTime` is
`self.overflowing_add_offset(rhs).0` -/
def time (z : Zoned) : Res Time :=
  (Time.overflowing_add_offset z.utc.time z.off).bind fun p => .ok p.1

/-- `(a.0, a.1, a.2) < (b.0, b.1, b.2)` on `(u32, u32, NaiveTime)`: the tuple order is lexicographic,
`NaiveTime`'s is the derived one on `(secs, frac)` -/
def tupleLt (m1 d1 : Nat) (t1 : Time) (m0 d0 : Nat) (t0 : Time) : Bool :=
  if m1 ≠ m0 then decide (m1 < m0)
  else if d1 ≠ d0 then decide (d1 < d0)
  else decide (Time.cmp t1 t0 < 0)

/-- `years_since(base)`: `self.year() − base.year()` (`i32`), minus one if
`(self.month(), self.day(), self.time()) < (base.month(), base.day(), base.time())`; `Some(years as
u32)` if that is `≥ 0`.  All accessors read the wall clocks (each value at its own offset). -/
def years_since (z base : Zoned) : Res (Option Int) :=
  (year z).bind fun y1 =>
  (year base).bind fun y0 =>
  (ckI32 (y1 - y0)).bind fun years =>
  (month z).bind fun m1 =>
  (day z).bind fun d1 =>
  (time z).bind fun t1 =>
  (month base).bind fun m0 =>
  (day base).bind fun d0 =>
  (time base).bind fun t0 =>
  (ckI32 (years - (if tupleLt m1 d1 t1 m0 d0 t0 then 1 else 0))).bind fun years =>
  .ok (if years ≥ 0 then some years else none)

end Zoned
end Chrono.M
