/-
  The string forms of serde (`--features serde`): `Serialize` / `Deserialize` of `NaiveDate`
  (src/naive/date/mod.rs, `mod serde`), `NaiveTime` (src/naive/time/serde.rs), `NaiveDateTime`
  (src/naive/datetime/serde.rs), `DateTime<Tz>` / `DateTime<FixedOffset>` / `DateTime<Utc>`
  (src/datetime/serde.rs).  Nothing of a writer or a reader is modelled here — each impl is glue over a
  function that is modelled (and proved about) elsewhere, and the glue names exactly that function:

    type             `serialize` = `collect_str(..)` of                     `visit_str` = `value.parse()` =
    NaiveDate        `FormatWrapped` → `Debug`  = `TextForms.date_debug`    `FromStr` = `TextForms.date_from_str`
    NaiveTime        `&self` → `Display` (forwards to `Debug`)              `FromStr` = `TextForms.time_from_str`
                                                = `TextForms.time_debug`
    NaiveDateTime    `FormatWrapped` → `Debug`  = `TextForms.naive_debug`   `FromStr` = `TextForms.naive_from_str`
    DateTime<Tz>     `FormatIso8601` → `write_rfc3339(overflowing_naive_local, offset.fix(), AutoSi, true)`
                                                = `Format.write_rfc3339`    `FromStr for DateTime<FixedOffset>`
                                                                              = `TextForms.fixed_from_str`
  (Model/TextForms.lean is the model of the default text forms, property C09; Model/Format.lean the
  formatter, property C12 / C10.)  The zone-aware writer is NOT the `Debug` form and NOT `to_rfc3339()`:
  it is `write_rfc3339` with `use_z = true` called on the wall clock directly; the zone-aware reader is NOT
  `parse_from_rfc3339` but the relaxed `FromStr`.
  A writer answers `Format.W` (`.ok (some text)`, `.ok none` = `Err(fmt::Error)`, `.panic`), `visit_str`
  answers `Res (SR α)` (`Ok` / `Err(E::custom(..))` / panic).
-/
import Chrono.Model.Format
import Chrono.Model.Parse
import Chrono.Model.ParsedResolve
import Chrono.Model.TextForms
import Chrono.Model.SerdeTs
namespace Chrono.M.Serde
open Chrono.M

/-- `value.parse().map_err(E::custom)`: the error kind is dropped -/
def visitOf {α} (r : Parsed.RP α) : Res (SR α) :=
  match r with
  | .ok (.ok a) => .ok (.ok a)
  | .ok (.error _) => .ok .err
  | .panic => .panic

namespace NaiveDateStr
/-- `Serialize for NaiveDate`: `collect_str(&FormatWrapped { inner: &self })`, whose `Display` is the
date's `Debug` -/
def serialize (d : Date) : Format.W := TextForms.date_debug d
/-- `NaiveDateVisitor::visit_str`: `value.parse().map_err(E::custom)` -/
def visit_str (s : List Nat) : Res (SR Date) := visitOf (TextForms.date_from_str s)
end NaiveDateStr

namespace NaiveTimeStr
/-- `Serialize for NaiveTime`: `collect_str(&self)` — `Display`, which forwards to `Debug` -/
def serialize (t : Time) : Format.W := TextForms.time_debug t
/-- `NaiveTimeVisitor::visit_str` -/
def visit_str (s : List Nat) : Res (SR Time) := visitOf (.ok (TextForms.time_from_str s))
end NaiveTimeStr

namespace NaiveDateTimeStr
/-- `Serialize for NaiveDateTime`: `collect_str(&FormatWrapped { inner: &self })` → `Debug` -/
def serialize (dt : NaiveDT) : Format.W := TextForms.naive_debug dt
/-- `NaiveDateTimeVisitor::visit_str` -/
def visit_str (s : List Nat) : Res (SR NaiveDT) := visitOf (TextForms.naive_from_str s)
end NaiveDateTimeStr

namespace DateTimeStr

/-- `serializer.collect_str(&FormatIso8601 { inner: self })`: the text, `.ok none` for `fmt::Error` -/
def serialize (z : Zoned) : Format.W :=
  match z.overflowing_naive_local with
  | .ok naive => Format.write_rfc3339 naive z.off .autoSi true
  | .panic => .panic

/-- `DateTimeVisitor::visit_str`: `value.parse().map_err(E::custom)` with
`impl FromStr for DateTime<FixedOffset>` -/
def visit_str (s : List Nat) : Res (SR Zoned) := visitOf (TextForms.fixed_from_str s)

/-- `Deserialize for DateTime<FixedOffset>` -/
def deserialize_fixed (s : List Nat) : Res (SR Zoned) := visit_str s
/-- `Deserialize for DateTime<Utc>`: `.map(|dt| dt.with_timezone(&Utc))` -/
def deserialize_utc (s : List Nat) : Res (SR Zoned) :=
  (visit_str s).bind fun r => .ok (r.map fun z => z.with_timezone 0)

/-- `Deserialize for DateTime<Local>` (src/datetime/serde.rs, feature `clock`):
`deserialize_str(DateTimeVisitor).map(|dt| dt.with_timezone(&Local))`.  `with_timezone(&Local)` is
`Local.from_utc_datetime(&dt.naive_utc())`: the UTC reading is kept and the offset is the one the process
time zone prescribes at that instant — a parameter here (`tzOff`, the function `Local::offset_from_utc_datetime`
of the running process; a constant function for a fixed-offset `TZ`). -/
def deserialize_local (tzOff : NaiveDT → Int) (s : List Nat) : Res (SR Zoned) :=
  (visit_str s).bind fun r => .ok (r.map fun z => z.with_timezone (tzOff z.utc))

/-- serialize, then read the text back as `DateTime<FixedOffset>` -/
def roundTrip (z : Zoned) : Res (SR Zoned) :=
  match serialize z with
  | .ok (some text) => deserialize_fixed text
  | .ok none => .ok .err
  | .panic => .panic

end DateTimeStr
end Chrono.M.Serde
