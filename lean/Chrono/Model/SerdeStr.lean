/-
  `Serialize for DateTime<Tz>` and `Deserialize for DateTime<FixedOffset>` / `DateTime<Utc>`
  (src/datetime/serde.rs), composed from models that exist elsewhere — nothing of the writer or the reader is
  modelled here:
    writer  = `Format.write_rfc3339` (Model/Format.lean, C12) on `overflowing_naive_local` (Model/DateTime.lean),
              `SecondsFormat::AutoSi`, `use_z = true`;
    reader  = `FromStr for DateTime<FixedOffset>` (src/format/parse.rs) = `parse_rfc3339_relaxed`
              (Model/Parse.lean, C13) followed by `Parsed::to_datetime` (Model/ParsedResolve.lean, C14).
  Used for the kernel-checked witnesses of the known findings F20/F21/F22 and compared with the crate on
  every zone-aware value the C20 harness generates.
-/
import Chrono.Model.Format
import Chrono.Model.Parse
import Chrono.Model.ParsedResolve
import Chrono.Model.SerdeTs
namespace Chrono.M.Serde
open Chrono.M

namespace DateTimeStr

/-- `serializer.collect_str(&FormatIso8601 { inner: self })`: the text, `.ok none` for `fmt::Error` -/
def serialize (z : Zoned) : Format.W :=
  match z.overflowing_naive_local with
  | .ok naive => Format.write_rfc3339 naive z.off .autoSi true
  | .panic => .panic

/-- `impl FromStr for DateTime<FixedOffset>` -/
def from_str (s : List Nat) : Parsed.RP Zoned :=
  match Parse.parse_rfc3339_relaxed Parsed.new s with
  | .error e => .ok (.error e)
  | .ok (parsed, rest) =>
    if Scan.trimStart rest ≠ [] then .ok (.error .tooLong) else Parsed.to_datetime parsed

/-- `DateTimeVisitor::visit_str`: `value.parse().map_err(E::custom)` -/
def visit_str (s : List Nat) : Res (SR Zoned) :=
  match from_str s with
  | .ok (.ok z) => .ok (.ok z)
  | .ok (.error _) => .ok .err
  | .panic => .panic

/-- `Deserialize for DateTime<FixedOffset>` -/
def deserialize_fixed (s : List Nat) : Res (SR Zoned) := visit_str s
/-- `Deserialize for DateTime<Utc>`: `.map(|dt| dt.with_timezone(&Utc))` -/
def deserialize_utc (s : List Nat) : Res (SR Zoned) :=
  (visit_str s).bind fun r => .ok (r.map fun z => z.with_timezone 0)

/-- serialize, then read the text back as `DateTime<FixedOffset>` -/
def roundTrip (z : Zoned) : Res (SR Zoned) :=
  match serialize z with
  | .ok (some text) => deserialize_fixed text
  | .ok none => .ok .err
  | .panic => .panic

end DateTimeStr
end Chrono.M.Serde
