/-
  Model of src/time_delta.rs (`TimeDelta`).  A value is `(secs : i64, nanos : i32)` with
  `0 ≤ nanos < 10^9`; machine arithmetic that the overflow-checked build would trap is written
  through `ckI64`/`ckI32`, so "no intermediate overflows" is part of the theorems.
-/
import Chrono.Prim
import Chrono.Extracted.Consts

namespace Chrono.M
open Chrono.Extracted

structure Delta where
  secs : Int
  nanos : Int
  deriving DecidableEq, Repr

namespace Delta

def MIN : Delta := ⟨TD_MIN_S, TD_MIN_N⟩
def MAX : Delta := ⟨TD_MAX_S, TD_MAX_N⟩
def zero : Delta := ⟨0, 0⟩

/-- `TimeDelta::new(secs: i64, nanos: u32)` -/
def new (secs nanos : Int) : Option Delta :=
  if secs < MIN.secs ∨ secs > MAX.secs ∨ nanos ≥ 1000000000
      ∨ (secs = MAX.secs ∧ nanos > MAX.nanos) ∨ (secs = MIN.secs ∧ nanos < MIN.nanos)
  then none else some ⟨secs, nanos⟩

def try_seconds (s : Int) : Option Delta := new s 0
/-- `try_weeks/days/hours/minutes`: `checked_mul` by the unit, then `try_seconds` -/
def try_unit (unit n : Int) : Option Delta :=
  match optI64 (n * unit) with
  | some s => try_seconds s
  | none => none
def try_weeks := try_unit SECS_PER_WEEK
def try_days := try_unit SECS_PER_DAY
def try_hours := try_unit SECS_PER_HOUR
def try_minutes := try_unit SECS_PER_MINUTE

def try_milliseconds (ms : Int) : Option Delta :=
  if ms < -I64_MAX then none
  else some ⟨ms / MILLIS_PER_SEC, (ms % MILLIS_PER_SEC) * NANOS_PER_MILLI⟩
def microseconds (us : Int) : Delta := ⟨us / MICROS_PER_SEC, (us % MICROS_PER_SEC) * NANOS_PER_MICRO⟩
def nanoseconds (ns : Int) : Delta := ⟨ns / NANOS_PER_SEC, ns % NANOS_PER_SEC⟩

def num_seconds (d : Delta) : Int := if d.secs < 0 ∧ d.nanos > 0 then d.secs + 1 else d.secs
def subsec_nanos (d : Delta) : Int :=
  if d.secs < 0 ∧ d.nanos > 0 then d.nanos - NANOS_PER_SEC else d.nanos
def num_minutes (d : Delta) : Int := Int.tdiv d.num_seconds SECS_PER_MINUTE
def num_hours (d : Delta) : Int := Int.tdiv d.num_seconds SECS_PER_HOUR
def num_days (d : Delta) : Int := Int.tdiv d.num_seconds SECS_PER_DAY
def num_weeks (d : Delta) : Int := Int.tdiv d.num_days 7
def subsec_millis (d : Delta) : Int := Int.tdiv d.subsec_nanos NANOS_PER_MILLI
def subsec_micros (d : Delta) : Int := Int.tdiv d.subsec_nanos NANOS_PER_MICRO

/-- plain (overflow-checked) arithmetic: a panic here would be an overflow in the debug build -/
def num_milliseconds (d : Delta) : Res Int := do
  let secs_part ← ckI64 (d.num_seconds * MILLIS_PER_SEC)
  ckI64 (secs_part + Int.tdiv d.subsec_nanos NANOS_PER_MILLI)

def num_microseconds (d : Delta) : Option Int :=
  match optI64 (d.num_seconds * MICROS_PER_SEC) with
  | some p => optI64 (p + Int.tdiv d.subsec_nanos NANOS_PER_MICRO)
  | none => none
def num_nanoseconds (d : Delta) : Option Int :=
  match optI64 (d.num_seconds * NANOS_PER_SEC) with
  | some p => optI64 (p + d.subsec_nanos)
  | none => none

def checked_add (a b : Delta) : Res (Option Delta) := do
  let secs ← ckI64 (a.secs + b.secs)
  let nanos ← ckI32 (a.nanos + b.nanos)
  if nanos ≥ NANOS_PER_SEC then
    let nanos ← ckI32 (nanos - NANOS_PER_SEC)
    let secs ← ckI64 (secs + 1)
    pure (new secs (asU32 nanos))
  else pure (new secs (asU32 nanos))

def checked_sub (a b : Delta) : Res (Option Delta) := do
  let secs ← ckI64 (a.secs - b.secs)
  let nanos ← ckI32 (a.nanos - b.nanos)
  if nanos < 0 then
    let nanos ← ckI32 (nanos + NANOS_PER_SEC)
    let secs ← ckI64 (secs - 1)
    pure (new secs (asU32 nanos))
  else pure (new secs (asU32 nanos))

/-- `checked_mul` after the repair of finding #2 (range-checked through `new`); `rhs : i32` -/
def checked_mul (a : Delta) (rhs : Int) : Res (Option Delta) := do
  let total_nanos ← ckI64 (a.nanos * rhs)
  let extra_secs := total_nanos / NANOS_PER_SEC
  let nanos := total_nanos % NANOS_PER_SEC
  let secs := a.secs * rhs + extra_secs          -- i128: cannot overflow
  if secs ≤ I64_MIN ∨ secs ≥ I64_MAX then pure none
  else pure (new secs (asU32 nanos))

/-- the pinned code returned the value without the range check -/
def checked_mul_pinned (a : Delta) (rhs : Int) : Res (Option Delta) := do
  let total_nanos ← ckI64 (a.nanos * rhs)
  let extra_secs := total_nanos / NANOS_PER_SEC
  let nanos := total_nanos % NANOS_PER_SEC
  let secs := a.secs * rhs + extra_secs
  if secs ≤ I64_MIN ∨ secs ≥ I64_MAX then pure none
  else pure (some ⟨secs, nanos⟩)

def checked_div (a : Delta) (rhs : Int) : Res (Option Delta) :=
  if rhs = 0 then .ok none else do
  let secs ← ckI64 (Int.tdiv a.secs rhs)
  let carry := Int.tmod a.secs rhs
  let prod ← ckI64 (carry * NANOS_PER_SEC)
  let extra_nanos := Int.tdiv prod rhs
  let nanos ← ckI32 (Int.tdiv a.nanos rhs + asI32 extra_nanos)
  if nanos < 0 then do
    let s ← ckI64 (secs - 1); let n ← ckI32 (nanos + NANOS_PER_SEC); pure (some ⟨s, n⟩)
  else if nanos ≥ NANOS_PER_SEC then do
    let s ← ckI64 (secs + 1); let n ← ckI32 (nanos - NANOS_PER_SEC); pure (some ⟨s, n⟩)
  else pure (some ⟨secs, nanos⟩)

def neg (a : Delta) : Res Delta :=
  if a.nanos = 0 then do let s ← ckI64 (-a.secs); pure ⟨s, 0⟩
  else do
    let s ← ckI64 (-a.secs); let s ← ckI64 (s - 1); let n ← ckI32 (NANOS_PER_SEC - a.nanos)
    pure ⟨s, n⟩

/-- `i64::abs` panics on `i64::MIN` in the overflow-checked build -/
def absI64 (x : Int) : Res Int := if x = I64_MIN then .panic else .ok (if x < 0 then -x else x)

def abs (a : Delta) : Res Delta :=
  if a.secs < 0 ∧ a.nanos ≠ 0 then do
    let s ← ckI64 (a.secs + 1); let s ← absI64 s; let n ← ckI32 (NANOS_PER_SEC - a.nanos)
    pure ⟨s, n⟩
  else do let s ← absI64 a.secs; pure ⟨s, a.nanos⟩

def is_zero (a : Delta) : Bool := a.secs == 0 && a.nanos == 0

/-- `from_std(Duration{secs: u64, nanos: u32 < 10^9})` -/
def from_std (secs nanos : Int) : Option Delta :=
  if secs > MAX.secs then none else new secs nanos
/-- `to_std` → `(secs: u64, nanos: u32)` -/
def to_std (a : Delta) : Option (Int × Int) := if a.secs < 0 then none else some (a.secs, a.nanos)

/-- derived `Ord`: lexicographic on `(secs, nanos)`; -1 / 0 / 1 -/
def cmp (a b : Delta) : Int :=
  if a.secs < b.secs then -1 else if a.secs > b.secs then 1
  else if a.nanos < b.nanos then -1 else if a.nanos > b.nanos then 1 else 0

/-- `Sum`: fold with `+` (panics on overflow, as documented for the operators) -/
def sum : List Delta → Delta → Res Delta
  | [], acc => .ok acc
  | x :: xs, acc =>
    match checked_add acc x with
    | .ok (some r) => sum xs r
    | _ => .panic

/-! ### Display -/

def digitChar (d : Nat) : Nat := 48 + d % 10

def natDigitsAux : Nat → Nat → List Nat → List Nat
  | 0, _, acc => acc
  | fuel + 1, n, acc => if n < 10 then digitChar n :: acc else natDigitsAux fuel (n / 10) (digitChar (n % 10) :: acc)
/-- decimal digits of `n` (ASCII bytes) -/
def natDigits (n : Nat) : List Nat := natDigitsAux (n + 1) n []

/-- zero-padded to `w` digits -/
def padDigits (n w : Nat) : List Nat :=
  let ds := natDigits n
  List.replicate (w - ds.length) 48 ++ ds

/-- strip trailing zeros of the 9-digit fraction: returns (digits value, number of figures) -/
def trimFraction : Nat → Nat → Nat → Nat × Nat
  | 0, frac, figs => (frac, figs)
  | fuel + 1, frac, figs => if frac % 10 ≠ 0 then (frac, figs) else trimFraction fuel (frac / 10) (figs - 1)

def display (a : Delta) : Res (List Nat) :=
  match (if a.secs < 0 then (neg a).bind (fun x => .ok (x, [45])) else .ok (a, [])) with
  | .panic => .panic
  | .ok (ab, sign) =>
    if ab.secs = 0 ∧ ab.nanos = 0 then .ok (sign ++ [80] ++ [48, 68])            -- "P0D"
    else
      let head := sign ++ [80, 84] ++ natDigits ab.secs.toNat                      -- "PT<secs>"
      let frac :=
        if ab.nanos > 0 then
          let (fd, figs) := trimFraction 9 ab.nanos.toNat 9
          [46] ++ padDigits fd figs
        else []
      .ok (head ++ frac ++ [83])

end Delta
end Chrono.M
