/-
  Model of the field record `Parsed` (src/format/parsed.rs) and its setters.  Resolution of the
  fields into dates/times (`to_naive_date` …) is in Model/ParsedResolve.lean (property C14).
-/
import Chrono.Model.Scan
namespace Chrono.M

structure Parsed where
  year : Option Int := none
  year_div_100 : Option Int := none
  year_mod_100 : Option Int := none
  isoyear : Option Int := none
  isoyear_div_100 : Option Int := none
  isoyear_mod_100 : Option Int := none
  quarter : Option Int := none
  month : Option Int := none
  week_from_sun : Option Int := none
  week_from_mon : Option Int := none
  isoweek : Option Int := none
  weekday : Option Weekday := none
  ordinal : Option Int := none
  day : Option Int := none
  hour_div_12 : Option Int := none
  hour_mod_12 : Option Int := none
  minute : Option Int := none
  second : Option Int := none
  nanosecond : Option Int := none
  timestamp : Option Int := none
  offset : Option Int := none
  deriving DecidableEq, Repr

namespace Parsed

def new : Parsed := {}

/-- `set_if_consistent` -/
def setIf {α} [DecidableEq α] (old : Option α) (v : α) : PRes (Option α) :=
  match old with
  | some o => if o ≠ v then .error .impossible else .ok (some v)
  | none => .ok (some v)

/-- `i32::try_from(value)` -/
def toI32 (v : Int) : PRes Int := if inI32 v then .ok v else .error .outOfRange
def inRange (v lo hi : Int) : PRes Int := if lo ≤ v ∧ v ≤ hi then .ok v else .error .outOfRange

def set_year (p : Parsed) (v : Int) : PRes Parsed := do
  let x ← toI32 v; let f ← setIf p.year x; pure { p with year := f }
def set_year_div_100 (p : Parsed) (v : Int) : PRes Parsed := do
  let x ← inRange v 0 I32_MAX; let f ← setIf p.year_div_100 x; pure { p with year_div_100 := f }
def set_year_mod_100 (p : Parsed) (v : Int) : PRes Parsed := do
  let x ← inRange v 0 99; let f ← setIf p.year_mod_100 x; pure { p with year_mod_100 := f }
def set_isoyear (p : Parsed) (v : Int) : PRes Parsed := do
  let x ← toI32 v; let f ← setIf p.isoyear x; pure { p with isoyear := f }
def set_isoyear_div_100 (p : Parsed) (v : Int) : PRes Parsed := do
  let x ← inRange v 0 I32_MAX; let f ← setIf p.isoyear_div_100 x; pure { p with isoyear_div_100 := f }
def set_isoyear_mod_100 (p : Parsed) (v : Int) : PRes Parsed := do
  let x ← inRange v 0 99; let f ← setIf p.isoyear_mod_100 x; pure { p with isoyear_mod_100 := f }
def set_quarter (p : Parsed) (v : Int) : PRes Parsed := do
  let x ← inRange v 1 4; let f ← setIf p.quarter x; pure { p with quarter := f }
def set_month (p : Parsed) (v : Int) : PRes Parsed := do
  let x ← inRange v 1 12; let f ← setIf p.month x; pure { p with month := f }
def set_week_from_sun (p : Parsed) (v : Int) : PRes Parsed := do
  let x ← inRange v 0 53; let f ← setIf p.week_from_sun x; pure { p with week_from_sun := f }
def set_week_from_mon (p : Parsed) (v : Int) : PRes Parsed := do
  let x ← inRange v 0 53; let f ← setIf p.week_from_mon x; pure { p with week_from_mon := f }
def set_isoweek (p : Parsed) (v : Int) : PRes Parsed := do
  let x ← inRange v 1 53; let f ← setIf p.isoweek x; pure { p with isoweek := f }
def set_weekday (p : Parsed) (w : Weekday) : PRes Parsed := do
  let f ← setIf p.weekday w; pure { p with weekday := f }
def set_ordinal (p : Parsed) (v : Int) : PRes Parsed := do
  let x ← inRange v 1 366; let f ← setIf p.ordinal x; pure { p with ordinal := f }
def set_day (p : Parsed) (v : Int) : PRes Parsed := do
  let x ← inRange v 1 31; let f ← setIf p.day x; pure { p with day := f }
def set_ampm (p : Parsed) (pm : Bool) : PRes Parsed := do
  let f ← setIf p.hour_div_12 (if pm then 1 else 0); pure { p with hour_div_12 := f }
def set_hour12 (p : Parsed) (v : Int) : PRes Parsed := do
  let x ← inRange v 1 12
  let f ← setIf p.hour_mod_12 (if x = 12 then 0 else x); pure { p with hour_mod_12 := f }
def set_hour (p : Parsed) (v : Int) : PRes Parsed := do
  let x ← inRange v 0 23
  let (d, m) := if x ≤ 11 then ((0 : Int), x) else (1, x - 12)
  let f ← setIf p.hour_div_12 d
  let p := { p with hour_div_12 := f }        -- the first field stays set if the second fails
  let g ← setIf p.hour_mod_12 m
  pure { p with hour_mod_12 := g }
def set_minute (p : Parsed) (v : Int) : PRes Parsed := do
  let x ← inRange v 0 59; let f ← setIf p.minute x; pure { p with minute := f }
def set_second (p : Parsed) (v : Int) : PRes Parsed := do
  let x ← inRange v 0 60; let f ← setIf p.second x; pure { p with second := f }
def set_nanosecond (p : Parsed) (v : Int) : PRes Parsed := do
  let x ← inRange v 0 999999999; let f ← setIf p.nanosecond x; pure { p with nanosecond := f }
def set_timestamp (p : Parsed) (v : Int) : PRes Parsed := do
  let f ← setIf p.timestamp v; pure { p with timestamp := f }
def set_offset (p : Parsed) (v : Int) : PRes Parsed := do
  let x ← toI32 v; let f ← setIf p.offset x; pure { p with offset := f }

/-- `set_weekday_with_num_days_from_sunday` / `…number_from_monday` (src/format/parse.rs) -/
def set_weekday_with_num_days_from_sunday (p : Parsed) (v : Int) : PRes Parsed :=
  if v = 0 then set_weekday p .sun else if v = 1 then set_weekday p .mon
  else if v = 2 then set_weekday p .tue else if v = 3 then set_weekday p .wed
  else if v = 4 then set_weekday p .thu else if v = 5 then set_weekday p .fri
  else if v = 6 then set_weekday p .sat else .error .outOfRange
def set_weekday_with_number_from_monday (p : Parsed) (v : Int) : PRes Parsed :=
  if v = 1 then set_weekday p .mon else if v = 2 then set_weekday p .tue
  else if v = 3 then set_weekday p .wed else if v = 4 then set_weekday p .thu
  else if v = 5 then set_weekday p .fri else if v = 6 then set_weekday p .sat
  else if v = 7 then set_weekday p .sun else .error .outOfRange

/-- protocol dump of the 21 fields, in declaration order, `-` for unset -/
def dump (p : Parsed) : String :=
  let f (o : Option Int) : String := match o with | some v => toString v | none => "-"
  let w : String := match p.weekday with | some v => toString v.toNat | none => "-"
  " ".intercalate [f p.year, f p.year_div_100, f p.year_mod_100, f p.isoyear, f p.isoyear_div_100,
    f p.isoyear_mod_100, f p.quarter, f p.month, f p.week_from_sun, f p.week_from_mon, f p.isoweek, w,
    f p.ordinal, f p.day, f p.hour_div_12, f p.hour_mod_12, f p.minute, f p.second, f p.nanosecond,
    f p.timestamp, f p.offset]

/-- inverse of `dump` on a list of 21 tokens -/
def ofTokens (ts : List String) : Option Parsed :=
  let g (s : String) : Option (Option Int) := if s == "-" then some none else s.toInt?.map some
  match ts.mapM g with
  | some [a, b, c, d, e, f, q, m, ws, wm, iw, wd, o, dd, hd, hm, mi, s, n, t, off] =>
    let w : Option (Option Weekday) := match wd with
      | none => some none
      | some v => (Weekday.all[v.toNat]?).map some
    w.map fun w => (⟨a, b, c, d, e, f, q, m, ws, wm, iw, w, o, dd, hd, hm, mi, s, n, t, off⟩ : Parsed)
  | _ => none

end Parsed
end Chrono.M
