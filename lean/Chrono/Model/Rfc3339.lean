/-
  RFC 3339 entry points of `DateTime` (src/datetime/mod.rs): `parse_from_rfc3339`, `to_rfc3339`,
  `to_rfc3339_opts`.  Glue over `Parse.parse_rfc3339` (strict scanner, src/format/parse.rs),
  `Parsed.to_datetime` (src/format/parsed.rs) and `Format.write_rfc3339` (src/format/formatting.rs).
  A `DateTime<FixedOffset>` is `Zoned` = UTC reading + offset in seconds.
-/
import Chrono.Model.Parse
import Chrono.Model.ParsedResolve
import Chrono.Model.Format
namespace Chrono.M
namespace Rfc3339

/-- `DateTime::parse_from_rfc3339(s)`:
`let (s, _) = parse_rfc3339(&mut parsed, s)?; if !s.is_empty() { return Err(TOO_LONG) }; parsed.to_datetime()` -/
def parse_from_rfc3339 (s : List Nat) : Parsed.RP Zoned :=
  match Parse.parse_rfc3339 Parsed.new s with
  | .error e => .ok (.error e)
  | .ok (p, rest) =>
    match rest with
    | [] => Parsed.to_datetime p
    | _ :: _ => .ok (.error .tooLong)

/-- `.expect("writing rfc3339 datetime to string should never fail")` on the writer's result -/
def expectText (w : Format.W) : Res (List Nat) :=
  match w with
  | .ok (some t) => .ok t
  | .ok none => .panic
  | .panic => .panic

/-- `DateTime::to_rfc3339_opts(secform, use_z)` (after the repair of finding #4: the wall clock is
`overflowing_naive_local`) -/
def to_rfc3339_opts (z : Zoned) (secform : Format.SecondsFormat) (use_z : Bool) : Res (List Nat) :=
  (Zoned.overflowing_naive_local z).bind fun naive =>
  expectText (Format.write_rfc3339 naive z.off secform use_z)

/-- `DateTime::to_rfc3339()`, its own body in src/datetime/mod.rs:
`let naive = self.overflowing_naive_local(); let offset = self.offset.fix();
write_rfc3339(&mut result, naive, offset, SecondsFormat::AutoSi, false).expect(…)`.
That this is `to_rfc3339_opts(AutoSi, false)` is a theorem (`Props.C10.to_rfc3339_is_opts`). -/
def to_rfc3339 (z : Zoned) : Res (List Nat) :=
  (Zoned.overflowing_naive_local z).bind fun naive =>
  let offset := z.off
  expectText (Format.write_rfc3339 naive offset .autoSi false)

end Rfc3339
end Chrono.M
