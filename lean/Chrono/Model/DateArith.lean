/-
  Day-count arithmetic on `NaiveDate` (src/naive/date/mod.rs): `checked_add_days`,
  `checked_sub_days`, `checked_add_signed`, `checked_sub_signed`, `signed_duration_since`, the day and
  week iterators.  `Date.add_days` itself is in Model/Date.lean.
-/
import Chrono.Model.Date
import Chrono.Model.Delta
namespace Chrono.M
open Chrono.Extracted

namespace Date

/-- `checked_add_days(Days(u64))` -/
def checked_add_days (d : Date) (days : Int) : Res (Option Date) :=
  if days ≤ I32_MAX then add_days d (asI32 days) else .ok none
/-- `checked_sub_days(Days(u64))`: `-(days as i32)` -/
def checked_sub_days (d : Date) (days : Int) : Res (Option Date) :=
  if days ≤ I32_MAX then
    match ckI32 (-(asI32 days)) with
    | .ok n => add_days d n
    | .panic => .panic
  else .ok none

/-- `checked_add_signed(TimeDelta)`: whole days, truncated toward zero -/
def checked_add_signed (d : Date) (rhs : Delta) : Res (Option Date) :=
  let days := rhs.num_days
  if days < I32_MIN ∨ days > I32_MAX then .ok none else add_days d (asI32 days)
def checked_sub_signed (d : Date) (rhs : Delta) : Res (Option Date) :=
  match ckI64 (-rhs.num_days) with
  | .panic => .panic
  | .ok days => if days < I32_MIN ∨ days > I32_MAX then .ok none else add_days d (asI32 days)

/-- `signed_duration_since`: `expect(TimeDelta::try_days(days))` -/
def signed_duration_since (a b : Date) : Res Delta :=
  let y1 := a.year
  let y2 := b.year
  let c1 : Int := yo_to_cycle (y1 % 400).toNat a.ordinal.toNat
  let c2 : Int := yo_to_cycle (y2 % 400).toNat b.ordinal.toNat
  match ckI64 ((y1 / 400 - y2 / 400) * 146097 + (c1 - c2)) with
  | .panic => .panic
  | .ok days => match Delta.try_days days with
    | some t => .ok t
    | none => .panic

/-- operator `+ TimeDelta` / `- TimeDelta`: `expect` on the checked form -/
def add (d : Date) (rhs : Delta) : Res Date :=
  match checked_add_signed d rhs with | .ok (some r) => .ok r | _ => .panic
def sub (d : Date) (rhs : Delta) : Res Date :=
  match checked_sub_signed d rhs with | .ok (some r) => .ok r | _ => .panic

end Date

/-! ### iterators: `NaiveDateDaysIterator { value }`, `NaiveDateWeeksIterator { value }` -/
namespace DaysIter
/-- `next`: returns the current value and advances by one day; at MAX the iterator is exhausted
(the source keeps `value` and returns `None` from then on) -/
def next (v : Date) : Res (Option (Date × Date)) :=
  match v.succ_opt with
  | .ok (some n) => .ok (some (v, n))
  | .ok none => .ok none
  | .panic => .panic
def next_back (v : Date) : Res (Option (Date × Date)) :=
  match v.pred_opt with
  | .ok (some n) => .ok (some (v, n))
  | .ok none => .ok none
  | .panic => .panic
/-- `size_hint`: exact number of days up to `NaiveDate::MAX` -/
def size_hint (v : Date) : Res Int :=
  match Date.signed_duration_since Date.MAX v with
  | .ok d => .ok d.num_days
  | .panic => .panic
end DaysIter

namespace WeeksIter
def next (v : Date) : Res (Option (Date × Date)) :=
  match Date.checked_add_days v 7 with
  | .ok (some n) => .ok (some (v, n))
  | .ok none => .ok none
  | .panic => .panic
def next_back (v : Date) : Res (Option (Date × Date)) :=
  match Date.checked_sub_days v 7 with
  | .ok (some n) => .ok (some (v, n))
  | .ok none => .ok none
  | .panic => .panic
def size_hint (v : Date) : Res Int :=
  match Date.signed_duration_since Date.MAX v with
  | .ok d => .ok d.num_weeks
  | .panic => .panic
end WeeksIter

end Chrono.M
