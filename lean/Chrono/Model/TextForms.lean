/-
  Default text forms (property C09): the `Debug` / `Display` writers and the `FromStr` readers of
  `NaiveDate` (src/naive/date/mod.rs), `NaiveTime` (src/naive/time/mod.rs), `NaiveDateTime`
  (src/naive/datetime/mod.rs), `DateTime<FixedOffset>` / `DateTime<Utc>` (src/datetime/mod.rs,
  src/format/parse.rs), `FixedOffset` (src/offset/fixed.rs), `Utc` (src/offset/utc.rs), and the derived
  `Debug` of `Weekday` / `Month` (their `Display` / `name` / `FromStr` are in Model/Weekday.lean).

  Writers return `Format.W` (`.ok (some text)`, `.ok none` for `Err(fmt::Error)`, `.panic` where an
  accessor trips a debug assertion); readers return `Parsed.RP α` (`.panic`, or `Ok`/`Err(kind)`).
  Text is a UTF-8 byte string.
-/
import Chrono.Model.Format
import Chrono.Model.Parse
import Chrono.Model.ParsedResolve
import Chrono.Extracted.TextForms
namespace Chrono.M
namespace TextForms
open Format Scan

/-! ### writers -/

/-- the year part of `NaiveDate`'s `Debug`: four digits for 0..=9999, otherwise `{:+05}` -/
def write_year (year : Int) : W :=
  if 0 ≤ year ∧ year ≤ 9999 then
    (write_hundreds (asU8 (Int.tdiv year 100))).seq (write_hundreds (asU8 (Int.tmod year 100)))
  else wok (fmtInt year 5 .zero true)

/-- `impl fmt::Debug for NaiveDate` (`Display` forwards to it) -/
def date_debug (d : Date) : W :=
  let year := d.year
  W.ofRes d.mdf fun mdf =>
  (write_year year).seq <| (wok [45]).seq <| (write_hundreds (asU8 (Mdf.month mdf))).seq <|
  (wok [45]).seq <| write_hundreds (asU8 (Mdf.day mdf))

/-- the fraction part of `NaiveTime`'s `Debug`: nothing, `.{:03}`, `.{:06}` or `.{:09}` -/
def write_frac (nano : Int) : List Nat :=
  if nano = 0 then []
  else if nano % 1000000 = 0 then [46] ++ fmtInt (nano / 1000000) 3 .zero false
  else if nano % 1000 = 0 then [46] ++ fmtInt (nano / 1000) 6 .zero false
  else [46] ++ fmtInt nano 9 .zero false

/-- `impl fmt::Debug for NaiveTime` (`Display` forwards to it) -/
def time_debug (t : Time) : W :=
  let (hour, min, sec0) := t.hms
  let sec := if t.frac ≥ 1000000000 then sec0 + 1 else sec0
  let nano := if t.frac ≥ 1000000000 then t.frac - 1000000000 else t.frac
  (write_hundreds (asU8 hour)).seq <| (wok [58]).seq <| (write_hundreds (asU8 min)).seq <|
  (wok [58]).seq <| (write_hundreds (asU8 sec)).seq <| wok (write_frac nano)

/-- `impl fmt::Debug for NaiveDateTime`: date, `T`, time -/
def naive_debug (dt : NaiveDT) : W :=
  (date_debug dt.date).seq <| (wok [84]).seq <| time_debug dt.time

/-- `impl fmt::Display for NaiveDateTime`: date, space, time -/
def naive_display (dt : NaiveDT) : W :=
  (date_debug dt.date).seq <| (wok [32]).seq <| time_debug dt.time

/-- `impl fmt::Debug for FixedOffset` (`Display` forwards to it): `+hh:mm` or `+hh:mm:ss` -/
def offset_debug (off : Int) : List Nat := fixedOffsetName off

/-- `impl fmt::Debug for Utc` / `impl fmt::Display for Utc` -/
def utc_debug : List Nat := [90]
def utc_display : List Nat := [85, 84, 67]

/-- `impl fmt::Debug for DateTime<Tz>`: `overflowing_naive_local()` in its `Debug` form, then the
offset's `Debug` (`offText`) -/
def zoned_debug (z : Zoned) (offText : List Nat) : W :=
  W.ofRes (Zoned.overflowing_naive_local z) fun l => (naive_debug l).seq (wok offText)

/-- `impl fmt::Display for DateTime<Tz>`: local date-time in its `Display` form, space, offset -/
def zoned_display (z : Zoned) (offText : List Nat) : W :=
  W.ofRes (Zoned.overflowing_naive_local z) fun l =>
    (naive_display l).seq <| (wok [32]).seq (wok offText)

def fixed_debug (z : Zoned) : W := zoned_debug z (offset_debug z.off)
def fixed_display (z : Zoned) : W := zoned_display z (offset_debug z.off)
/-- `DateTime<Utc>` holding the UTC reading `u` -/
def utc_dt_debug (u : NaiveDT) : W := zoned_debug ⟨u, 0⟩ utc_debug
def utc_dt_display (u : NaiveDT) : W := zoned_display ⟨u, 0⟩ utc_display

/-- derived `Debug` of `Weekday` / `Month`: the variant name -/
def weekday_debug (w : Weekday) : List Nat := Extracted.TF_WEEKDAY_VARIANTS.getD w.toNat []
def month_debug (m : Month) : List Nat := Extracted.TF_MONTH_VARIANTS.getD m.toNat []

/-! ### the fixed item lists of the `FromStr` impls -/

/-- `ITEMS` of `impl FromStr for NaiveDate` -/
def DATE_ITEMS : List Item :=
  [.numeric .year .zero, .space [], .literal [45], .numeric .month .zero, .space [], .literal [45],
   .numeric .day .zero, .space []]
/-- `HOUR_AND_MINUTE`, `SECOND_AND_NANOS`, `TRAILING_WHITESPACE` of `impl FromStr for NaiveTime` -/
def HOUR_AND_MINUTE : List Item :=
  [.numeric .hour .zero, .space [], .literal [58], .numeric .minute .zero]
def SECOND_AND_NANOS : List Item :=
  [.space [], .literal [58], .numeric .second .zero, .fixed .nanosecond, .space []]
def TRAILING_WHITESPACE : List Item := [.space []]
/-- `ITEMS` of `impl FromStr for NaiveDateTime` -/
def DATETIME_ITEMS : List Item :=
  [.numeric .year .zero, .space [], .literal [45], .numeric .month .zero, .space [], .literal [45],
   .numeric .day .zero, .space [], .literal [84],
   .numeric .hour .zero, .space [], .literal [58], .numeric .minute .zero, .space [], .literal [58],
   .numeric .second .zero, .fixed .nanosecond, .space []]

/-- numeric code of an item, the form in which tools/extractors/textforms.py writes the item lists
found in the Rust source (Extracted/TextForms.lean) -/
def padIdx : Pad → Nat
  | .none => 0 | .zero => 1 | .space => 2
def itemCode : Item → List Nat
  | .literal s => 0 :: s
  | .space s => 1 :: s
  | .numeric n p => [2, Numeric.all.idxOf n, padIdx p]
  | .fixed f => [3, Fixed.all.idxOf f]
  | .error => [4]

/-! ### readers -/

def liftErr {α} (e : PErr) : Parsed.RP α := .ok (.error e)

/-- `impl FromStr for NaiveDate` -/
def date_from_str (s : List Nat) : Parsed.RP Date :=
  match Parse.parse Parsed.new s DATE_ITEMS with
  | .error e => liftErr e
  | .ok p => Parsed.to_naive_date p

/-- `impl FromStr for NaiveTime`.  The seconds part is optional: when `parse_and_remainder` fails on
`SECOND_AND_NANOS` the code continues with the text that followed the minutes (and with whatever
that failed run had already stored in `parsed`).  A failed run has stored nothing unless it got past
the literal `:`, i.e. unless that text, trimmed, is non-empty — and then the trailing-white-space
parse fails with `TooLong` before `parsed` is looked at.  So the stored fields of a failed run are
never observed and the model does not carry them. -/
def time_from_str (s : List Nat) : PRes Time :=
  match Parse.parse_internal Parsed.new s HOUR_AND_MINUTE with
  | .error e => .error e
  | .ok (p, s) =>
    let ps : Parsed × List Nat :=
      match Parse.parse_internal p s SECOND_AND_NANOS with
      | .ok (p', s') => (p', s')
      | .error _ => (p, s)
    match Parse.parse ps.1 ps.2 TRAILING_WHITESPACE with
    | .error e => .error e
    | .ok p => Parsed.to_naive_time p

/-- `impl FromStr for NaiveDateTime` -/
def naive_from_str (s : List Nat) : Parsed.RP NaiveDT :=
  match Parse.parse Parsed.new s DATETIME_ITEMS with
  | .error e => liftErr e
  | .ok p => Parsed.to_naive_datetime_with_offset p 0

/-- `impl FromStr for DateTime<FixedOffset>` (src/format/parse.rs) -/
def fixed_from_str (s : List Nat) : Parsed.RP Zoned :=
  match Parse.parse_rfc3339_relaxed Parsed.new s with
  | .error e => liftErr e
  | .ok (p, rest) =>
    if trimStart rest ≠ [] then liftErr .tooLong else Parsed.to_datetime p

/-- `impl FromStr for DateTime<Utc>`: the fixed-offset reading `with_timezone(&Utc)` -/
def utc_from_str (s : List Nat) : Parsed.RP Zoned :=
  match fixed_from_str s with
  | .ok (.ok z) => .ok (.ok (z.with_timezone 0))
  | r => r

/-- `impl FromStr for FixedOffset`: what follows the offset is not looked at -/
def offset_from_str (s : List Nat) : PRes Int :=
  match timezone_offset s .colonOrSpace false false true with
  | .error e => .error e
  | .ok (_, offset) =>
    match Zoned.east_opt offset with
    | some o => .ok o
    | none => .error .outOfRange

end TextForms
end Chrono.M
