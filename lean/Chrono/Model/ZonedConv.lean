/-
  C04, second audit (2026-09-30): the remaining public ways to read the wall-clock DATE of a zone-aware
  value, to convert between `DateTime<Utc>` and `DateTime<FixedOffset>`, and to build a value from a naive
  reading — none of which had a model before (src/datetime/mod.rs, src/naive/datetime/mod.rs):

  * `DateTime::date_naive()` = `self.naive_local().date()` — the one remaining public caller of the
    PANICKING `naive_local()`; deprecated `DateTime::date()` = `Date::from_utc(self.naive_local().date(),
    self.offset.clone())` (observed through `Date::naive_utc()`, which returns the stored date);
  * `impl From<DateTime<Utc>> for DateTime<FixedOffset>` = `src.with_timezone(&FixedOffset::east_opt(0).unwrap())`,
    `impl From<DateTime<FixedOffset>> for DateTime<Utc>` = `src.with_timezone(&Utc)`;
  * `NaiveDateTime::and_utc()` = `DateTime::from_naive_utc_and_offset(*self, Utc)`,
    `NaiveDateTime::and_local_timezone(tz)` = `tz.from_local_datetime(self)`;
  * deprecated `DateTime::from_utc(datetime, offset)` = `DateTime { datetime, offset }` and
    `DateTime::from_local(datetime, offset)` = `DateTime { datetime: datetime - offset.fix(), offset }`, where
    `NaiveDateTime - FixedOffset` is `checked_sub_offset(rhs).expect(..)` (panicking);
  * `impl Add<Days> / Sub<Days> for DateTime<Tz>` = `checked_{add,sub}_days(days).expect(..)`.
  `Utc` is offset 0, as everywhere in the `Zoned` model.
-/
import Chrono.Model.ZonedDerived
import Chrono.Model.ArithOps
namespace Chrono.M
namespace Zoned

/-- `date_naive()`: the date of the panicking `naive_local()` -/
def date_naive (z : Zoned) : Res Date := (naive_local z).bind fun l => .ok l.date

/-- deprecated `date()`: `Date { date: naive_local().date(), offset }` -/
def date_deprecated (z : Zoned) : Res (Date × Int) := (naive_local z).bind fun l => .ok (l.date, z.off)

/-- deprecated `DateTime::from_utc(datetime, offset)` -/
def from_utc_deprecated (utc : NaiveDT) (off : Int) : Zoned := ⟨utc, off⟩

/-- deprecated `DateTime::from_local(datetime, offset)`: `datetime - offset.fix()` panics when the UTC reading
leaves the range -/
def from_local_deprecated (loc : NaiveDT) (off : Int) : Res Zoned :=
  (expectSome (loc.checked_sub_offset off)).bind fun u => .ok ⟨u, off⟩

/-- `From<DateTime<Utc>> for DateTime<FixedOffset>`: `FixedOffset::east_opt(0).unwrap()` -/
def fixed_from_utc (z : Zoned) : Res Zoned :=
  match east_opt 0 with
  | some o => .ok (with_timezone z o)
  | none => .panic

/-- `From<DateTime<FixedOffset>> for DateTime<Utc>`: `with_timezone(&Utc)` -/
def utc_from_fixed (z : Zoned) : Zoned := with_timezone z 0

/-- `NaiveDateTime::and_utc()` -/
def and_utc (u : NaiveDT) : Zoned := from_naive_utc_and_offset u 0

/-- `NaiveDateTime::and_local_timezone(tz)` for a fixed offset -/
def and_local_timezone (loc : NaiveDT) (off : Int) : Res (Option Zoned) := from_local_datetime off loc

/-- `impl Add<Days> for DateTime<Tz>` -/
def add_days_op (z : Zoned) (n : Int) : Res Zoned := expectSome (checked_add_days z n)
/-- `impl Sub<Days> for DateTime<Tz>` -/
def sub_days_op (z : Zoned) (n : Int) : Res Zoned := expectSome (checked_sub_days z n)

end Zoned
end Chrono.M
