/-
  The sixteen serde timestamp helper modules
    chrono::serde::{ts_seconds, ts_milliseconds, ts_microseconds, ts_nanoseconds}{, _option}        (src/datetime/serde.rs)
    chrono::naive::serde::{ts_seconds, ts_milliseconds, ts_microseconds, ts_nanoseconds}{, _option} (src/naive/datetime/serde.rs)
  and `invalid_ts` (src/lib.rs), one definition per Rust function, same branch structure.

  A `DateTime<Utc>` is modelled by its UTC reading (`NaiveDT`); `and_utc()` / `naive_utc()` /
  `with_timezone(&Utc)` are the identity on that reading.  `Result<_, Error>` is `SR` (`ok | err`):
  the modules build exactly two errors, `ser::Error::custom("value out of range …")` and
  `invalid_ts(value)`; the error text is not modelled.  `Res` around it carries panics / overflow.

  The data format is outside this file.  What a format hands to the modules is:
    `WInt`  — the visitor method that `Deserializer::deserialize_i64(visitor)` ends up calling
              (`visit_i64 v`, `visit_u64 v`, or anything else, for which serde's default visitor
              methods return `Err(invalid_type)`),
    `WOpt`  — the same for `deserialize_option` (`visit_none`, `visit_unit`, `visit_some(d)`).
  What the modules hand to a format is `SOut` (`serialize_i64 n`, `serialize_none`,
  `serialize_some(&n)`).
-/
import Chrono.Model.DateTime
namespace Chrono.M.Serde
open Chrono.M

/-- `Result<T, E>` of a serializer / deserializer call (error text not modelled) -/
inductive SR (α : Type) where
  | ok (a : α)
  | err
  deriving DecidableEq, Repr

/-- `Option::ok_or(_else)(error)` -/
def ok_or {α} : Option α → SR α
  | some a => .ok a
  | none => .err

/-- `Result::map` -/
def SR.map {α β} (f : α → β) : SR α → SR β
  | .ok a => .ok (f a)
  | .err => .err

/-- what `deserialize_i64` delivers to the visitor -/
inductive WInt where
  | i64 (v : Int)     -- `visit_i64(v)`
  | u64 (v : Int)     -- `visit_u64(v)`
  | other             -- any other visitor method: serde's defaults answer `Err(invalid_type)`
  deriving DecidableEq, Repr

/-- what `deserialize_option` delivers to the visitor -/
inductive WOpt where
  | none              -- `visit_none()`
  | unit              -- `visit_unit()`
  | some (w : WInt)   -- `visit_some(d)`, whose `d.deserialize_i64(..)` then delivers `w`
  | other
  deriving DecidableEq, Repr

/-- what the `serialize` functions ask the serializer to write -/
inductive SOut where
  | i64 (n : Int)     -- `serialize_i64(n)`
  | none              -- `serialize_none()`
  | some (n : Int)    -- `serialize_some(&n)` with `n : i64`
  deriving DecidableEq, Repr

/-- `NaiveDateTime::and_utc`, `DateTime::<Utc>::naive_utc`, `with_timezone(&Utc)` on a UTC value -/
def and_utc (dt : NaiveDT) : NaiveDT := dt
def naive_utc (dt : NaiveDT) : NaiveDT := dt

/-- `DateTime::from_timestamp(..).ok_or_else(|| invalid_ts(value))` -/
def from_ts_or_invalid (secs nsecs : Int) : Res (SR NaiveDT) :=
  (NaiveDT.from_timestamp secs nsecs).bind fun r => .ok (ok_or r)

/-! ## src/datetime/serde.rs — visitors producing `DateTime<Utc>` -/
namespace Utc

/-- `SecondsTimestampVisitor::visit_i64`: `from_timestamp(value, 0)` -/
def SecondsTimestampVisitor.visit_i64 (value : Int) : Res (SR NaiveDT) :=
  from_ts_or_invalid value 0
/-- `SecondsTimestampVisitor::visit_u64`: `value > i64::MAX as u64` is refused before the cast -/
def SecondsTimestampVisitor.visit_u64 (value : Int) : Res (SR NaiveDT) :=
  if value > I64_MAX then .ok .err
  else from_ts_or_invalid (asI64 value) 0

/-- `MilliSecondsTimestampVisitor::visit_i64`: `from_timestamp_millis(value)` -/
def MilliSecondsTimestampVisitor.visit_i64 (value : Int) : Res (SR NaiveDT) :=
  (NaiveDT.from_timestamp_millis value).bind fun r => .ok (ok_or r)
/-- `visit_u64`: `from_timestamp((value / 1000) as i64, ((value % 1000) * 1_000_000) as u32)` -/
def MilliSecondsTimestampVisitor.visit_u64 (value : Int) : Res (SR NaiveDT) :=
  (ckU64 ((value % 1000) * 1000000)).bind fun n =>
  from_ts_or_invalid (asI64 (value / 1000)) (asU32 n)

/-- `MicroSecondsTimestampVisitor::visit_i64`:
`from_timestamp(value.div_euclid(1_000_000), (value.rem_euclid(1_000_000) * 1000) as u32)` -/
def MicroSecondsTimestampVisitor.visit_i64 (value : Int) : Res (SR NaiveDT) :=
  (ckI64 ((value % 1000000) * 1000)).bind fun n =>
  from_ts_or_invalid (value / 1000000) (asU32 n)
/-- `visit_u64`: `from_timestamp((value / 1_000_000) as i64, ((value % 1_000_000) * 1_000) as u32)` -/
def MicroSecondsTimestampVisitor.visit_u64 (value : Int) : Res (SR NaiveDT) :=
  (ckU64 ((value % 1000000) * 1000)).bind fun n =>
  from_ts_or_invalid (asI64 (value / 1000000)) (asU32 n)

/-- `NanoSecondsTimestampVisitor::visit_i64`:
`from_timestamp(value.div_euclid(1_000_000_000), value.rem_euclid(1_000_000_000) as u32)` -/
def NanoSecondsTimestampVisitor.visit_i64 (value : Int) : Res (SR NaiveDT) :=
  from_ts_or_invalid (value / 1000000000) (asU32 (value % 1000000000))
/-- `visit_u64`: `from_timestamp((value / 1_000_000_000) as i64, (value % 1_000_000_000) as u32)` -/
def NanoSecondsTimestampVisitor.visit_u64 (value : Int) : Res (SR NaiveDT) :=
  from_ts_or_invalid (asI64 (value / 1000000000)) (asU32 (value % 1000000000))

namespace ts_seconds
def serialize (dt : NaiveDT) : Res (SR SOut) :=
  (NaiveDT.timestamp dt).bind fun t => .ok (.ok (.i64 t))
def deserialize : WInt → Res (SR NaiveDT)
  | .i64 v => SecondsTimestampVisitor.visit_i64 v
  | .u64 v => SecondsTimestampVisitor.visit_u64 v
  | .other => .ok .err
end ts_seconds

namespace ts_milliseconds
def serialize (dt : NaiveDT) : Res (SR SOut) :=
  (NaiveDT.timestamp_millis dt).bind fun t => .ok (.ok (.i64 t))
/-- `d.deserialize_i64(MilliSecondsTimestampVisitor).map(|dt| dt.with_timezone(&Utc))` -/
def deserialize : WInt → Res (SR NaiveDT)
  | .i64 v => (MilliSecondsTimestampVisitor.visit_i64 v).bind fun r => .ok (r.map and_utc)
  | .u64 v => (MilliSecondsTimestampVisitor.visit_u64 v).bind fun r => .ok (r.map and_utc)
  | .other => .ok .err
end ts_milliseconds

namespace ts_microseconds
def serialize (dt : NaiveDT) : Res (SR SOut) :=
  (NaiveDT.timestamp_micros dt).bind fun t => .ok (.ok (.i64 t))
def deserialize : WInt → Res (SR NaiveDT)
  | .i64 v => MicroSecondsTimestampVisitor.visit_i64 v
  | .u64 v => MicroSecondsTimestampVisitor.visit_u64 v
  | .other => .ok .err
end ts_microseconds

namespace ts_nanoseconds
/-- `serialize_i64(dt.timestamp_nanos_opt().ok_or(custom("value out of range …"))?)` -/
def serialize (dt : NaiveDT) : Res (SR SOut) :=
  (NaiveDT.timestamp_nanos_opt dt).bind fun o =>
  match ok_or o with
  | .ok n => .ok (.ok (.i64 n))
  | .err => .ok .err
def deserialize : WInt → Res (SR NaiveDT)
  | .i64 v => NanoSecondsTimestampVisitor.visit_i64 v
  | .u64 v => NanoSecondsTimestampVisitor.visit_u64 v
  | .other => .ok .err
end ts_nanoseconds

/-- the `Option…TimestampVisitor`s: `visit_some(d) = d.deserialize_i64(inner).map(Some)`,
`visit_none` and `visit_unit` give `Ok(None)` -/
def optionVisitor (inner : WInt → Res (SR NaiveDT)) : WOpt → Res (SR (Option NaiveDT))
  | .some w => (inner w).bind fun r => .ok (r.map some)
  | .none => .ok (.ok none)
  | .unit => .ok (.ok none)
  | .other => .ok .err

namespace ts_seconds_option
def serialize : Option NaiveDT → Res (SR SOut)
  | some dt => (NaiveDT.timestamp dt).bind fun t => .ok (.ok (.some t))
  | none => .ok (.ok .none)
def deserialize (w : WOpt) : Res (SR (Option NaiveDT)) := optionVisitor ts_seconds.deserialize w
end ts_seconds_option

namespace ts_milliseconds_option
def serialize : Option NaiveDT → Res (SR SOut)
  | some dt => (NaiveDT.timestamp_millis dt).bind fun t => .ok (.ok (.some t))
  | none => .ok (.ok .none)
/-- the inner visitor is the bare `MilliSecondsTimestampVisitor`; `.map(|opt| opt.map(with_timezone))` after -/
def deserialize (w : WOpt) : Res (SR (Option NaiveDT)) :=
  (optionVisitor (fun w => match w with
    | .i64 v => MilliSecondsTimestampVisitor.visit_i64 v
    | .u64 v => MilliSecondsTimestampVisitor.visit_u64 v
    | .other => .ok .err) w).bind fun r => .ok (r.map fun o => o.map and_utc)
end ts_milliseconds_option

namespace ts_microseconds_option
def serialize : Option NaiveDT → Res (SR SOut)
  | some dt => (NaiveDT.timestamp_micros dt).bind fun t => .ok (.ok (.some t))
  | none => .ok (.ok .none)
def deserialize (w : WOpt) : Res (SR (Option NaiveDT)) := optionVisitor ts_microseconds.deserialize w
end ts_microseconds_option

namespace ts_nanoseconds_option
def serialize : Option NaiveDT → Res (SR SOut)
  | some dt => (NaiveDT.timestamp_nanos_opt dt).bind fun o =>
      match ok_or o with
      | .ok n => .ok (.ok (.some n))
      | .err => .ok .err
  | none => .ok (.ok .none)
def deserialize (w : WOpt) : Res (SR (Option NaiveDT)) := optionVisitor ts_nanoseconds.deserialize w
end ts_nanoseconds_option
end Utc

/-! ## src/naive/datetime/serde.rs — visitors producing `NaiveDateTime` -/
namespace Naive

/-- `from_timestamp(value, 0).map(|dt| dt.naive_utc()).ok_or_else(|| invalid_ts(value))` -/
def SecondsTimestampVisitor.visit_i64 (value : Int) : Res (SR NaiveDT) :=
  (NaiveDT.from_timestamp value 0).bind fun r => .ok (ok_or (r.map naive_utc))
def SecondsTimestampVisitor.visit_u64 (value : Int) : Res (SR NaiveDT) :=
  if value > I64_MAX then .ok .err
  else (NaiveDT.from_timestamp (asI64 value) 0).bind fun r => .ok (ok_or (r.map naive_utc))

/-- `from_timestamp_millis(value).map(naive_utc)` -/
def MilliSecondsTimestampVisitor.visit_i64 (value : Int) : Res (SR NaiveDT) :=
  (NaiveDT.from_timestamp_millis value).bind fun r => .ok (ok_or (r.map naive_utc))
def MilliSecondsTimestampVisitor.visit_u64 (value : Int) : Res (SR NaiveDT) :=
  (ckU64 ((value % 1000) * 1000000)).bind fun n =>
  (NaiveDT.from_timestamp (asI64 (value / 1000)) (asU32 n)).bind fun r => .ok (ok_or (r.map naive_utc))

/-- here (unlike the `DateTime<Utc>` module) `visit_i64` is `from_timestamp_micros(value)` -/
def MicroSecondsTimestampVisitor.visit_i64 (value : Int) : Res (SR NaiveDT) :=
  (NaiveDT.from_timestamp_micros value).bind fun r => .ok (ok_or (r.map naive_utc))
def MicroSecondsTimestampVisitor.visit_u64 (value : Int) : Res (SR NaiveDT) :=
  (ckU64 ((value % 1000000) * 1000)).bind fun n =>
  (NaiveDT.from_timestamp (asI64 (value / 1000000)) (asU32 n)).bind fun r => .ok (ok_or (r.map naive_utc))

def NanoSecondsTimestampVisitor.visit_i64 (value : Int) : Res (SR NaiveDT) :=
  (NaiveDT.from_timestamp (value / 1000000000) (asU32 (value % 1000000000))).bind fun r =>
  .ok (ok_or (r.map naive_utc))
def NanoSecondsTimestampVisitor.visit_u64 (value : Int) : Res (SR NaiveDT) :=
  (NaiveDT.from_timestamp (asI64 (value / 1000000000)) (asU32 (value % 1000000000))).bind fun r =>
  .ok (ok_or (r.map naive_utc))

namespace ts_seconds
def serialize (dt : NaiveDT) : Res (SR SOut) :=
  (NaiveDT.timestamp (and_utc dt)).bind fun t => .ok (.ok (.i64 t))
def deserialize : WInt → Res (SR NaiveDT)
  | .i64 v => SecondsTimestampVisitor.visit_i64 v
  | .u64 v => SecondsTimestampVisitor.visit_u64 v
  | .other => .ok .err
end ts_seconds

namespace ts_milliseconds
def serialize (dt : NaiveDT) : Res (SR SOut) :=
  (NaiveDT.timestamp_millis (and_utc dt)).bind fun t => .ok (.ok (.i64 t))
def deserialize : WInt → Res (SR NaiveDT)
  | .i64 v => MilliSecondsTimestampVisitor.visit_i64 v
  | .u64 v => MilliSecondsTimestampVisitor.visit_u64 v
  | .other => .ok .err
end ts_milliseconds

namespace ts_microseconds
def serialize (dt : NaiveDT) : Res (SR SOut) :=
  (NaiveDT.timestamp_micros (and_utc dt)).bind fun t => .ok (.ok (.i64 t))
def deserialize : WInt → Res (SR NaiveDT)
  | .i64 v => MicroSecondsTimestampVisitor.visit_i64 v
  | .u64 v => MicroSecondsTimestampVisitor.visit_u64 v
  | .other => .ok .err
end ts_microseconds

namespace ts_nanoseconds
def serialize (dt : NaiveDT) : Res (SR SOut) :=
  (NaiveDT.timestamp_nanos_opt (and_utc dt)).bind fun o =>
  match ok_or o with
  | .ok n => .ok (.ok (.i64 n))
  | .err => .ok .err
def deserialize : WInt → Res (SR NaiveDT)
  | .i64 v => NanoSecondsTimestampVisitor.visit_i64 v
  | .u64 v => NanoSecondsTimestampVisitor.visit_u64 v
  | .other => .ok .err
end ts_nanoseconds

def optionVisitor (inner : WInt → Res (SR NaiveDT)) : WOpt → Res (SR (Option NaiveDT))
  | .some w => (inner w).bind fun r => .ok (r.map some)
  | .none => .ok (.ok none)
  | .unit => .ok (.ok none)
  | .other => .ok .err

namespace ts_seconds_option
def serialize : Option NaiveDT → Res (SR SOut)
  | some dt => (NaiveDT.timestamp (and_utc dt)).bind fun t => .ok (.ok (.some t))
  | none => .ok (.ok .none)
def deserialize (w : WOpt) : Res (SR (Option NaiveDT)) := optionVisitor ts_seconds.deserialize w
end ts_seconds_option

namespace ts_milliseconds_option
def serialize : Option NaiveDT → Res (SR SOut)
  | some dt => (NaiveDT.timestamp_millis (and_utc dt)).bind fun t => .ok (.ok (.some t))
  | none => .ok (.ok .none)
def deserialize (w : WOpt) : Res (SR (Option NaiveDT)) := optionVisitor ts_milliseconds.deserialize w
end ts_milliseconds_option

namespace ts_microseconds_option
def serialize : Option NaiveDT → Res (SR SOut)
  | some dt => (NaiveDT.timestamp_micros (and_utc dt)).bind fun t => .ok (.ok (.some t))
  | none => .ok (.ok .none)
def deserialize (w : WOpt) : Res (SR (Option NaiveDT)) := optionVisitor ts_microseconds.deserialize w
end ts_microseconds_option

namespace ts_nanoseconds_option
def serialize : Option NaiveDT → Res (SR SOut)
  | some dt => (NaiveDT.timestamp_nanos_opt (and_utc dt)).bind fun o =>
      match ok_or o with
      | .ok n => .ok (.ok (.some n))
      | .err => .ok .err
  | none => .ok (.ok .none)
def deserialize (w : WOpt) : Res (SR (Option NaiveDT)) := optionVisitor ts_nanoseconds.deserialize w
end ts_nanoseconds_option
end Naive

/-! ## one name for all sixteen modules (used by the theorems and the driver) -/

inductive Target where
  | utc | naive
  deriving DecidableEq, Repr
inductive TsUnit where
  | secs | millis | micros | nanos
  deriving DecidableEq, Repr

def Target.all : List Target := [.utc, .naive]
def TsUnit.all : List TsUnit := [.secs, .millis, .micros, .nanos]

/-- `<target>::ts_<unit>::serialize` -/
def serialize : Target → TsUnit → NaiveDT → Res (SR SOut)
  | .utc, .secs => Utc.ts_seconds.serialize
  | .utc, .millis => Utc.ts_milliseconds.serialize
  | .utc, .micros => Utc.ts_microseconds.serialize
  | .utc, .nanos => Utc.ts_nanoseconds.serialize
  | .naive, .secs => Naive.ts_seconds.serialize
  | .naive, .millis => Naive.ts_milliseconds.serialize
  | .naive, .micros => Naive.ts_microseconds.serialize
  | .naive, .nanos => Naive.ts_nanoseconds.serialize

/-- `<target>::ts_<unit>::deserialize` -/
def deserialize : Target → TsUnit → WInt → Res (SR NaiveDT)
  | .utc, .secs => Utc.ts_seconds.deserialize
  | .utc, .millis => Utc.ts_milliseconds.deserialize
  | .utc, .micros => Utc.ts_microseconds.deserialize
  | .utc, .nanos => Utc.ts_nanoseconds.deserialize
  | .naive, .secs => Naive.ts_seconds.deserialize
  | .naive, .millis => Naive.ts_milliseconds.deserialize
  | .naive, .micros => Naive.ts_microseconds.deserialize
  | .naive, .nanos => Naive.ts_nanoseconds.deserialize

/-- `<target>::ts_<unit>_option::serialize` -/
def serialize_option : Target → TsUnit → Option NaiveDT → Res (SR SOut)
  | .utc, .secs => Utc.ts_seconds_option.serialize
  | .utc, .millis => Utc.ts_milliseconds_option.serialize
  | .utc, .micros => Utc.ts_microseconds_option.serialize
  | .utc, .nanos => Utc.ts_nanoseconds_option.serialize
  | .naive, .secs => Naive.ts_seconds_option.serialize
  | .naive, .millis => Naive.ts_milliseconds_option.serialize
  | .naive, .micros => Naive.ts_microseconds_option.serialize
  | .naive, .nanos => Naive.ts_nanoseconds_option.serialize

/-- `<target>::ts_<unit>_option::deserialize` -/
def deserialize_option : Target → TsUnit → WOpt → Res (SR (Option NaiveDT))
  | .utc, .secs => Utc.ts_seconds_option.deserialize
  | .utc, .millis => Utc.ts_milliseconds_option.deserialize
  | .utc, .micros => Utc.ts_microseconds_option.deserialize
  | .utc, .nanos => Utc.ts_nanoseconds_option.deserialize
  | .naive, .secs => Naive.ts_seconds_option.deserialize
  | .naive, .millis => Naive.ts_milliseconds_option.deserialize
  | .naive, .micros => Naive.ts_microseconds_option.deserialize
  | .naive, .nanos => Naive.ts_nanoseconds_option.deserialize

/-! ## `TimeDelta` (src/time_delta.rs, `mod serde`) -/

/-- `Serialize for TimeDelta`: the tuple `(self.secs, self.nanos)` as `(i64, i32)` -/
def TimeDelta.serialize (d : Delta) : Int × Int := (d.secs, d.nanos)
/-- `Deserialize for TimeDelta`: `TimeDelta::new(secs, nanos as u32).ok_or(custom("TimeDelta out of bounds"))`
from an `(i64, i32)` tuple -/
def TimeDelta.deserialize (p : Int × Int) : SR Delta := ok_or (Delta.new p.1 (asU32 p.2))

end Chrono.M.Serde
