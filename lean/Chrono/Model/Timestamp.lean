/-
  C02 — the remaining timestamp entry points (the arithmetic core `from_timestamp`, `timestamp`,
  `timestamp_millis/_micros/_nanos_opt`, `timestamp_subsec_*`, `from_timestamp_millis/_micros/_nanos`
  lives in Model/DateTime.lean, namespace `NaiveDT`).  Here:

  * `NaiveDateTime::and_utc` / `DateTime::naive_utc` (src/naive/datetime/mod.rs, src/datetime/mod.rs),
  * the `TimeZone::timestamp*` wrappers of src/offset/mod.rs for `Utc` / `FixedOffset`,
  * the accessors read through a zone-aware value (`DateTime<Tz>::timestamp*` look at the UTC reading only),
  * the deprecated `NaiveDateTime::{from_timestamp, from_timestamp_opt, from_timestamp_millis,
    from_timestamp_micros, from_timestamp_nanos, timestamp_nanos}` (two of them repeat the Euclidean split
    instead of delegating, so they are modelled separately),
  * `From<SystemTime> for DateTime<Utc>` and `From<DateTime<Tz>> for SystemTime`.

  `SystemTime` is modelled as `(S, N)`: `S` whole seconds relative to 1970-01-01T00:00:00Z rounded
  toward −∞ (an `i64` on the platform the harness runs on), `0 ≤ N < 10⁹` nanoseconds on top of it.
-/
import Chrono.Model.DateTime
namespace Chrono.M.Ts
open Chrono.Extracted

/-- `NaiveDateTime::and_utc()`: `DateTime::from_naive_utc_and_offset(*self, Utc)` -/
def and_utc (dt : NaiveDT) : Zoned := ⟨dt, 0⟩
/-- `DateTime::naive_utc()` -/
def naive_utc (z : Zoned) : NaiveDT := z.utc

/-! ### `TimeZone::timestamp*` for a fixed offset (`Utc` is offset 0): `MappedLocalTime::Single`/`None` -/

def single (off : Int) (r : Res (Option NaiveDT)) : Res (Option Zoned) :=
  r.bind fun o => .ok (o.map fun dt => Zoned.from_utc_datetime off (naive_utc (and_utc dt)))
def unwrap {α} (r : Res (Option α)) : Res α :=
  r.bind fun o => match o with
    | some a => .ok a
    | none => .panic

/-- `TimeZone::timestamp_opt(secs, nsecs)` -/
def timestamp_opt (off secs nsecs : Int) : Res (Option Zoned) := single off (NaiveDT.from_timestamp secs nsecs)
/-- `TimeZone::timestamp(secs, nsecs)` (deprecated): `timestamp_opt(..).unwrap()` -/
def timestamp (off secs nsecs : Int) : Res Zoned := unwrap (timestamp_opt off secs nsecs)
/-- `TimeZone::timestamp_millis_opt(millis)` -/
def timestamp_millis_opt (off ms : Int) : Res (Option Zoned) := single off (NaiveDT.from_timestamp_millis ms)
/-- `TimeZone::timestamp_millis(millis)` (deprecated): `.unwrap()` -/
def timestamp_millis (off ms : Int) : Res Zoned := unwrap (timestamp_millis_opt off ms)
/-- `TimeZone::timestamp_micros(micros)` -/
def timestamp_micros (off us : Int) : Res (Option Zoned) := single off (NaiveDT.from_timestamp_micros us)
/-- `TimeZone::timestamp_nanos(nanos)` -/
def timestamp_nanos (off ns : Int) : Res Zoned :=
  (NaiveDT.from_timestamp_nanos ns).bind fun dt => .ok (Zoned.from_utc_datetime off (naive_utc (and_utc dt)))

/-! ### accessors through a zone-aware value: the offset does not enter -/
def ztimestamp (z : Zoned) : Res Int := NaiveDT.timestamp z.utc
def ztimestamp_millis (z : Zoned) : Res Int := NaiveDT.timestamp_millis z.utc
def ztimestamp_micros (z : Zoned) : Res Int := NaiveDT.timestamp_micros z.utc
def ztimestamp_nanos_opt (z : Zoned) : Res (Option Int) := NaiveDT.timestamp_nanos_opt z.utc

/-- `DateTime::timestamp_nanos()` (deprecated): `expect(timestamp_nanos_opt())` -/
def timestamp_nanos_expect (dt : NaiveDT) : Res Int := unwrap (NaiveDT.timestamp_nanos_opt dt)

/-! ### deprecated `NaiveDateTime` constructors -/
/-- `NaiveDateTime::from_timestamp_opt` -/
def naive_from_timestamp_opt (secs nsecs : Int) : Res (Option NaiveDT) :=
  (NaiveDT.from_timestamp secs nsecs).bind fun o => .ok (o.map fun dt => naive_utc (and_utc dt))
/-- `NaiveDateTime::from_timestamp`: `expect` -/
def naive_from_timestamp (secs nsecs : Int) : Res NaiveDT := unwrap (naive_from_timestamp_opt secs nsecs)
/-- `NaiveDateTime::from_timestamp_millis` -/
def naive_from_timestamp_millis (ms : Int) : Res (Option NaiveDT) :=
  (NaiveDT.from_timestamp_millis ms).bind fun o => .ok (o.map fun dt => naive_utc (and_utc dt))
/-- `NaiveDateTime::from_timestamp_micros`: its own `div_euclid`/`rem_euclid` split -/
def naive_from_timestamp_micros (us : Int) : Res (Option NaiveDT) :=
  (ckU32 ((us % 1000000) * 1000)).bind fun ns => naive_from_timestamp_opt (us / 1000000) ns
/-- `NaiveDateTime::from_timestamp_nanos`: its own split, returns an `Option` -/
def naive_from_timestamp_nanos (ns : Int) : Res (Option NaiveDT) :=
  naive_from_timestamp_opt (ns / 1000000000) (ns % 1000000000)

/-! ### `std::time::SystemTime` -/

/-- `t.duration_since(UNIX_EPOCH)` for `t = (S, N)`: `Ok(d)` (first component `true`) when `t` is not
before the epoch, else `Err(e)` with `e.duration() = epoch − t`; the duration as `(secs : u64, nanos)` -/
def duration_since_epoch (S N : Int) : Bool × Int × Int :=
  if S ≥ 0 then (true, S, N)
  else if N = 0 then (false, -S, 0) else (false, -S - 1, 1000000000 - N)

/-- `impl From<SystemTime> for DateTime<Utc>` -/
def from_system_time (S N : Int) : Res NaiveDT :=
  let d := duration_since_epoch S N
  let sec := asI64 d.2.1                 -- `dur.as_secs() as i64`
  let nsec := d.2.2
  if d.1 then unwrap (NaiveDT.from_timestamp sec nsec)
  else if nsec = 0 then
    (ckI64 (-sec)).bind fun s => unwrap (NaiveDT.from_timestamp s 0)
  else
    (ckI64 (-sec)).bind fun s => (ckI64 (s - 1)).bind fun s =>
    (ckU32 (1000000000 - nsec)).bind fun n => unwrap (NaiveDT.from_timestamp s n)

/-- `Duration::new(secs: u64, nanos: u32)`: carries whole seconds out of `nanos` (checked `u64` add) -/
def duration_new (secs nanos : Int) : Res (Int × Int) :=
  (ckU64 (secs + nanos / 1000000000)).bind fun s => .ok (s, nanos % 1000000000)

/-- `SystemTime ± Duration` on `(S, N)` (`i64` seconds; panics on overflow) -/
def st_add (t : Int × Int) (d : Int × Int) : Res (Int × Int) :=
  let n := t.2 + d.2
  (ckI64 (t.1 + d.1 + (if n ≥ 1000000000 then 1 else 0))).bind fun s =>
  .ok (s, if n ≥ 1000000000 then n - 1000000000 else n)
def st_sub (t : Int × Int) (d : Int × Int) : Res (Int × Int) :=
  let n := t.2 - d.2
  (ckI64 (t.1 - d.1 - (if n < 0 then 1 else 0))).bind fun s =>
  .ok (s, if n < 0 then n + 1000000000 else n)

/-- `impl From<DateTime<Tz>> for SystemTime` (the value's UTC reading) -/
def to_system_time (dt : NaiveDT) : Res (Int × Int) :=
  (NaiveDT.timestamp dt).bind fun sec =>
  let nsec := NaiveDT.timestamp_subsec_nanos dt
  if sec < 0 then
    (ckI64 (-sec)).bind fun m =>          -- `-sec as u64`
    (duration_new m 0).bind fun d1 => (duration_new 0 nsec).bind fun d2 =>
    (st_sub (0, 0) d1).bind fun t => st_add t d2
  else
    (duration_new sec nsec).bind fun d => st_add (0, 0) d

end Chrono.M.Ts
