/-
  `Parsed::to_datetime_with_timezone<Tz: TimeZone>` (src/format/parsed.rs) for an ARBITRARY time
  zone, and a concrete executable family of zones with one transition (`StepZone`).  Property C14.

  A `TimeZone` enters `to_datetime_with_timezone` through exactly two calls:
    * `tz.offset_from_utc_datetime(&utc).fix().local_minus_utc()`     (only when a timestamp is given)
    * `tz.from_local_datetime(&local)`  : `MappedLocalTime<DateTime<Tz>>` = None | Single | Ambiguous
  so the generic model takes these two functions as parameters.  Both are `Res`-valued: user code may
  panic, and the panic propagates.  A `DateTime<Tz>` is observed as (UTC reading, `local_minus_utc` of
  its offset) = `Zoned`.

  `Model/ParsedResolve.lean`'s `to_datetime_with_timezone p z` (fixed offset `z`) is the instance
  `to_datetime_with_timezone_gen p (fixed_offset_from_utc z) (fixed_from_local z)` for every record
  of in-type fields and every valid offset (`Proofs.ParsedZone.fixed_is_instance`: the timestamp
  test of `check_offset`, which the fixed-zone model omits, always passes in a fixed zone).
-/
import Chrono.Model.ParsedResolve
import Chrono.Model.TzLookup
import Chrono.Model.ZonedOps
namespace Chrono.M
open Chrono.M.TzL (Mapped)

namespace Parsed

/-- the closure `check_offset`: the value's offset is the supplied offset field, if any, and its
instant is the supplied timestamp, if any (`given == dt.timestamp()`, or one more when the value is
a leap second: `dt.nanosecond() >= 1_000_000_000`).  `dt.timestamp()` is the timestamp of the UTC
reading, `dt.nanosecond()` (`Timelike for DateTime<Tz>`) that of `overflowing_naive_local()`. -/
def check_offset (p : Parsed) (dt : Zoned) : Res Bool :=
  let offset_differs : Bool := match p.offset with
    | some offset => dt.off != offset
    | none => false
  if offset_differs then .ok false
  else
    match p.timestamp with
    | some given_timestamp =>
      (dt.utc.timestamp).bind fun timestamp =>
      if given_timestamp ≠ timestamp then
        (Zoned.nanosecond dt).bind fun ns =>
        .ok (decide (ns ≥ 1000000000 ∧ given_timestamp = timestamp + 1))
      else .ok true
    | none => .ok true

/-- `Parsed::to_datetime_with_timezone(&tz)`, any `tz`, branch for branch -/
def to_datetime_with_timezone_gen (p : Parsed)
    (offset_from_utc_datetime : NaiveDT → Res Int)
    (from_local_datetime : NaiveDT → Res (Mapped Zoned)) : RP Zoned :=
  -- `let mut guessed_offset = 0; if let Some(timestamp) = self.timestamp { … }`
  RP.bind (match p.timestamp with
   | some timestamp =>
     RP.bind (okOr (NaiveDT.from_timestamp timestamp (p.nanosecond.getD 0)) .outOfRange) fun dt =>
       (match offset_from_utc_datetime dt with
        | .ok o => .ok (.ok o)
        | .panic => .panic : RP Int)
   | none => .ok (.ok 0)) fun guessed_offset =>
  RP.bind (to_naive_datetime_with_offset p guessed_offset) fun datetime =>
  match from_local_datetime datetime with
  | .panic => .panic
  | .ok .none => .ok (.error .impossible)
  | .ok (.single t) =>
    (match check_offset p t with
     | .panic => .panic
     | .ok true => .ok (.ok t)
     | .ok false => .ok (.error .impossible))
  | .ok (.ambiguous min max) =>
    -- try to disambiguate two possible local dates by offset (and timestamp)
    match check_offset p min, check_offset p max with
    | .panic, _ => .panic
    | _, .panic => .panic
    | .ok false, .ok false => .ok (.error .impossible)
    | .ok false, .ok true => .ok (.ok max)
    | .ok true, .ok false => .ok (.ok min)
    | .ok true, .ok true => .ok (.error .notEnough)

/-- `FixedOffset::offset_from_utc_datetime` (`Utc`: 0): constant -/
def fixed_offset_from_utc (z : Int) : NaiveDT → Res Int := fun _ => .ok z

/-- `FixedOffset::from_local_datetime` as a `MappedLocalTime`: `Single` or `None` -/
def fixed_from_local (z : Int) (l : NaiveDT) : Res (Mapped Zoned) :=
  match Zoned.from_local_datetime z l with
  | .panic => .panic
  | .ok none => .ok .none
  | .ok (some t) => .ok (.single t)

end Parsed

/-- A zone with one transition: offset `o1` (seconds east) for every instant before `T` (seconds
since the epoch), `o2` from `T` on.  `o1 > o2`: the wall clock is set back at `T`, the local
seconds `T + o2 ..< T + o1` occur twice (fold).  `o1 < o2`: the local seconds `T + o1 ..< T + o2`
do not occur (gap).  The harness implements the same zone as a `chrono::TimeZone`
(harness/src/props/c14.rs, `StepZone`) by giving the two REQUIRED trait methods below and keeping
the trait's PROVIDED `from_local_datetime`. -/
structure StepZone where
  T : Int
  o1 : Int
  o2 : Int
  deriving DecidableEq, Repr

namespace StepZone

/-- the offset in force at the instant `u` (whole seconds since the epoch) -/
def offset_at (z : StepZone) (u : Int) : Int := if u < z.T then z.o1 else z.o2

/-- `TimeZone::offset_from_utc_datetime` (required method): the offset at `utc.and_utc().timestamp()` -/
def offset_from_utc_datetime (z : StepZone) (utc : NaiveDT) : Res Int :=
  (utc.timestamp).bind fun s => .ok (z.offset_at s)

/-- the offsets `o` for which the instant `s − o` reads `s` on the local clock, earliest instant
first; `s` = the local reading in whole seconds (`local.and_utc().timestamp()`; a leap-second
reading counts as its second :59).  First principles: the only possible offsets are `o1` and `o2`;
`o1` qualifies iff `s − o1` lies before `T`, `o2` iff `s − o2` does not (`candidates_iff` in
Proofs/ParsedZoneL.lean: `o ∈ list ↔ offset_at (s − o) = o`; when both qualify, `s − o1 < s − o2`). -/
def local_offsets (z : StepZone) (s : Int) : Mapped Int :=
  match decide (s - z.o1 < z.T), decide (z.T ≤ s - z.o2) with
  | true, true => .ambiguous z.o1 z.o2          -- implies `o1 > o2`
  | true, false => .single z.o1
  | false, true => .single z.o2
  | false, false => .none

/-- `TimeZone::offset_from_local_datetime` (required method) -/
def offset_from_local_datetime (z : StepZone) (loc : NaiveDT) : Res (Mapped Int) :=
  (loc.timestamp).bind fun s => .ok (z.local_offsets s)

/-- `TimeZone::from_local_datetime` — the PROVIDED trait method (src/offset/mod.rs):
`self.offset_from_local_datetime(local).and_then(|off| local.checked_sub_offset(off.fix())
   .map(|dt| DateTime::from_naive_utc_and_offset(dt, off)))`,
with `MappedLocalTime::and_then`: a candidate whose UTC reading leaves the representable range
(`checked_sub_offset` = `None`) turns the whole result into `None` — also for `Ambiguous` when only
one of the two fails.  This is the behaviour at the range ends on both sides (model and harness zone
use the same provided method), so they agree by construction. -/
def from_local_datetime (z : StepZone) (loc : NaiveDT) : Res (Mapped Zoned) :=
  (z.offset_from_local_datetime loc).bind fun m =>
  match m with
  | .none => .ok .none
  | .single o =>
    (loc.checked_sub_offset o).bind fun r =>
    .ok (match r with
      | some u => .single ⟨u, o⟩
      | none => .none)
  | .ambiguous a b =>
    (loc.checked_sub_offset a).bind fun ra =>
    (loc.checked_sub_offset b).bind fun rb =>
    .ok (match ra, rb with
      | some ua, some ub => .ambiguous ⟨ua, a⟩ ⟨ub, b⟩
      | _, _ => .none)

end StepZone

/-- `p.to_datetime_with_timezone(&StepZone { T, o1, o2 })` -/
def Parsed.to_datetime_with_step_zone (p : Parsed) (z : StepZone) : Parsed.RP Zoned :=
  Parsed.to_datetime_with_timezone_gen p z.offset_from_utc_datetime z.from_local_datetime

end Chrono.M
