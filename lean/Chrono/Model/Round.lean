/-
  Model of src/round.rs (`DurationRound`, `SubsecRound`).

  A date-time enters `duration_round/trunc/round_up` only through
  `naive.and_utc().timestamp_nanos_opt()` (an `Option<i64>`: nanoseconds since the Unix epoch on
  the wall-clock reading) and leaves through `original ± TimeDelta::nanoseconds(d)`.  The model is
  therefore on integers: it takes the stamp and the span (`duration.num_nanoseconds()`) and returns
  the signed number of nanoseconds that is added to `original`.  Every `i64` step is checked
  (`Res.panic` = what the overflow-checked build would do).

  `SubsecRound` reads only `self.nanosecond()` (0 ≤ frac < 2·10⁹, ≥ 10⁹ inside a leap second) and
  adds/subtracts less than one second; the model is on that field plus a carried second.
-/
import Chrono.Prim
import Chrono.Extracted.Round
import Chrono.Model.Delta

namespace Chrono.M.Round
open Chrono Chrono.M Chrono.Extracted.Round

/-- `enum RoundingError` -/
inductive RoundingError where
  | DurationExceedsTimestamp
  | DurationExceedsLimit
  | TimestampExceedsLimit
  deriving DecidableEq, Repr

/-- `Result<T, RoundingError>`; the `Ok` value is `original` moved by `d` nanoseconds (signed) -/
inductive RR where
  | ok (d : Int)
  | err (e : RoundingError)
  deriving DecidableEq, Repr

/-- Rust `x % y` on `i64`: panics for `y = 0` and for `i64::MIN % -1` -/
def remI64 (x y : Int) : Res Int :=
  if y = 0 then .panic else if x = I64_MIN ∧ y = -1 then .panic else .ok (Int.tmod x y)

/-- Rust `x % y` on `u32` (`x`, `y` ≥ 0): panics for `y = 0` -/
def remU32 (x y : Int) : Res Int := if y = 0 then .panic else .ok (Int.tmod x y)

/-- `original + TimeDelta::nanoseconds(n)` (`sg = 1`) / `original - TimeDelta::nanoseconds(n)`
(`sg = -1`): the signed nanosecond count of the `TimeDelta` that is built -/
def shift (sg n : Int) : Int :=
  let d := Delta.nanoseconds n
  sg * (d.secs * 1000000000 + d.nanos)

/-- the comparison that decides a tie: `delta_up <= delta_down` (operator extracted) -/
def tieUp (delta_up delta_down : Int) : Bool :=
  if TIE_UP then decide (delta_up ≤ delta_down) else decide (delta_up < delta_down)

/-- the same comparison in `round_subsecs` -/
def tieUpSubsec (delta_up delta_down : Int) : Bool :=
  if TIE_UP_SUBSEC then decide (delta_up ≤ delta_down) else decide (delta_up < delta_down)

/-- `DateTime<Utc>::timestamp_nanos_opt` on `(timestamp(), timestamp_subsec_nanos())` -/
def timestamp_nanos_opt (timestamp subsec : Int) : Option Int :=
  optI64 (timestamp * STAMP_SCALE + subsec)

/-- the stamp `DurationRound for DateTime<Tz>` works on: `overflowing_naive_local()` (UTC seconds plus
the offset, same sub-second field) read as if it were UTC.  `off = 0` for `NaiveDateTime`. -/
def wall_stamp (utc_secs subsec off : Int) : Option Int := timestamp_nanos_opt (utc_secs + off) subsec

/-- `fn duration_round(naive, original, duration)` -/
def duration_round (stamp : Option Int) (span : Option Int) : Res RR :=
  match span with
  | none => .ok (.err .DurationExceedsLimit)
  | some span =>
    if span ≤ SPAN_REFUSED_MAX_ROUND then .ok (.err .DurationExceedsLimit)
    else match stamp with
    | none => .ok (.err .TimestampExceedsLimit)
    | some stamp =>
      match remI64 stamp span with
      | .panic => .panic
      | .ok delta_down =>
        if delta_down = 0 then .ok (.ok 0)
        else
          let pair : Res (Int × Int) :=
            if delta_down < 0 then
              match Delta.absI64 delta_down with
              | .panic => .panic
              | .ok a => match ckI64 (span - a) with
                | .panic => .panic
                | .ok b => .ok (a, b)
            else match ckI64 (span - delta_down) with
              | .panic => .panic
              | .ok u => .ok (u, delta_down)
          match pair with
          | .panic => .panic
          | .ok (delta_up, delta_down) =>
            if tieUp delta_up delta_down then .ok (.ok (shift 1 delta_up))
            else .ok (.ok (shift (-1) delta_down))

/-- `fn duration_trunc(naive, original, duration)` -/
def duration_trunc (stamp : Option Int) (span : Option Int) : Res RR :=
  match span with
  | none => .ok (.err .DurationExceedsLimit)
  | some span =>
    if span ≤ SPAN_REFUSED_MAX_TRUNC then .ok (.err .DurationExceedsLimit)
    else match stamp with
    | none => .ok (.err .TimestampExceedsLimit)
    | some stamp =>
      match remI64 stamp span with
      | .panic => .panic
      | .ok delta_down =>
        if delta_down = 0 then .ok (.ok 0)                                   -- Ordering::Equal
        else if delta_down > 0 then .ok (.ok (shift (-1) delta_down))         -- Ordering::Greater
        else                                                                  -- Ordering::Less
          match Delta.absI64 delta_down with
          | .panic => .panic
          | .ok a => match ckI64 (span - a) with
            | .panic => .panic
            | .ok b => .ok (.ok (shift (-1) b))

/-- `fn duration_round_up(naive, original, duration)` -/
def duration_round_up (stamp : Option Int) (span : Option Int) : Res RR :=
  match span with
  | none => .ok (.err .DurationExceedsLimit)
  | some span =>
    if span ≤ SPAN_REFUSED_MAX_UP then .ok (.err .DurationExceedsLimit)
    else match stamp with
    | none => .ok (.err .TimestampExceedsLimit)
    | some stamp =>
      match remI64 stamp span with
      | .panic => .panic
      | .ok delta_down =>
        if delta_down = 0 then .ok (.ok 0)
        else if delta_down > 0 then
          match ckI64 (span - delta_down) with
          | .panic => .panic
          | .ok u => .ok (.ok (shift 1 u))
        else
          match Delta.absI64 delta_down with
          | .panic => .panic
          | .ok a => .ok (.ok (shift 1 a))

/-- which of the three operations -/
inductive Op where
  | trunc | round | up
  deriving DecidableEq, Repr

def run (op : Op) (stamp span : Option Int) : Res RR :=
  match op with
  | .trunc => duration_trunc stamp span
  | .round => duration_round stamp span
  | .up => duration_round_up stamp span

/-- `DurationRound for NaiveDateTime` (`off = 0`) and `for DateTime<Tz>`: the value is given by its UTC
seconds, sub-second field and offset; the duration by its `(secs, nanos)` -/
def on_datetime (op : Op) (utc_secs subsec off : Int) (duration : Delta) : Res RR :=
  run op (wall_stamp utc_secs subsec off) duration.num_nanoseconds

/-- How `original + d` reads back as a wall-clock stamp.  Outside a leap second it is `stamp + d`.
Inside one (`subsec ≥ 10⁹`) chrono's addition counts the leap second as a real second (property C07)
while timestamps do not: a move that leaves the leap second forwards reads back 10⁹ ns short. -/
def stamp_after (stamp subsec d : Int) : Int :=
  if subsec ≥ 1000000000 ∧ subsec + d ≥ 2000000000 then stamp + d - 1000000000 else stamp + d

/-! ### SubsecRound -/

/-- `const fn span_for_digits(digits: u16) -> u32` -/
def span_for_digits (digits : Nat) : Int := SPAN_TABLE.getD digits SPAN_DEFAULT

/-- `self ± TimeDelta::nanoseconds(|d|)` for `|d|` < 1 s, seen on the nanosecond field: the field
stays inside its second (`[0, 10⁹]`, or `[10⁹, 2·10⁹]` inside a leap second); reaching the upper end
is the next second with field 0.  Returns (new field, seconds carried).  This is the part of the time
arithmetic (property C07) that sub-second rounding uses; it is compared with the crate by the
harness on every case. -/
def apply_within (frac d : Int) : Int × Int :=
  let base := if frac ≥ 1000000000 then 1000000000 else 0
  let v := frac + d
  if v ≥ base + 1000000000 then (v - (base + 1000000000), 1) else (v, 0)

/-- `SubsecRound::round_subsecs` on `self.nanosecond()` -/
def round_subsecs (frac : Int) (digits : Nat) : Res (Int × Int) :=
  let span := span_for_digits digits
  match remU32 frac span with
  | .panic => .panic
  | .ok delta_down =>
    if delta_down > 0 then
      match ckU32 (span - delta_down) with
      | .panic => .panic
      | .ok delta_up =>
        if tieUpSubsec delta_up delta_down then .ok (apply_within frac (shift 1 delta_up))
        else .ok (apply_within frac (shift (-1) delta_down))
    else .ok (frac, 0)

/-- `SubsecRound::trunc_subsecs` on `self.nanosecond()` -/
def trunc_subsecs (frac : Int) (digits : Nat) : Res (Int × Int) :=
  let span := span_for_digits digits
  match remU32 frac span with
  | .panic => .panic
  | .ok delta_down =>
    if delta_down > 0 then .ok (apply_within frac (shift (-1) delta_down))
    else .ok (frac, 0)

end Chrono.M.Round
