/-
  Model of the month-stepping, field-replacement and week helpers of chrono (C08):
  src/naive/date/mod.rs   checked_add_months, checked_sub_months, diff_months, with_mdf,
                          with_year / with_month(0) / with_day(0) / with_ordinal(0) (impl Datelike),
                          years_since, from_weekday_of_month_opt, week
  src/naive/mod.rs        NaiveWeek::{checked_first_day, checked_last_day, checked_days,
                          first_day, last_day, days}
  src/month.rs            Month::num_days
  src/traits.rs           Datelike::{quarter, year_ce, num_days_in_month}
  Same names, same branch structure.  `u32` arguments are `Nat` (the harness only sends values of
  the `u32` range; the theorems hold for every `Nat`), `i32` arguments are `Int`.  `Res` = the
  overflow-checked / debug-assertion build.  The packed word is handled arithmetically as in
  Model/Date.lean: `(yof & !ORDINAL_MASK) | (o << 4)` is `yof - ordinal·16 + o·16`.
-/
import Chrono.Prim
import Chrono.Model.Date
import Chrono.Model.Weekday
import Chrono.Extracted.DateOps

namespace Chrono.M
open Chrono.Extracted Chrono.Extracted.DateOps

namespace Date

/-- `diff_months(self, months: i32)`: `(year·12 + month − 1).checked_add(months)`, Euclidean split,
clamp of the day to the length of the target month taken from the local `days` array -/
def diff_months (d : Date) (months : Int) : Res (Option Date) :=
  match d.month, d.day with
  | .ok m, .ok day =>
    match ckI32 (d.year * DM_MUL) with
    | .panic => .panic
    | .ok a =>
      match ckI32 (a + m) with
      | .panic => .panic
      | .ok b =>
        match ckI32 (b - DM_SUB) with
        | .panic => .panic
        | .ok c =>
          match optI32 (c + months) with
          | none => .ok none
          | some t =>
            let year := t / DM_DIV
            let month := (t % DM_REM).toNat + DM_ADD
            let flags := YearFlags.from_year year
            let feb_days := if YearFlags.ndays flags = DM_NDAYS_LEAP then DM_FEB_LEAP else DM_FEB_COMMON
            let idx := month - 1
            if idx < DM_DAYS.length then                      -- slice index
              let day_max := if idx = DM_FEB_INDEX then feb_days else DM_DAYS.getD idx 0
              let day := if day > day_max then day_max else day
              from_ymd_opt year month day
            else .panic
  | _, _ => .panic

/-- `checked_add_months(self, Months(n))`, `n : u32` -/
def checked_add_months (d : Date) (n : Nat) : Res (Option Date) :=
  if n = 0 then .ok (some d)
  else if (n : Int) ≤ I32_MAX then diff_months d n
  else .ok none

/-- `checked_sub_months(self, Months(n))`: `diff_months(-(n as i32))` -/
def checked_sub_months (d : Date) (n : Nat) : Res (Option Date) :=
  if n = 0 then .ok (some d)
  else if (n : Int) ≤ I32_MAX then diff_months d (-(n : Int))
  else .ok none

/-- `with_mdf`: debug-asserts equal year flags, looks the ordinal up, replaces the ordinal bits -/
def with_mdf (d : Date) (mdf : Nat) : Res (Option Date) :=
  if d.year_flags ≠ Mdf.year_flags mdf then .panic
  else
    match Mdf.ordinal mdf with
    | .panic => .panic
    | .ok none => .ok none
    | .ok (some ordinal) =>
      match from_yof (d.yof - d.ordinal * 16 + (ordinal : Int) * 16) with
      | .ok r => .ok (some r)
      | .panic => .panic

/-- `with_year(year: i32)`: keep month and day, take the flags of the new year, `from_mdf` -/
def with_year (d : Date) (year : Int) : Res (Option Date) :=
  match d.mdf with
  | .panic => .panic
  | .ok mdf => from_mdf year (Mdf.with_flags mdf (YearFlags.from_year year))

def with_month (d : Date) (month : Nat) : Res (Option Date) :=
  match d.mdf with
  | .panic => .panic
  | .ok mdf =>
    match Mdf.with_month mdf month with
    | none => .ok none
    | some m2 => d.with_mdf m2

/-- `month0.checked_add(1)?` on `u32`, then as `with_month` -/
def with_month0 (d : Date) (month0 : Nat) : Res (Option Date) :=
  if (month0 : Int) + 1 ≤ U32_MAX then d.with_month (month0 + 1) else .ok none

def with_day (d : Date) (day : Nat) : Res (Option Date) :=
  match d.mdf with
  | .panic => .panic
  | .ok mdf =>
    match Mdf.with_day mdf day with
    | none => .ok none
    | some m2 => d.with_mdf m2

def with_day0 (d : Date) (day0 : Nat) : Res (Option Date) :=
  if (day0 : Int) + 1 ≤ U32_MAX then d.with_day (day0 + 1) else .ok none

/-- `with_ordinal`: range guard, replace the ordinal bits, `yof & OL_MASK <= MAX_OL` -/
def with_ordinal (d : Date) (ordinal : Nat) : Res (Option Date) :=
  if ordinal = WO_ZERO ∨ ordinal > WO_MAX then .ok none
  else
    let yof := d.yof - d.ordinal * 16 + (ordinal : Int) * 16
    if (yof / 8) % 1024 * 8 ≤ DATE_MAX_OL then
      match from_yof yof with
      | .ok r => .ok (some r)
      | .panic => .panic
    else .ok none

def with_ordinal0 (d : Date) (ordinal0 : Nat) : Res (Option Date) :=
  if (ordinal0 : Int) + 1 ≤ U32_MAX then d.with_ordinal (ordinal0 + 1) else .ok none

/-- `years_since(base)`: `year − base.year`, minus one if `(month << 5 | day)` is smaller -/
def years_since (d base : Date) : Res (Option Int) :=
  match ckI32 (d.year - base.year), d.month, d.day, base.month, base.day with
  | .ok years, .ok m1, .ok d1, .ok m0, .ok d0 =>
    match (if m1 * 32 + d1 < m0 * 32 + d0 then ckI32 (years - 1) else .ok years) with
    | .panic => .panic
    | .ok years => if years ≥ 0 then .ok (some years) else .ok none
  | _, _, _, _, _ => .panic

/-- `from_weekday_of_month_opt(year: i32, month: u32, weekday, n: u8)` -/
def from_weekday_of_month_opt (year : Int) (month : Nat) (weekday : Weekday) (n : Nat) : Res (Option Date) :=
  if n = 0 then .ok none
  else
    match from_ymd_opt year month 1 with
    | .panic => .panic
    | .ok none => .ok none
    | .ok (some f) =>
      let first := f.weekday
      let first_to_dow := (7 + weekday.number_from_monday - first.number_from_monday) % 7
      let day := (n - 1) * 7 + first_to_dow + 1
      from_ymd_opt year month day

end Date

/-! ### NaiveWeek -/
structure NaiveWeek where
  date : Date
  start : Weekday
  deriving DecidableEq, Repr

def Date.week (d : Date) (start : Weekday) : NaiveWeek := ⟨d, start⟩

namespace NaiveWeek

def checked_first_day (w : NaiveWeek) : Res (Option Date) :=
  let start : Int := w.start.num_days_from_monday
  let ref_day : Int := w.date.weekday.num_days_from_monday
  let days := start - ref_day - (if start > ref_day then 7 else 0)
  w.date.add_days days

def checked_last_day (w : NaiveWeek) : Res (Option Date) :=
  let end_ : Int := w.start.pred.num_days_from_monday
  let ref_day : Int := w.date.weekday.num_days_from_monday
  let days := end_ - ref_day + (if end_ < ref_day then 7 else 0)
  w.date.add_days days

def checked_days (w : NaiveWeek) : Res (Option (Date × Date)) :=
  match w.checked_first_day, w.checked_last_day with
  | .ok (some first), .ok (some last) => .ok (some (first, last))
  | .panic, _ => .panic
  | _, .panic => .panic
  | _, _ => .ok none

/-- `expect(checked_first_day(), …)` -/
def first_day (w : NaiveWeek) : Res Date :=
  match w.checked_first_day with
  | .ok (some d) => .ok d
  | _ => .panic

def last_day (w : NaiveWeek) : Res Date :=
  match w.checked_last_day with
  | .ok (some d) => .ok d
  | _ => .panic

def days (w : NaiveWeek) : Res (Date × Date) :=
  match w.checked_days with
  | .ok (some r) => .ok r
  | _ => .panic

end NaiveWeek

/-- `Month::num_days(&self, year: i32) -> Option<u8>`: only the February arm looks at the year -/
def Month.num_days (m : Month) (year : Int) : Res (Option Nat) :=
  if m.toNat = 1 then
    match Date.from_ymd_opt year MN_FEB_MONTH MN_FEB_DAY with
    | .panic => .panic
    | .ok none => .ok none
    | .ok (some d) => .ok (some (if d.leap_year then MN_FEB_TRUE else MN_FEB_FALSE))
  else .ok (some (MN_DAYS.getD m.toNat 0))

namespace Date

/-- `Datelike::quarter`: `(month − 1).div_euclid(3) + 1` on `u32` -/
def quarter (d : Date) : Res Nat :=
  match d.month with
  | .panic => .panic
  | .ok m => if m < Q_SUB then .panic else .ok ((m - Q_SUB) / Q_DIV + Q_ADD)

/-- `Datelike::year_ce`: `(false, (1 − year) as u32)` before year 1, else `(true, year as u32)` -/
def year_ce (d : Date) : Res (Bool × Int) :=
  let year := d.year
  if year < 1 then
    match ckI32 (1 - year) with
    | .ok v => .ok (false, asU32 v)
    | .panic => .panic
  else .ok (true, asU32 year)

/-- `Datelike::num_days_in_month`: `Month::from_u32(month).unwrap().num_days(year).unwrap()` -/
def num_days_in_month (d : Date) : Res Nat :=
  match d.month with
  | .panic => .panic
  | .ok m =>
    match Month.from_u32 m with
    | none => .panic
    | some mo =>
      match mo.num_days d.year with
      | .ok (some n) => .ok n
      | _ => .panic

end Date

end Chrono.M
