/-
  Model of src/weekday.rs, src/month.rs, src/weekday_set.rs and the name scanners of
  src/format/scan.rs (`short_weekday`, `short_month0`, `short_or_long_*`) with the `FromStr`
  impls of src/format/mod.rs.  Byte strings are `List Nat`.
-/
import Chrono.Prim
import Chrono.Extracted.Names

namespace Chrono.M

inductive Weekday where
  | mon | tue | wed | thu | fri | sat | sun
  deriving DecidableEq, Repr

namespace Weekday
def all : List Weekday := [mon, tue, wed, thu, fri, sat, sun]

/-- the enum discriminant (`Mon = 0 … Sun = 6`) -/
def toNat : Weekday → Nat
  | mon => 0 | tue => 1 | wed => 2 | thu => 3 | fri => 4 | sat => 5 | sun => 6

def succ : Weekday → Weekday
  | mon => tue | tue => wed | wed => thu | thu => fri | fri => sat | sat => sun | sun => mon

def pred : Weekday → Weekday
  | mon => sun | tue => mon | wed => tue | thu => wed | fri => thu | sat => fri | sun => sat

/-- `days_since`: `if lhs < rhs { 7 + lhs - rhs } else { lhs - rhs }` on `u32` -/
def days_since (self other : Weekday) : Nat :=
  let lhs := self.toNat
  let rhs := other.toNat
  if lhs < rhs then 7 + lhs - rhs else lhs - rhs

def number_from_monday (w : Weekday) : Nat := w.days_since mon + 1
def number_from_sunday (w : Weekday) : Nat := w.days_since sun + 1
def num_days_from_monday (w : Weekday) : Nat := w.days_since mon
def num_days_from_sunday (w : Weekday) : Nat := w.days_since sun

/-- the `match n { 0 => Mon, … 6 => Sun, _ => None }` table shared by `TryFrom<u8>`,
`from_i64` and `from_u64` (three separately written tables in the source; the correspondence
exercises each) -/
def ofInt (n : Int) : Option Weekday :=
  if n = 0 then some mon else if n = 1 then some tue else if n = 2 then some wed
  else if n = 3 then some thu else if n = 4 then some fri else if n = 5 then some sat
  else if n = 6 then some sun else none

def try_from_u8 (n : Int) : Option Weekday := ofInt n
def from_i64 (n : Int) : Option Weekday := ofInt n
def from_u64 (n : Int) : Option Weekday := ofInt n
/-- `num_traits` default forwarding: unsigned types go through `from_u64`, signed through `from_i64` -/
def from_u32 (n : Int) : Option Weekday := from_u64 n
def from_i32 (n : Int) : Option Weekday := from_i64 n

def display (w : Weekday) : List Nat := Extracted.WEEKDAY_DISPLAY.getD w.toNat []
end Weekday

inductive Month where
  | jan | feb | mar | apr | may | jun | jul | aug | sep | oct | nov | dec
  deriving DecidableEq, Repr

namespace Month
def all : List Month := [jan, feb, mar, apr, may, jun, jul, aug, sep, oct, nov, dec]

/-- discriminant, `January = 0` -/
def toNat : Month → Nat
  | jan => 0 | feb => 1 | mar => 2 | apr => 3 | may => 4 | jun => 5
  | jul => 6 | aug => 7 | sep => 8 | oct => 9 | nov => 10 | dec => 11

def succ : Month → Month
  | jan => feb | feb => mar | mar => apr | apr => may | may => jun | jun => jul
  | jul => aug | aug => sep | sep => oct | oct => nov | nov => dec | dec => jan

def pred : Month → Month
  | jan => dec | feb => jan | mar => feb | apr => mar | may => apr | jun => may
  | jul => jun | aug => jul | sep => aug | oct => sep | nov => oct | dec => nov

def number_from_month : Month → Nat
  | jan => 1 | feb => 2 | mar => 3 | apr => 4 | may => 5 | jun => 6
  | jul => 7 | aug => 8 | sep => 9 | oct => 10 | nov => 11 | dec => 12

/-- the `match n { 1 => January, … 12 => December, _ => None }` table (`TryFrom<u8>`, `from_u32`) -/
def ofNumber (n : Int) : Option Month :=
  if n = 1 then some jan else if n = 2 then some feb else if n = 3 then some mar
  else if n = 4 then some apr else if n = 5 then some may else if n = 6 then some jun
  else if n = 7 then some jul else if n = 8 then some aug else if n = 9 then some sep
  else if n = 10 then some oct else if n = 11 then some nov else if n = 12 then some dec
  else none

def try_from_u8 (n : Int) : Option Month := ofNumber n
def from_u32 (n : Int) : Option Month := ofNumber n
/-- `from_u64`/`from_i64`: range-checked conversion to `u32`, then the table (after the fix of
finding #12; the pinned code narrowed with `n as u32`). -/
def from_u64 (n : Int) : Option Month := if inU32 n then from_u32 n else none
def from_i64 (n : Int) : Option Month := if inU32 n then from_u32 n else none
/-- `num_traits` default: `from_i32 n = from_i64 (n as i64)` -/
def from_i32 (n : Int) : Option Month := from_i64 n

/-- the pinned (defective) narrowing version, kept for the counterexample theorem -/
def from_u64_narrowing (n : Int) : Option Month := from_u32 (asU32 n)

def name (m : Month) : List Nat := Extracted.MONTH_NAMES.getD m.toNat []

/-- zero-based index → month, as in `FromStr for Month` -/
def ofIndex0 (n : Nat) : Option Month :=
  match n with
  | 0 => some jan | 1 => some feb | 2 => some mar | 3 => some apr | 4 => some may | 5 => some jun
  | 6 => some jul | 7 => some aug | 8 => some sep | 9 => some oct | 10 => some nov | 11 => some dec
  | _ => none
end Month

/-! ### name scanners (src/format/scan.rs) -/

/-- `b | 32` on a byte, written arithmetically -/
def or32 (b : Nat) : Nat := if (b / 32) % 2 = 0 then b + 32 else b

/-- `u8::to_ascii_lowercase` -/
def lowerB (b : Nat) : Nat := if 65 ≤ b ∧ b ≤ 90 then b + 32 else b

def lowerS (s : List Nat) : List Nat := s.map lowerB

/-- index of the first entry of `tbl` equal to `key` -/
def findIdx (tbl : List (List Nat)) (key : List Nat) : Option Nat :=
  let i := tbl.findIdx (· == key)
  if i < tbl.length then some i else none

inductive ScanErr where
  | tooShort | invalid
  deriving DecidableEq, Repr

/-- the common shape of `short_month0` / `short_weekday`: needs 3 bytes, matches them (`| 32`)
against the table, returns the rest and the index of the matching arm -/
def short_name (tbl : List (List Nat)) (s : List Nat) : Except ScanErr (List Nat × Nat) :=
  match s with
  | b0 :: b1 :: b2 :: rest =>
    match findIdx tbl [or32 b0, or32 b1, or32 b2] with
    | some i => .ok (rest, i)
    | none => .error .invalid
  | _ => .error .tooShort

def short_month0 (s : List Nat) : Except ScanErr (List Nat × Nat) :=
  short_name Extracted.SHORT_MONTHS s

def weekdayOfIdx (i : Nat) : Option Weekday := Weekday.all[i]?

def short_weekday (s : List Nat) : Except ScanErr (List Nat × Weekday) :=
  match short_name Extracted.SHORT_WEEKDAYS s with
  | .ok (rest, i) => match weekdayOfIdx i with
    | some w => .ok (rest, w)
    | none => .error .invalid
  | .error e => .error e

/-- consume `suffix` (case-insensitively) from the front of `s` if it is there -/
def eatSuffix (s suffix : List Nat) : List Nat :=
  if s.length ≥ suffix.length ∧ lowerS (s.take suffix.length) = lowerS suffix
  then s.drop suffix.length else s

def short_or_long_month0 (s : List Nat) : Except ScanErr (List Nat × Nat) :=
  match short_month0 s with
  | .ok (rest, i) => .ok (eatSuffix rest (Extracted.LONG_MONTH_SUFFIXES.getD i []), i)
  | .error e => .error e

def short_or_long_weekday (s : List Nat) : Except ScanErr (List Nat × Weekday) :=
  match short_weekday s with
  | .ok (rest, w) =>
    .ok (eatSuffix rest (Extracted.LONG_WEEKDAY_SUFFIXES.getD w.num_days_from_monday []), w)
  | .error e => .error e

/-- `FromStr for Weekday` -/
def Weekday.parse (s : List Nat) : Option Weekday :=
  match short_or_long_weekday s with
  | .ok ([], w) => some w
  | _ => none

/-- `FromStr for Month` -/
def Month.parse (s : List Nat) : Option Month :=
  match short_or_long_month0 s with
  | .ok ([], i) => Month.ofIndex0 i
  | _ => none

/-! ### WeekdaySet: a `u8` word, bit `i` = weekday with discriminant `i`, bit 7 always clear -/

namespace WeekdaySet

def single : Weekday → Nat
  | .mon => 1 | .tue => 2 | .wed => 4 | .thu => 8 | .fri => 16 | .sat => 32 | .sun => 64

def single_day (s : Nat) : Option Weekday :=
  if s = 1 then some .mon else if s = 2 then some .tue else if s = 4 then some .wed
  else if s = 8 then some .thu else if s = 16 then some .fri else if s = 32 then some .sat
  else if s = 64 then some .sun else none

/-- `!x` on a `u8` -/
def not8 (x : Nat) : Nat := 255 - x

def contains (s : Nat) (d : Weekday) : Bool := (s &&& single d) != 0
def intersection (a b : Nat) : Nat := a &&& b
def union (a b : Nat) : Nat := a ||| b
def symmetric_difference (a b : Nat) : Nat := a ^^^ b
def difference (a b : Nat) : Nat := a &&& not8 b
def is_subset (a b : Nat) : Bool := intersection a b == a

/-- `insert`: returns the new word and the "was newly inserted" flag -/
def insert (s : Nat) (d : Weekday) : Nat × Bool :=
  if contains s d then (s, false) else (s ||| single d, true)
def remove (s : Nat) (d : Weekday) : Nat × Bool :=
  if contains s d then (s &&& not8 (single d), true) else (s, false)

/-- `u8::count_ones` -/
def count_ones (x : Nat) : Nat :=
  x % 2 + x / 2 % 2 + x / 4 % 2 + x / 8 % 2 + x / 16 % 2 + x / 32 % 2 + x / 64 % 2 + x / 128 % 2
def len (s : Nat) : Nat := count_ones s
def is_empty (s : Nat) : Bool := len s == 0

/-- `u8::trailing_zeros` (8 for zero) -/
def trailing_zeros (x : Nat) : Nat :=
  if x % 2 = 1 then 0 else if x / 2 % 2 = 1 then 1 else if x / 4 % 2 = 1 then 2
  else if x / 8 % 2 = 1 then 3 else if x / 16 % 2 = 1 then 4 else if x / 32 % 2 = 1 then 5
  else if x / 64 % 2 = 1 then 6 else if x / 128 % 2 = 1 then 7 else 8
/-- `u8::leading_zeros` (8 for zero) -/
def leading_zeros (x : Nat) : Nat :=
  if x / 128 % 2 = 1 then 0 else if x / 64 % 2 = 1 then 1 else if x / 32 % 2 = 1 then 2
  else if x / 16 % 2 = 1 then 3 else if x / 8 % 2 = 1 then 4 else if x / 4 % 2 = 1 then 5
  else if x / 2 % 2 = 1 then 6 else if x % 2 = 1 then 7 else 8

def first (s : Nat) : Option Weekday :=
  if is_empty s then none else single_day (1 <<< trailing_zeros s)
def last (s : Nat) : Option Weekday :=
  if is_empty s then none else single_day (1 <<< (7 - leading_zeros s))

/-- `split_at`: (days before `weekday`, days from `weekday` on) -/
def split_at (s : Nat) (weekday : Weekday) : Nat × Nat :=
  let days_after := 128 - single weekday
  let days_before := days_after ^^^ 127
  (s &&& days_before, s &&& days_after)

structure Iter where
  days : Nat
  start : Weekday
  deriving DecidableEq, Repr

/-- `Iterator::next`; the `expect` cannot fire on words with bit 7 clear (proved), for other words
it is a panic -/
def Iter.next (it : Iter) : Res (Option Weekday × Iter) :=
  if is_empty it.days then .ok (none, it) else
  let (before, after) := split_at it.days it.start
  let days := if is_empty after then before else after
  match first days with
  | some d => .ok (some d, { it with days := (remove it.days d).1 })
  | none => .panic

def Iter.next_back (it : Iter) : Res (Option Weekday × Iter) :=
  if is_empty it.days then .ok (none, it) else
  let (before, after) := split_at it.days it.start
  let days := if is_empty before then after else before
  match last days with
  | some d => .ok (some d, { it with days := (remove it.days d).1 })
  | none => .panic

/-- drain from the front (fuel 8 ≥ number of members + 1) -/
def drainFront : Nat → Iter → Res (List Weekday)
  | 0, _ => .ok []
  | fuel + 1, it =>
    match it.next with
    | .ok (some d, it') => match drainFront fuel it' with
      | .ok ds => .ok (d :: ds)
      | .panic => .panic
    | .ok (none, _) => .ok []
    | .panic => .panic

def drainBack : Nat → Iter → Res (List Weekday)
  | 0, _ => .ok []
  | fuel + 1, it =>
    match it.next_back with
    | .ok (some d, it') => match drainBack fuel it' with
      | .ok ds => .ok (d :: ds)
      | .panic => .panic
    | .ok (none, _) => .ok []
    | .panic => .panic

/-- run a schedule of front (`true`) / back (`false`) pulls; returns the front items and the back
items, each in the order they were produced, and the iterator that is left -/
def runSchedule : List Bool → Iter → Res (List Weekday × List Weekday × Iter)
  | [], it => .ok ([], [], it)
  | b :: bs, it =>
    match (if b then it.next else it.next_back) with
    | .ok (r, it') => match runSchedule bs it' with
      | .ok (fs, ks, itf) =>
        match r with
        | some d => if b then .ok (d :: fs, ks, itf) else .ok (fs, d :: ks, itf)
        | none => .ok (fs, ks, itf)
      | .panic => .panic
    | .panic => .panic

def from_list (ds : List Weekday) : Nat := ds.foldl (fun acc d => acc ||| single d) 0

end WeekdaySet
end Chrono.M
