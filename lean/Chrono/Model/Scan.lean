/-
  Model of src/format/scan.rs (the scanning primitives of the parser) on UTF-8 byte strings
  (`List Nat`).  Rust works on `&str` (valid UTF-8) and slices it at byte offsets; every primitive
  here returns the unconsumed suffix, so "the slice index is a char boundary" becomes "the returned
  suffix is a suffix at a char boundary" (see Props/C15 for the boundary theorems).
  Name scanners (`short_month0`, `short_weekday`, `short_or_long_*`) are in Model/Weekday.lean.
-/
import Chrono.Prim
import Chrono.Model.Weekday
namespace Chrono.M

/-- `ParseErrorKind` -/
inductive PErr where
  | outOfRange | impossible | notEnough | invalid | tooShort | tooLong | badFormat
  deriving DecidableEq, Repr

def PErr.code : PErr → String
  | .outOfRange => "OutOfRange" | .impossible => "Impossible" | .notEnough => "NotEnough"
  | .invalid => "Invalid" | .tooShort => "TooShort" | .tooLong => "TooLong" | .badFormat => "BadFormat"

abbrev PRes (α : Type) := Except PErr α

namespace Scan

def isDigit (b : Nat) : Bool := decide (48 ≤ b) && decide (b ≤ 57)
def isAsciiAlpha (b : Nat) : Bool := (decide (65 ≤ b) && decide (b ≤ 90)) || (decide (97 ≤ b) && decide (b ≤ 122))

/-- byte length of the Unicode `White_Space` character at the head of a UTF-8 string, 0 if the
head is not white space.  (U+0009–000D, 0020, 0085, 00A0, 1680, 2000–200A, 2028, 2029, 202F, 205F,
3000 — what `char::is_whitespace` accepts.) -/
def wsLen : List Nat → Nat
  | b :: rest =>
    if (9 ≤ b ∧ b ≤ 13) ∨ b = 32 then 1
    else match b, rest with
      | 194, c :: _ => if c = 133 ∨ c = 160 then 2 else 0
      | 225, 154 :: 128 :: _ => 3
      | 226, 128 :: c :: _ => if (128 ≤ c ∧ c ≤ 138) ∨ c = 168 ∨ c = 169 ∨ c = 175 then 3 else 0
      | 226, 129 :: 159 :: _ => 3
      | 227, 128 :: 128 :: _ => 3
      | _, _ => 0
  | [] => 0

/-- `str::trim_start` (fuel = length) -/
def trimStartAux : Nat → List Nat → List Nat
  | 0, s => s
  | fuel + 1, s => let n := wsLen s; if n = 0 then s else trimStartAux fuel (s.drop n)
def trimStart (s : List Nat) : List Nat := trimStartAux s.length s

/-- byte length of the UTF-8 character starting with lead byte `b` (valid UTF-8 assumed) -/
def charLen (b : Nat) : Nat := if b < 128 then 1 else if b < 224 then 2 else if b < 240 then 3 else 4

/-- `s.trim_start_matches(|c| c.is_ascii_digit())` -/
def dropDigits : List Nat → List Nat
  | b :: rest => if isDigit b then dropDigits rest else b :: rest
  | [] => []

/-- `scan::number(s, min, max)`: `max = none` stands for `usize::MAX` -/
def numberAux : List Nat → Nat → Nat → Option Nat → Int → PRes (List Nat × Int)
  | s, i, min, max, n =>
    match max with
    | some m => if i ≥ m then .ok (s, n) else step s i min max n
    | none => step s i min max n
where
  step : List Nat → Nat → Nat → Option Nat → Int → PRes (List Nat × Int)
  | [], _, _, _, n => .ok ([], n)
  | c :: rest, i, min, max, n =>
    if !isDigit c then
      if i < min then .error .invalid else .ok (c :: rest, n)
    else
      let n' := n * 10 + (c - 48 : Nat)
      if n' > I64_MAX then .error .outOfRange else numberAux rest (i + 1) min max n'

def number (s : List Nat) (min : Nat) (max : Option Nat) : PRes (List Nat × Int) :=
  if s.length < min then .error .tooShort else numberAux s 0 min max 0

def SCALE : List Int := [0, 100000000, 10000000, 1000000, 100000, 10000, 1000, 100, 10, 1]

/-- `scan::nanosecond` -/
def nanosecond (s : List Nat) : PRes (List Nat × Int) :=
  match number s 1 (some 9) with
  | .error e => .error e
  | .ok (rest, v) =>
    let consumed := s.length - rest.length
    let v := v * SCALE.getD consumed 0
    if v > I64_MAX then .error .outOfRange else .ok (dropDigits rest, v)

/-- `scan::nanosecond_fixed(s, digits)` -/
def nanosecond_fixed (s : List Nat) (digits : Nat) : PRes (List Nat × Int) :=
  match number s digits (some digits) with
  | .error e => .error e
  | .ok (rest, v) =>
    let v := v * SCALE.getD digits 0
    if v > I64_MAX then .error .outOfRange else .ok (rest, v)

/-- `scan::char(s, c1)` -/
def char (s : List Nat) (c1 : Nat) : PRes (List Nat) :=
  match s with
  | c :: rest => if c = c1 then .ok rest else .error .invalid
  | [] => .error .tooShort

/-- `scan::space` -/
def space (s : List Nat) : PRes (List Nat) :=
  let s' := trimStart s
  if s'.length < s.length then .ok s' else if s.isEmpty then .error .tooShort else .error .invalid

/-- `scan::colon_or_space`: `trim_start_matches(|c| c == ':' || c.is_whitespace())` -/
def colonOrSpaceAux : Nat → List Nat → List Nat
  | 0, s => s
  | fuel + 1, s =>
    match s with
    | 58 :: rest => colonOrSpaceAux fuel rest
    | _ => let n := wsLen s; if n = 0 then s else colonOrSpaceAux fuel (s.drop n)
def colon_or_space (s : List Nat) : List Nat := colonOrSpaceAux s.length s

/-- which colon-consumer `timezone_offset` is called with -/
inductive ColonMode where
  | charColon      -- `|s| scan::char(s, b':')`
  | colonOrSpace   -- `scan::colon_or_space`
  | nothing        -- `|s| Ok(s)`
  deriving DecidableEq, Repr

def consumeColon (m : ColonMode) (s : List Nat) : PRes (List Nat) :=
  match m with
  | .charColon => char s 58
  | .colonOrSpace => .ok (colon_or_space s)
  | .nothing => .ok s

/-- `scan::timezone_offset(s, consume_colon, allow_zulu, allow_missing_minutes, allow_tz_minus_sign)` -/
def timezone_offset (s : List Nat) (cm : ColonMode) (allow_zulu allow_missing_minutes allow_tz_minus_sign : Bool) :
    PRes (List Nat × Int) :=
  let zulu : Option (List Nat) :=
    if allow_zulu then match s with
      | 90 :: rest => some rest | 122 :: rest => some rest | _ => none
    else none
  match zulu with
  | some rest => .ok (rest, 0)
  | none =>
    let sign : PRes (List Nat × Bool) :=
      match s with
      | 43 :: rest => .ok (rest, false)
      | 45 :: rest => .ok (rest, true)
      | 226 :: 136 :: 146 :: rest => if allow_tz_minus_sign then .ok (rest, true) else .error .invalid
      | _ :: _ => .error .invalid
      | [] => .error .tooShort
    match sign with
    | .error e => .error e
    | .ok (s, negative) =>
      match s with
      | h1 :: h2 :: s =>
        if isDigit h1 && isDigit h2 then
          let hours : Int := ((h1 - 48) * 10 + (h2 - 48) : Nat)
          match consumeColon cm s with
          | .error e => .error e
          | .ok s =>
            let mins : PRes Int :=
              match s with
              | m1 :: m2 :: _ =>
                if 48 ≤ m1 ∧ m1 ≤ 53 ∧ isDigit m2 then .ok (((m1 - 48) * 10 + (m2 - 48) : Nat) : Int)
                else if 54 ≤ m1 ∧ m1 ≤ 57 ∧ isDigit m2 then .error .outOfRange
                else .error .invalid
              | _ => if allow_missing_minutes then .ok 0 else .error .tooShort
            match mins with
            | .error e => .error e
            | .ok minutes =>
              let rest : PRes (List Nat) :=
                if s.length ≥ 2 then .ok (s.drop 2) else if s.length = 0 then .ok s else .error .tooShort
              match rest with
              | .error e => .error e
              | .ok s =>
                let seconds := hours * 3600 + minutes * 60
                .ok (s, if negative then -seconds else seconds)
        else .error .invalid
      | _ => .error .tooShort

def takeAlpha : List Nat → List Nat × List Nat
  | b :: rest => if isAsciiAlpha b then let (a, r) := takeAlpha rest; (b :: a, r) else ([], b :: rest)
  | [] => ([], [])

/-- `scan::timezone_offset_2822` -/
def timezone_offset_2822 (s : List Nat) : PRes (List Nat × Int) :=
  let (name, rest) := takeAlpha s
  if name.length > 0 then
    let low := lowerS name
    let is (t : String) : Bool := low == asciiBytes t
    if is "gmt" || is "ut" || is "z" then .ok (rest, 0)
    else if is "edt" then .ok (rest, -4 * 3600)
    else if is "est" || is "cdt" then .ok (rest, -5 * 3600)
    else if is "cst" || is "mdt" then .ok (rest, -6 * 3600)
    else if is "mst" || is "pdt" then .ok (rest, -7 * 3600)
    else if is "pst" then .ok (rest, -8 * 3600)
    else match name with
      | [c] =>
        if (97 ≤ c ∧ c ≤ 105) ∨ (107 ≤ c ∧ c ≤ 121) ∨ (65 ≤ c ∧ c ≤ 73) ∨ (75 ≤ c ∧ c ≤ 89)
        then .ok (rest, 0) else .error .invalid
      | _ => .error .invalid
  else timezone_offset s .nothing false false false

/-- `scan::comment_2822`: state machine over the bytes after `trim_start`;
state: `none` = Start, `some (depth, escaped)` -/
def commentAux : List Nat → Option (Nat × Bool) → PRes (List Nat)
  | [], _ => .error .tooShort
  | c :: rest, st =>
    match st with
    | none => if c = 40 then commentAux rest (some (1, false)) else .error .invalid
    | some (depth, true) => commentAux rest (some (depth, false))
    | some (depth, false) =>
      if c = 41 then (if depth = 1 then .ok rest else commentAux rest (some (depth - 1, false)))
      else if c = 92 then commentAux rest (some (depth, true))
      else if c = 40 then commentAux rest (some (depth + 1, false))
      else commentAux rest (some (depth, false))
def comment_2822 (s : List Nat) : PRes (List Nat) := commentAux (trimStart s) none

end Scan
end Chrono.M
