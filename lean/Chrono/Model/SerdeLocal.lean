/-
  `Deserialize for DateTime<Local>` against a ZONE VALUE (instead of the total offset function
  `tzOff` of `DateTimeStr.deserialize_local`): `with_timezone(&Local)` is
  `Local.from_utc_datetime(&dt.naive_utc())`, whose offset comes from
  `<Local as TimeZone>::offset_from_utc_datetime` — the `unwrap` that finding F32 reached.  The zone's
  answer is `Res`-valued here (`M.TzL.local_offset_from_utc_datetime`): a `panic` of the zone lookup
  is a `panic` of the deserializer.
-/
import Chrono.Model.SerdeStr
import Chrono.Model.TzLocal
import Chrono.Spec.InstantSpec
namespace Chrono.M.Serde.DateTimeStr
open Chrono Chrono.M Chrono.Spec

def deserialize_local_zone (zn : Tz.Zone) (s : List Nat) : Res (SR Zoned) :=
  (visit_str s).bind fun r =>
    match r with
    | .err => .ok .err
    | .ok z =>
      match TzL.local_offset_from_utc_datetime zn (instSecs z.utc) with
      | .panic => .panic
      | .ok o => .ok (.ok (z.with_timezone o))

end Chrono.M.Serde.DateTimeStr
