/-
  Model of the derived `Ord` of `IsoWeek` (src/naive/isoweek.rs: `#[derive(PartialEq, Eq, PartialOrd,
  Ord, …)] pub struct IsoWeek { ywf: i32 }` — one `i32` field, so the derived order is the order of
  that field) and of `a.iso_week().cmp(&b.iso_week())` on two dates.
-/
import Chrono.Model.Date
namespace Chrono.M

/-- derived `Ord` on the single field `ywf`: -1 / 0 / 1 (`Ordering as i32`) -/
def IsoWeek.cmp (a b : Int) : Int := if a < b then -1 else if a > b then 1 else 0

/-- `a.iso_week().cmp(&b.iso_week())` -/
def Date.isocmp (a b : Date) : Res Int :=
  match a.iso_week, b.iso_week with
  | .ok x, .ok y => .ok (IsoWeek.cmp x y)
  | _, _ => .panic

end Chrono.M
