/-
  The shape of the bodies of the sixteen serde timestamp modules, as DATA.

  tools/extractors/serde_ts.py parses, on every run, the bodies of `serialize`, `deserialize`, `visit_i64`,
  `visit_u64`, `visit_some`, `visit_none`, `visit_unit` of every `ts_*` module of src/datetime/serde.rs and
  src/naive/datetime/serde.rs (a full parse: anything it does not recognise makes the extraction fail) and
  writes them as terms of the types below into lean/Chrono/Extracted/SerdeBodies.lean: every operator (`/`
  vs `%` vs `*`, `div_euclid` vs `rem_euclid`), every cast (`as i64`, `as u32`, `as u64`), every comparison
  (`>` vs `>=` …), every callee (which `from_timestamp*` constructor, `.map(|dt| dt.naive_utc())` or not,
  which timestamp accessor, `.and_utc()` or not, `.ok_or(..)?` or not, which `serialize_*` / `deserialize_*`
  method is requested, with which visitor, followed by which `.map(..)`).  Model/SerdeTsEval.lean gives these
  terms their meaning; `Props.C20.ts_bodies_ok` proves that the extracted terms MEAN the model functions
  of Model/SerdeTs.lean.

  No imports: this file is imported by a generated file.
-/
namespace Chrono.M.Serde.Code

/-- the integer types that occur -/
inductive Ty where
  | i64 | u64 | u32
  deriving DecidableEq, Repr

/-- integer expressions over the visitor's parameter `value` -/
inductive E where
  | value                      -- `value`
  | lit (n : Int)              -- an integer literal
  | i64Max                     -- `i64::MAX`
  | div (a b : E)              -- `a / b`
  | rem (a b : E)              -- `a % b`
  | mul (a b : E)              -- `a * b`
  | divEuclid (a b : E)        -- `a.div_euclid(b)`
  | remEuclid (a b : E)        -- `a.rem_euclid(b)`
  | cast (a : E) (t : Ty)      -- `a as t`
  deriving DecidableEq, Repr

inductive Cmp where
  | gt | ge | lt | le
  deriving DecidableEq, Repr

/-- the `DateTime::…` constructor called -/
inductive Ctor where
  | from_timestamp | from_timestamp_millis | from_timestamp_micros
  deriving DecidableEq, Repr

/-- a `visit_i64` / `visit_u64` body -/
inductive Visit where
  /-- `DateTime::c(args)[.map(|dt| dt.naive_utc())].ok_or_else(|| invalid_ts(value))` -/
  | build (c : Ctor) (args : List E) (mapNaiveUtc : Bool)
  /-- `if a cmp b { Err(invalid_ts(value)) } else { els }` -/
  | refuseIf (cmp : Cmp) (a b : E) (els : Visit)
  deriving DecidableEq, Repr

/-- the timestamp accessor `serialize` calls -/
inductive Acc where
  | timestamp | timestamp_millis | timestamp_micros | timestamp_nanos_opt
  deriving DecidableEq, Repr

/-- `serde::Serializer` methods -/
inductive SerM where
  | serialize_bool | serialize_i8 | serialize_i16 | serialize_i32 | serialize_i64 | serialize_i128
  | serialize_u8 | serialize_u16 | serialize_u32 | serialize_u64 | serialize_u128
  | serialize_f32 | serialize_f64 | serialize_char | serialize_str | serialize_bytes
  | serialize_none | serialize_some | serialize_unit | collect_str
  deriving DecidableEq, Repr

/-- `serializer.m([&]dt[.and_utc()].acc()[.ok_or(ser::Error::custom("…"))?])` -/
structure SerCall where
  m : SerM
  andUtc : Bool
  acc : Acc
  okOrTry : Bool
  deriving DecidableEq, Repr

/-- a `serialize` body -/
inductive Ser where
  /-- the body is the call -/
  | plain (c : SerCall)
  /-- `match *opt { Some(ref dt) => c, None => serializer.none() }` -/
  | matchOpt (c : SerCall) (none : SerM)
  deriving DecidableEq, Repr

/-- `serde::Deserializer` methods -/
inductive DeM where
  | deserialize_any | deserialize_bool | deserialize_i8 | deserialize_i16 | deserialize_i32
  | deserialize_i64 | deserialize_i128 | deserialize_u8 | deserialize_u16 | deserialize_u32
  | deserialize_u64 | deserialize_u128 | deserialize_f32 | deserialize_f64 | deserialize_char
  | deserialize_str | deserialize_string | deserialize_bytes | deserialize_byte_buf
  | deserialize_option | deserialize_unit | deserialize_seq | deserialize_map
  | deserialize_identifier | deserialize_ignored_any
  deriving DecidableEq, Repr

/-- the visitor structs -/
inductive Vis where
  | SecondsTimestampVisitor | MilliSecondsTimestampVisitor | MicroSecondsTimestampVisitor
  | NanoSecondsTimestampVisitor
  | OptionSecondsTimestampVisitor | OptionMilliSecondsTimestampVisitor
  | OptionMicroSecondsTimestampVisitor | OptionNanoSecondsTimestampVisitor
  deriving DecidableEq, Repr

/-- what follows `d.deserialize_x(V)` -/
inductive Post where
  | none                    -- nothing
  | mapSome                 -- `.map(Some)`
  | mapWithTzUtc            -- `.map(|dt| dt.with_timezone(&Utc))`
  | mapOptMapWithTzUtc      -- `.map(|opt| opt.map(|dt| dt.with_timezone(&Utc)))`
  deriving DecidableEq, Repr

/-- a `deserialize` / `visit_some` body: `d.m(visitor)post` -/
structure De where
  m : DeM
  visitor : Vis
  post : Post
  deriving DecidableEq, Repr

/-- a `visit_none` / `visit_unit` body -/
inductive Unitish where
  | okNone                  -- `Ok(None)`
  deriving DecidableEq, Repr

end Chrono.M.Serde.Code
