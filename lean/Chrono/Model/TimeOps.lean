/-
  The operator impls of `NaiveTime` (src/naive/time/mod.rs) that `Model/Time.lean` does not already
  carry: `AddAssign` / `SubAssign` for `TimeDelta` and `core::time::Duration`, `Add` / `Sub` of a
  `FixedOffset`, and `Sub<NaiveTime>`.  (`impl Add<TimeDelta>` = `Time.add`, `impl Sub<TimeDelta>` =
  `Time.sub`, `impl Add/Sub<Duration>` = `Time.add_std` / `Time.sub_std` are in Model/Time.lean.)
  One definition per impl, same body shape.
-/
import Chrono.Model.Time
namespace Chrono.M.Time

/-- `impl AddAssign<TimeDelta> for NaiveTime`: `*self = self.add(rhs)` -/
def add_assign (t : Time) (rhs : Delta) : Res Time := add t rhs
/-- `impl SubAssign<TimeDelta> for NaiveTime`: `*self = self.sub(rhs)` -/
def sub_assign (t : Time) (rhs : Delta) : Res Time := sub t rhs
/-- `impl AddAssign<Duration> for NaiveTime`: `*self = *self + rhs` -/
def add_assign_std (t : Time) (secs nanos : Int) : Res Time := add_std t secs nanos
/-- `impl SubAssign<Duration> for NaiveTime`: `*self = *self - rhs` -/
def sub_assign_std (t : Time) (secs nanos : Int) : Res Time := sub_std t secs nanos

/-- `impl Add<FixedOffset> for NaiveTime`: `self.overflowing_add_offset(rhs).0` -/
def add_offset (t : Time) (off : Int) : Res Time := (overflowing_add_offset t off).bind fun p => .ok p.1
/-- `impl Sub<FixedOffset> for NaiveTime`: `self.overflowing_sub_offset(rhs).0` -/
def sub_offset (t : Time) (off : Int) : Res Time := (overflowing_sub_offset t off).bind fun p => .ok p.1

/-- `impl Sub<NaiveTime> for NaiveTime`: `self.signed_duration_since(rhs)` -/
def sub_time (a b : Time) : Res Delta := signed_duration_since a b

end Chrono.M.Time
