/-
  Model of src/format/parse.rs: the item-driven parser `parse_internal`, `parse`,
  `parse_and_remainder`, `parse_rfc2822`, `parse_rfc3339` (strict) and `parse_rfc3339_relaxed`.
  Input text is a UTF-8 byte string; a successful run returns the updated `Parsed` and the
  unconsumed suffix, a failing one the error kind (the partially filled record is not observed).
-/
import Chrono.Model.Items
import Chrono.Model.ParsedCore
import Chrono.Extracted.Consts
namespace Chrono.M
namespace Parse
open Scan

/-- width / signedness / setter of a numeric item (the table in `parse_internal`) -/
def numericSpec (n : Numeric) : Option Nat × Bool × (Parsed → Int → PRes Parsed) :=
  match n with
  | .year => (some 4, true, Parsed.set_year)
  | .yearDiv100 => (some 2, false, Parsed.set_year_div_100)
  | .yearMod100 => (some 2, false, Parsed.set_year_mod_100)
  | .isoYear => (some 4, true, Parsed.set_isoyear)
  | .isoYearDiv100 => (some 2, false, Parsed.set_isoyear_div_100)
  | .isoYearMod100 => (some 2, false, Parsed.set_isoyear_mod_100)
  | .quarter => (some 1, false, Parsed.set_quarter)
  | .month => (some 2, false, Parsed.set_month)
  | .day => (some 2, false, Parsed.set_day)
  | .weekFromSun => (some 2, false, Parsed.set_week_from_sun)
  | .weekFromMon => (some 2, false, Parsed.set_week_from_mon)
  | .isoWeek => (some 2, false, Parsed.set_isoweek)
  | .numDaysFromSun => (some 1, false, Parsed.set_weekday_with_num_days_from_sunday)
  | .weekdayFromMon => (some 1, false, Parsed.set_weekday_with_number_from_monday)
  | .ordinal => (some 3, false, Parsed.set_ordinal)
  | .hour => (some 2, false, Parsed.set_hour)
  | .hour12 => (some 2, false, Parsed.set_hour12)
  | .minute => (some 2, false, Parsed.set_minute)
  | .second => (some 2, false, Parsed.set_second)
  | .nanosecond => (some 9, false, Parsed.set_nanosecond)
  | .timestamp => (none, true, Parsed.set_timestamp)       -- width usize::MAX; signed since fix #15

def parseNumeric (p : Parsed) (s : List Nat) (n : Numeric) : PRes (Parsed × List Nat) :=
  let (width, signed, set) := numericSpec n
  let s := trimStart s
  let r : PRes (List Nat × Int) :=
    if signed then
      match s with
      | 45 :: rest =>
        match number rest 1 none with
        | .ok (s', v) => .ok (s', -v)          -- `0i64.checked_sub(v)`: v ≥ 0, never overflows
        | .error e => .error e
      | 43 :: rest => number rest 1 none
      | _ => number s 1 width
    else number s 1 width
  match r with
  | .error e => .error e
  | .ok (s', v) => match set p v with
    | .ok p' => .ok (p', s')
    | .error e => .error e

/-- consume a whole-string prefix `lit` -/
def parseLiteral (s lit : List Nat) : PRes (List Nat) :=
  if s.length < lit.length then .error .tooShort
  else if s.take lit.length ≠ lit then .error .invalid
  else .ok (s.drop lit.length)

/-- `s.trim_start_matches(|c| !c.is_whitespace())`: skip whole characters up to white space -/
def skipNonWsAux : Nat → List Nat → List Nat
  | 0, s => s
  | fuel + 1, s =>
    match s with
    | [] => []
    | b :: _ => if wsLen s ≠ 0 then s else skipNonWsAux fuel (s.drop (charLen b))
def skipNonWs (s : List Nat) : List Nat := skipNonWsAux s.length s

def setOffset (p : Parsed) (r : PRes (List Nat × Int)) : PRes (Parsed × List Nat) :=
  match r with
  | .error e => .error e
  | .ok (s', off) => match Parsed.set_offset p off with
    | .ok p' => .ok (p', s')
    | .error e => .error e

def setNano (p : Parsed) (r : PRes (List Nat × Int)) : PRes (Parsed × List Nat) :=
  match r with
  | .error e => .error e
  | .ok (s', v) => match Parsed.set_nanosecond p v with
    | .ok p' => .ok (p', s')
    | .error e => .error e

/-- the `Fixed` items other than `RFC2822` / `RFC3339` -/
def parseFixedBase (p : Parsed) (s : List Nat) (f : Fixed) : PRes (Parsed × List Nat) :=
  match f with
  | .shortMonthName =>
    match short_month0 s with
    | .ok (s', m0) => (Parsed.set_month p ((m0 : Int) + 1)).map fun p' => (p', s')
    | .error .tooShort => .error .tooShort
    | .error .invalid => .error .invalid
  | .longMonthName =>
    match short_or_long_month0 s with
    | .ok (s', m0) => (Parsed.set_month p ((m0 : Int) + 1)).map fun p' => (p', s')
    | .error .tooShort => .error .tooShort
    | .error .invalid => .error .invalid
  | .shortWeekdayName =>
    match short_weekday s with
    | .ok (s', w) => (Parsed.set_weekday p w).map fun p' => (p', s')
    | .error .tooShort => .error .tooShort
    | .error .invalid => .error .invalid
  | .longWeekdayName =>
    match short_or_long_weekday s with
    | .ok (s', w) => (Parsed.set_weekday p w).map fun p' => (p', s')
    | .error .tooShort => .error .tooShort
    | .error .invalid => .error .invalid
  | .lowerAmPm | .upperAmPm =>
    match s with
    | a :: b :: rest =>
      if or32 a = 97 ∧ or32 b = 109 then (Parsed.set_ampm p false).map fun p' => (p', rest)
      else if or32 a = 112 ∧ or32 b = 109 then (Parsed.set_ampm p true).map fun p' => (p', rest)
      else .error .invalid
    | _ => .error .tooShort
  | .nanosecond | .nanosecond3 | .nanosecond6 | .nanosecond9 =>
    match s with
    | 46 :: rest => setNano p (nanosecond rest)
    | _ => .ok (p, s)
  | .nanosecond3NoDot => if s.length < 3 then .error .tooShort else setNano p (nanosecond_fixed s 3)
  | .nanosecond6NoDot => if s.length < 6 then .error .tooShort else setNano p (nanosecond_fixed s 6)
  | .nanosecond9NoDot => if s.length < 9 then .error .tooShort else setNano p (nanosecond_fixed s 9)
  | .timezoneName => .ok (p, skipNonWs s)
  | .timezoneOffsetColon | .timezoneOffsetDoubleColon | .timezoneOffsetTripleColon | .timezoneOffset =>
    setOffset p (timezone_offset (trimStart s) .colonOrSpace false false true)
  | .timezoneOffsetColonZ | .timezoneOffsetZ =>
    setOffset p (timezone_offset (trimStart s) .colonOrSpace true false true)
  | .timezoneOffsetPermissive =>
    setOffset p (timezone_offset (trimStart s) .colonOrSpace true true true)
  | .rfc2822 | .rfc3339 => .error .badFormat       -- handled by the caller

/-- one item, `RFC2822`/`RFC3339` excluded -/
def parseItemBase (p : Parsed) (s : List Nat) (it : Item) : PRes (Parsed × List Nat) :=
  match it with
  | .literal lit => (parseLiteral s lit).map fun s' => (p, s')
  | .space _ => .ok (p, trimStart s)
  | .numeric n _ => parseNumeric p s n
  | .fixed f => parseFixedBase p s f
  | .error => .error .badFormat

def parseItemsBase : Parsed → List Nat → List Item → PRes (Parsed × List Nat)
  | p, s, [] => .ok (p, s)
  | p, s, it :: rest =>
    match parseItemBase p s it with
    | .ok (p', s') => parseItemsBase p' s' rest
    | .error e => .error e

/-! ### RFC 3339 -/

def setField (set : Parsed → Int → PRes Parsed) (p : Parsed) (r : PRes (List Nat × Int)) :
    PRes (Parsed × List Nat) :=
  match r with
  | .error e => .error e
  | .ok (s', v) => (set p v).map fun p' => (p', s')

def MAX_RFC3339_OFFSET : Int := Chrono.Extracted.MAX_RFC3339_OFFSET

/-- `parse_rfc3339` (strict) -/
def parse_rfc3339 (p : Parsed) (s : List Nat) : PRes (Parsed × List Nat) := do
  let (p, s) ← setField Parsed.set_year p (number s 4 (some 4))
  let s ← char s 45
  let (p, s) ← setField Parsed.set_month p (number s 2 (some 2))
  let s ← char s 45
  let (p, s) ← setField Parsed.set_day p (number s 2 (some 2))
  let s ← (match s with
    | c :: rest => if c = 116 ∨ c = 84 ∨ c = 32 then .ok rest else .error PErr.invalid
    | [] => .error PErr.tooShort : PRes (List Nat))
  let (p, s) ← setField Parsed.set_hour p (number s 2 (some 2))
  let s ← char s 58
  let (p, s) ← setField Parsed.set_minute p (number s 2 (some 2))
  let s ← char s 58
  let (p, s) ← setField Parsed.set_second p (number s 2 (some 2))
  let (p, s) ← (match s with
    | 46 :: rest => setNano p (nanosecond rest)
    | _ => .ok (p, s) : PRes (Parsed × List Nat))
  let (s, offset) ← timezone_offset s .charColon true false true
  if offset < -MAX_RFC3339_OFFSET ∨ offset > MAX_RFC3339_OFFSET then .error .outOfRange
  else do
    let p ← Parsed.set_offset p offset
    pure (p, s)

def DATE_ITEMS : List Item :=
  [.numeric .year .zero, .space [], .literal [45], .numeric .month .zero, .space [], .literal [45],
   .numeric .day .zero]
def TIME_ITEMS : List Item :=
  [.numeric .hour .zero, .space [], .literal [58], .numeric .minute .zero, .space [], .literal [58],
   .numeric .second .zero, .fixed .nanosecond, .space []]

/-- `parse_rfc3339_relaxed` -/
def parse_rfc3339_relaxed (p : Parsed) (s : List Nat) : PRes (Parsed × List Nat) := do
  let (p, s) ← parseItemsBase p s DATE_ITEMS
  let s ← (match s with
    | c :: rest => if c = 116 ∨ c = 84 ∨ c = 32 then .ok rest else .error PErr.invalid
    | [] => .error PErr.tooShort : PRes (List Nat))
  let (p, s) ← parseItemsBase p s TIME_ITEMS
  let s := trimStart s
  let (s, offset) ← (if s.length ≥ 3 ∧ lowerS (s.take 3) = [117, 116, 99] then .ok (s.drop 3, (0 : Int))
    else timezone_offset s .colonOrSpace true false true : PRes (List Nat × Int))
  let p ← Parsed.set_offset p offset
  pure (p, s)

/-! ### RFC 2822 -/

def commentsAux : Nat → List Nat → List Nat
  | 0, s => s
  | fuel + 1, s => match comment_2822 s with
    | .ok s' => commentsAux fuel s'
    | .error _ => s

/-- `parse_rfc2822` -/
def parse_rfc2822 (p : Parsed) (s : List Nat) : PRes (Parsed × List Nat) := do
  let s := trimStart s
  let (p, s) ← (match short_weekday s with
    | .ok (s', w) =>
      match s' with
      | 44 :: rest => (Parsed.set_weekday p w).map fun p' => (p', rest)
      | _ => .error PErr.invalid
    | .error _ => .ok (p, s) : PRes (Parsed × List Nat))
  let s := trimStart s
  let (p, s) ← setField Parsed.set_day p (number s 1 (some 2))
  let s ← space s
  let (p, s) ← (match short_month0 s with
    | .ok (s', m0) => (Parsed.set_month p (1 + (m0 : Int))).map fun p' => (p', s')
    | .error .tooShort => .error PErr.tooShort
    | .error .invalid => .error PErr.invalid : PRes (Parsed × List Nat))
  let s ← space s
  let prevlen := s.length
  let (s, year) ← number s 2 none
  let yearlen := prevlen - s.length
  let year :=
    if yearlen = 2 ∧ 0 ≤ year ∧ year ≤ 49 then year + 2000
    else if yearlen = 2 ∧ 50 ≤ year ∧ year ≤ 99 then year + 1900
    else if yearlen = 3 then year + 1900
    else year
  let p ← Parsed.set_year p year
  let s ← space s
  let (p, s) ← setField Parsed.set_hour p (number s 2 (some 2))
  let s ← char (trimStart s) 58
  let s := trimStart s
  let (p, s) ← setField Parsed.set_minute p (number s 2 (some 2))
  let (p, s) ← (match char (trimStart s) 58 with
    | .ok s_ => setField Parsed.set_second p (number s_ 2 (some 2))
    | .error _ => .ok (p, s) : PRes (Parsed × List Nat))
  let s ← space s
  let (s, off) ← timezone_offset_2822 s
  let p ← Parsed.set_offset p off
  pure (p, commentsAux s.length s)

/-! ### the item-driven parser -/

/-- `parse_internal` -/
def parse_internal : Parsed → List Nat → List Item → PRes (Parsed × List Nat)
  | p, s, [] => .ok (p, s)
  | p, s, it :: rest =>
    let r := match it with
      | .fixed .rfc2822 => parse_rfc2822 p s
      | .fixed .rfc3339 => parse_rfc3339_relaxed p s
      | _ => parseItemBase p s it
    match r with
    | .ok (p', s') => parse_internal p' s' rest
    | .error e => .error e

/-- `format::parse`: everything must be consumed -/
def parse (p : Parsed) (s : List Nat) (items : List Item) : PRes Parsed :=
  match parse_internal p s items with
  | .ok (p', []) => .ok p'
  | .ok (_, _ :: _) => .error .tooLong
  | .error e => .error e

end Parse
end Chrono.M
