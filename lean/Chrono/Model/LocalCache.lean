/-
  Model of how `Local` picks its zone and caches it (C18).

  Rust sources mirrored, one definition per function:
    src/offset/local/tz_info/timezone.rs   TimeZone::local, from_posix_tz, find_tz_file
    src/offset/local/unix.rs               Source, Source::new, Cache, Cache::default, current_zone,
                                           fallback_timezone, Cache::offset (refresh decision),
                                           TZ_INFO (one `Option<Cache>` per thread), offset()
    src/offset/local/mod.rs                Local::offset_from_utc_datetime / offset_from_local_datetime

  Everything outside chrono is a parameter (`World`): the file system, the TZ-rule reader (C16's
  subject), the name of the system zone, the mtime of /etc/localtime.  A zone is
  represented by where it came from plus an opaque content number; what a conversion then reads out
  of the zone (C05's subject) is the parameter `Lookups`.
  The process is a state machine with atomic steps and an abstract clock (nanoseconds).
  No Mathlib/Std imports: this file is linked into the driver.
-/
import Chrono.Prim
import Chrono.Extracted.LocalCache

namespace Chrono.M.LocalCache
open Chrono.Extracted.LocalCache

abbrev Bytes := List Nat

/-- what the file system answers for a path -/
inductive FileState where
  /-- `File::open` / `fs::read` fail -/
  | absent
  /-- `File::open` succeeds, reading fails (e.g. a directory) -/
  | unreadable
  /-- reading succeeds; `TimeZone::from_tz_data` gives `Err` (`none`) or the zone content `c` -/
  | data (z : Option Int)
  deriving DecidableEq, Repr

/-- a `TimeZone` value, identified by its source (and the opaque content read from there) -/
inductive Zone where
  /-- `TimeZone::utc()` -/
  | utc
  /-- parsed from the TZif file at `path` -/
  | tzif (path : Bytes) (c : Int)
  /-- built from the POSIX rule string `s` -/
  | rule (s : Bytes) (c : Int)
  deriving DecidableEq, Repr

/-- the world outside chrono, fixed during a history -/
structure World where
  /-- file system -/
  fs : Bytes → FileState
  /-- `TransitionRule::from_tz_string(s, false)` followed by `TimeZone::new`: `none` = `Err` -/
  rule : Bytes → Option Int
  /-- `iana_time_zone::get_timezone().ok()` -/
  sysName : Option Bytes
  /-- `fs::symlink_metadata("/etc/localtime")?.modified()`, `none` when either fails -/
  ltMtime : Option Nat

/-- the process environment's `TZ` entry -/
inductive EnvVal where
  | unset
  /-- set, but not valid Unicode: `env::var` answers `Err(NotUnicode)` -/
  | notUnicode
  | val (v : Bytes)
  deriving DecidableEq, Repr

/-- `env::var("TZ").ok()` -/
def env_var : EnvVal → Option Bytes
  | .val v => some v
  | _ => none

/-! ### timezone.rs -/

/-- `Path::is_absolute` (unix) -/
def is_absolute (p : Bytes) : Bool := p.head? == some 47

/-- does `File::open(p)` succeed -/
def opens (W : World) (p : Bytes) : Bool :=
  match W.fs p with
  | .absent => false
  | _ => true

/-- `PathBuf::from(folder).join(path)` for a relative `path` and a folder without trailing slash -/
def join (folder path : Bytes) : Bytes := folder ++ 47 :: path

/-- the loop of `find_tz_file`: the first folder in which the file opens -/
def find_in_dirs (W : World) : List Bytes → Bytes → Option Bytes
  | [], _ => none
  | d :: ds, p => if opens W (join d p) then some (join d p) else find_in_dirs W ds p

/-- `find_tz_file`: `Ok(file)` is represented by the path that was opened, `Err` by `none` -/
def find_tz_file (W : World) (p : Bytes) : Option Bytes :=
  if is_absolute p then (if opens W p then some p else none)
  else find_in_dirs W ZONE_INFO_DIRECTORIES p

/-- `from_file(&mut file)` / `from_tz_data(&fs::read(path)?)`: read everything, parse; `none` = `Err` -/
def from_file (W : World) (p : Bytes) : Option Zone :=
  match W.fs p with
  | .data (some c) => some (.tzif p c)
  | _ => none

/-- `u8::is_ascii_whitespace` -/
def is_ascii_whitespace (b : Nat) : Bool := b == 32 || b == 9 || b == 10 || b == 12 || b == 13

/-- `trim_matches(|c| c.is_ascii_whitespace())` -/
def trim (s : Bytes) : Bytes :=
  ((s.dropWhile is_ascii_whitespace).reverse.dropWhile is_ascii_whitespace).reverse

/-- `TimeZone::from_posix_tz` (`none` = `Err`) -/
def from_posix_tz (W : World) (tz : Bytes) : Option Zone :=
  if tz = [] then some .utc
  else if tz = LOCALTIME_NAME then from_file W LOCALTIME_PATH
  else if tz.head? = some FILE_PREFIX then
    match find_tz_file W tz.tail with
    | some p => from_file W p
    | none => none
  else
    match find_tz_file W tz with
    | some p => from_file W p
    | none =>
      let s := trim tz
      match W.rule s with
      | some c => some (.rule s c)
      | none => none

/-- `TimeZone::local` -/
def TimeZone.local (W : World) (env_tz : Option Bytes) : Option Zone :=
  match env_tz with
  | some tz => from_posix_tz W tz
  | none => from_posix_tz W UNSET_NAME

/-! ### unix.rs -/

/-- `fallback_timezone`: the zone named by the system, read from `TZDB_LOCATION` -/
def fallback_timezone (W : World) : Option Zone :=
  match W.sysName with
  | some name => from_file W (TZDB_LOCATION ++ 47 :: name)
  | none => none

/-- `current_zone`: `TimeZone::local(var).ok().or_else(fallback_timezone).unwrap_or_else(TimeZone::utc)` -/
def current_zone (W : World) (var : Option Bytes) : Zone :=
  match TimeZone.local W var with
  | some z => z
  | none =>
    match fallback_timezone W with
    | some z => z
    | none => .utc

/-- `enum Source`: what the cache was built from.  `Environment { tz: String }` holds the TEXT of
`TZ` (since the repair of finding F33; before it: a `DefaultHasher` hash of the text, which let a
change between two colliding values go unnoticed — that rule is kept, outside the model, in
`Chrono.Proofs.LocalCache.BeforeF33`). -/
inductive Source where
  | localTime (mtime : Nat)
  | environment (tz : Bytes)
  deriving DecidableEq, Repr

/-- `Source::new`; `now` is `SystemTime::now()` (used when the mtime is unavailable) -/
def Source.new (W : World) (now : Nat) (env_tz : Option Bytes) : Source :=
  match env_tz with
  | some tz => .environment tz
  | none =>
    match W.ltMtime with
    | some m => .localTime m
    | none => .localTime now

structure Cache where
  zone : Zone
  source : Source
  last_checked : Nat
  deriving DecidableEq, Repr

/-- `Cache::default` -/
def Cache.default (W : World) (now : Nat) (env : EnvVal) : Cache :=
  let env_tz := env_var env
  { last_checked := now, source := Source.new W now env_tz, zone := current_zone W env_tz }

/-- the `out_of_date` match of `Cache::offset` -/
def out_of_date (old new : Source) : Bool :=
  match old, new with
  | .environment _, .localTime _ => true
  | .localTime _, .environment _ => true
  | .localTime old_mtime, .localTime mtime => old_mtime != mtime
  | .environment old_tz, .environment tz => old_tz != tz

def NANOS : Nat := 1000000000

/-- `match now.duration_since(self.last_checked) { Ok(d) if d.as_secs() < 1 => …`:
`Err` when the clock went backwards, otherwise whole seconds compared with the literal -/
def within_window (last now : Nat) : Bool :=
  decide (last ≤ now) &&
    (if REUSE_STRICT then decide ((now - last) / NANOS < REUSE_SECS)
     else decide ((now - last) / NANOS ≤ REUSE_SECS))

/-- which branch a cache lookup took -/
inductive Decision where
  /-- the thread had no cache: `Cache::default` -/
  | created
  /-- younger than the window: reused unconditionally -/
  | reused
  /-- source re-read and unchanged: zone kept, `last_checked`/`source` updated -/
  | rechecked
  /-- source changed: zone rebuilt by `current_zone` -/
  | reloaded
  deriving DecidableEq, Repr

/-- the first half of `Cache::offset`: decide between reuse and refresh.  The second half reads
the offset out of `self.zone` of the returned cache (see `offset` below). -/
def Cache.offset (W : World) (c : Cache) (now : Nat) (env : EnvVal) : Cache × Decision :=
  if within_window c.last_checked now then (c, .reused)
  else
    let env_tz := env_var env
    let new_source := Source.new W now env_tz
    if out_of_date c.source new_source then
      ({ zone := current_zone W env_tz, source := new_source, last_checked := now }, .reloaded)
    else
      ({ c with source := new_source, last_checked := now }, .rechecked)

/-- what a conversion reads out of a zone: `find_local_time_type(d)` for the UTC direction,
`find_local_time_type_from_local(d)` for the local direction (both then mapped through
`FixedOffset::east_opt`); their behaviour is C05's subject and abstract here -/
structure Lookups (β : Type) where
  utc : Zone → Int → β
  loc : Zone → Int → β

/-! ### the process as a state machine -/

structure State where
  env : EnvVal
  /-- `SystemTime::now()`, nanoseconds -/
  clock : Nat
  /-- `TZ_INFO` of each thread -/
  caches : Nat → Option Cache

def update (f : Nat → Option Cache) (t : Nat) (v : Option Cache) : Nat → Option Cache :=
  fun t' => if t' = t then v else f t'

/-- a process that has not converted anything yet -/
def init (env : EnvVal) (clock : Nat) : State := { env := env, clock := clock, caches := fun _ => none }

/-- `offset(d, local)` of unix.rs up to the lookup: `TZ_INFO.with(|c| c.borrow_mut()
.get_or_insert_with(Cache::default).offset(..))` on thread `t`.  Returns the new state, the zone
the lookup reads, and the branch taken. -/
def inner_offset (W : World) (s : State) (t : Nat) : State × Zone × Decision :=
  match s.caches t with
  | some c =>
    let r := Cache.offset W c s.clock s.env
    ({ s with caches := update s.caches t (some r.1) }, r.1.zone, r.2)
  | none =>
    let r := Cache.offset W (Cache.default W s.clock s.env) s.clock s.env
    ({ s with caches := update s.caches t (some r.1) }, r.1.zone, .created)

/-- `inner::offset_from_utc_datetime` / `inner::offset_from_local_datetime`: the cache lookup of
`inner_offset`, then the second half of `Cache::offset`: read the answer out of that one zone -/
def offset {β} (L : Lookups β) (W : World) (s : State) (t : Nat) (d : Int) (localDir : Bool) : State × β :=
  let r := inner_offset W s t
  (r.1, if localDir then L.loc r.2.1 d else L.utc r.2.1 d)

/-- `<Local as TimeZone>::offset_from_utc_datetime` (one call of the inner function, then `unwrap`) -/
def Local.offset_from_utc_datetime {β} (L : Lookups β) (W : World) (s : State) (t : Nat) (d : Int) : State × β :=
  offset L W s t d false

/-- `<Local as TimeZone>::offset_from_local_datetime` -/
def Local.offset_from_local_datetime {β} (L : Lookups β) (W : World) (s : State) (t : Nat) (d : Int) : State × β :=
  offset L W s t d true

/-! ### the public entry points, with the number of zone lookups they perform

`impl TimeZone for Local` (src/offset/local/mod.rs), `Local::now`, and the `TimeZone` trait defaults
they reach (src/offset/mod.rs: `from_utc_datetime`, `from_local_datetime`; src/datetime/mod.rs:
`with_timezone`), each written as the call(s) it makes.  The state carries a counter of
`inner::offset_from_*_datetime` calls, so that "one lookup per conversion" is a statement and not the
shape of a definition. -/

structure Counted where
  s : State
  /-- number of `inner::offset_from_utc_datetime` / `inner::offset_from_local_datetime` calls so far -/
  calls : Nat

/-- `inner::offset_from_utc_datetime(utc)` (`localDir = false`) / `inner::offset_from_local_datetime(local)` -/
def inner_counted {β} (L : Lookups β) (W : World) (c : Counted) (t : Nat) (d : Int) (localDir : Bool) :
    Counted × β :=
  let r := offset L W c.s t d localDir
  ({ s := r.1, calls := c.calls + 1 }, r.2)

namespace Api
variable {β : Type}
/-- `fn offset_from_utc_datetime(&self, utc)`: `inner::offset_from_utc_datetime(utc).unwrap()` -/
def offset_from_utc_datetime (L : Lookups β) (W : World) (c : Counted) (t : Nat) (utc : Int) : Counted × β :=
  inner_counted L W c t utc false
/-- `fn offset_from_local_datetime(&self, local)`: `inner::offset_from_local_datetime(local)` -/
def offset_from_local_datetime (L : Lookups β) (W : World) (c : Counted) (t : Nat) (loc : Int) : Counted × β :=
  inner_counted L W c t loc true
/-- `fn offset_from_utc_date(&self, utc)`: `self.offset_from_utc_datetime(&utc.and_time(NaiveTime::MIN))`;
`midnight` is that date-time -/
def offset_from_utc_date (L : Lookups β) (W : World) (c : Counted) (t : Nat) (midnight : Int) : Counted × β :=
  offset_from_utc_datetime L W c t midnight
/-- `fn offset_from_local_date(&self, local)`: `self.offset_from_local_datetime(&local.and_time(NaiveTime::MIN))` -/
def offset_from_local_date (L : Lookups β) (W : World) (c : Counted) (t : Nat) (midnight : Int) : Counted × β :=
  offset_from_local_datetime L W c t midnight
/-- `TimeZone::from_utc_datetime` (default): `DateTime::from_naive_utc_and_offset(*utc, self.offset_from_utc_datetime(utc))`;
the result is the reading together with the answer -/
def from_utc_datetime (L : Lookups β) (W : World) (c : Counted) (t : Nat) (utc : Int) : Counted × (Int × β) :=
  let r := offset_from_utc_datetime L W c t utc
  (r.1, (utc, r.2))
/-- `TimeZone::from_local_datetime` (default): `self.offset_from_local_datetime(local).and_then(…)` -/
def from_local_datetime (L : Lookups β) (W : World) (c : Counted) (t : Nat) (loc : Int) : Counted × (Int × β) :=
  let r := offset_from_local_datetime L W c t loc
  (r.1, (loc, r.2))
/-- `DateTime<Utc>::with_timezone(&Local)`: `tz.from_utc_datetime(&self.datetime)` -/
def with_timezone (L : Lookups β) (W : World) (c : Counted) (t : Nat) (utc : Int) : Counted × (Int × β) :=
  from_utc_datetime L W c t utc
/-- `Local::now()`: `Utc::now().with_timezone(&Local)`; `utc_now` is what `Utc::now()` returned -/
def now (L : Lookups β) (W : World) (c : Counted) (t : Nat) (utc_now : Int) : Counted × (Int × β) :=
  with_timezone L W c t utc_now
end Api

inductive Step where
  | setTZ (v : Bytes)
  | setNotUnicode
  | unsetTZ
  | advance (ns : Nat)
  /-- a public conversion on thread `t`, local→UTC direction when `localDir` -/
  | convert (t : Nat) (localDir : Bool)
  /-- thread `t` starts (its `TZ_INFO` is `None`) -/
  | spawn (t : Nat)
  deriving DecidableEq, Repr

/-- one atomic step; a conversion outputs the zone it used and the branch taken -/
def step (W : World) (s : State) : Step → State × Option (Zone × Decision)
  | .setTZ v => ({ s with env := .val v }, none)
  | .setNotUnicode => ({ s with env := .notUnicode }, none)
  | .unsetTZ => ({ s with env := .unset }, none)
  | .advance ns => ({ s with clock := s.clock + ns }, none)
  | .convert t _ =>
    let r := inner_offset W s t
    (r.1, some r.2)
  | .spawn t => ({ s with caches := update s.caches t none }, none)

/-- the state after a history -/
def exec (W : World) (s : State) : List Step → State
  | [] => s
  | x :: xs => exec W (step W s x).1 xs

/-- the outputs of the conversions of a history, in order -/
def run (W : World) (s : State) : List Step → List (Zone × Decision)
  | [] => []
  | x :: xs =>
    let r := step W s x
    match r.2 with
    | some o => o :: run W r.1 xs
    | none => run W r.1 xs

end Chrono.M.LocalCache
