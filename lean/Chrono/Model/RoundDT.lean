/-
  Model of src/round.rs at the level of the values themselves: `impl DurationRound for NaiveDateTime`
  and `impl<Tz> DurationRound for DateTime<Tz>` (fixed offsets), i.e. the generic private functions
  `duration_round/trunc/round_up<T>(naive, original, duration)` with their first and last steps:

    * `naive.and_utc().timestamp_nanos_opt()`  — `NaiveDT.timestamp_nanos_opt` (Model/DateTime.lean);
    * the integer part in between               — `Round.run` (Model/Round.lean), which yields the
                                                   signed nanosecond count `d`;
    * `Ok(original)` / `Ok(original + TimeDelta::nanoseconds(d))` /
      `Ok(original - TimeDelta::nanoseconds(-d))` — `apply_move` with the operator models of
                                                   Model/ArithOps.lean (`expect` of the checked form).

  For `DateTime<Tz>` the `naive` argument is `self.overflowing_naive_local()` and `original` is `self`.
-/
import Chrono.Model.Round
import Chrono.Model.ArithOps
import Chrono.Model.ZonedOps

namespace Chrono.M.Round
open Chrono Chrono.M Chrono.Extracted.Round

/-- `Result<T, RoundingError>` with the returned value itself -/
inductive RRes (α : Type) where
  | ok (v : α)
  | err (e : RoundingError)
  deriving DecidableEq, Repr

/-- the constant of the `span <= 0` guard of each of the three functions (extracted) -/
def refusedMax : Op → Int
  | .trunc => SPAN_REFUSED_MAX_TRUNC
  | .round => SPAN_REFUSED_MAX_ROUND
  | .up => SPAN_REFUSED_MAX_UP

/-- the last step of the three functions.  `Round.run` reports `0` exactly on the `Ok(original)`
branch, `shift 1 n = n > 0` on the `original + TimeDelta::nanoseconds(n)` branches and
`shift (-1) n = -n < 0` on the `original - TimeDelta::nanoseconds(n)` branches. -/
def apply_move {α : Type} (add sub : α → Delta → Res α) (original : α) (d : Int) : Res α :=
  if d = 0 then .ok original
  else if d > 0 then add original (Delta.nanoseconds d)
  else sub original (Delta.nanoseconds (-d))

/-- the tail of the three functions: an error is passed on, a move is applied to `original` -/
def finish {α : Type} (add sub : α → Delta → Res α) (original : α) (r : Res RR) : Res (RRes α) :=
  match r with
  | .panic => .panic
  | .ok (.err e) => .ok (.err e)
  | .ok (.ok d) =>
    match apply_move add sub original d with
    | .panic => .panic
    | .ok v => .ok (.ok v)

/-- `fn duration_round/trunc/round_up<T>(naive: NaiveDateTime, original: T, duration: TimeDelta)`:
the span guard comes first, the stamp is read only afterwards -/
def duration_generic {α : Type} (op : Op) (naive : NaiveDT) (original : α)
    (add sub : α → Delta → Res α) (duration : Delta) : Res (RRes α) :=
  match duration.num_nanoseconds with
  | none => .ok (.err .DurationExceedsLimit)
  | some span =>
    if span ≤ refusedMax op then .ok (.err .DurationExceedsLimit)
    else
      match NaiveDT.timestamp_nanos_opt naive with
      | .panic => .panic
      | .ok stamp => finish add sub original (run op stamp (some span))

/-- `impl DurationRound for NaiveDateTime`: `duration_xxx(self, self, duration)` -/
def naive_duration (op : Op) (dt : NaiveDT) (duration : Delta) : Res (RRes NaiveDT) :=
  duration_generic op dt dt NaiveDT.add NaiveDT.sub duration

/-- `impl<Tz: TimeZone> DurationRound for DateTime<Tz>` (fixed offset):
`duration_xxx(self.overflowing_naive_local(), self, duration)` -/
def zoned_duration (op : Op) (z : Zoned) (duration : Delta) : Res (RRes Zoned) :=
  match Zoned.overflowing_naive_local z with
  | .panic => .panic
  | .ok nl => duration_generic op nl z Zoned.add Zoned.sub duration

/-! ### SubsecRound at the level of the values -/

/-- the decision of `round_subsecs` (`round = true`) / `trunc_subsecs` on `self.nanosecond()`: the
signed nanosecond count that is added to `self` (`0` = the `self // unchanged` branch) -/
def subsec_move (round : Bool) (frac : Int) (digits : Nat) : Res Int :=
  let span := span_for_digits digits
  match remU32 frac span with
  | .panic => .panic
  | .ok delta_down =>
    if delta_down > 0 then
      if round then
        match ckU32 (span - delta_down) with
        | .panic => .panic
        | .ok delta_up =>
          if tieUpSubsec delta_up delta_down then .ok (shift 1 delta_up)
          else .ok (shift (-1) delta_down)
      else .ok (shift (-1) delta_down)
    else .ok 0

/-- `impl<T> SubsecRound for T where T: Timelike + Add<TimeDelta> + Sub<TimeDelta>` -/
def subsec_generic {α : Type} (round : Bool) (nanosecond : Res Int) (original : α)
    (add sub : α → Delta → Res α) (digits : Nat) : Res α :=
  match nanosecond with
  | .panic => .panic
  | .ok frac =>
    match subsec_move round frac digits with
    | .panic => .panic
    | .ok d => apply_move add sub original d

/-- `NaiveTime`: `+`/`-` wrap around midnight -/
def time_subsecs (round : Bool) (t : Time) (digits : Nat) : Res Time :=
  subsec_generic round (.ok t.nanosecond) t Time.add Time.sub digits

/-- `NaiveDateTime`: `+`/`-` panic when the result leaves the range -/
def naive_subsecs (round : Bool) (dt : NaiveDT) (digits : Nat) : Res NaiveDT :=
  subsec_generic round (.ok dt.time.nanosecond) dt NaiveDT.add NaiveDT.sub digits

/-- `DateTime<FixedOffset>`: the nanosecond field is read from the wall clock, the UTC reading moves -/
def zoned_subsecs (round : Bool) (z : Zoned) (digits : Nat) : Res Zoned :=
  subsec_generic round (Zoned.nanosecond z) z Zoned.add Zoned.sub digits

end Chrono.M.Round
