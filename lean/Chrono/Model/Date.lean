/-
  Model of src/naive/internals.rs (YearFlags, Mdf), src/naive/isoweek.rs (IsoWeek) and the calendar
  core of src/naive/date/mod.rs (NaiveDate).  A date is the packed word
  `yof = year·8192 + ordinal·16 + flags` (Rust: `(year << 13) | (ordinal << 4) | flags`); masks and
  shifts are written arithmetically.  `Res` = the debug-assertion / overflow-checked build.
-/
import Chrono.Prim
import Chrono.Extracted.Tables
import Chrono.Extracted.Consts
import Chrono.Model.Weekday

namespace Chrono.M
open Chrono.Extracted

/-! ### YearFlags (a `u8`: bit 3 = common year, bits 0..2 = weekday of Dec 31 of the previous year, Mon = 7) -/
namespace YearFlags
def from_year_mod_400 (ym : Int) : Nat := YEAR_TO_FLAGS.getD ym.toNat 0
/-- `year.rem_euclid(400)` then table lookup -/
def from_year (year : Int) : Nat := from_year_mod_400 (year % 400)
def ndays (f : Nat) : Nat := 366 - f / 8
def isoweek_delta (f : Nat) : Nat := let d := f % 8; if d < 3 then d + 7 else d
/-- `52 + ((0b0000_0100_0000_0110 >> flags) & 1)` -/
def nisoweeks (f : Nat) : Nat := 52 + (1030 / 2 ^ f) % 2
end YearFlags

/-! ### Mdf (a `u32`: `month << 9 | day << 4 | flags`) -/
namespace Mdf
def new (month day flags : Nat) : Option Nat :=
  if month ≤ 12 ∧ day ≤ 31 then some (month * 512 + day * 16 + flags) else none
/-- `from_ol`: debug-asserts `1 < ol ≤ MAX_OL`, then adds the table delta -/
def from_ol (ol flags : Nat) : Res Nat :=
  if 1 < ol ∧ (ol : Int) ≤ MAX_OL then
    -- `(mdl << 3) | flags`: bit 3 of the result is the OR of mdl's leap bit and the flags' leap bit
    let mdl := ol + OL_TO_MDL.getD ol 0
    .ok ((mdl / 2) * 16 + (max (mdl % 2) (flags / 8 % 2)) * 8 + flags % 8)
  else .panic
def month (mdf : Nat) : Nat := mdf / 512
def day (mdf : Nat) : Nat := (mdf / 16) % 32
def with_month (mdf month : Nat) : Option Nat :=
  if month > 12 then none else some (mdf % 512 + month * 512)
def with_day (mdf day : Nat) : Option Nat :=
  if day > 31 then none else some (mdf - ((mdf / 16) % 32) * 16 + day * 16)
def with_flags (mdf flags : Nat) : Nat := mdf - mdf % 16 + flags
/-- table lookup; `XX = 0` marks a non-existing date; the index is in bounds for every `Mdf` -/
def ordinal (mdf : Nat) : Res (Option Nat) :=
  let mdl := mdf / 8
  if mdl < MDL_TO_OL.length then
    let v := MDL_TO_OL.getD mdl 0
    if v = 0 then .ok none else .ok (some ((mdl - v) / 2))
  else .panic
def year_flags (mdf : Nat) : Nat := mdf % 16
def ordinal_and_flags (mdf : Nat) : Res (Option Nat) :=
  let mdl := mdf / 8
  if mdl < MDL_TO_OL.length then
    let v := MDL_TO_OL.getD mdl 0
    if v = 0 then .ok none else .ok (some (mdf - v * 8))
  else .panic
end Mdf

/-! ### NaiveDate -/
structure Date where
  yof : Int
  deriving DecidableEq, Repr

namespace Date

def year (d : Date) : Int := d.yof / 8192
def ordinal (d : Date) : Int := (d.yof / 16) % 512
def flags (d : Date) : Nat := (d.yof % 16).toNat
/-- `(yof & OL_MASK) >> 3` -/
def ol (d : Date) : Nat := ((d.yof / 8) % 1024).toNat
def leap_year (d : Date) : Bool := (d.yof / 8) % 2 == 0
def year_flags (d : Date) : Nat := d.flags

/-- `from_yof`: the three debug assertions on the packed word -/
def from_yof (yof : Int) : Res Date :=
  let ol := (yof / 8) % 1024
  if 1 < ol ∧ ol ≤ MAX_OL ∧ yof % 8 ≠ 0 then .ok ⟨yof⟩ else .panic

def MIN : Date := ⟨MIN_YEAR * 8192 + 1 * 16 + 10⟩
def MAX : Date := ⟨MAX_YEAR * 8192 + 365 * 16 + 14⟩
def BEFORE_MIN : Date := ⟨(MIN_YEAR - 1) * 8192 + 366 * 16 + 7⟩
def AFTER_MAX : Date := ⟨(MAX_YEAR + 1) * 8192 + 1 * 16 + 15⟩

def from_ordinal_and_flags (year : Int) (ordinal flags : Nat) : Res (Option Date) :=
  if year < MIN_YEAR ∨ year > MAX_YEAR then .ok none
  else if ordinal = 0 ∨ ordinal > 366 then .ok none
  else if YearFlags.from_year year ≠ flags then .panic          -- debug_assert!
  else
    let yof : Int := year * 8192 + ordinal * 16 + flags
    -- `yof & OL_MASK <= MAX_OL` (date-module MAX_OL = 366 << 4)
    if ((ordinal * 16 + (flags / 8) * 8 : Nat) : Int) ≤ DATE_MAX_OL then
      match from_yof yof with
      | .ok d => .ok (some d)
      | .panic => .panic
    else .ok none

def from_mdf (year : Int) (mdf : Nat) : Res (Option Date) :=
  if year < MIN_YEAR ∨ year > MAX_YEAR then .ok none
  else match Mdf.ordinal_and_flags mdf with
    | .ok (some of) => match from_yof (year * 8192 + of) with
      | .ok d => .ok (some d)
      | .panic => .panic
    | .ok none => .ok none
    | .panic => .panic

def from_ymd_opt (year : Int) (month day : Nat) : Res (Option Date) :=
  let flags := YearFlags.from_year year
  match Mdf.new month day flags with
  | some mdf => from_mdf year mdf
  | none => .ok none

def from_yo_opt (year : Int) (ordinal : Nat) : Res (Option Date) :=
  from_ordinal_and_flags year ordinal (YearFlags.from_year year)

def cycle_to_yo (cycle : Nat) : Nat × Nat :=
  let ym := cycle / 365
  let ord0 := cycle % 365
  let delta := YEAR_DELTAS.getD ym 0
  if ord0 < delta then
    let ym := ym - 1
    (ym, ord0 + 365 - YEAR_DELTAS.getD ym 0 + 1)
  else (ym, ord0 - delta + 1)

def yo_to_cycle (ym ordinal : Nat) : Nat := ym * 365 + YEAR_DELTAS.getD ym 0 + ordinal - 1

def from_num_days_from_ce_opt (days : Int) : Res (Option Date) :=
  match optI32 (days + 365) with
  | none => .ok none
  | some days =>
    let year_div_400 := days / 146097
    let cycle := days % 146097
    let (ym, ordinal) := cycle_to_yo cycle.toNat
    let flags := YearFlags.from_year_mod_400 ym
    match ckI32 (year_div_400 * 400 + ym) with
    | .ok y => from_ordinal_and_flags y ordinal flags
    | .panic => .panic

def mdf (d : Date) : Res Nat := Mdf.from_ol d.ol d.flags
def month (d : Date) : Res Nat := match d.mdf with | .ok m => .ok (Mdf.month m) | .panic => .panic
def day (d : Date) : Res Nat := match d.mdf with | .ok m => .ok (Mdf.day m) | .panic => .panic

def weekdayOfNat (n : Nat) : Weekday :=
  match n with
  | 0 => .mon | 1 => .tue | 2 => .wed | 3 => .thu | 4 => .fri | 5 => .sat | _ => .sun

/-- `(ordinal + (yof & 0b111)) % 7` -/
def weekday (d : Date) : Weekday := weekdayOfNat ((d.ordinal + d.yof % 8) % 7).toNat

/-- `num_days_from_ce` (the private const copy and the `Datelike` default are the same code);
every step is checked `i32` arithmetic -/
def num_days_from_ce (d : Date) : Res Int := do
  let year ← ckI32 (d.year - 1)
  let (year, ndays) ←
    (if year < 0 then do
        let excess ← ckI32 (1 + Int.tdiv (-year) 400)
        let e400 ← ckI32 (excess * 400)
        let y ← ckI32 (year + e400)
        let n ← ckI32 (excess * 146097)
        let n ← ckI32 (0 - n)
        pure (y, n)
      else pure (year, (0 : Int)) : Res (Int × Int))
  let div_100 := Int.tdiv year 100
  let prod ← ckI32 (year * 1461)
  let t ← ckI32 (prod / 4 - div_100)
  let t ← ckI32 (t + div_100 / 4)
  let ndays ← ckI32 (ndays + t)
  ckI32 (ndays + d.ordinal)

def succ_opt (d : Date) : Res (Option Date) :=
  -- `(yof & OL_MASK) + (1 << 4)`
  let new_ol := (d.yof / 8) % 1024 * 8 + 16
  if new_ol ≤ DATE_MAX_OL then
    match from_yof (d.yof - (d.yof / 8) % 1024 * 8 + new_ol) with
    | .ok r => .ok (some r) | .panic => .panic
  else match ckI32 (d.year + 1) with
    | .ok y => from_yo_opt y 1
    | .panic => .panic

def pred_opt (d : Date) : Res (Option Date) :=
  let new_so := d.ordinal * 16 - 16
  if new_so > 0 then
    match from_yof (d.yof - d.ordinal * 16 + new_so) with
    | .ok r => .ok (some r) | .panic => .panic
  else match ckI32 (d.year - 1) with
    | .ok y => from_ymd_opt y 12 31
    | .panic => .panic

/-- `add_days(days: i32)` -/
def add_days (d : Date) (days : Int) : Res (Option Date) :=
  let fast : Option Int :=
    match optI32 (d.ordinal + days) with
    | some o => if o > 0 ∧ o ≤ 365 + (if d.leap_year then 1 else 0) then some o else none
    | none => none
  match fast with
  | some o => match from_yof (d.yof - d.ordinal * 16 + o * 16) with
    | .ok r => .ok (some r) | .panic => .panic
  | none =>
    let year := d.year
    let year_div_400 := year / 400
    let year_mod_400 := year % 400
    let cycle : Int := yo_to_cycle year_mod_400.toNat d.ordinal.toNat
    match optI32 (cycle + days) with
    | none => .ok none
    | some cycle =>
      let cycle_div := cycle / 146097
      let cycle := cycle % 146097
      match ckI32 (year_div_400 + cycle_div) with
      | .panic => .panic
      | .ok yd =>
        let (ym, ordinal) := cycle_to_yo cycle.toNat
        let flags := YearFlags.from_year_mod_400 ym
        match ckI32 (yd * 400) with
        | .panic => .panic
        | .ok y4 => match ckI32 (y4 + ym) with
          | .panic => .panic
          | .ok y => from_ordinal_and_flags y ordinal flags

/-- `from_isoywd_opt(year: i32, week: u32, weekday)` (after the repair of finding #1) -/
def from_isoywd_opt (year : Int) (week : Nat) (weekday : Weekday) : Res (Option Date) :=
  let flags := YearFlags.from_year year
  let nweeks := YearFlags.nisoweeks flags
  if week = 0 ∨ week > nweeks then .ok none
  else
    let weekord := week * 7 + weekday.toNat
    let delta := YearFlags.isoweek_delta flags
    if weekord ≤ delta then
      match optI32 (year - 1) with
      | none => .ok none
      | some py =>
        let pf := YearFlags.from_year py
        from_ordinal_and_flags py (weekord + YearFlags.ndays pf - delta) pf
    else
      let ordinal := weekord - delta
      let ndays := YearFlags.ndays flags
      if ordinal ≤ ndays then from_ordinal_and_flags year ordinal flags
      else
        match optI32 (year + 1) with
        | none => .ok none
        | some ny => from_ordinal_and_flags ny (ordinal - ndays) (YearFlags.from_year ny)

/-- derived `Ord` on the packed word: -1 / 0 / 1 -/
def cmp (a b : Date) : Int := if a.yof < b.yof then -1 else if a.yof > b.yof then 1 else 0

end Date

/-! ### IsoWeek (`ywf = year << 10 | week << 4 | flags`) -/
namespace IsoWeek
def from_yof (year : Int) (ordinal flags : Nat) : Res Int :=
  let rawweek := (ordinal + YearFlags.isoweek_delta flags) / 7
  match (if rawweek < 1 then
      match ckI32 (year - 1) with
      | .ok py => Res.ok (py, YearFlags.nisoweeks (YearFlags.from_year py))
      | .panic => .panic
    else
      let lastweek := YearFlags.nisoweeks flags
      if rawweek > lastweek then
        match ckI32 (year + 1) with
        | .ok ny => .ok (ny, 1)
        | .panic => .panic
      else .ok (year, rawweek)) with
  | .ok (y, w) => .ok (y * 1024 + w * 16 + YearFlags.from_year y)
  | .panic => .panic
def year (ywf : Int) : Int := ywf / 1024
def week (ywf : Int) : Int := (ywf / 16) % 64
def week0 (ywf : Int) : Int := (ywf / 16) % 64 - 1
end IsoWeek

def Date.iso_week (d : Date) : Res Int := IsoWeek.from_yof d.year d.ordinal.toNat d.flags

end Chrono.M
