/-
  C02 — further timestamp entry points (audit gaps): the sub-second accessors read through a
  zone-aware value (`DateTime<FixedOffset>`, `DateTime<Local>`: the stored UTC reading is used, the
  offset does not enter), and the deprecated `NaiveDateTime::timestamp*` accessors
  (src/naive/datetime/mod.rs: each is `self.and_utc().<same name>()`).
-/
import Chrono.Model.Timestamp
namespace Chrono.M.Ts

/-! ### `DateTime<Tz>::timestamp_subsec_*`: `self.datetime.time().nanosecond()` of the UTC reading -/
def ztimestamp_subsec_nanos (z : Zoned) : Int := NaiveDT.timestamp_subsec_nanos z.utc
def ztimestamp_subsec_micros (z : Zoned) : Int := NaiveDT.timestamp_subsec_micros z.utc
def ztimestamp_subsec_millis (z : Zoned) : Int := NaiveDT.timestamp_subsec_millis z.utc
/-- `DateTime<Tz>::timestamp_nanos()` (deprecated) through a zone-aware value -/
def ztimestamp_nanos_expect (z : Zoned) : Res Int := unwrap (ztimestamp_nanos_opt z)

/-! ### deprecated `NaiveDateTime` accessors: `self.and_utc().…` -/
def naive_timestamp (dt : NaiveDT) : Res Int := ztimestamp (and_utc dt)
def naive_timestamp_millis (dt : NaiveDT) : Res Int := ztimestamp_millis (and_utc dt)
def naive_timestamp_micros (dt : NaiveDT) : Res Int := ztimestamp_micros (and_utc dt)
def naive_timestamp_nanos_opt (dt : NaiveDT) : Res (Option Int) := ztimestamp_nanos_opt (and_utc dt)
def naive_timestamp_nanos (dt : NaiveDT) : Res Int := ztimestamp_nanos_expect (and_utc dt)
def naive_timestamp_subsec_millis (dt : NaiveDT) : Int := ztimestamp_subsec_millis (and_utc dt)
def naive_timestamp_subsec_micros (dt : NaiveDT) : Int := ztimestamp_subsec_micros (and_utc dt)
def naive_timestamp_subsec_nanos (dt : NaiveDT) : Int := ztimestamp_subsec_nanos (and_utc dt)

/-! ### `impl From<SystemTime> for DateTime<Local>` (src/datetime/mod.rs): `DateTime::<Utc>::from(t).with_timezone(&Local)`

`with_timezone(&Local)` is `Local.from_utc_datetime(&self.datetime)`: the UTC reading is kept and the offset
the zone prescribes at that UTC reading is attached.  Which offset that is, is C05's subject; here it is the
parameter `off` (the harness passes the offset the implementation chose).  A panic of the `Utc` conversion
propagates (the `with_timezone` call is never reached). -/
def from_system_time_local (off S N : Int) : Res Zoned :=
  (from_system_time S N).bind fun dt => .ok (Zoned.with_timezone (and_utc dt) off)

end Chrono.M.Ts
