/-
  C19, numeric conversions table by table.

  The Rust source writes the integer → `Weekday` table three times (`impl TryFrom<u8>`,
  `FromPrimitive::from_i64`, `FromPrimitive::from_u64`; src/weekday.rs) and the integer → `Month` table
  twice (`impl TryFrom<u8>`, `FromPrimitive::from_u32`; src/month.rs); `Month::from_u64` / `from_i64`
  convert to `u32` and forward to `from_u32`.  tools/extractors/wdconv.py reads every one of these tables
  (and the forwarding bodies) from the source text on every run into lean/Chrono/Extracted/WdConv.lean;
  here every entry point is a lookup in ITS OWN extracted table, so a wrong arm in one table changes
  exactly one of these functions.  All other `FromPrimitive` methods are num_traits' defaults
  (`NumTraits` below; num-traits 0.2.19 src/cast.rs, trusted to be what is linked).

  Arguments are unbounded `Int`; nothing here restricts them to the machine type, so the theorems of
  Props/C19 that quantify over every `Int` cover every value of every integer type.
-/
import Chrono.Model.Weekday
import Chrono.Extracted.WdConv

namespace Chrono.M

/-- the variant with declared discriminant `i` -/
def Weekday.ofDisc (i : Nat) : Option Weekday := Weekday.all[i]?
def Month.ofDisc (i : Nat) : Option Month := Month.all[i]?

namespace Conv

/-- Rust `match n { k₁ => Some(v₁), …, _ => dflt }` on integer literal patterns: the first arm whose
literal equals `n`, else the wildcard arm -/
def matchArms (arms : List (Int × Nat)) (dflt : Option Nat) (n : Int) : Option Nat :=
  match arms with
  | [] => dflt
  | (k, v) :: rest => if n = k then some v else matchArms rest dflt n

/-! ### num_traits 0.2.19 `FromPrimitive`: the provided (default) methods -/

/-- what an impl of `FromPrimitive` must write itself -/
structure FromPrimitive (α : Type) where
  from_i64 : Int → Option α
  from_u64 : Int → Option α

namespace NumTraits
/-- `ToPrimitive::to_i64` of a primitive integer: `Some` exactly when the value fits -/
def to_i64 (n : Int) : Option Int := if inI64 n then some n else none
/-- `ToPrimitive::to_u64` of a primitive integer -/
def to_u64 (n : Int) : Option Int := if inU64 n then some n else none
end NumTraits

namespace FromPrimitive
variable {α : Type} (I : FromPrimitive α)
/-- `FromPrimitive::from_i64(From::from(n))`: widening keeps the value -/
def from_i8 (n : Int) : Option α := I.from_i64 n
def from_i16 (n : Int) : Option α := I.from_i64 n
def from_i32 (n : Int) : Option α := I.from_i64 n
/-- `n.to_i64().and_then(FromPrimitive::from_i64)` -/
def from_isize (n : Int) : Option α := (NumTraits.to_i64 n).bind I.from_i64
def from_i128 (n : Int) : Option α := (NumTraits.to_i64 n).bind I.from_i64
/-- `FromPrimitive::from_u64(From::from(n))` -/
def from_u8 (n : Int) : Option α := I.from_u64 n
def from_u16 (n : Int) : Option α := I.from_u64 n
def from_u32 (n : Int) : Option α := I.from_u64 n
/-- `n.to_u64().and_then(FromPrimitive::from_u64)` -/
def from_usize (n : Int) : Option α := (NumTraits.to_u64 n).bind I.from_u64
def from_u128 (n : Int) : Option α := (NumTraits.to_u64 n).bind I.from_u64
end FromPrimitive

/-- the integer types `FromPrimitive` has a method for -/
inductive PrimTy where
  | i8 | i16 | i32 | i64 | isize | i128 | u8 | u16 | u32 | u64 | usize | u128
  deriving DecidableEq, Repr

def PrimTy.all : List PrimTy :=
  [.i8, .i16, .i32, .i64, .isize, .i128, .u8, .u16, .u32, .u64, .usize, .u128]

/-- as the driver spells them -/
def PrimTy.ofString (s : String) : Option PrimTy :=
  if s = "i8" then some .i8 else if s = "i16" then some .i16 else if s = "i32" then some .i32
  else if s = "i64" then some .i64 else if s = "isize" then some .isize
  else if s = "i128" then some .i128 else if s = "u8" then some .u8 else if s = "u16" then some .u16
  else if s = "u32" then some .u32 else if s = "u64" then some .u64
  else if s = "usize" then some .usize else if s = "u128" then some .u128 else none

/-- the values of the type (64-bit target: `isize` = `i64`, `usize` = `u64`) -/
def PrimTy.range : PrimTy → Int × Int
  | .i8 => (I8_MIN, I8_MAX) | .i16 => (I16_MIN, I16_MAX) | .i32 => (I32_MIN, I32_MAX)
  | .i64 => (I64_MIN, I64_MAX) | .isize => (I64_MIN, I64_MAX) | .i128 => (I128_MIN, I128_MAX)
  | .u8 => (0, U8_MAX) | .u16 => (0, U16_MAX) | .u32 => (0, U32_MAX) | .u64 => (0, U64_MAX)
  | .usize => (0, U64_MAX) | .u128 => (0, 340282366920938463463374607431768211455)

namespace Weekday
/-- `impl TryFrom<u8> for Weekday` (`.ok()` of the result) -/
def try_from_u8 (n : Int) : Option M.Weekday :=
  (matchArms Extracted.WEEKDAY_TRYFROM_U8_ARMS Extracted.WEEKDAY_TRYFROM_U8_DEFAULT n).bind M.Weekday.ofDisc
/-- `<Weekday as FromPrimitive>::from_i64` -/
def from_i64 (n : Int) : Option M.Weekday :=
  (matchArms Extracted.WEEKDAY_FROM_I64_ARMS Extracted.WEEKDAY_FROM_I64_DEFAULT n).bind M.Weekday.ofDisc
/-- `<Weekday as FromPrimitive>::from_u64` -/
def from_u64 (n : Int) : Option M.Weekday :=
  (matchArms Extracted.WEEKDAY_FROM_U64_ARMS Extracted.WEEKDAY_FROM_U64_DEFAULT n).bind M.Weekday.ofDisc
/-- the impl: only `from_i64` and `from_u64` are written (`Extracted.WEEKDAY_FROMPRIMITIVE_OVERRIDES`) -/
def prim : FromPrimitive M.Weekday := ⟨from_i64, from_u64⟩
def from_u32 (n : Int) : Option M.Weekday := prim.from_u32 n
def from_i32 (n : Int) : Option M.Weekday := prim.from_i32 n
/-- every `FromPrimitive` method, by its argument type -/
def fromPrim : PrimTy → Int → Option M.Weekday
  | .i8 => prim.from_i8 | .i16 => prim.from_i16 | .i32 => from_i32 | .i64 => from_i64
  | .isize => prim.from_isize | .i128 => prim.from_i128
  | .u8 => prim.from_u8 | .u16 => prim.from_u16 | .u32 => from_u32 | .u64 => from_u64
  | .usize => prim.from_usize | .u128 => prim.from_u128
end Weekday

/-- the integer → `u32` step of `Month::from_u64` / `from_i64`, as the extracted body says:
0 = `u32::try_from(n).ok()?`, otherwise `n as u32` -/
def viaU32 (via : Nat) (n : Int) : Option Int :=
  if via = 0 then (if inU32 n then some n else none) else some (asU32 n)

namespace Month
/-- `impl TryFrom<u8> for Month` -/
def try_from_u8 (n : Int) : Option M.Month :=
  (matchArms Extracted.MONTH_TRYFROM_U8_ARMS Extracted.MONTH_TRYFROM_U8_DEFAULT n).bind M.Month.ofDisc
/-- `<Month as FromPrimitive>::from_u32` (written by the impl, not the default) -/
def from_u32 (n : Int) : Option M.Month :=
  (matchArms Extracted.MONTH_FROM_U32_ARMS Extracted.MONTH_FROM_U32_DEFAULT n).bind M.Month.ofDisc
/-- `Self::from_u32(u32::try_from(n).ok()?)` -/
def from_u64 (n : Int) : Option M.Month := (viaU32 Extracted.MONTH_FROM_U64_VIA n).bind from_u32
def from_i64 (n : Int) : Option M.Month := (viaU32 Extracted.MONTH_FROM_I64_VIA n).bind from_u32
/-- the impl writes `from_u64`, `from_i64` and `from_u32` (`Extracted.MONTH_FROMPRIMITIVE_OVERRIDES`) -/
def prim : FromPrimitive M.Month := ⟨from_i64, from_u64⟩
def from_i32 (n : Int) : Option M.Month := prim.from_i32 n
def fromPrim : PrimTy → Int → Option M.Month
  | .i8 => prim.from_i8 | .i16 => prim.from_i16 | .i32 => from_i32 | .i64 => from_i64
  | .isize => prim.from_isize | .i128 => prim.from_i128
  | .u8 => prim.from_u8 | .u16 => prim.from_u16 | .u32 => from_u32 | .u64 => from_u64
  | .usize => prim.from_usize | .u128 => prim.from_u128
end Month

end Conv
end Chrono.M
