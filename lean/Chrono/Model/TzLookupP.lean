/-
  Three-valued (ok | err | panic) models of the two offset lookups of timezone.rs / rule.rs, as they
  run on a zone the reader has built (property C16, last sentence: "a zone that was accepted answers
  offset queries for every representable instant and wall-clock time without panicking").

  Property C05 models the same Rust functions `Option`-valued, with unbounded `Int` arithmetic and
  `getD` indexing (Model/TzLookup.lean) — good for WHAT they compute, unable to express a panic.
  Here every slice index (`local_time_types[i]`, `transitions[index - 1]`) is a possible `panic`,
  every unchecked `i64` step goes through `ck64`, `checked_add` is `err` on overflow and
  `saturating_add` (the two `transition time + offset` sites of
  `find_local_time_type_from_local`, as repaired by F10 / afc5d12) saturates.  Same names and branch
  structure as the Rust code.  The comparison cascades that contain no arithmetic are shared with
  C05's model (`M.TzL.alt_classify`, and the result types `Mapped`, `LoopOut`).

    timezone.rs  TimeZoneRef::{find_local_time_type, find_local_time_type_from_local,
                 unix_time_to_unix_leap_time}
    rule.rs      TransitionRule::{find_local_time_type (= `Rule.find_ltt_for_validate`, Model/TzRule.lean),
                 find_local_time_type_from_local}, AlternateTime::find_local_time_type_from_local
-/
import Chrono.Model.TzParse
import Chrono.Model.TzLookup
namespace Chrono.M.Tz
open Chrono
open Chrono.M.TzL (Mapped LoopOut alt_classify)

/-- `self.local_time_types[i]` -/
def typeIdx (z : Zone) (i : Nat) : P Ltt :=
  match z.types[i]? with
  | some t => .ok t
  | none => .panic

/-- the loop of `unix_time_to_unix_leap_time` (`cur` is the running `unix_leap_time`); the index
`leap_seconds[i]` is guarded by the loop condition; `checked_add` -/
def toLeapLoopP : List LeapSecond → Int → Int → P Int
  | [], _, cur => .ok cur
  | l :: rest, unix_time, cur =>
    if cur < l.time then .ok cur
    else match optI64 (unix_time + l.corr) with
      | none => .err
      | some c => toLeapLoopP rest unix_time c

def unix_time_to_unix_leap_time_P (z : Zone) (unix_time : Int) : P Int :=
  toLeapLoopP z.leaps unix_time unix_time

/-- `TimeZoneRef::find_local_time_type(unix_time)`; the rule lookup is the overflow-checked model
`Rule.find_ltt_for_validate` of `TransitionRule::find_local_time_type` -/
def Zone.find_local_time_type_P (z : Zone) (unix_time : Int) : P Ltt :=
  match z.transitions.getLast? with
  | none =>
    match z.rule with
    | some r => r.find_ltt_for_validate unix_time
    | none => typeIdx z 0
  | some last_transition =>
    unix_time_to_unix_leap_time_P z unix_time >>= fun unix_leap_time =>
    if unix_leap_time ≥ last_transition.time then
      match z.rule with
      | some r => r.find_ltt_for_validate unix_time
      | none => typeIdx z last_transition.idx
    else
      let index := bsearchUpper (z.transitions.map (·.time)) unix_leap_time
      (if index > 0 then
          match z.transitions[index - 1]? with
          | some tr => (.ok tr.idx : P Nat)
          | none => .panic
        else .ok 0) >>= fun local_time_type_index =>
      typeIdx z local_time_type_index

/-- the `for transition in self.transitions` loop of `find_local_time_type_from_local` -/
def fromLocalLoopP (z : Zone) : List Transition → Ltt → Int → P LoopOut
  | [], prev, _ => .ok (.fell prev)
  | transition :: rest, prev, ℓ =>
    match typeIdx z transition.idx with
    | .err => .err
    | .panic => .panic
    | .ok after_ltt =>
      let transition_end := satI64 (transition.time + after_ltt.off)
      let transition_start := satI64 (transition.time + prev.off)
      if transition_start > transition_end then
        if ℓ < transition_end then .ok (.ret (.single prev))
        else if ℓ ≥ transition_end ∧ ℓ ≤ transition_start then .ok (.ret (.ambiguous prev after_ltt))
        else fromLocalLoopP z rest after_ltt ℓ
      else if transition_start = transition_end then
        if ℓ < transition_start then .ok (.ret (.single prev))
        else if ℓ = transition_end then .ok (.ret (.single after_ltt))
        else fromLocalLoopP z rest after_ltt ℓ
      else
        if ℓ ≤ transition_start then .ok (.ret (.single prev))
        else if ℓ < transition_end then .ok (.ret .none)
        else if ℓ = transition_end then .ok (.ret (.single after_ltt))
        else fromLocalLoopP z rest after_ltt ℓ

/-- `AlternateTime::find_local_time_type_from_local(local_time)` with
`current_year = local_time.year()` and `ℓ = local_time.and_utc().timestamp()`: the four window ends
are unchecked `i64` sums (`unix_time(..) + i64::from(time) + i64::from(off) - i64::from(off)`) -/
def Alt.find_local_time_type_from_local_P (a : Alt) (current_year : Int) (ℓ : Int) : P (Mapped Ltt) :=
  a.dstStart.unix_time current_year 0 >>= fun us0 =>
  ck64 (us0 + a.dstStartTime) >>= fun dst_start_transition_start =>
  a.dstStart.unix_time current_year 0 >>= fun us1 =>
  ck64 (us1 + a.dstStartTime) >>= fun x1 =>
  ck64 (x1 + a.dst.off) >>= fun x2 =>
  ck64 (x2 - a.std.off) >>= fun dst_start_transition_end =>
  a.dstEnd.unix_time current_year 0 >>= fun ue0 =>
  ck64 (ue0 + a.dstEndTime) >>= fun dst_end_transition_start =>
  a.dstEnd.unix_time current_year 0 >>= fun ue1 =>
  ck64 (ue1 + a.dstEndTime) >>= fun y1 =>
  ck64 (y1 + a.std.off) >>= fun y2 =>
  ck64 (y2 - a.dst.off) >>= fun dst_end_transition_end =>
  .ok (alt_classify a (decide (dst_start_transition_start < dst_end_transition_start))
    (dst_start_transition_start, dst_start_transition_end, dst_end_transition_start,
      dst_end_transition_end) ℓ)

/-- `TransitionRule::find_local_time_type_from_local` -/
def Rule.find_local_time_type_from_local_P (r : Rule) (current_year : Int) (ℓ : Int) : P (Mapped Ltt) :=
  match r with
  | .fixed l => .ok (.single l)
  | .alt a => a.find_local_time_type_from_local_P current_year ℓ

/-- `TimeZoneRef::find_local_time_type_from_local(local_time)`; `year = local_time.year()`,
`ℓ = local_time.and_utc().timestamp()` -/
def Zone.find_local_time_type_from_local_P (z : Zone) (year : Int) (ℓ : Int) : P (Mapped Ltt) :=
  (if !z.transitions.isEmpty then
      typeIdx z 0 >>= fun prev => fromLocalLoopP z z.transitions prev ℓ
    else typeIdx z 0 >>= fun t => .ok (LoopOut.fell t)) >>= fun out =>
  match out with
  | .ret m => .ok m
  | .fell offset_after_last =>
    match z.rule with
    | some r => r.find_local_time_type_from_local_P year ℓ
    | none => .ok (.single offset_after_last)

end Chrono.M.Tz
