/-
  Shared data types for the TZif / POSIX-TZ models (src/offset/local/tz_info):
  what `parser::parse` / `TransitionRule::from_tz_string` produce and what the lookups consume.
-/
import Chrono.Prim
namespace Chrono.M.Tz

/-- `LocalTimeType`: UTC offset in seconds, DST flag, abbreviation bytes (`none` = no name) -/
structure Ltt where
  off : Int
  dst : Bool
  name : Option (List Nat)
  deriving DecidableEq, Repr

/-- `Transition`: Unix leap time and index of the local time type in force from then on -/
structure Transition where
  time : Int
  idx : Nat
  deriving DecidableEq, Repr

structure LeapSecond where
  time : Int
  corr : Int
  deriving DecidableEq, Repr

/-- `RuleDay` -/
inductive RuleDay where
  | julian1 (n : Nat)                      -- `Jn`, 1..365, Feb 29 never counted
  | julian0 (n : Nat)                      -- `n`, 0..365, Feb 29 counted
  | mwd (month week weekDay : Nat)         -- `Mm.w.d`
  deriving DecidableEq, Repr

/-- `AlternateTime` -/
structure Alt where
  std : Ltt
  dst : Ltt
  dstStart : RuleDay
  dstStartTime : Int
  dstEnd : RuleDay
  dstEndTime : Int
  deriving DecidableEq, Repr

/-- `TransitionRule` -/
inductive Rule where
  | fixed (t : Ltt)
  | alt (a : Alt)
  deriving DecidableEq, Repr

/-- `TimeZone` -/
structure Zone where
  transitions : List Transition
  types : List Ltt
  leaps : List LeapSecond
  rule : Option Rule
  deriving DecidableEq, Repr

def showName : Option (List Nat) → String
  | some bs => String.ofList (bs.map (fun b => Char.ofNat b))
  | none => "-"

def Ltt.dump (t : Ltt) : String := s!"{t.off},{if t.dst then 1 else 0},{showName t.name}"

def RuleDay.dump : RuleDay → String
  | .julian1 n => s!"J{n}"
  | .julian0 n => s!"{n}"
  | .mwd m w d => s!"M{m}.{w}.{d}"

def Rule.dump : Rule → String
  | .fixed t => s!"fixed({t.dump})"
  | .alt a => s!"alt(std=({a.std.dump}),dst=({a.dst.dump}),start={a.dstStart.dump}/{a.dstStartTime},end={a.dstEnd.dump}/{a.dstEndTime})"

/-- the canonical text form printed by the `__verif_tz` hook (`Zone::dump`) -/
def Zone.dump (z : Zone) : String :=
  let types := ";".intercalate (z.types.map Ltt.dump)
  let trans := ",".intercalate (z.transitions.map (fun t => s!"{t.time}:{t.idx}"))
  let leaps := ",".intercalate (z.leaps.map (fun l => s!"{l.time}:{l.corr}"))
  let rule := match z.rule with | some r => r.dump | none => "none"
  s!"types=[{types}] trans=[{trans}] leaps=[{leaps}] rule={rule}"

end Chrono.M.Tz
