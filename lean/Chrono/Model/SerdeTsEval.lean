/-
  Meaning of the body terms of Model/SerdeTsCode.lean (the data tools/extractors/serde_ts.py extracts from
  the sixteen `ts_*` modules): a generic evaluator with Rust's debug-build integer semantics
    `a / b`, `a % b`          truncating (`Int.tdiv`, `Int.tmod`); panic for a zero divisor and for `MIN / -1`
    `a.div_euclid(b)`, `a.rem_euclid(b)`   Euclidean (`/`, `%` on `Int`); same panics
    `a * b`                   checked in the operand type (`ckI64` / `ckU64` / `ckU32`)
    `a as t`                  two's-complement conversion (`asI64`, `asU64`, `asU32`)
    `a > b` …                 on the values
  and the callees given by the models of Model/DateTime.lean / Model/SerdeTs.lean.  Nothing here knows about a
  particular module: `Props.C20.ts_bodies_ok` shows that the evaluator applied to the EXTRACTED terms is the
  hand-written function of Model/SerdeTs.lean, for all sixteen modules.

  A term that Rust's type checker would refuse (wrong arity of a constructor, `timestamp_nanos_opt()` without
  `.ok_or(..)?`, `serialize_none` with an argument …) evaluates to `.panic`; `ts_bodies_ok` shows in passing that
  no extracted term is of that kind (the model functions do not panic there).
-/
import Chrono.Model.SerdeTs
import Chrono.Model.SerdeTsCode
namespace Chrono.M.Serde.Code
open Chrono.M Chrono.M.Serde

/-- `x as u64` -/
def asU64 (x : Int) : Int := x % 18446744073709551616

/-- static type of an expression, `vt` = type of `value` (a bare literal has none of its own) -/
def tyOf (vt : Ty) : E → Option Ty
  | .value => some vt
  | .lit _ => none
  | .i64Max => some .i64
  | .div a b => (tyOf vt a).orElse fun _ => tyOf vt b
  | .rem a b => (tyOf vt a).orElse fun _ => tyOf vt b
  | .mul a b => (tyOf vt a).orElse fun _ => tyOf vt b
  | .divEuclid a b => (tyOf vt a).orElse fun _ => tyOf vt b
  | .remEuclid a b => (tyOf vt a).orElse fun _ => tyOf vt b
  | .cast _ t => some t

/-- overflow check of the type -/
def ck : Ty → Int → Res Int
  | .i64 => ckI64
  | .u64 => ckU64
  | .u32 => ckU32

def asT : Ty → Int → Int
  | .i64 => asI64
  | .u64 => asU64
  | .u32 => asU32

/-- division-like operators panic for a zero divisor and (signed) for `MIN ∘ -1` -/
def divGuard (t : Ty) (x y : Int) (r : Int) : Res Int :=
  if y = 0 then .panic
  else if t = .i64 ∧ x = I64_MIN ∧ y = -1 then .panic
  else .ok r

def evalE (vt : Ty) (v : Int) : E → Res Int
  | .value => .ok v
  | .lit n => .ok n
  | .i64Max => .ok I64_MAX
  | .div a b => (evalE vt v a).bind fun x => (evalE vt v b).bind fun y =>
      divGuard (((tyOf vt a).orElse fun _ => tyOf vt b).getD .i64) x y (Int.tdiv x y)
  | .rem a b => (evalE vt v a).bind fun x => (evalE vt v b).bind fun y =>
      divGuard (((tyOf vt a).orElse fun _ => tyOf vt b).getD .i64) x y (Int.tmod x y)
  | .mul a b => (evalE vt v a).bind fun x => (evalE vt v b).bind fun y =>
      ck (((tyOf vt a).orElse fun _ => tyOf vt b).getD .i64) (x * y)
  | .divEuclid a b => (evalE vt v a).bind fun x => (evalE vt v b).bind fun y =>
      divGuard (((tyOf vt a).orElse fun _ => tyOf vt b).getD .i64) x y (x / y)
  | .remEuclid a b => (evalE vt v a).bind fun x => (evalE vt v b).bind fun y =>
      divGuard (((tyOf vt a).orElse fun _ => tyOf vt b).getD .i64) x y (x % y)
  | .cast a t => (evalE vt v a).bind fun x => .ok (asT t x)

def evalArgs (vt : Ty) (v : Int) : List E → Res (List Int)
  | [] => .ok []
  | e :: es => (evalE vt v e).bind fun x => (evalArgs vt v es).bind fun xs => .ok (x :: xs)

def Cmp.holds : Cmp → Int → Int → Bool
  | .gt, x, y => decide (x > y)
  | .ge, x, y => decide (x ≥ y)
  | .lt, x, y => decide (x < y)
  | .le, x, y => decide (x ≤ y)

/-- the `DateTime::…` constructors (models of Model/DateTime.lean) -/
def Ctor.call : Ctor → List Int → Res (Option NaiveDT)
  | .from_timestamp, [s, n] => NaiveDT.from_timestamp s n
  | .from_timestamp_millis, [m] => NaiveDT.from_timestamp_millis m
  | .from_timestamp_micros, [u] => NaiveDT.from_timestamp_micros u
  | _, _ => .panic

/-- a `visit_i64` (`vt = .i64`) / `visit_u64` (`vt = .u64`) body on the argument `v` -/
def evalVisit (vt : Ty) (v : Int) : Visit → Res (SR NaiveDT)
  | .build c args mp =>
      (evalArgs vt v args).bind fun xs => (c.call xs).bind fun r =>
      .ok (ok_or (if mp then r.map naive_utc else r))
  | .refuseIf c a b els =>
      (evalE vt v a).bind fun x => (evalE vt v b).bind fun y =>
      if c.holds x y then .ok .err else evalVisit vt v els

/-- the visitor whose two methods have the bodies `bi` / `bu`; every other visitor method is serde's default -/
def visitor (bi bu : Visit) : WInt → Res (SR NaiveDT)
  | .i64 v => evalVisit .i64 v bi
  | .u64 v => evalVisit .u64 v bu
  | .other => .ok .err

/-- `serializer.m(…)` with an `i64` argument -/
def SerM.write : SerM → Int → Res (SR SOut)
  | .serialize_i64, n => .ok (.ok (.i64 n))
  | .serialize_some, n => .ok (.ok (.some n))
  | _, _ => .panic

def evalSerCall (c : SerCall) (dt : NaiveDT) : Res (SR SOut) :=
  let d := if c.andUtc then and_utc dt else dt
  match c.acc, c.okOrTry with
  | .timestamp, false => (NaiveDT.timestamp d).bind fun t => c.m.write t
  | .timestamp_millis, false => (NaiveDT.timestamp_millis d).bind fun t => c.m.write t
  | .timestamp_micros, false => (NaiveDT.timestamp_micros d).bind fun t => c.m.write t
  | .timestamp_nanos_opt, true => (NaiveDT.timestamp_nanos_opt d).bind fun o =>
      match ok_or o with
      | .ok n => c.m.write n
      | .err => .ok .err
  | _, _ => .panic

/-- a plain module's `serialize` -/
def evalSer : Ser → NaiveDT → Res (SR SOut)
  | .plain c, dt => evalSerCall c dt
  | .matchOpt _ _, _ => .panic

/-- an `_option` module's `serialize` -/
def evalSerOpt : Ser → Option NaiveDT → Res (SR SOut)
  | .matchOpt c _, some dt => evalSerCall c dt
  | .matchOpt _ .serialize_none, none => .ok (.ok .none)
  | _, _ => .panic

/-- `d.deserialize_i64(V)post` of a plain module: `WInt` IS what `deserialize_i64` delivers, so the term has
this meaning only for `m = deserialize_i64` (a separate conjunct of `ts_bodies_ok`) -/
def evalDe (d : De) (vis : Vis → WInt → Res (SR NaiveDT)) (w : WInt) : Res (SR NaiveDT) :=
  match d.post with
  | .none => vis d.visitor w
  | .mapWithTzUtc => (vis d.visitor w).bind fun r => .ok (r.map and_utc)
  | _ => .panic

def evalUnitish : Unitish → Res (SR (Option NaiveDT))
  | .okNone => .ok (.ok none)

/-- the `Option…Visitor` with `visit_some` / `visit_none` / `visit_unit` bodies `s` / `n` / `u` -/
def optVisitor (s : De) (n u : Unitish) (vis : Vis → WInt → Res (SR NaiveDT)) : WOpt → Res (SR (Option NaiveDT))
  | .some w => match s.post with
      | .mapSome => (vis s.visitor w).bind fun r => .ok (r.map some)
      | _ => .panic
  | .none => evalUnitish n
  | .unit => evalUnitish u
  | .other => .ok .err

/-- `d.deserialize_option(V)post` of an `_option` module -/
def evalDeOpt (d : De) (ovis : Vis → WOpt → Res (SR (Option NaiveDT))) (w : WOpt) : Res (SR (Option NaiveDT)) :=
  match d.post with
  | .none => ovis d.visitor w
  | .mapOptMapWithTzUtc => (ovis d.visitor w).bind fun r => .ok (r.map fun o => o.map and_utc)
  | _ => .panic

end Chrono.M.Serde.Code
