/-
  Panic-aware copy of the `%` branch of `StrftimeItems::parse_next_item` (src/format/strftime.rs),
  for property C15 (audit2/C15.md, MEDIUM-3).

  `Strftime.error` (Model/Strftime.lean) models `*error_len -= c.len_utf8()` by TRUNCATED `Nat`
  subtraction and the two slices `&original[*error_len..]`, `&original[..*error_len]` by
  `List.drop`/`List.take`, which cannot fail.  In the overflow-checked build the subtraction panics on
  underflow, and a `&str` slice panics unless the index is `≤ len` and on a char boundary.  Here
  these three operations are explicit:

  * `sliceOk s k`      : `&s[k..]` / `&s[..k]` is legal (`k ≤ s.len() ∧ s.is_char_boundary(k)`);
  * `errorR`           : `StrftimeItems::error` with the checked `-=` and the checked slices
                         (in strict mode the slice is `&original[original.len()..]`);
  * `fracArmR`, `specArmR`, `parse_next_itemR` : the same branch structure as `fracArm`, `specArm`,
    `parse_next_item`, every call of `error` replaced by `errorR`, `.panic` propagated.

  Nothing else is changed: the other slices of `parse_next_item` (`&remainder[1..]`,
  `&remainder[x.len_utf8()..]`, `&remainder[3..]`, the text runs) return their rest and are covered by
  the `BoundarySuffix` facts of Proofs/StrftimeUtf8L.lean / Proofs/StrftimeLenientL.lean; the
  additions `error_len += …` are bounded by the length of the string and are not modelled as checked.
  `Proofs.StrftimeLenient.parse_next_itemR_ok` proves `parse_next_itemR l s = .ok (parse_next_item l s)`
  for every well-formed UTF-8 `s`.  No Mathlib / Std / Batteries import.
-/
import Chrono.Prim
import Chrono.Model.Strftime
import Chrono.Spec.Utf8Spec
namespace Chrono.M
namespace Strftime
open Chrono.Spec.Utf8
open Scan (wsLen charLen)

/-- the slice expressions `&s[k..]` and `&s[..k]` do not panic -/
def sliceOk (s : List Nat) (k : Nat) : Bool := decide (k ≤ s.length) && isCharBoundary s k

/-- `self.error(original, &mut error_len, ch)` with the `usize` subtraction checked and both slice
expressions checked. -/
def errorR (lenient : Bool) (original : List Nat) (error_len : Nat) (ch : Option Nat) :
    Res (List Nat × Item × Nat) :=
  if !lenient then
    -- `&original[original.len()..]`
    if sliceOk original original.length then .ok ([], .error, error_len) else .panic
  else if error_len < ch.getD 0 then .panic              -- `*error_len -= c.len_utf8()` underflows
  else
    let el := error_len - ch.getD 0
    -- `(&original[*error_len..], Item::Literal(&original[..*error_len]))`
    if sliceOk original el then .ok (original.drop el, .literal (original.take el), el) else .panic

/-- `fracArm` over `errorR` -/
def fracArmR (lenient : Bool) (original rem : List Nat) (el : Nat) (ok : Item) : Res Arm :=
  match nextCh rem with
  | none =>
    match errorR lenient original el none with
    | .ok e => .ok (.ret e.1 e.2.1)
    | .panic => .panic
  | some (c, n, rem') =>
    let el := if lenient then el + n else el
    if c = 102 then .ok (.item ok rem' [] el)
    else
      match errorR lenient original el (some n) with
      | .ok e => .ok (.item e.2.1 e.1 [] e.2.2)
      | .panic => .panic

/-- `specArm` over `errorR` -/
def specArmR (lenient : Bool) (original rem : List Nat) (el : Nat) (is_alternate : Bool) (c n : Nat) :
    Res Arm :=
  if c = 122 then .ok (.item (zItem is_alternate) rem [] el)
  else if c = 58 then
    if startsWith rem [58, 58, 122] then .ok (.item (fixed .timezoneOffsetTripleColon) (rem.drop 3) [] el)
    else if startsWith rem [58, 122] then .ok (.item (fixed .timezoneOffsetDoubleColon) (rem.drop 2) [] el)
    else if startsWith rem [122] then .ok (.item (fixed .timezoneOffsetColon) (rem.drop 1) [] el)
    else
      match errorR lenient original el none with     -- the slices are evaluated, `.1` is kept
      | .ok e => .ok (.item e.2.1 rem [] el)
      | .panic => .panic
  else if c = 46 then
    match nextCh rem with
    | none =>
      match errorR lenient original el none with
      | .ok e => .ok (.ret e.1 e.2.1)
      | .panic => .panic
    | some (c1, n1, rem1) =>
      let el1 := if lenient then el + n1 else el
      if c1 = 51 then fracArmR lenient original rem1 el1 (fixed .nanosecond3)
      else if c1 = 54 then fracArmR lenient original rem1 el1 (fixed .nanosecond6)
      else if c1 = 57 then fracArmR lenient original rem1 el1 (fixed .nanosecond9)
      else if c1 = 102 then .ok (.item (fixed .nanosecond) rem1 [] el1)
      else
        match errorR lenient original el1 (some n1) with
        | .ok e => .ok (.item e.2.1 e.1 [] e.2.2)
        | .panic => .panic
  else if c = 51 then fracArmR lenient original rem el (fixed .nanosecond3NoDot)
  else if c = 54 then fracArmR lenient original rem el (fixed .nanosecond6NoDot)
  else if c = 57 then fracArmR lenient original rem el (fixed .nanosecond9NoDot)
  else match specTable c with
    | some (it, q) => .ok (.item it rem q el)
    | none =>
      match errorR lenient original el (some n) with
      | .ok e => .ok (.item e.2.1 e.1 [] e.2.2)
      | .panic => .panic

/-- `Some(self.error(original, &mut error_len, ch))` with the queue `q` left installed -/
def errRet (lenient : Bool) (original : List Nat) (el : Nat) (ch : Option Nat) (q : List Item) :
    Res (Option (List Nat × Item × List Item)) :=
  match errorR lenient original el ch with
  | .ok e => .ok (some (e.1, e.2.1, q))
  | .panic => .panic

/-- `StrftimeItems::parse_next_item` over `errorR`: `.panic` if a checked subtraction or a slice
expression inside `error` would panic -/
def parse_next_itemR (lenient : Bool) (s : List Nat) : Res (Option (List Nat × Item × List Item)) :=
  match s with
  | [] => .ok none
  | 37 :: r0 =>
    let original := s
    let el0 := if lenient then 1 else 0
    match nextCh r0 with
    | none => errRet lenient original el0 none []
    | some (c0, n0, r1) =>
      let el1 := if lenient then el0 + n0 else el0
      let pad_override := padOf c0
      let is_alternate : Bool := c0 == 35
      let second : Option (Option (Nat × Nat × List Nat × Nat)) :=
        if pad_override.isSome || is_alternate then
          match nextCh r1 with
          | none => none
          | some (c, n, r2) => some (some (c, n, r2, if lenient then el1 + n else el1))
        else some (some (c0, n0, r1, el1))
      match second with
      | none | some none => errRet lenient original el1 none []
      | some (some (c, n, rem, el)) =>
        if is_alternate && c != 122 then errRet lenient original el (some n) []
        else
          match specArmR lenient original rem el is_alternate c n with
          | .panic => .panic
          | .ok (.ret rem it) => .ok (some (rem, it, []))
          | .ok (.item it rem queue el) =>
            match pad_override with
            | some new_pad =>
              match it with
              | .numeric kind _ =>
                if queue.isEmpty then .ok (some (rem, .numeric kind new_pad, []))
                else errRet lenient original el none queue
              | _ => errRet lenient original el none queue
            | none => .ok (some (rem, it, queue))
  | b :: _ =>
    if wsLen s ≠ 0 then
      let n := wsLen s + wsSpan (s.drop (wsLen s))
      .ok (some (s.drop n, .space (s.take n), []))
    else
      let n := charLen b + litSpan (s.drop (charLen b))
      .ok (some (s.drop n, .literal (s.take n), []))

/-- `itemsAux` over `parse_next_itemR`: the drained iterator, `.panic` if any `parse_next_item` call
panics inside `error` -/
def itemsAuxR (lenient : Bool) : Nat → List Nat → Res (List Item)
  | 0, _ => .ok []
  | fuel + 1, s =>
    match parse_next_itemR lenient s with
    | .panic => .panic
    | .ok none => .ok []
    | .ok (some (rem, it, q)) =>
      match itemsAuxR lenient fuel rem with
      | .ok tl => .ok (it :: (q ++ tl))
      | .panic => .panic

/-- `StrftimeItems::new_lenient(s).collect::<Vec<_>>()`, panic-aware -/
def itemsLenientR (s : List Nat) : Res (List Item) := itemsAuxR true (s.length + 1) s
/-- `StrftimeItems::new(s).collect::<Vec<_>>()`, panic-aware -/
def itemsR (s : List Nat) : Res (List Item) := itemsAuxR false (s.length + 1) s

end Strftime
end Chrono.M
