/-
  Model of the 0-based twins of the `Datelike` accessors of `NaiveDate` (src/naive/date/mod.rs:
  `month0 = self.month() - 1`, `day0 = self.mdf().day() - 1`, `ordinal0 = self.ordinal() - 1`; all
  `u32` subtractions, which the overflow-checked build turns into a panic below zero) and of
  `IsoWeek::week0` observed on a date.
-/
import Chrono.Model.Date
namespace Chrono.M.Date

/-- `u32` subtraction of 1 in the overflow-checked build -/
def subOne (x : Nat) : Res Nat := if x = 0 then .panic else .ok (x - 1)

def month0 (d : Date) : Res Nat := match d.month with | .ok m => subOne m | .panic => .panic
def day0 (d : Date) : Res Nat := match d.day with | .ok m => subOne m | .panic => .panic
def ordinal0 (d : Date) : Res Nat := subOne d.ordinal.toNat

end Chrono.M.Date

namespace Chrono.M.IsoWeek
/-- `IsoWeek::week0` as the source has it: `((self.ywf >> 4) & 0x3f) as u32 - 1` — a `u32`
subtraction, so a packed word with week field 0 panics in the overflow-checked build (like
`month0`/`day0`/`ordinal0`; the totalised `IsoWeek.week0` of Model/Date.lean cannot say that) -/
def week0r (ywf : Int) : Res Nat := Date.subOne ((ywf / 16) % 64).toNat
end Chrono.M.IsoWeek
