/-
  Model glue for property C11 (RFC 2822 date-times): the two public entry points of
  src/datetime/mod.rs built from the shared models.

  * `parse_from_rfc2822 s` = `DateTime::<FixedOffset>::parse_from_rfc2822(s)`:
      `parse(&mut parsed, s, [Item::Fixed(Fixed::RFC2822)].iter())?; parsed.to_datetime()`
    (`Parse.parse` → `Parse.parse_rfc2822`, then `Parsed.to_datetime`).
  * `to_rfc2822 z` = `DateTime::<FixedOffset>::to_rfc2822(&self)`:
      `write_rfc2822(&mut result, self.overflowing_naive_local(), self.offset.fix()).expect(..)`
    The `expect` makes it PANIC (documented in the rustdoc: "Panics if the date can not be
    represented in this format") whenever the wall-clock year is outside 0–9999; the model returns
    `Res.panic` there.

  The scanner itself (`parse_rfc2822`, `scan::{short_weekday, short_month0, space, number, char,
  timezone_offset_2822, comment_2822}`) lives in Model/Parse.lean and Model/Scan.lean, the writer
  `write_rfc2822` in Model/Format.lean, field resolution in Model/ParsedResolve.lean.
-/
import Chrono.Model.Parse
import Chrono.Model.ParsedResolve
import Chrono.Model.Format
namespace Chrono.M
namespace Rfc2822

/-- `const ITEMS: &[Item<'static>] = &[Item::Fixed(Fixed::RFC2822)]` -/
def ITEMS : List Item := [.fixed .rfc2822]

/-- `DateTime::parse_from_rfc2822(s)` -/
def parse_from_rfc2822 (s : List Nat) : Parsed.RP Zoned :=
  match Parse.parse Parsed.new s ITEMS with
  | .error e => .ok (.error e)
  | .ok p => Parsed.to_datetime p

/-- `DateTime::to_rfc2822(&self)`; `.panic` = the `expect` on `Err(fmt::Error)` (wall-clock year
outside 0–9999) or a panic inside an accessor -/
def to_rfc2822 (z : Zoned) : Res (List Nat) :=
  match Zoned.overflowing_naive_local z with
  | .panic => .panic
  | .ok l =>
    match Format.write_rfc2822 l z.off with
    | .ok (some text) => .ok text
    | .ok none => .panic
    | .panic => .panic

/-- the `Ok` value of a result, `none` for `Err(_)` and for a panic (core `Except` has no
`DecidableEq`; this view is what kernel-evaluated examples compare) -/
def okVal {α} (r : Parsed.RP α) : Option α :=
  match r with
  | .ok (.ok a) => some a
  | _ => none

/-- `DateTime::parse_from_rfc2822(&dt.to_rfc2822())` -/
def roundtrip (z : Zoned) : Res (Parsed.RP Zoned) :=
  match to_rfc2822 z with
  | .panic => .panic
  | .ok text => .ok (parse_from_rfc2822 text)

/-- `DateTime::<FixedOffset>::format_with_items([Item::Fixed(Fixed::RFC2822)].iter())` written into a
`String` (`write!(s, "{}", …)` → `DelayedFormat::write_to`):
    `let local = self.overflowing_naive_local();
     DelayedFormat::new_with_offset(Some(local.date()), Some(local.time()), &self.offset, items)`
(`new_with_offset` keeps `(offset.to_string(), offset.fix())`).  Unlike `to_rfc2822` there is no
`expect`: a wall-clock year outside 0–9999 is `Err(fmt::Error)` (`.ok none`), not a panic. -/
def format_item_rfc2822 (z : Zoned) : Format.W :=
  match Zoned.overflowing_naive_local z with
  | .panic => .panic
  | .ok l =>
    Format.formatItemsR (some l.date) (some l.time) (some (Format.fixedOffsetName z.off, z.off)) ITEMS

/-- `DateTime::<FixedOffset>::format_with_items(items)` written into a `String`, ANY item list (the single
item of `format_item_rfc2822` is `format_with_items z ITEMS`, by `rfl`) -/
def format_with_items (z : Zoned) (items : List Item) : Format.W :=
  match Zoned.overflowing_naive_local z with
  | .panic => .panic
  | .ok l =>
    Format.formatItemsR (some l.date) (some l.time) (some (Format.fixedOffsetName z.off, z.off)) items

/-- `parse(&mut Parsed::new(), s, items)?; parsed.to_datetime()`: what `DateTime::parse_from_rfc2822` does,
with ANY item list in place of `[RFC2822]` (`parse_from_rfc2822 s = parse_items_to_datetime s ITEMS`, by `rfl`) -/
def parse_items_to_datetime (s : List Nat) (items : List Item) : Parsed.RP Zoned :=
  match Parse.parse Parsed.new s items with
  | .error e => .ok (.error e)
  | .ok p => Parsed.to_datetime p

end Rfc2822
end Chrono.M
