/-
  Model of the zone lookups of chrono 0.4.40 (property C05):
    src/offset/local/tz_info/rule.rs      is_leap_year, days_since_unix_epoch, UtcDateTime::from_timespec,
                                          RuleDay::{transition_date, unix_time},
                                          AlternateTime::{find_local_time_type, find_local_time_type_from_local},
                                          TransitionRule::{find_local_time_type, find_local_time_type_from_local}
    src/offset/local/tz_info/timezone.rs  TimeZoneRef::{find_local_time_type, find_local_time_type_from_local,
                                          unix_time_to_unix_leap_time}
    src/offset/local/unix.rs              Cache::offset (direction switch, `FixedOffset::east_opt` filter)
    src/offset/mod.rs                     MappedLocalTime::{map, and_then, earliest, latest}
  One definition per Rust function, same names, same branch structure.  `Option` = `Result<_, Error>`
  (`none` = `Err`); `Res` only where a panic (`expect`) is possible.

  Conventions specific to this file
  * `slice::binary_search` / `binary_search_by_key` are modelled by their contract on a strictly
    increasing slice: `Ok(x) => x + 1 | Err(x) => x` is the number of elements `≤ key`, computed here
    by a linear scan of the sorted prefix (`rankLE`).  (Trusted: std's contract; compared on every run.)
  * slice indexing `local_time_types[i]` is `getD i default`: `TimeZone::new`/`validate` (property C16)
    guarantees a non-empty type list and in-range indices for every zone that can be constructed.
  * `NaiveDateTime::year()` of the wall-clock argument is computed by the same second calendar
    (`from_timespec`), which `Props.C05.second_calendar_*` prove to be the proleptic Gregorian year.
  * all arithmetic is on values that provably fit `i64` (years are `i32`, rule times `|t| < 604800`,
    offsets `i32`); the only saturating/checked steps of the code are modelled as such
    (`satI64`, `optI64`).
-/
import Chrono.Prim
import Chrono.Extracted.TzLookup
import Chrono.Model.TzData

namespace Chrono.M.TzL
open Chrono Chrono.M.Tz Chrono.Extracted.TzL

/-- `MappedLocalTime<T>` -/
inductive Mapped (α : Type) where
  | none
  | single (a : α)
  | ambiguous (a b : α)
  deriving DecidableEq, Repr

namespace Mapped
def map {α β} (f : α → β) : Mapped α → Mapped β
  | .none => .none
  | .single a => .single (f a)
  | .ambiguous a b => .ambiguous (f a) (f b)

/-- `MappedLocalTime::and_then` -/
def and_then {α β} (f : α → Option β) : Mapped α → Mapped β
  | .none => .none
  | .single a => match f a with
    | some b => .single b
    | Option.none => .none
  | .ambiguous a b => match f a, f b with
    | some x, some y => .ambiguous x y
    | _, _ => .none

def earliest {α} : Mapped α → Option α
  | .none => Option.none
  | .single a => some a
  | .ambiguous a _ => some a
def latest {α} : Mapped α → Option α
  | .none => Option.none
  | .single a => some a
  | .ambiguous _ b => some b

/-- the candidates, in the order they are reported -/
def toList {α} : Mapped α → List α
  | .none => []
  | .single a => [a]
  | .ambiguous a b => [a, b]
end Mapped

instance : Inhabited Ltt := ⟨⟨0, false, Option.none⟩⟩

/-- `i64::saturating_add` result for an exact sum `x` -/
@[inline] def satI64 (x : Int) : Int := if x > I64_MAX then I64_MAX else if x < I64_MIN then I64_MIN else x

/-- contract of `binary_search(&key)` followed by `Ok(x) => x + 1, Err(x) => x` on a strictly
increasing slice: the number of elements `≤ key` (they form a prefix) -/
def rankLE : List Int → Int → Nat
  | [], _ => 0
  | x :: xs, k => if x ≤ k then rankLE xs k + 1 else 0

/-! ### rule.rs — the second calendar -/

/-- `is_leap_year` (`%` on `i32` truncates) -/
def is_leap_year (year : Int) : Bool :=
  year.tmod 400 == 0 || (year.tmod 4 == 0 && year.tmod 100 != 0)

/-- `days_since_unix_epoch(year, month, month_day)`; `/` truncates toward zero -/
def days_since_unix_epoch (year : Int) (month : Nat) (month_day : Int) : Int :=
  let leap := is_leap_year year
  let r0 := (year - 1970) * 365
  let r1 :=
    if year ≥ 1970 then
      let r := r0 + (year - 1968).tdiv 4 - (year - 1900).tdiv 100 + (year - 1600).tdiv 400
      if leap && month < 3 then r - 1 else r
    else
      let r := r0 + (year - 1972).tdiv 4 - (year - 2000).tdiv 100 + (year - 2000).tdiv 400
      if leap && month ≥ 3 then r + 1 else r
  r1 + CUMUL_DAY_IN_MONTHS_NORMAL_YEAR.getD (month - 1) 0 + month_day - 1

/-- `UtcDateTime` -/
structure UtcDateTime where
  year : Int
  month : Int
  month_day : Int
  hour : Int
  minute : Int
  second : Int
  deriving DecidableEq, Repr

/-- the `while month < 12 { if remaining_days < days {break}; remaining_days -= days; month += 1 }` loop -/
def monthLoop : List Int → Int → Int → Int × Int
  | [], rd, m => (rd, m)
  | days :: rest, rd, m => if rd < days then (rd, m) else monthLoop rest (rd - days) (m + 1)

/-- `UtcDateTime::from_timespec(unix_time)`; `none` = `Err(OutOfRange)` -/
def from_timespec (unix_time : Int) : Option UtcDateTime :=
  match optI64 (unix_time - UNIX_OFFSET_SECS) with
  | none => none
  | some seconds =>
    let rd0 := seconds.tdiv SECONDS_PER_DAY
    let rs0 := seconds.tmod SECONDS_PER_DAY
    let rd1 := if rs0 < 0 then rd0 - 1 else rd0
    let rs := if rs0 < 0 then rs0 + SECONDS_PER_DAY else rs0
    let c400a := rd1.tdiv DAYS_PER_400_YEARS
    let rd2a := rd1.tmod DAYS_PER_400_YEARS
    let c400 := if rd2a < 0 then c400a - 1 else c400a
    let rd2 := if rd2a < 0 then rd2a + DAYS_PER_400_YEARS else rd2a
    let c100 := min (rd2.tdiv DAYS_PER_100_YEARS) 3
    let rd3 := rd2 - c100 * DAYS_PER_100_YEARS
    let c4 := min (rd3.tdiv DAYS_PER_4_YEARS) 24
    let rd4 := rd3 - c4 * DAYS_PER_4_YEARS
    let ry := min (rd4.tdiv DAYS_PER_NORMAL_YEAR) 3
    let rd5 := rd4 - ry * DAYS_PER_NORMAL_YEAR
    let year0 := OFFSET_YEAR + ry + c4 * 4 + c100 * 100 + c400 * 400
    let lm := monthLoop DAY_IN_MONTHS_LEAP_YEAR_FROM_MARCH rd5 0
    let m1 := lm.2 + 2
    let m2 := if m1 ≥ MONTHS_PER_YEAR then m1 - MONTHS_PER_YEAR else m1
    let year := if m1 ≥ MONTHS_PER_YEAR then year0 + 1 else year0
    if inI32 year then
      some ⟨year, m2 + 1, 1 + lm.1, rs.tdiv SECONDS_PER_HOUR,
            (rs.tdiv SECONDS_PER_MINUTE).tmod MINUTES_PER_HOUR, rs.tmod SECONDS_PER_MINUTE⟩
    else none

/-! ### rule.rs — RuleDay -/

/-- `RuleDay::transition_date(year)` = `(month, month_day)` -/
def transition_date (d : RuleDay) (year : Int) : Nat × Int :=
  match d with
  | .julian1 n =>
    let year_day : Int := n
    let month := rankLE CUMUL_DAY_IN_MONTHS_NORMAL_YEAR (year_day - 1)
    (month, year_day - CUMUL_DAY_IN_MONTHS_NORMAL_YEAR.getD (month - 1) 0)
  | .julian0 n =>
    let leap : Int := if is_leap_year year then 1 else 0
    let cumul : List Int := [0, 31, 59 + leap, 90 + leap, 120 + leap, 151 + leap, 181 + leap,
      212 + leap, 243 + leap, 273 + leap, 304 + leap, 334 + leap]
    let year_day : Int := n
    let month := rankLE cumul year_day
    (month, 1 + year_day - cumul.getD (month - 1) 0)
  | .mwd rule_month week week_day =>
    let leap : Int := if is_leap_year year then 1 else 0
    let month := rule_month
    let dim0 := DAY_IN_MONTHS_NORMAL_YEAR.getD (month - 1) 0
    let day_in_month := if month = 2 then dim0 + leap else dim0
    let week_day_of_first_month_day := (4 + days_since_unix_epoch year month 1) % DAYS_PER_WEEK
    let first_week_day_occurrence_in_month :=
      1 + ((week_day : Int) - week_day_of_first_month_day) % DAYS_PER_WEEK
    let month_day := first_week_day_occurrence_in_month + ((week : Int) - 1) * DAYS_PER_WEEK
    (month, if month_day > day_in_month then month_day - DAYS_PER_WEEK else month_day)

/-- `RuleDay::unix_time(year, day_time_in_utc)` -/
def unix_time (d : RuleDay) (year : Int) (day_time_in_utc : Int) : Int :=
  let md := transition_date d year
  days_since_unix_epoch year md.1 md.2 * SECONDS_PER_DAY + day_time_in_utc

/-! ### rule.rs — AlternateTime -/

/-- the DST flag computed by `AlternateTime::find_local_time_type` once the current year is known
(previous/current/next-year cascade) -/
def alt_is_dst (a : Alt) (current_year : Int) (t : Int) : Bool :=
  let dst_start_time_in_utc := a.dstStartTime - a.std.off
  let dst_end_time_in_utc := a.dstEndTime - a.dst.off
  let cur_start := unix_time a.dstStart current_year dst_start_time_in_utc
  let cur_end := unix_time a.dstEnd current_year dst_end_time_in_utc
  if cur_start ≤ cur_end then
    if t < cur_start then
      let prev_end := unix_time a.dstEnd (current_year - 1) dst_end_time_in_utc
      if t < prev_end then
        let prev_start := unix_time a.dstStart (current_year - 1) dst_start_time_in_utc
        decide (prev_start ≤ t)
      else false
    else if t < cur_end then true
    else
      let next_start := unix_time a.dstStart (current_year + 1) dst_start_time_in_utc
      if next_start ≤ t then
        let next_end := unix_time a.dstEnd (current_year + 1) dst_end_time_in_utc
        decide (t < next_end)
      else false
  else
    if t < cur_end then
      let prev_start := unix_time a.dstStart (current_year - 1) dst_start_time_in_utc
      if t < prev_start then
        let prev_end := unix_time a.dstEnd (current_year - 1) dst_end_time_in_utc
        decide (t < prev_end)
      else true
    else if t < cur_start then false
    else
      let next_end := unix_time a.dstEnd (current_year + 1) dst_end_time_in_utc
      if next_end ≤ t then
        let next_start := unix_time a.dstStart (current_year + 1) dst_start_time_in_utc
        decide (next_start ≤ t)
      else true

/-- `AlternateTime::find_local_time_type(unix_time)`; `none` = `Err` -/
def _root_.Chrono.M.Tz.Alt.find_local_time_type (a : Alt) (t : Int) : Option Ltt :=
  match from_timespec t with
  | none => none
  | some dt =>
    let current_year := dt.year
    if I32_MIN + 2 ≤ current_year ∧ current_year ≤ I32_MAX - 2 then
      some (if alt_is_dst a current_year t then a.dst else a.std)
    else none

/-- the four windows `AlternateTime::find_local_time_type_from_local` computes for `current_year`:
`(dst_start_transition_start, dst_start_transition_end, dst_end_transition_start, dst_end_transition_end)` -/
def alt_windows (a : Alt) (current_year : Int) : Int × Int × Int × Int :=
  (unix_time a.dstStart current_year 0 + a.dstStartTime,
   unix_time a.dstStart current_year 0 + a.dstStartTime + a.dst.off - a.std.off,
   unix_time a.dstEnd current_year 0 + a.dstEndTime,
   unix_time a.dstEnd current_year 0 + a.dstEndTime + a.std.off - a.dst.off)

/-- the `match self.std.ut_offset.cmp(&self.dst.ut_offset)` of
`AlternateTime::find_local_time_type_from_local`; `startFirst` is the hemisphere test -/
def alt_classify (a : Alt) (startFirst : Bool) (w : Int × Int × Int × Int) (ℓ : Int) : Mapped Ltt :=
  let dst_start_transition_start := w.1
  let dst_start_transition_end := w.2.1
  let dst_end_transition_start := w.2.2.1
  let dst_end_transition_end := w.2.2.2
  if a.std.off = a.dst.off then .single a.std
  else if a.std.off < a.dst.off then
    if startFirst then
      -- northern hemisphere
      if ℓ ≤ dst_start_transition_start then .single a.std
      else if ℓ > dst_start_transition_start ∧ ℓ < dst_start_transition_end then .none
      else if ℓ ≥ dst_start_transition_end ∧ ℓ < dst_end_transition_end then .single a.dst
      else if ℓ ≥ dst_end_transition_end ∧ ℓ ≤ dst_end_transition_start then .ambiguous a.dst a.std
      else .single a.std
    else
      -- southern hemisphere regular DST
      if ℓ < dst_end_transition_end then .single a.dst
      else if ℓ ≥ dst_end_transition_end ∧ ℓ ≤ dst_end_transition_start then .ambiguous a.dst a.std
      else if ℓ > dst_end_transition_end ∧ ℓ < dst_start_transition_start then .single a.std
      else if ℓ ≥ dst_start_transition_start ∧ ℓ < dst_start_transition_end then .none
      else .single a.dst
  else
    if startFirst then
      -- southern hemisphere reverse DST
      if ℓ < dst_start_transition_end then .single a.std
      else if ℓ ≥ dst_start_transition_end ∧ ℓ ≤ dst_start_transition_start then .ambiguous a.std a.dst
      else if ℓ > dst_start_transition_start ∧ ℓ < dst_end_transition_start then .single a.dst
      else if ℓ ≥ dst_end_transition_start ∧ ℓ < dst_end_transition_end then .none
      else .single a.std
    else
      -- northern hemisphere reverse DST
      if ℓ ≤ dst_end_transition_start then .single a.dst
      else if ℓ > dst_end_transition_start ∧ ℓ < dst_end_transition_end then .none
      else if ℓ ≥ dst_end_transition_end ∧ ℓ < dst_start_transition_end then .single a.std
      else if ℓ ≥ dst_start_transition_end ∧ ℓ ≤ dst_start_transition_start then .ambiguous a.std a.dst
      else .single a.dst

/-- `AlternateTime::find_local_time_type_from_local`, with `current_year = local_time.year()` and
`ℓ = local_time.and_utc().timestamp()`.  Hemisphere test as repaired in /repo (finding F16):
`dst_start_transition_start < dst_end_transition_start`. -/
def _root_.Chrono.M.Tz.Alt.find_local_time_type_from_local (a : Alt) (current_year : Int) (ℓ : Int) : Mapped Ltt :=
  let w := alt_windows a current_year
  alt_classify a (decide (w.1 < w.2.2.1)) w ℓ

/-- the pinned 0.4.40 variant (before the repair of F16): hemisphere decided by comparing the
MONTHS of the two rule days only.  Kept for the counterexample in Props/C05.lean; not used by the driver. -/
def alt_from_local_pinned_month_only (a : Alt) (current_year : Int) (ℓ : Int) : Mapped Ltt :=
  alt_classify a (decide ((transition_date a.dstStart current_year).1 < (transition_date a.dstEnd current_year).1))
    (alt_windows a current_year) ℓ

/-- `TransitionRule::find_local_time_type` -/
def _root_.Chrono.M.Tz.Rule.find_local_time_type (r : Rule) (t : Int) : Option Ltt :=
  match r with
  | .fixed l => some l
  | .alt a => a.find_local_time_type t

/-- `TransitionRule::find_local_time_type_from_local` -/
def _root_.Chrono.M.Tz.Rule.find_local_time_type_from_local (r : Rule) (current_year : Int) (ℓ : Int) : Mapped Ltt :=
  match r with
  | .fixed l => .single l
  | .alt a => a.find_local_time_type_from_local current_year ℓ

/-! ### timezone.rs — TimeZoneRef -/

/-- `unix_time_to_unix_leap_time`: the loop over the leap-second records (`cur` is the running
`unix_leap_time`); `none` = `Err(OutOfRange)` -/
def toLeapLoop : List LeapSecond → Int → Int → Option Int
  | [], _, cur => some cur
  | l :: rest, unix_time, cur =>
    if cur < l.time then some cur
    else match optI64 (unix_time + l.corr) with
      | none => none
      | some c => toLeapLoop rest unix_time c

def unix_time_to_unix_leap_time (z : Zone) (unix_time : Int) : Option Int :=
  toLeapLoop z.leaps unix_time unix_time

def typeAt (z : Zone) (i : Nat) : Ltt := z.types.getD i default

/-- `TimeZoneRef::find_local_time_type(unix_time)`; `none` = `Err` -/
def _root_.Chrono.M.Tz.Zone.find_local_time_type (z : Zone) (unix_time : Int) : Option Ltt :=
  match z.transitions.getLast? with
  | none =>
    match z.rule with
    | some r => r.find_local_time_type unix_time
    | none => some (typeAt z 0)
  | some last_transition =>
    match unix_time_to_unix_leap_time z unix_time with
    | none => none
    | some unix_leap_time =>
      if unix_leap_time ≥ last_transition.time then
        match z.rule with
        | some r => r.find_local_time_type unix_time
        | none => some (typeAt z last_transition.idx)
      else
        let index := rankLE (z.transitions.map (·.time)) unix_leap_time
        let local_time_type_index :=
          if index > 0 then (z.transitions.getD (index - 1) ⟨0, 0⟩).idx else 0
        some (typeAt z local_time_type_index)

/-- outcome of the `for transition in self.transitions` loop of `find_local_time_type_from_local`:
an early `return`, or the value of `prev` after the last transition -/
inductive LoopOut where
  | ret (m : Mapped Ltt)
  | fell (prev : Ltt)
  deriving DecidableEq, Repr

def fromLocalLoop (z : Zone) : List Transition → Ltt → Int → LoopOut
  | [], prev, _ => .fell prev
  | transition :: rest, prev, ℓ =>
    let after_ltt := typeAt z transition.idx
    let transition_end := satI64 (transition.time + after_ltt.off)
    let transition_start := satI64 (transition.time + prev.off)
    if transition_start > transition_end then
      -- backwards transition (fold)
      if ℓ < transition_end then .ret (.single prev)
      else if ℓ ≥ transition_end ∧ ℓ ≤ transition_start then .ret (.ambiguous prev after_ltt)
      else fromLocalLoop z rest after_ltt ℓ
    else if transition_start = transition_end then
      if ℓ < transition_start then .ret (.single prev)
      else if ℓ = transition_end then .ret (.single after_ltt)
      else fromLocalLoop z rest after_ltt ℓ
    else
      -- forwards transition (gap)
      if ℓ ≤ transition_start then .ret (.single prev)
      else if ℓ < transition_end then .ret .none
      else if ℓ = transition_end then .ret (.single after_ltt)
      else fromLocalLoop z rest after_ltt ℓ

/-- `NaiveDateTime::year()` of the wall-clock value with timestamp `ℓ` (see the header) -/
def naiveYear (ℓ : Int) : Int :=
  match from_timespec ℓ with
  | some dt => dt.year
  | none => 0

/-- `TimeZoneRef::find_local_time_type_from_local(local_time)` with
`ℓ = local_time.and_utc().timestamp()`; never an `Err` in the code as it is -/
def _root_.Chrono.M.Tz.Zone.find_local_time_type_from_local (z : Zone) (ℓ : Int) : Mapped Ltt :=
  let out :=
    if z.transitions.isEmpty then LoopOut.fell (typeAt z 0)
    else fromLocalLoop z z.transitions (typeAt z 0) ℓ
  match out with
  | .ret m => m
  | .fell offset_after_last =>
    match z.rule with
    | some r => r.find_local_time_type_from_local (naiveYear ℓ) ℓ
    | none => .single offset_after_last

/-! ### unix.rs — Cache::offset, after the cache decision (property C18) has selected the zone -/

/-- `FixedOffset::east_opt` -/
def east_opt (secs : Int) : Option Int := if -86400 < secs ∧ secs < 86400 then some secs else none

/-- `Cache::offset(d, local)`: `x` is `d.and_utc().timestamp()`; a lookup `Err` hits `expect` -/
def cache_offset (z : Zone) (x : Int) (localDir : Bool) : Res (Mapped Int) :=
  if !localDir then
    match z.find_local_time_type x with
    | none => .panic
    | some l => match east_opt l.off with
      | some o => .ok (.single o)
      | none => .ok .none
  else
    .ok ((z.find_local_time_type_from_local x).and_then (fun l => east_opt l.off))

/-! ### mod.rs — the result contract: `TimeZone::from_local_datetime` for `Local` -/

/-- `NaiveDateTime::MIN` / `MAX` as timestamps (-262143-01-01T00:00:00 / +262142-12-31T23:59:59);
`Props.C05.ndt_range_ok` ties them to the specification's calendar -/
def NDT_MIN_TS : Int := -8334601228800
def NDT_MAX_TS : Int := 8210266876799

/-- `local.checked_sub_offset(off)`: the instant `x - o`, `None` outside the `NaiveDateTime` range -/
def checked_sub_offset (x o : Int) : Option Int :=
  if NDT_MIN_TS ≤ x - o ∧ x - o ≤ NDT_MAX_TS then some (x - o) else none

/-- `TimeZone::from_local_datetime(&Local, local)` =
`offset_from_local_datetime(local).and_then(|off| local.checked_sub_offset(off).map(|dt| DateTime::from_naive_utc_and_offset(dt, off)))`;
a `DateTime<Local>` is the pair (instant, offset); `x` is `local.and_utc().timestamp()` -/
def local_from_local_datetime (z : Zone) (x : Int) : Res (Mapped (Int × Int)) :=
  match cache_offset z x true with
  | .panic => .panic
  | .ok m => .ok (m.and_then (fun o => (checked_sub_offset x o).map (fun t => (t, o))))

end Chrono.M.TzL
