/-
  Formatting items (src/format/mod.rs: `Item`, `Numeric`, `Fixed`, `Pad`, `InternalInternal`),
  shared by the strftime parser, the formatter and the item-driven parser.  Also the protocol
  encoding of an item list (one token per item, comma separated, used by both harness and driver).
-/
import Chrono.Prim
namespace Chrono.M

inductive Pad where
  | none | zero | space
  deriving DecidableEq, Repr

inductive Numeric where
  | year | yearDiv100 | yearMod100 | isoYear | isoYearDiv100 | isoYearMod100 | quarter | month | day
  | weekFromSun | weekFromMon | isoWeek | numDaysFromSun | weekdayFromMon | ordinal | hour | hour12
  | minute | second | nanosecond | timestamp
  deriving DecidableEq, Repr

inductive Fixed where
  | shortMonthName | longMonthName | shortWeekdayName | longWeekdayName | lowerAmPm | upperAmPm
  | nanosecond | nanosecond3 | nanosecond6 | nanosecond9 | timezoneName
  | timezoneOffsetColon | timezoneOffsetDoubleColon | timezoneOffsetTripleColon
  | timezoneOffsetColonZ | timezoneOffset | timezoneOffsetZ | rfc2822 | rfc3339
  -- `Internal(InternalFixed { val })`
  | timezoneOffsetPermissive | nanosecond3NoDot | nanosecond6NoDot | nanosecond9NoDot
  deriving DecidableEq, Repr

/-- `Item` (borrowed and owned variants are not distinguished; text payloads are byte strings) -/
inductive Item where
  | literal (s : List Nat)
  | space (s : List Nat)
  | numeric (n : Numeric) (p : Pad)
  | fixed (f : Fixed)
  | error
  deriving DecidableEq, Repr

/-! ### protocol encoding: `L<hex>` `S<hex>` `N<name>:<pad>` `F<name>` `E` -/

def Pad.code : Pad → String
  | .none => "n" | .zero => "0" | .space => "s"
def Pad.ofCode : String → Option Pad
  | "n" => some .none | "0" => some .zero | "s" => some .space | _ => Option.none

def Numeric.all : List Numeric :=
  [.year, .yearDiv100, .yearMod100, .isoYear, .isoYearDiv100, .isoYearMod100, .quarter, .month, .day,
   .weekFromSun, .weekFromMon, .isoWeek, .numDaysFromSun, .weekdayFromMon, .ordinal, .hour, .hour12,
   .minute, .second, .nanosecond, .timestamp]
/-- the Rust variant name -/
def Numeric.name : Numeric → String
  | .year => "Year" | .yearDiv100 => "YearDiv100" | .yearMod100 => "YearMod100" | .isoYear => "IsoYear"
  | .isoYearDiv100 => "IsoYearDiv100" | .isoYearMod100 => "IsoYearMod100" | .quarter => "Quarter"
  | .month => "Month" | .day => "Day" | .weekFromSun => "WeekFromSun" | .weekFromMon => "WeekFromMon"
  | .isoWeek => "IsoWeek" | .numDaysFromSun => "NumDaysFromSun" | .weekdayFromMon => "WeekdayFromMon"
  | .ordinal => "Ordinal" | .hour => "Hour" | .hour12 => "Hour12" | .minute => "Minute"
  | .second => "Second" | .nanosecond => "Nanosecond" | .timestamp => "Timestamp"
def Numeric.ofName (s : String) : Option Numeric := Numeric.all.find? (fun n => n.name == s)

def Fixed.all : List Fixed :=
  [.shortMonthName, .longMonthName, .shortWeekdayName, .longWeekdayName, .lowerAmPm, .upperAmPm,
   .nanosecond, .nanosecond3, .nanosecond6, .nanosecond9, .timezoneName, .timezoneOffsetColon,
   .timezoneOffsetDoubleColon, .timezoneOffsetTripleColon, .timezoneOffsetColonZ, .timezoneOffset,
   .timezoneOffsetZ, .rfc2822, .rfc3339, .timezoneOffsetPermissive, .nanosecond3NoDot,
   .nanosecond6NoDot, .nanosecond9NoDot]
def Fixed.name : Fixed → String
  | .shortMonthName => "ShortMonthName" | .longMonthName => "LongMonthName"
  | .shortWeekdayName => "ShortWeekdayName" | .longWeekdayName => "LongWeekdayName"
  | .lowerAmPm => "LowerAmPm" | .upperAmPm => "UpperAmPm" | .nanosecond => "Nanosecond"
  | .nanosecond3 => "Nanosecond3" | .nanosecond6 => "Nanosecond6" | .nanosecond9 => "Nanosecond9"
  | .timezoneName => "TimezoneName" | .timezoneOffsetColon => "TimezoneOffsetColon"
  | .timezoneOffsetDoubleColon => "TimezoneOffsetDoubleColon"
  | .timezoneOffsetTripleColon => "TimezoneOffsetTripleColon"
  | .timezoneOffsetColonZ => "TimezoneOffsetColonZ" | .timezoneOffset => "TimezoneOffset"
  | .timezoneOffsetZ => "TimezoneOffsetZ" | .rfc2822 => "RFC2822" | .rfc3339 => "RFC3339"
  | .timezoneOffsetPermissive => "TimezoneOffsetPermissive" | .nanosecond3NoDot => "Nanosecond3NoDot"
  | .nanosecond6NoDot => "Nanosecond6NoDot" | .nanosecond9NoDot => "Nanosecond9NoDot"
def Fixed.ofName (s : String) : Option Fixed := Fixed.all.find? (fun f => f.name == s)

def Item.encode : Item → String
  | .literal s => "L" ++ (hexEncode s).drop 1
  | .space s => "S" ++ (hexEncode s).drop 1
  | .numeric n p => "N" ++ n.name ++ ":" ++ p.code
  | .fixed f => "F" ++ f.name
  | .error => "E"

def Item.decode (t : String) : Option Item :=
  match t.toList with
  | 'L' :: rest => (hexDecode (String.ofList ('x' :: rest))).map Item.literal
  | 'S' :: rest => (hexDecode (String.ofList ('x' :: rest))).map Item.space
  | 'N' :: rest =>
    match (String.ofList rest).splitOn ":" with
    | [n, p] => match Numeric.ofName n, Pad.ofCode p with
      | some n, some p => some (.numeric n p)
      | _, _ => none
    | _ => none
  | 'F' :: rest => (Fixed.ofName (String.ofList rest)).map Item.fixed
  | ['E'] => some .error
  | _ => none

/-- `-` is the empty item list -/
def encodeItems (is : List Item) : String :=
  if is.isEmpty then "-" else ",".intercalate (is.map Item.encode)
def decodeItems (s : String) : Option (List Item) :=
  if s == "-" then some [] else (s.splitOn ",").mapM Item.decode

end Chrono.M
