/-
  Model of src/format/formatting.rs: `DelayedFormat::write_to` (`format_numeric`, `format_fixed`),
  `OffsetFormat::format`, `write_hundreds`, `write_rfc3339`, `write_rfc2822`, with
  `NaiveDate::weeks_from`, `Datelike::quarter` and `FixedOffset`'s `Display`; default (non-localized)
  name tables.  Output text is a UTF-8 byte string.

  A writer returns `W = Res (Option (List Nat))`: `.ok (some text)`, `.ok none` where Rust returns
  `Err(fmt::Error)`, `.panic` where a date accessor would trip a debug assertion (never for a value
  satisfying `DateInv`, see Props/C01).  Text already written before an error is not observed.

  `core::fmt` padding (`{}`, `{:+}`, `{:0w$}`, `{:+0w$}`, `{:w$}`, `{:+w$}` on integers) is modelled by
  `fmtInt` (trusted base: sign-aware zero padding, right alignment for space padding).
  The `as u8` narrowings of the numeric writers are explicit (`asU8`).
-/
import Chrono.Prim
import Chrono.Extracted.Names
import Chrono.Model.Items
import Chrono.Model.Date
import Chrono.Model.Time
import Chrono.Model.DateTime
namespace Chrono.M
namespace Format
open Chrono.Extracted

abbrev W := Res (Option (List Nat))
def wok (b : List Nat) : W := .ok (some b)
def werr : W := .ok none
/-- `a?; b` on the same writer -/
def W.seq (a b : W) : W :=
  match a with
  | .ok (some x) =>
    match b with
    | .ok (some y) => .ok (some (x ++ y))
    | r => r
  | r => r
/-- lift a panicking accessor -/
def W.ofRes {α} (r : Res α) (f : α → W) : W :=
  match r with
  | .ok a => f a
  | .panic => .panic

/-! ### core::fmt integer formatting -/

/-- decimal digits of a natural number (ASCII) -/
def digits (n : Nat) : List Nat := Delta.natDigits n

/-- `write!(w, "{:<flags><width>}", v)` for an integer: `plus` = the `+` flag, `pad` = none (no
width), zero (`0` flag with `width`: zeros go between sign and digits), space (plain `width`:
right-aligned, spaces before the sign) -/
def fmtInt (v : Int) (width : Nat) (pad : Pad) (plus : Bool) : List Nat :=
  let sign : List Nat := if v < 0 then [45] else if plus then [43] else []
  let ds := digits v.natAbs
  match pad with
  | .none => sign ++ ds
  | .zero => sign ++ List.replicate (width - sign.length - ds.length) 48 ++ ds
  | .space => List.replicate (width - (sign.length + ds.length)) 32 ++ sign ++ ds

/-- `write_char(c as char)` for a `u8` value `c`: code points ≥ 128 take two bytes in UTF-8 -/
def pushChar (c : Nat) : List Nat := if c < 128 then [c] else [192 + c / 64, 128 + c % 64]

/-! ### the numeric writers of `format_numeric` (arguments are the already narrowed `u8`s) -/

/-- `write_one(w, v: u8)`: `(b'0' + v) as char` -/
def write_one (v : Int) : List Nat := pushChar (48 + v).toNat

/-- `write_two(w, v: u8, pad)` -/
def write_two (v : Int) (pad : Pad) : List Nat :=
  let ones := 48 + v % 10
  let tens := v / 10
  let head : List Nat :=
    if tens = 0 then
      match pad with
      | .none => []
      | .space => [32]
      | .zero => pushChar (48 + tens).toNat
    else pushChar (48 + tens).toNat
  head ++ pushChar ones.toNat

/-- `write_n(w, n, v: i64, pad, always_sign)` -/
def write_n (n : Nat) (v : Int) (pad : Pad) (always_sign : Bool) : List Nat :=
  if always_sign then fmtInt v (n + 1) pad true else fmtInt v n pad false

/-- `write_hundreds(w, n: u8)`: `{:02}` for `n < 100`, an error otherwise -/
def write_hundreds (n : Int) : W :=
  if n ≥ 100 then werr else wok [(48 + n / 10).toNat, (48 + n % 10).toNat]

/-- `write_year(w, year: i32, pad)` -/
def write_year (year : Int) (pad : Pad) : W :=
  if 1000 ≤ year ∧ year ≤ 9999 then
    (write_hundreds (asU8 (Int.tdiv year 100))).seq (write_hundreds (asU8 (Int.tmod year 100)))
  else wok (write_n 4 year pad (!(decide (0 ≤ year) && decide (year < 10000))))

/-! ### date / time accessors used by the formatter -/

/-- `NaiveDate::weeks_from(day)`: `(ordinal as i32 - weekday.days_since(day) as i32 + 6) / 7` -/
def weeks_from (d : Date) (day : Weekday) : Int :=
  Int.tdiv (d.ordinal - (d.weekday.days_since day : Nat) + 6) 7

/-- `Datelike::quarter`: `(month - 1).div_euclid(3) + 1` -/
def quarter (month : Nat) : Int := ((month : Int) - 1) / 3 + 1

/-- `FixedOffset`'s `Debug`/`Display`: `+hh:mm` or `+hh:mm:ss` -/
def fixedOffsetName (off : Int) : List Nat :=
  let sign : Nat := if off < 0 then 45 else 43
  let o := if off < 0 then -off else off
  let sec := o % 60
  let mins := o / 60
  let min := mins % 60
  let hour := mins / 60
  if sec = 0 then [sign] ++ fmtInt hour 2 .zero false ++ [58] ++ fmtInt min 2 .zero false
  else [sign] ++ fmtInt hour 2 .zero false ++ [58] ++ fmtInt min 2 .zero false ++ [58] ++ fmtInt sec 2 .zero false

/-! ### `OffsetFormat` -/

inductive OffsetPrecision where
  | hours | minutes | seconds | optionalMinutes | optionalSeconds | optionalMinutesAndSeconds
  deriving DecidableEq, Repr
inductive Colons where
  | none | colon | maybe
  deriving DecidableEq, Repr

structure OffsetFormat where
  precision : OffsetPrecision
  colons : Colons
  allow_zulu : Bool
  padding : Pad
  deriving DecidableEq, Repr

/-- the hour part: `if hours < 10 { [' '] sign ['0'] digit } else { sign, write_hundreds(hours) }` -/
def hoursText (padding : Pad) (sign : Nat) (hours : Int) : W :=
  if hours < 10 then
    wok ((if padding = .space then [32] else []) ++ [sign]
         ++ (if padding = .zero then [48] else []) ++ pushChar (48 + hours).toNat)
  else (wok [sign]).seq (write_hundreds hours)

/-- `(hours, mins, secs, effective precision)` of `OffsetFormat::format`, each narrowed with `as u8`;
`off` is already the absolute value -/
def offsetParts (precision : OffsetPrecision) (off : Int) : Int × Int × Int × OffsetPrecision :=
  match precision with
  | .hours => (asU8 (Int.tdiv off 3600), 0, 0, .hours)
  | .minutes | .optionalMinutes =>
    let minutes := Int.tdiv (off + 30) 60
    let mins := asU8 (Int.tmod minutes 60)
    let hours := asU8 (Int.tdiv minutes 60)
    if precision = .optionalMinutes ∧ mins = 0 then (hours, mins, 0, .hours)
    else (hours, mins, 0, .minutes)
  | .seconds | .optionalSeconds | .optionalMinutesAndSeconds =>
    let minutes := Int.tdiv off 60
    let secs := asU8 (Int.tmod off 60)
    let mins := asU8 (Int.tmod minutes 60)
    let hours := asU8 (Int.tdiv minutes 60)
    if precision ≠ .seconds ∧ secs = 0 then
      if precision = .optionalMinutesAndSeconds ∧ mins = 0 then (hours, mins, secs, .hours)
      else (hours, mins, secs, .minutes)
    else (hours, mins, secs, .seconds)

/-- the minutes and seconds parts, each behind an optional colon -/
def tailText (colons : Bool) (precision : OffsetPrecision) (mins secs : Int) : W :=
  let mm : W :=
    if precision = .minutes ∨ precision = .seconds then
      (wok (if colons then [58] else [])).seq (write_hundreds mins)
    else wok []
  let ss : W :=
    if precision = .seconds then (wok (if colons then [58] else [])).seq (write_hundreds secs)
    else wok []
  mm.seq ss

/-- `OffsetFormat::format(&self, w, off)`; `off` = `local_minus_utc` (`i32`, `|off| < 86400`) -/
def OffsetFormat.format (f : OffsetFormat) (off : Int) : W :=
  if f.allow_zulu ∧ off = 0 then wok [90] else
  let sign : Nat := if off < 0 then 45 else 43
  let off := if off < 0 then -off else off
  let r := offsetParts f.precision off
  (hoursText f.padding sign r.1).seq (tailText (f.colons = .colon) r.2.2.2 r.2.1 r.2.2.1)

/-! ### RFC 3339 / RFC 2822 writers -/

inductive SecondsFormat where
  | secs | millis | micros | nanos | autoSi
  deriving DecidableEq, Repr

/-- `write_rfc3339(w, dt, off, secform, use_z)` -/
def write_rfc3339 (dt : NaiveDT) (off : Int) (secform : SecondsFormat) (use_z : Bool) : W :=
  let year := dt.date.year
  let y : W :=
    if 0 ≤ year ∧ year ≤ 9999 then
      (write_hundreds (asU8 (Int.tdiv year 100))).seq (write_hundreds (asU8 (Int.tmod year 100)))
    else wok (fmtInt year 5 .zero true)
  W.ofRes dt.date.month fun month =>
  W.ofRes dt.date.day fun day =>
  let (hour, min, sec0) := dt.time.hms
  let nano0 := dt.time.nanosecond
  let sec := if nano0 ≥ 1000000000 then sec0 + 1 else sec0
  let nano := if nano0 ≥ 1000000000 then nano0 - 1000000000 else nano0
  let frac : List Nat :=
    match secform with
    | .secs => []
    | .millis => [46] ++ fmtInt (nano / 1000000) 3 .zero false
    | .micros => [46] ++ fmtInt (nano / 1000) 6 .zero false
    | .nanos => [46] ++ fmtInt nano 9 .zero false
    | .autoSi =>
      if nano = 0 then []
      else if nano % 1000000 = 0 then [46] ++ fmtInt (nano / 1000000) 3 .zero false
      else if nano % 1000 = 0 then [46] ++ fmtInt (nano / 1000) 6 .zero false
      else [46] ++ fmtInt nano 9 .zero false
  y.seq <| (wok [45]).seq <| (write_hundreds (asU8 month)).seq <| (wok [45]).seq <|
  (write_hundreds (asU8 day)).seq <| (wok [84]).seq <|
  (write_hundreds (asU8 hour)).seq <| (wok [58]).seq <| (write_hundreds (asU8 min)).seq <|
  (wok [58]).seq <| (write_hundreds (asU8 sec)).seq <| (wok frac).seq <|
  OffsetFormat.format ⟨.minutes, .colon, use_z, .zero⟩ off

/-- `write_rfc2822(w, dt, off)` -/
def write_rfc2822 (dt : NaiveDT) (off : Int) : W :=
  let year := dt.date.year
  if ¬ (0 ≤ year ∧ year ≤ 9999) then werr else
  W.ofRes dt.date.month fun month =>
  W.ofRes dt.date.day fun day =>
  let wd := LOC_SHORT_WEEKDAYS.getD dt.date.weekday.num_days_from_sunday []
  let dd : W := if day < 10 then wok (pushChar (48 + asU8 day).toNat) else write_hundreds (asU8 day)
  let mon := LOC_SHORT_MONTHS.getD (month - 1) []
  let (hour, min, sec0) := dt.time.hms
  let sec := sec0 + dt.time.nanosecond / 1000000000
  (wok wd).seq <| (wok [44, 32]).seq <| dd.seq <| (wok [32]).seq <| (wok mon).seq <| (wok [32]).seq <|
  (write_hundreds (asU8 (Int.tdiv year 100))).seq <| (write_hundreds (asU8 (Int.tmod year 100))).seq <|
  (wok [32]).seq <| (write_hundreds (asU8 hour)).seq <| (wok [58]).seq <|
  (write_hundreds (asU8 min)).seq <| (wok [58]).seq <| (write_hundreds (asU8 sec)).seq <|
  (wok [32]).seq <| OffsetFormat.format ⟨.minutes, .none, false, .zero⟩ off

/-! ### `DelayedFormat` -/

/-- `DelayedFormat::format_numeric(w, spec, pad)`; `off` = the offset's `local_minus_utc` if any -/
def format_numeric (date : Option Date) (time : Option Time) (off : Option Int)
    (spec : Numeric) (pad : Pad) : W :=
  match spec, date, time with
  | .year, some d, _ => write_year d.year pad
  | .yearDiv100, some d, _ => wok (write_n 2 (d.year / 100) pad false)
  | .yearMod100, some d, _ => wok (write_two (asU8 (d.year % 100)) pad)
  | .isoYear, some d, _ => W.ofRes d.iso_week fun iw => write_year (IsoWeek.year iw) pad
  | .isoYearDiv100, some d, _ => W.ofRes d.iso_week fun iw => wok (write_n 2 (IsoWeek.year iw / 100) pad false)
  | .isoYearMod100, some d, _ => W.ofRes d.iso_week fun iw => wok (write_two (asU8 (IsoWeek.year iw % 100)) pad)
  | .quarter, some d, _ => W.ofRes d.month fun m => wok (write_one (asU8 (quarter m)))
  | .month, some d, _ => W.ofRes d.month fun m => wok (write_two (asU8 m) pad)
  | .day, some d, _ => W.ofRes d.day fun dd => wok (write_two (asU8 dd) pad)
  | .weekFromSun, some d, _ => wok (write_two (asU8 (weeks_from d .sun)) pad)
  | .weekFromMon, some d, _ => wok (write_two (asU8 (weeks_from d .mon)) pad)
  | .isoWeek, some d, _ => W.ofRes d.iso_week fun iw => wok (write_two (asU8 (IsoWeek.week iw)) pad)
  | .numDaysFromSun, some d, _ => wok (write_one (asU8 d.weekday.num_days_from_sunday))
  | .weekdayFromMon, some d, _ => wok (write_one (asU8 d.weekday.number_from_monday))
  | .ordinal, some d, _ => wok (write_n 3 d.ordinal pad false)
  | .hour, _, some t => wok (write_two (asU8 t.hour) pad)
  | .hour12, _, some t => wok (write_two (asU8 t.hour12.2) pad)
  | .minute, _, some t => wok (write_two (asU8 t.minute) pad)
  | .second, _, some t => wok (write_two (asU8 (t.second + t.nanosecond / 1000000000)) pad)
  | .nanosecond, _, some t => wok (write_n 9 (t.nanosecond % 1000000000) pad false)
  | .timestamp, some d, some t =>
    W.ofRes (NaiveDT.timestamp ⟨d, t⟩) fun ts =>
    W.ofRes (ckI64 (ts - off.getD 0)) fun ts => wok (write_n 9 ts pad false)
  | _, _, _ => werr

/-- `DelayedFormat::format_fixed(w, spec)`; `off` = `(name, local_minus_utc)` -/
def format_fixed (date : Option Date) (time : Option Time) (off : Option (List Nat × Int))
    (spec : Fixed) : W :=
  match spec, date, time, off with
  | .shortMonthName, some d, _, _ => W.ofRes d.month fun m => wok (LOC_SHORT_MONTHS.getD (m - 1) [])
  | .longMonthName, some d, _, _ => W.ofRes d.month fun m => wok (LOC_LONG_MONTHS.getD (m - 1) [])
  | .shortWeekdayName, some d, _, _ => wok (LOC_SHORT_WEEKDAYS.getD d.weekday.num_days_from_sunday [])
  | .longWeekdayName, some d, _, _ => wok (LOC_LONG_WEEKDAYS.getD d.weekday.num_days_from_sunday [])
  | .lowerAmPm, _, some t, _ => wok (lowerS (LOC_AM_PM.getD (if t.hour12.1 then 1 else 0) []))
  | .upperAmPm, _, some t, _ => wok (LOC_AM_PM.getD (if t.hour12.1 then 1 else 0) [])
  | .nanosecond, _, some t, _ =>
    let nano := t.nanosecond % 1000000000
    if nano = 0 then wok []
    else if nano % 1000000 = 0 then wok ([46] ++ fmtInt (nano / 1000000) 3 .zero false)
    else if nano % 1000 = 0 then wok ([46] ++ fmtInt (nano / 1000) 6 .zero false)
    else wok ([46] ++ fmtInt nano 9 .zero false)
  | .nanosecond3, _, some t, _ => wok ([46] ++ fmtInt (t.nanosecond / 1000000 % 1000) 3 .zero false)
  | .nanosecond6, _, some t, _ => wok ([46] ++ fmtInt (t.nanosecond / 1000 % 1000000) 6 .zero false)
  | .nanosecond9, _, some t, _ => wok ([46] ++ fmtInt (t.nanosecond % 1000000000) 9 .zero false)
  | .nanosecond3NoDot, _, some t, _ => wok (fmtInt (t.nanosecond / 1000000 % 1000) 3 .zero false)
  | .nanosecond6NoDot, _, some t, _ => wok (fmtInt (t.nanosecond / 1000 % 1000000) 6 .zero false)
  | .nanosecond9NoDot, _, some t, _ => wok (fmtInt (t.nanosecond % 1000000000) 9 .zero false)
  | .timezoneName, _, _, some (name, _) => wok name
  | .timezoneOffset, _, _, some (_, o) => OffsetFormat.format ⟨.minutes, .maybe, false, .zero⟩ o
  | .timezoneOffsetZ, _, _, some (_, o) => OffsetFormat.format ⟨.minutes, .maybe, true, .zero⟩ o
  | .timezoneOffsetColon, _, _, some (_, o) => OffsetFormat.format ⟨.minutes, .colon, false, .zero⟩ o
  | .timezoneOffsetColonZ, _, _, some (_, o) => OffsetFormat.format ⟨.minutes, .colon, true, .zero⟩ o
  | .timezoneOffsetDoubleColon, _, _, some (_, o) => OffsetFormat.format ⟨.seconds, .colon, false, .zero⟩ o
  | .timezoneOffsetTripleColon, _, _, some (_, o) => OffsetFormat.format ⟨.hours, .none, false, .zero⟩ o
  | .rfc2822, some d, some t, some (_, o) => write_rfc2822 ⟨d, t⟩ o
  | .rfc3339, some d, some t, some (_, o) => write_rfc3339 ⟨d, t⟩ o .autoSi false
  | _, _, _, _ => werr

/-- one iteration of the loop in `write_to` -/
def format_item (date : Option Date) (time : Option Time) (off : Option (List Nat × Int)) (it : Item) : W :=
  match it with
  | .literal s => wok s
  | .space s => wok s
  | .numeric spec pad => format_numeric date time (off.map (·.2)) spec pad
  | .fixed spec => format_fixed date time off spec
  | .error => werr

/-- `DelayedFormat::write_to` into an empty `String`, panics kept apart -/
def formatItemsR (date : Option Date) (time : Option Time) (off : Option (List Nat × Int)) : List Item → W
  | [] => wok []
  | it :: rest => (format_item date time off it).seq (formatItemsR date time off rest)

/-- `DelayedFormat::write_to`: the text, or `none` where Rust returns `Err(fmt::Error)` -/
def formatItems (date : Option Date) (time : Option Time) (off : Option (List Nat × Int))
    (items : List Item) : Option (List Nat) :=
  match formatItemsR date time off items with
  | .ok r => r
  | .panic => none

end Format
end Chrono.M
