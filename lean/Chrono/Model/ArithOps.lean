/-
  Operator forms and day-count wrappers around the checked arithmetic of Model/DateArith.lean and
  Model/DateTime.lean, and the iterator drains (C03).

  * `impl Add/Sub<Days> for NaiveDate`, `impl Add/Sub/AddAssign/SubAssign<TimeDelta> for NaiveDateTime`,
    `impl Add/Sub<core::time::Duration> for NaiveDateTime`, `NaiveDateTime::checked_{add,sub}_days`,
    `impl Add/Sub<Days> for NaiveDateTime` (src/naive/date/mod.rs, src/naive/datetime/mod.rs);
  * `impl Add/Sub/AddAssign/SubAssign<TimeDelta>`, `Add/Sub<Duration>`, `Sub<DateTime>` for
    `DateTime<Tz>` (src/datetime/mod.rs): every one is `expect` of the checked form on the UTC value;
  * `drain`: repeated `Iterator::next` / `DoubleEndedIterator::next_back`.
-/
import Chrono.Model.DateTime
namespace Chrono.M
open Chrono.Extracted

/-- `Option::expect` on a checked result -/
def expectSome {α} (r : Res (Option α)) : Res α :=
  match r with
  | .ok (some a) => .ok a
  | _ => .panic

namespace Date
/-- `impl Add<Days> for NaiveDate` -/
def add_days_op (d : Date) (days : Int) : Res Date := expectSome (checked_add_days d days)
/-- `impl Sub<Days> for NaiveDate` -/
def sub_days_op (d : Date) (days : Int) : Res Date := expectSome (checked_sub_days d days)
end Date

namespace NaiveDT
/-- `impl Add<TimeDelta> for NaiveDateTime` (and `AddAssign`, which is `*self = self.add(rhs)`) -/
def add (dt : NaiveDT) (rhs : Delta) : Res NaiveDT := expectSome (checked_add_signed dt rhs)
/-- `impl Sub<TimeDelta> for NaiveDateTime` (and `SubAssign`) -/
def sub (dt : NaiveDT) (rhs : Delta) : Res NaiveDT := expectSome (checked_sub_signed dt rhs)
/-- `impl Add<core::time::Duration>`: `expect(TimeDelta::from_std)`, then the checked form -/
def add_std (dt : NaiveDT) (secs nanos : Int) : Res NaiveDT :=
  match Delta.from_std secs nanos with
  | some d => add dt d
  | none => .panic
def sub_std (dt : NaiveDT) (secs nanos : Int) : Res NaiveDT :=
  match Delta.from_std secs nanos with
  | some d => sub dt d
  | none => .panic
/-- `NaiveDateTime::checked_add_days(Days)`: the date part only -/
def checked_add_days (dt : NaiveDT) (days : Int) : Res (Option NaiveDT) :=
  (Date.checked_add_days dt.date days).bind fun r => .ok (r.map fun d => ⟨d, dt.time⟩)
def checked_sub_days (dt : NaiveDT) (days : Int) : Res (Option NaiveDT) :=
  (Date.checked_sub_days dt.date days).bind fun r => .ok (r.map fun d => ⟨d, dt.time⟩)
def add_days_op (dt : NaiveDT) (days : Int) : Res NaiveDT := expectSome (checked_add_days dt days)
def sub_days_op (dt : NaiveDT) (days : Int) : Res NaiveDT := expectSome (checked_sub_days dt days)
end NaiveDT

namespace Zoned
/-- `impl Add<TimeDelta> for DateTime<Tz>`; `AddAssign` unwraps the same checked sum of the UTC
value and re-attaches the offset -/
def add (z : Zoned) (rhs : Delta) : Res Zoned := expectSome (checked_add_signed z rhs)
def sub (z : Zoned) (rhs : Delta) : Res Zoned := expectSome (checked_sub_signed z rhs)
def add_std (z : Zoned) (secs nanos : Int) : Res Zoned :=
  match Delta.from_std secs nanos with
  | some d => add z d
  | none => .panic
def sub_std (z : Zoned) (secs nanos : Int) : Res Zoned :=
  match Delta.from_std secs nanos with
  | some d => sub z d
  | none => .panic
end Zoned

/-- run an iterator step function `fuel` times: the items produced, and whether the iterator
reported exhaustion (`true`) within the fuel -/
def drain (next : Date → Res (Option (Date × Date))) : Nat → Date → Res (List Date × Bool)
  | 0, _ => .ok ([], false)
  | fuel + 1, v =>
    match next v with
    | .panic => .panic
    | .ok none => .ok ([], true)
    | .ok (some (item, v')) =>
      match drain next fuel v' with
      | .panic => .panic
      | .ok (items, fin) => .ok (item :: items, fin)

/-- the iterator state after `k` successful steps (`Iterator::nth` leaves this behind) -/
def stateAfter (next : Date → Res (Option (Date × Date))) : Nat → Date → Res (Option Date)
  | 0, v => .ok (some v)
  | k + 1, v =>
    match next v with
    | .panic => .panic
    | .ok none => .ok none
    | .ok (some (_, v')) => stateAfter next k v'

end Chrono.M
