/-
  Model of the user-visible `Local` entry points that turn an instant into a `DateTime<Local>`
  (src/offset/local/mod.rs, src/offset/mod.rs), on top of the `Cache::offset` model of
  Model/TzLookup.lean.  The point of this file is the `unwrap` of
  `<Local as TimeZone>::offset_from_utc_datetime` (mod.rs:192), which finding F32 reached: it is
  modelled explicitly as a `panic`.
-/
import Chrono.Model.TzLookup
namespace Chrono.M.TzL
open Chrono Chrono.M.Tz

/-- `<Local as TimeZone>::offset_from_utc_datetime(utc)` =
`inner::offset_from_utc_datetime(utc).unwrap()`; `inner::…` is `Cache::offset(*utc, false)` (unix.rs).
`MappedLocalTime::unwrap` panics on `None` ("No such local time") and on `Ambiguous`.
`x` is `utc.and_utc().timestamp()`; `z` the zone the cache decision (property C18) selected. -/
def local_offset_from_utc_datetime (z : Zone) (x : Int) : Res Int :=
  match cache_offset z x false with
  | .panic => .panic
  | .ok (.single o) => .ok o
  | .ok _ => .panic

/-- `Local.from_utc_datetime(utc)` (`TimeZone::from_utc_datetime`): the pair (instant, offset) -/
def local_from_utc_datetime (z : Zone) (x : Int) : Res (Int × Int) :=
  match local_offset_from_utc_datetime z x with
  | .panic => .panic
  | .ok o => .ok (x, o)

/-- `Local.timestamp_opt(secs, _)` (`TimeZone::timestamp_opt`; the same shape serves
`timestamp_millis_opt`, `timestamp_micros`, `timestamp_nanos`, whose only other step is the division
of the count into seconds and nanoseconds): `DateTime::from_timestamp` refuses an instant outside the
`NaiveDateTime` range by value (`MappedLocalTime::None`), every other instant goes through
`from_utc_datetime`, i.e. through the `unwrap` above.  `Local::now()` is `Utc::now()` followed by
`from_utc_datetime` as well. -/
def local_timestamp_opt (z : Zone) (secs : Int) : Res (Mapped (Int × Int)) :=
  if NDT_MIN_TS ≤ secs ∧ secs ≤ NDT_MAX_TS then
    match local_from_utc_datetime z secs with
    | .panic => .panic
    | .ok d => .ok (.single d)
  else .ok .none

end Chrono.M.TzL
