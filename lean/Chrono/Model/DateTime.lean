/-
  `NaiveDateTime` (src/naive/datetime/mod.rs) and `DateTime<Tz>` for fixed offsets
  (src/datetime/mod.rs, src/offset/{mod,fixed,utc}.rs): a naive date-time is a packed date plus a
  time of day; a zone-aware date-time stores the UTC reading and an offset in seconds.
-/
import Chrono.Model.DateArith
import Chrono.Model.Time
namespace Chrono.M
open Chrono.Extracted

structure NaiveDT where
  date : Date
  time : Time
  deriving DecidableEq, Repr

namespace NaiveDT
def MIN : NaiveDT := ⟨Date.MIN, Time.MIN⟩
def MAX : NaiveDT := ⟨Date.MAX, Time.MAX⟩

/-- `checked_add_signed(TimeDelta)` -/
def checked_add_signed (dt : NaiveDT) (rhs : Delta) : Res (Option NaiveDT) :=
  (Time.overflowing_add_signed dt.time rhs).bind fun p =>
  match Delta.try_seconds p.2 with
  | none => .ok none
  | some rem =>
    (Date.checked_add_signed dt.date rem).bind fun r =>
    match r with
    | some d => .ok (some ⟨d, p.1⟩)
    | none => .ok none

def checked_sub_signed (dt : NaiveDT) (rhs : Delta) : Res (Option NaiveDT) :=
  (Time.overflowing_sub_signed dt.time rhs).bind fun p =>
  match Delta.try_seconds p.2 with
  | none => .ok none
  | some rem =>
    (Date.checked_sub_signed dt.date rem).bind fun r =>
    match r with
    | some d => .ok (some ⟨d, p.1⟩)
    | none => .ok none

/-- `signed_duration_since`: `expect(date diff .checked_add(time diff))` -/
def signed_duration_since (a b : NaiveDT) : Res Delta :=
  (Date.signed_duration_since a.date b.date).bind fun dd =>
  (Time.signed_duration_since a.time b.time).bind fun td =>
  (Delta.checked_add dd td).bind fun r =>
  match r with
  | some d => .ok d
  | none => .panic

/-- `checked_add_offset(FixedOffset)`; `off = local_minus_utc` -/
def checked_add_offset (dt : NaiveDT) (off : Int) : Res (Option NaiveDT) :=
  (Time.overflowing_add_offset dt.time off).bind fun p =>
  if p.2 = -1 then (dt.date.pred_opt).bind fun r => .ok (r.map fun d => ⟨d, p.1⟩)
  else if p.2 = 1 then (dt.date.succ_opt).bind fun r => .ok (r.map fun d => ⟨d, p.1⟩)
  else .ok (some ⟨dt.date, p.1⟩)

def checked_sub_offset (dt : NaiveDT) (off : Int) : Res (Option NaiveDT) :=
  (Time.overflowing_sub_offset dt.time off).bind fun p =>
  if p.2 = -1 then (dt.date.pred_opt).bind fun r => .ok (r.map fun d => ⟨d, p.1⟩)
  else if p.2 = 1 then (dt.date.succ_opt).bind fun r => .ok (r.map fun d => ⟨d, p.1⟩)
  else .ok (some ⟨dt.date, p.1⟩)

/-- `overflowing_add_offset`: the date may leave the range by one day (`BEFORE_MIN`/`AFTER_MAX`) -/
def overflowing_add_offset (dt : NaiveDT) (off : Int) : Res NaiveDT :=
  (Time.overflowing_add_offset dt.time off).bind fun p =>
  if p.2 = -1 then (dt.date.pred_opt).bind fun r => .ok ⟨r.getD Date.BEFORE_MIN, p.1⟩
  else if p.2 = 1 then (dt.date.succ_opt).bind fun r => .ok ⟨r.getD Date.AFTER_MAX, p.1⟩
  else .ok ⟨dt.date, p.1⟩

def overflowing_sub_offset (dt : NaiveDT) (off : Int) : Res NaiveDT :=
  (Time.overflowing_sub_offset dt.time off).bind fun p =>
  if p.2 = -1 then (dt.date.pred_opt).bind fun r => .ok ⟨r.getD Date.BEFORE_MIN, p.1⟩
  else if p.2 = 1 then (dt.date.succ_opt).bind fun r => .ok ⟨r.getD Date.AFTER_MAX, p.1⟩
  else .ok ⟨dt.date, p.1⟩

/-- derived `Ord`: date, then time -/
def cmp (a b : NaiveDT) : Int :=
  let c := Date.cmp a.date b.date
  if c ≠ 0 then c else Time.cmp a.time b.time

/-! ### Unix timestamps of the UTC reading (`DateTime<Utc>` accessors; `NaiveDateTime::and_utc()`) -/

/-- `timestamp()`: `(num_days_from_ce − UNIX_EPOCH_DAY)·86400 + seconds from midnight` in `i64` -/
def timestamp (dt : NaiveDT) : Res Int :=
  (dt.date.num_days_from_ce).bind fun g =>
  (ckI64 (g - UNIX_EPOCH_DAY)).bind fun d =>
  (ckI64 (d * 86400)).bind fun s =>
  ckI64 (s + dt.time.num_seconds_from_midnight)

def timestamp_subsec_nanos (dt : NaiveDT) : Int := dt.time.nanosecond
def timestamp_subsec_micros (dt : NaiveDT) : Int := dt.time.nanosecond / 1000
def timestamp_subsec_millis (dt : NaiveDT) : Int := dt.time.nanosecond / 1000000

def timestamp_millis (dt : NaiveDT) : Res Int :=
  (timestamp dt).bind fun t => (ckI64 (t * 1000)).bind fun ms => ckI64 (ms + timestamp_subsec_millis dt)
def timestamp_micros (dt : NaiveDT) : Res Int :=
  (timestamp dt).bind fun t => (ckI64 (t * 1000000)).bind fun us => ckI64 (us + timestamp_subsec_micros dt)

/-- `timestamp_nanos_opt`: the count is formed in 128 bits (`i128`), then range-checked against `i64`
(fix 32de816; the former negative-timestamp workaround overflowed for a leap representation on the
second -9223372038) -/
def timestamp_nanos_opt (dt : NaiveDT) : Res (Option Int) :=
  (timestamp dt).bind fun ts =>
  let sub := timestamp_subsec_nanos dt
  .ok (optI64 (ts * 1000000000 + sub))

/-- `DateTime::<Utc>::from_timestamp(secs: i64, nsecs: u32)` -/
def from_timestamp (secs nsecs : Int) : Res (Option NaiveDT) :=
  (ckI64 (secs / 86400 + UNIX_EPOCH_DAY)).bind fun days =>
  let sod := secs % 86400
  if days < I32_MIN ∨ days > I32_MAX then .ok none
  else
    (Date.from_num_days_from_ce_opt days).bind fun d =>
    match d, Time.from_num_seconds_from_midnight_opt sod nsecs with
    | some d, some t => .ok (some ⟨d, t⟩)
    | _, _ => .ok none

def from_timestamp_millis (ms : Int) : Res (Option NaiveDT) :=
  (ckU32 ((ms % 1000) * 1000000)).bind fun ns => from_timestamp (ms / 1000) ns
def from_timestamp_micros (us : Int) : Res (Option NaiveDT) :=
  (ckU32 ((us % 1000000) * 1000)).bind fun ns => from_timestamp (us / 1000000) ns
/-- `from_timestamp_nanos`: `expect`s -/
def from_timestamp_nanos (ns : Int) : Res NaiveDT :=
  (from_timestamp (ns / 1000000000) (ns % 1000000000)).bind fun r =>
  match r with
  | some d => .ok d
  | none => .panic

end NaiveDT

/-- `DateTime<FixedOffset>` / `DateTime<Utc>` (offset 0): UTC reading plus `local_minus_utc` -/
structure Zoned where
  utc : NaiveDT
  off : Int
  deriving DecidableEq, Repr

namespace Zoned
/-- `FixedOffset::east_opt(secs: i32)` -/
def east_opt (secs : Int) : Option Int := if -86400 < secs ∧ secs < 86400 then some secs else none
/-- `FixedOffset::west_opt(secs: i32)` -/
def west_opt (secs : Int) : Option Int := if -86400 < secs ∧ secs < 86400 then some (-secs) else none

/-- `naive_local()`: panics when the local reading leaves the range -/
def naive_local (z : Zoned) : Res NaiveDT :=
  (z.utc.checked_add_offset z.off).bind fun r =>
  match r with
  | some d => .ok d
  | none => .panic
def overflowing_naive_local (z : Zoned) : Res NaiveDT := z.utc.overflowing_add_offset z.off

/-- `TimeZone::from_local_datetime` for a fixed offset: `Single` or `None` -/
def from_local_datetime (off : Int) (loc : NaiveDT) : Res (Option Zoned) :=
  (loc.checked_sub_offset off).bind fun r => .ok (r.map fun u => ⟨u, off⟩)
/-- `TimeZone::from_utc_datetime` -/
def from_utc_datetime (off : Int) (utc : NaiveDT) : Zoned := ⟨utc, off⟩
/-- `with_timezone` to another fixed offset -/
def with_timezone (z : Zoned) (off : Int) : Zoned := ⟨z.utc, off⟩

/-- `PartialEq`/`Ord` between any two zone-aware values: the UTC readings -/
def cmp (a b : Zoned) : Int := NaiveDT.cmp a.utc b.utc

/-- the range filter of `map_local` / `with_time`: `MIN_UTC ≤ dt ≤ MAX_UTC` -/
def inUtcRange (z : Zoned) : Bool :=
  decide (NaiveDT.cmp z.utc NaiveDT.MIN ≥ 0) && decide (NaiveDT.cmp z.utc NaiveDT.MAX ≤ 0)

/-- `map_local(dt, f)` -/
def map_local (z : Zoned) (f : NaiveDT → Res (Option NaiveDT)) : Res (Option Zoned) :=
  (overflowing_naive_local z).bind fun l =>
  (f l).bind fun r =>
  match r with
  | none => .ok none
  | some nl =>
    (from_local_datetime z.off nl).bind fun q =>
    match q with
    | some z' => .ok (if inUtcRange z' then some z' else none)
    | none => .ok none

/-- `with_time(time)` (after the repair of finding #14) -/
def with_time (z : Zoned) (t : Time) : Res (Option Zoned) :=
  (overflowing_naive_local z).bind fun l =>
  (from_local_datetime z.off ⟨l.date, t⟩).bind fun q =>
  match q with
  | some z' => .ok (if inUtcRange z' then some z' else none)
  | none => .ok none

/-- `checked_add_signed` / `checked_sub_signed` act on the UTC reading -/
def checked_add_signed (z : Zoned) (rhs : Delta) : Res (Option Zoned) :=
  (z.utc.checked_add_signed rhs).bind fun r => .ok (r.map fun u => ⟨u, z.off⟩)
def checked_sub_signed (z : Zoned) (rhs : Delta) : Res (Option Zoned) :=
  (z.utc.checked_sub_signed rhs).bind fun r => .ok (r.map fun u => ⟨u, z.off⟩)
def signed_duration_since (a b : Zoned) : Res Delta := NaiveDT.signed_duration_since a.utc b.utc

end Zoned
end Chrono.M
