/-
  Model of src/format/strftime.rs: `StrftimeItems` (the iterator turning a `strftime`-like format
  string into formatting items), built without the `unstable-locales` feature.

  A format string is a UTF-8 byte string (`List Nat`).  A `char` taken by `chars().next()` is
  represented by its lead byte and its UTF-8 length (`Scan.charLen`): every specifier letter is ASCII,
  so a multi-byte character can only ever reach the "unknown specifier" arm, which needs its length.

  * `parse_next_item lenient s` = `StrftimeItems::parse_next_item` : `none` at the end of the input,
    else the new remainder, the item and the queue the call installs (`self.queue`).
  * `next` = `Iterator::next` on the state `(remainder, queue)`.
  * `itemsAux lenient fuel s`: the whole iterator drained.  Every call of `parse_next_item` consumes
    at least one byte (`Props.C12.strftime_terminates`), so fuel = byte length + 1 is never exhausted.
  * `items` = `StrftimeItems::new(s).collect()`, `itemsLenient` = `StrftimeItems::new_lenient(s)…`.

  The code modelled is the one after the repair of finding #3: in strict mode `error` consumes the
  rest of the input (the `':'` arm keeps only the item of `error`, hence continues after `%:`).
-/
import Chrono.Prim
import Chrono.Model.Items
import Chrono.Model.Scan
namespace Chrono.M
namespace Strftime
open Scan (wsLen charLen)

/-! ### item constructors (src/format/mod.rs `num`, `num0`, `nums`, `fixed`, `internal_fixed`) -/
def num (n : Numeric) : Item := .numeric n .none
def num0 (n : Numeric) : Item := .numeric n .zero
def nums (n : Numeric) : Item := .numeric n .space
def fixed (f : Fixed) : Item := .fixed f
/-- `Literal("/")`, `Literal(":")`, `Literal("-")`, `Space(" ")` -/
def lSlash : Item := .literal [47]
def lColon : Item := .literal [58]
def lDash : Item := .literal [45]
def sSpace : Item := .space [32]

/-! ### the static composite slices -/
def D_FMT : List Item := [num0 .month, lSlash, num0 .day, lSlash, num0 .yearMod100]
def D_T_FMT : List Item :=
  [fixed .shortWeekdayName, sSpace, fixed .shortMonthName, sSpace, nums .day, sSpace,
   num0 .hour, lColon, num0 .minute, lColon, num0 .second, sSpace, num0 .year]
def T_FMT : List Item := [num0 .hour, lColon, num0 .minute, lColon, num0 .second]
def T_FMT_AMPM : List Item :=
  [num0 .hour12, lColon, num0 .minute, lColon, num0 .second, sSpace, fixed .upperAmPm]

/-- head and queue of a static slice (`queue_from_slice!`); the slices are non-empty -/
def fromSlice (sl : List Item) : Option (Item × List Item) :=
  match sl with
  | it :: q => some (it, q)
  | [] => none

/-- the plain arms of `match spec { … }`: specifier letter (a byte) ↦ (item, queue installed).
`'z'`, `':'`, `'.'`, `'3'`, `'6'`, `'9'` are handled in `parse_next_item`; everything not listed
falls to the error arm. -/
def specTable (c : Nat) : Option (Item × List Item) :=
  match c with
  | 65 => some (fixed .longWeekdayName, [])                                     -- 'A'
  | 66 => some (fixed .longMonthName, [])                                       -- 'B'
  | 67 => some (num0 .yearDiv100, [])                                           -- 'C'
  | 68 => some (num0 .month, [lSlash, num0 .day, lSlash, num0 .yearMod100])      -- 'D'
  | 70 => some (num0 .year, [lDash, num0 .month, lDash, num0 .day])              -- 'F'
  | 71 => some (num0 .isoYear, [])                                              -- 'G'
  | 72 => some (num0 .hour, [])                                                 -- 'H'
  | 73 => some (num0 .hour12, [])                                               -- 'I'
  | 77 => some (num0 .minute, [])                                               -- 'M'
  | 80 => some (fixed .lowerAmPm, [])                                           -- 'P'
  | 82 => some (num0 .hour, [lColon, num0 .minute])                             -- 'R'
  | 83 => some (num0 .second, [])                                               -- 'S'
  | 84 => some (num0 .hour, [lColon, num0 .minute, lColon, num0 .second])        -- 'T'
  | 85 => some (num0 .weekFromSun, [])                                          -- 'U'
  | 86 => some (num0 .isoWeek, [])                                              -- 'V'
  | 87 => some (num0 .weekFromMon, [])                                          -- 'W'
  | 88 => fromSlice T_FMT                                                       -- 'X'
  | 89 => some (num0 .year, [])                                                 -- 'Y'
  | 90 => some (fixed .timezoneName, [])                                        -- 'Z'
  | 97 => some (fixed .shortWeekdayName, [])                                    -- 'a'
  | 98 => some (fixed .shortMonthName, [])                                      -- 'b'
  | 104 => some (fixed .shortMonthName, [])                                     -- 'h'
  | 99 => fromSlice D_T_FMT                                                     -- 'c'
  | 100 => some (num0 .day, [])                                                 -- 'd'
  | 101 => some (nums .day, [])                                                 -- 'e'
  | 102 => some (num0 .nanosecond, [])                                          -- 'f'
  | 103 => some (num0 .isoYearMod100, [])                                       -- 'g'
  | 106 => some (num0 .ordinal, [])                                             -- 'j'
  | 107 => some (nums .hour, [])                                                -- 'k'
  | 108 => some (nums .hour12, [])                                              -- 'l'
  | 109 => some (num0 .month, [])                                               -- 'm'
  | 110 => some (.space [10], [])                                               -- 'n'
  | 112 => some (fixed .upperAmPm, [])                                          -- 'p'
  | 113 => some (num .quarter, [])                                              -- 'q'
  | 114 => fromSlice T_FMT_AMPM                                                 -- 'r'
  | 115 => some (num .timestamp, [])                                            -- 's'
  | 116 => some (.space [9], [])                                                -- 't'
  | 117 => some (num .weekdayFromMon, [])                                       -- 'u'
  | 118 => some (nums .day, [lDash, fixed .shortMonthName, lDash, num0 .year])   -- 'v'
  | 119 => some (num .numDaysFromSun, [])                                       -- 'w'
  | 120 => fromSlice D_FMT                                                      -- 'x'
  | 121 => some (num0 .yearMod100, [])                                          -- 'y'
  | 43 => some (fixed .rfc3339, [])                                             -- '+'
  | 37 => some (.literal [37], [])                                              -- '%'
  | _ => none

/-- `'z'` arm -/
def zItem (is_alternate : Bool) : Item :=
  if is_alternate then fixed .timezoneOffsetPermissive else fixed .timezoneOffset

/-- `pad_override` of the first character after `%` -/
def padOf (c : Nat) : Option Pad :=
  if c = 45 then some .none else if c = 48 then some .zero else if c = 95 then some .space else none

/-- `self.error(original, &mut error_len, ch)`; `ch` = `len_utf8` of the offending character if one
is passed.  Returns the remainder, the item and the updated `error_len`. -/
def error (lenient : Bool) (original : List Nat) (error_len : Nat) (ch : Option Nat) :
    List Nat × Item × Nat :=
  if !lenient then ([], .error, error_len)
  else
    let el := error_len - ch.getD 0
    (original.drop el, .literal (original.take el), el)

/-- `remainder.chars().next()` together with the slice after that character -/
def nextCh (s : List Nat) : Option (Nat × Nat × List Nat) :=
  match s with
  | [] => none
  | b :: rest => some (b, charLen b, rest.drop (charLen b - 1))

/-- outcome of the `match spec` block -/
inductive Arm where
  /-- the block produced `item`; `rem`, `queue`, `error_len` as they stand afterwards -/
  | item (it : Item) (rem : List Nat) (queue : List Item) (el : Nat)
  /-- a `next!()` inside the block hit the end of the string: `return Some(self.error(..))` -/
  | ret (rem : List Nat) (it : Item)

/-- the common shape of the `'3' | '6' | '9'` arms (and of their `%.3f` forms): one more character,
which must be `f` -/
def fracArm (lenient : Bool) (original rem : List Nat) (el : Nat) (ok : Item) : Arm :=
  match nextCh rem with
  | none => let e := error lenient original el none; .ret e.1 e.2.1
  | some (c, n, rem') =>
    let el := if lenient then el + n else el
    if c = 102 then .item ok rem' [] el
    else let e := error lenient original el (some n); .item e.2.1 e.1 [] e.2.2

def startsWith (s p : List Nat) : Bool := s.take p.length == p

/-- the `match spec { … }` block; `c`/`n` = the specifier character and its length -/
def specArm (lenient : Bool) (original rem : List Nat) (el : Nat) (is_alternate : Bool) (c n : Nat) : Arm :=
  if c = 122 then .item (zItem is_alternate) rem [] el                             -- 'z'
  else if c = 58 then                                                                -- ':'
    if startsWith rem [58, 58, 122] then .item (fixed .timezoneOffsetTripleColon) (rem.drop 3) [] el
    else if startsWith rem [58, 122] then .item (fixed .timezoneOffsetDoubleColon) (rem.drop 2) [] el
    else if startsWith rem [122] then .item (fixed .timezoneOffsetColon) (rem.drop 1) [] el
    else .item (error lenient original el none).2.1 rem [] el       -- only `.1` of the pair is used
  else if c = 46 then                                                                -- '.'
    match nextCh rem with
    | none => let e := error lenient original el none; .ret e.1 e.2.1
    | some (c1, n1, rem1) =>
      let el1 := if lenient then el + n1 else el
      if c1 = 51 then fracArm lenient original rem1 el1 (fixed .nanosecond3)
      else if c1 = 54 then fracArm lenient original rem1 el1 (fixed .nanosecond6)
      else if c1 = 57 then fracArm lenient original rem1 el1 (fixed .nanosecond9)
      else if c1 = 102 then .item (fixed .nanosecond) rem1 [] el1
      else let e := error lenient original el1 (some n1); .item e.2.1 e.1 [] e.2.2
  else if c = 51 then fracArm lenient original rem el (fixed .nanosecond3NoDot)      -- '3'
  else if c = 54 then fracArm lenient original rem el (fixed .nanosecond6NoDot)      -- '6'
  else if c = 57 then fracArm lenient original rem el (fixed .nanosecond9NoDot)      -- '9'
  else match specTable c with
    | some (it, q) => .item it rem q el
    | none => let e := error lenient original el (some n); .item e.2.1 e.1 [] e.2.2

/-- number of bytes of the white-space run at the head of `s` (fuel = length) -/
def wsSpanAux : Nat → List Nat → Nat → Nat
  | 0, _, acc => acc
  | fuel + 1, s, acc => let n := wsLen s; if n = 0 then acc else wsSpanAux fuel (s.drop n) (acc + n)
def wsSpan (s : List Nat) : Nat := wsSpanAux s.length s 0

/-- number of bytes up to the first white-space character or `%` (whole characters) -/
def litSpanAux : Nat → List Nat → Nat → Nat
  | 0, _, acc => acc
  | fuel + 1, s, acc =>
    match s with
    | [] => acc
    | b :: _ => if b = 37 ∨ wsLen s ≠ 0 then acc else litSpanAux fuel (s.drop (charLen b)) (acc + charLen b)
def litSpan (s : List Nat) : Nat := litSpanAux s.length s 0

/-- `StrftimeItems::parse_next_item(&mut self, remainder)`: `(remainder', item, self.queue)` -/
def parse_next_item (lenient : Bool) (s : List Nat) : Option (List Nat × Item × List Item) :=
  match s with
  | [] => none
  | 37 :: r0 =>
    let original := s
    let el0 := if lenient then 1 else 0
    match nextCh r0 with
    | none => let e := error lenient original el0 none; some (e.1, e.2.1, [])
    | some (c0, n0, r1) =>
      let el1 := if lenient then el0 + n0 else el0
      let pad_override := padOf c0
      let is_alternate : Bool := c0 == 35
      -- `let spec = if pad_override.is_some() || is_alternate { next!() } else { spec }`
      let second : Option (Option (Nat × Nat × List Nat × Nat)) :=
        if pad_override.isSome || is_alternate then
          match nextCh r1 with
          | none => none
          | some (c, n, r2) => some (some (c, n, r2, if lenient then el1 + n else el1))
        else some (some (c0, n0, r1, el1))
      match second with
      | none | some none => let e := error lenient original el1 none; some (e.1, e.2.1, [])
      | some (some (c, n, rem, el)) =>
        if is_alternate && c != 122 then                  -- `!HAVE_ALTERNATES.contains(spec)`
          let e := error lenient original el (some n); some (e.1, e.2.1, [])
        else
          match specArm lenient original rem el is_alternate c n with
          | .ret rem it => some (rem, it, [])
          | .item it rem queue el =>
            match pad_override with
            | some new_pad =>
              match it with
              | .numeric kind _ =>
                if queue.isEmpty then some (rem, .numeric kind new_pad, [])
                else let e := error lenient original el none; some (e.1, e.2.1, queue)
              | _ => let e := error lenient original el none; some (e.1, e.2.1, queue)
            | none => some (rem, it, queue)
  | b :: _ =>
    if wsLen s ≠ 0 then
      let n := wsLen s + wsSpan (s.drop (wsLen s))
      some (s.drop n, .space (s.take n), [])
    else
      let n := charLen b + litSpan (s.drop (charLen b))
      some (s.drop n, .literal (s.take n), [])

/-! ### the iterator -/

structure State where
  remainder : List Nat
  queue : List Item
  deriving DecidableEq, Repr

/-- `Iterator::next` -/
def next (lenient : Bool) (st : State) : Option (Item × State) :=
  match st.queue with
  | it :: q => some (it, { st with queue := q })
  | [] =>
    match parse_next_item lenient st.remainder with
    | none => none
    | some (rem, it, q) => some (it, ⟨rem, q⟩)

/-- `next` called up to `fuel` times -/
def drain (lenient : Bool) : Nat → State → List Item
  | 0, _ => []
  | fuel + 1, st =>
    match next lenient st with
    | none => []
    | some (it, st') => it :: drain lenient fuel st'

/-- the drained iterator, one `parse_next_item` call per unit of fuel: the item, then the queue it
installed, then the items of the remainder -/
def itemsAux (lenient : Bool) : Nat → List Nat → List Item
  | 0, _ => []
  | fuel + 1, s =>
    match parse_next_item lenient s with
    | none => []
    | some (rem, it, q) => it :: (q ++ itemsAux lenient fuel rem)

/-- `StrftimeItems::new(s).collect::<Vec<_>>()` -/
def items (s : List Nat) : List Item := itemsAux false (s.length + 1) s
/-- `StrftimeItems::new_lenient(s).collect::<Vec<_>>()` -/
def itemsLenient (s : List Nat) : List Item := itemsAux true (s.length + 1) s

/-- `StrftimeItems::parse`: `Err(BAD_FORMAT)` iff an `Item::Error` occurs -/
def parse (s : List Nat) : Option (List Item) :=
  let is := items s
  if is.any (· == .error) then none else some is

end Strftime
end Chrono.M
