/-
  Model of the TZif reader: parser.rs (`Header::new`, `State::new`, `parse`) and
  `TimeZone::new` / `validate` of timezone.rs.  Conventions as in Model/TzRule.lean:
  `P` = ok | err | panic; slices and indices panic out of bounds, `read_exact` errs.
-/
import Chrono.Model.TzRule
namespace Chrono.M.Tz
open Chrono Chrono.Extracted.TzP

inductive Version where
  | V1 | V2 | V3
  deriving DecidableEq, Repr

structure Header where
  version : Version
  ut_local_count : Nat
  std_wall_count : Nat
  leap_count : Nat
  transition_count : Nat
  type_count : Nat
  char_count : Nat
  deriving DecidableEq, Repr

def versionOf (bs : List Nat) : Option Version :=
  match bs with
  | [b] => if b = VERSION_BYTE_V1 then some .V1 else if b = VERSION_BYTE_V2 then some .V2
           else if b = VERSION_BYTE_V3 then some .V3 else none
  | _ => none

/-- `Header::new` -/
def Header.new (c : Cursor) : P (Header × Cursor) :=
  read_exact c 4 >>= fun (magic, c1) =>
  if magic ≠ MAGIC then .err else
  read_exact c1 1 >>= fun (vb, c2) =>
  match versionOf vb with
  | none => .err
  | some version =>
  read_exact c2 RESERVED >>= fun (_, c3) =>
  read_be_u32 c3 >>= fun (ut_local_count, c4) =>
  read_be_u32 c4 >>= fun (std_wall_count, c5) =>
  read_be_u32 c5 >>= fun (leap_count, c6) =>
  read_be_u32 c6 >>= fun (transition_count, c7) =>
  read_be_u32 c7 >>= fun (type_count, c8) =>
  read_be_u32 c8 >>= fun (char_count, c9) =>
  if !(type_count != 0 && char_count != 0
        && (ut_local_count == 0 || ut_local_count == type_count)
        && (std_wall_count == 0 || std_wall_count == type_count)) then .err
  else .ok (⟨version, ut_local_count, std_wall_count, leap_count, transition_count, type_count,
              char_count⟩, c9)

structure State where
  header : Header
  time_size : Nat
  transition_times : List Nat
  transition_types : List Nat
  local_time_types : List Nat
  names : List Nat
  leap_seconds : List Nat
  std_walls : List Nat
  ut_locals : List Nat
  deriving DecidableEq, Repr

/-- `State::new(cursor, first)`; the block sizes are `usize` products -/
def State.new (c : Cursor) (first : Bool) : P (State × Cursor) :=
  Header.new c >>= fun (header, c0) =>
  let time_size := if first then 4 else 8
  ckUsz (header.transition_count * time_size) >>= fun n1 =>
  read_exact c0 n1 >>= fun (transition_times, c1) =>
  read_exact c1 header.transition_count >>= fun (transition_types, c2) =>
  ckUsz (header.type_count * TYPE_RECORD) >>= fun n3 =>
  read_exact c2 n3 >>= fun (local_time_types, c3) =>
  read_exact c3 header.char_count >>= fun (names, c4) =>
  ckUsz (header.leap_count * (time_size + 4)) >>= fun n5 =>
  read_exact c4 n5 >>= fun (leap_seconds, c5) =>
  read_exact c5 header.std_wall_count >>= fun (std_walls, c6) =>
  read_exact c6 header.ut_local_count >>= fun (ut_locals, c7) =>
  .ok (⟨header, time_size, transition_times, transition_types, local_time_types, names,
         leap_seconds, std_walls, ut_locals⟩, c7)

/-- `read_be_i32`: `Err` unless exactly four bytes -/
def read_be_i32 (bs : List Nat) : P Int :=
  if bs.length ≠ 4 then .err else .ok (asI32 (beNat bs))
/-- `read_be_i64` -/
def read_be_i64 (bs : List Nat) : P Int :=
  if bs.length ≠ 8 then .err else .ok (asI64 (beNat bs))

/-- `State::parse_time(arr, version)` -/
def parse_time (arr : List Nat) (version : Version) : P Int :=
  match version with
  | .V1 => slice arr 0 4 >>= read_be_i32
  | _ => read_be_i64 arr

/-- `chunks_exact(n)`: `k` chunks of `n` bytes -/
def chunksN : Nat → Nat → List Nat → List (List Nat)
  | 0, _, _ => []
  | k + 1, n, l => l.take n :: chunksN k n (l.drop n)
def chunks_exact (n : Nat) (l : List Nat) : List (List Nat) := chunksN (l.length / n) n l

/-- the transition loop of `parse` (over the zip of time chunks and type bytes) -/
def parseTransitions (time_size : Nat) (version : Version) : List (List Nat × Nat) → P (List Transition)
  | [] => .ok []
  | (arr_time, ty) :: rest =>
    slice arr_time 0 time_size >>= fun a =>
    parse_time a version >>= fun t =>
    parseTransitions time_size version rest >>= fun ts => .ok (⟨t, ty⟩ :: ts)

/-- position of the first NUL -/
def nulPos : List Nat → Option Nat
  | [] => none
  | c :: t => if c = 0 then some 0 else (nulPos t).map (· + 1)

/-- body of the local-time-type loop of `parse` -/
def parseType (char_count : Nat) (names : List Nat) (arr : List Nat) : P Ltt :=
  slice arr 0 4 >>= fun a4 =>
  read_be_i32 a4 >>= fun ut_offset =>
  idx arr 4 >>= fun b4 =>
  (match b4 with
    | 0 => (.ok false : P Bool)
    | 1 => .ok true
    | _ => .err) >>= fun is_dst =>
  idx arr 5 >>= fun char_index =>
  if char_index ≥ char_count then .err else
  sliceFrom names char_index >>= fun tail =>
  match nulPos tail with
  | none => .err
  | some position =>
    ckUsz (char_index + position) >>= fun e =>
    slice names char_index e >>= fun name =>
    Ltt.new ut_offset is_dst (if !name.isEmpty then some name else none)

def parseTypes (char_count : Nat) (names : List Nat) : List (List Nat) → P (List Ltt)
  | [] => .ok []
  | arr :: rest =>
    parseType char_count names arr >>= fun t =>
    parseTypes char_count names rest >>= fun ts => .ok (t :: ts)

def parseLeap (time_size : Nat) (version : Version) (arr : List Nat) : P LeapSecond :=
  slice arr 0 time_size >>= fun a =>
  parse_time a version >>= fun t =>
  ckUsz (time_size + 4) >>= fun e =>
  slice arr time_size e >>= fun cb =>
  read_be_i32 cb >>= fun corr => .ok ⟨t, corr⟩

def parseLeaps (time_size : Nat) (version : Version) : List (List Nat) → P (List LeapSecond)
  | [] => .ok []
  | arr :: rest =>
    parseLeap time_size version arr >>= fun l =>
    parseLeaps time_size version rest >>= fun ls => .ok (l :: ls)

/-- the standard/wall – UT/local consistency test (`(0, 1)` is the forbidden couple) -/
def badIndicators (type_count : Nat) (std_walls ut_locals : List Nat) : Bool :=
  (List.range type_count).any (fun i => std_walls.getD i 0 == 0 && ut_locals.getD i 0 == 1)

/-! ### `str::from_utf8` (std; modelled after the Unicode well-formed byte sequence table) -/
def cont (b : Nat) : Bool := decide (128 ≤ b) && decide (b ≤ 191)

def validUtf8 : List Nat → Bool
  | [] => true
  | b0 :: t =>
    if b0 < 128 then validUtf8 t
    else if 194 ≤ b0 ∧ b0 ≤ 223 then
      match t with
      | b1 :: t1 => cont b1 && validUtf8 t1
      | _ => false
    else if 224 ≤ b0 ∧ b0 ≤ 239 then
      match t with
      | b1 :: b2 :: t2 =>
        (if b0 = 224 then decide (160 ≤ b1) && decide (b1 ≤ 191)
         else if b0 = 237 then decide (128 ≤ b1) && decide (b1 ≤ 159)
         else cont b1) && cont b2 && validUtf8 t2
      | _ => false
    else if 240 ≤ b0 ∧ b0 ≤ 244 then
      match t with
      | b1 :: b2 :: b3 :: t3 =>
        (if b0 = 240 then decide (144 ≤ b1) && decide (b1 ≤ 191)
         else if b0 = 244 then decide (128 ≤ b1) && decide (b1 ≤ 143)
         else cont b1) && cont b2 && cont b3 && validUtf8 t3
      | _ => false
    else false

/-- `str::trim_matches(|c| c.is_ascii_whitespace())` on valid UTF-8, at byte level -/
def trimWs (l : List Nat) : List Nat :=
  ((l.dropWhile isAsciiWs).reverse.dropWhile isAsciiWs).reverse

/-- the footer arm of `parse` -/
def parseFooter (footer : List Nat) (version : Version) : P (Option Rule) :=
  if !validUtf8 footer then .err
  -- repair of finding F36: a footer is NL, TZ string, NL — two bytes at least
  else if decide (footer.length < 2) || !(footer.head? == some 10 && footer.getLast? == some 10) then .err
  else
    let tz_string := trimWs footer
    if tz_string.head? == some 58 || tz_string.contains 0 then .err
    else if tz_string.isEmpty then .ok none
    else from_tz_string tz_string (version == .V3) >>= fun r => .ok (some r)

/-! ### `TimeZone::validate` -/
def satI64 (x : Int) : Int := if x > I64_MAX then I64_MAX else if x < I64_MIN then I64_MIN else x
def satI32 (x : Int) : Int := if x > I32_MAX then I32_MAX else if x < I32_MIN then I32_MIN else x
/-- `i32::saturating_abs` -/
def satAbs32 (x : Int) : Int := satI32 (iabs x)

def checkTransitions (n : Nat) : List Transition → Bool
  | [] => true
  | t :: rest =>
    decide (t.idx < n)
      && (match rest with
          | [] => true
          | u :: _ => decide (t.time < u.time))
      && checkTransitions n rest

def checkLeapPairs : List LeapSecond → Bool
  | [] => true
  | x0 :: rest =>
    (match rest with
      | [] => true
      | x1 :: _ =>
        decide (satI64 (x1.time - x0.time) ≥ SECONDS_PER_28_DAYS - 1)
          && satAbs32 (satI32 (x1.corr - x0.corr)) == 1)
      && checkLeapPairs rest

def checkLeaps (ls : List LeapSecond) : Bool :=
  (match ls with
    | [] => true
    | l0 :: _ => decide (l0.time ≥ 0) && satAbs32 l0.corr == 1)
  && checkLeapPairs ls

/-- `unix_leap_time_to_unix_time` -/
def unix_leap_time_to_unix_time (leaps : List LeapSecond) (unix_leap_time : Int) : P Int :=
  if unix_leap_time = I64_MIN then .err else
  ck64 (unix_leap_time - 1) >>= fun key =>
  let index := bsearchUpper (leaps.map (·.time)) key
  (if index > 0 then
      match leaps[index - 1]? with
      | some l => (.ok l.corr : P Int)
      | none => .panic
    else .ok 0) >>= fun correction =>
  match optI64 (unix_leap_time - correction) with
  | some t => .ok t
  | none => .err

def nameEq (a b : Option (List Nat)) : Bool :=
  match a, b with
  | some x, some y => x == y
  | none, none => true
  | _, _ => false

def validate (z : Zone) : P Unit :=
  if z.types.length = 0 then .err
  else if !checkTransitions z.types.length z.transitions then .err
  else if !checkLeaps z.leaps then .err
  else
    match z.rule, z.transitions.getLast? with
    | some rule, some last =>
      (match z.types[last.idx]? with
        | some t => (.ok t : P Ltt)
        | none => .panic) >>= fun last_ltt =>
      unix_leap_time_to_unix_time z.leaps last.time >>= fun unix_time =>
      rule.find_ltt_for_validate unix_time >>= fun rule_ltt =>
      if last_ltt.off == rule_ltt.off && last_ltt.dst == rule_ltt.dst && nameEq last_ltt.name rule_ltt.name
      then .ok () else .err
    | _, _ => .ok ()

/-- `TimeZone::new` -/
def Zone.new (transitions : List Transition) (types : List Ltt) (leaps : List LeapSecond)
    (rule : Option Rule) : P Zone :=
  validate ⟨transitions, types, leaps, rule⟩ >>= fun _ => .ok ⟨transitions, types, leaps, rule⟩

/-- the two data blocks: `(state used for decoding, footer bytes if v2+)` -/
def parseBlocks (bytes : List Nat) : P (State × Option (List Nat)) :=
  State.new bytes true >>= fun (state1, c1) =>
  match state1.header.version with
  | .V1 => if c1.isEmpty then .ok (state1, none) else .err
  | _ => State.new c1 false >>= fun (state2, c2) =>
    -- repair of finding F35: the second header must repeat the first header's version
    if state2.header.version ≠ state1.header.version then .err else .ok (state2, some c2)

/-- the `extra_rule` match of `parse`: only v2+ files have a footer -/
def parseFooterOpt (footer : Option (List Nat)) (version : Version) : P (Option Rule) :=
  match footer with
  | some f => parseFooter f version
  | none => .ok none

/-- the part of `parser::parse` after the two data blocks have been sliced -/
def parseRest (state : State) (footer : Option (List Nat)) : P Zone :=
  parseTransitions state.time_size state.header.version
      ((chunks_exact state.time_size state.transition_times).zip state.transition_types) >>= fun transitions =>
  parseTypes state.header.char_count state.names (chunks_exact TYPE_RECORD state.local_time_types) >>= fun types =>
  parseLeaps state.time_size state.header.version
      (chunks_exact (state.time_size + 4) state.leap_seconds) >>= fun leaps =>
  if badIndicators state.header.type_count state.std_walls state.ut_locals then .err else
  parseFooterOpt footer state.header.version >>= fun extra_rule =>
  Zone.new transitions types leaps extra_rule

/-- `parser::parse` -/
def parse (bytes : List Nat) : P Zone :=
  parseBlocks bytes >>= fun (state, footer) => parseRest state footer

/-- the `Vec::with_capacity` requests `parse` makes before it returns (element counts) -/
def capacities (bytes : List Nat) : List Nat :=
  match parseBlocks bytes with
  | .ok (state, _) => [state.header.transition_count, state.header.type_count, state.header.leap_count]
  | _ => []

/-- `size_of` of the three element types on the 64-bit target the harness runs on:
`Transition { i64, usize }`, `LocalTimeType { i32, bool, Option<[u8; 8]> }`, `LeapSecond { i64, i32 }`
(declared, see props/C16.json; the harness measures the actual allocation requests) -/
def ELEM_BYTES : Nat := 16

/-- the same requests in bytes -/
def capacityBytes (bytes : List Nat) : List Nat := (capacities bytes).map (· * ELEM_BYTES)

end Chrono.M.Tz
