/-
  `NaiveDateTime::checked_add_signed / checked_sub_signed` (src/naive/datetime/mod.rs) with the
  *date abstracted to a day number* in a window `[lo, hi]`: the time-of-day part is the real model
  (`Time.overflowing_add_signed`), the carry handling (`TimeDelta::try_seconds(remainder)`,
  `num_days`, the `i32` guard of `NaiveDate::checked_add_signed`) is mirrored, and
  `NaiveDate::add_days` is replaced by its contract "day + n, refused outside the window".
  The packed-date implementation of `add_days` belongs to C01/C03, not to this file.
-/
import Chrono.Model.Time
namespace Chrono.M.TimeCarry
open Chrono Chrono.M

/-- contract of `NaiveDate::add_days(days: i32)` on day numbers -/
def add_days (lo hi day days : Int) : Option Int :=
  if lo ≤ day + days ∧ day + days ≤ hi then some (day + days) else none

/-- `NaiveDateTime::checked_add_signed` -/
def checked_add_signed (lo hi day : Int) (t : Time) (rhs : Delta) : Res (Option (Int × Time)) :=
  (Time.overflowing_add_signed t rhs).bind fun p =>
  match Delta.try_seconds p.2 with
  | none => .ok none
  | some rem =>
    let days := rem.num_days
    if days < I32_MIN ∨ days > I32_MAX then .ok none
    else match add_days lo hi day days with
      | none => .ok none
      | some d => .ok (some (d, p.1))

/-- `NaiveDateTime::checked_sub_signed` (`NaiveDate::checked_sub_signed` negates `num_days`) -/
def checked_sub_signed (lo hi day : Int) (t : Time) (rhs : Delta) : Res (Option (Int × Time)) :=
  (Time.overflowing_sub_signed t rhs).bind fun p =>
  match Delta.try_seconds p.2 with
  | none => .ok none
  | some rem =>
    (ckI64 (-rem.num_days)).bind fun days =>
    if days < I32_MIN ∨ days > I32_MAX then .ok none
    else match add_days lo hi day days with
      | none => .ok none
      | some d => .ok (some (d, p.1))

/-- `NaiveDateTime::signed_duration_since`: date difference in whole days (`expect(try_days)`)
`checked_add` the time-of-day difference, `expect`ed -/
def signed_duration_since (dayA : Int) (ta : Time) (dayB : Int) (tb : Time) : Res Delta :=
  match Delta.try_days (dayA - dayB) with
  | none => .panic
  | some dd =>
    (Time.signed_duration_since ta tb).bind fun td =>
    (Delta.checked_add dd td).bind fun r =>
    match r with
    | some d => .ok d
    | none => .panic

end Chrono.M.TimeCarry
