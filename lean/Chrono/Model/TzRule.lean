/-
  Model of the POSIX-TZ rule reader (src/offset/local/tz_info/rule.rs + the `Cursor` of parser.rs +
  `LocalTimeType::new` / `TimeZoneName::new` of timezone.rs), and of the rule lookup by instant
  that `TimeZone::validate` calls.

  Result type `P`: `ok v` (Rust `Ok(v)`), `err` (any `Err(_)`; the error payload is not modelled:
  the property only distinguishes accepted / rejected), `panic` (slice index out of bounds, integer
  overflow in the overflow-checked build, `unwrap` on `None`).  Every Rust slice expression goes
  through `slice`/`sliceFrom`/`idx` (panic when out of bounds), every `Option`-returning `get` through
  `read_exact`, every arithmetic step that is not obviously small through `ck32`/`ck64`/`ckUsz`.
  `Cursor` is the remaining byte list (`read_count` is only observable on OpenHarmony and is left out).
-/
import Chrono.Prim
import Chrono.Model.TzData
import Chrono.Extracted.TzParse
namespace Chrono.M.Tz
open Chrono Chrono.Extracted.TzP

inductive P (α : Type) where
  | ok (a : α)
  | err
  | panic
  deriving DecidableEq, Repr

namespace P
@[inline] def bind {α β} (r : P α) (f : α → P β) : P β :=
  match r with
  | ok a => f a
  | err => err
  | panic => panic
instance : Monad P where
  pure := ok
  bind := bind
@[simp] theorem bind_ok {α β} (a : α) (f : α → P β) : (P.ok a >>= f) = f a := rfl
@[simp] theorem bind_err {α β} (f : α → P β) : ((P.err : P α) >>= f) = P.err := rfl
@[simp] theorem bind_panic {α β} (f : α → P β) : ((P.panic : P α) >>= f) = P.panic := rfl
@[simp] theorem pure_eq {α} (a : α) : (pure a : P α) = P.ok a := rfl
def isOk {α} : P α → Bool
  | ok _ => true
  | _ => false
end P

/-! ### machine arithmetic (panic on overflow) -/
@[inline] def ck32 (x : Int) : P Int := if inI32 x then .ok x else .panic
@[inline] def ck64 (x : Int) : P Int := if inI64 x then .ok x else .panic
/-- `usize` arithmetic (64-bit target) -/
@[inline] def ckUsz (x : Nat) : P Nat := if x < 18446744073709551616 then .ok x else .panic

/-! ### slices -/
/-- `&l[a..b]` -/
def slice (l : List Nat) (a b : Nat) : P (List Nat) :=
  if a ≤ b ∧ b ≤ l.length then .ok ((l.drop a).take (b - a)) else .panic
/-- `&l[a..]` -/
def sliceFrom (l : List Nat) (a : Nat) : P (List Nat) :=
  if a ≤ l.length then .ok (l.drop a) else .panic
/-- `l[i]` -/
def idx (l : List Nat) (i : Nat) : P Nat :=
  match l[i]? with
  | some b => .ok b
  | none => .panic
/-- `l[i]` on a constant table of integers -/
def idxI (l : List Int) (i : Nat) : P Int :=
  match l[i]? with
  | some b => .ok b
  | none => .panic

/-! ### `Cursor` -/
abbrev Cursor := List Nat

def peek (c : Cursor) : Option Nat := c.head?

/-- `read_exact`: `get(..count)` and `get(count..)` are both `Some` iff `count ≤ len` -/
def read_exact (c : Cursor) (count : Nat) : P (List Nat × Cursor) :=
  if count ≤ c.length then .ok (c.take count, c.drop count) else .err

/-- big-endian unsigned value of a byte list (list elements are bytes: taken modulo 256) -/
def beNat (bs : List Nat) : Nat := bs.foldl (fun a b => a * 256 + b % 256) 0

def read_be_u32 (c : Cursor) : P (Nat × Cursor) :=
  match read_exact c 4 with
  | .ok (bs, c') => .ok (beNat bs, c')
  | .err => .err
  | .panic => .panic

def read_tag (c : Cursor) (tag : List Nat) : P Cursor :=
  match read_exact c tag.length with
  | .ok (bs, c') => if bs = tag then .ok c' else .err
  | .err => .err
  | .panic => .panic

def read_optional_tag (c : Cursor) (tag : List Nat) : P (Bool × Cursor) :=
  if tag.isPrefixOf c then
    match read_exact c tag.length with
    | .ok (_, c') => .ok (true, c')
    | .err => .err
    | .panic => .panic
  else .ok (false, c)

/-- `read_while f`: position of the first byte failing `f`, or everything -/
def read_while (c : Cursor) (f : Nat → Bool) : P (List Nat × Cursor) :=
  read_exact c (c.takeWhile f).length

def read_until (c : Cursor) (f : Nat → Bool) : P (List Nat × Cursor) :=
  read_exact c (c.takeWhile (fun b => !f b)).length

def isDigit (b : Nat) : Bool := decide (48 ≤ b) && decide (b ≤ 57)
def isAlpha (b : Nat) : Bool := (decide (65 ≤ b) && decide (b ≤ 90)) || (decide (97 ≤ b) && decide (b ≤ 122))
/-- `u8::is_ascii_whitespace` / `char::is_ascii_whitespace`: space, \t, \n, \x0C, \r -/
def isAsciiWs (b : Nat) : Bool := b == 32 || b == 9 || b == 10 || b == 12 || b == 13

/-- value of a string of ASCII digits -/
def digitsVal (ds : List Nat) : Nat := ds.foldl (fun a d => a * 10 + (d - 48)) 0

/-- `read_int::<T>`: the digits, parsed by `str::parse::<T>` (`T` unsigned or `i32`, no sign can
occur): error if there is no digit or the value exceeds `T::MAX` -/
def read_int (c : Cursor) (max : Nat) : P (Int × Cursor) :=
  match read_while c isDigit with
  | .ok (ds, c') =>
    if ds.isEmpty then .err
    else if digitsVal ds > max then .err
    else .ok ((digitsVal ds : Int), c')
  | .err => .err
  | .panic => .panic

def I32MAXN : Nat := 2147483647
def U16MAXN : Nat := 65535
def U8MAXN : Nat := 255

/-! ### `TimeZoneName::new`, `LocalTimeType::new` -/
def nameChar (b : Nat) : Bool := isDigit b || isAlpha b || b == 43 || b == 45

/-- `TimeZoneName::new`; the value kept is the byte string itself (`bytes[1..=len]`) -/
def TimeZoneName.new (input : List Nat) : P (List Nat) :=
  if !(decide (NAME_MIN ≤ (input.length : Int)) && decide ((input.length : Int) ≤ NAME_MAX)) then .err
  else if input.all nameChar then .ok input else .err

/-- `LocalTimeType::new` (after the repair of finding F32, commit 770977e): an offset of 24 hours or
more in magnitude is refused — `Local` hands offsets out as `FixedOffset`, strictly within 24 h -/
def Ltt.new (ut_offset : Int) (is_dst : Bool) (name : Option (List Nat)) : P Ltt :=
  if ut_offset ≤ -86400 ∨ ut_offset ≥ 86400 then .err
  else match name with
    | some n =>
      match TimeZoneName.new n with
      | .ok n' => .ok ⟨ut_offset, is_dst, some n'⟩
      | .err => .err
      | .panic => .panic
    | none => .ok ⟨ut_offset, is_dst, none⟩

/-- `LocalTimeType::with_offset` (used by `TimeZone::fixed`): same offset check, no designation -/
def Ltt.with_offset (ut_offset : Int) : P Ltt :=
  if ut_offset ≤ -86400 ∨ ut_offset ≥ 86400 then .err else .ok ⟨ut_offset, false, none⟩

/-- `LocalTimeType::new` AS IT WAS BEFORE the repair of F32 (only `i32::MIN` refused); kept for the
pinned-behaviour theorem `Props.C16.local_panics_pinned_before_F32` only -/
def Ltt.new_before_F32 (ut_offset : Int) (is_dst : Bool) (name : Option (List Nat)) : P Ltt :=
  if ut_offset = I32_MIN then .err
  else match name with
    | some n =>
      match TimeZoneName.new n with
      | .ok n' => .ok ⟨ut_offset, is_dst, some n'⟩
      | .err => .err
      | .panic => .panic
    | none => .ok ⟨ut_offset, is_dst, none⟩

/-! ### TZ string pieces -/
def parse_name (c : Cursor) : P (List Nat × Cursor) :=
  match peek c with
  | some 60 => do
    let (_, c1) ← read_exact c 1
    let (unquoted, c2) ← read_until c1 (fun x => x == 62)
    let (_, c3) ← read_exact c2 1
    .ok (unquoted, c3)
  | _ => read_while c isAlpha

def parse_hhmmss (c : Cursor) : P ((Int × Int × Int) × Cursor) := do
  let (hour, c1) ← read_int c I32MAXN
  let (colon1, c2) ← read_optional_tag c1 [58]
  if colon1 then do
    let (minute, c3) ← read_int c2 I32MAXN
    let (colon2, c4) ← read_optional_tag c3 [58]
    if colon2 then do
      let (second, c5) ← read_int c4 I32MAXN
      .ok ((hour, minute, second), c5)
    else .ok ((hour, minute, 0), c4)
  else .ok ((hour, 0, 0), c2)

/-- the optional sign in front of `hh[:mm[:ss]]` -/
def parse_sign (c : Cursor) : P (Int × Cursor) :=
  match peek c with
  | some 43 => (read_exact c 1) >>= fun (_, c') => .ok (1, c')
  | some 45 => (read_exact c 1) >>= fun (_, c') => .ok (-1, c')
  | _ => .ok (1, c)

def parse_signed_hhmmss (c : Cursor) : P ((Int × Int × Int × Int) × Cursor) :=
  parse_sign c >>= fun (sign, c1) =>
  parse_hhmmss c1 >>= fun ((h, m, s), c2) => .ok ((sign, h, m, s), c2)

def parse_offset (c : Cursor) : P (Int × Cursor) :=
  parse_signed_hhmmss c >>= fun ((sign, hour, minute, second), c1) =>
  if !(decide (0 ≤ hour) && decide (hour ≤ OFFSET_HOUR_MAX)) then .err
  else if !(decide (0 ≤ minute) && decide (minute ≤ OFFSET_MINUTE_MAX)) then .err
  else if !(decide (0 ≤ second) && decide (second ≤ OFFSET_SECOND_MAX)) then .err
  else ck32 (sign * (hour * 3600 + minute * 60 + second)) >>= fun v => .ok (v, c1)

def parse_rule_time (c : Cursor) : P (Int × Cursor) :=
  parse_hhmmss c >>= fun ((hour, minute, second), c1) =>
  if !(decide (0 ≤ hour) && decide (hour ≤ RULE_HOUR_MAX)) then .err
  else if !(decide (0 ≤ minute) && decide (minute ≤ RULE_MINUTE_MAX)) then .err
  else if !(decide (0 ≤ second) && decide (second ≤ RULE_SECOND_MAX)) then .err
  else ck32 (hour * 3600 + minute * 60 + second) >>= fun v => .ok (v, c1)

def parse_rule_time_extended (c : Cursor) : P (Int × Cursor) :=
  parse_signed_hhmmss c >>= fun ((sign, hour, minute, second), c1) =>
  if !(decide (EXT_HOUR_MIN ≤ hour) && decide (hour ≤ EXT_HOUR_MAX)) then .err
  else if !(decide (0 ≤ minute) && decide (minute ≤ EXT_MINUTE_MAX)) then .err
  else if !(decide (0 ≤ second) && decide (second ≤ EXT_SECOND_MAX)) then .err
  else ck32 (sign * (hour * 3600 + minute * 60 + second)) >>= fun v => .ok (v, c1)

def RuleDay.julian_1 (d : Int) : P RuleDay :=
  if !(decide (JULIAN1_MIN ≤ d) && decide (d ≤ JULIAN1_MAX)) then .err else .ok (.julian1 d.toNat)
def RuleDay.julian_0 (d : Int) : P RuleDay :=
  if d > JULIAN0_MAX then .err else .ok (.julian0 d.toNat)
def RuleDay.month_weekday (month week week_day : Int) : P RuleDay :=
  if !(decide (MONTH_MIN ≤ month) && decide (month ≤ MONTH_MAX)) then .err
  else if !(decide (WEEK_MIN ≤ week) && decide (week ≤ WEEK_MAX)) then .err
  else if week_day > WEEKDAY_MAX then .err
  else .ok (.mwd month.toNat week.toNat week_day.toNat)

/-- the date part of `RuleDay::parse` -/
def RuleDay.parse_date (c : Cursor) : P (RuleDay × Cursor) :=
  match peek c with
  | some 77 =>    -- 'M'
    read_exact c 1 >>= fun (_, c1) =>
    read_int c1 U8MAXN >>= fun (month, c2) =>
    read_tag c2 [46] >>= fun c3 =>
    read_int c3 U8MAXN >>= fun (week, c4) =>
    read_tag c4 [46] >>= fun c5 =>
    read_int c5 U8MAXN >>= fun (week_day, c6) =>
    RuleDay.month_weekday month week week_day >>= fun d => .ok (d, c6)
  | some 74 =>    -- 'J'
    read_exact c 1 >>= fun (_, c1) =>
    read_int c1 U16MAXN >>= fun (n, c2) =>
    RuleDay.julian_1 n >>= fun d => .ok (d, c2)
  | _ =>
    read_int c U16MAXN >>= fun (n, c1) =>
    RuleDay.julian_0 n >>= fun d => .ok (d, c1)

def RuleDay.parse (c : Cursor) (use_string_extensions : Bool) : P ((RuleDay × Int) × Cursor) :=
  RuleDay.parse_date c >>= fun (date, c1) =>
  read_optional_tag c1 [47] >>= fun (slash, c2) =>
  match slash, use_string_extensions with
  | false, _ => .ok ((date, DEFAULT_RULE_TIME), c2)
  | true, true => parse_rule_time_extended c2 >>= fun (t, c3) => .ok ((date, t), c3)
  | true, false => parse_rule_time c2 >>= fun (t, c3) => .ok ((date, t), c3)

/-- `(x as i64).abs()` for an `i32` value -/
def iabs (x : Int) : Int := if x < 0 then -x else x

def Alt.new (std dst : Ltt) (dst_start : RuleDay) (dst_start_time : Int) (dst_end : RuleDay)
    (dst_end_time : Int) : P Alt :=
  if !(decide (iabs dst_start_time < SECONDS_PER_WEEK) && decide (iabs dst_end_time < SECONDS_PER_WEEK)) then .err
  else .ok ⟨std, dst, dst_start, dst_start_time, dst_end, dst_end_time⟩

/-- the `dst_offset` match of `from_tz_string` -/
def parse_dst_offset (std_offset : Int) (c3 : Cursor) : P (Int × Cursor) :=
  match peek c3 with
  | some 44 => ck32 (std_offset - DEFAULT_DST_DELTA) >>= fun o => .ok (o, c3)
  | some _ => parse_offset c3
  | none => .err

/-- `TransitionRule::from_tz_string` -/
def from_tz_string (tz_string : List Nat) (use_string_extensions : Bool) : P Rule :=
  parse_name tz_string >>= fun (std_time_zone, c1) =>
  parse_offset c1 >>= fun (std_offset, c2) =>
  if c2.isEmpty then
    ck32 (-std_offset) >>= fun o => Ltt.new o false (some std_time_zone) >>= fun t => .ok (.fixed t)
  else
  parse_name c2 >>= fun (dst_time_zone, c3) =>
  parse_dst_offset std_offset c3 >>= fun (dst_offset, c4) =>
  if c4.isEmpty then .err else
  read_tag c4 [44] >>= fun c5 =>
  RuleDay.parse c5 use_string_extensions >>= fun ((dst_start, dst_start_time), c6) =>
  read_tag c6 [44] >>= fun c7 =>
  RuleDay.parse c7 use_string_extensions >>= fun ((dst_end, dst_end_time), c8) =>
  if !c8.isEmpty then .err else
  ck32 (-std_offset) >>= fun so =>
  Ltt.new so false (some std_time_zone) >>= fun std =>
  ck32 (-dst_offset) >>= fun d_o =>
  Ltt.new d_o true (some dst_time_zone) >>= fun dst =>
  Alt.new std dst dst_start dst_start_time dst_end dst_end_time >>= fun a => .ok (.alt a)

/-! ### calendar helpers used by the rule lookup (rule.rs) -/
def is_leap_year (year : Int) : Bool :=
  Int.tmod year 400 == 0 || (Int.tmod year 4 == 0 && Int.tmod year 100 != 0)

/-- `days_since_unix_epoch(year, month, month_day)`; `CUMUL[month - 1]` is a slice index -/
def days_since_unix_epoch (year : Int) (month : Nat) (month_day : Int) : P Int :=
  let leap := is_leap_year year
  let r0 := (year - 1970) * 365
  let r1 :=
    if year ≥ 1970 then
      let r := r0 + Int.tdiv (year - 1968) 4 - Int.tdiv (year - 1900) 100 + Int.tdiv (year - 1600) 400
      if leap && decide (month < 3) then r - 1 else r
    else
      let r := r0 + Int.tdiv (year - 1972) 4 - Int.tdiv (year - 2000) 100 + Int.tdiv (year - 2000) 400
      if leap && decide (month ≥ 3) then r + 1 else r
  if month = 0 then .panic   -- `month - 1` on usize
  else idxI CUMUL_DAY_IN_MONTHS_NORMAL_YEAR (month - 1) >>= fun cum =>
    ck64 (r1 + cum + month_day - 1)

/-- `slice.binary_search(&key)` followed by `Ok(x) => x + 1, Err(x) => x`, on a sorted slice without
repetitions: the number of elements `≤ key` (std's documented contract; trusted) -/
def bsearchUpper (keys : List Int) (key : Int) : Nat := (keys.takeWhile (fun k => decide (k ≤ key))).length

def cumulLeap (leap : Int) : List Int :=
  [0, 31, 59 + leap, 90 + leap, 120 + leap, 151 + leap, 181 + leap, 212 + leap, 243 + leap,
   273 + leap, 304 + leap, 334 + leap]

/-- the `MonthWeekday` arm of `transition_date`, as a function of the weekday of the 1st -/
def mwdDay (day_in_month : Int) (week week_day wd1 : Int) : Int :=
  let first := 1 + (week_day - wd1) % DAYS_PER_WEEK
  let md := first + (week - 1) * DAYS_PER_WEEK
  if md > day_in_month then md - DAYS_PER_WEEK else md

/-- the `Julian1WithoutLeap` arm of `transition_date` -/
def julian1Date (year_day : Int) : P (Nat × Int) :=
  let month := bsearchUpper CUMUL_DAY_IN_MONTHS_NORMAL_YEAR (year_day - 1)
  if month = 0 then .panic
  else idxI CUMUL_DAY_IN_MONTHS_NORMAL_YEAR (month - 1) >>= fun cum => .ok (month, year_day - cum)

/-- the `Julian0WithLeap` arm of `transition_date` (`leap` = 0 or 1) -/
def julian0Date (leap : Int) (year_day : Int) : P (Nat × Int) :=
  let month := bsearchUpper (cumulLeap leap) year_day
  if month = 0 then .panic
  else idxI (cumulLeap leap) (month - 1) >>= fun cum => .ok (month, 1 + year_day - cum)

/-- `RuleDay::transition_date(year)` → `(month, month_day)` -/
def RuleDay.transition_date (d : RuleDay) (year : Int) : P (Nat × Int) :=
  match d with
  | .julian1 yd => julian1Date yd
  | .julian0 yd => julian0Date (if is_leap_year year then 1 else 0) yd
  | .mwd rule_month week week_day =>
    let leap : Int := if is_leap_year year then 1 else 0
    let month := rule_month
    if month = 0 then .panic
    else idxI DAY_IN_MONTHS_NORMAL_YEAR (month - 1) >>= fun dim0 =>
      let day_in_month := if month = 2 then dim0 + leap else dim0
      days_since_unix_epoch year month 1 >>= fun d1 =>
      let wd1 := (4 + d1) % DAYS_PER_WEEK
      .ok (month, mwdDay day_in_month week week_day wd1)

/-- `RuleDay::unix_time(year, day_time_in_utc)` -/
def RuleDay.unix_time (d : RuleDay) (year : Int) (day_time_in_utc : Int) : P Int :=
  d.transition_date year >>= fun (month, month_day) =>
  days_since_unix_epoch year month month_day >>= fun days =>
  ck64 (days * SECONDS_PER_DAY) >>= fun s => ck64 (s + day_time_in_utc)

/-- the month loop of `UtcDateTime::from_timespec`: number of table entries passed -/
def monthLoop : List Int → Int → Nat → Nat
  | [], _, m => m
  | days :: rest, rem, m => if rem < days then m else monthLoop rest (rem - days) (m + 1)

/-- `UtcDateTime::from_timespec(unix_time)?.year` (the other fields are not used by the lookup) -/
def from_timespec_year (unix_time : Int) : P Int :=
  match optI64 (unix_time - UNIX_OFFSET_SECS) with
  | none => .err
  | some seconds =>
    let rd0 := Int.tdiv seconds SECONDS_PER_DAY
    let rs0 := Int.tmod seconds SECONDS_PER_DAY
    let rd1 := if rs0 < 0 then rd0 - 1 else rd0
    let c400a := Int.tdiv rd1 DAYS_PER_400_YEARS
    let rd2a := Int.tmod rd1 DAYS_PER_400_YEARS
    let c400 := if rd2a < 0 then c400a - 1 else c400a
    let rd2 := if rd2a < 0 then rd2a + DAYS_PER_400_YEARS else rd2a
    let c100 := min (Int.tdiv rd2 DAYS_PER_100_YEARS) 3
    let rd3 := rd2 - c100 * DAYS_PER_100_YEARS
    let c4 := min (Int.tdiv rd3 DAYS_PER_4_YEARS) 24
    let rd4 := rd3 - c4 * DAYS_PER_4_YEARS
    let ry := min (Int.tdiv rd4 DAYS_PER_NORMAL_YEAR) 3
    let rd5 := rd4 - ry * DAYS_PER_NORMAL_YEAR
    let year0 := OFFSET_YEAR + ry + c4 * 4 + c100 * 100 + c400 * 400
    let month := monthLoop DAY_IN_MONTHS_LEAP_YEAR_FROM_MARCH rd5 0 + 2
    let year := if (month : Int) ≥ MONTHS_PER_YEAR then year0 + 1 else year0
    if inI32 year then .ok year else .err

/-- `AlternateTime::find_ltt_for_validate(unix_time)` -/
def Alt.find_ltt_for_validate (a : Alt) (unix_time : Int) : P Ltt :=
  let dst_start_time_in_utc := a.dstStartTime - a.std.off
  let dst_end_time_in_utc := a.dstEndTime - a.dst.off
  from_timespec_year unix_time >>= fun current_year =>
  if !(decide (I32_MIN + 2 ≤ current_year) && decide (current_year ≤ I32_MAX - 2)) then .err else
  a.dstStart.unix_time current_year dst_start_time_in_utc >>= fun cur_start =>
  a.dstEnd.unix_time current_year dst_end_time_in_utc >>= fun cur_end =>
  let is_dst : P Bool :=
    if cur_start ≤ cur_end then
      if unix_time < cur_start then
        ck32 (current_year - 1) >>= fun py =>
        a.dstEnd.unix_time py dst_end_time_in_utc >>= fun prev_end =>
        if unix_time < prev_end then
          a.dstStart.unix_time py dst_start_time_in_utc >>= fun prev_start =>
          .ok (decide (prev_start ≤ unix_time))
        else .ok false
      else if unix_time < cur_end then .ok true
      else
        ck32 (current_year + 1) >>= fun ny =>
        a.dstStart.unix_time ny dst_start_time_in_utc >>= fun next_start =>
        if next_start ≤ unix_time then
          a.dstEnd.unix_time ny dst_end_time_in_utc >>= fun next_end =>
          .ok (decide (unix_time < next_end))
        else .ok false
    else
      if unix_time < cur_end then
        ck32 (current_year - 1) >>= fun py =>
        a.dstStart.unix_time py dst_start_time_in_utc >>= fun prev_start =>
        if unix_time < prev_start then
          a.dstEnd.unix_time py dst_end_time_in_utc >>= fun prev_end =>
          .ok (decide (unix_time < prev_end))
        else .ok true
      else if unix_time < cur_start then .ok false
      else
        ck32 (current_year + 1) >>= fun ny =>
        a.dstEnd.unix_time ny dst_end_time_in_utc >>= fun next_end =>
        if next_end ≤ unix_time then
          a.dstStart.unix_time ny dst_start_time_in_utc >>= fun next_start =>
          .ok (decide (next_start ≤ unix_time))
        else .ok true
  is_dst >>= fun b => .ok (if b then a.dst else a.std)

/-- `TransitionRule::find_ltt_for_validate(unix_time)` -/
def Rule.find_ltt_for_validate (r : Rule) (unix_time : Int) : P Ltt :=
  match r with
  | .fixed t => .ok t
  | .alt a => a.find_ltt_for_validate unix_time

end Chrono.M.Tz
