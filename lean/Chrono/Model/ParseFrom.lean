/-
  The format-string entry points (property C13):
  `NaiveDate::parse_from_str`, `NaiveTime::parse_from_str`, `NaiveDateTime::parse_from_str`,
  `DateTime::<FixedOffset>::parse_from_str`, their `parse_and_remainder` companions, and the matching
  `format(fmt)` methods (`format_with_items(StrftimeItems::new(fmt))` written into a `String`).

  Each is a composition of models that exist already:
  `Strftime.items` (format string → items), `Parse.parse` / `Parse.parse_internal` (text → fields),
  `Parsed.to_naive_date / to_naive_time / to_naive_datetime_with_offset 0 / to_datetime`
  (fields → value), `Format.formatItemsR` (value → text).
-/
import Chrono.Model.Parse
import Chrono.Model.ParsedResolve
import Chrono.Model.Strftime
import Chrono.Model.Format
namespace Chrono.M
namespace ParseFrom
open Parsed (RP)

/-- the four target types of `parse_from_str` -/
inductive Target where
  | date | time | naive | zoned
  deriving DecidableEq, Repr

/-- a value of one of the four target types -/
inductive Value where
  | date (d : Date)
  | time (t : Time)
  | naive (dt : NaiveDT)
  | zoned (z : Zoned)
  deriving DecidableEq, Repr

def Value.target : Value → Target
  | .date _ => .date | .time _ => .time | .naive _ => .naive | .zoned _ => .zoned

/-- `parse(&mut parsed, s, StrftimeItems::new(fmt))?` on a fresh record -/
def fields (s fmt : List Nat) : PRes Parsed := Parse.parse Parsed.new s (Strftime.items fmt)

/-- `parse_and_remainder(&mut parsed, s, StrftimeItems::new(fmt))?` on a fresh record -/
def fieldsRem (s fmt : List Nat) : PRes (Parsed × List Nat) :=
  Parse.parse_internal Parsed.new s (Strftime.items fmt)

/-- the resolver each target type calls on the filled record -/
def resolve (t : Target) (p : Parsed) : RP Value :=
  match t with
  | .date => Parsed.RP.bind (Parsed.to_naive_date p) fun d => .ok (.ok (.date d))
  | .time => Parsed.RP.bind (.ok (Parsed.to_naive_time p)) fun x => .ok (.ok (.time x))
  | .naive => Parsed.RP.bind (Parsed.to_naive_datetime_with_offset p 0) fun x => .ok (.ok (.naive x))
  | .zoned => Parsed.RP.bind (Parsed.to_datetime p) fun x => .ok (.ok (.zoned x))

/-- `T::parse_from_str(s, fmt)` -/
def parse_from_str (t : Target) (s fmt : List Nat) : RP Value :=
  match fields s fmt with
  | .error e => .ok (.error e)
  | .ok p => resolve t p

/-- `T::parse_and_remainder(s, fmt)` -/
def parse_and_remainder (t : Target) (s fmt : List Nat) : RP (Value × List Nat) :=
  match fieldsRem s fmt with
  | .error e => .ok (.error e)
  | .ok (p, rest) => Parsed.RP.bind (resolve t p) fun v => .ok (.ok (v, rest))

/-- `v.format(fmt)` written into a `String` (`write!(s, "{}", v.format(fmt))`):
a date carries no time and no offset, a time no date, a naive date-time no offset; a zone-aware value
is shown through `overflowing_naive_local` with the offset's `Display` as its name. -/
def formatItemsOf (v : Value) (items : List Item) : Format.W :=
  match v with
  | .date d => Format.formatItemsR (some d) none none items
  | .time t => Format.formatItemsR none (some t) none items
  | .naive dt => Format.formatItemsR (some dt.date) (some dt.time) none items
  | .zoned z =>
    Format.W.ofRes z.overflowing_naive_local fun l =>
      Format.formatItemsR (some l.date) (some l.time) (some (Format.fixedOffsetName z.off, z.off)) items

def format (v : Value) (fmt : List Nat) : Format.W := formatItemsOf v (Strftime.items fmt)

/-- the round trip of the property: format with `fmt`, parse the text with `fmt` -/
def roundtrip (v : Value) (fmt : List Nat) : Option (List Nat × RP Value) :=
  match format v fmt with
  | .ok (some text) => some (text, parse_from_str v.target text fmt)
  | _ => none

end ParseFrom
end Chrono.M
