/-
  C19, the rest of src/weekday_set.rs: the constants `EMPTY` / `ALL` (re-extracted), `from_array`,
  `FromIterator::from_iter`, `ExactSizeIterator::len` of the iterator, `Display` and `Debug`.
-/
import Chrono.Model.Weekday
import Chrono.Extracted.WdConv

namespace Chrono.M
namespace WeekdaySet

/-- `WeekdaySet::EMPTY` / `ALL`: the words the source declares -/
def EMPTY : Nat := Extracted.WEEKDAYSET_EMPTY
def ALL : Nat := Extracted.WEEKDAYSET_ALL

/-- `from_array`: `let mut acc = Self::EMPTY; while idx < days.len() { acc.0 |= Self::single(days[idx]).0; … }` -/
def from_array (days : List Weekday) : Nat := days.foldl (fun acc d => acc ||| (single d)) EMPTY

/-- `FromIterator`: `iter.into_iter().map(Self::single).fold(Self::EMPTY, Self::union)` -/
def from_iter (days : List Weekday) : Nat := (days.map single).foldl union EMPTY

/-- `WeekdaySet::iter(start)` -/
def iter (s : Nat) (start : Weekday) : Iter := ⟨s, start⟩

/-- `ExactSizeIterator::len`: `self.days.len().into()` -/
def Iter.len (it : Iter) : Nat := WeekdaySet.len it.days

/-- `Display`: `[`, the first item of `self.iter(Mon)`, then `, item` for every further one, `]`;
each item through `Display for Weekday` -/
def display (s : Nat) : Res (List Nat) :=
  match (iter s .mon).next with
  | .panic => .panic
  | .ok (first, it) =>
    match drainFront 8 it with
    | .panic => .panic
    | .ok rest =>
      .ok ([91] ++ (match first with | some d => d.display | none => []) ++
           rest.flatMap (fun d => [44, 32] ++ d.display) ++ [93])

/-- binary digits of `n`, most significant first (`0` for zero); fuel = number of bits of a `u8` -/
def binDigits : Nat → Nat → List Nat → List Nat
  | 0, _, acc => acc
  | fuel + 1, n, acc =>
    if n < 2 then (48 + n) :: acc else binDigits fuel (n / 2) ((48 + n % 2) :: acc)

/-- `{:0>7b}`: fill with `0` on the left up to width 7 (longer output is not cut) -/
def padLeft0 (width : Nat) (ds : List Nat) : List Nat := List.replicate (width - ds.length) 48 ++ ds

/-- `Debug`: `write!(f, "WeekdaySet({:0>7b})", self.0)` -/
def debug (s : Nat) : List Nat :=
  [87, 101, 101, 107, 100, 97, 121, 83, 101, 116, 40] ++ padLeft0 7 (binDigits 8 s []) ++ [41]

/-- pull `extra` more items from an iterator, alternating front and back: all of them `None` and
the iterator unchanged?  (what `FusedIterator` promises once a pull has returned `None`) -/
def staysNone : Nat → Iter → Bool
  | 0, _ => true
  | k + 1, it =>
    (it.next == .ok (none, it)) && (it.next_back == .ok (none, it)) && staysNone k it

end WeekdaySet
end Chrono.M
