/-
  C19, the rest of src/weekday_set.rs: the constants `EMPTY` / `ALL` (re-extracted), `from_array`,
  `FromIterator::from_iter`, `ExactSizeIterator::len` of the iterator, `Display` and `Debug`;
  `Display for Weekday` under format flags (`Formatter::pad`).
-/
import Chrono.Model.Weekday
import Chrono.Extracted.WdConv

namespace Chrono.M

namespace WdFmt
/-- alignment flag of a format spec; none written = `left` for `Formatter::pad` -/
inductive Align where
  | left | right | center
  deriving DecidableEq, Repr

/-- the precision of a format spec cuts a string to that many characters -/
def fmtCut (s : List Nat) : Option Nat → List Nat
  | some p => s.take p
  | none => s

/-- the width fills up (one-byte fill) on the side(s) the alignment says -/
def fmtFill (t : List Nat) (width : Option Nat) (align : Align) (fill : Nat) : List Nat :=
  match width with
  | none => t
  | some w =>
    if t.length < w then
      match align with
      | .left => t ++ List.replicate (w - t.length) fill
      | .right => List.replicate (w - t.length) fill ++ t
      | .center => List.replicate ((w - t.length) / 2) fill ++ t ++ List.replicate ((w - t.length + 1) / 2) fill
    else t

/-- `core::fmt::Formatter::pad` on an ASCII string: without width and precision the string itself;
the precision cuts, then the width fills up -/
def fmtPad (s : List Nat) (width prec : Option Nat) (align : Align) (fill : Nat) : List Nat :=
  fmtFill (fmtCut s prec) width align fill
end WdFmt

/-- `Display for Weekday` under `{:fill align width .prec}`: `f.pad(name)` -/
def Weekday.display_fmt (w : Weekday) (width prec : Option Nat) (align : WdFmt.Align) (fill : Nat) : List Nat :=
  WdFmt.fmtPad w.display width prec align fill

namespace WeekdaySet

/-- `WeekdaySet::EMPTY` / `ALL`: the words the source declares -/
def EMPTY : Nat := Extracted.WEEKDAYSET_EMPTY
def ALL : Nat := Extracted.WEEKDAYSET_ALL

/-- `from_array`: `let mut acc = Self::EMPTY; while idx < days.len() { acc.0 |= Self::single(days[idx]).0; … }` -/
def from_array (days : List Weekday) : Nat := days.foldl (fun acc d => acc ||| (single d)) EMPTY

/-- `FromIterator`: `iter.into_iter().map(Self::single).fold(Self::EMPTY, Self::union)` -/
def from_iter (days : List Weekday) : Nat := (days.map single).foldl union EMPTY

/-- `WeekdaySet::iter(start)` -/
def iter (s : Nat) (start : Weekday) : Iter := ⟨s, start⟩

/-- `ExactSizeIterator::len`: `self.days.len().into()` -/
def Iter.len (it : Iter) : Nat := WeekdaySet.len it.days

/-- `Display`: `[`, the first item of `self.iter(Mon)`, then `, item` for every further one, `]`;
each item through `Display for Weekday` -/
def display (s : Nat) : Res (List Nat) :=
  match (iter s .mon).next with
  | .panic => .panic
  | .ok (first, it) =>
    match drainFront 8 it with
    | .panic => .panic
    | .ok rest =>
      .ok ([91] ++ (match first with | some d => d.display | none => []) ++
           rest.flatMap (fun d => [44, 32] ++ d.display) ++ [93])

/-- binary digits of `n`, most significant first (`0` for zero); fuel = number of bits of a `u8` -/
def binDigits : Nat → Nat → List Nat → List Nat
  | 0, _, acc => acc
  | fuel + 1, n, acc =>
    if n < 2 then (48 + n) :: acc else binDigits fuel (n / 2) ((48 + n % 2) :: acc)

/-- `{:0>7b}`: fill with `0` on the left up to width 7 (longer output is not cut) -/
def padLeft0 (width : Nat) (ds : List Nat) : List Nat := List.replicate (width - ds.length) 48 ++ ds

/-- `Debug`: `write!(f, "WeekdaySet({:0>7b})", self.0)` -/
def debug (s : Nat) : List Nat :=
  [87, 101, 101, 107, 100, 97, 121, 83, 101, 116, 40] ++ padLeft0 7 (binDigits 8 s []) ++ [41]

/-- pull `extra` more items from an iterator, alternating front and back: all of them `None` and
the iterator unchanged?  (what `FusedIterator` promises once a pull has returned `None`) -/
def staysNone : Nat → Iter → Bool
  | 0, _ => true
  | k + 1, it =>
    (it.next == .ok (none, it)) && (it.next_back == .ok (none, it)) && staysNone k it

end WeekdaySet
end Chrono.M
