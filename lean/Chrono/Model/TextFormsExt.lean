/-
  Default text forms (property C09), additions closing audit gaps L2 and L4.

  * `date_display` / `time_display` / `offset_display`: the `Display` impls of `NaiveDate`
    (src/naive/date/mod.rs), `NaiveTime` (src/naive/time/mod.rs) and `FixedOffset`
    (src/offset/fixed.rs).  Each is `fmt::Debug::fmt(self, f)` — a function of its own here so that
    the `Display` column of the driver and the theorems name it.
  * `local_dt_debug` / `local_dt_display` / `local_from_str`: `DateTime<Local>` — the generic
    `DateTime<Tz>` impls at `Offset = FixedOffset`, and `impl FromStr for DateTime<Local>`
    (src/datetime/mod.rs).
  * `parseItemsSt` / `time_from_str_st`: `impl FromStr for NaiveTime` with the `&mut Parsed` threaded
    exactly as the code threads it: the optional seconds run (`parse_and_remainder(&mut parsed, s,
    SECOND_AND_NANOS).unwrap_or(s)`) leaves in `parsed` whatever it stored before failing, and the
    trailing-white-space parse and `to_naive_time` see that record.  `TextForms.time_from_str` drops
    that state; `Proofs.TextFormsSt.time_from_str_st_eq` proves the two equal on every input.
-/
import Chrono.Model.TextForms
namespace Chrono.M
namespace TextForms
open Format Scan

/-! ### `Display` forwards to `Debug` -/

/-- `impl fmt::Display for NaiveDate`: `fmt::Debug::fmt(self, f)` -/
def date_display (d : Date) : W := date_debug d
/-- `impl fmt::Display for NaiveTime`: `fmt::Debug::fmt(self, f)` -/
def time_display (t : Time) : W := time_debug t
/-- `impl fmt::Display for FixedOffset`: `fmt::Debug::fmt(self, f)` -/
def offset_display (off : Int) : List Nat := offset_debug off

/-! ### `DateTime<Local>` -/

/-- `impl fmt::Debug for DateTime<Tz>` at `Tz = Local` (`Offset = FixedOffset`): the generic impl with
the `FixedOffset` the zone assigned to the value as offset text -/
def local_dt_debug (z : Zoned) : W := zoned_debug z (offset_debug z.off)
/-- `impl fmt::Display for DateTime<Tz>` at `Tz = Local` -/
def local_dt_display (z : Zoned) : W := zoned_display z (offset_display z.off)
/-- `impl FromStr for DateTime<Local>`: `s.parse::<DateTime<FixedOffset>>().map(|dt|
dt.with_timezone(&Local))`.  `localOff` is `Local.offset_from_utc_datetime`, the offset the system
zone prescribes at an instant — a parameter here (the zone database is not part of this model). -/
def local_from_str (localOff : NaiveDT → Int) (s : List Nat) : Parsed.RP Zoned :=
  match fixed_from_str s with
  | .ok (.ok z) => .ok (.ok (z.with_timezone (localOff z.utc)))
  | r => r

/-! ### `FromStr for NaiveTime` with the parse state threaded through the failed seconds run -/

/-- `parse_internal(&mut parsed, s, items)` for a list of plain items (no `RFC2822` / `RFC3339`),
returning `parsed` as the run leaves it.  One item scans its text and then calls one setter; a setter
that fails stores nothing; so a failing item leaves `parsed` as the items before it left it. -/
def parseItemsSt : Parsed → List Nat → List Item → Parsed × PRes (List Nat)
  | p, s, [] => (p, .ok s)
  | p, s, it :: rest =>
    match Parse.parseItemBase p s it with
    | .ok (p', s') => parseItemsSt p' s' rest
    | .error e => (p, .error e)

/-- `impl FromStr for NaiveTime`, stateful: `let s = parse_and_remainder(&mut parsed, s,
HOUR_AND_MINUTE)?; let s = parse_and_remainder(&mut parsed, s, SECOND_AND_NANOS).unwrap_or(s);
parse(&mut parsed, s, TRAILING_WHITESPACE)?; parsed.to_naive_time()` -/
def time_from_str_st (s : List Nat) : PRes Time :=
  match parseItemsSt Parsed.new s HOUR_AND_MINUTE with
  | (_, .error e) => .error e
  | (p, .ok s) =>
    let r := parseItemsSt p s SECOND_AND_NANOS
    let s' : List Nat := match r.2 with
      | .ok s' => s'
      | .error _ => s
    match Parse.parse r.1 s' TRAILING_WHITESPACE with
    | .error e => .error e
    | .ok p => Parsed.to_naive_time p

end TextForms
end Chrono.M
