/-
  Slice-recording copy of the strict RFC 3339 scanner (property C10, gap G1).

  Rust reads a `&str` and re-slices it at byte offsets (`&s[1..]`, `&s[2..]`, `&s[i..]`,
  `&s['−'.len_utf8()..]`); `&s[k..]` panics unless `k ≤ s.len()` and `s.is_char_boundary(k)`.  The models in
  Model/Scan.lean and Model/Parse.lean work on byte lists and only return the unconsumed suffix, so a
  slice at a non-boundary cannot be seen in them.  The functions here run the SAME computation, step
  for step, in a writer monad that records every slice expression the Rust code evaluates — also in a
  run that fails later — as the pair (string sliced, suffix obtained):

    src/format/scan.rs   number            `&s[i..]`, `&s[min(max, len)..]`
                         char              `&s[1..]`
                         nanosecond        `number`'s slice, then `trim_start_matches` (a `&str` made by std)
                         timezone_offset   `&s[1..]` after `Z`/`z`; `&s['+'.len_utf8()..]`, `&s['-'.len_utf8()..]`,
                                           `&s['−'.len_utf8()..]`; `&s[2..]` after the hour digits; the slice
                                           of `consume_colon`; `&s[2..]` after the minute digits
    src/format/parse.rs  parse_rfc3339     the slices of its primitives, `&s[1..]` after `T`/`t`/space and
                                           `&s[1..]` after `.`

  `Proofs/Rfc3339SlicesL.lean` proves that the result component is exactly the model's result
  (`parse_rfc3339T_fst` etc.: the recording changes nothing) and that on a well-formed UTF-8 input
  every recorded slice is taken at a char boundary of a well-formed string.
  There is no driver op: the Rust code offers no way to observe its slice indices; the tie to the code
  is the pins of `parse_rfc3339`, `number`, `char`, `nanosecond`, `timezone_offset` (Pins/C10.lean).
-/
import Chrono.Model.Parse
namespace Chrono.M
namespace Rfc3339Slices
open Scan Parse

/-- one evaluated slice expression: `rest` is what `&src[src.len() - rest.len() ..]` returned -/
structure Slice where
  src : List Nat
  rest : List Nat
  deriving DecidableEq, Repr

/-- the byte index of the slice -/
def Slice.k (e : Slice) : Nat := e.src.length - e.rest.length

/-- a result together with the slices taken on the way to it -/
abbrev T (α : Type) := PRes α × List Slice

def ret {α : Type} (a : α) : T α := (.ok a, [])
def fail {α : Type} (e : PErr) : T α := (.error e, [])
/-- a step that takes no slice -/
def lift {α : Type} (r : PRes α) : T α := (r, [])
/-- a step that succeeds with the slice `&src[..] = rest` -/
def sliced {α : Type} (src rest : List Nat) (a : α) : T α := (.ok a, [⟨src, rest⟩])

def bindT {α β : Type} (x : T α) (f : α → T β) : T β :=
  match x.1 with
  | .error e => (.error e, x.2)
  | .ok a => ((f a).1, x.2 ++ (f a).2)

/-- `scan::number`: exactly one slice on every `Ok` return, none on an `Err` return -/
def numberT (s : List Nat) (min : Nat) (max : Option Nat) : T (List Nat × Int) :=
  match number s min max with
  | .ok (rest, v) => sliced s rest (rest, v)
  | .error e => fail e

/-- `scan::char`: `Some(&c) if c == c1 => Ok(&s[1..])` -/
def charT (s : List Nat) (c1 : Nat) : T (List Nat) :=
  match s with
  | c :: rest => if c = c1 then sliced s rest rest else fail .invalid
  | [] => fail .tooShort

/-- `scan::nanosecond` -/
def nanosecondT (s : List Nat) : T (List Nat × Int) :=
  bindT (numberT s 1 (some 9)) fun (rest, v) =>
    let consumed := s.length - rest.length
    let v := v * SCALE.getD consumed 0
    if v > I64_MAX then fail .outOfRange else sliced rest (dropDigits rest) (dropDigits rest, v)

/-- the stages of `scan::timezone_offset` -/
def tzZulu (s : List Nat) (allow_zulu : Bool) : Option (List Nat) :=
  if allow_zulu then match s with
    | 90 :: rest => some rest | 122 :: rest => some rest | _ => none
  else none

def tzSign (s : List Nat) (allow_tz_minus_sign : Bool) : PRes (List Nat × Bool) :=
  match s with
  | 43 :: rest => .ok (rest, false)
  | 45 :: rest => .ok (rest, true)
  | 226 :: 136 :: 146 :: rest => if allow_tz_minus_sign then .ok (rest, true) else .error .invalid
  | _ :: _ => .error .invalid
  | [] => .error .tooShort

/-- `s = &s['+'.len_utf8()..]` / `'-'` / `'−'`: one slice when a sign is consumed -/
def tzSignT (s : List Nat) (allow_tz_minus_sign : Bool) : T (List Nat × Bool) :=
  match tzSign s allow_tz_minus_sign with
  | .ok (rest, neg) => sliced s rest (rest, neg)
  | .error e => fail e

def tzMins (s : List Nat) (allow_missing_minutes : Bool) : PRes Int :=
  match s with
  | m1 :: m2 :: _ =>
    if 48 ≤ m1 ∧ m1 ≤ 53 ∧ Scan.isDigit m2 then .ok (((m1 - 48) * 10 + (m2 - 48) : Nat) : Int)
    else if 54 ≤ m1 ∧ m1 ≤ 57 ∧ Scan.isDigit m2 then .error .outOfRange
    else .error .invalid
  | _ => if allow_missing_minutes then .ok 0 else .error .tooShort

/-- `s = match s.len() { len if len >= 2 => &s[2..], 0 => s, _ => return Err(TOO_SHORT) }` -/
def tzRestT (s : List Nat) : T (List Nat) :=
  if s.length ≥ 2 then sliced s (s.drop 2) (s.drop 2) else if s.length = 0 then ret s else fail .tooShort

/-- the `consume_colon` closure -/
def consumeColonT (m : ColonMode) (s : List Nat) : T (List Nat) :=
  match m with
  | .charColon => charT s 58
  | .colonOrSpace => sliced s (colon_or_space s) (colon_or_space s)
  | .nothing => ret s

/-- `scan::timezone_offset` -/
def timezone_offsetT (s : List Nat) (cm : ColonMode) (allow_zulu allow_missing_minutes allow_tz_minus_sign : Bool) :
    T (List Nat × Int) :=
  match tzZulu s allow_zulu with
  | some rest => sliced s rest (rest, 0)                       -- `return Ok((&s[1..], 0))`
  | none =>
    bindT (tzSignT s allow_tz_minus_sign) fun (s1, negative) =>
    match s1 with
    | h1 :: h2 :: s2 =>
      if isDigit h1 && isDigit h2 then
        let hours : Int := ((h1 - 48) * 10 + (h2 - 48) : Nat)
        bindT (sliced s1 s2 s2) fun s2 =>                       -- `s = &s[2..]`
        bindT (consumeColonT cm s2) fun s3 =>
        bindT (lift (tzMins s3 allow_missing_minutes)) fun minutes =>
        bindT (tzRestT s3) fun s4 =>
        let seconds := hours * 3600 + minutes * 60
        ret (s4, if negative then -seconds else seconds)
      else fail .invalid
    | _ => fail .tooShort

/-- `parsed.set_…(try_consume!(scan::number(…)))?` -/
def setFieldT (set : Parsed → Int → PRes Parsed) (p : Parsed) (r : T (List Nat × Int)) : T (Parsed × List Nat) :=
  bindT r fun (s', v) => lift ((set p v).map fun p' => (p', s'))

/-- `match s.as_bytes().first() { Some(&b't' | &b'T' | &b' ') => &s[1..], … }` -/
def sepT (s : List Nat) : T (List Nat) :=
  match s with
  | c :: rest => if c = 116 ∨ c = 84 ∨ c = 32 then sliced s rest rest else fail .invalid
  | [] => fail .tooShort

/-- `if s.starts_with('.') { let nanosecond = try_consume!(scan::nanosecond(&s[1..])); … }` -/
def dotNanoT (p : Parsed) (s : List Nat) : T (Parsed × List Nat) :=
  match s with
  | 46 :: rest =>
    bindT (sliced s rest rest) fun rest =>
    bindT (nanosecondT rest) fun (s', v) =>
    lift (match Parsed.set_nanosecond p v with
      | .ok p' => .ok (p', s')
      | .error e => .error e)
  | _ => ret (p, s)

/-- `parse_rfc3339` (strict), recording every slice -/
def parse_rfc3339T (p : Parsed) (s : List Nat) : T (Parsed × List Nat) :=
  bindT (setFieldT Parsed.set_year p (numberT s 4 (some 4))) fun (p, s) =>
  bindT (charT s 45) fun s =>
  bindT (setFieldT Parsed.set_month p (numberT s 2 (some 2))) fun (p, s) =>
  bindT (charT s 45) fun s =>
  bindT (setFieldT Parsed.set_day p (numberT s 2 (some 2))) fun (p, s) =>
  bindT (sepT s) fun s =>
  bindT (setFieldT Parsed.set_hour p (numberT s 2 (some 2))) fun (p, s) =>
  bindT (charT s 58) fun s =>
  bindT (setFieldT Parsed.set_minute p (numberT s 2 (some 2))) fun (p, s) =>
  bindT (charT s 58) fun s =>
  bindT (setFieldT Parsed.set_second p (numberT s 2 (some 2))) fun (p, s) =>
  bindT (dotNanoT p s) fun (p, s) =>
  bindT (timezone_offsetT s .charColon true false true) fun (s, offset) =>
  if offset < -MAX_RFC3339_OFFSET ∨ offset > MAX_RFC3339_OFFSET then fail .outOfRange
  else bindT (lift (Parsed.set_offset p offset)) fun p => ret (p, s)

end Rfc3339Slices
end Chrono.M
