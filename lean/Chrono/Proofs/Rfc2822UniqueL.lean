/-
  Helper lemmas for C11, part 9: the specification relation `Rfc2822 s f` is unambiguous — a string
  spells at most one tuple of fields, whatever their values (no range hypothesis).  The two
  decompositions of the string are peeled piece by piece: white-space runs end where a byte that
  starts no white-space character begins (`ws_cancel`, witnessed by `trimStart`), digit strings end at
  a non-digit (`digits_cancel`), names and two-digit fields have a fixed length, a zone is what
  `timezone_offset_2822` returns (`tz_spec`).
-/
import Chrono.Proofs.Rfc2822ScanL
namespace Chrono.Proofs.Rfc2822
open Chrono Chrono.M Chrono.Spec Chrono.Spec.Rfc2822 Chrono.M.Scan Chrono.M.Parse

theorem ws_cancel {w w' r r' : List Nat} (hw : Ws w) (hw' : Ws w') (hr : Scan.wsLen r = 0)
    (hr' : Scan.wsLen r' = 0) (h : w ++ r = w' ++ r') : r = r' := by
  rw [← trimStart_ws hw r hr, ← trimStart_ws hw' r' hr', h]

/-- empty, or starting with a byte that is no digit -/
def NonDigitHead (r : List Nat) : Prop := r = [] ∨ ∃ c t, r = c :: t ∧ Scan.isDigit c = false

theorem digits_cancel : ∀ {a a' : List Nat} {r r' : List Nat}, Digits a → Digits a' → NonDigitHead r →
    NonDigitHead r' → a ++ r = a' ++ r' → a = a' ∧ r = r' := by
  intro a
  induction a with
  | nil =>
    intro a' r r' _ ha' hr _ h
    cases a' with
    | nil => exact ⟨rfl, h⟩
    | cons d t =>
      exfalso
      have hd := isDigit_of (ha' d (by simp))
      simp only [List.nil_append, List.cons_append] at h
      rcases hr with hr | ⟨c, u, hr, hc⟩
      · rw [hr] at h; cases h
      · rw [hr] at h; injection h with h1 _; subst h1; rw [hd] at hc; cases hc
  | cons d t ih =>
    intro a' r r' ha ha' hr hr' h
    cases a' with
    | nil =>
      exfalso
      have hd := isDigit_of (ha d (by simp))
      simp only [List.nil_append, List.cons_append] at h
      rcases hr' with hr' | ⟨c, u, hr', hc⟩
      · rw [hr'] at h; cases h
      · rw [hr'] at h; injection h with h1 _; subst h1; rw [hd] at hc; cases hc
    | cons d' t' =>
      simp only [List.cons_append] at h
      injection h with h1 h2
      subst h1
      obtain ⟨e1, e2⟩ := ih (fun b hb => ha b (by simp [hb])) (fun b hb => ha' b (by simp [hb])) hr hr' h2
      exact ⟨by rw [e1], e2⟩

theorem ws1_nonDigit {w : List Nat} (h : Ws1 w) (r : List Nat) : NonDigitHead (w ++ r) := by
  obtain ⟨c, t, h1, h2, _⟩ := ws1_head h r
  exact Or.inr ⟨c, t, h1, h2⟩

theorem len_cancel {a a' r r' : List Nat} (hl : a.length = a'.length) (h : a ++ r = a' ++ r') :
    a = a' ∧ r = r' := List.append_inj h hl

theorem names_inj :
    (∀ i < 7, ∀ j < 7, dayNames.getD i [] = dayNames.getD j [] → i = j) ∧
    (∀ i < 12, ∀ j < 12, monthNames.getD i [] = monthNames.getD j [] → i = j) := by decide

/-- a three-letter name: three bytes, the first a letter -/
theorem name3 (tbl : List (List Nat)) (i : Nat) (v : List Nat)
    (ht : (tbl.getD i []).length = 3 ∧ ∀ b ∈ tbl.getD i [], 97 ≤ b ∧ b ≤ 122) (h : CaseOf (tbl.getD i []) v) :
    v.length = 3 ∧ (∀ r, Scan.wsLen (v ++ r) = 0) ∧ ∃ a t, v = a :: t ∧ isAlpha a := by
  have hal := caseOf_alpha ht.2 h
  obtain ⟨a, b, c, hv, _⟩ := caseOf3 _ v ht h
  subst hv
  exact ⟨rfl, fun r => alpha_head a _ (hal a (by simp)), a, [b, c], rfl, hal a (by simp)⟩

theorem udigit_not_alpha {d : Nat} (h : 48 ≤ d ∧ d ≤ 57) : ¬ isAlpha d := by
  unfold isAlpha; omega

/-! ### the time part: `hh *S ":" *S mm [ *S ":" ss ] 1*S zone comments` -/

/-- the string after the year's white space spells hour, minute, second and offset -/
def UTimeTail (R : List Nat) (hour min : Nat) (sec : Option Nat) (off : Int) : Prop :=
  ∃ hh w5 w6 mm ss w7 zz cc, Digits hh ∧ hh.length = 2 ∧ decVal hh = hour ∧ Ws w5 ∧ Ws w6 ∧
    Digits mm ∧ mm.length = 2 ∧ decVal mm = min ∧ Seconds ss sec ∧ Ws1 w7 ∧ Zone zz off ∧ Comments cc ∧
    R = hh ++ (w5 ++ (58 :: (w6 ++ (mm ++ (ss ++ (w7 ++ (zz ++ cc)))))))

theorem zoneTail_unique {w7 zz cc w7' zz' cc' : List Nat} {off off' : Int}
    (hw : Ws1 w7) (hz : Zone zz off) (hc : Comments cc)
    (hw' : Ws1 w7') (hz' : Zone zz' off') (hc' : Comments cc')
    (h : w7 ++ (zz ++ cc) = w7' ++ (zz' ++ cc')) : off = off' := by
  obtain ⟨t1, hd1⟩ := tz_spec hz cc (comments_noAlpha hc)
  obtain ⟨t2, hd2⟩ := tz_spec hz' cc' (comments_noAlpha hc')
  have e := ws_cancel (ws1_ws hw) (ws1_ws hw') (zone_wsLen cc hd1).1 (zone_wsLen cc' hd2).1 h
  rw [e, t2] at t1
  injection t1 with t1
  injection t1 with _ t1
  exact t1.symm

theorem timeTail_unique {R : List Nat} {hour hour' min min' : Nat} {sec sec' : Option Nat} {off off' : Int}
    (h : UTimeTail R hour min sec off) (h' : UTimeTail R hour' min' sec' off') :
    hour = hour' ∧ min = min' ∧ sec = sec' ∧ off = off' := by
  obtain ⟨hh, w5, w6, mm, ss, w7, zz, cc, hhd, hhl, hhv, hw5, hw6, hmd, hml, hmv, hs, hw7, hz, hc, rfl⟩ := h
  obtain ⟨hh', w5', w6', mm', ss', w7', zz', cc', hhd', hhl', hhv', hw5', hw6', hmd', hml', hmv', hs', hw7', hz', hc',
    e⟩ := h'
  -- hour
  obtain ⟨e1, ea⟩ := len_cancel (by rw [hhl, hhl']) e
  subst e1
  clear e
  -- the colon
  have eb := ws_cancel hw5 hw5' (wsLen_head 58 _ (by omega) (by omega) (by omega))
    (wsLen_head 58 _ (by omega) (by omega) (by omega)) ea
  injection eb with _ ec
  -- minute
  have ed := ws_cancel hw6 hw6' (digits_head hmd (by omega) _) (digits_head hmd' (by omega) _) ec
  obtain ⟨e2, e⟩ := len_cancel (by rw [hml, hml']) ed
  subst e2
  clear ea ec ed
  refine ⟨by rw [← hhv, ← hhv'], by rw [← hmv, ← hmv'], ?_⟩
  -- seconds
  obtain ⟨_, hd1⟩ := tz_spec hz cc (comments_noAlpha hc)
  obtain ⟨_, hd2⟩ := tz_spec hz' cc' (comments_noAlpha hc')
  have hz58 : ∀ {zz cc : List Nat} (t : List Nat), (∃ c u, zz = c :: u ∧ (c = 43 ∨ c = 45 ∨ isAlpha c)) →
      zz ++ cc ≠ 58 :: t := by
    rintro zz cc t ⟨c, u, rfl, hc⟩ heq
    simp only [List.cons_append] at heq
    injection heq with h1 _
    subst h1
    unfold isAlpha at hc
    omega
  rcases hs with ⟨rfl, rfl⟩ | ⟨w, d, hw, hd, hdl, rfl, rfl⟩ <;>
    rcases hs' with ⟨rfl, rfl⟩ | ⟨w', d', hw', hd', hdl', rfl, rfl⟩
  · simp only [List.nil_append] at e
    exact ⟨rfl, zoneTail_unique hw7 hz hc hw7' hz' hc' e⟩
  · exfalso
    simp only [List.nil_append, List.append_assoc, List.cons_append] at e
    have ea := ws_cancel (ws1_ws hw7) hw' (zone_wsLen cc hd1).1 (wsLen_head 58 _ (by omega) (by omega) (by omega)) e
    exact hz58 _ hd1 ea
  · exfalso
    simp only [List.nil_append, List.append_assoc, List.cons_append] at e
    have ea := ws_cancel hw (ws1_ws hw7') (wsLen_head 58 _ (by omega) (by omega) (by omega)) (zone_wsLen cc' hd2).1 e
    exact hz58 _ hd2 ea.symm
  · simp only [List.append_assoc, List.cons_append] at e
    have ea := ws_cancel hw hw' (wsLen_head 58 _ (by omega) (by omega) (by omega))
      (wsLen_head 58 _ (by omega) (by omega) (by omega)) e
    injection ea with _ eb
    obtain ⟨e3, ec⟩ := len_cancel (by rw [hdl, hdl']) eb
    subst e3
    exact ⟨rfl, zoneTail_unique hw7 hz hc hw7' hz' hc' ec⟩

/-! ### the date part: `1*2DIGIT 1*S month 1*S 2*DIGIT 1*S time-tail` -/

def UDateTail (R : List Nat) (day month : Nat) (year : Int) (hour min : Nat) (sec : Option Nat) (off : Int) : Prop :=
  ∃ dd w2 mn w3 yy w4 T, Digits dd ∧ (dd.length = 1 ∨ dd.length = 2) ∧ decVal dd = day ∧ Ws1 w2 ∧
    MonthName mn month ∧ Ws1 w3 ∧ Digits yy ∧ 2 ≤ yy.length ∧ yearOf yy = year ∧ Ws1 w4 ∧
    UTimeTail T hour min sec off ∧ R = dd ++ (w2 ++ (mn ++ (w3 ++ (yy ++ (w4 ++ T)))))

theorem timeTail_head {T : List Nat} {hour min : Nat} {sec : Option Nat} {off : Int}
    (h : UTimeTail T hour min sec off) : Scan.wsLen T = 0 := by
  obtain ⟨hh, _, _, _, _, _, _, _, hhd, hhl, _, _, _, _, _, _, _, _, _, _, rfl⟩ := h
  exact digits_head hhd (by omega) _

theorem dateTail_unique {R : List Nat} {day day' month month' : Nat} {year year' : Int} {hour hour' min min' : Nat}
    {sec sec' : Option Nat} {off off' : Int}
    (h : UDateTail R day month year hour min sec off) (h' : UDateTail R day' month' year' hour' min' sec' off') :
    day = day' ∧ month = month' ∧ year = year' ∧ hour = hour' ∧ min = min' ∧ sec = sec' ∧ off = off' := by
  obtain ⟨dd, w2, mn, w3, yy, w4, T, hdd, hdl, hdv, hw2, hmn, hw3, hyd, hyl, hyv, hw4, hT, rfl⟩ := h
  obtain ⟨dd', w2', mn', w3', yy', w4', T', hdd', hdl', hdv', hw2', hmn', hw3', hyd', hyl', hyv', hw4', hT', e⟩ := h'
  obtain ⟨_, _, _, _, _, t5, _⟩ := name_tables
  -- day
  obtain ⟨e1, ea⟩ := digits_cancel hdd hdd' (ws1_nonDigit hw2 _) (ws1_nonDigit hw2' _) e
  subst e1
  clear e
  -- month
  obtain ⟨i, hi, hcase, rfl⟩ := hmn
  obtain ⟨i', hi', hcase', rfl⟩ := hmn'
  obtain ⟨l1, hh1, _⟩ := name3 monthNames i mn (t5 i hi) hcase
  obtain ⟨l1', hh1', _⟩ := name3 monthNames i' mn' (t5 i' hi') hcase'
  have eb := ws_cancel (ws1_ws hw2) (ws1_ws hw2') (hh1 _) (hh1' _) ea
  obtain ⟨e2, ec⟩ := len_cancel (by rw [l1, l1']) eb
  subst e2
  clear ea eb
  have ei : i = i' := names_inj.2 i hi i' hi' (by unfold CaseOf at hcase hcase'; rw [← hcase, ← hcase'])
  subst ei
  -- year
  have ed := ws_cancel (ws1_ws hw3) (ws1_ws hw3') (digits_head hyd (by omega) _) (digits_head hyd' (by omega) _) ec
  obtain ⟨e3, ee⟩ := digits_cancel hyd hyd' (ws1_nonDigit hw4 _) (ws1_nonDigit hw4' _) ed
  subst e3
  clear ec ed
  -- time
  have ef := ws_cancel (ws1_ws hw4) (ws1_ws hw4') (timeTail_head hT) (timeTail_head hT') ee
  subst ef
  obtain ⟨t1, t2, t3, t4⟩ := timeTail_unique hT hT'
  exact ⟨by rw [← hdv, ← hdv'], rfl, by rw [← hyv, ← hyv'], t1, t2, t3, t4⟩

theorem dateTail_head {R : List Nat} {day month : Nat} {year : Int} {hour min : Nat} {sec : Option Nat} {off : Int}
    (h : UDateTail R day month year hour min sec off) :
    Scan.wsLen R = 0 ∧ ∃ d t, R = d :: t ∧ 48 ≤ d ∧ d ≤ 57 := by
  obtain ⟨dd, _, _, _, _, _, _, hdd, hdl, _, _, _, _, _, _, _, _, _, rfl⟩ := h
  refine ⟨digits_head hdd (by omega) _, ?_⟩
  cases dd with
  | nil => simp at hdl
  | cons d t => exact ⟨d, _, rfl, hdd d (by simp)⟩

/-! ### the whole relation -/

theorem rfc2822_split {s : List Nat} {f : Fields} (h : Rfc2822 s f) :
    ∃ w0 dn w1 R, Ws w0 ∧ DayName dn f.weekday ∧ Ws w1 ∧
      UDateTail R f.day f.month f.year f.hour f.min f.sec f.off ∧ s = w0 ++ (dn ++ (w1 ++ R)) := by
  obtain ⟨w0, dn, w1, dd, w2, mn, w3, yy, w4, hh, w5, w6, mm, ss, w7, zz, cc,
    hw0, hdn, hw1, hdd, hdl, hdv, hw2, hmn, hw3, hyd, hyl, hyv, hw4, hhd, hhl, hhv, hw5, hw6, hmd, hml, hmv,
    hs, hw7, hz, hc, rfl⟩ := h
  exact ⟨w0, dn, w1, _, hw0, hdn, hw1,
    ⟨dd, w2, mn, w3, yy, w4, _, hdd, hdl, hdv, hw2, hmn, hw3, hyd, hyl, hyv, hw4,
      ⟨hh, w5, w6, mm, ss, w7, zz, cc, hhd, hhl, hhv, hw5, hw6, hmd, hml, hmv, hs, hw7, hz, hc, rfl⟩, rfl⟩, rfl⟩

/-- **the relation is unambiguous**: a string spells at most one tuple of fields -/
theorem rfc2822_unambiguous (s : List Nat) (f f' : Fields) (h : Rfc2822 s f) (h' : Rfc2822 s f') : f = f' := by
  obtain ⟨w0, dn, w1, R, hw0, hdn, hw1, hR, rfl⟩ := rfc2822_split h
  obtain ⟨w0', dn', w1', R', hw0', hdn', hw1', hR', e⟩ := rfc2822_split h'
  obtain ⟨_, _, _, _, t4, _, _⟩ := name_tables
  obtain ⟨hR0, d, tR, hRd, hd⟩ := dateTail_head hR
  obtain ⟨hR0', d', tR', hRd', hd'⟩ := dateTail_head hR'
  have fin : f.weekday = f'.weekday → R = R' → f = f' := by
    intro hwd hRR
    subst hRR
    obtain ⟨a1, a2, a3, a4, a5, a6, a7⟩ := dateTail_unique hR hR'
    cases f; cases f'
    simp only [] at hwd a1 a2 a3 a4 a5 a6 a7
    simp only [Fields.mk.injEq]
    exact ⟨hwd, a1, a2, a3, a4, a5, a6, a7⟩
  rcases hdn with ⟨rfl, hwd⟩ | ⟨i, v, hi, hcase, rfl, hwd⟩ <;>
    rcases hdn' with ⟨rfl, hwd'⟩ | ⟨i', v', hi', hcase', rfl, hwd'⟩
  · simp only [List.nil_append] at e
    rw [← List.append_assoc, ← List.append_assoc w0'] at e
    have ea := ws_cancel (Ws.append hw0 hw1) (Ws.append hw0' hw1') hR0 hR0' e
    exact fin (by rw [hwd, hwd']) ea
  · exfalso
    obtain ⟨_, hh1, a, t, hv, ha⟩ := name3 dayNames i' v' (t4 i' hi') hcase'
    simp only [List.nil_append, List.append_assoc] at e
    rw [← List.append_assoc] at e
    have ea := ws_cancel (Ws.append hw0 hw1) hw0' hR0 (hh1 _) e
    rw [hRd, hv] at ea
    simp only [List.cons_append] at ea
    injection ea with e1 _
    subst e1
    exact udigit_not_alpha hd ha
  · exfalso
    obtain ⟨_, hh1, a, t, hv, ha⟩ := name3 dayNames i v (t4 i hi) hcase
    simp only [List.nil_append, List.append_assoc] at e
    rw [← List.append_assoc w0'] at e
    have ea := ws_cancel hw0 (Ws.append hw0' hw1') (hh1 _) hR0' e
    rw [hRd', hv] at ea
    simp only [List.cons_append] at ea
    injection ea with e1 _
    subst e1
    exact udigit_not_alpha hd' ha
  · obtain ⟨l1, hh1, _⟩ := name3 dayNames i v (t4 i hi) hcase
    obtain ⟨l1', hh1', _⟩ := name3 dayNames i' v' (t4 i' hi') hcase'
    simp only [List.append_assoc] at e
    have ea := ws_cancel hw0 hw0' (hh1 _) (hh1' _) e
    obtain ⟨e1, eb⟩ := len_cancel (by rw [l1, l1']) ea
    subst e1
    clear e ea
    have ei : i = i' := names_inj.1 i hi i' hi' (by unfold CaseOf at hcase hcase'; rw [← hcase, ← hcase'])
    subst ei
    simp only [List.cons_append, List.nil_append] at eb
    injection eb with _ ec
    have ed := ws_cancel hw1 hw1' hR0 hR0' ec
    exact fin (by rw [hwd, hwd']) ed

end Chrono.Proofs.Rfc2822
