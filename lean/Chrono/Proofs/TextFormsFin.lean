/-
  C09, finite parts checked by kernel evaluation: all 2 879 whole-minute offsets (writer text =
  specification text; the offset readers invert it), weekday and month names.
-/
import Chrono.Model.TextForms
import Chrono.Spec.TextFormsSpec
namespace Chrono.Proofs.TextForms
open Chrono Chrono.M Chrono.M.Scan Chrono.M.Format Chrono.M.TextForms Chrono.Spec.Text

/-- the writer's text of an offset is the specification's -/
def offsetTextOk (off : Int) : Bool := offset_debug off == offsetText off

/-- everything the round-trip proofs need to know about the specification's text of one offset -/
def offsetReadOk (off : Int) : Bool :=
  let s := offsetText off
  (match timezone_offset s .colonOrSpace true false true with
   | .ok ([], v) => v == off
   | _ => false) &&
  (match offset_from_str s with
   | .ok v => v == off
   | _ => false) &&
  (wsLen s == 0) &&
  !(decide (s.length ≥ 3) && (lowerS (s.take 3) == [117, 116, 99])) &&
  (match s with
   | c :: _ => !isDigit c && c != 46
   | [] => false)

theorem offsets_text_pos : ∀ h < 24, ∀ m < 60,
    offsetTextOk (((h : Nat) : Int) * 3600 + ((m : Nat) : Int) * 60) = true := by decide +kernel
theorem offsets_text_neg : ∀ h < 24, ∀ m < 60,
    offsetTextOk (-(((h : Nat) : Int) * 3600 + ((m : Nat) : Int) * 60)) = true := by decide +kernel
theorem offsets_read_pos : ∀ h < 24, ∀ m < 60,
    offsetReadOk (((h : Nat) : Int) * 3600 + ((m : Nat) : Int) * 60) = true := by decide +kernel
theorem offsets_read_neg : ∀ h < 24, ∀ m < 60,
    offsetReadOk (-(((h : Nat) : Int) * 3600 + ((m : Nat) : Int) * 60)) = true := by decide +kernel

/-- the two finite checks for an arbitrary whole-minute offset of less than a day -/
theorem offset_fin (off : Int) (h : WholeMinute off) : offsetTextOk off = true ∧ offsetReadOk off = true := by
  obtain ⟨h1, h2, h3⟩ := h
  by_cases hn : off < 0
  · have e : off = -((((-off).toNat / 3600 : Nat) : Int) * 3600 + (((-off).toNat / 60 % 60 : Nat) : Int) * 60) := by
      omega
    rw [e]
    exact ⟨offsets_text_neg _ (by omega) _ (by omega), offsets_read_neg _ (by omega) _ (by omega)⟩
  · have e : off = ((off.toNat / 3600 : Nat) : Int) * 3600 + ((off.toNat / 60 % 60 : Nat) : Int) * 60 := by
      omega
    rw [e]
    exact ⟨offsets_text_pos _ (by omega) _ (by omega), offsets_read_pos _ (by omega) _ (by omega)⟩

theorem weekday_fin : ∀ w ∈ Weekday.all,
    Weekday.parse (weekday_debug w) = some w ∧ Weekday.parse w.display = some w := by decide +kernel

theorem month_fin : ∀ m ∈ Month.all,
    Month.parse (month_debug m) = some m ∧ Month.parse m.name = some m := by decide +kernel

end Chrono.Proofs.TextForms
