/-
  Helper lemmas for C11, part 1: the scanning primitives on strings of the RFC 2822 grammar
  (white-space runs, decimal fields, day/month names, zones, comments).
-/
import Chrono.Spec.Rfc2822Spec
import Chrono.Model.Rfc2822
namespace Chrono.Proofs.Rfc2822
open Chrono Chrono.M Chrono.Spec Chrono.Spec.Rfc2822

/-! ### white space -/

theorem wsLen_ws (w : List Nat) (hw : w ∈ WS) (r : List Nat) :
    Scan.wsLen (w ++ r) = w.length ∧ 0 < w.length := by
  simp only [WS, List.mem_cons, List.mem_nil_iff, or_false] at hw
  rcases hw with h|h|h|h|h|h|h|h|h|h|h|h|h|h|h|h|h|h|h|h|h|h|h|h|h <;> subst h <;> exact ⟨rfl, by decide⟩

theorem Ws.append {a b : List Nat} (ha : Ws a) (hb : Ws b) : Ws (a ++ b) := by
  induction ha with
  | nil => simpa using hb
  | cons w r hw _ ih => rw [List.append_assoc]; exact Ws.cons w _ hw ih

theorem ws1_ws {a : List Nat} (h : Ws1 a) : Ws a := by
  obtain ⟨w, r, hw, hr, rfl⟩ := h; exact Ws.cons w r hw hr

theorem ws1_pos {a : List Nat} (h : Ws1 a) : 0 < a.length := by
  obtain ⟨w, r, hw, hr, rfl⟩ := h
  have := (wsLen_ws w hw []).2
  simp; omega

theorem trimStartAux_ws {w : List Nat} (hw : Ws w) (r : List Nat) (hr : Scan.wsLen r = 0) :
    ∀ fuel, (w ++ r).length ≤ fuel → Scan.trimStartAux fuel (w ++ r) = r := by
  induction hw with
  | nil =>
    intro fuel _
    cases fuel with
    | zero => rfl
    | succ f => simp [Scan.trimStartAux, hr]
  | cons w t hw _ ih =>
    intro fuel hf
    obtain ⟨h1, h2⟩ := wsLen_ws w hw (t ++ r)
    cases fuel with
    | zero => simp only [List.length_append] at hf; omega
    | succ f =>
      rw [List.append_assoc]
      simp only [Scan.trimStartAux, h1]
      rw [if_neg (by omega), List.drop_left]
      apply ih
      simp only [List.length_append] at hf ⊢; omega

theorem trimStart_ws {w : List Nat} (hw : Ws w) (r : List Nat) (hr : Scan.wsLen r = 0) :
    Scan.trimStart (w ++ r) = r := trimStartAux_ws hw r hr _ (Nat.le_refl _)

theorem trimStart_id (r : List Nat) (hr : Scan.wsLen r = 0) : Scan.trimStart r = r :=
  trimStart_ws Ws.nil r hr

theorem space_ws {w : List Nat} (hw : Ws1 w) (r : List Nat) (hr : Scan.wsLen r = 0) :
    Scan.space (w ++ r) = .ok r := by
  simp only [Scan.space]
  rw [trimStart_ws (ws1_ws hw) r hr]
  have := ws1_pos hw
  simp only [List.length_append]
  rw [if_pos (by omega)]

/-- a byte that starts no white-space character -/
theorem wsLen_head (b : Nat) (r : List Nat) (h1 : ¬ (9 ≤ b ∧ b ≤ 13)) (h2 : b ≠ 32) (h3 : b < 194) :
    Scan.wsLen (b :: r) = 0 := by
  simp only [Scan.wsLen]
  rw [if_neg (by omega)]
  split <;> first | rfl | omega

theorem wsLen_nil : Scan.wsLen [] = 0 := rfl


/-! ### decimal numbers -/

/-- value of a digit string on top of an accumulator, as `scan::number` computes it -/
def valAcc (n : Int) (ds : List Nat) : Int := ds.foldl (fun a b => a * 10 + ((b - 48 : Nat) : Int)) n

theorem valAcc_ge (ds : List Nat) : ∀ n : Int, 0 ≤ n → n ≤ valAcc n ds := by
  induction ds with
  | nil => intro n _; exact Int.le_refl _
  | cons d t ih =>
    intro n hn
    have := ih (n * 10 + ((d - 48 : Nat) : Int)) (by omega)
    simp only [valAcc, List.foldl_cons] at this ⊢
    omega

theorem valAcc_dec (ds : List Nat) : ∀ n : Nat, valAcc (n : Int) ds = ((ds.foldl (fun a b => a * 10 + (b - 48)) n : Nat) : Int) := by
  induction ds with
  | nil => intro n; rfl
  | cons d t ih =>
    intro n
    simp only [valAcc, List.foldl_cons]
    have := ih (n * 10 + (d - 48))
    simp only [valAcc] at this
    rw [← this]
    congr 1

theorem valAcc_zero (ds : List Nat) : valAcc 0 ds = (decVal ds : Int) := valAcc_dec ds 0

theorem isDigit_of {b : Nat} (h : 48 ≤ b ∧ b ≤ 57) : Scan.isDigit b = true := by
  simp [Scan.isDigit, h.1, h.2]

/-- what stops `scan::number` after the digits `ds` (counted from index `i`) -/
def Stops (rest : List Nat) (i min : Nat) (max : Option Nat) (len : Nat) : Prop :=
  max = some (i + len) ∨ rest = [] ∨ (∃ c t, rest = c :: t ∧ Scan.isDigit c = false ∧ min ≤ i + len)

theorem step_stop (rest : List Nat) (i min : Nat) (max : Option Nat) (n : Int)
    (h : rest = [] ∨ (∃ c t, rest = c :: t ∧ Scan.isDigit c = false ∧ min ≤ i)) :
    Scan.numberAux.step rest i min max n = .ok (rest, n) := by
  rcases h with h | ⟨c, t, h, hc, hm⟩
  · subst h; rw [Scan.numberAux.step.eq_1]
  · subst h
    rw [Scan.numberAux.step.eq_2]
    simp only [hc, Bool.not_false, if_true]
    rw [if_neg (by omega)]

theorem numberAux_digits (ds : List Nat) (rest : List Nat) (min : Nat) (max : Option Nat) :
    ∀ (i : Nat) (n : Int), Digits ds → 0 ≤ n → (∀ m, max = some m → i + ds.length ≤ m) →
      Stops rest i min max ds.length → valAcc n ds ≤ I64_MAX →
      Scan.numberAux (ds ++ rest) i min max n = .ok (rest, valAcc n ds) := by
  induction ds with
  | nil =>
    intro i n _ _ hmax hstop _
    simp only [List.nil_append, valAcc, List.foldl_nil, List.length_nil, Nat.add_zero, Stops] at *
    cases max with
    | none =>
      rw [Scan.numberAux.eq_2]
      exact step_stop rest i min none n (by simpa using hstop)
    | some m =>
      rw [Scan.numberAux.eq_1]
      by_cases hm : i ≥ m
      · rw [if_pos hm]
      · rw [if_neg hm]
        apply step_stop
        rcases hstop with h | h | h
        · injection h with h; omega
        · exact Or.inl h
        · exact Or.inr h
  | cons d t ih =>
    intro i n hd hn hmax hstop hv
    have hd0 : 48 ≤ d ∧ d ≤ 57 := hd d (by simp)
    have hdt : Digits t := fun b hb => hd b (by simp [hb])
    have hn' : 0 ≤ n * 10 + ((d - 48 : Nat) : Int) := by omega
    have hv' : valAcc (n * 10 + ((d - 48 : Nat) : Int)) t ≤ I64_MAX := by
      simpa [valAcc] using hv
    have hle := valAcc_ge t _ hn'
    have hstep : Scan.numberAux.step (d :: (t ++ rest)) i min max n
        = Scan.numberAux (t ++ rest) (i + 1) min max (n * 10 + ((d - 48 : Nat) : Int)) := by
      rw [Scan.numberAux.step.eq_2]
      simp only [isDigit_of hd0, Bool.not_true, Bool.false_eq_true, if_false]
      rw [if_neg (by omega)]
    have hrec := ih (i + 1) (n * 10 + ((d - 48 : Nat) : Int)) hdt hn'
      (by intro m hm; have := hmax m hm; simp only [List.length_cons] at this; omega)
      (by
        simp only [Stops, List.length_cons] at hstop ⊢
        rcases hstop with h | h | ⟨c, u, h, hc, hm⟩
        · left; rw [h]; congr 1; omega
        · right; left; exact h
        · right; right; exact ⟨c, u, h, hc, by omega⟩)
      hv'
    have hval : valAcc n (d :: t) = valAcc (n * 10 + ((d - 48 : Nat) : Int)) t := by
      simp [valAcc]
    rw [hval, ← hrec, List.cons_append]
    cases max with
    | none => rw [Scan.numberAux.eq_2, hstep]
    | some m =>
      rw [Scan.numberAux.eq_1]
      have := hmax m rfl
      simp only [List.length_cons] at this
      rw [if_neg (by omega), hstep]

/-- `scan::number` on `ds ++ rest` -/
theorem number_digits (ds rest : List Nat) (min : Nat) (max : Option Nat) (hd : Digits ds)
    (hmin : min ≤ ds.length) (hmax : ∀ m, max = some m → ds.length ≤ m)
    (hstop : max = some ds.length ∨ rest = [] ∨ ∃ c t, rest = c :: t ∧ Scan.isDigit c = false)
    (hv : (decVal ds : Int) ≤ I64_MAX) :
    Scan.number (ds ++ rest) min max = .ok (rest, (decVal ds : Int)) := by
  unfold Scan.number
  rw [if_neg (by simp only [List.length_append]; omega)]
  rw [← valAcc_zero] at hv ⊢
  apply numberAux_digits ds rest min max 0 0 hd (Int.le_refl _)
  · intro m hm; have := hmax m hm; omega
  · simp only [Stops, Nat.zero_add]
    rcases hstop with h | h | ⟨c, t, h, hc⟩
    · exact Or.inl h
    · exact Or.inr (Or.inl h)
    · exact Or.inr (Or.inr ⟨c, t, h, hc, hmin⟩)
  · exact hv


/-! ### names -/

theorem lower_eq : (lower : Nat → Nat) = lowerB := by
  funext b; rfl

theorem caseOf_lowerS {word v : List Nat} (h : CaseOf word v) : lowerS v = word := by
  unfold CaseOf at h; unfold lowerS; rw [← lower_eq]; exact h

/-- `b | 32` of a letter is its lower-case form -/
theorem or32_of_lower (a l : Nat) (h : lower a = l) (h1 : 97 ≤ l) (h2 : l ≤ 122) : or32 a = l := by
  unfold lower at h
  unfold or32
  split at h <;> split <;> omega

theorem name_tables :
    Extracted.SHORT_WEEKDAYS = dayNames ∧ Extracted.SHORT_MONTHS = monthNames ∧
    (∀ i < 7, findIdx dayNames (dayNames.getD i []) = some i) ∧
    (∀ i < 12, findIdx monthNames (monthNames.getD i []) = some i) ∧
    (∀ i < 7, (dayNames.getD i []).length = 3 ∧ ∀ b ∈ dayNames.getD i [], 97 ≤ b ∧ b ≤ 122) ∧
    (∀ i < 12, (monthNames.getD i []).length = 3 ∧ ∀ b ∈ monthNames.getD i [], 97 ≤ b ∧ b ≤ 122) ∧
    (∀ i < 7, weekdayOfIdx i = weekdays[i]?) := by decide

theorem caseOf3 (word v : List Nat) (hw : word.length = 3 ∧ ∀ b ∈ word, 97 ≤ b ∧ b ≤ 122)
    (h : CaseOf word v) :
    ∃ a b c, v = [a, b, c] ∧ word = [or32 a, or32 b, or32 c] := by
  unfold CaseOf at h
  match v, h with
  | [a, b, c], h =>
    refine ⟨a, b, c, rfl, ?_⟩
    subst h
    simp only [List.map_cons, List.map_nil, List.cons.injEq, and_true]
    have hb := hw.2
    simp only [List.map_cons, List.map_nil, List.mem_cons, List.mem_nil_iff, or_false, forall_eq_or_imp, forall_eq] at hb
    exact ⟨(or32_of_lower a _ rfl hb.1.1 hb.1.2).symm, (or32_of_lower b _ rfl hb.2.1.1 hb.2.1.2).symm,
      (or32_of_lower c _ rfl hb.2.2.1 hb.2.2.2).symm⟩
  | [], h => subst h; simp at hw
  | [_], h => subst h; simp at hw
  | [_, _], h => subst h; simp at hw
  | _ :: _ :: _ :: _ :: _, h => subst h; simp at hw

theorem short_weekday_name (i : Nat) (hi : i < 7) (v rest : List Nat) (h : CaseOf (dayNames.getD i []) v) :
    ∃ w, weekdays[i]? = some w ∧ short_weekday (v ++ rest) = .ok (rest, w) := by
  obtain ⟨t1, _, t3, _, t5, _, t6⟩ := name_tables
  have hw := t5 i hi
  obtain ⟨a, b, c, rfl, hword⟩ := caseOf3 _ v hw h
  have hwd : ∃ w, weekdays[i]? = some w := by
    have : i < weekdays.length := hi
    exact ⟨weekdays[i], by simp [this]⟩
  obtain ⟨w, hwi⟩ := hwd
  refine ⟨w, hwi, ?_⟩
  unfold short_weekday short_name
  simp only [List.cons_append, List.nil_append, t1, ← hword, t3 i hi, t6 i hi, hwi]

theorem short_month_name (i : Nat) (hi : i < 12) (v rest : List Nat) (h : CaseOf (monthNames.getD i []) v) :
    short_month0 (v ++ rest) = .ok (rest, i) := by
  obtain ⟨_, t2, _, t4, _, t5, _⟩ := name_tables
  have hw := t5 i hi
  obtain ⟨a, b, c, rfl, hword⟩ := caseOf3 _ v hw h
  unfold short_month0 short_name
  simp only [List.cons_append, List.nil_append, t2, ← hword, t4 i hi]

/-- a string that starts with a digit has no day-name -/
theorem short_weekday_digit (d : Nat) (t : List Nat) (hd : 48 ≤ d ∧ d ≤ 57) :
    ∃ e, short_weekday (d :: t) = .error e := by
  have hor : or32 d = d := by unfold or32; split <;> omega
  unfold short_weekday short_name
  match t with
  | [] => exact ⟨_, rfl⟩
  | [_] => exact ⟨_, rfl⟩
  | b :: c :: r =>
    simp only [hor]
    have hnone : findIdx Extracted.SHORT_WEEKDAYS [d, or32 b, or32 c] = none := by
      unfold findIdx
      have : List.findIdx (fun x => x == [d, or32 b, or32 c]) Extracted.SHORT_WEEKDAYS = 7 := by
        have h1 : ∀ x y z : Nat, 97 ≤ x → ([x, y, z] == [d, or32 b, or32 c]) = false := by
          intro x y z hx
          simp only [List.cons_beq_cons, Bool.and_eq_false_imp, beq_iff_eq]
          intro h; omega
        simp [Extracted.SHORT_WEEKDAYS, List.findIdx_cons, h1]
      rw [this]; rfl
    rw [hnone]
    exact ⟨_, rfl⟩


/-! ### zones -/

theorem isAlpha_iff (b : Nat) : Scan.isAsciiAlpha b = true ↔ isAlpha b := by
  unfold Scan.isAsciiAlpha isAlpha
  simp only [Bool.or_eq_true, Bool.and_eq_true, decide_eq_true_eq]

/-- the rest of the input after a zone: nothing, or a byte that is no ASCII letter -/
def NoAlphaHead (rest : List Nat) : Prop := rest = [] ∨ ∃ c t, rest = c :: t ∧ ¬ isAlpha c

theorem takeAlpha_app (v rest : List Nat) (hv : ∀ b ∈ v, isAlpha b) (hr : NoAlphaHead rest) :
    Scan.takeAlpha (v ++ rest) = (v, rest) := by
  induction v with
  | nil =>
    rcases hr with h | ⟨c, t, h, hc⟩
    · subst h; rfl
    · subst h
      simp only [List.nil_append, Scan.takeAlpha]
      rw [if_neg (by rw [isAlpha_iff]; exact hc)]
  | cons b t ih =>
    have hb := hv b (by simp)
    simp only [List.cons_append, Scan.takeAlpha]
    rw [if_pos ((isAlpha_iff b).mpr hb), ih (fun x hx => hv x (by simp [hx]))]

/-- the name branch of `timezone_offset_2822`, as a function of the lower-cased name -/
def zoneRes (name rest : List Nat) : PRes (List Nat × Int) :=
    let low := lowerS name
    let is (t : String) : Bool := low == asciiBytes t
    if is "gmt" || is "ut" || is "z" then .ok (rest, 0)
    else if is "edt" then .ok (rest, -4 * 3600)
    else if is "est" || is "cdt" then .ok (rest, -5 * 3600)
    else if is "cst" || is "mdt" then .ok (rest, -6 * 3600)
    else if is "mst" || is "pdt" then .ok (rest, -7 * 3600)
    else if is "pst" then .ok (rest, -8 * 3600)
    else match name with
      | [c] =>
        if (97 ≤ c ∧ c ≤ 105) ∨ (107 ≤ c ∧ c ≤ 121) ∨ (65 ≤ c ∧ c ≤ 73) ∨ (75 ≤ c ∧ c ≤ 89)
        then .ok (rest, 0) else .error .invalid
      | _ => .error .invalid

theorem tz_name (v rest : List Nat) (hv : ∀ b ∈ v, isAlpha b) (hne : v ≠ []) (hr : NoAlphaHead rest) :
    Scan.timezone_offset_2822 (v ++ rest) = zoneRes v rest := by
  unfold Scan.timezone_offset_2822 zoneRes
  rw [takeAlpha_app v rest hv hr]
  have : v.length > 0 := by cases v with | nil => exact absurd rfl hne | cons _ _ => simp
  simp only [this, if_true]
  rfl

theorem lower_alpha (b l : Nat) (h : lower b = l) (hl : 97 ≤ l ∧ l ≤ 122) : isAlpha b := by
  unfold lower at h; unfold isAlpha; split at h <;> omega

/-- hours of a lower-cased zone name, as the `if` chain of `timezone_offset_2822` reads them -/
def zoneSecs (low : List Nat) : Option Int :=
  let is (t : String) : Bool := low == asciiBytes t
  if is "gmt" || is "ut" || is "z" then some 0
  else if is "edt" then some (-4 * 3600)
  else if is "est" || is "cdt" then some (-5 * 3600)
  else if is "cst" || is "mdt" then some (-6 * 3600)
  else if is "mst" || is "pdt" then some (-7 * 3600)
  else if is "pst" then some (-8 * 3600) else none

theorem zoneRes_some (v rest : List Nat) (h : Int) (hz : zoneSecs (lowerS v) = some h) :
    zoneRes v rest = .ok (rest, h) := by
  unfold zoneSecs at hz
  unfold zoneRes
  simp only [] at hz ⊢
  repeat' split at hz
  all_goals first
    | (injection hz with hz; subst hz; simp only [*, if_true, if_false]; done)
    | (injection hz with hz; subst hz; simp_all; done)
    | (cases hz)

theorem zone_table_secs : ∀ e ∈ zoneTable,
    zoneSecs e.1 = some (e.2 * 3600) ∧ e.1 ≠ [] ∧ ∀ b ∈ e.1, 97 ≤ b ∧ b ≤ 122 := by decide

theorem ascii_lits :
    asciiBytes "gmt" = [103, 109, 116] ∧ asciiBytes "ut" = [117, 116] ∧ asciiBytes "z" = [122] ∧
    asciiBytes "edt" = [101, 100, 116] ∧ asciiBytes "est" = [101, 115, 116] ∧
    asciiBytes "cdt" = [99, 100, 116] ∧ asciiBytes "cst" = [99, 115, 116] ∧
    asciiBytes "mdt" = [109, 100, 116] ∧ asciiBytes "mst" = [109, 115, 116] ∧
    asciiBytes "pdt" = [112, 100, 116] ∧ asciiBytes "pst" = [112, 115, 116] := by decide

theorem zoneRes_letter (c : Nat) (rest : List Nat) (ha : isAlpha c) (hj : lower c ≠ 106) :
    zoneRes [c] rest = .ok (rest, 0) := by
  obtain ⟨e1, e2, e3, e4, e5, e6, e7, e8, e9, e10, e11⟩ := ascii_lits
  unfold isAlpha at ha
  unfold lower at hj
  unfold zoneRes
  simp only [e1, e2, e3, e4, e5, e6, e7, e8, e9, e10, e11, lowerS, List.map_cons, List.map_nil]
  by_cases hz : lowerB c = 122
  · simp [hz]
  · have hc : (97 ≤ c ∧ c ≤ 105) ∨ (107 ≤ c ∧ c ≤ 121) ∨ (65 ≤ c ∧ c ≤ 73) ∨ (75 ≤ c ∧ c ≤ 89) := by
      unfold lowerB at hz
      split at hj <;> split at hz <;> omega
    simp [hz, hc]


theorem tz_numeric (neg : Bool) (h1 h2 m1 m2 : Nat) (rest : List Nat)
    (hh1 : 48 ≤ h1 ∧ h1 ≤ 57) (hh2 : 48 ≤ h2 ∧ h2 ≤ 57) (hm1 : 48 ≤ m1 ∧ m1 ≤ 53) (hm2 : 48 ≤ m2 ∧ m2 ≤ 57) :
    Scan.timezone_offset_2822 ((if neg then 45 else 43) :: h1 :: h2 :: m1 :: m2 :: rest) =
      .ok (rest, (if neg then -1 else 1) *
        ((((h1 - 48) * 10 + (h2 - 48) : Nat) : Int) * 3600 + (((m1 - 48) * 10 + (m2 - 48) : Nat) : Int) * 60)) := by
  have d1 := isDigit_of hh1
  have d2 := isDigit_of hh2
  have d4 := isDigit_of hm2
  cases neg
  · simp only [Bool.false_eq_true, if_false]
    unfold Scan.timezone_offset_2822
    simp only [Scan.takeAlpha, Scan.isAsciiAlpha]
    simp only [show (decide (65 ≤ 43) && decide (43 ≤ 90) || decide (97 ≤ 43) && decide (43 ≤ 122)) = false by decide,
      Bool.false_eq_true, if_false, List.length_nil, gt_iff_lt, Nat.lt_irrefl]
    unfold Scan.timezone_offset
    simp only [Bool.false_eq_true, if_false, d1, d2, d4, Bool.and_self, if_true, Scan.consumeColon, hm1.1, hm1.2,
      and_self, List.length_cons, ge_iff_le, List.drop_succ_cons, List.drop_zero]
    simp
  · simp only [if_true]
    unfold Scan.timezone_offset_2822
    simp only [Scan.takeAlpha, Scan.isAsciiAlpha]
    simp only [show (decide (65 ≤ 45) && decide (45 ≤ 90) || decide (97 ≤ 45) && decide (45 ≤ 122)) = false by decide,
      Bool.false_eq_true, if_false, List.length_nil, gt_iff_lt, Nat.lt_irrefl]
    unfold Scan.timezone_offset
    simp only [Bool.false_eq_true, if_false, d1, d2, d4, Bool.and_self, if_true, Scan.consumeColon, hm1.1, hm1.2,
      and_self, List.length_cons, ge_iff_le, List.drop_succ_cons, List.drop_zero]
    simp


/-! ### comments -/

theorem commentAux_text {a : List Nat} (ha : CText a) :
    ∀ (rest : List Nat) (d : Nat), Scan.commentAux (a ++ 41 :: rest) (some (d + 1, false)) =
      (if d = 0 then .ok rest else Scan.commentAux rest (some (d, false))) := by
  induction ha with
  | nil =>
    intro rest d
    simp only [List.nil_append, Scan.commentAux, if_true]
    by_cases hd : d = 0
    · simp [hd]
    · simp [hd]
  | char c t h1 h2 h3 _ ih =>
    intro rest d
    simp only [List.cons_append, Scan.commentAux, h1, h2, h3, if_false]
    exact ih rest d
  | esc c t _ ih =>
    intro rest d
    simp only [List.cons_append, Scan.commentAux]
    simp only [show (92 : Nat) ≠ 41 by decide, if_false, if_true]
    exact ih rest d
  | nest a t _ _ iha iht =>
    intro rest d
    simp only [List.cons_append, Scan.commentAux]
    simp only [show (40 : Nat) ≠ 41 by decide, show (40 : Nat) ≠ 92 by decide, if_false, if_true]
    rw [List.append_assoc, List.cons_append, iha (t ++ 41 :: rest) (d + 1)]
    rw [if_neg (by omega)]
    exact iht rest d

theorem comment_one {w a : List Nat} (hw : Ws w) (ha : CText a) (rest : List Nat) :
    Scan.comment_2822 (w ++ (40 :: (a ++ 41 :: rest))) = .ok rest := by
  unfold Scan.comment_2822
  rw [trimStart_ws hw _ (wsLen_head 40 _ (by omega) (by omega) (by omega))]
  simp only [Scan.commentAux, if_true]
  rw [commentAux_text ha rest 0, if_pos rfl]

theorem commentsAux_all {cc : List Nat} (hc : Comments cc) :
    ∀ fuel, cc.length ≤ fuel → Parse.commentsAux fuel cc = [] := by
  induction hc with
  | nil =>
    intro fuel _
    cases fuel with
    | zero => rfl
    | succ f => rfl
  | cons w a r hw ha _ ih =>
    intro fuel hf
    cases fuel with
    | zero => simp at hf
    | succ f =>
      simp only [Parse.commentsAux, comment_one hw ha r]
      apply ih
      simp only [List.length_append, List.length_cons] at hf
      omega

end Chrono.Proofs.Rfc2822
