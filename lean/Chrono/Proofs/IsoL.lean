/- Helper lemmas for the ISO-week part of C01. -/
import Chrono.Proofs.DateL
import Chrono.Proofs.IsoFin
import Chrono.Spec.IsoSpec

namespace Chrono.Proofs
open Chrono Chrono.M Chrono.Spec Chrono.Extracted

theorem ndays_flagsOf (y : Int) : YearFlags.ndays (flagsOf y) = yearLen y := by
  obtain ⟨_, _, hl, _⟩ := flagsOf_facts y
  unfold YearFlags.ndays yearLen
  rw [hl]; cases isLeap y <;> simp

/-- the Thursday of the week of the `o`-th day of year `y`, as an ordinal relative to year `y` -/
theorem thursday_eq (y : Int) (o : Nat) :
    isoThursday (dayNumYo y o) = daysBeforeYear y + otOf o (flagsOf y) := by
  obtain ⟨_, _, _, hw⟩ := flagsOf_facts y
  unfold isoThursday weekdayOf dayNumYo otOf at *
  push_cast at *
  omega

theorem ywf_fields (Y : Int) (W F : Nat) (hW : W < 64) (hF : F < 16) :
    IsoWeek.year (Y * 1024 + (W : Int) * 16 + (F : Int)) = Y ∧
    IsoWeek.week (Y * 1024 + (W : Int) * 16 + (F : Int)) = W := by
  unfold IsoWeek.year IsoWeek.week
  omega

/-- a (year, ordinal) pair is determined by its day number, and day numbers order such pairs
lexicographically -/
theorem yo_le (y1 y2 : Int) (o1 o2 : Nat) (h1 : 1 ≤ o1 ∧ o1 ≤ yearLen y1)
    (h2 : 1 ≤ o2 ∧ o2 ≤ yearLen y2) (h : dayNumYo y1 o1 ≤ dayNumYo y2 o2) :
    y1 < y2 ∨ (y1 = y2 ∧ o1 ≤ o2) := by
  have hl1 := yearLen_ge y1
  have hl2 := yearLen_ge y2
  unfold dayNumYo at h
  rcases Int.lt_trichotomy y1 y2 with hlt | heq | hgt
  · left; exact hlt
  · right; subst heq; exact ⟨rfl, by omega⟩
  · exfalso
    have hm := dby_mono (y2 + 1) y1 (by omega)
    have hs := dby_step y2
    omega

theorem yo_unique (y1 y2 : Int) (o1 o2 : Nat) (h1 : 1 ≤ o1 ∧ o1 ≤ yearLen y1)
    (h2 : 1 ≤ o2 ∧ o2 ≤ yearLen y2) (h : dayNumYo y1 o1 = dayNumYo y2 o2) :
    y1 = y2 ∧ o1 = o2 := by
  have a := yo_le y1 y2 o1 o2 h1 h2 (by omega)
  have b := yo_le y2 y1 o2 o1 h2 h1 (by omega)
  omega

/-- a valid (year, ordinal) pair lies in the supported year range exactly when its day number lies
between the day numbers of MIN and MAX -/
theorem range_iff_iso (Y : Int) (o : Nat) (ho : 1 ≤ o ∧ o ≤ yearLen Y) :
    (MIN_YEAR ≤ Y ∧ Y ≤ MAX_YEAR) ↔
      (dayNumYo MIN_YEAR 1 ≤ dayNumYo Y o ∧ dayNumYo Y o ≤ dayNumYo MAX_YEAR 365) := by
  have hMIN : MIN_YEAR = -262143 := rfl
  have hMAX : MAX_YEAR = 262142 := rfl
  have hlmin : 1 ≤ 1 ∧ 1 ≤ yearLen MIN_YEAR := ⟨by omega, by have := yearLen_ge MIN_YEAR; omega⟩
  have hlmax : 1 ≤ 365 ∧ 365 ≤ yearLen MAX_YEAR := ⟨by omega, by have := yearLen_ge MAX_YEAR; omega⟩
  have hyl := yearLen_ge Y
  constructor
  · intro ⟨ha, hb⟩
    constructor
    · have hm := dby_mono MIN_YEAR Y ha
      unfold dayNumYo; omega
    · have hm := dby_mono (Y + 1) (MAX_YEAR + 1) (by omega)
      have hs := dby_step Y
      have hs2 := dby_step MAX_YEAR
      have : yearLen MAX_YEAR = 365 := by decide
      unfold dayNumYo; omega
  · intro ⟨ha, hb⟩
    have a := yo_le MIN_YEAR Y 1 o hlmin ho ha
    have b := yo_le Y MAX_YEAR o 365 ho hlmax hb
    omega

/-! ### `iso_week` -/

/-- the ISO week of the `o`-th day of year `y`: the Thursday of its week is the `ot`-th day of year
`Y`, and the packed result carries `Y`, week `(ot - 1) / 7 + 1` and the flags of `Y` -/
theorem iso_week_spec' (y : Int) (o : Nat) (hy : MIN_YEAR ≤ y ∧ y ≤ MAX_YEAR)
    (ho : 1 ≤ o ∧ o ≤ yearLen y) :
    ∃ (Y : Int) (ot : Nat), 1 ≤ ot ∧ ot ≤ yearLen Y ∧
      dayNumYo Y ot = isoThursday (dayNumYo y o) ∧
      Date.iso_week (dateOfYo y o) =
        .ok (Y * 1024 + (((ot - 1) / 7 + 1 : Nat) : Int) * 16 + ((flagsOf Y : Nat) : Int)) := by
  have hMIN : MIN_YEAR = -262143 := rfl
  have hMAX : MAX_YEAR = 262142 := rfl
  have hyl := yearLen_ge y
  obtain ⟨hf16, hf8, _, hw⟩ := flagsOf_facts y
  obtain ⟨hyear, hord, hflags, _, _, _⟩ := dateOfYo_fields y o (by omega)
  have hnd := ndays_flagsOf y
  have hfin := iso_fin o (by omega) (flagsOf y) hf16
  unfold isoFinOk at hfin
  simp only [decide_eq_true_eq] at hfin
  obtain ⟨hA, hB, hC⟩ := hfin ho.1 (by rw [hnd]; exact ho.2) hf8
  rw [thursday_eq]
  unfold Date.iso_week IsoWeek.from_yof
  rw [hyear, hord, hflags]
  simp only [Int.toNat_natCast]
  rw [hnd] at hB hC
  generalize (o + YearFlags.isoweek_delta (flagsOf y)) / 7 = raw at *
  by_cases h1 : otOf o (flagsOf y) < 1
  · -- previous year
    have hraw := hA h1
    rw [if_pos hraw, ckI32_ok (by omega) (by omega)]
    dsimp only
    rw [from_year_spec]
    obtain ⟨pf16, pf8, _, pw⟩ := flagsOf_facts (y - 1)
    have pnd := ndays_flagsOf (y - 1)
    have hs := dby_step (y - 1)
    rw [show y - 1 + 1 = y by omega] at hs
    have ho8 : o < 8 := by unfold otOf at h1; omega
    have hrel : (flagsOf y % 8) % 7 = (flagsOf (y - 1) % 8 + YearFlags.ndays (flagsOf (y - 1))) % 7 := by
      rw [pnd]
      unfold weekdayOf at hw pw
      push_cast at hw pw
      omega
    have hp := iso_prev_fin (flagsOf (y - 1)) pf16 (flagsOf y) hf16 o ho8
    unfold isoPrevOk at hp
    simp only [decide_eq_true_eq] at hp
    obtain ⟨p1, p2, p3⟩ := hp pf8 hf8 hrel ho.1 h1
    rw [pnd] at p1 p2 p3
    generalize otOf o (flagsOf y) = ot at *
    obtain ⟨k, hk⟩ := Int.eq_ofNat_of_zero_le (show 0 ≤ ot + (yearLen (y - 1) : Int) by omega)
    refine ⟨y - 1, k, by omega, by omega, ?_, ?_⟩
    · unfold dayNumYo; omega
    · congr 2
      have : YearFlags.nisoweeks (flagsOf (y - 1)) = (k - 1) / 7 + 1 := by omega
      rw [this]
  · rw [if_neg (by intro hr; omega)]
    by_cases h2 : (yearLen y : Int) < otOf o (flagsOf y)
    · -- next year
      obtain ⟨hraw, h3⟩ := hB h2
      rw [if_pos hraw, ckI32_ok (by omega) (by omega)]
      dsimp only
      rw [from_year_spec]
      have hs := dby_step y
      have hl1 := yearLen_ge (y + 1)
      generalize otOf o (flagsOf y) = ot at *
      obtain ⟨k, hk⟩ := Int.eq_ofNat_of_zero_le (show 0 ≤ ot - (yearLen y : Int) by omega)
      refine ⟨y + 1, k, by omega, by omega, ?_, ?_⟩
      · unfold dayNumYo; omega
      · congr 2
        have : (k - 1) / 7 + 1 = 1 := by omega
        rw [this]
    · -- this year
      obtain ⟨r1, r2, r3⟩ := hC (by omega) (by omega)
      rw [if_neg (by omega)]
      dsimp only
      rw [from_year_spec]
      generalize otOf o (flagsOf y) = ot at *
      obtain ⟨k, hk⟩ := Int.eq_ofNat_of_zero_le (show 0 ≤ ot by omega)
      refine ⟨y, k, by omega, by omega, ?_, ?_⟩
      · unfold dayNumYo; omega
      · congr 2
        have : raw = (k - 1) / 7 + 1 := by omega
        rw [this]

/-! ### `from_isoywd_opt` -/

theorem optI32_some_iso {x : Int} (h1 : -2147483648 ≤ x) (h2 : x ≤ 2147483647) : optI32 x = some x := by
  simp [optI32, inI32, I32_MIN, I32_MAX, h1, h2]

theorem optI32_none_iso {x : Int} (h : x < -2147483648 ∨ 2147483647 < x) : optI32 x = none := by
  simp only [optI32, inI32, I32_MIN, I32_MAX]
  rcases h with h | h
  · have : ¬ (-2147483648 ≤ x) := by omega
    simp [this]
  · have : ¬ (x ≤ 2147483647) := by omega
    simp [this]

theorem wd_toNat_le (wd : Weekday) : wd.toNat ≤ 6 := by cases wd <;> decide

theorem wd_toNat_inj (a b : Weekday) (h : a.toNat = b.toNat) : a = b := by
  cases a <;> cases b <;> first | rfl | (exfalso; revert h; decide)

/-- the day number of an ISO week date in terms of the year's flags: chrono's `isoweek_delta` is
7 minus the offset of the Monday of week 1 from 31 December of the previous year -/
theorem isoDayNum_eq (y w wd : Int) :
    isoDayNum y w wd = daysBeforeYear y + 7 * w + wd - (YearFlags.isoweek_delta (flagsOf y) : Int) := by
  obtain ⟨hf16, hf8, _, hw⟩ := flagsOf_facts y
  unfold isoDayNum isoWeek1Monday dayNumYo YearFlags.isoweek_delta
  unfold weekdayOf at *
  dsimp only
  push_cast at hw
  by_cases hd : flagsOf y % 8 < 3
  · rw [if_pos hd]; push_cast; omega
  · rw [if_neg hd]; push_cast; omega

/-- ISO year `y` has a week `w` exactly when `1 ≤ w ≤ nisoweeks` -/
theorem isoWeekExists_iff (y : Int) (w : Nat) :
    isoWeekExists y w ↔ (1 ≤ w ∧ w ≤ YearFlags.nisoweeks (flagsOf y)) := by
  obtain ⟨hf16, hf8, _, _⟩ := flagsOf_facts y
  obtain ⟨n1, n2, n3, n4, _, _, _⟩ := nisoweeks_fin (flagsOf y) hf16 hf8
  have hnd := ndays_flagsOf y
  have hs := dby_step y
  unfold isoWeekExists
  rw [isoDayNum_eq, hs]
  rw [hnd] at n1 n2
  generalize YearFlags.isoweek_delta (flagsOf y) = dl at *
  generalize YearFlags.nisoweeks (flagsOf y) = nw at *
  omega

/-- chrono's 53-week bit mask is the calendar rule -/
theorem nisoweeks_spec (y : Int) : YearFlags.nisoweeks (flagsOf y) = isoWeeksInYear y := by
  obtain ⟨hf16, hf8, hfl, hw⟩ := flagsOf_facts y
  obtain ⟨_, _, _, _, _, _, n7⟩ := nisoweeks_fin (flagsOf y) hf16 hf8
  rw [n7]
  unfold isoWeeksInYear dayNumYo
  unfold weekdayOf at *
  push_cast at hw
  apply ite_same
  cases hl : isLeap y
  · rw [hl] at hfl; simp at hfl; simp; omega
  · rw [hl] at hfl; simp at hfl; simp; omega

/-- evaluation of `from_isoywd_opt` for an existing week: the denoted day is the `o`-th day of some
year `Y` (previous, same or next year), and the result is that date iff `Y` is in range -/
theorem isoywd_eval (y : Int) (w : Nat) (wd : Weekday)
    (hw : 1 ≤ w ∧ w ≤ YearFlags.nisoweeks (flagsOf y)) :
    ∃ (Y : Int) (o : Nat), 1 ≤ o ∧ o ≤ yearLen Y ∧
      dayNumYo Y o = isoDayNum y w wd.toNat ∧
      Date.from_isoywd_opt y w wd =
        .ok (if MIN_YEAR ≤ Y ∧ Y ≤ MAX_YEAR ∧ 1 ≤ o ∧ o ≤ yearLen Y then some (dateOfYo Y o) else none) := by
  have hMIN : MIN_YEAR = -262143 := rfl
  have hMAX : MAX_YEAR = 262142 := rfl
  obtain ⟨hf16, hf8, _, _⟩ := flagsOf_facts y
  obtain ⟨n1, n2, n3, n4, _, _, _⟩ := nisoweeks_fin (flagsOf y) hf16 hf8
  have hnd := ndays_flagsOf y
  have hyl := yearLen_ge y
  have hwd := wd_toNat_le wd
  rw [isoDayNum_eq]
  unfold Date.from_isoywd_opt
  rw [from_year_spec]
  dsimp only
  rw [if_neg (by omega)]
  rw [hnd] at n1 n2 ⊢
  generalize YearFlags.isoweek_delta (flagsOf y) = dl at *
  generalize YearFlags.nisoweeks (flagsOf y) = nw at *
  generalize wd.toNat = k at *
  by_cases hc : w * 7 + k ≤ dl
  · -- previous year
    rw [if_pos hc]
    have pnd := ndays_flagsOf (y - 1)
    have pyl := yearLen_ge (y - 1)
    have hs := dby_step (y - 1)
    rw [show y - 1 + 1 = y by omega] at hs
    refine ⟨y - 1, w * 7 + k + yearLen (y - 1) - dl, by omega, by omega, ?_, ?_⟩
    · unfold dayNumYo; push_cast; omega
    · by_cases hi : -2147483648 ≤ y - 1 ∧ y - 1 ≤ 2147483647
      · rw [optI32_some_iso hi.1 hi.2]
        dsimp only
        rw [from_year_spec, pnd, from_oaf_spec]
      · rw [optI32_none_iso (by omega)]
        dsimp only
        congr 1; symm; apply ite_neg'; intro h; omega
  · rw [if_neg hc]
    by_cases hn : w * 7 + k - dl ≤ yearLen y
    · -- this year
      rw [if_pos hn, from_oaf_spec]
      refine ⟨y, w * 7 + k - dl, by omega, by omega, ?_, rfl⟩
      unfold dayNumYo; push_cast; omega
    · -- next year
      rw [if_neg hn]
      have hs := dby_step y
      have nyl := yearLen_ge (y + 1)
      refine ⟨y + 1, w * 7 + k - dl - yearLen y, by omega, by omega, ?_, ?_⟩
      · unfold dayNumYo; push_cast; omega
      · by_cases hi : -2147483648 ≤ y + 1 ∧ y + 1 ≤ 2147483647
        · rw [optI32_some_iso hi.1 hi.2]
          dsimp only
          rw [from_year_spec, from_oaf_spec]
        · rw [optI32_none_iso (by omega)]
          dsimp only
          congr 1; symm; apply ite_neg'; intro h; omega

theorem isoywd_none (y : Int) (w : Nat) (wd : Weekday)
    (hw : ¬ (1 ≤ w ∧ w ≤ YearFlags.nisoweeks (flagsOf y))) :
    Date.from_isoywd_opt y w wd = .ok none := by
  unfold Date.from_isoywd_opt
  rw [from_year_spec]
  dsimp only
  rw [if_pos (by omega)]

/-- the ISO year-week-weekday constructor, every argument tuple (all integers `y`, all `w`) -/
theorem ctor_isoywd' (y : Int) (w : Nat) (wd : Weekday) :
    ∃ r, Date.from_isoywd_opt y w wd = .ok r ∧
      (∀ d, r = some d → ∃ Y o, d = dateOfYo Y o ∧ MIN_YEAR ≤ Y ∧ Y ≤ MAX_YEAR ∧ 1 ≤ o ∧
        o ≤ yearLen Y ∧ dayNumYo Y o = isoDayNum y w wd.toNat) ∧
      (r = none ↔ ¬ (isoWeekExists y w ∧ dayNumYo MIN_YEAR 1 ≤ isoDayNum y w wd.toNat ∧
        isoDayNum y w wd.toNat ≤ dayNumYo MAX_YEAR 365)) := by
  by_cases hw : 1 ≤ w ∧ w ≤ YearFlags.nisoweeks (flagsOf y)
  · obtain ⟨Y, o, ho1, ho2, hdn, hev⟩ := isoywd_eval y w wd hw
    have hr := range_iff_iso Y o ⟨ho1, ho2⟩
    rw [hdn] at hr
    have hex := (isoWeekExists_iff y w).mpr hw
    refine ⟨_, hev, ?_, ?_⟩
    · intro d hd
      by_cases hcond : MIN_YEAR ≤ Y ∧ Y ≤ MAX_YEAR ∧ 1 ≤ o ∧ o ≤ yearLen Y
      · rw [if_pos hcond] at hd
        exact ⟨Y, o, (Option.some.inj hd).symm, hcond.1, hcond.2.1, ho1, ho2, hdn⟩
      · rw [if_neg hcond] at hd; cases hd
    · by_cases hcond : MIN_YEAR ≤ Y ∧ Y ≤ MAX_YEAR ∧ 1 ≤ o ∧ o ≤ yearLen Y
      · rw [if_pos hcond]
        constructor
        · intro h; cases h
        · intro h; exact absurd ⟨hex, hr.mp ⟨hcond.1, hcond.2.1⟩⟩ h
      · rw [if_neg hcond]
        constructor
        · intro _ h
          have := hr.mpr h.2
          exact hcond ⟨this.1, this.2, ho1, ho2⟩
        · intro _; rfl
  · refine ⟨none, isoywd_none y w wd hw, ?_, ?_⟩
    · intro d hd; cases hd
    · constructor
      · intro _ h; exact hw ((isoWeekExists_iff y w).mp h.1)
      · intro _; rfl

theorem isoThursday_isoDayNum (y w : Int) (k : Nat) (hk : k ≤ 6) :
    isoThursday (isoDayNum y w k) = isoDayNum y w 3 ∧ weekdayOf (isoDayNum y w k) = k := by
  unfold isoThursday isoDayNum isoWeek1Monday weekdayOf
  generalize dayNumYo y 4 = n4
  omega

/-- a date built from an ISO week date has that ISO year, week and weekday -/
theorem isoywd_roundtrip' (y : Int) (w : Nat) (wd : Weekday) (d : Date)
    (h : Date.from_isoywd_opt y w wd = .ok (some d)) :
    ∃ ywf, d.iso_week = .ok ywf ∧ IsoWeek.year ywf = y ∧ IsoWeek.week ywf = w ∧ d.weekday = wd := by
  obtain ⟨r, hr, hsome, hnone⟩ := ctor_isoywd' y w wd
  rw [hr] at h
  have hrd : r = some d := Res.ok.inj h
  obtain ⟨Y, o, hd, hY1, hY2, ho1, ho2, hdn⟩ := hsome d hrd
  have hex : isoWeekExists y w := by
    by_cases hc : isoWeekExists y w
    · exact hc
    · have : r = none := hnone.mpr (fun hh => hc hh.1)
      rw [this] at hrd; cases hrd
  obtain ⟨hthu, hwk⟩ := isoThursday_isoDayNum y w wd.toNat (wd_toNat_le wd)
  obtain ⟨Y', ot, t1, t2, t3, t4⟩ := iso_week_spec' Y o ⟨hY1, hY2⟩ ⟨ho1, ho2⟩
  rw [hdn, hthu] at t3
  -- the Thursday is the k-th day of year y
  obtain ⟨e1, e2, e3⟩ := hex
  have hs := dby_step y
  obtain ⟨k, hk⟩ := Int.eq_ofNat_of_zero_le (show 0 ≤ isoDayNum y w 3 - daysBeforeYear y by omega)
  have hkdn : dayNumYo y k = isoDayNum y w 3 := by unfold dayNumYo; omega
  have hyl := yearLen_ge y
  obtain ⟨u1, u2⟩ := yo_unique Y' y ot k ⟨t1, t2⟩ ⟨by omega, by omega⟩ (by rw [t3, hkdn])
  subst u1 u2
  obtain ⟨hf16, hf8, _, _⟩ := flagsOf_facts Y'
  obtain ⟨_, _, n3, n4, _, _, _⟩ := nisoweeks_fin (flagsOf Y') hf16 hf8
  have hk2 := isoDayNum_eq Y' w 3
  have hweek : (ot - 1) / 7 + 1 = w := by omega
  rw [hweek] at t4
  have hw53 : w ≤ 53 := by omega
  obtain ⟨f1, f2⟩ := ywf_fields Y' w (flagsOf Y') (by omega) hf16
  refine ⟨_, by rw [hd]; exact t4, f1, f2, ?_⟩
  apply wd_toNat_inj
  have hylY := yearLen_ge Y
  have hwd := weekday_spec Y o (by omega)
  rw [hdn, hwk] at hwd
  rw [hd]
  exact Int.ofNat.inj hwd

/-! ### order of ISO weeks -/

theorem isoThursday_mono (a b : Int) (h : a ≤ b) : isoThursday a ≤ isoThursday b := by
  unfold isoThursday weekdayOf; omega

theorem isoThursday_wd (a : Int) : weekdayOf (isoThursday a) = 3 := by
  unfold isoThursday weekdayOf; omega

theorem ywf_le (Y1 Y2 : Int) (t1 t2 : Nat) (h1 : 1 ≤ t1 ∧ t1 ≤ yearLen Y1)
    (h2 : 1 ≤ t2 ∧ t2 ≤ yearLen Y2) (h : dayNumYo Y1 t1 ≤ dayNumYo Y2 t2) :
    Y1 * 1024 + (((t1 - 1) / 7 + 1 : Nat) : Int) * 16 + ((flagsOf Y1 : Nat) : Int) ≤
    Y2 * 1024 + (((t2 - 1) / 7 + 1 : Nat) : Int) * 16 + ((flagsOf Y2 : Nat) : Int) := by
  have hl1 := yearLen_ge Y1
  have hl2 := yearLen_ge Y2
  have f1 := (flagsOf_facts Y1).1
  have f2 := (flagsOf_facts Y2).1
  rcases yo_le Y1 Y2 t1 t2 h1 h2 h with hlt | ⟨heq, hle⟩
  · omega
  · subst heq; omega

/-- ISO weeks (packed `ywf`, derived order) compare in chronological order -/
theorem iso_week_order' (y1 y2 : Int) (o1 o2 : Nat) (hy1 : MIN_YEAR ≤ y1 ∧ y1 ≤ MAX_YEAR)
    (hy2 : MIN_YEAR ≤ y2 ∧ y2 ≤ MAX_YEAR) (h1 : 1 ≤ o1 ∧ o1 ≤ yearLen y1)
    (h2 : 1 ≤ o2 ∧ o2 ≤ yearLen y2) :
    ∃ a b, Date.iso_week (dateOfYo y1 o1) = .ok a ∧ Date.iso_week (dateOfYo y2 o2) = .ok b ∧
      (dayNumYo y1 o1 ≤ dayNumYo y2 o2 → a ≤ b) ∧
      (a < b → dayNumYo y1 o1 < dayNumYo y2 o2) ∧
      (a = b ↔ isoThursday (dayNumYo y1 o1) = isoThursday (dayNumYo y2 o2)) := by
  obtain ⟨Y1, t1, a1, a2, a3, a4⟩ := iso_week_spec' y1 o1 hy1 h1
  obtain ⟨Y2, t2, b1, b2, b3, b4⟩ := iso_week_spec' y2 o2 hy2 h2
  refine ⟨_, _, a4, b4, ?_, ?_, ?_⟩
  · intro h
    exact ywf_le Y1 Y2 t1 t2 ⟨a1, a2⟩ ⟨b1, b2⟩ (by rw [a3, b3]; exact isoThursday_mono _ _ h)
  · intro h
    rcases Int.lt_or_le (dayNumYo y1 o1) (dayNumYo y2 o2) with hlt | hge
    · exact hlt
    · have := ywf_le Y2 Y1 t2 t1 ⟨b1, b2⟩ ⟨a1, a2⟩ (by rw [a3, b3]; exact isoThursday_mono _ _ hge)
      omega
  · rw [← a3, ← b3]
    have hl1 := yearLen_ge Y1
    have hl2 := yearLen_ge Y2
    have f1 := (flagsOf_facts Y1).1
    have f2 := (flagsOf_facts Y2).1
    constructor
    · intro h
      have hY : Y1 = Y2 := by omega
      subst hY
      have w1 := isoThursday_wd (dayNumYo y1 o1)
      have w2 := isoThursday_wd (dayNumYo y2 o2)
      rw [← a3] at w1; rw [← b3] at w2
      unfold dayNumYo weekdayOf at *
      omega
    · intro h
      obtain ⟨e1, e2⟩ := yo_unique Y1 Y2 t1 t2 ⟨a1, a2⟩ ⟨b1, b2⟩ h
      subst e1 e2; rfl

/-! ### the pinned (pre-repair) constructor: `year - 1` / `year + 1` in plain `i32` arithmetic -/

/-- `from_isoywd_opt` as in the pinned chrono 0.4.40 source (finding #1): the neighbouring year is
computed with unchecked `year - 1` / `year + 1`, which the overflow-checked build turns into a panic -/
def isoywdPinned (year : Int) (week : Nat) (weekday : Weekday) : Res (Option Date) :=
  let flags := YearFlags.from_year year
  let nweeks := YearFlags.nisoweeks flags
  if week = 0 ∨ week > nweeks then .ok none
  else
    let weekord := week * 7 + weekday.toNat
    let delta := YearFlags.isoweek_delta flags
    if weekord ≤ delta then
      match ckI32 (year - 1) with
      | .panic => .panic
      | .ok py =>
        let pf := YearFlags.from_year py
        Date.from_ordinal_and_flags py (weekord + YearFlags.ndays pf - delta) pf
    else
      let ordinal := weekord - delta
      let ndays := YearFlags.ndays flags
      if ordinal ≤ ndays then Date.from_ordinal_and_flags year ordinal flags
      else
        match ckI32 (year + 1) with
        | .panic => .panic
        | .ok ny => Date.from_ordinal_and_flags ny (ordinal - ndays) (YearFlags.from_year ny)

end Chrono.Proofs
