/-
  C09 round trips: the specification's text of a value, read by the model of `FromStr`, is the value.
-/
import Chrono.Proofs.TextFormsL
import Chrono.Props.C14
namespace Chrono.Proofs.TextForms
open Chrono Chrono.M Chrono.M.Scan Chrono.M.Format Chrono.M.TextForms
open Chrono.Proofs Chrono.Proofs.RenderScan Chrono.Spec Chrono.Spec.Text Chrono.Spec.Fields Chrono.Proofs.ParsedRes Chrono.Extracted

/-- an item list without the two whole-format items goes through `parseItemBase` only -/
theorem parse_internal_base (items : List Item)
    (h : ∀ it ∈ items, it ≠ .fixed .rfc2822 ∧ it ≠ .fixed .rfc3339) (p : Parsed) (s : List Nat) :
    Parse.parse_internal p s items = Parse.parseItemsBase p s items := by
  induction items generalizing p s with
  | nil => rfl
  | cons it rest ih =>
    have hit := h it (List.mem_cons_self ..)
    have hrest : ∀ it ∈ rest, it ≠ .fixed .rfc2822 ∧ it ≠ .fixed .rfc3339 :=
      fun x hx => h x (List.mem_cons_of_mem _ hx)
    have hr : Parse.parse_internal p s (it :: rest) =
        match Parse.parseItemBase p s it with
        | .ok (p', s') => Parse.parse_internal p' s' rest
        | .error e => .error e := by
      cases it with
      | fixed f => cases f <;> first | rfl | exact absurd rfl hit.1 | exact absurd rfl hit.2
      | _ => rfl
    rw [hr]
    unfold Parse.parseItemsBase
    cases Parse.parseItemBase p s it with
    | error e => rfl
    | ok r => exact ih hrest r.1 r.2

/-! ### NaiveDate -/

/-- the date fields of `p` are exactly year, month and day with the given values -/
def DateFieldsAre (p : Parsed) (y : Int) (m d : Nat) : Prop :=
  p.year = some y ∧ p.year_div_100 = none ∧ p.year_mod_100 = none ∧ p.isoyear = none ∧
  p.isoyear_div_100 = none ∧ p.isoyear_mod_100 = none ∧ p.quarter = none ∧ p.month = some (m : Int) ∧
  p.week_from_sun = none ∧ p.week_from_mon = none ∧ p.isoweek = none ∧ p.weekday = none ∧
  p.ordinal = none ∧ p.day = some (d : Int)

/-- year, month, day of an existing date resolve to that date -/
theorem date_resolves (p : Parsed) (hp : InType p) (y : Int) (o : Nat) (hvd : VD y o)
    (hf : DateFieldsAre p y (monthOfYo y o) (dayOfYo y o)) :
    Parsed.to_naive_date p = .ok (.ok (dateOfYo y o)) := by
  obtain ⟨hy1, hy2, ho1, ho2⟩ := hvd
  have hvd : VD y o := ⟨hy1, hy2, ho1, ho2⟩
  obtain ⟨_, _, m3, m4⟩ := month_day_spec y o ho1 ho2
  generalize hM : monthOfYo y o = M at *
  generalize hD : dayOfYo y o = D at *
  obtain ⟨f1, f2, f3, f4, f5, f6, f9, f7, g1, g2, g3, g4, g5, f8⟩ := hf
  have hctor : Date.from_ymd_opt y M D = .ok (some (dateOfYo y o)) := by
    rw [ctor_ymd', if_pos ⟨hy1, hy2, m3⟩, m4]
  obtain ⟨w, hw⟩ := iso_week_ok y o hvd
  obtain ⟨bi, hbi, hbi'⟩ := verify_iso_iff p y o hvd
  have hbt : bi = true := hbi'.mpr
    ⟨⟨w, hw, by simp [optIs, f4], by simp [centIs, f5, f6], by simp [optIs, g3]⟩, by simp [g4]⟩
  subst hbt
  have hvo := (verify_ordinal_iff p y o hp hvd).mpr
    ⟨by simp [optIs, g5], by simp [optIs, g1], by simp [optIs, g2]⟩
  unfold Parsed.to_naive_date
  simp only [f1, f2, f3, f4, f5, f6, Parsed.resolve_year, and_self, if_true]
  have harm : Parsed.dateArm p (some y) none = .ymd y M D := by
    unfold Parsed.dateArm; rw [f7, f8]
  rw [harm]
  simp only [Parsed.armDate, Int.toNat_natCast, hctor, Parsed.okOr, Parsed.RP.bind, hbi, Parsed.andR, hvo,
    Bool.not_true, Bool.false_eq_true, if_false, f9]

/-- every field of a record that holds only small values is inside its machine type -/
theorem inType_of_small (p : Parsed)
    (h : ∀ (f : Parsed → Option Int), f ∈ [Parsed.year, Parsed.year_div_100, Parsed.year_mod_100, Parsed.isoyear,
      Parsed.isoyear_div_100, Parsed.isoyear_mod_100, Parsed.offset] → ∀ x, f p = some x → -1000000 < x ∧ x < 1000000)
    (h' : ∀ (f : Parsed → Option Int), f ∈ [Parsed.quarter, Parsed.month, Parsed.week_from_sun, Parsed.week_from_mon,
      Parsed.isoweek, Parsed.ordinal, Parsed.day, Parsed.hour_div_12, Parsed.hour_mod_12, Parsed.minute,
      Parsed.second, Parsed.nanosecond] → ∀ x, f p = some x → 0 ≤ x ∧ x < 1000000000)
    (ht : p.timestamp = none) : InType p := by
  unfold InType optIn
  simp only [List.mem_cons, List.not_mem_nil, or_false, forall_eq_or_imp, forall_eq] at h h'
  obtain ⟨a1, a2, a3, a4, a5, a6, a7⟩ := h
  obtain ⟨b1, b2, b3, b4, b5, b6, b7, b8, b9, b10, b11, b12⟩ := h'
  refine ⟨?_, ?_, ?_, ?_, ?_, ?_, ?_, ?_, ?_, ?_, ?_, ?_, ?_, ?_, ?_, ?_, ?_, ?_, ?_, ?_⟩ <;> intro x hx
  · have := a1 x hx; omega
  · have := a2 x hx; omega
  · have := a3 x hx; omega
  · have := a4 x hx; omega
  · have := a5 x hx; omega
  · have := a6 x hx; omega
  · have := b1 x hx; omega
  · have := b2 x hx; omega
  · have := b3 x hx; omega
  · have := b4 x hx; omega
  · have := b5 x hx; omega
  · have := b6 x hx; omega
  · have := b7 x hx; omega
  · have := b8 x hx; omega
  · have := b9 x hx; omega
  · have := b10 x hx; omega
  · have := b11 x hx; omega
  · have := b12 x hx; omega
  · rw [ht] at hx; cases hx
  · have := a7 x hx; omega

theorem date_items_plain : ∀ it ∈ DATE_ITEMS, it ≠ Item.fixed .rfc2822 ∧ it ≠ Item.fixed .rfc3339 := by decide
theorem datetime_items_plain : ∀ it ∈ DATETIME_ITEMS, it ≠ Item.fixed .rfc2822 ∧ it ≠ Item.fixed .rfc3339 := by
  decide
theorem hm_items_plain : ∀ it ∈ HOUR_AND_MINUTE, it ≠ Item.fixed .rfc2822 ∧ it ≠ Item.fixed .rfc3339 := by decide
theorem sn_items_plain : ∀ it ∈ SECOND_AND_NANOS, it ≠ Item.fixed .rfc2822 ∧ it ≠ Item.fixed .rfc3339 := by decide
theorem ws_items_plain : ∀ it ∈ TRAILING_WHITESPACE, it ≠ Item.fixed .rfc2822 ∧ it ≠ Item.fixed .rfc3339 := by
  decide

theorem vd_month_day (y : Int) (o : Nat) (hvd : VD y o) :
    -1000000 < y ∧ y < 1000000 ∧ 1 ≤ monthOfYo y o ∧ monthOfYo y o ≤ 12 ∧ 1 ≤ dayOfYo y o ∧ dayOfYo y o ≤ 31 := by
  obtain ⟨hy1, hy2, ho1, ho2⟩ := hvd
  have hMIN : MIN_YEAR = -262143 := rfl
  have hMAX : MAX_YEAR = 262142 := rfl
  obtain ⟨_, _, m3, _⟩ := month_day_spec y o ho1 ho2
  obtain ⟨b1, b2⟩ := valid_bounds y _ _ m3
  unfold validYmd at m3
  simp only [Bool.and_eq_true, decide_eq_true_eq] at m3
  omega

/-- **NaiveDate**: the specification's text of a date reads back as that date -/
theorem date_roundtrip (y : Int) (o : Nat) (hvd : VD y o) :
    date_from_str (dateText y (monthOfYo y o) (dayOfYo y o)) = .ok (.ok (dateOfYo y o)) := by
  obtain ⟨a1, a2, a3, a4, a5, a6⟩ := vd_month_day y o hvd
  have hitems := date_items Parsed.new rfl rfl rfl y ⟨a1, a2⟩ (monthOfYo y o) (dayOfYo y o) ⟨a3, a4⟩ ⟨a5, a6⟩ []
  rw [List.append_nil] at hitems
  have hsplit : DATE_ITEMS = Parse.DATE_ITEMS ++ [.space []] := rfl
  unfold date_from_str Parse.parse
  rw [parse_internal_base DATE_ITEMS date_items_plain, hsplit, items_append, hitems]
  simp only [items_cons _ _ _ _ _ _ (item_space _ _), items_nil, trimStart_nil]
  refine date_resolves _ ?_ y o hvd ⟨rfl, rfl, rfl, rfl, rfl, rfl, rfl, rfl, rfl, rfl, rfl, rfl, rfl, rfl⟩
  refine inType_of_small _ ?_ ?_ rfl
  · simp only [List.mem_cons, List.not_mem_nil, or_false, forall_eq_or_imp, forall_eq]
    refine ⟨?_, ?_, ?_, ?_, ?_, ?_, ?_⟩ <;> intro x hx <;> first | (cases hx; done) | (injection hx with hx; omega)
  · simp only [List.mem_cons, List.not_mem_nil, or_false, forall_eq_or_imp, forall_eq]
    refine ⟨?_, ?_, ?_, ?_, ?_, ?_, ?_, ?_, ?_, ?_, ?_, ?_⟩ <;> intro x hx <;>
      first | (cases hx; done) | (injection hx with hx; omega)

/-! ### NaiveTime -/

/-- the time fields of `p` are hour (both halves), minute, second and — unless zero — nanosecond -/
def TimeFieldsAre (p : Parsed) (h mi sec nano : Nat) : Prop :=
  p.hour_div_12 = some ((h : Int) / 12) ∧ p.hour_mod_12 = some ((h : Int) % 12) ∧ p.minute = some (mi : Int) ∧
  p.second = some (sec : Int) ∧ p.nanosecond = (if nano = 0 then none else some (nano : Int))

theorem time_bounds (t : Time) (ht : TStrict t) :
    (hourOf t).toNat ≤ 23 ∧ (minuteOf t).toNat ≤ 59 ∧ shownSecond t ≤ 60 ∧ shownNano t < 1000000000 := by
  obtain ⟨⟨t0, t1, t2, t3⟩, hl⟩ := ht
  unfold hourOf minuteOf shownSecond shownNano secondOf
  refine ⟨by omega, by omega, ?_, by omega⟩
  split <;> omega

/-- hour, minute, second (60 for a leap second) and fraction of a time of day resolve to it -/
theorem time_resolves (p : Parsed) (t : Time) (ht : TStrict t)
    (hf : TimeFieldsAre p (hourOf t).toNat (minuteOf t).toNat (shownSecond t) (shownNano t)) :
    Parsed.to_naive_time p = .ok t := by
  obtain ⟨⟨t0, t1, t2, t3⟩, hl⟩ := ht
  have ht : TStrict t := ⟨⟨t0, t1, t2, t3⟩, hl⟩
  have eh : ((hourOf t).toNat : Int) = hourOf t := by unfold hourOf; omega
  have em : ((minuteOf t).toNat : Int) = minuteOf t := by unfold minuteOf; omega
  have hsec : ((shownSecond t : Nat) : Int) = secondOf t + (if t.frac ≥ 1000000000 then 1 else 0) := by
    unfold shownSecond secondOf; split <;> omega
  have hnano : ((shownNano t : Nat) : Int) = t.frac % 1000000000 := by unfold shownNano; omega
  obtain ⟨f1, f2, f3, f4, f5⟩ := hf
  rw [eh] at f1 f2
  rw [em] at f3
  refine Chrono.Props.C14.time_complete _ t ht ⟨?_, ?_, ?_, ⟨?_, ?_⟩, ?_, ?_⟩ ?_
  · intro x hx; rw [f1] at hx; injection hx with hx; exact hx.symm
  · intro x hx; rw [f2] at hx; injection hx with hx; exact hx.symm
  · intro x hx; rw [f3] at hx; injection hx with hx; exact hx.symm
  · intro x hx; rw [f4] at hx; injection hx with hx
    rw [← hx, hsec]; unfold secondOf at *
    split <;> split <;> omega
  · intro hx; rw [f4] at hx; cases hx
  · intro x hx; rw [f5] at hx
    split at hx
    · cases hx
    · injection hx with hx; omega
  · intro hx; rw [f5] at hx
    split at hx
    · rename_i h0
      have : ((shownNano t : Nat) : Int) = 0 := by rw [h0]; rfl
      omega
    · cases hx
  · unfold TimeSufficient
    rw [f1, f2, f3, f4]; simp

theorem sn_items' (p : Parsed) (h1 : p.second = none) (h2 : p.nanosecond = none) (sec nano : Nat)
    (hs : sec ≤ 60) (hn : nano < 1000000000) (rest : List Nat) (hr : TailOk rest) :
    Parse.parseItemsBase p (58 :: (two sec ++ (fracText nano ++ rest))) SECOND_AND_NANOS =
      .ok ({ p with second := some (sec : Int),
                    nanosecond := if nano = 0 then none else some (nano : Int) }, trimStart rest) := by
  rw [sn_items p h1 h2 sec nano hs hn rest hr]
  by_cases h0 : nano = 0
  · simp only [h0, if_true]; rw [← h2]
  · simp only [h0, if_false]

theorem timeText_split (t : Time) (ht : TStrict t) (rest : List Nat) :
    timeText t ++ rest = two (hourOf t).toNat ++ (58 :: (two (minuteOf t).toNat ++
      (58 :: (two (shownSecond t) ++ (fracText (shownNano t) ++ rest))))) := by
  obtain ⟨b1, b2, b3, _⟩ := time_bounds t ht
  simp only [timeText, decN_two _ (show (hourOf t).toNat < 100 by omega),
    decN_two _ (show (minuteOf t).toNat < 100 by omega), decN_two _ (show shownSecond t < 100 by omega),
    List.append_assoc, List.cons_append, List.nil_append]

/-- `TIME_ITEMS` of the relaxed RFC 3339 reader on the specification's time text -/
theorem time_items (p : Parsed) (h1 : p.hour_div_12 = none) (h2 : p.hour_mod_12 = none) (h3 : p.minute = none)
    (h4 : p.second = none) (h5 : p.nanosecond = none) (t : Time) (ht : TStrict t) (rest : List Nat)
    (hr : TailOk rest) :
    Parse.parseItemsBase p (timeText t ++ rest) Parse.TIME_ITEMS =
      .ok ({ p with hour_div_12 := some (((hourOf t).toNat : Int) / 12),
                    hour_mod_12 := some (((hourOf t).toNat : Int) % 12),
                    minute := some ((minuteOf t).toNat : Int),
                    second := some (shownSecond t : Int),
                    nanosecond := if shownNano t = 0 then none else some (shownNano t : Int) },
           trimStart rest) := by
  obtain ⟨b1, b2, b3, b4⟩ := time_bounds t ht
  have hsplit : Parse.TIME_ITEMS = HOUR_AND_MINUTE ++ SECOND_AND_NANOS := rfl
  rw [timeText_split t ht rest, hsplit, items_append, hm_items p h1 h2 h3 _ _ b1 b2 _]
  exact sn_items' { p with hour_div_12 := some (((hourOf t).toNat : Int) / 12),
                           hour_mod_12 := some (((hourOf t).toNat : Int) % 12),
                           minute := some ((minuteOf t).toNat : Int) } h4 h5 _ _ b3 b4 rest hr

/-- **NaiveTime**: the specification's text of a time of day reads back as that time -/
theorem time_roundtrip (t : Time) (ht : TStrict t) : time_from_str (timeText t) = .ok t := by
  obtain ⟨b1, b2, b3, b4⟩ := time_bounds t ht
  have e := timeText_split t ht []
  unfold time_from_str
  rw [← List.append_nil (timeText t), e, parse_internal_base HOUR_AND_MINUTE hm_items_plain,
    hm_items Parsed.new rfl rfl rfl _ _ b1 b2 _]
  simp only
  rw [parse_internal_base SECOND_AND_NANOS sn_items_plain,
    sn_items' { Parsed.new with hour_div_12 := some (((hourOf t).toNat : Int) / 12),
                                hour_mod_12 := some (((hourOf t).toNat : Int) % 12),
                                minute := some ((minuteOf t).toNat : Int) } rfl rfl _ _ b3 b4 [] tailOk_nil]
  simp only [Parse.parse, TRAILING_WHITESPACE, trimStart_nil]
  exact time_resolves _ t ht ⟨rfl, rfl, rfl, rfl, rfl⟩


/-! ### NaiveDateTime -/

/-- date and time fields of an existing date and time of day, no timestamp: exactly that date-time -/
theorem naive_resolves (p : Parsed) (hp : InType p) (off : Int) (hoff : -2147483648 ≤ off ∧ off ≤ 2147483647)
    (y : Int) (o : Nat) (hvd : VD y o) (t : Time) (ht : TStrict t)
    (hdf : DateFieldsAre p y (monthOfYo y o) (dayOfYo y o))
    (htf : TimeFieldsAre p (hourOf t).toNat (minuteOf t).toNat (shownSecond t) (shownNano t))
    (hts : p.timestamp = none) :
    Parsed.to_naive_datetime_with_offset p off = .ok (.ok ⟨dateOfYo y o, t⟩) := by
  obtain ⟨r, hr, _, _, hfin⟩ := Chrono.Props.C14.datetime_sound_fields p hp off hoff (dateOfYo y o) t
    (date_resolves p hp y o hvd hdf) (time_resolves p t ht htf)
  rw [hr, hfin (by intro g hg; rw [hts] at hg; cases hg)]

theorem datetime_items_split :
    DATETIME_ITEMS = Parse.DATE_ITEMS ++ (.space [] :: .literal [84] :: Parse.TIME_ITEMS) := rfl

/-- the record the items of a naive date-time store -/
def dtRecord (y : Int) (m d : Nat) (t : Time) (off : Option Int) : Parsed :=
  { year := some y, month := some (m : Int), day := some (d : Int),
    hour_div_12 := some (((hourOf t).toNat : Int) / 12), hour_mod_12 := some (((hourOf t).toNat : Int) % 12),
    minute := some ((minuteOf t).toNat : Int), second := some (shownSecond t : Int),
    nanosecond := if shownNano t = 0 then none else some (shownNano t : Int), offset := off }

theorem inType_dtRecord (y : Int) (m d : Nat) (t : Time) (ht : TStrict t) (off : Option Int)
    (hy : -1000000 < y ∧ y < 1000000) (hm : m ≤ 12) (hd : d ≤ 31)
    (hoff : ∀ x, off = some x → -1000000 < x ∧ x < 1000000) : InType (dtRecord y m d t off) := by
  obtain ⟨b1, b2, b3, b4⟩ := time_bounds t ht
  refine inType_of_small _ ?_ ?_ rfl <;>
    simp only [List.mem_cons, List.not_mem_nil, or_false, forall_eq_or_imp, forall_eq, dtRecord]
  · refine ⟨?_, ?_, ?_, ?_, ?_, ?_, ?_⟩ <;> intro x hx <;>
      first | (cases hx; done) | (injection hx with hx; omega) | exact hoff x hx
  · refine ⟨?_, ?_, ?_, ?_, ?_, ?_, ?_, ?_, ?_, ?_, ?_, ?_⟩ <;> intro x hx <;>
      first | (cases hx; done) | (injection hx with hx; omega) |
        (split at hx <;> first | (cases hx; done) | (injection hx with hx; omega))

/-- the items of `FromStr for NaiveDateTime` on date `T` time -/
theorem datetime_items (y : Int) (o : Nat) (hvd : VD y o) (t : Time) (ht : TStrict t) :
    Parse.parseItemsBase Parsed.new (dateText y (monthOfYo y o) (dayOfYo y o) ++ (84 :: timeText t)) DATETIME_ITEMS
      = .ok (dtRecord y (monthOfYo y o) (dayOfYo y o) t none, []) := by
  obtain ⟨a1, a2, a3, a4, a5, a6⟩ := vd_month_day y o hvd
  rw [datetime_items_split, items_append,
    date_items Parsed.new rfl rfl rfl y ⟨a1, a2⟩ _ _ ⟨a3, a4⟩ ⟨a5, a6⟩ (84 :: timeText t)]
  simp only
  rw [items_space_literal _ 84 _ _ (by omega) (by omega), ← List.append_nil (timeText t),
    time_items _ rfl rfl rfl rfl rfl t ht [] tailOk_nil, trimStart_nil]
  rfl

/-- **NaiveDateTime, `Debug` form** (date `T` time) reads back as the value -/
theorem naive_debug_roundtrip (y : Int) (o : Nat) (hvd : VD y o) (t : Time) (ht : TStrict t) :
    naive_from_str (dateText y (monthOfYo y o) (dayOfYo y o) ++ (84 :: timeText t)) =
      .ok (.ok ⟨dateOfYo y o, t⟩) := by
  obtain ⟨a1, a2, a3, a4, a5, a6⟩ := vd_month_day y o hvd
  unfold naive_from_str Parse.parse
  rw [parse_internal_base DATETIME_ITEMS datetime_items_plain, datetime_items y o hvd t ht]
  simp only
  exact naive_resolves _ (inType_dtRecord y _ _ t ht none ⟨a1, a2⟩ a4 a6 (by intro x hx; cases hx)) 0 (by omega)
    y o hvd t ht ⟨rfl, rfl, rfl, rfl, rfl, rfl, rfl, rfl, rfl, rfl, rfl, rfl, rfl, rfl⟩ ⟨rfl, rfl, rfl, rfl, rfl⟩ rfl

/-- **NaiveDateTime, `Display` form** (date, space, time) is rejected by `FromStr` with `Invalid`, for
every value: after the day the reader skips the space and then insists on a literal `T` -/
theorem naive_display_rejected (y : Int) (o : Nat) (hvd : VD y o) (t : Time) (ht : TStrict t) :
    naive_from_str (dateText y (monthOfYo y o) (dayOfYo y o) ++ (32 :: timeText t)) = .ok (.error .invalid) := by
  obtain ⟨a1, a2, a3, a4, a5, a6⟩ := vd_month_day y o hvd
  obtain ⟨b1, _, _, _⟩ := time_bounds t ht
  have e := timeText_split t ht []
  rw [List.append_nil] at e
  unfold naive_from_str Parse.parse
  rw [parse_internal_base DATETIME_ITEMS datetime_items_plain, datetime_items_split, items_append,
    date_items Parsed.new rfl rfl rfl y ⟨a1, a2⟩ _ _ ⟨a3, a4⟩ ⟨a5, a6⟩ (32 :: timeText t)]
  simp only
  obtain ⟨tl, htl⟩ : ∃ tl, timeText t = (48 + (hourOf t).toNat / 10) :: tl := ⟨_, by rw [e]; rfl⟩
  have hws : wsLen (timeText t) = 0 := by
    rw [htl]; exact wsLen_ascii _ _ (by omega) (by omega)
  rw [items_cons _ _ _ _ _ _ (item_space _ _), trimStart_space _ hws, htl]
  have hne : 48 + (hourOf t).toNat / 10 ≠ 84 := by omega
  have hlit : ∀ p : Parsed, Parse.parseItemBase p ((48 + (hourOf t).toNat / 10) :: tl) (.literal [84]) =
      .error .invalid := by
    intro p
    simp [Parse.parseItemBase, Parse.parseLiteral, hne, Except.map]
  simp only [Parse.parseItemsBase, hlit]
  rfl

end Chrono.Proofs.TextForms
