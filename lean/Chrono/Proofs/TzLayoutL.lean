/-
  C16, part 5: an accepted file has exactly the layout its header counts announce
  (counts that disagree with the data are rejected).
-/
import Chrono.Proofs.TzWrittenL

set_option linter.unusedSimpArgs false
set_option linter.unusedVariables false

namespace Chrono.Proofs.TzValid
open Chrono Chrono.M.Tz Chrono.Spec.Tz Chrono.Proofs Chrono.Proofs.Tz Chrono.Extracted.TzP

theorem hdrCount_lt (c : List Nat) (k : Nat) : hdrCount c k < 4294967296 := by
  unfold hdrCount
  have h1 := beNat_lt ((c.drop (20 + 4 * k)).take 4)
  have h2 : ((c.drop (20 + 4 * k)).take 4).length ≤ 4 := by simp [List.length_take]; omega
  have h3 : 256 ^ ((c.drop (20 + 4 * k)).take 4).length ≤ 256 ^ 4 := Nat.pow_le_pow_right (by omega) h2
  have h4 : (256 : Nat) ^ 4 = 4294967296 := by decide
  omega

theorem ckUsz_val {x n : Nat} (h : ckUsz x = .ok n) : n = x := by
  unfold ckUsz at h
  split at h
  · simp only [P.ok.injEq] at h; exact h.symm
  · cases h

theorem post_read_be_u32_at (c : Cursor) :
    Post (read_be_u32 c) (fun r => r.1 = beNat (c.take 4) ∧ r.2 = c.drop 4 ∧ 4 ≤ c.length) := by
  unfold read_be_u32
  rcases read_exact_cases c 4 with ⟨hl, h⟩ | h <;> rw [h]
  · exact post_ok ⟨rfl, rfl, hl⟩
  · exact post_err

/-- `Header.new` reads 44 bytes: the six counts are the big-endian words at offsets 20…43 and the
version is the one of byte 4 -/
theorem post_header_layout (c : Cursor) :
    Post (Header.new c) (fun r => r.2 = c.drop 44 ∧ 44 ≤ c.length
      ∧ versionOf ((c.drop 4).take 1) = some r.1.version
      ∧ r.1.ut_local_count = hdrCount c 0 ∧ r.1.std_wall_count = hdrCount c 1
      ∧ r.1.leap_count = hdrCount c 2 ∧ r.1.transition_count = hdrCount c 3
      ∧ r.1.type_count = hdrCount c 4 ∧ r.1.char_count = hdrCount c 5) := by
  have kr : RESERVED = 15 := rfl
  unfold Header.new
  refine post_bind (post_read_exact _ _) ?_
  rintro ⟨magic, c1⟩ - ⟨-, l1, -, e1⟩
  dsimp only at l1 e1 ⊢
  split
  · exact post_err
  · refine post_bind (post_read_exact _ _) ?_
    rintro ⟨vb, c2⟩ - ⟨-, l2, ev, e2⟩
    dsimp only at l2 ev e2 ⊢
    cases hv : versionOf vb with
    | none => exact post_err
    | some version =>
      dsimp only
      refine post_bind (post_read_exact _ _) ?_
      rintro ⟨rs, c3⟩ - ⟨-, l3, -, e3⟩
      refine post_bind (post_read_be_u32_at _) ?_
      rintro ⟨n1, c4⟩ - ⟨v1, e4, l4⟩
      refine post_bind (post_read_be_u32_at _) ?_
      rintro ⟨n2, c5⟩ - ⟨v2, e5, l5⟩
      refine post_bind (post_read_be_u32_at _) ?_
      rintro ⟨n3, c6⟩ - ⟨v3, e6, l6⟩
      refine post_bind (post_read_be_u32_at _) ?_
      rintro ⟨n4, c7⟩ - ⟨v4, e7, l7⟩
      refine post_bind (post_read_be_u32_at _) ?_
      rintro ⟨n5, c8⟩ - ⟨v5, e8, l8⟩
      refine post_bind (post_read_be_u32_at _) ?_
      rintro ⟨n6, c9⟩ - ⟨v6, e9, l9⟩
      dsimp only at l3 e3 v1 e4 l4 v2 e5 l5 v3 e6 l6 v4 e7 l7 v5 e8 l8 v6 e9 l9 ⊢
      rw [kr] at e3 l3
      have d3 : c3 = c.drop 20 := by rw [e3, e2, e1]; simp [List.drop_drop]
      have d4 : c4 = c.drop 24 := by rw [e4, d3]; simp [List.drop_drop]
      have d5 : c5 = c.drop 28 := by rw [e5, d4]; simp [List.drop_drop]
      have d6 : c6 = c.drop 32 := by rw [e6, d5]; simp [List.drop_drop]
      have d7 : c7 = c.drop 36 := by rw [e7, d6]; simp [List.drop_drop]
      have d8 : c8 = c.drop 40 := by rw [e8, d7]; simp [List.drop_drop]
      have d9 : c9 = c.drop 44 := by rw [e9, d8]; simp [List.drop_drop]
      split
      · exact post_err
      · refine post_ok ⟨d9, ?_, ?_, ?_, ?_, ?_, ?_, ?_, ?_⟩
        · rw [d8] at l9
          simp only [List.length_drop] at l9
          omega
        · dsimp only; rw [← e1, ← ev]; exact hv
        · dsimp only; rw [v1, d3]; rfl
        · dsimp only; rw [v2, d4]; rfl
        · dsimp only; rw [v3, d5]; rfl
        · dsimp only; rw [v4, d6]; rfl
        · dsimp only; rw [v5, d7]; rfl
        · dsimp only; rw [v6, d8]; rfl

/-- `State.new` consumes exactly the header and the data block the counts announce -/
theorem post_state_layout (c : Cursor) (first : Bool) :
    Post (State.new c first) (fun r =>
      r.2 = c.drop (announcedLen (if first then 4 else 8) c)
        ∧ announcedLen (if first then 4 else 8) c ≤ c.length
        ∧ versionOf ((c.drop 4).take 1) = some r.1.header.version
        ∧ r.1.header.transition_count = hdrCount c 3 ∧ r.1.header.type_count = hdrCount c 4
        ∧ r.1.header.leap_count = hdrCount c 2) := by
  have k : TYPE_RECORD = 6 := rfl
  unfold State.new
  refine post_bind (post_header_layout _) ?_
  rintro ⟨hd, c0⟩ - ⟨e0, l0, hver, q0, q1, q2, q3, q4, q5⟩
  dsimp only at e0 l0 hver q0 q1 q2 q3 q4 q5 ⊢
  generalize hT : (if first = true then 4 else 8) = ts
  have hts : ts ≤ 8 := by rw [← hT]; split <;> omega
  have b3 := hdrCount_lt c 3
  have b4 := hdrCount_lt c 4
  have b2 := hdrCount_lt c 2
  rw [← q3] at b3; rw [← q4] at b4; rw [← q2] at b2
  rw [ckUsz_ok (by
    have : hd.transition_count * ts ≤ 4294967296 * 8 := Nat.mul_le_mul (by omega) hts
    omega)]
  simp only [P.bind_ok]
  generalize en1 : hd.transition_count * ts = n1
  refine post_bind (post_read_exact _ _) ?_
  rintro ⟨tt, c1⟩ - ⟨-, l1, -, e1⟩
  refine post_bind (post_read_exact _ _) ?_
  rintro ⟨ty, c2⟩ - ⟨-, l2, -, e2⟩
  rw [k, ckUsz_ok (by omega)]
  simp only [P.bind_ok]
  generalize en3 : hd.type_count * 6 = n3
  refine post_bind (post_read_exact _ _) ?_
  rintro ⟨lt, c3⟩ - ⟨-, l3, -, e3⟩
  refine post_bind (post_read_exact _ _) ?_
  rintro ⟨nm, c4⟩ - ⟨-, l4, -, e4⟩
  rw [ckUsz_ok (by
    have : hd.leap_count * (ts + 4) ≤ 4294967296 * 12 := Nat.mul_le_mul (by omega) (by omega)
    omega)]
  simp only [P.bind_ok]
  generalize en5 : hd.leap_count * (ts + 4) = n5
  refine post_bind (post_read_exact _ _) ?_
  rintro ⟨ls, c5⟩ - ⟨-, l5, -, e5⟩
  refine post_bind (post_read_exact _ _) ?_
  rintro ⟨sw, c6⟩ - ⟨-, l6, -, e6⟩
  refine post_bind (post_read_exact _ _) ?_
  rintro ⟨ul, c7⟩ - ⟨-, l7, -, e7⟩
  dsimp only at l1 e1 l2 e2 l3 e3 l4 e4 l5 e5 l6 e6 l7 e7 ⊢
  have hA : announcedLen ts c = 44 + n1 + hd.transition_count + n3 + hd.char_count + n5
      + hd.std_wall_count + hd.ut_local_count := by
    unfold announcedLen
    rw [← q0, ← q1, ← q2, ← q3, ← q4, ← q5, en1, en3, en5]
  have hl0 : c0.length + 44 = c.length := by rw [e0]; simp only [List.length_drop]; omega
  refine post_ok ⟨?_, ?_, hver, q3, q4, q2⟩
  · dsimp only
    rw [e7, e6, e5, e4, e3, e2, e1, e0, hA]
    simp only [List.drop_drop]
    try (congr 1; omega)
  · rw [hA]
    omega

theorem accepted_layout' (bytes : List Nat) (z : Zone) (h : parse bytes = .ok z) :
    (versionOf ((bytes.drop 4).take 1) = some .V1 → bytes.length = announcedLen 4 bytes)
      ∧ (versionOf ((bytes.drop 4).take 1) ≠ some .V1 →
          bytes.length = announcedLen 4 bytes + announcedLen 8 (bytes.drop (announcedLen 4 bytes))
              + (footerOf bytes).length
            ∧ (footerOf bytes).head? = some 10 ∧ (footerOf bytes).getLast? = some 10) := by
  unfold parse at h
  obtain ⟨⟨st, fo⟩, hb, hrest⟩ := bind_eq_ok h
  have hb0 := hb
  unfold parseBlocks at hb
  obtain ⟨⟨st1, c1⟩, hs1, hb⟩ := bind_eq_ok hb
  have p1 := post_spec (post_state_layout bytes true) hs1
  obtain ⟨e1, l1, hv1, -, -, -⟩ := p1
  simp only [if_true] at e1 l1
  dsimp only at e1 l1 hv1 hb
  cases hver : st1.header.version with
  | V1 =>
    rw [hver] at hb hv1
    dsimp only at hb
    refine ⟨fun _ => ?_, fun hne => absurd hv1 hne⟩
    split at hb
    · rename_i hemp
      have : c1 = [] := by simpa using hemp
      rw [this] at e1
      have hlen := congrArg List.length e1
      simp only [List.length_nil, List.length_drop] at hlen
      omega
    · cases hb
  | V2 =>
    rw [hver] at hb hv1
    dsimp only at hb
    obtain ⟨⟨st2, c2⟩, hs2, hb⟩ := bind_eq_ok hb
    obtain ⟨hvv, hb⟩ := ite_err_ok hb
    simp only [Prod.mk.injEq] at hb
    obtain ⟨rfl, rfl⟩ := hb
    obtain ⟨e2, l2, -, -, -, -⟩ := post_spec (post_state_layout c1 false) hs2
    simp only [Bool.false_eq_true, if_false] at e2 l2
    refine ⟨fun hv => ?_, fun _ => ?_⟩
    · rw [hv1] at hv; cases hv
    · have hfo : footerOf bytes = c2 := by unfold footerOf; rw [hb0]
      obtain ⟨r, hr⟩ := parseRest_ok_footer hrest
      have hfr : c2.head? = some 10 ∧ c2.getLast? = some 10 := by
        by_cases g : c2.head? = some 10 ∧ c2.getLast? = some 10
        · exact g
        · rw [footer_framing' c2 _ g] at hr; cases hr
      rw [hfo, ← e1]
      refine ⟨?_, hfr⟩
      have h1 := congrArg List.length e1
      have h2 := congrArg List.length e2
      simp only [List.length_drop] at h1 h2
      omega
  | V3 =>
    rw [hver] at hb hv1
    dsimp only at hb
    obtain ⟨⟨st2, c2⟩, hs2, hb⟩ := bind_eq_ok hb
    obtain ⟨hvv, hb⟩ := ite_err_ok hb
    simp only [Prod.mk.injEq] at hb
    obtain ⟨rfl, rfl⟩ := hb
    obtain ⟨e2, l2, -, -, -, -⟩ := post_spec (post_state_layout c1 false) hs2
    simp only [Bool.false_eq_true, if_false] at e2 l2
    refine ⟨fun hv => ?_, fun _ => ?_⟩
    · rw [hv1] at hv; cases hv
    · have hfo : footerOf bytes = c2 := by unfold footerOf; rw [hb0]
      obtain ⟨r, hr⟩ := parseRest_ok_footer hrest
      have hfr : c2.head? = some 10 ∧ c2.getLast? = some 10 := by
        by_cases g : c2.head? = some 10 ∧ c2.getLast? = some 10
        · exact g
        · rw [footer_framing' c2 _ g] at hr; cases hr
      rw [hfo, ← e1]
      refine ⟨?_, hfr⟩
      have h1 := congrArg List.length e1
      have h2 := congrArg List.length e2
      simp only [List.length_drop] at h1 h2
      omega

/-! ### allocation requests in bytes -/
theorem announced_ge (ts : Nat) (c : List Nat) (hts : 4 ≤ ts) :
    5 * (hdrCount c 3 + hdrCount c 4 + hdrCount c 2) ≤ announcedLen ts c := by
  unfold announcedLen
  have h1 : hdrCount c 3 * 4 ≤ hdrCount c 3 * ts := Nat.mul_le_mul_left _ hts
  have h2 : hdrCount c 2 * 8 ≤ hdrCount c 2 * (ts + 4) := Nat.mul_le_mul_left _ (by omega)
  omega

/-- the three `Vec::with_capacity` requests of `parse`, in BYTES (16-byte elements), together stay
below 3.2 times the input length -/
theorem capacityBytes_le (bytes : List Nat) : 5 * (capacityBytes bytes).sum ≤ 16 * bytes.length := by
  unfold capacityBytes capacities
  cases hb : parseBlocks bytes with
  | err => simp
  | panic => simp
  | ok x =>
    obtain ⟨st, fo⟩ := x
    have key : 5 * (st.header.transition_count + st.header.type_count + st.header.leap_count)
        ≤ bytes.length := by
      unfold parseBlocks at hb
      obtain ⟨⟨st1, c1⟩, hs1, hb⟩ := bind_eq_ok hb
      obtain ⟨e1, l1, -, q3, q4, q2⟩ := post_spec (post_state_layout bytes true) hs1
      simp only [if_true] at e1 l1
      dsimp only at e1 l1 q3 q4 q2 hb
      have g1 := announced_ge 4 bytes (by omega)
      cases hver : st1.header.version with
      | V1 =>
        rw [hver] at hb
        dsimp only at hb
        split at hb
        · simp only [P.ok.injEq, Prod.mk.injEq] at hb
          obtain ⟨rfl, -⟩ := hb
          rw [q3, q4, q2]; omega
        · cases hb
      | V2 =>
        rw [hver] at hb
        dsimp only at hb
        obtain ⟨⟨st2, c2⟩, hs2, hb⟩ := bind_eq_ok hb
        obtain ⟨hvv, hb⟩ := ite_err_ok hb
        simp only [Prod.mk.injEq] at hb
        obtain ⟨rfl, -⟩ := hb
        obtain ⟨-, l2, -, r3, r4, r2⟩ := post_spec (post_state_layout c1 false) hs2
        simp only [Bool.false_eq_true, if_false] at l2
        dsimp only at l2 r3 r4 r2
        have g2 := announced_ge 8 c1 (by omega)
        have hc1 : c1.length ≤ bytes.length := by rw [e1]; simp only [List.length_drop]; omega
        rw [r3, r4, r2]; omega
      | V3 =>
        rw [hver] at hb
        dsimp only at hb
        obtain ⟨⟨st2, c2⟩, hs2, hb⟩ := bind_eq_ok hb
        obtain ⟨hvv, hb⟩ := ite_err_ok hb
        simp only [Prod.mk.injEq] at hb
        obtain ⟨rfl, -⟩ := hb
        obtain ⟨-, l2, -, r3, r4, r2⟩ := post_spec (post_state_layout c1 false) hs2
        simp only [Bool.false_eq_true, if_false] at l2
        dsimp only at l2 r3 r4 r2
        have g2 := announced_ge 8 c1 (by omega)
        have hc1 : c1.length ≤ bytes.length := by rw [e1]; simp only [List.length_drop]; omega
        rw [r3, r4, r2]; omega
    have kb : ELEM_BYTES = 16 := rfl
    simp only [List.map_cons, List.map_nil, List.sum_cons, List.sum_nil, kb]
    omega

/-! ### the rule of an accepted zone is what its footer denotes -/
theorem parseRest_rule {st : State} {fo : Option (List Nat)} {z : Zone} (h : parseRest st fo = .ok z) :
    parseFooterOpt fo st.header.version = .ok z.rule := by
  unfold parseRest at h
  obtain ⟨tr, _, h⟩ := bind_eq_ok h
  obtain ⟨ty, _, h⟩ := bind_eq_ok h
  obtain ⟨lp, _, h⟩ := bind_eq_ok h
  split at h
  · cases h
  · obtain ⟨r, hr, h⟩ := bind_eq_ok h
    unfold Zone.new at h
    obtain ⟨u, _, h⟩ := bind_eq_ok h
    simp only [P.ok.injEq] at h
    subst h
    exact hr

theorem parseBlocks_footer {bytes : List Nat} {st : State} {fo : Option (List Nat)}
    (h : parseBlocks bytes = .ok (st, fo)) :
    (versionOf ((bytes.drop 4).take 1) = some .V1 ∧ fo = none)
      ∨ (versionOf ((bytes.drop 4).take 1) ≠ some .V1 ∧ ∃ c2, fo = some c2) := by
  unfold parseBlocks at h
  obtain ⟨⟨st1, c1⟩, hs1, h⟩ := bind_eq_ok h
  obtain ⟨-, -, hv1, -, -, -⟩ := post_spec (post_state_layout bytes true) hs1
  dsimp only at hv1 h
  cases hver : st1.header.version with
  | V1 =>
    rw [hver] at h hv1
    dsimp only at h
    split at h
    · simp only [P.ok.injEq, Prod.mk.injEq] at h
      exact Or.inl ⟨hv1, h.2.symm⟩
    · cases h
  | V2 =>
    rw [hver] at h hv1
    dsimp only at h
    obtain ⟨⟨st2, c2⟩, -, h⟩ := bind_eq_ok h
    obtain ⟨hvv, h⟩ := ite_err_ok h
    simp only [Prod.mk.injEq] at h
    exact Or.inr ⟨by rw [hv1]; simp, c2, h.2.symm⟩
  | V3 =>
    rw [hver] at h hv1
    dsimp only at h
    obtain ⟨⟨st2, c2⟩, -, h⟩ := bind_eq_ok h
    obtain ⟨hvv, h⟩ := ite_err_ok h
    simp only [Prod.mk.injEq] at h
    exact Or.inr ⟨by rw [hv1]; simp, c2, h.2.symm⟩

/-- what an `Ok` of the footer arm means -/
theorem parseFooter_ok_inv {f : List Nat} {v : Version} {r : Option Rule} (h : parseFooter f v = .ok r) :
    validUtf8 f = true ∧ (trimWs f).head? ≠ some 58 ∧ 0 ∉ trimWs f
      ∧ ((trimWs f = [] ∧ r = none) ∨ ∃ x, r = some x ∧ Denotes (v == .V3) (trimWs f) x) := by
  unfold parseFooter at h
  split at h
  · cases h
  · rename_i hu
    split at h
    · cases h
    · dsimp only at h
      split at h
      · cases h
      · rename_i hc
        simp only [Bool.or_eq_true, beq_iff_eq, List.contains_iff_mem, not_or] at hc
        refine ⟨by simpa using hu, hc.1, hc.2, ?_⟩
        split at h
        · rename_i he
          simp only [P.ok.injEq] at h
          exact Or.inl ⟨by simpa using he, h.symm⟩
        · obtain ⟨x, hx, h⟩ := bind_eq_ok h
          simp only [P.ok.injEq] at h
          exact Or.inr ⟨x, h.symm, tz_accepts_only' _ _ _ hx⟩

theorem accepted_footer' (bytes : List Nat) (z : Zone) (h : parse bytes = .ok z) :
    (versionOf ((bytes.drop 4).take 1) = some .V1 → z.rule = none)
      ∧ (versionOf ((bytes.drop 4).take 1) ≠ some .V1 →
          validUtf8 (footerOf bytes) = true ∧ (trimWs (footerOf bytes)).head? ≠ some 58
            ∧ 0 ∉ trimWs (footerOf bytes)
            ∧ ((trimWs (footerOf bytes) = [] ∧ z.rule = none)
                ∨ ∃ ext x, z.rule = some x ∧ Denotes ext (trimWs (footerOf bytes)) x)) := by
  unfold parse at h
  obtain ⟨⟨st, fo⟩, hb, hrest⟩ := bind_eq_ok h
  have hr := parseRest_rule hrest
  rcases parseBlocks_footer hb with ⟨hv, rfl⟩ | ⟨hv, c2, rfl⟩
  · refine ⟨fun _ => ?_, fun hne => absurd hv hne⟩
    simp only [parseFooterOpt, P.ok.injEq] at hr
    exact hr.symm
  · refine ⟨fun hv1 => absurd hv1 hv, fun _ => ?_⟩
    have hfo : footerOf bytes = c2 := by unfold footerOf; rw [hb]
    rw [hfo]
    obtain ⟨a, b, c, d⟩ := parseFooter_ok_inv (show parseFooter c2 st.header.version = .ok z.rule from hr)
    refine ⟨a, b, c, ?_⟩
    rcases d with d | ⟨x, hx, hd⟩
    · exact Or.inl d
    · exact Or.inr ⟨_, x, hx, hd⟩

end Chrono.Proofs.TzValid
